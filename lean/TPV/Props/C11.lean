/-
  C11 — samplers follow their named laws (uniform, even grid, Gaussian, Latin hypercube).

  The theorems are spread over four modules (all audited, see lean/obligations/C11.json):
    * Props/C11Meas.lean    1-D and product-measure laws of the parametrisations on [0,1]^m with Lebesgue
                            measure (interval, end-point pick, disc — full push-forward law —, ball radial /
                            height / azimuth cells, sphere surface cells), rejection = conditioning, law of the
                            first accepted proposal (uniform and Gaussian samplers), transport of the uniform law
                            by translations / linear maps, independent products
    * Props/C11Affine.lean  parallelogram and triangle: full push-forward laws (`par_law`, `tri_law`), the
                            mirror step is 2-to-1 and measure preserving, rotations / translations keep every share
    * Props/C11Strat.lean   Latin hypercube: exactly one point per slab; perimeter walks: every edge is traversed
                            with its own arclength parameter; interval grid evenness
    * Props/C11Joint.lean   joint law of the first n accepted proposals (Measure.pi / infinitePi); Props/C11Grid.lean: 2-D grid
                            evenness, circle-line arclength
    * Props/C11Finite.lean  finite (counting-measure) models with exact rational probabilities: union mixture law
                            (uniform iff the operands do not overlap; density ratio 1 + |A∩B|/|A| otherwise),
                            dependent-product acceptance (density ∝ fibre volume when the batch maximum is the
                            global one; false for small batches), "output = first n accepted proposals"
  This file adds the statements that combine them (perimeter laws) and keeps the full-strength statements that
  are not proved visible as `def … : Prop`.
-/
import TPV.Props.C11Meas
import TPV.Props.C11Affine
import TPV.Props.C11Strat
import TPV.Props.C11Finite
import TPV.Props.C11Grid

namespace TPV.Geom
open MeasureTheory Set

/-- **Perimeter parameter law.** The boundary samplers of parallelogram and triangle draw `u` uniformly and
    walk to the perimeter position `s = u·L` (`L` = total length).  Every arc `[a, b]` of the perimeter
    parameter receives the probability `(b − a)/L`, its share of the total length.  Together with
    `parBdryWalk_edge1 … 4` / `triBdryWalk_edge1 … 3` (on each edge the walk is the affine arclength
    parametrisation of that edge) this is uniformity with respect to arclength. -/
theorem perimeter_param_law (L a b : ℝ) (hL : 0 < L) (h0 : 0 ≤ a) (hab : a ≤ b) (hb : b ≤ L) :
    volume {u : ℝ | u ∈ Icc (0:ℝ) 1 ∧ u * L ∈ Icc a b} = ENNReal.ofReal ((b - a) / L) := by
  have h := interval_cell_law 0 L a b hL h0 hab hb
  simpa [intervalSample] using h

example : volume {u : ℝ | u ∈ Icc (0:ℝ) 1 ∧ u * 6 ∈ Icc 1 3} = ENNReal.ofReal ((3 - 1) / 6) :=
  perimeter_param_law 6 1 3 (by norm_num) (by norm_num) (by norm_num) (by norm_num)

/-- **Each edge of a parallelogram receives its own length share.** With side lengths `l1, l2 > 0` the
    sampler's perimeter position `u·2(l1+l2)` falls on the four edges (in walking order) with probabilities
    `l1/L, l2/L, l1/L, l2/L`, `L = 2(l1+l2)`. -/
theorem par_perimeter_edge_shares (l1 l2 : ℝ) (h1 : 0 < l1) (h2 : 0 < l2) :
    volume {u : ℝ | u ∈ Icc (0:ℝ) 1 ∧ u * (two * (l1 + l2)) ∈ Icc 0 l1} = ENNReal.ofReal (l1 / (2 * (l1 + l2))) ∧
    volume {u : ℝ | u ∈ Icc (0:ℝ) 1 ∧ u * (two * (l1 + l2)) ∈ Icc l1 (l1 + l2)} = ENNReal.ofReal (l2 / (2 * (l1 + l2))) ∧
    volume {u : ℝ | u ∈ Icc (0:ℝ) 1 ∧ u * (two * (l1 + l2)) ∈ Icc (l1 + l2) (2 * l1 + l2)} = ENNReal.ofReal (l1 / (2 * (l1 + l2))) ∧
    volume {u : ℝ | u ∈ Icc (0:ℝ) 1 ∧ u * (two * (l1 + l2)) ∈ Icc (2 * l1 + l2) (2 * (l1 + l2))} = ENNReal.ofReal (l2 / (2 * (l1 + l2))) := by
  have hL : (0:ℝ) < 2 * (l1 + l2) := by positivity
  rw [two_eq_real]
  refine ⟨?_, ?_, ?_, ?_⟩
  · have := perimeter_param_law (2 * (l1 + l2)) 0 l1 hL le_rfl h1.le (by linarith)
    simpa using this
  · have := perimeter_param_law (2 * (l1 + l2)) l1 (l1 + l2) hL h1.le (by linarith) (by linarith)
    simpa using this
  · have := perimeter_param_law (2 * (l1 + l2)) (l1 + l2) (2 * l1 + l2) hL (by linarith) (by linarith) (by linarith)
    rw [this]; congr 2; ring
  · have := perimeter_param_law (2 * (l1 + l2)) (2 * l1 + l2) (2 * (l1 + l2)) hL (by linarith) (by linarith) le_rfl
    rw [this]; congr 2; ring

example : volume {u : ℝ | u ∈ Icc (0:ℝ) 1 ∧ u * (two * (1 + 2)) ∈ Icc 1 (1 + 2)} = ENNReal.ofReal (2 / (2 * (1 + 2))) :=
  (par_perimeter_edge_shares 1 2 (by norm_num) (by norm_num)).2.1

/-- **Each edge of a triangle receives its own length share** (`TriangleBoundary`, perimeter position
    `u·(l1+l2+l3)`). -/
theorem tri_perimeter_edge_shares (l1 l2 l3 : ℝ) (h1 : 0 < l1) (h2 : 0 < l2) (h3 : 0 < l3) :
    volume {u : ℝ | u ∈ Icc (0:ℝ) 1 ∧ u * (l1 + l2 + l3) ∈ Icc 0 l1} = ENNReal.ofReal (l1 / (l1 + l2 + l3)) ∧
    volume {u : ℝ | u ∈ Icc (0:ℝ) 1 ∧ u * (l1 + l2 + l3) ∈ Icc l1 (l1 + l2)} = ENNReal.ofReal (l2 / (l1 + l2 + l3)) ∧
    volume {u : ℝ | u ∈ Icc (0:ℝ) 1 ∧ u * (l1 + l2 + l3) ∈ Icc (l1 + l2) (l1 + l2 + l3)} = ENNReal.ofReal (l3 / (l1 + l2 + l3)) := by
  have hL : (0:ℝ) < l1 + l2 + l3 := by positivity
  refine ⟨?_, ?_, ?_⟩
  · have := perimeter_param_law (l1 + l2 + l3) 0 l1 hL le_rfl h1.le (by linarith)
    simpa using this
  · have := perimeter_param_law (l1 + l2 + l3) l1 (l1 + l2) hL h1.le (by linarith) (by linarith)
    rw [this]; congr 2; ring
  · have := perimeter_param_law (l1 + l2 + l3) (l1 + l2) (l1 + l2 + l3) hL (by linarith) (by linarith) le_rfl
    rw [this]; congr 2; ring

example : volume {u : ℝ | u ∈ Icc (0:ℝ) 1 ∧ u * (3 + 4 + 5) ∈ Icc 3 (3 + 4)} = ENNReal.ofReal (4 / (3 + 4 + 5)) :=
  (tri_perimeter_edge_shares 3 4 5 (by norm_num) (by norm_num) (by norm_num)).2.1

/-- **Uniform angle on the circle line** (`CircleBoundary.sample_random_uniform`): the arc with angles in
    `[α, β]` has probability `(β − α)/2π`, its share of the circumference. -/
theorem circle_arc_law (α β : ℝ) (h0 : 0 ≤ α) (hab : α ≤ β) (h1 : β ≤ 2 * Real.pi) :
    volume {v : ℝ | v ∈ Icc (0:ℝ) 1 ∧ two * Transc.pi * v ∈ Icc α β} = ENNReal.ofReal ((β - α) / (2 * Real.pi)) :=
  disc_angle_law α β h0 hab h1

example : volume {v : ℝ | v ∈ Icc (0:ℝ) 1 ∧ two * Transc.pi * v ∈ Icc 0 Real.pi} = ENNReal.ofReal ((Real.pi - 0) / (2 * Real.pi)) :=
  circle_arc_law 0 Real.pi le_rfl Real.pi_pos.le (by linarith [Real.pi_pos])

/-! ### the perimeter samplers of the model are these walks, traversed at unit speed -/

/-- `ParallelogramBoundary.sample_random_uniform` IS the perimeter walk at position `u·2(l₁+l₂)` with the side
    lengths the code computes with norms (definitional unfolding of the model). -/
theorem parBdrySample_eq_walk (ox oy ax ay bx cy u : ℝ) :
    parBdrySample ox oy ax ay bx cy u =
      parBdryWalk ox oy ax ay bx cy (norm2 (ax - ox) (ay - oy)) (norm2 (bx - ox) (cy - oy))
        (u * (two * (norm2 (ax - ox) (ay - oy) + norm2 (bx - ox) (cy - oy)))) := rfl

/-- `TriangleBoundary.sample_random_uniform` IS the perimeter walk at position `u·(l₁+l₂+l₃)`. -/
theorem triBdrySample_eq_walk (ox oy ax ay bx cy u : ℝ) :
    triBdrySample ox oy ax ay bx cy u =
      triBdryWalk ox oy ax ay bx cy (norm2 (ax - ox) (ay - oy)) (norm2 (bx - ax) (cy - ay)) (norm2 (ox - bx) (oy - cy))
        (u * (norm2 (ax - ox) (ay - oy) + norm2 (bx - ax) (cy - ay) + norm2 (ox - bx) (oy - cy))) := rfl

/-- the model's `norm2` is the Euclidean length: its square is `x² + y²`, and it is positive for a non-zero vector
    (the hypotheses `0 < l₁, l₂, l₃` of the edge theorems hold for non-degenerate shapes) -/
theorem norm2_sq (x y : ℝ) : norm2 x y ^ 2 = x ^ 2 + y ^ 2 := by
  show Real.sqrt (x * x + y * y) ^ 2 = _
  rw [Real.sq_sqrt (by nlinarith [sq_nonneg x, sq_nonneg y])]; ring

theorem norm2_pos (x y : ℝ) (h : x ≠ 0 ∨ y ≠ 0) : 0 < norm2 x y := by
  show 0 < Real.sqrt (x * x + y * y)
  apply Real.sqrt_pos.2
  rcases h with h | h
  · nlinarith [sq_nonneg y, sq_pos_of_ne_zero h]
  · nlinarith [sq_nonneg x, sq_pos_of_ne_zero h]

/-- **Unit speed on an edge**: two perimeter positions `s, s'` on the same edge (start `p`, direction `d`, length
    `l = |d|`, start parameter `a`; the form all `…BdryWalk_edge…` theorems give) are mapped to points whose Euclidean
    distance is `|s' − s|`: the perimeter parameter is arclength, so the uniform parameter (`perimeter_param_law`) is
    the uniform law with respect to arclength. -/
theorem edge_unit_speed (px py dx dy l a s s' : ℝ) (hl : 0 < l) (hlen : l ^ 2 = dx ^ 2 + dy ^ 2) :
    ((px + (s' - a) / l * dx) - (px + (s - a) / l * dx)) ^ 2 + ((py + (s' - a) / l * dy) - (py + (s - a) / l * dy)) ^ 2
      = (s' - s) ^ 2 := by
  have hl0 : l ≠ 0 := hl.ne'
  have : ((px + (s' - a) / l * dx) - (px + (s - a) / l * dx)) ^ 2 + ((py + (s' - a) / l * dy) - (py + (s - a) / l * dy)) ^ 2
      = (s' - s) ^ 2 / l ^ 2 * (dx ^ 2 + dy ^ 2) := by field_simp; ring
  rw [this, ← hlen]; field_simp

example : ((0 + ((3:ℝ) - 1) / 5 * 3) - (0 + (2 - 1) / 5 * 3)) ^ 2 + ((0 + ((3:ℝ) - 1) / 5 * 4) - (0 + (2 - 1) / 5 * 4)) ^ 2 = (3 - 2) ^ 2 :=
  edge_unit_speed 0 0 3 4 5 1 2 3 (by norm_num) (by norm_num)

/-- second edge of the coded parallelogram boundary sampler, with the code's own lengths: for a non-degenerate
    parallelogram and a draw `u` whose perimeter position lies on edge 2, the sample is `corner_1 + ((s − l₁)/l₂)·dir_2`. -/
theorem parBdrySample_edge2 (ox oy ax ay bx cy u : ℝ) (h1 : ax - ox ≠ 0 ∨ ay - oy ≠ 0) (h2 : bx - ox ≠ 0 ∨ cy - oy ≠ 0)
    (hs0 : norm2 (ax - ox) (ay - oy) ≤ u * (two * (norm2 (ax - ox) (ay - oy) + norm2 (bx - ox) (cy - oy))))
    (hs1 : u * (two * (norm2 (ax - ox) (ay - oy) + norm2 (bx - ox) (cy - oy))) ≤
      norm2 (ax - ox) (ay - oy) + norm2 (bx - ox) (cy - oy)) :
    parBdrySample ox oy ax ay bx cy u =
      (ax + (u * (two * (norm2 (ax - ox) (ay - oy) + norm2 (bx - ox) (cy - oy))) - norm2 (ax - ox) (ay - oy)) /
          norm2 (bx - ox) (cy - oy) * (bx - ox),
       ay + (u * (two * (norm2 (ax - ox) (ay - oy) + norm2 (bx - ox) (cy - oy))) - norm2 (ax - ox) (ay - oy)) /
          norm2 (bx - ox) (cy - oy) * (cy - oy)) := by
  rw [parBdrySample_eq_walk]
  exact parBdryWalk_edge2 _ _ _ _ _ _ _ _ _ (norm2_pos _ _ h1) (norm2_pos _ _ h2) hs0 hs1

/-! ### non-vacuity examples for the push-forward laws of C11Affine / C11Meas -/

example : Measure.map (parMap 1 1 3 1 2 4) (volume.restrict (Icc 0 1)) =
    (ENNReal.ofReal |parDet 1 1 3 1 2 4|)⁻¹ • volume.restrict (parMap 1 1 3 1 2 4 '' Icc 0 1) :=
  par_law 1 1 3 1 2 4 (by norm_num [parDet])

example : Measure.map (triMap 1 1 3 1 2 4) (volume.restrict (Icc 0 1)) =
    (ENNReal.ofReal |parDet 1 1 3 1 2 4| / 2)⁻¹ • volume.restrict (parMap 1 1 3 1 2 4 '' triT) :=
  tri_law 1 1 3 1 2 4 (by norm_num [parDet])

example (D : Set (Fin 2 → ℝ)) : Measure.map (parMap 1 1 3 1 2 4) (volume.restrict D) =
    (ENNReal.ofReal |parDet 1 1 3 1 2 4|)⁻¹ • volume.restrict (parMap 1 1 3 1 2 4 '' D) :=
  par_law_on 1 1 3 1 2 4 (by norm_num [parDet]) D

/-- instance of `cond_map_of_scaling`: the translation by `t` as a measurable equivalence of the plane (scaling factor 1) -/
example (t : ℝ × ℝ) (D : Set (ℝ × ℝ)) :
    Measure.map (MeasurableEquiv.addRight t) (ProbabilityTheory.cond volume D) =
      ProbabilityTheory.cond volume (MeasurableEquiv.addRight t '' D) :=
  cond_map_of_scaling volume (MeasurableEquiv.addRight t) 1 one_ne_zero ENNReal.one_ne_top
    (by rw [one_smul]; exact map_add_right_eq_self volume t) D

/-- instance of `scaling_map_law` / `image_cell_law`: the quarter turn about (5, 7) -/
example (D : Set (Fin 2 → ℝ)) : Measure.map (rotateMap 0 (-1) 1 0 5 7) (volume.restrict D) =
    (1 : ENNReal)⁻¹ • volume.restrict (rotateMap 0 (-1) 1 0 5 7 '' D) :=
  scaling_map_law _ (rotateMap_measurable _ _ _ _ _ _) 1 one_ne_zero ENNReal.one_ne_top
    (fun R => by rw [one_mul]; exact rotation_image_volume 0 (-1) 1 0 5 7 (by norm_num) R) D

/-! ### re-reading the draws: the law does not depend on WHICH uniform draw feeds which coordinate -/

/-- **The law of a sampler is invariant under measure-preserving re-readings of its draws**: if `σ` preserves the law
    `μ` of the draws, the sampler `f ∘ σ` has the same law as `f`.  (The tape correspondence of `harness/c11.py` therefore
    accepts an implementation that equals the model parametrisation after reflecting draws `u ↦ 1 − u` and / or permuting
    the draws of a row — e.g. a sphere height `2u − 1` instead of `1 − 2u`.) -/
theorem law_of_reparam {α β : Type*} [MeasurableSpace α] [MeasurableSpace β] (μ : Measure α) (σ : α → α) (f : α → β)
    (hσ : MeasurePreserving σ μ μ) (hf : Measurable f) : Measure.map (f ∘ σ) μ = Measure.map f μ := by
  rw [← Measure.map_map hf hσ.measurable, hσ.map_eq]

/-- the reflection `u ↦ 1 − u` preserves the uniform law on `[0,1]` -/
theorem reflect_uniform_mp :
    MeasurePreserving (fun u : ℝ => 1 - u) (volume.restrict (Icc (0:ℝ) 1)) (volume.restrict (Icc (0:ℝ) 1)) := by
  have h := (Measure.measurePreserving_sub_left (volume : Measure ℝ) (1:ℝ)).restrict_preimage (measurableSet_Icc (a := (0:ℝ)) (b := 1))
  have hpre : (fun u : ℝ => 1 - u) ⁻¹' Icc (0:ℝ) 1 = Icc 0 1 := by
    ext u; simp only [mem_preimage, mem_Icc]; constructor <;> rintro ⟨h0, h1⟩ <;> constructor <;> linarith
  rwa [hpre] at h

/-- swapping the two draws of a row preserves the uniform law on the unit square -/
theorem swap_uniform_mp :
    MeasurePreserving (Prod.swap : ℝ × ℝ → ℝ × ℝ) (volume.restrict (Icc (0:ℝ) 1 ×ˢ Icc (0:ℝ) 1))
      (volume.restrict (Icc (0:ℝ) 1 ×ˢ Icc (0:ℝ) 1)) := by
  have h := (Measure.measurePreserving_swap (μ := (volume : Measure ℝ)) (ν := (volume : Measure ℝ))).restrict_preimage
    ((measurableSet_Icc (a := (0:ℝ)) (b := 1)).prod (measurableSet_Icc (a := (0:ℝ)) (b := 1)))
  have hpre : (Prod.swap : ℝ × ℝ → ℝ × ℝ) ⁻¹' (Icc (0:ℝ) 1 ×ˢ Icc (0:ℝ) 1) = Icc (0:ℝ) 1 ×ˢ Icc (0:ℝ) 1 := by
    ext ⟨a, b⟩; simp only [mem_preimage, Prod.swap_prod_mk, mem_prod]; tauto
  rw [hpre] at h
  exact h

/-- example: reading the interval sampler with the reflected draw gives the same (uniform) law -/
example : Measure.map (intervalSample (1:ℝ) 3 ∘ fun u => 1 - u) (volume.restrict (Icc 0 1)) =
    (ENNReal.ofReal (3 - 1))⁻¹ • volume.restrict (Icc 1 3) := by
  rw [law_of_reparam _ _ _ reflect_uniform_mp (by unfold intervalSample; fun_prop)]
  exact interval_law 1 3 (by norm_num)

/-! ### parallelogram grid: cells along one side (the bound the grid oracle of harness/c11.py uses) -/

/-- all `n` inner nodes `(j+1)/(n+1)` lie in `[0, 1)` -/
theorem linInner_all_in_unit (n : ℕ) :
    ((List.range n).filter fun j => decide ((0:ℚ) ≤ linInner (K := ℚ) n j ∧ linInner (K := ℚ) n j < 1)).length = n := by
  rw [interval_grid_count n 0 1 le_rfl]
  simp only [zero_mul, Nat.ceil_zero, one_mul]
  have : ⌈((n:ℚ) + 1)⌉₊ = n + 1 := by
    have h : ((n:ℚ) + 1) = ((n + 1 : ℕ) : ℚ) := by push_cast; ring
    rw [h, Nat.ceil_natCast]
  rw [this]; omega

/-- **Cells along one side of the parallelogram mesh.**  A strip `[a, b) × [0, 1)` of the barycentric square (a cell that cuts
    the parallelogram only along its first side) holds `n₁·n₂·(b − a)` of the `n₁ × n₂` mesh nodes up to an error of less than
    `2·n₂` nodes, `n₂` = number of nodes ACROSS: a long thin parallelogram (small `n₂`) is covered evenly along its long side.
    This is the bound of the grid-evenness oracle; a grid that is cut to its first `n` nodes (all in one half) violates it. -/
theorem baryGrid_strip_even (n1 n2 : ℕ) (a b : ℚ) (h0 : 0 ≤ a) (hab : a ≤ b) (h1 : b ≤ 1) (hn2 : 0 < n2) :
    (n1 : ℚ) * n2 * (b - a) - 2 * n2 <
        (((List.range (n1 * n2)).filter fun idx =>
          decide ((a ≤ (baryGrid (K := ℚ) n1 n2 idx).1 ∧ (baryGrid (K := ℚ) n1 n2 idx).1 < b) ∧
            ((0:ℚ) ≤ (baryGrid (K := ℚ) n1 n2 idx).2 ∧ (baryGrid (K := ℚ) n1 n2 idx).2 < 1))).length : ℚ) ∧
      (((List.range (n1 * n2)).filter fun idx =>
          decide ((a ≤ (baryGrid (K := ℚ) n1 n2 idx).1 ∧ (baryGrid (K := ℚ) n1 n2 idx).1 < b) ∧
            ((0:ℚ) ≤ (baryGrid (K := ℚ) n1 n2 idx).2 ∧ (baryGrid (K := ℚ) n1 n2 idx).2 < 1))).length : ℚ) <
        (n1 : ℚ) * n2 * (b - a) + 2 * n2 := by
  rw [baryGrid_count_factor, linInner_all_in_unit]
  obtain ⟨hl, hu⟩ := interval_grid_even n1 a b h0 hab h1
  have hpos : (0:ℚ) < n2 := by exact_mod_cast hn2
  push_cast
  constructor <;> nlinarith

example : ((3:ℕ) : ℚ) * (2:ℕ) * (1 / 2 - 0) - 2 * (2:ℕ) <
    (((List.range (3 * 2)).filter fun idx =>
      decide (((0:ℚ) ≤ (baryGrid (K := ℚ) 3 2 idx).1 ∧ (baryGrid (K := ℚ) 3 2 idx).1 < 1 / 2) ∧
        ((0:ℚ) ≤ (baryGrid (K := ℚ) 3 2 idx).2 ∧ (baryGrid (K := ℚ) 3 2 idx).2 < 1))).length : ℚ) :=
  (baryGrid_strip_even 3 2 0 (1 / 2) le_rfl (by norm_num) (by norm_num) (by norm_num)).1

/-! ### evaluated domains `D(**σ)`: the sampler of an evaluated copy is the parent's sampler at the extended parameter row -/

/-- **Sampling an evaluated domain = sampling the parent with the values supplied as parameters.**  For every primitive and
    primitive boundary, every partial assignment `σ` (the `D(t = …)` of the code), every remaining parameter row `ρ` and all
    draws, the evaluated copy `D.peval σ` returns exactly the point the parent returns at the row `ρ ++ σ`.  Evaluation is a
    pure function of `(D, σ)`: copies made from one parent at different values are independent of each other and of the order
    in which they were created (in the code: `partially_evaluate` must deep-copy the defaults; a copy that shares them re-binds
    the earlier siblings — the object-history stream of harness/c11.py samples EARLIER copies after LATER ones were made). -/
theorem primSample_peval {K : Type} [Add K] [Sub K] [Mul K] [Div K] [Neg K] [LE K] [DecidableLE K] [OfNat K 0] [OfNat K 1]
    [Transc K] (D : Dom K) (σ ρ : Env K) (tape : List K) :
    primSample (D.peval σ) ρ tape = primSample D (ρ ++ σ) tape := by
  rcases tape with _ | ⟨a, _ | ⟨b, _ | ⟨c, _ | ⟨d, t⟩⟩⟩⟩ <;>
    cases D with
    | bdry d => cases d <;> rfl
    | bdryL d => cases d <;> rfl
    | bdryR d => cases d <;> rfl
    | _ => rfl

/-- two evaluated copies of one parent: sampling the first one does not depend on the second one having been made
    (stated for the model, where it is true by construction; the code is held to it by the correspondence) -/
theorem primSample_peval_siblings {K : Type} [Add K] [Sub K] [Mul K] [Div K] [Neg K] [LE K] [DecidableLE K] [OfNat K 0]
    [OfNat K 1] [Transc K] (D : Dom K) (σ₁ σ₂ ρ : Env K) (tape : List K) :
    (primSample (D.peval σ₁) ρ tape, primSample (D.peval σ₂) ρ tape) =
      (primSample D (ρ ++ σ₁) tape, primSample D (ρ ++ σ₂) tape) := by
  rw [primSample_peval, primSample_peval]

/-- an interval whose upper bound `t + D` is ONE function of two outside variables: `D(t = 1)` is a partial evaluation -/
noncomputable def exEvalInterval : Dom ℝ :=
  .interval "y" (PFun.const [0]) ⟨["t", "D"], fun e => match e.get "t", e.get "D" with | some [t], some [d] => [t + d] | _, _ => []⟩

example : primSample (exEvalInterval.peval [("t", [1])]) [("D", [5])] [1 / 2] =
    primSample exEvalInterval ([("D", [5])] ++ [("t", [1])]) [1 / 2] :=
  primSample_peval _ _ _ _

/-! ### boundaries of Boolean combinations: the alternate-and-truncate loop is biased for small n (negative result) -/

/-- **The n-point sampler of a Boolean boundary is not uniform for small n.**  `_random_points_boundary` proposes
    `⌊n·|∂A|/|∂D|⌋ + 1` points on `∂A`, then `⌊n·|∂B|/|∂D|⌋ + 1` points on `∂B`, alternately, and returns the first `n` accepted
    ones.  Witness: two disjoint operands (every proposal is accepted), `|∂A|/|∂D| = 0.58`, `n = 2`: the requests are `2` and
    `1`, the first round already delivers `n` points, and BOTH returned points come from `∂A` — the arc of `A` receives the share
    `1` instead of `0.58`, in every call.  (For overlapping operands with the exact measure set by `set_volume` the bias is of
    order `1/√n`: measured 0.80 / 0.65 / 0.60 instead of 0.58 for n = 2 / 10 / 100.)  Open finding
    `boolean_boundary_small_n_bias`. -/
theorem bdry_alternation_small_n_biased :
    accLoop 2 (bdryProp (fun _ m => List.replicate m "a") (fun _ m => List.replicate m "b") 2 1) (fun _ => true)
      (fun _ _ => false) 5 0 [] = some (1, ["a", "a"]) := by decide

end TPV.Geom
