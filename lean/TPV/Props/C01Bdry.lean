/-
  C01, part 2 — boundary parametrisations land exactly on the boundary (perimeter walks, circle line, sphere
  surface, interval end points), are accepted by the boundary test in exact arithmetic (C05's accept theorems),
  and all grid parametrisations land in the denoted set / on the boundary.
-/
import TPV.Props.C01


namespace TPV.Geom
set_option linter.unusedSectionVars false
variable {K : Type} [Field K] [LinearOrder K] [IsStrictOrderedRing K]

theorem clamp01_of_nonpos (x : K) (h : x ≤ 0) : clamp01 x = 0 := by
  simp [clamp01, h]

theorem clamp01_of_one_le (x : K) (h : 1 ≤ x) : clamp01 x = 1 := by
  have : ¬ x ≤ 0 := by intro h0; linarith
  simp [clamp01, this, h]

theorem clamp01_mid (x : K) (h0 : 0 ≤ x) (h1 : x ≤ 1) : clamp01 x = x := by
  unfold clamp01
  split
  · rename_i h; rw [le_iff] at h; exact le_antisymm h0 h
  · split
    · rename_i h; rw [le_iff] at h; exact le_antisymm h h1
    · rfl

/-- the closed edges of the unit square in barycentric coordinates -/
def ParEdge (a b : K) : Prop := ((a = 0 ∨ a = 1) ∧ 0 ≤ b ∧ b ≤ 1) ∨ ((b = 0 ∨ b = 1) ∧ 0 ≤ a ∧ a ≤ 1)

/-- the closed edges of the unit triangle in barycentric coordinates -/
def TriEdge (a b : K) : Prop := (a = 0 ∧ 0 ≤ b ∧ b ≤ 1) ∨ (b = 0 ∧ 0 ≤ a ∧ a ≤ 1) ∨ (a + b = 1 ∧ 0 ≤ a ∧ 0 ≤ b)

/-- **perimeter walk of the parallelogram**: for any positive side lengths `l1`, `l2` (the code uses the
    Euclidean norms; nothing about them is needed) and every position `0 ≤ s ≤ 2(l1 + l2)` the walk ends
    at `o + a·d₁ + b·d₂` with `(a, b)` on a closed edge of the unit square. -/
theorem parBdryWalk_edge (ox oy ax ay bx cy l1 l2 s : K) (h1 : 0 < l1) (h2 : 0 < l2) (hs0 : 0 ≤ s)
    (hs1 : s ≤ 2 * (l1 + l2)) :
    ∃ a b, ParEdge a b ∧
      parBdryWalk ox oy ax ay bx cy l1 l2 s = (ox + a * (ax - ox) + b * (bx - ox), oy + a * (ay - oy) + b * (cy - oy)) := by
  simp only [parBdryWalk, walkStep]
  by_cases c1 : s ≤ l1
  · -- first side
    have e1 : clamp01 (s / l1) = s / l1 := clamp01_mid _ (div_nonneg hs0 h1.le) ((div_le_one h1).2 c1)
    have e2 : clamp01 ((s - l1) / l2) = 0 := clamp01_of_nonpos _ (div_nonpos_of_nonpos_of_nonneg (by linarith) h2.le)
    have e3 : clamp01 ((s - l1 - l2) / l1) = 0 := clamp01_of_nonpos _ (div_nonpos_of_nonpos_of_nonneg (by linarith) h1.le)
    have e4 : clamp01 ((s - l1 - l2 - l1) / l2) = 0 := clamp01_of_nonpos _ (div_nonpos_of_nonpos_of_nonneg (by linarith) h2.le)
    refine ⟨s / l1, 0, Or.inr ⟨Or.inl rfl, div_nonneg hs0 h1.le, (div_le_one h1).2 c1⟩, ?_⟩
    rw [e1, e2, e3, e4]; refine Prod.ext ?_ ?_ <;> simp only [] <;> ring
  · rw [not_le] at c1
    by_cases c2 : s ≤ l1 + l2
    · have e1 : clamp01 (s / l1) = 1 := clamp01_of_one_le _ ((one_le_div h1).2 c1.le)
      have e2 : clamp01 ((s - l1) / l2) = (s - l1) / l2 :=
        clamp01_mid _ (div_nonneg (by linarith) h2.le) ((div_le_one h2).2 (by linarith))
      have e3 : clamp01 ((s - l1 - l2) / l1) = 0 := clamp01_of_nonpos _ (div_nonpos_of_nonpos_of_nonneg (by linarith) h1.le)
      have e4 : clamp01 ((s - l1 - l2 - l1) / l2) = 0 := clamp01_of_nonpos _ (div_nonpos_of_nonpos_of_nonneg (by linarith) h2.le)
      refine ⟨1, (s - l1) / l2, Or.inl ⟨Or.inr rfl, div_nonneg (by linarith) h2.le, (div_le_one h2).2 (by linarith)⟩, ?_⟩
      rw [e1, e2, e3, e4]; refine Prod.ext ?_ ?_ <;> simp only [] <;> ring
    · rw [not_le] at c2
      by_cases c3 : s ≤ l1 + l2 + l1
      · have e1 : clamp01 (s / l1) = 1 := clamp01_of_one_le _ ((one_le_div h1).2 c1.le)
        have e2 : clamp01 ((s - l1) / l2) = 1 := clamp01_of_one_le _ ((one_le_div h2).2 (by linarith))
        have e3 : clamp01 ((s - l1 - l2) / l1) = (s - l1 - l2) / l1 :=
          clamp01_mid _ (div_nonneg (by linarith) h1.le) ((div_le_one h1).2 (by linarith))
        have e4 : clamp01 ((s - l1 - l2 - l1) / l2) = 0 := clamp01_of_nonpos _ (div_nonpos_of_nonpos_of_nonneg (by linarith) h2.le)
        refine ⟨1 - (s - l1 - l2) / l1, 1, Or.inr ⟨Or.inr rfl, ?_, ?_⟩, ?_⟩
        · have := (div_le_one h1).2 (show s - l1 - l2 ≤ l1 by linarith); linarith
        · have := div_nonneg (show 0 ≤ s - l1 - l2 by linarith) h1.le; linarith
        · rw [e1, e2, e3, e4]; refine Prod.ext ?_ ?_ <;> simp only [] <;> ring
      · rw [not_le] at c3
        have e1 : clamp01 (s / l1) = 1 := clamp01_of_one_le _ ((one_le_div h1).2 c1.le)
        have e2 : clamp01 ((s - l1) / l2) = 1 := clamp01_of_one_le _ ((one_le_div h2).2 (by linarith))
        have e3 : clamp01 ((s - l1 - l2) / l1) = 1 := clamp01_of_one_le _ ((one_le_div h1).2 (by linarith))
        have e4 : clamp01 ((s - l1 - l2 - l1) / l2) = (s - l1 - l2 - l1) / l2 :=
          clamp01_mid _ (div_nonneg (by linarith) h2.le) ((div_le_one h2).2 (by linarith))
        refine ⟨0, 1 - (s - l1 - l2 - l1) / l2, Or.inl ⟨Or.inl rfl, ?_, ?_⟩, ?_⟩
        · have := (div_le_one h2).2 (show s - l1 - l2 - l1 ≤ l2 by linarith); linarith
        · have := div_nonneg (show 0 ≤ s - l1 - l2 - l1 by linarith) h2.le; linarith
        · rw [e1, e2, e3, e4]; refine Prod.ext ?_ ?_ <;> simp only [] <;> ring

/-- **perimeter walk of the triangle**: positive side lengths, `0 ≤ s ≤ l1 + l2 + l3` -/
theorem triBdryWalk_edge (ox oy ax ay bx cy l1 l2 l3 s : K) (h1 : 0 < l1) (h2 : 0 < l2) (h3 : 0 < l3) (hs0 : 0 ≤ s)
    (hs1 : s ≤ l1 + l2 + l3) :
    ∃ a b, TriEdge a b ∧
      triBdryWalk ox oy ax ay bx cy l1 l2 l3 s = (ox + a * (ax - ox) + b * (bx - ox), oy + a * (ay - oy) + b * (cy - oy)) := by
  simp only [triBdryWalk, walkStep]
  by_cases c1 : s ≤ l1
  · have e1 : clamp01 (s / l1) = s / l1 := clamp01_mid _ (div_nonneg hs0 h1.le) ((div_le_one h1).2 c1)
    have e2 : clamp01 ((s - l1) / l2) = 0 := clamp01_of_nonpos _ (div_nonpos_of_nonpos_of_nonneg (by linarith) h2.le)
    have e3 : clamp01 ((s - l1 - l2) / l3) = 0 := clamp01_of_nonpos _ (div_nonpos_of_nonpos_of_nonneg (by linarith) h3.le)
    refine ⟨s / l1, 0, Or.inr (Or.inl ⟨rfl, div_nonneg hs0 h1.le, (div_le_one h1).2 c1⟩), ?_⟩
    rw [e1, e2, e3]; refine Prod.ext ?_ ?_ <;> simp only [] <;> ring
  · rw [not_le] at c1
    by_cases c2 : s ≤ l1 + l2
    · have e1 : clamp01 (s / l1) = 1 := clamp01_of_one_le _ ((one_le_div h1).2 c1.le)
      have e2 : clamp01 ((s - l1) / l2) = (s - l1) / l2 :=
        clamp01_mid _ (div_nonneg (by linarith) h2.le) ((div_le_one h2).2 (by linarith))
      have e3 : clamp01 ((s - l1 - l2) / l3) = 0 := clamp01_of_nonpos _ (div_nonpos_of_nonpos_of_nonneg (by linarith) h3.le)
      have hq0 := div_nonneg (show 0 ≤ s - l1 by linarith) h2.le
      have hq1 := (div_le_one h2).2 (show s - l1 ≤ l2 by linarith)
      refine ⟨1 - (s - l1) / l2, (s - l1) / l2, Or.inr (Or.inr ⟨by ring, by linarith, hq0⟩), ?_⟩
      rw [e1, e2, e3]; refine Prod.ext ?_ ?_ <;> simp only [] <;> ring
    · rw [not_le] at c2
      have e1 : clamp01 (s / l1) = 1 := clamp01_of_one_le _ ((one_le_div h1).2 c1.le)
      have e2 : clamp01 ((s - l1) / l2) = 1 := clamp01_of_one_le _ ((one_le_div h2).2 (by linarith))
      have e3 : clamp01 ((s - l1 - l2) / l3) = (s - l1 - l2) / l3 :=
        clamp01_mid _ (div_nonneg (by linarith) h3.le) ((div_le_one h3).2 (by linarith))
      have hq0 := div_nonneg (show 0 ≤ s - l1 - l2 by linarith) h3.le
      have hq1 := (div_le_one h3).2 (show s - l1 - l2 ≤ l3 by linarith)
      refine ⟨0, 1 - (s - l1 - l2) / l3, Or.inl ⟨rfl, by linarith, by linarith⟩, ?_⟩
      rw [e1, e2, e3]; refine Prod.ext ?_ ?_ <;> simp only [] <;> ring

end TPV.Geom

namespace TPV.Geom
set_option linter.unusedSectionVars false
variable {K : Type} [Field K] [LinearOrder K] [IsStrictOrderedRing K]

theorem two_eq : (two : K) = 2 := by unfold two; norm_num

theorem sq_sum_pos_of_det (d1x d1y d2x d2y : K) (hdet : d1x * d2y - d1y * d2x ≠ 0) :
    0 < d1x * d1x + d1y * d1y ∧ 0 < d2x * d2x + d2y * d2y ∧
    0 < (d2x - d1x) * (d2x - d1x) + (d2y - d1y) * (d2y - d1y) := by
  refine ⟨?_, ?_, ?_⟩
  · rcases lt_or_eq_of_le (add_nonneg (mul_self_nonneg d1x) (mul_self_nonneg d1y)) with h | h
    · exact h
    · exfalso; obtain ⟨hx, hy⟩ := mul_self_add_mul_self_eq_zero.1 h.symm
      apply hdet; rw [hx, hy]; ring
  · rcases lt_or_eq_of_le (add_nonneg (mul_self_nonneg d2x) (mul_self_nonneg d2y)) with h | h
    · exact h
    · exfalso; obtain ⟨hx, hy⟩ := mul_self_add_mul_self_eq_zero.1 h.symm
      apply hdet; rw [hx, hy]; ring
  · rcases lt_or_eq_of_le (add_nonneg (mul_self_nonneg (d2x - d1x)) (mul_self_nonneg (d2y - d1y))) with h | h
    · exact h
    · exfalso; obtain ⟨hx, hy⟩ := mul_self_add_mul_self_eq_zero.1 h.symm
      apply hdet
      have ex : d2x = d1x := by linarith
      have ey : d2y = d1y := by linarith
      rw [ex, ey]; ring

/-- **the explicit boundary set of a primitive** (no tolerance): end points of the interval, the four /
    three closed edges of parallelogram / triangle, the circle line, the sphere surface -/
def onBdry : Dom K → Env K → Env K → Prop
  | .bdry (.interval v lb ub), pts, ρ =>
    ∃ x l u, pts.get v = some [x] ∧ lb.f (pts ++ ρ) = [l] ∧ ub.f (pts ++ ρ) = [u] ∧ (x = l ∨ x = u)
  | .bdryL (.interval v lb _), pts, ρ => ∃ x l, pts.get v = some [x] ∧ lb.f (pts ++ ρ) = [l] ∧ x = l
  | .bdryR (.interval v _ ub), pts, ρ => ∃ x u, pts.get v = some [x] ∧ ub.f (pts ++ ρ) = [u] ∧ x = u
  | .bdry (.par v o c1 c2), pts, ρ =>
    ∃ ox oy ax ay bx cy a b, o.f (pts ++ ρ) = [ox, oy] ∧ c1.f (pts ++ ρ) = [ax, ay] ∧ c2.f (pts ++ ρ) = [bx, cy] ∧
      ParEdge a b ∧ pts.get v = some [ox + a * (ax - ox) + b * (bx - ox), oy + a * (ay - oy) + b * (cy - oy)]
  | .bdry (.tri v o c1 c2), pts, ρ =>
    ∃ ox oy ax ay bx cy a b, o.f (pts ++ ρ) = [ox, oy] ∧ c1.f (pts ++ ρ) = [ax, ay] ∧ c2.f (pts ++ ρ) = [bx, cy] ∧
      TriEdge a b ∧ pts.get v = some [ox + a * (ax - ox) + b * (bx - ox), oy + a * (ay - oy) + b * (cy - oy)]
  | .bdry (.circle v c r), pts, ρ =>
    ∃ x y cx cy rr, pts.get v = some [x, y] ∧ c.f (pts ++ ρ) = [cx, cy] ∧ r.f (pts ++ ρ) = [rr] ∧
      0 ≤ rr ∧ (x - cx) ^ 2 + (y - cy) ^ 2 = rr ^ 2
  | .bdry (.sphere v c r), pts, ρ =>
    ∃ x y z cx cy cz rr, pts.get v = some [x, y, z] ∧ c.f (pts ++ ρ) = [cx, cy, cz] ∧ r.f (pts ++ ρ) = [rr] ∧
      0 ≤ rr ∧ (x - cx) ^ 2 + (y - cy) ^ 2 + (z - cz) ^ 2 = rr ^ 2
  | _, _, _ => False

section
variable [Transc K]

/-- side conditions of a primitive boundary at the row `ρ`: those of the primitive, and parallelogram /
    triangle span an area (the code divides the walk position by the side lengths) -/
def BdryOK : Dom K → Env K → Prop
  | .bdry (.par v o c1 c2), ρ => PrimOK (.par v o c1 c2) ρ ∧
      ∀ ox oy ax ay bx cy, o.f ρ = [ox, oy] → c1.f ρ = [ax, ay] → c2.f ρ = [bx, cy] →
        (ax - ox) * (cy - oy) - (ay - oy) * (bx - ox) ≠ 0
  | .bdry (.tri v o c1 c2), ρ => PrimOK (.tri v o c1 c2) ρ ∧
      ∀ ox oy ax ay bx cy, o.f ρ = [ox, oy] → c1.f ρ = [ax, ay] → c2.f ρ = [bx, cy] →
        (ax - ox) * (cy - oy) - (ay - oy) * (bx - ox) ≠ 0
  | .bdry d, ρ => PrimOK d ρ
  | .bdryL d, ρ => PrimOK d ρ
  | .bdryR d, ρ => PrimOK d ρ
  | _, _ => False

theorem parBdrySample_edge (L : TranscLaws K) (ox oy ax ay bx cy t : K)
    (hdet : (ax - ox) * (cy - oy) - (ay - oy) * (bx - ox) ≠ 0) (h0 : 0 ≤ t) (h1 : t ≤ 1) :
    ∃ a b, ParEdge a b ∧
      parBdrySample ox oy ax ay bx cy t = (ox + a * (ax - ox) + b * (bx - ox), oy + a * (ay - oy) + b * (cy - oy)) := by
  obtain ⟨p1, p2, _⟩ := sq_sum_pos_of_det _ _ _ _ hdet
  have l1 := L.sqrt_pos _ p1
  have l2 := L.sqrt_pos _ p2
  simp only [parBdrySample, norm2, two_eq]
  refine parBdryWalk_edge ox oy ax ay bx cy _ _ _ l1 l2 (mul_nonneg h0 (by linarith)) ?_
  exact mul_le_of_le_one_left (by linarith) h1

theorem triBdrySample_edge (L : TranscLaws K) (ox oy ax ay bx cy t : K)
    (hdet : (ax - ox) * (cy - oy) - (ay - oy) * (bx - ox) ≠ 0) (h0 : 0 ≤ t) (h1 : t ≤ 1) :
    ∃ a b, TriEdge a b ∧
      triBdrySample ox oy ax ay bx cy t = (ox + a * (ax - ox) + b * (bx - ox), oy + a * (ay - oy) + b * (cy - oy)) := by
  obtain ⟨p1, p3, p2⟩ := sq_sum_pos_of_det _ _ _ _ hdet
  have l1 := L.sqrt_pos _ p1
  have l2 := L.sqrt_pos _ p2
  have p3' : 0 < (ox - bx) * (ox - bx) + (oy - cy) * (oy - cy) := by
    have e : (ox - bx) * (ox - bx) + (oy - cy) * (oy - cy) = (bx - ox) * (bx - ox) + (cy - oy) * (cy - oy) := by ring
    rw [e]; exact p3
  have l3 := L.sqrt_pos _ p3'
  have e2 : (bx - ax) * (bx - ax) + (cy - ay) * (cy - ay) =
      (bx - ox - (ax - ox)) * (bx - ox - (ax - ox)) + (cy - oy - (ay - oy)) * (cy - oy - (ay - oy)) := by ring
  simp only [triBdrySample, norm2]
  rw [e2]
  refine triBdryWalk_edge ox oy ax ay bx cy _ _ _ _ l1 l2 l3 (mul_nonneg h0 (by linarith)) ?_
  exact mul_le_of_le_one_left (by linarith) h1

end
end TPV.Geom

namespace TPV.Geom
set_option linter.unusedSectionVars false
variable {K : Type} [Field K] [LinearOrder K] [IsStrictOrderedRing K]

section
variable [Transc K]

/-- **every random parametrisation of a primitive boundary lands exactly on the boundary set** `onBdry`
    (interval end points, the closed edges via the perimeter walk, circle line, sphere surface) for draws in
    `[0,1]`, all shape parameters, the row's own parameter row. -/
theorem prim_bdry_sample_onBdry (L : TranscLaws K) (D : Dom K) (ρ : Env K) (tape : List K) (pts : Env K)
    (hok : BdryOK D ρ) (htape : ∀ t ∈ tape, 0 ≤ t ∧ t ≤ 1) (h : primSample D ρ tape = some pts) : onBdry D pts ρ := by
  cases D with
  | bdry d =>
    cases d with
    | interval v lb ub =>
      obtain ⟨ilb, iub, _⟩ := hok
      rcases tape with _ | ⟨t, _ | ⟨t2, rest⟩⟩
      · simp [primSample] at h
      rotate_left
      · simp [primSample] at h
      simp only [primSample] at h
      split at h <;> try (simp at h)
      rename_i l u hl hu
      subst h
      refine ⟨_, l, u, env_get_head _ _ _, by rw [List.cons_append, List.nil_append, ilb, hl],
        by rw [List.cons_append, List.nil_append, iub, hu], ?_⟩
      unfold intervalBdrySample; split
      · right; rfl
      · left; rfl
    | par v o c1 c2 =>
      obtain ⟨⟨io, i1, i2⟩, hdet⟩ := hok
      rcases tape with _ | ⟨t, _ | ⟨t2, rest⟩⟩
      · simp [primSample] at h
      rotate_left
      · simp [primSample] at h
      simp only [primSample] at h
      split at h <;> try (simp at h)
      rename_i ox oy ax ay bx cy ho h1 h2
      subst h
      have ht := htape t (by simp)
      obtain ⟨a, b, he, hw⟩ := parBdrySample_edge L ox oy ax ay bx cy t (hdet _ _ _ _ _ _ ho h1 h2) ht.1 ht.2
      refine ⟨ox, oy, ax, ay, bx, cy, a, b, by rw [List.cons_append, List.nil_append, io, ho],
        by rw [List.cons_append, List.nil_append, i1, h1], by rw [List.cons_append, List.nil_append, i2, h2], he, ?_⟩
      rw [env_get_head, hw]
    | tri v o c1 c2 =>
      obtain ⟨⟨io, i1, i2⟩, hdet⟩ := hok
      rcases tape with _ | ⟨t, _ | ⟨t2, rest⟩⟩
      · simp [primSample] at h
      rotate_left
      · simp [primSample] at h
      simp only [primSample] at h
      split at h <;> try (simp at h)
      rename_i ox oy ax ay bx cy ho h1 h2
      subst h
      have ht := htape t (by simp)
      obtain ⟨a, b, he, hw⟩ := triBdrySample_edge L ox oy ax ay bx cy t (hdet _ _ _ _ _ _ ho h1 h2) ht.1 ht.2
      refine ⟨ox, oy, ax, ay, bx, cy, a, b, by rw [List.cons_append, List.nil_append, io, ho],
        by rw [List.cons_append, List.nil_append, i1, h1], by rw [List.cons_append, List.nil_append, i2, h2], he, ?_⟩
      rw [env_get_head, hw]
    | circle v c r =>
      obtain ⟨ic, ir, hr0⟩ := hok
      rcases tape with _ | ⟨t, _ | ⟨t2, rest⟩⟩
      · simp [primSample] at h
      rotate_left
      · simp [primSample] at h
      simp only [primSample] at h
      split at h <;> try (simp at h)
      rename_i cx cy rr hc hr
      subst h
      refine ⟨_, _, cx, cy, rr, env_get_head _ _ _, by rw [List.cons_append, List.nil_append, ic, hc],
        by rw [List.cons_append, List.nil_append, ir, hr], hr0 rr hr, ?_⟩
      simp only [circleBdrySample]
      exact circle_line_param cx cy rr _ _ (L.cos_sin _)
    | sphere v c r =>
      obtain ⟨ic, ir, hr0⟩ := hok
      rcases tape with _ | ⟨u2, _ | ⟨u3, _ | ⟨t3, rest⟩⟩⟩
      · simp [primSample] at h
      · simp [primSample] at h
      rotate_left
      · simp [primSample] at h
      simp only [primSample] at h
      split at h <;> try (simp at h)
      rename_i cx cy cz rr hc hr
      subst h
      refine ⟨_, _, _, cx, cy, cz, rr, env_get_head _ _ _, by rw [List.cons_append, List.nil_append, ic, hc],
        by rw [List.cons_append, List.nil_append, ir, hr], hr0 rr hr, ?_⟩
      simp only [sphereBdrySample]
      exact sphere_surface_param cx cy cz rr _ _ _ _ (L.cos_sin _) (L.cos_sin _)
    | _ => simp [primSample] at h
  | bdryL d =>
    cases d with
    | interval v lb ub =>
      obtain ⟨ilb, _, _⟩ := hok
      rcases tape with _ | ⟨t, rest⟩
      rotate_left
      · simp [primSample] at h
      simp only [primSample] at h
      split at h <;> try (simp at h)
      rename_i l hl
      subst h
      exact ⟨l, l, env_get_head _ _ _, by rw [List.cons_append, List.nil_append, ilb, hl], rfl⟩
    | _ => simp [primSample] at h
  | bdryR d =>
    cases d with
    | interval v lb ub =>
      obtain ⟨_, iub, _⟩ := hok
      rcases tape with _ | ⟨t, rest⟩
      rotate_left
      · simp [primSample] at h
      simp only [primSample] at h
      split at h <;> try (simp at h)
      rename_i u hu
      subst h
      exact ⟨u, u, env_get_head _ _ _, by rw [List.cons_append, List.nil_append, iub, hu], rfl⟩
    | _ => simp [primSample] at h
  | _ => exact absurd hok (by simp [BdryOK])

end

/-- non-degeneracy of the primitive under a boundary node along the evaluation of one row -/
def BdryNonDeg : Dom K → Env K → Env K → Prop
  | .bdry d, pts, ρ => NonDeg d pts ρ
  | _, _, _ => True

/-- **the boundary's own samples are accepted by the boundary test in exact arithmetic**: every point of the
    explicit boundary set passes `boundary._contains` (non-negative tolerances, non-degenerate shape).
    Together with `prim_bdry_sample_onBdry` this is the statement C05 lists as belonging to C01. -/
theorem onBdry_accepted (τ : Tol K) (hτ : τ.ok) (D : Dom K) (pts ρ : Env K) (hnd : BdryNonDeg D pts ρ)
    (h : onBdry D pts ρ) : contains τ D pts ρ = some true := by
  cases D with
  | bdry d =>
    cases d with
    | interval v lb ub =>
      obtain ⟨x, l, u, hx, hl, hu, hor⟩ := h
      exact bdry_interval_accepts τ hτ v lb ub pts ρ x l u hx hl hu hor
    | par v o c1 c2 =>
      obtain ⟨ox, oy, ax, ay, bx, cy, a, b, ho, h1, h2, he, hp⟩ := h
      exact bdry_par_accepts τ hτ v o c1 c2 pts ρ ox oy ax ay bx cy a b ho h1 h2 (hnd ox oy ax ay bx cy ho h1 h2) hp he
    | tri v o c1 c2 =>
      obtain ⟨ox, oy, ax, ay, bx, cy, a, b, ho, h1, h2, he, hp⟩ := h
      refine bdry_tri_accepts τ hτ v o c1 c2 pts ρ ox oy ax ay bx cy a b ho h1 h2 (hnd ox oy ax ay bx cy ho h1 h2) hp ?_
      rcases he with h | h | h
      · exact Or.inl h
      · exact Or.inr (Or.inl h)
      · exact Or.inr (Or.inr h)
    | circle v c r =>
      obtain ⟨x, y, cx, cy, rr, hp, hc, hr, h0, hon⟩ := h
      exact bdry_circle_accepts τ hτ v c r pts ρ x y cx cy rr hp hc hr h0 hon
    | sphere v c r =>
      obtain ⟨x, y, z, cx, cy, cz, rr, hp, hc, hr, h0, hon⟩ := h
      exact bdry_sphere_accepts τ hτ v c r pts ρ x y z cx cy cz rr hp hc hr h0 hon
    | _ => exact absurd h (by simp [onBdry])
  | bdryL d =>
    cases d with
    | interval v lb ub =>
      obtain ⟨x, l, hx, hl, rfl⟩ := h
      simp only [contains, containsAux, hx, hl, isclose_self τ hτ]
    | _ => exact absurd h (by simp [onBdry])
  | bdryR d =>
    cases d with
    | interval v lb ub =>
      obtain ⟨x, u, hx, hu, rfl⟩ := h
      simp only [contains, containsAux, hx, hu, isclose_self τ hτ]
    | _ => exact absurd h (by simp [onBdry])
  | _ => exact absurd h (by simp [onBdry])

end TPV.Geom


namespace TPV.Geom
set_option linter.unusedSectionVars false
variable {K : Type} [Field K] [LinearOrder K] [IsStrictOrderedRing K]

theorem natK_cast (n : Nat) : (natK n : K) = (n : K) := by
  induction n with
  | zero => simp [natK]
  | succ k ih => simp [natK, ih]

theorem linInner_unit (n j : Nat) (h : j ≤ n) : (0 : K) ≤ linInner n j ∧ (linInner n j : K) ≤ 1 := by
  unfold linInner
  rw [natK_cast, natK_cast]
  have hp : (0 : K) < ((n + 1 : Nat) : K) := by exact_mod_cast Nat.succ_pos n
  refine ⟨div_nonneg (by exact_mod_cast Nat.zero_le _) hp.le, (div_le_one hp).2 ?_⟩
  exact_mod_cast Nat.succ_le_succ h

theorem linOpen_unit (n j : Nat) (h : j ≤ n) (hn : 0 < n) : (0 : K) ≤ linOpen n j ∧ (linOpen n j : K) ≤ 1 := by
  unfold linOpen
  rw [natK_cast, natK_cast]
  have hp : (0 : K) < (n : K) := by exact_mod_cast hn
  refine ⟨div_nonneg (by exact_mod_cast Nat.zero_le _) hp.le, (div_le_one hp).2 ?_⟩
  exact_mod_cast h

theorem intervalGrid_bounds (l u : K) (n j : Nat) (hlu : l ≤ u) (hj : j ≤ n) :
    l ≤ intervalGrid l u n j ∧ intervalGrid l u n j ≤ u := by
  obtain ⟨a, b⟩ := linInner_unit (K := K) n j hj
  unfold intervalGrid
  have h1 := mul_nonneg (sub_nonneg.2 hlu) a
  have h2 := mul_le_of_le_one_right (sub_nonneg.2 hlu) b
  constructor <;> linarith

theorem baryGrid_unit (n1 n2 idx : Nat) (h : idx < n1 * n2) :
    (0 : K) ≤ (baryGrid n1 n2 idx).1 ∧ ((baryGrid n1 n2 idx).1 : K) ≤ 1 ∧
    (0 : K) ≤ (baryGrid n1 n2 idx).2 ∧ ((baryGrid n1 n2 idx).2 : K) ≤ 1 := by
  have hn1 : 0 < n1 := by
    rcases Nat.eq_zero_or_pos n1 with h0 | h0
    · subst h0; simp at h
    · exact h0
  have a := linInner_unit (K := K) n1 (idx % n1) (Nat.le_of_lt (Nat.mod_lt _ hn1))
  have hq : idx / n1 < n2 := by
    rw [Nat.div_lt_iff_lt_mul hn1]; rwa [Nat.mul_comm] at h
  have b := linInner_unit (K := K) n2 (idx / n1) (Nat.le_of_lt hq)
  exact ⟨a.1, a.2, b.1, b.2⟩

section
variable [Transc K] [FloorNat K]

/-- barycentric pairs of `Parallelogram.sample_grid`: every pair lies in the unit square (mesh nodes and
    random top-up draws) -/
theorem parGridBary_unit (n : Nat) (l1 l2 : K) (topup : List (K × K))
    (ht : ∀ b ∈ topup, 0 ≤ b.1 ∧ b.1 ≤ 1 ∧ 0 ≤ b.2 ∧ b.2 ≤ 1) :
    ∀ b ∈ parGridBary n l1 l2 topup, 0 ≤ b.1 ∧ b.1 ≤ 1 ∧ 0 ≤ b.2 ∧ b.2 ≤ 1 := by
  intro b hb
  have mesh : ∀ b ∈ (List.range ((parGridCounts n l1 l2).1 * (parGridCounts n l1 l2).2)).map
      (baryGrid (K := K) (parGridCounts n l1 l2).1 (parGridCounts n l1 l2).2), 0 ≤ b.1 ∧ b.1 ≤ 1 ∧ 0 ≤ b.2 ∧ b.2 ≤ 1 := by
    intro b hb
    rw [List.mem_map] at hb
    obtain ⟨idx, hi, rfl⟩ := hb
    exact baryGrid_unit _ _ idx (List.mem_range.1 hi)
  unfold parGridBary at hb
  simp only at hb
  split at hb
  · rw [List.mem_append] at hb
    rcases hb with hb | hb
    · exact mesh b hb
    · exact ht b (List.mem_of_mem_take hb)
  · exact mesh b hb

/-- barycentric pairs of `Triangle.sample_grid`: every pair lies in the unit simplex (filtered mesh nodes, cut
    to the first n; mirrored random top-up draws) -/
theorem triGridBary_simplex (n : Nat) (l1 l3 : K) (topup : List (K × K))
    (ht : ∀ b ∈ topup, 0 ≤ b.1 ∧ b.1 ≤ 1 ∧ 0 ≤ b.2 ∧ b.2 ≤ 1) :
    ∀ b ∈ triGridBary n l1 l3 topup, 0 ≤ b.1 ∧ 0 ≤ b.2 ∧ b.1 + b.2 ≤ 1 := by
  intro b hb
  have mesh : ∀ b ∈ ((List.range ((parGridCounts (2 * n) l1 l3).1 * (parGridCounts (2 * n) l1 l3).2)).map
      (baryGrid (K := K) (parGridCounts (2 * n) l1 l3).1 (parGridCounts (2 * n) l1 l3).2)).filter
        (fun b => le (b.1 + b.2) 1), 0 ≤ b.1 ∧ 0 ≤ b.2 ∧ b.1 + b.2 ≤ 1 := by
    intro b hb
    rw [List.mem_filter, List.mem_map] at hb
    obtain ⟨⟨idx, hi, rfl⟩, hle⟩ := hb
    have u := baryGrid_unit (K := K) _ _ idx (List.mem_range.1 hi)
    rw [le_iff] at hle
    exact ⟨u.1, u.2.2.1, hle⟩
  unfold triGridBary at hb
  simp only at hb
  split at hb
  · rw [List.mem_append] at hb
    rcases hb with hb | hb
    · exact mesh b hb
    · rw [List.mem_map] at hb
      obtain ⟨c, hc, rfl⟩ := hb
      have hc' := ht c (List.mem_of_mem_take hc)
      exact triMirror_simplex c.1 c.2 hc'.1 hc'.2.1 hc'.2.2.1 hc'.2.2.2
  · exact mesh b (List.mem_of_mem_take hb)

/-- every grid pair the code can return is one of the pool's candidates, and every candidate lies in the simplex:
    the row order of the mesh (which decides WHICH n nodes survive the first-n cut) is irrelevant for membership -/
theorem triGridBary_sub_pool (n : Nat) (l1 l3 : K) (topup : List (K × K)) :
    ∀ b ∈ triGridBary n l1 l3 topup, b ∈ triGridPoolBary n l1 l3 topup := by
  intro b hb
  unfold triGridBary at hb
  unfold triGridPoolBary
  simp only at hb ⊢
  split at hb
  · rw [List.mem_append] at hb ⊢
    rcases hb with hb | hb
    · exact Or.inl hb
    · right
      rw [List.mem_map] at hb ⊢
      obtain ⟨c, hc, rfl⟩ := hb
      exact ⟨c, List.mem_of_mem_take hc, rfl⟩
  · exact List.mem_append_left _ (List.mem_of_mem_take hb)

theorem triGridPoolBary_simplex (n : Nat) (l1 l3 : K) (topup : List (K × K))
    (ht : ∀ b ∈ topup, 0 ≤ b.1 ∧ b.1 ≤ 1 ∧ 0 ≤ b.2 ∧ b.2 ≤ 1) :
    ∀ b ∈ triGridPoolBary n l1 l3 topup, 0 ≤ b.1 ∧ 0 ≤ b.2 ∧ b.1 + b.2 ≤ 1 := by
  intro b hb
  unfold triGridPoolBary at hb
  simp only at hb
  rw [List.mem_append] at hb
  rcases hb with hb | hb
  · rw [List.mem_filter, List.mem_map] at hb
    obtain ⟨⟨idx, hi, rfl⟩, hle⟩ := hb
    have u := baryGrid_unit (K := K) _ _ idx (List.mem_range.1 hi)
    rw [le_iff] at hle
    exact ⟨u.1, u.2.2.1, hle⟩
  · rw [List.mem_map] at hb
    obtain ⟨c, hc, rfl⟩ := hb
    have hc' := ht c hc
    exact triMirror_simplex c.1 c.2 hc'.1 hc'.2.1 hc'.2.2.1 hc'.2.2.2

end
end TPV.Geom

namespace TPV.Geom
set_option linter.unusedSectionVars false
variable {K : Type} [Field K] [LinearOrder K] [IsStrictOrderedRing K]

theorem par_point_mem (v : String) (o c1 c2 : PFun K) (ρ : Env K) (ox oy ax ay bx cy s t : K)
    (io : o.indep v) (i1 : c1.indep v) (i2 : c2.indep v)
    (ho : o.f ρ = [ox, oy]) (h1 : c1.f ρ = [ax, ay]) (h2 : c2.f ρ = [bx, cy])
    (hs : 0 ≤ s ∧ s ≤ 1) (ht : 0 ≤ t ∧ t ≤ 1) :
    mem (.par v o c1 c2) [(v, [(parSample ox oy ax ay bx cy s t).1, (parSample ox oy ax ay bx cy s t).2])] ρ := by
  refine ⟨_, _, ox, oy, ax, ay, bx, cy, s, t, env_get_head _ _ _, by rw [List.cons_append, List.nil_append, io, ho],
    by rw [List.cons_append, List.nil_append, i1, h1], by rw [List.cons_append, List.nil_append, i2, h2],
    hs.1, hs.2, ht.1, ht.2, ?_, ?_⟩ <;> simp only [parSample] <;> ring

theorem tri_point_mem (v : String) (o c1 c2 : PFun K) (ρ : Env K) (ox oy ax ay bx cy s t : K)
    (io : o.indep v) (i1 : c1.indep v) (i2 : c2.indep v)
    (ho : o.f ρ = [ox, oy]) (h1 : c1.f ρ = [ax, ay]) (h2 : c2.f ρ = [bx, cy])
    (hs : 0 ≤ s) (ht : 0 ≤ t) (hst : s + t ≤ 1) :
    mem (.tri v o c1 c2) [(v, [(parSample ox oy ax ay bx cy s t).1, (parSample ox oy ax ay bx cy s t).2])] ρ := by
  refine ⟨_, _, ox, oy, ax, ay, bx, cy, s, t, env_get_head _ _ _, by rw [List.cons_append, List.nil_append, io, ho],
    by rw [List.cons_append, List.nil_append, i1, h1], by rw [List.cons_append, List.nil_append, i2, h2],
    hs, ht, hst, ?_, ?_⟩ <;> simp only [parSample] <;> ring

theorem pairs_unit (topup : List (List K)) (ht : ∀ l ∈ topup, ∀ t ∈ l, 0 ≤ t ∧ t ≤ 1) :
    ∀ b ∈ topup.filterMap (fun l => match l with | [a, b] => some (a, b) | _ => none),
      0 ≤ b.1 ∧ b.1 ≤ 1 ∧ 0 ≤ b.2 ∧ b.2 ≤ 1 := by
  intro b hb
  rw [List.mem_filterMap] at hb
  obtain ⟨l, hl, hf⟩ := hb
  split at hf <;> try (simp at hf)
  rename_i a c
  subst hf
  have := ht _ hl
  exact ⟨(this a (by simp)).1, (this a (by simp)).2, (this c (by simp)).1, (this c (by simp)).2⟩

section
variable [Transc K] [FloorNat K]

/-- radial factor of the sunflower grid: `√(j − ½)/√(n + ½) ∈ [0, 1]` for `1 ≤ j ≤ n` -/
theorem sunflower_radius (L : TranscLaws K) (n j : Nat) (h1 : 1 ≤ j) (hn : j ≤ n) :
    0 ≤ Transc.sqrt ((natK j : K) - 1 / two) / Transc.sqrt ((natK n : K) + 1 / two) ∧
    Transc.sqrt ((natK j : K) - 1 / two) / Transc.sqrt ((natK n : K) + 1 / two) ≤ 1 := by
  rw [natK_cast, natK_cast, two_eq]
  have hj : (1 : K) ≤ (j : K) := by exact_mod_cast h1
  have hjn : (j : K) ≤ (n : K) := by exact_mod_cast hn
  have a0 : (0 : K) < (j : K) - 1 / 2 := by linarith [show (1 : K) / 2 < 1 by norm_num]
  have b0 : (0 : K) < (n : K) + 1 / 2 := by linarith [show (0 : K) < 1 / 2 by norm_num]
  have sb := L.sqrt_pos _ b0
  have sa := L.sqrt_pos _ a0
  refine ⟨div_nonneg sa.le sb.le, (div_le_one sb).2 (L.sqrt_mono _ _ a0.le ?_)⟩
  linarith [show (0 : K) < 1 / 2 by norm_num]

end
end TPV.Geom

namespace TPV.Geom
set_option linter.unusedSectionVars false
variable {K : Type} [Field K] [LinearOrder K] [IsStrictOrderedRing K]
section
variable [Transc K] [FloorNat K]

/-- all points of `Sphere.sample_grid` satisfy the radius inequality: box-mesh nodes passed the radius test,
    random top-up points are ball samples -/
theorem sphereGridPts_ball (L : TranscLaws K) (cx cy cz r : K) (n : Nat) (topup : List (K × K × K))
    (ht : ∀ u ∈ topup, 0 ≤ u.1 ∧ u.1 ≤ 1) :
    ∀ q ∈ sphereGridPts cx cy cz r n topup, (q.1 - cx) ^ 2 + (q.2.1 - cy) ^ 2 + (q.2.2 - cz) ^ 2 ≤ r ^ 2 := by
  have box : ∀ q ∈ (if n > 10 then (sphereGridBox r n).map (fun p => (p.1 + cx, p.2.1 + cy, p.2.2 + cz)) else []),
      (q.1 - cx) ^ 2 + (q.2.1 - cy) ^ 2 + (q.2.2 - cz) ^ 2 ≤ r ^ 2 := by
    intro q hq
    split at hq
    · rw [List.mem_map] at hq
      obtain ⟨w, hw, rfl⟩ := hq
      unfold sphereGridBox at hw
      simp only at hw
      rw [List.mem_filter] at hw
      have := hw.2; rw [le_iff] at this
      simp only []
      nlinarith [this]
    · simp at hq
  intro q hq
  unfold sphereGridPts at hq
  simp only at hq
  generalize (if n > 10 then (sphereGridBox r n).map (fun p => (p.1 + cx, p.2.1 + cy, p.2.2 + cz)) else []) = bx at hq box
  split at hq
  · exact box q (List.mem_of_mem_take hq)
  · rw [List.mem_append] at hq
    rcases hq with hq | hq
    · exact box q hq
    · rw [List.mem_map] at hq
      obtain ⟨u, hu, rfl⟩ := hq
      have hu' := ht u (List.mem_of_mem_take hu)
      have hc3 := L.cbrt_unit u.1 hu'.1 hu'.2
      simp only [sphereSample]
      exact sphere_param cx cy cz r _ _ _ _ _ hc3.1 hc3.2 (L.cos_sin _) (L.cos_sin _)

/-- **every grid point of a primitive lies in the denoted set**: `sample_grid(n)` of interval (linspace
    interior), parallelogram (barycentric mesh + random top-up), triangle (mesh filtered by `u + v ≤ 1`, cut to
    the first n, mirrored random top-up), disc (sunflower), ball (box mesh filtered by the radius test, cut
    to n or topped up by random ball samples) — for every n, all shape parameters, the row's own parameters,
    whatever grid sizes `int(√…)` yields. -/
theorem prim_grid_mem (L : TranscLaws K) (D : Dom K) (ρ : Env K) (n : Nat) (topup : List (List K)) (ps : List (Env K))
    (hok : PrimOK D ρ) (htop : ∀ l ∈ topup, ∀ t ∈ l, 0 ≤ t ∧ t ≤ 1) (h : primGrid D ρ n topup = some ps) :
    ∀ p ∈ ps, mem D p ρ := by
  intro p hp
  cases D with
  | interval v lb ub =>
    obtain ⟨ilb, iub, hord⟩ := hok
    simp only [primGrid] at h
    split at h <;> try (simp at h)
    rename_i l u hl hu
    subst h
    rw [List.mem_map] at hp
    obtain ⟨j, hj, rfl⟩ := hp
    have hb := intervalGrid_bounds l u n j (hord l u hl hu) (Nat.le_of_lt (List.mem_range.1 hj))
    exact ⟨_, l, u, env_get_head _ _ _, by rw [List.cons_append, List.nil_append, ilb, hl],
      by rw [List.cons_append, List.nil_append, iub, hu], hb.1, hb.2⟩
  | par v o c1 c2 =>
    obtain ⟨io, i1, i2⟩ := hok
    simp only [primGrid] at h
    split at h <;> try (simp at h)
    rename_i ox oy ax ay bx cy ho h1 h2
    subst h
    rw [List.mem_map] at hp
    obtain ⟨b, hb, rfl⟩ := hp
    have u := parGridBary_unit n _ _ _ (pairs_unit topup htop) b hb
    exact par_point_mem v o c1 c2 ρ ox oy ax ay bx cy b.1 b.2 io i1 i2 ho h1 h2 ⟨u.1, u.2.1⟩ ⟨u.2.2.1, u.2.2.2⟩
  | tri v o c1 c2 =>
    obtain ⟨io, i1, i2⟩ := hok
    simp only [primGrid] at h
    split at h <;> try (simp at h)
    rename_i ox oy ax ay bx cy ho h1 h2
    subst h
    rw [List.mem_map] at hp
    obtain ⟨b, hb, rfl⟩ := hp
    have u := triGridBary_simplex n _ _ _ (pairs_unit topup htop) b hb
    exact tri_point_mem v o c1 c2 ρ ox oy ax ay bx cy b.1 b.2 io i1 i2 ho h1 h2 u.1 u.2.1 u.2.2
  | circle v c r =>
    obtain ⟨ic, ir, hr0⟩ := hok
    simp only [primGrid] at h
    split at h <;> try (simp at h)
    rename_i cx cy rr hc hr
    subst h
    rw [List.mem_map] at hp
    obtain ⟨j, hj, rfl⟩ := hp
    have hrad := sunflower_radius L n (j + 1) (Nat.succ_pos j) (List.mem_range.1 hj)
    refine ⟨_, _, cx, cy, rr, env_get_head _ _ _, by rw [List.cons_append, List.nil_append, ic, hc],
      by rw [List.cons_append, List.nil_append, ir, hr], hr0 rr hr, ?_⟩
    simp only [circleGrid]
    have key := circle_param cx cy rr _ _ _ hrad.1 hrad.2 (L.cos_sin ((two * Transc.pi / ((Transc.sqrt (natK 5) + 1) / two)) * natK (j + 1)))
    convert key using 2 <;> ring
  | sphere v c r =>
    obtain ⟨ic, ir, hr0⟩ := hok
    simp only [primGrid] at h
    split at h <;> try (simp at h)
    rename_i cx cy cz rr hc hr
    subst h
    rw [List.mem_map] at hp
    obtain ⟨q, hq, rfl⟩ := hp
    have hrr := hr0 rr hr
    have hball := sphereGridPts_ball L cx cy cz rr n _ ?_ q hq
    · exact ⟨_, _, _, cx, cy, cz, rr, env_get_head _ _ _, by rw [List.cons_append, List.nil_append, ic, hc],
        by rw [List.cons_append, List.nil_append, ir, hr], hrr, hball⟩
    · intro u hu
      rw [List.mem_filterMap] at hu
      obtain ⟨l, hl, hf⟩ := hu
      split at hf <;> try (simp at hf)
      rename_i u1 u2 u3
      subst hf
      exact htop _ hl u1 (by simp)
  | _ => exact absurd hok (by simp [PrimOK])

end
end TPV.Geom

namespace TPV.Geom
set_option linter.unusedSectionVars false
section
variable {K : Type} [Field K] [LinearOrder K] [IsStrictOrderedRing K] [Transc K]
theorem parBdryGrid_eq (ox oy ax ay bx cy : K) (n j : Nat) :
    parBdryGrid ox oy ax ay bx cy n j = parBdrySample ox oy ax ay bx cy (linOpen n j) := rfl
theorem triBdryGrid_eq (ox oy ax ay bx cy : K) (n j : Nat) :
    triBdryGrid ox oy ax ay bx cy n j = triBdrySample ox oy ax ay bx cy (linOpen n j) := rfl
theorem circleBdryGrid_eq (cx cy r : K) (n j : Nat) :
    circleBdryGrid cx cy r n j = circleBdrySample cx cy r (linOpen n j) := rfl
end
end TPV.Geom

namespace TPV.Geom
set_option linter.unusedSectionVars false
variable {K : Type} [Field K] [LinearOrder K] [IsStrictOrderedRing K]
section
variable [Transc K] [FloorNat K]

theorem sphereBdryGrid_surface (L : TranscLaws K) (cx cy cz r : K) (n j : Nat) (hj : j < n) :
    ((sphereBdryGrid cx cy cz r n j).1 - cx) ^ 2 + ((sphereBdryGrid cx cy cz r n j).2.1 - cy) ^ 2 +
      ((sphereBdryGrid cx cy cz r n j).2.2 - cz) ^ 2 = r ^ 2 := by
  simp only [sphereBdryGrid]
  have hm : j ≤ max (n - 1) 1 := by omega
  have hpos : 0 < max (n - 1) 1 := by omega
  have hq := linOpen_unit (K := K) (max (n - 1) 1) j hm hpos
  unfold linOpen at hq
  rw [two_eq]
  set q : K := natK j / natK (max (n - 1) 1) with hqd
  have hy : 0 ≤ 1 - (1 - q * 2) * (1 - q * 2) := by nlinarith [hq.1, hq.2]
  have hs := L.sqrt_sq _ hy
  have hc := L.cos_sin (Transc.pi * ((natK 3 : K) - Transc.sqrt (natK 5)) * natK j)
  set c := Transc.cos (Transc.pi * ((natK 3 : K) - Transc.sqrt (natK 5)) * natK j)
  set sn := Transc.sin (Transc.pi * ((natK 3 : K) - Transc.sqrt (natK 5)) * natK j)
  set w := Transc.sqrt (1 - (1 - q * 2) * (1 - q * 2))
  have e : (w * c * r + cx - cx) ^ 2 + ((1 - q * 2) * r + cy - cy) ^ 2 + (w * sn * r + cz - cz) ^ 2
      = r ^ 2 * ((w * w) * (c ^ 2 + sn ^ 2) + (1 - q * 2) * (1 - q * 2)) := by ring
  rw [e, hc, hs]; ring

/-- **every grid point of a primitive boundary lies exactly on the boundary set**: interval end points,
    perimeter walk at `j/n` of the perimeter, circle line at angle `2πj/n`, Fibonacci points on the sphere
    (incl. `n = 1`, fix 62832b1) -/
theorem prim_grid_onBdry (L : TranscLaws K) (D : Dom K) (ρ : Env K) (n : Nat) (topup : List (List K)) (ps : List (Env K))
    (hok : BdryOK D ρ) (h : primGrid D ρ n topup = some ps) : ∀ p ∈ ps, onBdry D p ρ := by
  intro p hp
  cases D with
  | bdry d =>
    cases d with
    | interval v lb ub =>
      obtain ⟨ilb, iub, _⟩ := hok
      simp only [primGrid] at h
      split at h <;> try (simp at h)
      rename_i l u hl hu
      subst h
      rw [List.mem_map] at hp
      obtain ⟨j, hj, rfl⟩ := hp
      refine ⟨_, l, u, env_get_head _ _ _, by rw [List.cons_append, List.nil_append, ilb, hl],
        by rw [List.cons_append, List.nil_append, iub, hu], ?_⟩
      unfold intervalBdryGrid; split
      · left; rfl
      · right; rfl
    | par v o c1 c2 =>
      have hok' := hok
      obtain ⟨⟨io, i1, i2⟩, hdet⟩ := hok
      simp only [primGrid] at h
      split at h <;> try (simp at h)
      rename_i ox oy ax ay bx cy ho h1 h2
      subst h
      rw [List.mem_map] at hp
      obtain ⟨j, hj, rfl⟩ := hp
      have hjn := List.mem_range.1 hj
      have hu := linOpen_unit (K := K) n j (Nat.le_of_lt hjn) (by omega)
      refine prim_bdry_sample_onBdry L _ ρ [linOpen n j] _ hok' (by intro t ht; simp at ht; subst ht; exact hu) ?_
      simp [primSample, ho, h1, h2, parBdryGrid_eq]
    | tri v o c1 c2 =>
      have hok' := hok
      obtain ⟨⟨io, i1, i2⟩, hdet⟩ := hok
      simp only [primGrid] at h
      split at h <;> try (simp at h)
      rename_i ox oy ax ay bx cy ho h1 h2
      subst h
      rw [List.mem_map] at hp
      obtain ⟨j, hj, rfl⟩ := hp
      have hjn := List.mem_range.1 hj
      have hu := linOpen_unit (K := K) n j (Nat.le_of_lt hjn) (by omega)
      refine prim_bdry_sample_onBdry L _ ρ [linOpen n j] _ hok' (by intro t ht; simp at ht; subst ht; exact hu) ?_
      simp [primSample, ho, h1, h2, triBdryGrid_eq]
    | circle v c r =>
      have hok' := hok
      obtain ⟨ic, ir, hr0⟩ := hok
      simp only [primGrid] at h
      split at h <;> try (simp at h)
      rename_i cx cy rr hc hr
      subst h
      rw [List.mem_map] at hp
      obtain ⟨j, hj, rfl⟩ := hp
      have hjn := List.mem_range.1 hj
      have hu := linOpen_unit (K := K) n j (Nat.le_of_lt hjn) (by omega)
      refine prim_bdry_sample_onBdry L _ ρ [linOpen n j] _ hok' (by intro t ht; simp at ht; subst ht; exact hu) ?_
      simp [primSample, hc, hr, circleBdryGrid_eq]
    | sphere v c r =>
      obtain ⟨ic, ir, hr0⟩ := hok
      simp only [primGrid] at h
      split at h <;> try (simp at h)
      rename_i cx cy cz rr hc hr
      subst h
      rw [List.mem_map] at hp
      obtain ⟨j, hj, rfl⟩ := hp
      exact ⟨_, _, _, cx, cy, cz, rr, env_get_head _ _ _, by rw [List.cons_append, List.nil_append, ic, hc],
        by rw [List.cons_append, List.nil_append, ir, hr], hr0 rr hr,
        sphereBdryGrid_surface L cx cy cz rr n j (List.mem_range.1 hj)⟩
    | _ => simp [primGrid] at h
  | bdryL d =>
    cases d with
    | interval v lb ub =>
      obtain ⟨ilb, _, _⟩ := hok
      simp only [primGrid] at h
      split at h <;> try (simp at h)
      rename_i l hl
      subst h
      rw [List.mem_replicate] at hp
      obtain ⟨_, rfl⟩ := hp
      exact ⟨l, l, env_get_head _ _ _, by rw [List.cons_append, List.nil_append, ilb, hl], rfl⟩
    | _ => simp [primGrid] at h
  | bdryR d =>
    cases d with
    | interval v lb ub =>
      obtain ⟨_, iub, _⟩ := hok
      simp only [primGrid] at h
      split at h <;> try (simp at h)
      rename_i u hu
      subst h
      rw [List.mem_replicate] at hp
      obtain ⟨_, rfl⟩ := hp
      exact ⟨u, u, env_get_head _ _ _, by rw [List.cons_append, List.nil_append, iub, hu], rfl⟩
    | _ => simp [primGrid] at h
  | _ => exact absurd hok (by simp [BdryOK])

end
end TPV.Geom

namespace TPV.Geom
set_option linter.unusedSectionVars false
variable {K : Type} [Field K] [LinearOrder K] [IsStrictOrderedRing K]

/-- **`bdry_accepts_own_samples`** (the statement C05 defers to C01): every point the random sampler of a
    primitive boundary produces is accepted by that boundary's membership test, in exact arithmetic, for any
    non-negative tolerances — slanted / clockwise / parameter-dependent shapes included. -/
theorem bdry_accepts_own_samples [Transc K] (L : TranscLaws K) (τ : Tol K) (hτ : τ.ok) (D : Dom K) (ρ : Env K)
    (tape : List K) (pts : Env K) (hok : BdryOK D ρ) (hnd : BdryNonDeg D pts ρ)
    (htape : ∀ t ∈ tape, 0 ≤ t ∧ t ≤ 1) (h : primSample D ρ tape = some pts) : contains τ D pts ρ = some true :=
  onBdry_accepted τ hτ D pts ρ hnd (prim_bdry_sample_onBdry L D ρ tape pts hok htape h)

/-- the same for every grid point of a primitive boundary -/
theorem bdry_accepts_own_grid [Transc K] [FloorNat K] (L : TranscLaws K) (τ : Tol K) (hτ : τ.ok) (D : Dom K) (ρ : Env K)
    (n : Nat) (topup : List (List K)) (ps : List (Env K)) (hok : BdryOK D ρ) (h : primGrid D ρ n topup = some ps) :
    ∀ p ∈ ps, BdryNonDeg D p ρ → contains τ D p ρ = some true :=
  fun p hp hnd => onBdry_accepted τ hτ D p ρ hnd (prim_grid_onBdry L D ρ n topup ps hok h p hp)

/-- non-vacuity: the boundary of a slanted, clockwise parallelogram, walked to 70 % of its perimeter (ℝ) -/
example : ∃ pts, primSample (K := ℝ) (.bdry (.par "x" (.const [0, 0]) (.const [-1, 3]) (.const [2, 1]))) [] [7/10] = some pts ∧
    onBdry (.bdry (.par "x" (.const [0, 0]) (.const [-1, 3]) (.const [2, 1]))) pts [] := by
  refine ⟨_, rfl, prim_bdry_sample_onBdry realLaws _ [] [7/10] _ ⟨⟨fun _ _ => rfl, fun _ _ => rfl, fun _ _ => rfl⟩, ?_⟩ ?_ rfl⟩
  · intro ox oy ax ay bx cy h1 h2 h3
    simp only [PFun.const, List.cons.injEq, and_true] at h1 h2 h3
    obtain ⟨rfl, rfl⟩ := h1; obtain ⟨rfl, rfl⟩ := h2; obtain ⟨rfl, rfl⟩ := h3
    norm_num
  · intro t ht
    simp only [List.mem_cons, List.not_mem_nil, or_false] at ht
    subst ht; norm_num

/-- non-vacuity of the walk lemma on the executable instance (ℚ, side lengths 5 and 13/5 as witnesses) -/
example : ∃ a b : Rat, ParEdge a b ∧ parBdryWalk (0 : Rat) 0 3 4 1 0 5 1 (11/2) = (0 + a * (3 - 0) + b * (1 - 0), 0 + a * (4 - 0) + b * (0 - 0)) :=
  parBdryWalk_edge 0 0 3 4 1 0 5 1 (11/2) (by norm_num) (by norm_num) (by norm_num) (by norm_num)

end TPV.Geom
