/-
  C03 — differential operators equal the analytic derivatives, row by row.
  Theorems about the models TPV/Model/Expr.lean (expressions, syntactic derivative D) and
  TPV/Model/DiffOps.lean (the operators of differentialoperators.py written with D).
-/
import TPV.Model.DiffOps
import Mathlib.Analysis.SpecialFunctions.Trigonometric.Deriv
import Mathlib.Analysis.SpecialFunctions.Trigonometric.DerivHyp
import Mathlib.Analysis.SpecialFunctions.ExpDeriv

set_option linter.unusedSectionVars false
namespace TPV.DiffOps
open TPV.Expr TPV.Expr.Expr

/-- the real numbers as a scalar type of the model -/
noncomputable instance instTranscReal : Transc ℝ where
  ofRat c := (c : ℝ)
  sin := Real.sin
  cos := Real.cos
  exp := Real.exp
  tanh := Real.tanh
  rpow a n := if 0 < a then a ^ n else 0

variable {V : Type}

theorem powN_eq (a : ℝ) (n : Nat) : powN a n = a ^ n := by
  induction n with
  | zero => simp [powN, Transc.ofRat]
  | succ n ih => simp [powN, ih, pow_succ]

@[simp] theorem eval_const (ρ : V → ℝ) (c : Rat) : eval ρ (const c : Expr V) = (c : ℝ) := rfl
@[simp] theorem eval_var (ρ : V → ℝ) (y : V) : eval ρ (var y) = ρ y := rfl
@[simp] theorem eval_add (ρ : V → ℝ) (a b : Expr V) : eval ρ (add a b) = eval ρ a + eval ρ b := rfl
@[simp] theorem eval_sub (ρ : V → ℝ) (a b : Expr V) : eval ρ (sub a b) = eval ρ a - eval ρ b := rfl
@[simp] theorem eval_mul (ρ : V → ℝ) (a b : Expr V) : eval ρ (mul a b) = eval ρ a * eval ρ b := rfl
@[simp] theorem eval_div (ρ : V → ℝ) (a b : Expr V) : eval ρ (Expr.div a b) = eval ρ a / eval ρ b := rfl
@[simp] theorem eval_neg (ρ : V → ℝ) (a : Expr V) : eval ρ (neg a) = - eval ρ a := rfl
@[simp] theorem eval_pow (ρ : V → ℝ) (a : Expr V) (n : Nat) : eval ρ (pow a n) = eval ρ a ^ n := by
  simp [eval, powN_eq]
@[simp] theorem eval_sin (ρ : V → ℝ) (a : Expr V) : eval ρ (sin a) = Real.sin (eval ρ a) := rfl
@[simp] theorem eval_cos (ρ : V → ℝ) (a : Expr V) : eval ρ (cos a) = Real.cos (eval ρ a) := rfl
@[simp] theorem eval_exp (ρ : V → ℝ) (a : Expr V) : eval ρ (exp a) = Real.exp (eval ρ a) := rfl
@[simp] theorem eval_tanh (ρ : V → ℝ) (a : Expr V) : eval ρ (tanh a) = Real.tanh (eval ρ a) := rfl
@[simp] theorem eval_relun (ρ : V → ℝ) (a : Expr V) (n : Nat) :
    eval ρ (relun a n) = if 0 < eval ρ a then eval ρ a ^ n else 0 := rfl
@[simp] theorem eval_zero (ρ : V → ℝ) : eval ρ (zero : Expr V) = 0 := by simp [zero]

variable [DecidableEq V]

/-- "every denominator is non-zero at ρ" over the reals -/
abbrev DefinedR (ρ : V → ℝ) (e : Expr V) : Prop := Defined (fun k : ℝ => k = 0) ρ e

theorem hasDerivAt_tanh (x : ℝ) : HasDerivAt Real.tanh (1 - Real.tanh x * Real.tanh x) x := by
  have hc : Real.cosh x ≠ 0 := (Real.cosh_pos x).ne'
  have h := (Real.hasDerivAt_sinh x).div (Real.hasDerivAt_cosh x) hc
  have e1 : (fun y => Real.sinh y / Real.cosh y) = Real.tanh := by
    funext y; rw [Real.tanh_eq_sinh_div_cosh]
  have e1' : (Real.sinh / Real.cosh) = Real.tanh := by
    funext y; simp [Real.tanh_eq_sinh_div_cosh]
  rw [e1'] at h
  refine h.congr_deriv ?_
  rw [Real.tanh_eq_sinh_div_cosh]
  field_simp

/-- **Correctness of the symbolic derivative.** Where all denominators are non-zero, the value of `D x e`
    is the derivative of `t ↦ e(ρ[x ↦ t])` at `ρ x`. -/
theorem D_correct (x : V) (ρ : V → ℝ) (e : Expr V) (hd : DefinedR ρ e) :
    HasDerivAt (fun t => eval (Function.update ρ x t) e) (eval ρ (D x e)) (ρ x) := by
  have hself : ∀ e : Expr V, eval (Function.update ρ x (ρ x)) e = eval ρ e := by
    intro e; rw [Function.update_eq_self]
  induction e with
  | const c => simp only [D, eval_const, Rat.cast_zero]; exact hasDerivAt_const (ρ x) (c : ℝ)
  | var y =>
    by_cases h : y = x
    · subst h
      simp only [D, if_true, eval_var, Function.update_self, eval_const, Rat.cast_one]
      exact hasDerivAt_id' (ρ y)
    · simp only [D, if_neg h, eval_var, Function.update_of_ne h, eval_const, Rat.cast_zero]
      exact hasDerivAt_const (ρ x) (ρ y)
  | add a b iha ihb => simp only [D, eval_add]; exact (iha hd.1).add (ihb hd.2)
  | sub a b iha ihb => simp only [D, eval_sub]; exact (iha hd.1).sub (ihb hd.2)
  | mul a b iha ihb =>
    simp only [D, eval_add, eval_mul]
    have := (iha hd.1).mul (ihb hd.2)
    simp only [hself] at this
    exact this
  | div a b iha ihb =>
    simp only [D, eval_div, eval_sub, eval_mul]
    have hb : eval (Function.update ρ x (ρ x)) b ≠ 0 := by rw [hself]; exact hd.2.2
    have := (iha hd.1).div (ihb hd.2.1) hb
    simp only [hself] at this
    exact this.congr_deriv (by rw [sq])
  | neg a iha => simp only [D, eval_neg]; exact (iha hd).neg
  | pow a n iha =>
    simp only [D, eval_mul, eval_pow, eval_const]
    have := (iha hd).pow n
    simp only [hself] at this
    exact this.congr_deriv (by simp)
  | sin a iha =>
    simp only [D, eval_mul, eval_sin, eval_cos]
    have := (iha hd).sin
    simp only [hself] at this
    exact this
  | cos a iha =>
    simp only [D, eval_mul, eval_sin, eval_cos, eval_neg]
    have := (iha hd).cos
    simp only [hself] at this
    exact this.congr_deriv (by ring)
  | exp a iha =>
    simp only [D, eval_mul, eval_exp]
    have := (iha hd).exp
    simp only [hself] at this
    exact this
  | tanh a iha =>
    simp only [D, eval_mul, eval_sub, eval_tanh, eval_const, Rat.cast_one]
    have := (hasDerivAt_tanh (eval (Function.update ρ x (ρ x)) a)).comp (ρ x) (iha hd)
    simp only [hself] at this
    exact this
  | relun a n iha =>
    have ha := iha hd.1
    have hne : eval ρ a ≠ 0 := hd.2
    have hcont := ha.continuousAt
    simp only [D, eval_mul, eval_const, Rat.cast_natCast]
    rcases lt_or_gt_of_ne hne with hneg | hpos
    · -- left of the kink: the function vanishes near the point
      have hev : ∀ᶠ t in nhds (ρ x), eval (Function.update ρ x t) a < 0 := by
        have := hcont.eventually (gt_mem_nhds (show eval (Function.update ρ x (ρ x)) a < 0 by rw [hself]; exact hneg))
        exact this
      have hz : (fun t => eval (Function.update ρ x t) (relun a n)) =ᶠ[nhds (ρ x)] fun _ => (0 : ℝ) := by
        filter_upwards [hev] with t ht
        simp only [eval_relun, if_neg (not_lt.mpr ht.le)]
      refine ((hasDerivAt_const (ρ x) (0 : ℝ)).congr_of_eventuallyEq hz).congr_deriv ?_
      simp only [eval_relun, if_neg (not_lt.mpr hneg.le), mul_zero, zero_mul]
    · -- right of the kink: the function is the n-th power near the point
      have hev : ∀ᶠ t in nhds (ρ x), 0 < eval (Function.update ρ x t) a := by
        have := hcont.eventually (lt_mem_nhds (show 0 < eval (Function.update ρ x (ρ x)) a by rw [hself]; exact hpos))
        exact this
      have hz : (fun t => eval (Function.update ρ x t) (relun a n)) =ᶠ[nhds (ρ x)]
          fun t => eval (Function.update ρ x t) a ^ n := by
        filter_upwards [hev] with t ht
        simp only [eval_relun, if_pos ht]
      have hp := ha.pow n
      simp only [hself] at hp
      refine (hp.congr_of_eventuallyEq hz).congr_deriv ?_
      simp only [eval_relun, if_pos hpos]


/-! ## functions that are constant / affine in a variable -/

theorem vars_D_subset (x : V) (e : Expr V) : ∀ y, y ∈ vars (D x e) → y ∈ vars e := by
  induction e with
  | const c => intro y h; simp [D, vars] at h
  | var z => intro y h; by_cases hz : z = x <;> simp [D, vars, hz] at h
  | add a b iha ihb | sub a b iha ihb =>
    intro y h; simp only [D, vars, List.mem_append] at h ⊢
    rcases h with h | h
    · exact Or.inl (iha y h)
    · exact Or.inr (ihb y h)
  | mul a b iha ihb =>
    intro y h; simp only [D, vars, List.mem_append] at h ⊢
    rcases h with (h | h) | (h | h)
    · exact Or.inl (iha y h)
    · exact Or.inr h
    · exact Or.inl h
    · exact Or.inr (ihb y h)
  | div a b iha ihb =>
    intro y h; simp only [D, vars, List.mem_append] at h ⊢
    rcases h with ((h | h) | (h | h)) | (h | h)
    · exact Or.inl (iha y h)
    · exact Or.inr h
    · exact Or.inl h
    · exact Or.inr (ihb y h)
    · exact Or.inr h
    · exact Or.inr h
  | neg a iha => intro y h; exact iha y (by simpa [D, vars] using h)
  | pow a n iha =>
    intro y h; simp only [D, vars, List.mem_append, List.not_mem_nil, false_or] at h ⊢
    rcases h with h | h
    · exact h
    · exact iha y h
  | sin a iha | cos a iha | exp a iha =>
    intro y h; simp only [D, vars, List.mem_append] at h ⊢
    rcases h with h | h
    · exact h
    · exact iha y h
  | tanh a iha =>
    intro y h; simp only [D, vars, List.mem_append, List.not_mem_nil, false_or] at h ⊢
    rcases h with (h | h) | h
    · exact h
    · exact h
    · exact iha y h
  | relun a n iha =>
    intro y h; simp only [D, vars, List.mem_append, List.not_mem_nil, false_or] at h ⊢
    rcases h with h | h
    · exact h
    · exact iha y h

/-- **A function that does not depend on `x` has derivative zero** (syntactic form: `x` does not occur). -/
theorem const_zero (x : V) (ρ : V → ℝ) (e : Expr V) (h : x ∉ vars e) : eval ρ (D x e) = 0 := by
  induction e with
  | const c => simp [D]
  | var y =>
    have : y ≠ x := by intro hy; apply h; simp [vars, hy]
    simp [D, this]
  | add a b iha ihb | sub a b iha ihb | mul a b iha ihb | div a b iha ihb =>
    simp only [vars, List.mem_append, not_or] at h
    simp [D, iha h.1, ihb h.2]
  | neg a iha | pow a n iha | sin a iha | cos a iha | exp a iha | tanh a iha | relun a n iha =>
    simp only [vars] at h
    simp [D, iha h]

/-- the value does not change when a coordinate that does not occur is changed -/
theorem eval_update_not_mem (x : V) (ρ : V → ℝ) (t : ℝ) (e : Expr V) (h : x ∉ vars e) :
    eval (Function.update ρ x t) e = eval ρ e := by
  induction e with
  | const c => rfl
  | var y =>
    have : y ≠ x := by intro hy; apply h; simp [vars, hy]
    simp [Function.update_of_ne this]
  | add a b iha ihb | sub a b iha ihb | mul a b iha ihb | div a b iha ihb =>
    simp only [vars, List.mem_append, not_or] at h
    simp [iha h.1, ihb h.2]
  | neg a iha | pow a n iha | sin a iha | cos a iha | exp a iha | tanh a iha | relun a n iha =>
    simp only [vars] at h
    simp [iha h]

/-- the derivative has no new denominators that vanish -/
theorem defined_D (x : V) (ρ : V → ℝ) (e : Expr V) (hd : DefinedR ρ e) : DefinedR ρ (D x e) := by
  induction e with
  | const c => trivial
  | var y => by_cases h : y = x <;> simp [D, h, DefinedR, Defined]
  | add a b iha ihb | sub a b iha ihb => exact ⟨iha hd.1, ihb hd.2⟩
  | mul a b iha ihb => exact ⟨⟨iha hd.1, hd.2⟩, ⟨hd.1, ihb hd.2⟩⟩
  | div a b iha ihb =>
    refine ⟨⟨⟨iha hd.1, hd.2.1⟩, ⟨hd.1, ihb hd.2.1⟩⟩, ⟨hd.2.1, hd.2.1⟩, ?_⟩
    have hb : eval ρ b ≠ 0 := hd.2.2
    simpa using hb
  | neg a iha => exact iha hd
  | pow a n iha => exact ⟨⟨trivial, hd⟩, iha hd⟩
  | sin a iha | cos a iha | exp a iha => exact ⟨hd, iha hd⟩
  | tanh a iha => exact ⟨⟨trivial, hd, hd⟩, iha hd⟩
  | relun a n iha => exact ⟨⟨trivial, hd.1, hd.2⟩, iha hd.1⟩

private theorem D2_zero_of_not_mem (x : V) (ρ : V → ℝ) (e : Expr V) (h : x ∉ vars e) :
    eval ρ (D x (D x e)) = 0 :=
  const_zero x ρ (D x e) (fun hx => h (vars_D_subset x e x hx))

/-- **A function that is affine in `x` has second derivative zero** (syntactic form). -/
theorem affine_zero (x : V) (ρ : V → ℝ) (e : Expr V) (h : affineIn x e = true) :
    eval ρ (D x (D x e)) = 0 := by
  induction e with
  | const c => simp [D]
  | var y => by_cases hy : y = x <;> simp [D, hy]
  | add a b iha ihb | sub a b iha ihb =>
    simp only [affineIn, Bool.and_eq_true] at h
    simp [D, iha h.1, ihb h.2]
  | mul a b iha ihb =>
    simp only [affineIn, Bool.or_eq_true, Bool.and_eq_true, Bool.not_eq_eq_eq_not, Bool.not_true,
      List.contains_eq_mem, decide_eq_false_iff_not] at h
    rcases h with ⟨ha, hb⟩ | ⟨ha, hb⟩
    · simp [D, const_zero x ρ a ha, D2_zero_of_not_mem x ρ a ha, ihb hb]
    · simp [D, const_zero x ρ b hb, D2_zero_of_not_mem x ρ b hb, iha ha]
  | div a b iha ihb =>
    simp only [affineIn, Bool.and_eq_true, Bool.not_eq_eq_eq_not, Bool.not_true,
      List.contains_eq_mem, decide_eq_false_iff_not] at h
    simp [D, const_zero x ρ b h.2, D2_zero_of_not_mem x ρ b h.2, iha h.1]
  | neg a iha =>
    simp only [affineIn] at h
    simp [D, iha h]
  | pow a n iha =>
    simp only [affineIn, Bool.not_eq_eq_eq_not, Bool.not_true, List.contains_eq_mem, decide_eq_false_iff_not] at h
    exact D2_zero_of_not_mem x ρ (pow a n) (by simpa [vars] using h)
  | sin a iha =>
    simp only [affineIn, Bool.not_eq_eq_eq_not, Bool.not_true, List.contains_eq_mem, decide_eq_false_iff_not] at h
    exact D2_zero_of_not_mem x ρ (sin a) (by simpa [vars] using h)
  | cos a iha =>
    simp only [affineIn, Bool.not_eq_eq_eq_not, Bool.not_true, List.contains_eq_mem, decide_eq_false_iff_not] at h
    exact D2_zero_of_not_mem x ρ (cos a) (by simpa [vars] using h)
  | exp a iha =>
    simp only [affineIn, Bool.not_eq_eq_eq_not, Bool.not_true, List.contains_eq_mem, decide_eq_false_iff_not] at h
    exact D2_zero_of_not_mem x ρ (exp a) (by simpa [vars] using h)
  | tanh a iha =>
    simp only [affineIn, Bool.not_eq_eq_eq_not, Bool.not_true, List.contains_eq_mem, decide_eq_false_iff_not] at h
    exact D2_zero_of_not_mem x ρ (tanh a) (by simpa [vars] using h)
  | relun a n iha =>
    simp only [affineIn, Bool.not_eq_eq_eq_not, Bool.not_true, List.contains_eq_mem, decide_eq_false_iff_not] at h
    exact D2_zero_of_not_mem x ρ (relun a n) (by simpa [vars] using h)

/-- semantic form: if the value does not change along the `x`-line through `ρ`, the derivative is zero -/
theorem const_zero_semantic (x : V) (ρ : V → ℝ) (e : Expr V) (hd : DefinedR ρ e)
    (h : ∀ t, eval (Function.update ρ x t) e = eval ρ e) : eval ρ (D x e) = 0 := by
  have h1 := D_correct x ρ e hd
  have h2 : HasDerivAt (fun t => eval (Function.update ρ x t) e) 0 (ρ x) := by
    have : (fun t => eval (Function.update ρ x t) e) = fun _ => eval ρ e := funext h
    rw [this]; exact hasDerivAt_const _ _
  exact h1.unique h2

/-- semantic form: if the function is `α + β·t` along the whole `x`-line through `ρ` (and defined there),
    the second derivative is zero -/
theorem affine_zero_semantic (x : V) (ρ : V → ℝ) (e : Expr V) (α β : ℝ)
    (hd : ∀ t, DefinedR (Function.update ρ x t) e)
    (h : ∀ t, eval (Function.update ρ x t) e = α + β * t) : eval ρ (D x (D x e)) = 0 := by
  have hfirst : ∀ t, eval (Function.update ρ x t) (D x e) = β := by
    intro t
    have h1 := D_correct x (Function.update ρ x t) e (hd t)
    simp only [Function.update_idem, Function.update_self] at h1
    have h2 : HasDerivAt (fun s => eval (Function.update ρ x s) e) β t := by
      have : (fun s => eval (Function.update ρ x s) e) = fun s => α + β * s := funext h
      rw [this]
      simpa using ((hasDerivAt_id t).const_mul β).const_add α
    exact h1.unique h2
  have hd0 : DefinedR ρ e := by simpa using hd (ρ x)
  have h1 := D_correct x ρ (D x e) (defined_D x ρ e hd0)
  have h2 : HasDerivAt (fun t => eval (Function.update ρ x t) (D x e)) 0 (ρ x) := by
    have : (fun t => eval (Function.update ρ x t) (D x e)) = fun _ => β := funext hfirst
    rw [this]; exact hasDerivAt_const _ _
  exact h1.unique h2

/-! ## the operators are the textbook expressions -/

/-- `d` is the partial derivative of the program `u` with respect to the coordinate `y` at the row `ρ` -/
def IsPartialDeriv (ρ : V → ℝ) (y : V) (u : Expr V) (d : ℝ) : Prop :=
  HasDerivAt (fun t => eval (Function.update ρ y t) u) d (ρ y)

theorem eval_sumE (ρ : V → ℝ) (l : List (Expr V)) : eval ρ (sumE l) = (l.map (eval ρ)).sum := by
  induction l with
  | nil => simp [sumE]
  | cons e es ih =>
    cases es with
    | nil => simp [sumE]
    | cons e' es' => simp only [sumE, eval_add, ih, List.map_cons, List.sum_cons]

theorem eval_D_sumE (x : V) (ρ : V → ℝ) (l : List (Expr V)) :
    eval ρ (D x (sumE l)) = (l.map (fun a => eval ρ (D x a))).sum := by
  induction l with
  | nil => simp [sumE, D, zero]
  | cons e es ih =>
    cases es with
    | nil => simp [sumE]
    | cons e' es' => simp only [sumE, D, eval_add, ih, List.map_cons, List.sum_cons]

/-- `grad` lists the derivatives with respect to the concatenated coordinates of the variables, in the
    order in which the variables were passed — for any number and order of variables -/
theorem grad_eq (out : List (Expr V)) (vs : List (VarT V)) :
    grad out vs = vs.flatten.map (fun y => D y (sumE out)) := by
  have h : autograd (sumE out) = List.map (fun y => D y (sumE out)) := rfl
  rw [grad, h, ← List.map_flatten]

theorem grad_length (out : List (Expr V)) (vs : List (VarT V)) :
    (grad out vs).length = (vs.map List.length).sum := by
  rw [grad_eq, List.length_map, List.length_flatten]

/-- **grad**: for a scalar program `u`, entry `j` of `grad(u, vars…)` is the partial derivative of `u` with
    respect to the `j`-th coordinate of the concatenated variables -/
theorem grad_spec (u : Expr V) (vs : List (VarT V)) (ρ : V → ℝ) (hd : DefinedR ρ u) :
    List.Forall₂ (fun y g => IsPartialDeriv ρ y u (eval ρ g)) vs.flatten (grad [u] vs) := by
  rw [grad_eq, List.forall₂_map_right_iff]
  exact List.forall₂_same.mpr (fun y _ => D_correct y ρ u hd)

private theorem filterMap_range_getElem? {α β : Type} (v : List α) (F : α → β) :
    ∀ n, (List.range n).filterMap (fun i => (v[i]?).map F) = (v.take n).map F := by
  intro n
  induction n with
  | zero => simp
  | succ n ih =>
    rw [List.range_succ, List.filterMap_append, ih, List.take_add_one, List.map_append]
    congr 1
    cases h : v[n]? <;> simp [h]

/-- the index arithmetic of the laplacian loop (`narrow(-1, i, 1)` twice) selects the pure second derivatives -/
theorem lapVar_eq (s : Expr V) (v : VarT V) : lapVar s v = v.map (fun x => D x (D x s)) := by
  have h : ∀ i : Nat, ((autograd s v)[i]?).bind (fun gi => (autograd gi v)[i]?) = ((v : List V)[i]?).map (fun x => D x (D x s)) := by
    intro i
    simp only [autograd, List.getElem?_map]
    cases v[i]? <;> simp
  simp only [lapVar, h]
  rw [filterMap_range_getElem? v _ v.length, List.take_length]

/-- **laplacian**: the value is the sum of the pure second derivatives over all coordinates of all listed variables -/
theorem laplacian_spec (u : Expr V) (vs : List (VarT V)) (ρ : V → ℝ) :
    (laplacian [u] vs).map (eval ρ) = [(vs.flatten.map (fun y => eval ρ (D y (D y u)))).sum] := by
  have hfun : lapVar u = List.map (fun x => D x (D x u)) := funext (lapVar_eq u)
  simp only [laplacian, List.map_cons, List.map_nil, eval_sumE, sumE, hfun]
  rw [← List.map_flatten, List.map_map]
  rfl

/-- the second derivative value is the derivative of the first-derivative function (two applications of `D_correct`) -/
theorem D2_correct (y : V) (u : Expr V) (ρ : V → ℝ) (hd : ∀ t, DefinedR (Function.update ρ y t) u) :
    HasDerivAt (fun t => deriv (fun s => eval (Function.update ρ y s) u) t) (eval ρ (D y (D y u))) (ρ y) := by
  have h1 : (fun t => deriv (fun s => eval (Function.update ρ y s) u) t)
      = fun t => eval (Function.update ρ y t) (D y u) := by
    funext t
    have := D_correct y (Function.update ρ y t) u (hd t)
    simp only [Function.update_idem, Function.update_self] at this
    exact this.deriv
  rw [h1]
  have hd0 : DefinedR ρ u := by simpa using hd (ρ y)
  exact D_correct y ρ (D y u) (defined_D y ρ u hd0)

private theorem zipWith_append_left {α β γ : Type} (f : α → β → γ) :
    ∀ (a b : List α) (l : List β), List.zipWith f (a ++ b) l = List.zipWith f a l ++ List.zipWith f b (l.drop a.length)
  | [], b, l => by simp
  | x :: a, b, [] => by simp
  | x :: a, b, y :: l => by simp [zipWith_append_left f a b l]

private theorem divVar_ok (out : List (Expr V)) : ∀ (v : VarT V) (k : Nat), k + v.length ≤ out.length →
    divVar out v k = .ok (List.zipWith (fun y o => D y o) v (out.drop k))
  | [], k, _ => by simp [divVar]
  | x :: xs, k, h => by
    have hk : k < out.length := by simp at h; omega
    have ih := divVar_ok out xs (k + 1) (by simp at h ⊢; omega)
    simp only [divVar, List.getElem?_eq_getElem hk, ih]
    rw [List.drop_eq_getElem_cons hk]
    rfl

private theorem divTerms_ok (out : List (Expr V)) : ∀ (vs : List (VarT V)) (off : Nat),
    off + vs.flatten.length ≤ out.length →
    divTerms out vs off = .ok (List.zipWith (fun y o => D y o) vs.flatten (out.drop off))
  | [], off, _ => by simp [divTerms]
  | v :: vs, off, h => by
    simp only [List.flatten_cons, List.length_append] at h
    have h1 := divVar_ok out v off (by omega)
    have h2 := divTerms_ok out vs (off + v.length) (by omega)
    simp only [divTerms, h1, h2, List.flatten_cons, zipWith_append_left, List.drop_drop]
    rfl

/-- **div**: with at least as many output components as coordinates, `div` is `Σ_j ∂u_j/∂y_j` where `y` is the
    concatenation of the variables — the running column offset pairs component `j` with coordinate `j` -/
theorem div_spec (out : List (Expr V)) (vs : List (VarT V)) (h : vs.flatten.length ≤ out.length) :
    div out vs = .ok [sumE (List.zipWith (fun y o => D y o) vs.flatten out)] := by
  have := divTerms_ok out vs 0 (by omega)
  simp only [div, this, List.drop_zero]
  rfl

theorem div_value (out : List (Expr V)) (vs : List (VarT V)) (ρ : V → ℝ) (h : vs.flatten.length ≤ out.length) :
    (div out vs).map (List.map (eval ρ)) = .ok [(List.zipWith (fun y o => eval ρ (D y o)) vs.flatten out).sum] := by
  rw [div_spec out vs h]
  simp only [Except.map, List.map_cons, List.map_nil, eval_sumE, List.map_zipWith]

/-- **jac**: entry `(i, j)` is the derivative of component `i` with respect to coordinate `j` of the concatenated variables -/
theorem jac_eq (out : List (Expr V)) (vs : List (VarT V)) :
    jac out vs = out.map (fun o => vs.flatten.map (fun y => D y o)) := by
  have h : ∀ o : Expr V, autograd o = List.map (fun y => D y o) := fun o => rfl
  simp only [jac, h, ← List.map_flatten]

theorem jac_spec (out : List (Expr V)) (vs : List (VarT V)) (ρ : V → ℝ) (hd : ∀ o ∈ out, DefinedR ρ o) :
    List.Forall₂ (fun o row => List.Forall₂ (fun y g => IsPartialDeriv ρ y o (eval ρ g)) vs.flatten row) out (jac out vs) := by
  rw [jac_eq, List.forall₂_map_right_iff]
  refine List.forall₂_same.mpr (fun o ho => ?_)
  rw [List.forall₂_map_right_iff]
  exact List.forall₂_same.mpr (fun y _ => D_correct y ρ o (hd o ho))

/-- **rot**: the curl `(∂₁u₂ − ∂₂u₁, ∂₂u₀ − ∂₀u₂, ∂₀u₁ − ∂₁u₀)` for any way of splitting the three coordinates into variables -/
theorem rot_spec (u0 u1 u2 : Expr V) (y0 y1 y2 : V) (vs : List (VarT V)) (h : vs.flatten = [y0, y1, y2]) :
    rot [u0, u1, u2] vs = .ok [sub (D y1 u2) (D y2 u1), sub (D y2 u0) (D y0 u2), sub (D y0 u1) (D y1 u0)] := by
  simp only [rot, jac_eq, h]
  rfl

/-- **partial**: with scalar variables `y₁ … yₙ` the result is the iterated derivative `∂ⁿu / ∂yₙ … ∂y₁` -/
theorem partial_spec (ys : List V) : ∀ u : Expr V, partialD [u] (ys.map fun y => [y]) = [Dn ys u] := by
  induction ys with
  | nil => intro u; rfl
  | cons y ys ih => intro u; simp only [List.map_cons, partialD, autograd, sumE, List.map_nil, ih, Dn]

/-- one variable of any dimension: `partial(u, x)` is the gradient -/
theorem partial_single (u : Expr V) (v : VarT V) : partialD [u] [v] = v.map (fun y => D y u) := rfl

/-- **normal_derivative**: `Σ_j ∂u/∂y_j · n_j` -/
theorem normalDerivative_spec (u : Expr V) (normals : List (Expr V)) (vs : List (VarT V)) (ρ : V → ℝ)
    (h : normals.length = vs.flatten.length) :
    (normalDerivative [u] normals vs).map (List.map (eval ρ))
      = .ok [(List.zipWith (fun y n => eval ρ (D y u) * eval ρ n) vs.flatten normals).sum] := by
  have hl : (grad [u] vs).length = normals.length := by rw [grad_eq, List.length_map, h]
  have hb : bmul (grad [u] vs) normals = .ok (List.zipWith mul (grad [u] vs) normals) := by
    simp only [bmul, hl, if_true]
  rw [normalDerivative, hb]
  simp only [bind, Except.bind, pure, Except.pure, Except.map,
    List.map_cons, List.map_nil, eval_sumE, List.map_zipWith, grad_eq, sumE, List.zipWith_map_left, eval_mul]

/-- **convective**: `(Σ_j v_j ∂u_i/∂y_j)_i` -/
theorem convective_spec (out field : List (Expr V)) (vs : List (VarT V)) (ρ : V → ℝ)
    (h : field.length = vs.flatten.length) :
    (convective out field vs).map (List.map (eval ρ))
      = .ok (out.map fun o => (List.zipWith (fun y w => eval ρ (D y o) * eval ρ w) vs.flatten field).sum) := by
  have hall : (jac out vs).all (fun r => r.length = field.length) = true := by
    rw [List.all_eq_true]
    intro r hr
    rw [jac_eq, List.mem_map] at hr
    obtain ⟨o, _, rfl⟩ := hr
    simp only [List.length_map, h, decide_eq_true_eq]
  rw [convective]
  simp only [hall, if_true, Except.map]
  rw [jac_eq, List.map_map, List.map_map]
  congr 1
  apply List.map_congr_left
  intro o _
  simp only [Function.comp, eval_sumE, List.map_zipWith, List.zipWith_map_left, eval_mul]

/-! ## the sum-then-autograd trick: rows are independent -/

theorem eval_map {W : Type} (f : V → W) (ρ : W → ℝ) (e : Expr V) : eval ρ (e.map f) = eval (fun y => ρ (f y)) e := by
  induction e with
  | const c => rfl
  | var y => rfl
  | add a b iha ihb | sub a b iha ihb | mul a b iha ihb | div a b iha ihb => simp [Expr.map, iha, ihb]
  | neg a iha | pow a n iha | sin a iha | cos a iha | exp a iha | tanh a iha | relun a n iha => simp [Expr.map, iha]

theorem vars_map {W : Type} (f : V → W) (e : Expr V) : vars (e.map f) = (vars e).map f := by
  induction e with
  | const c => rfl
  | var y => rfl
  | add a b iha ihb | sub a b iha ihb | mul a b iha ihb | div a b iha ihb => simp [Expr.map, vars, iha, ihb]
  | neg a iha | pow a n iha | sin a iha | cos a iha | exp a iha | tanh a iha | relun a n iha => simp [Expr.map, vars, iha]

/-- differentiating a renamed program with respect to a renamed coordinate = renaming the derivative -/
theorem D_map_inj {W : Type} [DecidableEq W] (f : V → W) (hf : Function.Injective f) (x : V) (e : Expr V) :
    D (f x) (e.map f) = (D x e).map f := by
  induction e with
  | const c => rfl
  | var y =>
    by_cases h : y = x
    · subst h; simp [Expr.map, D]
    · have : f y ≠ f x := fun hh => h (hf hh)
      simp [Expr.map, D, h, this]
  | add a b iha ihb | sub a b iha ihb | mul a b iha ihb | div a b iha ihb => simp [Expr.map, D, iha, ihb]
  | neg a iha | pow a n iha | sin a iha | cos a iha | exp a iha | tanh a iha | relun a n iha => simp [Expr.map, D, iha]

/-- the derivative of the program placed at row `r'` with respect to a coordinate of row `r` -/
theorem eval_D_atRow (ρB : BV V → ℝ) (r r' : Nat) (x : V) (e : Expr V) :
    eval ρB (D (r, x) (atRow r' e)) = if r' = r then eval (fun y => ρB (r, y)) (D x e) else 0 := by
  by_cases h : r' = r
  · subst h
    have hinj : Function.Injective (fun y : V => ((r', y) : BV V)) := fun a b hab => (Prod.mk.inj hab).2
    simp only [atRow, if_true]
    rw [D_map_inj (fun y : V => ((r', y) : BV V)) hinj, eval_map]
  · rw [if_neg h]
    apply const_zero
    simp only [atRow, vars_map, List.mem_map, not_exists, not_and]
    intro y _ hy
    exact h (Prod.mk.inj hy).1

private theorem sum_range_single (n r : Nat) (c : ℝ) (h : r < n) :
    ((List.range n).map (fun r' => if r' = r then c else 0)).sum = c := by
  induction n with
  | zero => omega
  | succ n ih =>
    rw [List.range_succ, List.map_append, List.sum_append]
    by_cases hr : r = n
    · subst hr
      have : ((List.range r).map (fun r' => if r' = r then c else 0)) = (List.range r).map (fun _ => (0 : ℝ)) := by
        apply List.map_congr_left
        intro a ha
        have : a ≠ r := by have := List.mem_range.mp ha; omega
        simp [this]
      rw [this]; simp
    · have hlt : r < n := by omega
      rw [ih hlt]
      have : n ≠ r := fun hh => hr hh.symm
      simp [this]

/-- **sum trick.** Differentiating the sum over all `n` rows with respect to a coordinate of row `r` gives the
    derivative of the row-level program at row `r` — the other rows contribute nothing. -/
theorem sum_trick (n r : Nat) (hr : r < n) (ρB : BV V → ℝ) (x : V) (e : Expr V) :
    eval ρB (D (r, x) (total n e)) = eval (fun y => ρB (r, y)) (D x e) := by
  simp only [total, eval_D_sumE, List.map_map, Function.comp_def, eval_D_atRow]
  exact sum_range_single n r _ hr

theorem flatten_varAt (r : Nat) (vs : List (VarT V)) :
    (vs.map (varAt r)).flatten = vs.flatten.map (fun y => ((r, y) : BV V)) := by
  have h : (varAt r : VarT V → VarT (BV V)) = List.map (fun y => ((r, y) : BV V)) := rfl
  rw [h, ← List.map_flatten]

/-- the batch-level `grad` the code executes equals the row-level `grad`, entry by entry -/
theorem gradB_eq (n r : Nat) (hr : r < n) (ρB : BV V → ℝ) (out : List (Expr V)) (vs : List (VarT V)) :
    (gradB n out vs r).map (eval ρB) = (grad out vs).map (eval (fun y => ρB (r, y))) := by
  simp only [gradB, grad_eq, flatten_varAt, List.map_map, Function.comp_def,
    eval_D_sumE, sum_trick n r hr]

/-- the batch-level `jac` equals the row-level `jac` -/
theorem jacB_eq (n r : Nat) (hr : r < n) (ρB : BV V → ℝ) (out : List (Expr V)) (vs : List (VarT V)) :
    (jacB n out vs r).map (List.map (eval ρB)) = (jac out vs).map (List.map (eval (fun y => ρB (r, y)))) := by
  simp only [jacB, jac_eq, flatten_varAt, List.map_map, Function.comp_def, sum_trick n r hr]

/-- the batch-level `div` equals the row-level `div` -/
theorem divB_eq (n r : Nat) (hr : r < n) (ρB : BV V → ℝ) (out : List (Expr V)) (vs : List (VarT V))
    (h : vs.flatten.length ≤ out.length) :
    (divB n out vs r).map (List.map (eval ρB)) = (div out vs).map (List.map (eval (fun y => ρB (r, y)))) := by
  have h' : (vs.map (varAt r)).flatten.length ≤ (out.map (total n)).length := by
    rw [flatten_varAt, List.length_map, List.length_map]; exact h
  rw [divB, div_value _ _ _ h', div_value _ _ _ h]
  simp only [flatten_varAt, List.zipWith_map_left, List.zipWith_map_right, sum_trick n r hr]

/-- **row independence** (grad): the result for row `r` depends only on row `r` of the inputs -/
theorem grad_row_independent (n r : Nat) (hr : r < n) (ρB ρB' : BV V → ℝ) (out : List (Expr V)) (vs : List (VarT V))
    (hrow : ∀ y, ρB (r, y) = ρB' (r, y)) :
    (gradB n out vs r).map (eval ρB) = (gradB n out vs r).map (eval ρB') := by
  rw [gradB_eq n r hr, gradB_eq n r hr, funext hrow]

theorem jac_row_independent (n r : Nat) (hr : r < n) (ρB ρB' : BV V → ℝ) (out : List (Expr V)) (vs : List (VarT V))
    (hrow : ∀ y, ρB (r, y) = ρB' (r, y)) :
    (jacB n out vs r).map (List.map (eval ρB)) = (jacB n out vs r).map (List.map (eval ρB')) := by
  rw [jacB_eq n r hr, jacB_eq n r hr, funext hrow]

/-! ## second order: the laplacian's second autograd call sums the gradient column over ALL rows -/

/-- two programs with the same values along the `x`-line have the same `x`-derivative value -/
theorem eval_D_congr (x : V) (ρ : V → ℝ) (e1 e2 : Expr V) (h1 : DefinedR ρ e1) (h2 : DefinedR ρ e2)
    (h : ∀ t, eval (Function.update ρ x t) e1 = eval (Function.update ρ x t) e2) :
    eval ρ (D x e1) = eval ρ (D x e2) := by
  have d1 := D_correct x ρ e1 h1
  have d2 := D_correct x ρ e2 h2
  rw [funext h] at d1
  exact d1.unique d2

theorem defined_map {W : Type} (f : V → W) (ρ : W → ℝ) (e : Expr V) :
    DefinedR ρ (e.map f) ↔ DefinedR (fun y => ρ (f y)) e := by
  induction e with
  | const c => exact Iff.rfl
  | var y => exact Iff.rfl
  | add a b iha ihb | sub a b iha ihb | mul a b iha ihb =>
    exact ⟨fun h => ⟨iha.mp h.1, ihb.mp h.2⟩, fun h => ⟨iha.mpr h.1, ihb.mpr h.2⟩⟩
  | div a b iha ihb =>
    constructor
    · intro h
      refine ⟨iha.mp h.1, ihb.mp h.2.1, ?_⟩
      have := h.2.2
      rwa [eval_map] at this
    · intro h
      refine ⟨iha.mpr h.1, ihb.mpr h.2.1, ?_⟩
      show ¬ (eval ρ (b.map f) = 0)
      rw [eval_map]
      exact h.2.2
  | neg a iha | pow a n iha | sin a iha | cos a iha | exp a iha | tanh a iha => exact iha
  | relun a n iha =>
    constructor
    · intro h
      refine ⟨iha.mp h.1, ?_⟩
      have := h.2
      rwa [eval_map] at this
    · intro h
      refine ⟨iha.mpr h.1, ?_⟩
      show ¬ (eval ρ (a.map f) = 0)
      rw [eval_map]
      exact h.2

theorem defined_sumE (ρ : V → ℝ) (l : List (Expr V)) (h : ∀ e ∈ l, DefinedR ρ e) : DefinedR ρ (sumE l) := by
  induction l with
  | nil => trivial
  | cons e es ih =>
    cases es with
    | nil => exact h e (by simp)
    | cons e' es' => exact ⟨h e (by simp), ih (fun a ha => h a (by simp [ha]))⟩

theorem defined_total (n : Nat) (ρB : BV V → ℝ) (u : Expr V) (h : ∀ r', r' < n → DefinedR (fun y => ρB (r', y)) u) :
    DefinedR ρB (total n u) := by
  apply defined_sumE
  intro e he
  rw [List.mem_map] at he
  obtain ⟨r', hr', rfl⟩ := he
  exact (defined_map _ ρB u).mpr (h r' (List.mem_range.mp hr'))

/-- second-order sum trick: `D (r,x)` of the row-sum of the gradient column is the pure second derivative at row `r` -/
theorem sum_trick2 (n r : Nat) (hr : r < n) (ρB : BV V → ℝ) (x : V) (u : Expr V)
    (hd : ∀ r', r' < n → DefinedR (fun y => ρB (r', y)) u) :
    eval ρB (D (r, x) (sumE ((List.range n).map fun r' => D (r', x) (total n u))))
      = eval (fun y => ρB (r, y)) (D x (D x u)) := by
  rw [eval_D_sumE, List.map_map]
  have hterm : ∀ r' ∈ List.range n,
      ((fun a => eval ρB (D (r, x) a)) ∘ fun r' => D (r', x) (total n u)) r'
        = if r' = r then eval (fun y => ρB (r, y)) (D x (D x u)) else 0 := by
    intro r' hr'
    have hr'n : r' < n := List.mem_range.mp hr'
    have hc : eval ρB (D (r, x) (D (r', x) (total n u))) = eval ρB (D (r, x) (atRow r' (D x u))) := by
      apply eval_D_congr
      · exact defined_D _ _ _ (defined_total n ρB u hd)
      · exact (defined_map _ ρB (D x u)).mpr (defined_D _ _ _ (hd r' hr'n))
      · intro t
        rw [sum_trick n r' hr'n, atRow, eval_map]
    simp only [Function.comp, hc, eval_D_atRow]
  rw [List.map_congr_left hterm]
  exact sum_range_single n r _ hr

/-- the batch-level `laplacian` the code executes equals the row-level laplacian (scalar output) -/
theorem laplacianB_eq (n r : Nat) (hr : r < n) (ρB : BV V → ℝ) (u : Expr V) (vs : List (VarT V))
    (hd : ∀ r', r' < n → DefinedR (fun y => ρB (r', y)) u) :
    (laplacianB n [u] vs r).map (eval ρB) = (laplacian [u] vs).map (eval (fun y => ρB (r, y))) := by
  rw [laplacian_spec]
  simp only [laplacianB, List.map_cons, List.map_nil, sumE, eval_sumE]
  congr 1
  rw [← List.map_flatten, List.map_map]
  congr 1
  apply List.map_congr_left
  intro x _
  exact sum_trick2 n r hr ρB x u hd

/-! ## sym_grad, matrix_div -/

private theorem entry_map (rows : List (Expr V)) (f : Expr V → List (Expr V)) (i j : Nat) :
    entry (rows.map f) i j = match rows[i]? with
      | some o => (match (f o)[j]? with | some e => .ok e | none => .error "narrow")
      | none => .error "narrow" := by
  simp only [entry, List.getElem?_map]
  cases rows[i]? <;> rfl

/-- the loop body of `symGrad`: entry `(i, j)` is `½ (∂u_i/∂y_j + ∂u_j/∂y_i)` (square case) -/
theorem symGrad_entry (out : List (Expr V)) (vs : List (VarT V)) (i j : Nat) (o_i o_j : Expr V) (y_i y_j : V)
    (hi : out[i]? = some o_i) (hj : out[j]? = some o_j)
    (hyi : vs.flatten[i]? = some y_i) (hyj : vs.flatten[j]? = some y_j) :
    (do let a ← entry (jac out vs) i j; let b ← entry (jac out vs) j i; pure (mul (const (1/2)) (add a b)) : Except String (Expr V))
      = .ok (mul (const (1/2)) (add (D y_j o_i) (D y_i o_j))) := by
  simp only [jac_eq, entry_map, hi, hj, List.getElem?_map, hyi, hyj, Option.map_some]
  rfl

/-- **matrix_div**: one divergence per matrix row -/
theorem matrixDiv_spec (M : List (List (Expr V))) (vs : List (VarT V)) (h : ∀ row ∈ M, vs.flatten.length ≤ row.length) :
    matrixDiv M vs = .ok (M.map fun row => sumE (List.zipWith (fun y o => D y o) vs.flatten row)) := by
  have hm : M.mapM (fun row => div row vs) = .ok (M.map fun row => [sumE (List.zipWith (fun y o => D y o) vs.flatten row)]) := by
    induction M with
    | nil => rfl
    | cons row M ih =>
      have h1 := div_spec row vs (h row (by simp))
      have h2 := ih (fun r hr => h r (by simp [hr]))
      simp only [List.mapM_cons, h1, h2, bind, Except.bind, pure, Except.pure, List.map_cons]
  simp only [matrixDiv, hm, bind, Except.bind, pure, Except.pure]
  congr 1
  have hflat : ∀ (L : List (List (Expr V))) (g : List (Expr V) → Expr V),
      (L.map fun row => [g row]).flatten = L.map g := by
    intro L g
    induction L with
    | nil => rfl
    | cons a L ih => simp [ih]
  exact hflat M _


private theorem mapM_ok {α β : Type} (f : α → Except String β) (g : α → β) :
    ∀ xs : List α, (∀ x ∈ xs, f x = .ok (g x)) → xs.mapM f = .ok (xs.map g)
  | [], _ => rfl
  | x :: xs, h => by
    have h1 := h x (by simp)
    have h2 := mapM_ok f g xs (fun a ha => h a (by simp [ha]))
    simp only [List.mapM_cons, h1, h2, bind, Except.bind, pure, Except.pure, List.map_cons]

/-- **sym_grad** (square case): the assembled matrix has entry `(i, j)` = `½ (∂u_i/∂y_j + ∂u_j/∂y_i)` -/
theorem symGrad_spec (out : List (Expr V)) (vs : List (VarT V)) (h : out.length = vs.flatten.length) :
    ∃ S : List (List (Expr V)), symGrad out vs = .ok S ∧ S.length = out.length ∧
      ∀ (i j : Nat) (oi oj : Expr V) (yi yj : V), out[i]? = some oi → out[j]? = some oj → vs.flatten[i]? = some yi → vs.flatten[j]? = some yj →
        ∃ row : List (Expr V), S[i]? = some row ∧ row.length = out.length ∧
          row[j]? = some (mul (const (1/2)) (add (D yj oi) (D yi oj))) := by
  let G : Nat → Nat → Expr V := fun i j =>
    match out[i]?, out[j]?, vs.flatten[i]?, vs.flatten[j]? with
    | some oi, some oj, some yi, some yj => mul (const (1/2)) (add (D yj oi) (D yi oj))
    | _, _, _, _ => zero
  have hlen : (jac out vs).length = out.length := by rw [jac_eq, List.length_map]
  have hall : (jac out vs).all (fun r => r.length = out.length) = true := by
    rw [List.all_eq_true]
    intro r hr
    rw [jac_eq, List.mem_map] at hr
    obtain ⟨o, _, rfl⟩ := hr
    simp only [List.length_map, h, decide_eq_true_eq]
  have hbody : ∀ i ∈ List.range out.length, ∀ j ∈ List.range out.length,
      (do let a ← entry (jac out vs) i j; let b ← entry (jac out vs) j i; pure (mul (const (1/2)) (add a b)) : Except String (Expr V))
        = .ok (G i j) := by
    intro i hi j hj
    have hi' : i < out.length := List.mem_range.mp hi
    have hj' : j < out.length := List.mem_range.mp hj
    have e1 : out[i]? = some out[i] := List.getElem?_eq_getElem hi'
    have e2 : out[j]? = some out[j] := List.getElem?_eq_getElem hj'
    have e3 : vs.flatten[i]? = some (vs.flatten[i]'(h ▸ hi')) := List.getElem?_eq_getElem (h ▸ hi')
    have e4 : vs.flatten[j]? = some (vs.flatten[j]'(h ▸ hj')) := List.getElem?_eq_getElem (h ▸ hj')
    rw [symGrad_entry out vs i j _ _ _ _ e1 e2 e3 e4]
    simp only [G, e1, e2, e3, e4]
  refine ⟨(List.range out.length).map (fun i => (List.range out.length).map (G i)), ?_, by simp, ?_⟩
  · rw [symGrad]
    simp only [hall, if_true, hlen]
    apply mapM_ok
    intro i hi
    apply mapM_ok
    intro j hj
    exact hbody i hi j hj
  · intro i j oi oj yi yj h1 h2 h3 h4
    have hi' : i < out.length := by
      by_contra hc; rw [List.getElem?_eq_none (by omega)] at h1; cases h1
    have hj' : j < out.length := by
      by_contra hc; rw [List.getElem?_eq_none (by omega)] at h2; cases h2
    refine ⟨(List.range out.length).map (G i), ?_, by simp, ?_⟩
    · simp [List.getElem?_map, List.getElem?_range hi']
    · simp only [List.getElem?_map, List.getElem?_range hj', Option.map_some, G, h1, h2, h3, h4]

/-! ### `partial` of any order on the whole batch -/

/-- invariant of the `partial` loop on the whole batch: `du` (batch level) and `o` (row level) agree in value at
    every row, everywhere, and all their denominators are non-zero everywhere -/
def PartialInv (n : Nat) (du : Nat → List (Expr (BV V))) (o : List (Expr V)) : Prop :=
  (∀ (ρB : BV V → ℝ) r, r < n → (du r).map (eval ρB) = o.map (eval (fun y => ρB (r, y)))) ∧
  (∀ (ρB : BV V → ℝ) r, r < n → ∀ e ∈ du r, DefinedR ρB e) ∧
  (∀ (ρ : V → ℝ), ∀ e ∈ o, DefinedR ρ e)

theorem partialInv_init (n : Nat) (out : List (Expr V)) (hd : ∀ ρ : V → ℝ, ∀ o ∈ out, DefinedR ρ o) :
    PartialInv n (fun r => out.map (atRow r)) out := by
  refine ⟨?_, ?_, hd⟩
  · intro ρB r _
    simp only [List.map_map, Function.comp_def, atRow, eval_map]
  · intro ρB r _ e he
    rw [List.mem_map] at he
    obtain ⟨o, ho, rfl⟩ := he
    exact (defined_map _ ρB o).mpr (hd _ o ho)

theorem partialInv_step (n : Nat) (du : Nat → List (Expr (BV V))) (o : List (Expr V)) (v : VarT V)
    (h : PartialInv n du o) : PartialInv n (partialStepB n du v) (autograd (sumE o) v) := by
  obtain ⟨hval, hdef, hdo⟩ := h
  -- the differentiated batch scalar and its row-wise counterpart
  have hT : ∀ ρB : BV V → ℝ, eval ρB (sumE ((List.range n).map fun r' => sumE (du r')))
      = eval ρB (total n (sumE o)) := by
    intro ρB
    simp only [total, eval_sumE, List.map_map, Function.comp_def, atRow, eval_map]
    congr 1
    apply List.map_congr_left
    intro r' hr'
    rw [hval ρB r' (List.mem_range.mp hr')]
  have hTd : ∀ ρB : BV V → ℝ, DefinedR ρB (sumE ((List.range n).map fun r' => sumE (du r'))) := by
    intro ρB
    apply defined_sumE
    intro e he
    rw [List.mem_map] at he
    obtain ⟨r', hr', rfl⟩ := he
    exact defined_sumE ρB _ (hdef ρB r' (List.mem_range.mp hr'))
  have hod : ∀ ρ : V → ℝ, DefinedR ρ (sumE o) := fun ρ => defined_sumE ρ o (hdo ρ)
  refine ⟨?_, ?_, ?_⟩
  · intro ρB r hr
    simp only [partialStepB, autograd, varAt, List.map_map, Function.comp_def]
    apply List.map_congr_left
    intro x _
    rw [← sum_trick n r hr ρB x (sumE o)]
    apply eval_D_congr
    · exact hTd ρB
    · exact defined_total n ρB (sumE o) (fun r' _ => hod _)
    · intro t; exact hT _
  · intro ρB r _ e he
    simp only [partialStepB, autograd, List.mem_map] at he
    obtain ⟨y, _, rfl⟩ := he
    exact defined_D _ _ _ (hTd ρB)
  · intro ρ e he
    simp only [autograd, List.mem_map] at he
    obtain ⟨y, _, rfl⟩ := he
    exact defined_D _ _ _ (hod ρ)

theorem partialB_fold (n : Nat) (vs : List (VarT V)) : ∀ (du : Nat → List (Expr (BV V))) (o : List (Expr V)),
    PartialInv n du o → PartialInv n (vs.foldl (partialStepB n) du) (partialD o vs) := by
  induction vs with
  | nil => intro du o h; exact h
  | cons v vs ih => intro du o h; exact ih _ _ (partialInv_step n du o v h)

/-- the batch-level `partial` of any order, for any variable list, equals the row-level `partial`
    (programs whose denominators vanish nowhere) -/
theorem partialB_eq (n r : Nat) (hr : r < n) (ρB : BV V → ℝ) (out : List (Expr V)) (vs : List (VarT V))
    (hd : ∀ ρ : V → ℝ, ∀ o ∈ out, DefinedR ρ o) :
    (partialB n out vs r).map (eval ρB) = (partialD out vs).map (eval (fun y => ρB (r, y))) :=
  (partialB_fold n vs _ _ (partialInv_init n out hd)).1 ρB r hr


/-- **row independence** (laplacian) -/
theorem laplacian_row_independent (n r : Nat) (hr : r < n) (ρB ρB' : BV V → ℝ) (u : Expr V) (vs : List (VarT V))
    (hd : ∀ r', r' < n → DefinedR (fun y => ρB (r', y)) u) (hd' : ∀ r', r' < n → DefinedR (fun y => ρB' (r', y)) u)
    (hrow : ∀ y, ρB (r, y) = ρB' (r, y)) :
    (laplacianB n [u] vs r).map (eval ρB) = (laplacianB n [u] vs r).map (eval ρB') := by
  rw [laplacianB_eq n r hr ρB u vs hd, laplacianB_eq n r hr ρB' u vs hd', funext hrow]

/-! ## the pinned snapshot violated the property (negative results; repaired by the `fix:` commits) -/

/-- coordinates used by the witnesses -/
abbrev X0 : String × Nat := ("x", 0)
abbrev T0 : String × Nat := ("t", 0)

/-- PINNED CODE: `grad(x₀², t)` raised although the analytic gradient with respect to `t` is 0 (which is what the
    repaired operator returns at every row) -/
theorem gradOld_raises_on_independent :
    gradOld [pow (var X0) 2] [[T0]] = .error "unused" ∧
    ∀ ρ : String × Nat → ℝ, (grad [pow (var X0) 2] [[T0]]).map (eval ρ) = [0] := by
  refine ⟨by decide, fun ρ => ?_⟩
  simp [grad_eq, sumE, D, X0, T0]

/-- PINNED CODE: `laplacian(x₀·t, t)` raised (the `t`-gradient of a bilinear function no longer contains `t`);
    the analytic value, returned by the repaired operator, is 0 -/
theorem laplacianOld_raises_on_bilinear :
    laplacianOld [mul (var X0) (var T0)] [[T0]] = .error "unused" ∧
    ∀ ρ : String × Nat → ℝ, (laplacian [mul (var X0) (var T0)] [[T0]]).map (eval ρ) = [0] := by
  refine ⟨by decide, fun ρ => ?_⟩
  rw [laplacian_spec]
  simp [D, X0, T0]

/-- PINNED CODE: `grad` of two variables on a batch of shape (2,3) concatenated along axis 1 (or raised when the
    variable dimensions differ); the repaired operator returns batch shape + [sum of the dimensions] -/
theorem gradShapeOld_wrong :
    gradShapeOld [2, 3] [1, 1] = .ok [2, 6, 1] ∧ gradShapeOld [2, 3] [2, 1] = .error "shape" ∧
    gradShape [2, 3] [1, 1] = [2, 3, 2] ∧ gradShape [2, 3] [2, 1] = [2, 3, 3] ∧
    ∀ b ds, gradShapeOld [b] ds = .ok (gradShape [b] ds) := by
  refine ⟨by decide, by decide, by decide, by decide, fun b ds => rfl⟩

/-- PINNED CODE: `jac` (and `sym_grad`) on a batch with two axes `(2,3)`, 2 components, one 2-dimensional variable
    returned shape (2,3,3,2) with wrong entries instead of (2,3,2,2); one batch axis was always right -/
theorem jacShapeOld_wrong :
    jacShapeOld [2, 3] 2 [2] = .ok [2, 3, 3, 2] ∧ jacShape [2, 3] 2 [2] = [2, 3, 2, 2] ∧
    ∀ b m ds, jacShapeOld [b] m ds = .ok (jacShape [b] m ds) := by
  refine ⟨by decide, by decide, fun b m ds => rfl⟩

/-- the single-row broadcasting oddity of `sym_grad` as mirrored: for one output and coordinates y₀ y₁ the result is
    the 2×2 matrix ½(∂ⱼu + ∂ᵢu) -/
example (u : Expr (String × Nat)) :
    symGrad [u] [[("x", 0), ("x", 1)]] = .ok
      [[mul (const (1/2)) (add (D ("x", 0) u) (D ("x", 0) u)), mul (const (1/2)) (add (D ("x", 1) u) (D ("x", 0) u))],
       [mul (const (1/2)) (add (D ("x", 0) u) (D ("x", 1) u)), mul (const (1/2)) (add (D ("x", 1) u) (D ("x", 1) u))]] := rfl

/-! ## which short-circuits are sound -/

/-- the coded short-circuit `grad.grad_fn is None → continue` is sound: a gradient whose expression mentions no
    coordinate at all has derivative zero with respect to everything -/
theorem no_graph_zero (x : V) (ρ : V → ℝ) (g : Expr V) (h : vars g = []) : eval ρ (D x g) = 0 :=
  const_zero x ρ g (by simp [h])

/-- a short-circuit on the VALUE of the gradient is not sound: at a stationary point the gradient vanishes although the
    laplacian does not (`u = x₀² + 3x₁²` at the origin: gradient (0,0), laplacian 8) — the model has no such rule, and
    evaluation points of this kind are part of the correspondence -/
theorem vanishing_gradient_not_zero_laplacian :
    let u : Expr (String × Nat) := add (pow (var ("x", 0)) 2) (mul (const 3) (pow (var ("x", 1)) 2))
    let vs : List (VarT (String × Nat)) := [[("x", 0), ("x", 1)]]
    ∀ ρ : String × Nat → ℝ, ρ ("x", 0) = 0 → ρ ("x", 1) = 0 →
      (grad [u] vs).map (eval ρ) = [0, 0] ∧ (laplacian [u] vs).map (eval ρ) = [8] := by
  intro u vs ρ h0 h1
  constructor
  · simp [u, vs, grad_eq, sumE, D, h0, h1]
  · rw [laplacian_spec]
    simp [u, vs, D, h0, h1]
    norm_num

/-! ## non-vacuity: concrete instances of the hypotheses used above -/

section examples
/-- u = x₀² · t + sin x₁ -/
def exU : Expr (String × Nat) := add (mul (pow (var ("x", 0)) 2) (var ("t", 0))) (sin (var ("x", 1)))
def exVars : List (VarT (String × Nat)) := [[("t", 0)], [("x", 0), ("x", 1)]]

example : grad [exU] exVars = [D ("t", 0) exU, D ("x", 0) exU, D ("x", 1) exU] := rfl
example (ρ : String × Nat → ℝ) : DefinedR ρ exU := ⟨⟨trivial, trivial⟩, trivial⟩
/-- a program with a division whose denominator 1 + x₀² never vanishes -/
example (ρ : String × Nat → ℝ) :
    DefinedR ρ (Expr.div (var ("x", 1)) (add (const 1) (mul (var ("x", 0)) (var ("x", 0))))) := by
  refine ⟨trivial, ⟨trivial, trivial, trivial⟩, ?_⟩
  simp only [eval_add, eval_const, eval_mul, eval_var, Rat.cast_one]
  nlinarith [mul_self_nonneg (ρ ("x", 0))]
/-- a residual block with the library's activation: u = ReLU³(2x+1) + (2x+1); away from the kink it is `Defined`, and
    the derivative value at x = ½ is 3·2²·2 + 2 = 26 (both branches of the reused intermediate contribute) -/
example (ρ : String × Nat → ℝ) (h : ρ ("x", 0) = 1/2) :
    let z : Expr (String × Nat) := add (mul (const 2) (var ("x", 0))) (const 1)
    DefinedR ρ (add (relun z 3) z) ∧ eval ρ (D ("x", 0) (add (relun z 3) z)) = 26 := by
  intro z
  have hz : eval ρ z = 2 := by simp [z, h]; norm_num
  refine ⟨⟨⟨⟨⟨trivial, trivial⟩, trivial⟩, ?_⟩, ⟨⟨trivial, trivial⟩, trivial⟩⟩, ?_⟩
  · show ¬ (eval ρ z = 0)
    rw [hz]; norm_num
  · simp [z, D, h]
    norm_num
example : affineIn ("t", 0) exU = true := by decide
example : ("t", 0) ∉ vars (sin (var (("x", 1) : String × Nat))) := by decide
example : exVars.flatten.length ≤ [exU, exU, exU].length := by decide
example : div [exU, exU] exVars = .error "narrow" := by decide
example : exVars.flatten = [("t", 0), ("x", 0), ("x", 1)] := rfl
example : partialD [exU] ([("x", 0), ("t", 0)].map fun y => [y]) = [D ("t", 0) (D ("x", 0) exU)] := rfl
example : (2 : Nat) < 3 := by decide
/-- the semantic affine hypothesis: 3 + 2·t along the t-line -/
example (ρ : String × Nat → ℝ) (t : ℝ) :
    eval (Function.update ρ ("t", 0) t) (add (const 3) (mul (const 2) (var ("t", 0)))) = 3 + 2 * t := by
  simp
end examples

end TPV.DiffOps
