/-
  C07 — training through the Solver equals the reference optimisation loop.
  Theorems about lean/TPV/Model/Train.lean (generic part: any scalars, losses, optimizer; concrete part:
  polynomial losses over ℚ with SGD/StepLR as executed by drivers/C07.lean).
-/
import TPV.Model.Train
import Mathlib.Algebra.Order.Field.Rat
import Mathlib.Tactic.Ring
import Mathlib.Tactic.Linarith
import Mathlib.Algebra.BigOperators.Group.List.Basic
import Mathlib.Tactic.Positivity

namespace TPV.Train

section Generic
variable {K σ : Type}

theorem zipWith_map_const {α β γ : Type} (f : α → β → γ) (l : List α) (b : β) :
    List.zipWith f l (l.map (fun _ => b)) = l.map (fun a => f a b) := by
  induction l with
  | nil => rfl
  | cons a l ih => simp only [List.map_cons, List.zipWith_cons_cons, ih]

theorem map_const_succ {α : Type} (l : List α) (j : Nat) :
    (l.map (fun _ => j)).map (· + 1) = l.map (fun _ => j + 1) := by
  induction l with
  | nil => rfl
  | cons a l ih => simp only [List.map_cons, ih]

/-- a validation pass changes neither the learnable state nor the optimizer state, nor any counter the
    training steps read, nor the grad mode seen by the next training step -/
theorem validation_id (cfg : Cfg K σ) (s : St K σ) :
    (valPass cfg s).θ = s.θ ∧ (valPass cfg s).opt = s.opt ∧ (valPass cfg s).gstep = s.gstep ∧
    (valPass cfg s).nIter = s.nIter ∧ (valPass cfg s).calls = s.calls ∧
    (valPass cfg s).logged = s.logged ∧ (valPass cfg s).gradOn = s.gradOn :=
  ⟨rfl, rfl, rfl, rfl, rfl, rfl, rfl⟩

variable [Add K] [Mul K] [OfNat K 0]

/-- invariant of the training loop: the iteration counter and every training condition's call count
    equal the global step, and the learnable + optimizer state is that of the plain loop -/
theorem loop_ref (cfg : Cfg K σ) (sched : Nat → Bool) : ∀ (n : Nat) (s : St K σ),
    s.nIter = s.gstep → s.calls = cfg.train.map (fun _ => s.gstep) →
    ((loop cfg sched n s).θ, (loop cfg sched n s).opt) = refLoopFrom cfg s.gstep n (s.θ, s.opt) ∧
    (loop cfg sched n s).nIter = s.gstep + n ∧ (loop cfg sched n s).gstep = s.gstep + n ∧
    (loop cfg sched n s).calls = cfg.train.map (fun _ => s.gstep + n) := by
  intro n
  induction n with
  | zero => intro s h1 h2; simp [loop, refLoopFrom, h1, h2]
  | succ n ih =>
    intro s h1 h2
    have hg : totalGrad cfg.dim cfg.train (cfg.train.map (fun _ => s.gstep)) (some s.gstep) s.θ =
        (cfg.train.map (fun c => smul c.weight (c.grad (some s.gstep) s.gstep s.θ))).foldl vadd
          (List.replicate cfg.dim none) := by
      simp only [totalGrad, zipWith_map_const]
    have key : ∀ t : St K σ, (t = trainStep cfg s ∨ t = valPass cfg (trainStep cfg s)) →
        t.nIter = t.gstep ∧ t.calls = cfg.train.map (fun _ => t.gstep) ∧ t.gstep = s.gstep + 1 ∧
        (t.θ, t.opt) = refStep cfg (s.θ, s.opt) s.gstep := by
      intro t ht
      rcases ht with rfl | rfl <;>
        simp only [trainStep, valPass, validationStep, refStep, hg, h1, h2, map_const_succ, and_self]
    simp only [loop]
    have e : s.gstep + 1 + n = s.gstep + (n + 1) := by omega
    split
    · obtain ⟨k1, k2, k3, k4⟩ := key _ (Or.inr rfl)
      have := ih _ k1 k2
      rw [k3, k4, e] at this
      simpa only [refLoopFrom] using this
    · obtain ⟨k1, k2, k3, k4⟩ := key _ (Or.inl rfl)
      have := ih _ k1 k2
      rw [k3, k4, e] at this
      simpa only [refLoopFrom] using this

/-- `loop` composes: the validation schedule is indexed by the global step -/
theorem loop_add (cfg : Cfg K σ) (sched : Nat → Bool) : ∀ (a b : Nat) (s : St K σ),
    loop cfg sched (a + b) s = loop cfg sched b (loop cfg sched a s) := by
  intro a
  induction a with
  | zero => intro b s; simp [loop]
  | succ a ih =>
    intro b s
    have : a + 1 + b = (a + b) + 1 := by omega
    rw [this]
    simp only [loop]
    exact ih b _

/-- **C07, core.** Training through the Solver for `N` steps — with any validation schedule, with or
    without the sanity validation pass — leaves exactly the learnable state and optimizer state of the
    plain reference loop; the iteration counter then equals `N`. -/
theorem solver_eq_ref (cfg : Cfg K σ) (sched : Nat → Bool) (sanity : Bool) (N : Nat) (θ : List K) (o : σ) :
    ((solverRun cfg sched sanity N (fresh cfg θ o)).θ, (solverRun cfg sched sanity N (fresh cfg θ o)).opt)
      = refLoop cfg N (θ, o) ∧
    (solverRun cfg sched sanity N (fresh cfg θ o)).nIter = N ∧
    (solverRun cfg sched sanity N (fresh cfg θ o)).gstep = N ∧
    (solverRun cfg sched sanity N (fresh cfg θ o)).calls = cfg.train.map (fun _ => N) := by
  have h := loop_ref cfg sched N (onTrainStart (if sanity then valPass cfg (fresh cfg θ o) else fresh cfg θ o))
    (by cases sanity <;> rfl) (by cases sanity <;> rfl)
  have g0 : (onTrainStart (if sanity then valPass cfg (fresh cfg θ o) else fresh cfg θ o)).gstep = 0 := by
    cases sanity <;> rfl
  have t0 : (onTrainStart (if sanity then valPass cfg (fresh cfg θ o) else fresh cfg θ o)).θ = θ := by
    cases sanity <;> rfl
  have o0 : (onTrainStart (if sanity then valPass cfg (fresh cfg θ o) else fresh cfg θ o)).opt = o := by
    cases sanity <;> rfl
  rw [g0, t0, o0] at h
  have hN : N - (fresh cfg θ o).gstep = N := by simp [fresh]
  simp only [solverRun, hN, refLoop]
  refine ⟨h.1, ?_, ?_, ?_⟩
  · simpa using h.2.1
  · simpa using h.2.2.1
  · simpa using h.2.2.2

/-- the step with (0-based) index `j` of an `N`-step run is evaluated with `iteration = j`: the run is
    the `j`-step run followed by `N - j` further batches, and the counter after `j` steps is `j` -/
theorem iteration_index (cfg : Cfg K σ) (sched : Nat → Bool) (sanity : Bool) (j N : Nat) (h : j ≤ N)
    (θ : List K) (o : σ) :
    solverRun cfg sched sanity N (fresh cfg θ o) =
      loop cfg sched (N - j) (solverRun cfg sched sanity j (fresh cfg θ o)) ∧
    (solverRun cfg sched sanity j (fresh cfg θ o)).nIter = j := by
  refine ⟨?_, (solver_eq_ref cfg sched sanity j θ o).2.1⟩
  have e : N = j + (N - j) := by omega
  simp only [solverRun]
  have g : (fresh cfg θ o).gstep = 0 := rfl
  rw [g, Nat.sub_zero, Nat.sub_zero]
  conv => lhs; rw [e]
  exact loop_add cfg sched j (N - j) _

/-- validation never changes learnable state: two runs that differ only in when (and whether)
    validation passes happen end in the same learnable and optimizer state -/
theorem validation_irrelevant (cfg : Cfg K σ) (sched sched' : Nat → Bool) (sanity sanity' : Bool) (N : Nat)
    (θ : List K) (o : σ) :
    (solverRun cfg sched sanity N (fresh cfg θ o)).θ = (solverRun cfg sched' sanity' N (fresh cfg θ o)).θ ∧
    (solverRun cfg sched sanity N (fresh cfg θ o)).opt = (solverRun cfg sched' sanity' N (fresh cfg θ o)).opt := by
  have a := (solver_eq_ref cfg sched sanity N θ o).1
  have b := (solver_eq_ref cfg sched' sanity' N θ o).1
  rw [← b] at a
  exact ⟨congrArg Prod.fst a, congrArg Prod.snd a⟩

/-- whatever `validation_step` did to the grad mode, every training batch starts with gradients on -/
theorem grad_on_at_train (cfg : Cfg K σ) (sched : Nat → Bool) : ∀ (n : Nat) (s : St K σ),
    s.gradOn = true → (loop cfg sched n s).gradOn = true := by
  intro n
  induction n with
  | zero => intro s h; exact h
  | succ n ih =>
    intro s h
    simp only [loop]
    apply ih
    split <;> simpa [valPass, trainStep] using h

end Generic

/-- the logged training loss is the weighted sum of the condition losses -/
theorem loss_is_weighted_sum {K : Type} [Semiring K] (cs : List (Cond K)) (calls : List Nat) (it : Option Nat)
    (θ : List K) :
    totalLoss cs calls it θ = (List.zipWith (fun c n => c.weight * c.loss it n θ) cs calls).sum := by
  simp only [totalLoss]
  exact (List.sum_eq_foldl).symm

/-! ## the registry: what `Solver.parameters()` hands to the optimizer -/

theorem mem_uniq (l : List Nat) (x : Nat) : x ∈ uniq l ↔ x ∈ l := by
  induction l with
  | nil => simp [uniq]
  | cons a l ih =>
    simp only [uniq, List.mem_cons, List.mem_filter, ih]
    constructor
    · rintro (h | ⟨h, _⟩)
      · exact Or.inl h
      · exact Or.inr h
    · rintro (h | h)
      · exact Or.inl h
      · by_cases hx : x = a
        · exact Or.inl hx
        · exact Or.inr ⟨h, by simpa using hx⟩

theorem nodup_uniq (l : List Nat) : (uniq l).Nodup := by
  induction l with
  | nil => simp [uniq]
  | cons a l ih =>
    simp only [uniq, List.nodup_cons, List.mem_filter]
    refine ⟨?_, ih.filter _⟩
    rintro ⟨_, h⟩
    simp at h

/-- **every learnable tensor reachable from a training condition is handed to the optimizer** (module
    parameters, `<name>_params`, adaptive layer: all are registered under the condition, the
    conditions under the Solver's `ModuleList`) -/
theorem registry_complete (s : Spec) (c : CondSpec) (hc : c ∈ s.train) (t : Nat) (ht : t ∈ c.tensors) :
    t ∈ registry s := by
  simp only [registry, mem_uniq, List.mem_flatMap, List.mem_append]
  exact ⟨c, Or.inl hc, ht⟩

/-- … exactly once, however many conditions share it: one optimizer slot, one update per step -/
theorem registry_nodup (s : Spec) : (registry s).Nodup := nodup_uniq _

theorem slotOf_lt (l : List Nat) (x : Nat) (h : x ∈ l) : ∃ k, slotOf l x = some k ∧ l[k]? = some x := by
  induction l with
  | nil => cases h
  | cons a l ih =>
    simp only [slotOf]
    by_cases ha : a = x
    · exact ⟨0, by simp [ha], by simp [ha]⟩
    · have hx : x ∈ l := by
        rcases List.mem_cons.1 h with h | h
        · exact absurd h.symm ha
        · exact h
      obtain ⟨k, hk, hk'⟩ := ih hx
      exact ⟨k + 1, by simp [ha, hk], by simpa using hk'⟩

/-- a registered tensor has an optimizer slot and reads its value from that slot -/
theorem registered_has_slot (s : Spec) (c : CondSpec) (hc : c ∈ s.train) (t : Nat) (ht : t ∈ c.tensors) :
    ∃ k, slotOf (registry s) t = some k ∧ (registry s)[k]? = some t :=
  slotOf_lt _ _ (registry_complete s c hc t ht)

/-! ## polynomial losses: the gradient of the weighted sum, gradient reversal -/

namespace PExp

theorem deriv_eq_zero_of_not_mem (env : Env) (x : Nat) : ∀ e : PExp, x ∉ e.ids → e.deriv env x = 0
  | const _, _ => rfl
  | par i, h => by
    simp only [ids, List.mem_singleton] at h
    simp only [deriv]
    rw [if_neg (fun hh => h hh.symm)]
  | iter, _ => rfl
  | add a b, h => by
    simp only [ids, List.mem_append, not_or] at h
    simp [deriv, deriv_eq_zero_of_not_mem env x a h.1, deriv_eq_zero_of_not_mem env x b h.2]
  | mul a b, h => by
    simp only [ids, List.mem_append, not_or] at h
    simp [deriv, deriv_eq_zero_of_not_mem env x a h.1, deriv_eq_zero_of_not_mem env x b h.2]
  | neg a, h => by
    simp only [ids] at h
    simp [deriv, deriv_eq_zero_of_not_mem env x a h]
  | rev a, h => by
    simp only [ids] at h
    simp [deriv, deriv_eq_zero_of_not_mem env x a h]

/-- `zeros(1) + w₁·l₁ + w₂·l₂ + …` exactly as `training_step` builds it -/
def weightedSum (cs : List (Rat × PExp)) : PExp :=
  cs.foldl (fun acc p => .add acc (.mul (.const p.1) p.2)) (.const 0)

theorem weightedSum_aux (env : Env) (x : Nat) (cs : List (Rat × PExp)) : ∀ acc : PExp,
    (cs.foldl (fun acc p => PExp.add acc (.mul (.const p.1) p.2)) acc).eval env
      = acc.eval env + (cs.map (fun p => p.1 * p.2.eval env)).sum ∧
    (cs.foldl (fun acc p => PExp.add acc (.mul (.const p.1) p.2)) acc).deriv env x
      = acc.deriv env x + (cs.map (fun p => p.1 * p.2.deriv env x)).sum := by
  induction cs with
  | nil => intro acc; simp
  | cons c cs ih =>
    intro acc
    obtain ⟨h1, h2⟩ := ih (.add acc (.mul (.const c.1) c.2))
    simp only [List.foldl_cons, List.map_cons, List.sum_cons]
    rw [h1, h2]
    simp only [eval, deriv]
    constructor <;> ring

/-- **the quantity that is optimised is Σ weightᵢ · lossᵢ**: value and gradient (with respect to every
    tensor) of the expression `training_step` builds are the weighted sums of the conditions' values
    and gradients -/
theorem weightedSum_eval_deriv (env : Env) (x : Nat) (cs : List (Rat × PExp)) :
    (weightedSum cs).eval env = (cs.map (fun p => p.1 * p.2.eval env)).sum ∧
    (weightedSum cs).deriv env x = (cs.map (fun p => p.1 * p.2.deriv env x)).sum := by
  have := weightedSum_aux env x cs (.const 0)
  simpa [weightedSum, eval, deriv] using this

/-- gradient reversal: same value, negated gradient -/
theorem rev_spec (env : Env) (x : Nat) (a : PExp) :
    (rev a).eval env = a.eval env ∧ (rev a).deriv env x = - a.deriv env x := ⟨rfl, rfl⟩

/-- gradient of an adaptive-weight term `GradReverse(w) · err` with respect to the point weight `w` -/
theorem deriv_adaptive (env : Env) (w : Nat) (err : PExp) (h : w ∉ err.ids) :
    (mul (rev (par w)) err).deriv env w = - err.eval env := by
  simp [deriv, deriv_eq_zero_of_not_mem env w err h]

end PExp

/-- **adaptive point weights ascend**: under plain SGD with a non-negative learning rate and condition
    weight, a point weight whose error term is non-negative never decreases (and grows by
    `lr · weight · share · err`) -/
theorem adaptive_ascends (o : OptSpec) (hm : o.momentum = 0) (hw : o.wd = 0) (lr cw share : Rat) (hlr : 0 ≤ lr)
    (hcw : 0 ≤ cw) (hs : 0 ≤ share) (env : Env) (w : Nat) (err : PExp) (h : w ∉ err.ids) (he : 0 ≤ err.eval env)
    (t : Rat) (b : Option Rat) :
    (sgdSlot o lr (some (cw * (share * (PExp.mul (.rev (.par w)) err).deriv env w))) t b).1
      = t + lr * (cw * (share * err.eval env)) ∧
    t ≤ (sgdSlot o lr (some (cw * (share * (PExp.mul (.rev (.par w)) err).deriv env w))) t b).1 := by
  have e : (sgdSlot o lr (some (cw * (share * (PExp.mul (.rev (.par w)) err).deriv env w))) t b).1
      = t + lr * (cw * (share * err.eval env)) := by
    simp only [sgdSlot, hm, hw, if_true, PExp.deriv_adaptive env w err h]
    ring
  refine ⟨e, ?_⟩
  rw [e]
  have : 0 ≤ lr * (cw * (share * err.eval env)) := by positivity
  linarith

/-- a tensor without a gradient path (validation-only tensors, unused parameters) is not touched by
    the optimizer — not even by weight decay or momentum -/
theorem sgdSlot_none (o : OptSpec) (lr t : Rat) (b : Option Rat) : sgdSlot o lr none t b = (t, b) := rfl

/-! ## the accumulated gradient is the gradient of the weighted sum -/

theorem zipWith_oadd_map {α : Type} (reg : List α) (a b : α → Option Rat) :
    vadd (reg.map a) (reg.map b) = reg.map (fun x => oadd (a x) (b x)) := by
  induction reg with
  | nil => rfl
  | cons r rs ih => simp only [vadd] at ih ⊢; simp [ih]

theorem foldl_vadd_map {α β : Type} (reg : List α) (cs : List β) (g : β → α → Option Rat) :
    ∀ a : α → Option Rat,
    (cs.map (fun c => reg.map (g c))).foldl vadd (reg.map a)
      = reg.map (fun x => (cs.map (fun c => g c x)).foldl oadd (a x)) := by
  induction cs with
  | nil => intro a; rfl
  | cons c cs ih =>
    intro a
    simp only [List.map_cons, List.foldl_cons]
    rw [zipWith_oadd_map, ih]

theorem foldl_oadd_getD (l : List (Option Rat)) : ∀ a : Option Rat,
    (l.foldl oadd a).getD 0 = a.getD 0 + (l.map (·.getD 0)).sum := by
  induction l with
  | nil => intro a; simp
  | cons x l ih =>
    intro a
    simp only [List.foldl_cons, List.map_cons, List.sum_cons]
    rw [ih]
    cases a <;> cases x <;> simp [oadd] <;> ring

/-- **what the optimizer receives is the gradient of Σ weightᵢ·lossᵢ.**  In the executable instance
    the accumulated `.grad` of every registered tensor `x` (0 where no gradient path exists) equals the
    derivative, with respect to `x`, of the expression `zeros(1) + w₁·l₁ + w₂·l₂ + …` that
    `training_step` returns. -/
theorem totalGrad_is_grad_of_weighted_sum (s : Spec) (cs : List CondSpec) (n : Nat) (it : Option Nat) (θ : List Rat) :
    (totalGrad (registry s).length (cs.map (CondSpec.toCond s)) (cs.map (fun _ => n)) it θ).map (·.getD 0)
      = (registry s).map (fun x =>
          (PExp.weightedSum (cs.map (fun c => (c.weight, c.lossAt n)))).deriv
            ⟨registry s, s.env0, θ, itVal it⟩ x) := by
  simp only [totalGrad]
  rw [List.zipWith_map_left, zipWith_map_const]
  have h0 : List.replicate (registry s).length (none : Option Rat) = (registry s).map (fun _ => none) := by
    simp
  rw [h0]
  simp only [CondSpec.toCond, smul, List.map_map]
  have := foldl_vadd_map (registry s) cs
    (fun c x => Option.map (fun v => c.weight * v)
      (if x ∈ (c.lossAt n).ids then some ((c.lossAt n).deriv ⟨registry s, s.env0, θ, itVal it⟩ x) else none))
    (fun _ => none)
  simp only [Function.comp_def] at this ⊢
  rw [this, List.map_map]
  apply List.map_congr_left
  intro x _
  simp only [Function.comp_def]
  rw [foldl_oadd_getD, (PExp.weightedSum_eval_deriv _ x _).2]
  simp only [List.map_map, Option.getD_none, zero_add]
  congr 1
  apply List.map_congr_left
  intro c _
  simp only [Function.comp_def]
  by_cases hx : x ∈ (c.lossAt n).ids
  · simp [hx]
  · simp [hx, PExp.deriv_eq_zero_of_not_mem _ x _ hx]

/-! ## non-vacuity: a concrete set-up on which all hypotheses hold and training really moves things -/

/-- tensors 0,1: a model `u(x) = p0 + p1·x` shared by two training conditions; tensor 2: an adaptive
    point weight; tensor 3: a model used by the validation condition only -/
def exSpec : Spec :=
  { env0 := [(0, 1/2), (1, 1/4), (2, 1), (3, 1/8)]
    train := [
      { weight := 1, tensors := [0, 1], track := true,
        -- ((p0 + p1/2) - 1)^2, second batch ((p0 - p1) - it)^2
        losses := [ .mul (.add (.add (.par 0) (.mul (.par 1) (.const (1/2)))) (.const (-1)))
                         (.add (.add (.par 0) (.mul (.par 1) (.const (1/2)))) (.const (-1))),
                    .mul (.add (.add (.par 0) (.neg (.par 1))) (.neg .iter))
                         (.add (.add (.par 0) (.neg (.par 1))) (.neg .iter)) ] },
      { weight := 1/2, tensors := [0, 1, 2], track := true,
        losses := [ .mul (.rev (.par 2)) (.mul (.add (.par 0) (.par 1)) (.add (.par 0) (.par 1))) ] } ]
    val := [ { weight := 1, tensors := [3, 0], track := false, losses := [ .mul (.par 3) (.par 0) ] } ] }

def exOpt : OptSpec := { lr := 1/4, momentum := 1/2, dampening := 0, wd := 1/8, stepSize := 2, gamma := 1/2, freq := 1 }

example : exSpec.wellFormed = true := by decide +kernel
example : registry exSpec = [0, 1, 2, 3] := by decide +kernel
/-- three steps with validation after every step and a sanity pass: the state moves, the adaptive
    weight (slot 2) has grown, the validation-only tensor (slot 3) has not moved, and the result is
    that of the reference loop -/
example :
    (solverRun (exSpec.toCfg exOpt) (fun _ => true) true 3 (fresh (exSpec.toCfg exOpt) exSpec.θ0 (exSpec.opt0 exOpt))).θ
      = (refLoop (exSpec.toCfg exOpt) 3 (exSpec.θ0, exSpec.opt0 exOpt)).1 :=
  congrArg Prod.fst (solver_eq_ref (exSpec.toCfg exOpt) (fun _ => true) true 3 exSpec.θ0 (exSpec.opt0 exOpt)).1
example :
    let r := (refLoop (exSpec.toCfg exOpt) 3 (exSpec.θ0, exSpec.opt0 exOpt)).1
    r ≠ exSpec.θ0 ∧ r.getD 2 0 > 1 ∧ r.getD 3 0 = 1/8 := by decide +kernel
example : (0 : Rat) ≤ (PExp.mul (.par 0) (.par 0)).eval ⟨[0, 2], [], [3, 1], 0⟩ ∧ (2 : Nat) ∉ (PExp.mul (.par 0) (.par 0)).ids := by
  decide +kernel
example : (sgdSlot { exOpt with momentum := 0, wd := 0 } (1/4)
    (some (1 * (1 * (PExp.mul (.rev (.par 2)) (.mul (.par 0) (.par 0))).deriv ⟨[0, 2], [], [3, 1], 0⟩ 2))) 1 none).1 = 13/4 := by
  decide +kernel

/-! ## the scheduler is stepped every `freq`-th step of the whole run (any number of steps) -/

/-- one `sgd` call: the step counter, the scheduler's epoch counter and the learning rate -/
theorem sgd_counters (o : OptSpec) (st : OptState) (g : List (Option Rat)) (θ : List Rat) :
    (sgd o st g θ).1.nsteps = st.nsteps + 1 ∧
    (sgd o st g θ).1.epoch = (if o.stepSize ≠ 0 ∧ o.freq ≠ 0 ∧ (st.nsteps + 1) % o.freq = 0 then st.epoch + 1 else st.epoch) ∧
    (sgd o st g θ).1.lr = (if (o.stepSize ≠ 0 ∧ o.freq ≠ 0 ∧ (st.nsteps + 1) % o.freq = 0) ∧
        (if o.stepSize ≠ 0 ∧ o.freq ≠ 0 ∧ (st.nsteps + 1) % o.freq = 0 then st.epoch + 1 else st.epoch) % o.stepSize = 0
      then st.lr * o.gamma else st.lr) := by
  exact ⟨rfl, rfl, rfl⟩

/-- the invariant "the scheduler has been stepped once per `freq` optimizer steps of the WHOLE run, and the
    learning rate is `lr₀ · γ^(⌊epoch / step_size⌋)`" is preserved by every optimizer step -/
theorem sgd_schedule_invariant (o : OptSpec) (hs : o.stepSize ≠ 0) (hf : o.freq ≠ 0) (st : OptState)
    (g : List (Option Rat)) (θ : List Rat)
    (he : st.epoch = st.nsteps / o.freq) (hl : st.lr = o.lr * o.gamma ^ (st.epoch / o.stepSize)) :
    (sgd o st g θ).1.epoch = (sgd o st g θ).1.nsteps / o.freq ∧
    (sgd o st g θ).1.lr = o.lr * o.gamma ^ ((sgd o st g θ).1.epoch / o.stepSize) := by
  obtain ⟨h1, h2, h3⟩ := sgd_counters o st g θ
  rw [h1, h2, h3]
  have hfpos : 0 < o.freq := Nat.pos_of_ne_zero hf
  have hspos : 0 < o.stepSize := Nat.pos_of_ne_zero hs
  have d1 := @Nat.succ_div st.nsteps o.freq
  have d2 := @Nat.succ_div st.epoch o.stepSize
  by_cases hm : (st.nsteps + 1) % o.freq = 0
  · have hd : o.freq ∣ st.nsteps + 1 := Nat.dvd_of_mod_eq_zero hm
    simp only [Nat.succ_eq_add_one, hd, if_true] at d1
    simp only [hs, hf, hm, ne_eq, not_false_eq_true, and_self, if_true]
    refine ⟨by omega, ?_⟩
    by_cases hm2 : (st.epoch + 1) % o.stepSize = 0
    · have hd2 : o.stepSize ∣ st.epoch + 1 := Nat.dvd_of_mod_eq_zero hm2
      simp only [Nat.succ_eq_add_one, hd2, if_true] at d2
      simp only [hm2, and_self, if_true]
      rw [d2, pow_succ, hl]; ring
    · have hd2 : ¬ o.stepSize ∣ st.epoch + 1 := fun h => hm2 (Nat.mod_eq_zero_of_dvd h)
      simp only [Nat.succ_eq_add_one, hd2, if_false, Nat.add_zero] at d2
      simp only [hm2, and_false, if_false]
      rw [d2, hl]
  · have hd : ¬ o.freq ∣ st.nsteps + 1 := fun h => hm (Nat.mod_eq_zero_of_dvd h)
    simp only [Nat.succ_eq_add_one, hd, if_false, Nat.add_zero] at d1
    simp only [hm, and_false, if_false]
    exact ⟨by omega, hl⟩

/-- along the reference loop (hence, by `solver_eq_ref`, along training through the Solver) -/
theorem refLoop_schedule (s : Spec) (o : OptSpec) (hs : o.stepSize ≠ 0) (hf : o.freq ≠ 0) :
    ∀ (n a : Nat) (p : List Rat × OptState),
    p.2.nsteps = a → p.2.epoch = a / o.freq → p.2.lr = o.lr * o.gamma ^ (p.2.epoch / o.stepSize) →
    (refLoopFrom (s.toCfg o) a n p).2.nsteps = a + n ∧
    (refLoopFrom (s.toCfg o) a n p).2.epoch = (a + n) / o.freq ∧
    (refLoopFrom (s.toCfg o) a n p).2.lr = o.lr * o.gamma ^ ((a + n) / o.freq / o.stepSize) := by
  intro n
  induction n with
  | zero => intro a p h1 h2 h3; simp [refLoopFrom, h1, h2, h3]
  | succ n ih =>
    intro a p h1 h2 h3
    simp only [refLoopFrom]
    have hstep : (refStep (s.toCfg o) p a).2 = (sgd o p.2
        ((((s.toCfg o).train.map (fun c => smul c.weight (c.grad (some a) a p.1))).foldl vadd
              (List.replicate (s.toCfg o).dim none))) p.1).1 := rfl
    have inv := sgd_schedule_invariant o hs hf p.2
      ((((s.toCfg o).train.map (fun c => smul c.weight (c.grad (some a) a p.1))).foldl vadd
              (List.replicate (s.toCfg o).dim none))) p.1 (by rw [h2, h1]) h3
    have cnt := (sgd_counters o p.2 ((((s.toCfg o).train.map (fun c => smul c.weight (c.grad (some a) a p.1))).foldl vadd
              (List.replicate (s.toCfg o).dim none))) p.1).1
    rw [← hstep] at inv cnt
    have := ih (a + 1) (refStep (s.toCfg o) p a) (by rw [cnt, h1])
      (by rw [inv.1, cnt, h1]) inv.2
    have e : a + 1 + n = a + (n + 1) := by omega
    rw [e] at this
    exact this

/-- **the scheduler is stepped after every `freq`-th training step of the whole run, for any number of
    steps**: after `N` steps through the Solver (any validation schedule) the scheduler has been stepped
    `N / freq` times and the learning rate is `lr₀ · γ^(N / freq / step_size)` — there is no other period
    (epoch length, data-loader length) in it. -/
theorem scheduler_position (s : Spec) (o : OptSpec) (hs : o.stepSize ≠ 0) (hf : o.freq ≠ 0)
    (sched : Nat → Bool) (sanity : Bool) (N : Nat) :
    (solverRun (s.toCfg o) sched sanity N (fresh (s.toCfg o) s.θ0 (s.opt0 o))).opt.epoch = N / o.freq ∧
    (solverRun (s.toCfg o) sched sanity N (fresh (s.toCfg o) s.θ0 (s.opt0 o))).opt.lr
      = o.lr * o.gamma ^ (N / o.freq / o.stepSize) := by
  have h := (solver_eq_ref (s.toCfg o) sched sanity N s.θ0 (s.opt0 o)).1
  have r := refLoop_schedule s o hs hf N 0 (s.θ0, s.opt0 o) rfl (by simp [Spec.opt0, optInit])
    (by simp [Spec.opt0, optInit])
  have e : (solverRun (s.toCfg o) sched sanity N (fresh (s.toCfg o) s.θ0 (s.opt0 o))).opt
      = (refLoop (s.toCfg o) N (s.θ0, s.opt0 o)).2 := congrArg Prod.snd h
  rw [e]
  simp only [refLoop]
  simpa using r.2

example : (solverRun (exSpec.toCfg exOpt) (fun _ => true) true 7
    (fresh (exSpec.toCfg exOpt) exSpec.θ0 (exSpec.opt0 exOpt))).opt.lr = 1/4 * (1/2) ^ 3 :=
  (scheduler_position exSpec exOpt (by decide) (by decide) _ _ 7).2

end TPV.Train
