import TPV.Model.Polygon
import TPV.Model.GeomVol
import TPV.Proofs.GeomLemmas
import Mathlib.Algebra.Order.Field.Rat
import Mathlib.Algebra.BigOperators.Group.List.Basic
import Mathlib.Data.List.Perm.Basic
import Mathlib.Data.List.Zip
import Mathlib.Data.List.Rotate
import Mathlib.Tactic.Ring
import Mathlib.Tactic.Linarith
import Mathlib.Tactic.FieldSimp
import Mathlib.Tactic.NormNum

namespace TPV.Poly
open TPV.Geom
set_option linter.unusedSectionVars false
variable {K : Type} [Field K] [LinearOrder K] [IsStrictOrderedRing K]

/-! ## 0. basic facts -/

theorem sumK_eq_sum (l : List K) : sumK l = l.sum := by
  induction l with
  | nil => rfl
  | cons a l ih => simp only [sumK, List.foldr, List.sum_cons] at ih ⊢; rw [ih]

@[simp] theorem lt_iff (a b : K) : lt a b = true ↔ a < b := by simp [lt, le]

theorem absK_eq_abs (a : K) : absK a = |a| := by
  unfold absK
  split
  · rw [abs_of_nonneg]; assumption
  · rw [abs_of_neg]; exact not_le.mp ‹_›

theorem minK_eq_min (a b : K) : minK a b = min a b := by
  unfold minK; split
  · rw [min_eq_left]; assumption
  · rw [min_eq_right]; exact le_of_lt (not_le.mp ‹_›)

theorem maxK_eq_max (a b : K) : maxK a b = max a b := by
  unfold maxK; split
  · rw [max_eq_right]; assumption
  · rw [max_eq_left]; exact le_of_lt (not_le.mp ‹_›)

/-! ## 1. the edge list under rotation, reversal and maps -/

theorem rot1_perm {α : Type} (l : List α) : (rot1 l).Perm l := by
  cases l with
  | nil => exact List.Perm.refl _
  | cons v vs => simp [rot1]

theorem rot1_length {α : Type} (l : List α) : (rot1 l).length = l.length := (rot1_perm l).length_eq

theorem rot1_map {α β : Type} (f : α → β) (l : List α) : rot1 (l.map f) = (rot1 l).map f := by
  cases l <;> simp [rot1]

theorem ringEdges_fst (r : Ring K) : (ringEdges r).map Prod.fst = r := by
  unfold ringEdges
  exact List.map_fst_zip (by rw [rot1_length])

theorem ringEdges_snd (r : Ring K) : (ringEdges r).map Prod.snd = rot1 r := by
  unfold ringEdges
  exact List.map_snd_zip (by rw [rot1_length])

theorem ringEdges_mem (r : Ring K) (e : Pt K × Pt K) (h : e ∈ ringEdges r) : e.1 ∈ r ∧ e.2 ∈ r := by
  unfold ringEdges at h
  have := List.of_mem_zip h
  exact ⟨this.1, (rot1_perm r).mem_iff.mp this.2⟩

/-- rotating the start vertex permutes the edges -/
theorem ringEdges_rot1 (r : Ring K) : (ringEdges (rot1 r)).Perm (ringEdges r) := by
  match r with
  | [] => exact List.Perm.refl _
  | [v] => exact List.Perm.refl _
  | v :: w :: ws =>
    have h : ringEdges (rot1 (v :: w :: ws)) = List.zip (w :: ws) (ws ++ [v]) ++ [(v, w)] := by
      have e : (w :: (ws ++ [v])) = (w :: ws) ++ [v] := rfl
      simp only [ringEdges, rot1, List.cons_append]
      rw [e, List.zip_append (by simp)]
      rfl
    rw [h]
    simp [ringEdges, rot1]

theorem reverse_zip_eq {α β : Type} : ∀ (l₁ : List α) (l₂ : List β), l₁.length = l₂.length →
    (List.zip l₁ l₂).reverse = List.zip l₁.reverse l₂.reverse
  | [], [], _ => rfl
  | [], _ :: _, h => by simp at h
  | _ :: _, [], h => by simp at h
  | a :: l₁, b :: l₂, h => by
    have h' : l₁.length = l₂.length := by simpa using h
    rw [List.zip_cons_cons, List.reverse_cons, reverse_zip_eq l₁ l₂ h', List.reverse_cons, List.reverse_cons,
      List.zip_append (by simp [h'])]
    rfl

/-- reading the closed coordinate list backwards reverses every edge (and their order) -/
theorem ringEdges_revRing (r : Ring K) : ringEdges (revRing r) = ((ringEdges r).map Prod.swap).reverse := by
  cases r with
  | nil => rfl
  | cons v vs =>
    simp only [ringEdges, revRing, rot1]
    rw [List.zip_swap, reverse_zip_eq _ _ (by simp)]
    simp

theorem revRing_eq_rot1 (r : Ring K) : r.reverse = rot1 (revRing r) := by
  cases r <;> simp [revRing, rot1]

theorem ringEdges_reverse (r : Ring K) : (ringEdges r.reverse).Perm ((ringEdges r).map Prod.swap) := by
  rw [revRing_eq_rot1]
  refine (ringEdges_rot1 _).trans ?_
  rw [ringEdges_revRing]
  exact List.reverse_perm _

theorem ringEdges_map (f : Pt K → Pt K) (r : Ring K) : ringEdges (r.map f) = (ringEdges r).map (Prod.map f f) := by
  simp only [ringEdges, rot1_map, List.zip_map]

theorem xorAll_perm {l₁ l₂ : List Bool} (h : l₁.Perm l₂) : xorAll l₁ = xorAll l₂ := by
  induction h with
  | nil => rfl
  | cons x _ ih => simp only [xorAll, List.foldr] at ih ⊢; rw [ih]
  | swap x y l => simp only [xorAll, List.foldr]; cases x <;> cases y <;> simp
  | trans _ _ ih1 ih2 => exact ih1.trans ih2

theorem xorAll_reverse (l : List Bool) : xorAll l.reverse = xorAll l := xorAll_perm (List.reverse_perm l)

/-! ## 2. area -/

theorem sum_map_neg' {α : Type} (f : α → K) (l : List α) : (l.map fun x => - f x).sum = - (l.map f).sum := by
  induction l with
  | nil => simp
  | cons a l ih => simp only [List.map_cons, List.sum_cons, ih]; ring

theorem sum_map_sub' {α : Type} (f g : α → K) (l : List α) :
    (l.map fun x => f x - g x).sum = (l.map f).sum - (l.map g).sum := by
  induction l with
  | nil => simp
  | cons a l ih => simp only [List.map_cons, List.sum_cons, ih]; ring

theorem cross2_swap (a b : Pt K) : cross2 b a = - cross2 a b := by simp only [cross2]; ring

theorem shoelace2_eq (r : Ring K) : shoelace2 r = ((ringEdges r).map fun e => cross2 e.1 e.2).sum := by
  rw [shoelace2, sumK_eq_sum]

theorem rot1_eq_rotate {α : Type} (l : List α) : rot1 l = l.rotate 1 := by
  cases l <;> simp [rot1, List.rotate_cons_succ]

/-- the signed area does not depend on the start vertex (one step) -/
theorem shoelace2_rot1 (r : Ring K) : shoelace2 (rot1 r) = shoelace2 r := by
  rw [shoelace2_eq, shoelace2_eq]; exact ((ringEdges_rot1 r).map _).sum_eq

/-- **the signed area is invariant under every cyclic rotation of the vertex list** -/
theorem shoelace2_rotate (n : Nat) : ∀ r : Ring K, shoelace2 (r.rotate n) = shoelace2 r := by
  induction n with
  | zero => intro r; simp
  | succ n ih =>
    intro r
    rw [Nat.add_comm, ← List.rotate_rotate, ih, ← rot1_eq_rotate, shoelace2_rot1]

theorem shoelace2_revRing (r : Ring K) : shoelace2 (revRing r) = - shoelace2 r := by
  rw [shoelace2_eq, shoelace2_eq, ringEdges_revRing, List.map_reverse, List.sum_reverse, List.map_map,
    ← sum_map_neg']
  congr 1
  apply List.map_congr_left
  intro e _
  exact cross2_swap e.1 e.2

/-- **reversing the vertex order flips the sign of the signed area** -/
theorem shoelace2_reverse (r : Ring K) : shoelace2 r.reverse = - shoelace2 r := by
  rw [revRing_eq_rot1, shoelace2_rot1, shoelace2_revRing]

/-- translation of a point -/
def shift (t : Pt K) (v : Pt K) : Pt K := (v.1 + t.1, v.2 + t.2)

theorem sum_edge_diff (g : Pt K → K) (r : Ring K) : ((ringEdges r).map fun e => g e.2 - g e.1).sum = 0 := by
  rw [sum_map_sub']
  have h1 : (ringEdges r).map (fun e => g e.2) = (rot1 r).map g := by
    rw [← ringEdges_snd, List.map_map]; rfl
  have h2 : (ringEdges r).map (fun e => g e.1) = r.map g := by
    conv_rhs => rw [← ringEdges_fst r, List.map_map]
    rfl
  rw [h1, h2, ((rot1_perm r).map g).sum_eq, sub_self]

/-- **the signed area is invariant under translation** -/
theorem shoelace2_translate (t : Pt K) (r : Ring K) : shoelace2 (r.map (shift t)) = shoelace2 r := by
  rw [shoelace2_eq, shoelace2_eq, ringEdges_map, List.map_map]
  let g : Pt K → K := fun v => t.1 * v.2 - t.2 * v.1
  have h : ∀ e : Pt K × Pt K, ((fun e : Pt K × Pt K => cross2 e.1 e.2) ∘ Prod.map (shift t) (shift t)) e =
      cross2 e.1 e.2 + (g e.2 - g e.1) := by
    intro e; simp only [g, Function.comp, Prod.map, cross2, shift]; ring
  rw [List.map_congr_left (fun e _ => h e), List.sum_map_add, sum_edge_diff g r, add_zero]

theorem shoelace_translate (t : Pt K) (r : Ring K) : shoelace (r.map (shift t)) = shoelace r := by
  simp only [shoelace, shoelace2_translate]

theorem shoelace_reverse (r : Ring K) : shoelace r.reverse = - shoelace r := by
  simp only [shoelace, shoelace2_reverse, neg_div]

theorem shoelace_rotate (n : Nat) (r : Ring K) : shoelace (r.rotate n) = shoelace r := by
  simp only [shoelace, shoelace2_rotate]

/-- shoelace of a triangle = det/2 -/
theorem shoelace_triangle (o a b : Pt K) :
    shoelace [o, a, b] = ((a.1 - o.1) * (b.2 - o.2) - (a.2 - o.2) * (b.1 - o.1)) / 2 := by
  simp only [shoelace, shoelace2, ringEdges, rot1, sumK, cross2, List.zip_cons_cons, List.zip_nil_right, List.map,
    List.foldr, List.cons_append, List.nil_append]
  ring

/-- shoelace of a parallelogram `o, a, a + b − o, b` = det -/
theorem shoelace_parallelogram (o a b : Pt K) :
    shoelace [o, a, (a.1 + b.1 - o.1, a.2 + b.2 - o.2), b] = (a.1 - o.1) * (b.2 - o.2) - (a.2 - o.2) * (b.1 - o.1) := by
  simp only [shoelace, shoelace2, ringEdges, rot1, sumK, cross2, List.zip_cons_cons, List.zip_nil_right, List.map,
    List.foldr, List.cons_append, List.nil_append]
  ring

/-- **`polyArea` of a triangle is the closed form `triVol` of `Triangle._get_volume`** (either orientation) -/
theorem polyArea_triangle [Transc K] (ox oy ax ay bx cy : K) :
    polyArea ⟨[(ox, oy), (ax, ay), (bx, cy)], []⟩ = triVol ox oy ax ay bx cy := by
  simp only [polyArea, shoelace_triangle, triVol, det2, List.map, sumK, List.foldr, sub_zero, absK_eq_abs, abs_div]
  simp

/-- **`polyArea` of a parallelogram is the closed form `parVol` of `Parallelogram._get_volume`** -/
theorem polyArea_parallelogram [Transc K] (ox oy ax ay bx cy : K) :
    polyArea ⟨[(ox, oy), (ax, ay), (ax + bx - ox, ay + cy - oy), (bx, cy)], []⟩ = parVol ox oy ax ay bx cy := by
  have h := shoelace_parallelogram (ox, oy) (ax, ay) (bx, cy)
  simp only at h
  simp only [polyArea, h, parVol, det2, List.map, sumK, List.foldr, sub_zero]

/-- axis-parallel rectangle: width × height -/
theorem polyArea_rect (x0 x1 y0 y1 : K) (hx : x0 ≤ x1) (hy : y0 ≤ y1) :
    polyArea ⟨[(x0, y0), (x1, y0), (x1, y1), (x0, y1)], []⟩ = (x1 - x0) * (y1 - y0) := by
  have h : shoelace [(x0, y0), (x1, y0), (x1, y1), (x0, y1)] = (x1 - x0) * (y1 - y0) := by
    simp only [shoelace, shoelace2, ringEdges, rot1, sumK, cross2, List.zip_cons_cons, List.zip_nil_right, List.map,
      List.foldr, List.cons_append, List.nil_append]
    ring
  simp only [polyArea, h, List.map, sumK, List.foldr, sub_zero, absK_eq_abs]
  exact abs_of_nonneg (mul_nonneg (sub_nonneg.mpr hx) (sub_nonneg.mpr hy))

theorem absK_shoelace_revRing (r : Ring K) : absK (shoelace (revRing r)) = absK (shoelace r) := by
  simp only [shoelace, shoelace2_revRing, absK_eq_abs, neg_div, abs_neg]

theorem absK_shoelace_orientRing (c : Bool) (r : Ring K) : absK (shoelace (orientRing c r)) = absK (shoelace r) := by
  unfold orientRing
  split <;> split <;> simp only [absK_shoelace_revRing]

/-- **the area is orientation independent**: what `__init__` does to the rings (`orient`) does not change it -/
theorem polyArea_orient (P : Polygon K) : polyArea (polyOrient P) = polyArea P := by
  simp only [polyArea, polyOrient, absK_shoelace_orientRing, List.map_map, Function.comp_def]

/-- … nor does reversing or rotating the exterior ring or any hole -/
theorem polyArea_reverse_rotate (P : Polygon K) (n : Nat) (ns : Ring K → Nat) :
    polyArea ⟨(P.outer.rotate n).reverse, P.holes.map fun h => (h.rotate (ns h)).reverse⟩ = polyArea P := by
  simp only [polyArea, shoelace_reverse, shoelace_rotate, absK_eq_abs, abs_neg, List.map_map, Function.comp_def]

/-- after `orient` the exterior is counter-clockwise (signed area ≥ 0) and the holes clockwise -/
theorem polyOrient_signs (P : Polygon K) :
    0 ≤ shoelace2 (polyOrient P).outer ∧ ∀ h ∈ (polyOrient P).holes, shoelace2 h ≤ 0 := by
  constructor
  · simp only [polyOrient, orientRing, if_true]
    split
    · rename_i h; simpa using h
    · rename_i h; rw [shoelace2_revRing]; simp only [le_iff, not_le] at h; linarith
  · intro h hh
    simp only [polyOrient, List.mem_map] at hh
    obtain ⟨r, _, rfl⟩ := hh
    simp only [orientRing, Bool.false_eq_true, if_false]
    split
    · rename_i h; simpa using h
    · rename_i h; rw [shoelace2_revRing]; simp only [le_iff, not_le] at h; linarith

end TPV.Poly
