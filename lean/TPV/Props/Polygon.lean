import TPV.Model.Polygon
import TPV.Model.GeomVol
import TPV.Proofs.GeomLemmas
import Mathlib.Algebra.Order.Field.Rat
import Mathlib.Algebra.BigOperators.Group.List.Basic
import Mathlib.Data.List.Perm.Basic
import Mathlib.Data.List.Zip
import Mathlib.Data.List.Rotate
import Mathlib.Tactic.Ring
import Mathlib.Tactic.Linarith
import Mathlib.Tactic.FieldSimp
import Mathlib.Tactic.NormNum

namespace TPV.Poly
open TPV.Geom
set_option linter.unusedSectionVars false
set_option linter.unusedSimpArgs false
variable {K : Type} [Field K] [LinearOrder K] [IsStrictOrderedRing K]

/-! ## 0. basic facts -/

theorem sumK_eq_sum (l : List K) : sumK l = l.sum := by
  induction l with
  | nil => rfl
  | cons a l ih => simp only [sumK, List.foldr, List.sum_cons] at ih ⊢; rw [ih]

@[simp] theorem lt_iff (a b : K) : lt a b = true ↔ a < b := by simp [lt, le]

theorem absK_eq_abs (a : K) : absK a = |a| := by
  unfold absK
  split
  · rw [abs_of_nonneg]; assumption
  · rw [abs_of_neg]; exact not_le.mp ‹_›

theorem minK_eq_min (a b : K) : minK a b = min a b := by
  unfold minK; split
  · rw [min_eq_left]; assumption
  · rw [min_eq_right]; exact le_of_lt (not_le.mp ‹_›)

theorem maxK_eq_max (a b : K) : maxK a b = max a b := by
  unfold maxK; split
  · rw [max_eq_right]; assumption
  · rw [max_eq_left]; exact le_of_lt (not_le.mp ‹_›)

/-! ## 1. the edge list under rotation, reversal and maps -/

theorem rot1_perm {α : Type} (l : List α) : (rot1 l).Perm l := by
  cases l with
  | nil => exact List.Perm.refl _
  | cons v vs => simp [rot1]

theorem rot1_length {α : Type} (l : List α) : (rot1 l).length = l.length := (rot1_perm l).length_eq

theorem rot1_map {α β : Type} (f : α → β) (l : List α) : rot1 (l.map f) = (rot1 l).map f := by
  cases l <;> simp [rot1]

theorem ringEdges_fst (r : Ring K) : (ringEdges r).map Prod.fst = r := by
  unfold ringEdges
  exact List.map_fst_zip (by rw [rot1_length])

theorem ringEdges_snd (r : Ring K) : (ringEdges r).map Prod.snd = rot1 r := by
  unfold ringEdges
  exact List.map_snd_zip (by rw [rot1_length])

theorem ringEdges_mem (r : Ring K) (e : Pt K × Pt K) (h : e ∈ ringEdges r) : e.1 ∈ r ∧ e.2 ∈ r := by
  unfold ringEdges at h
  have := List.of_mem_zip h
  exact ⟨this.1, (rot1_perm r).mem_iff.mp this.2⟩

/-- rotating the start vertex permutes the edges -/
theorem ringEdges_rot1 (r : Ring K) : (ringEdges (rot1 r)).Perm (ringEdges r) := by
  match r with
  | [] => exact List.Perm.refl _
  | [v] => exact List.Perm.refl _
  | v :: w :: ws =>
    have h : ringEdges (rot1 (v :: w :: ws)) = List.zip (w :: ws) (ws ++ [v]) ++ [(v, w)] := by
      have e : (w :: (ws ++ [v])) = (w :: ws) ++ [v] := rfl
      simp only [ringEdges, rot1, List.cons_append]
      rw [e, List.zip_append (by simp)]
      rfl
    rw [h]
    simp [ringEdges, rot1]

theorem reverse_zip_eq {α β : Type} : ∀ (l₁ : List α) (l₂ : List β), l₁.length = l₂.length →
    (List.zip l₁ l₂).reverse = List.zip l₁.reverse l₂.reverse
  | [], [], _ => rfl
  | [], _ :: _, h => by simp at h
  | _ :: _, [], h => by simp at h
  | a :: l₁, b :: l₂, h => by
    have h' : l₁.length = l₂.length := by simpa using h
    rw [List.zip_cons_cons, List.reverse_cons, reverse_zip_eq l₁ l₂ h', List.reverse_cons, List.reverse_cons,
      List.zip_append (by simp [h'])]
    rfl

/-- reading the closed coordinate list backwards reverses every edge (and their order) -/
theorem ringEdges_revRing (r : Ring K) : ringEdges (revRing r) = ((ringEdges r).map Prod.swap).reverse := by
  cases r with
  | nil => rfl
  | cons v vs =>
    simp only [ringEdges, revRing, rot1]
    rw [List.zip_swap, reverse_zip_eq _ _ (by simp)]
    simp

theorem revRing_eq_rot1 (r : Ring K) : r.reverse = rot1 (revRing r) := by
  cases r <;> simp [revRing, rot1]

theorem ringEdges_reverse (r : Ring K) : (ringEdges r.reverse).Perm ((ringEdges r).map Prod.swap) := by
  rw [revRing_eq_rot1]
  refine (ringEdges_rot1 _).trans ?_
  rw [ringEdges_revRing]
  exact List.reverse_perm _

theorem ringEdges_map (f : Pt K → Pt K) (r : Ring K) : ringEdges (r.map f) = (ringEdges r).map (Prod.map f f) := by
  simp only [ringEdges, rot1_map, List.zip_map]

theorem xorAll_perm {l₁ l₂ : List Bool} (h : l₁.Perm l₂) : xorAll l₁ = xorAll l₂ := by
  induction h with
  | nil => rfl
  | cons x _ ih => simp only [xorAll, List.foldr] at ih ⊢; rw [ih]
  | swap x y l => simp only [xorAll, List.foldr]; cases x <;> cases y <;> simp
  | trans _ _ ih1 ih2 => exact ih1.trans ih2

theorem xorAll_reverse (l : List Bool) : xorAll l.reverse = xorAll l := xorAll_perm (List.reverse_perm l)

/-! ## 2. area -/

theorem sum_map_neg' {α : Type} (f : α → K) (l : List α) : (l.map fun x => - f x).sum = - (l.map f).sum := by
  induction l with
  | nil => simp
  | cons a l ih => simp only [List.map_cons, List.sum_cons, ih]; ring

theorem sum_map_sub' {α : Type} (f g : α → K) (l : List α) :
    (l.map fun x => f x - g x).sum = (l.map f).sum - (l.map g).sum := by
  induction l with
  | nil => simp
  | cons a l ih => simp only [List.map_cons, List.sum_cons, ih]; ring

theorem cross2_swap (a b : Pt K) : cross2 b a = - cross2 a b := by simp only [cross2]; ring

theorem shoelace2_eq (r : Ring K) : shoelace2 r = ((ringEdges r).map fun e => cross2 e.1 e.2).sum := by
  rw [shoelace2, sumK_eq_sum]

theorem rot1_eq_rotate {α : Type} (l : List α) : rot1 l = l.rotate 1 := by
  cases l <;> simp [rot1, List.rotate_cons_succ]

/-- the signed area does not depend on the start vertex (one step) -/
theorem shoelace2_rot1 (r : Ring K) : shoelace2 (rot1 r) = shoelace2 r := by
  rw [shoelace2_eq, shoelace2_eq]; exact ((ringEdges_rot1 r).map _).sum_eq

/-- **the signed area is invariant under every cyclic rotation of the vertex list** -/
theorem shoelace2_rotate (n : Nat) : ∀ r : Ring K, shoelace2 (r.rotate n) = shoelace2 r := by
  induction n with
  | zero => intro r; simp
  | succ n ih =>
    intro r
    rw [Nat.add_comm, ← List.rotate_rotate, ih, ← rot1_eq_rotate, shoelace2_rot1]

theorem shoelace2_revRing (r : Ring K) : shoelace2 (revRing r) = - shoelace2 r := by
  rw [shoelace2_eq, shoelace2_eq, ringEdges_revRing, List.map_reverse, List.sum_reverse, List.map_map,
    ← sum_map_neg']
  congr 1
  apply List.map_congr_left
  intro e _
  exact cross2_swap e.1 e.2

/-- **reversing the vertex order flips the sign of the signed area** -/
theorem shoelace2_reverse (r : Ring K) : shoelace2 r.reverse = - shoelace2 r := by
  rw [revRing_eq_rot1, shoelace2_rot1, shoelace2_revRing]

/-- translation of a point -/
def shift (t : Pt K) (v : Pt K) : Pt K := (v.1 + t.1, v.2 + t.2)

theorem sum_edge_diff (g : Pt K → K) (r : Ring K) : ((ringEdges r).map fun e => g e.2 - g e.1).sum = 0 := by
  rw [sum_map_sub']
  have h1 : (ringEdges r).map (fun e => g e.2) = (rot1 r).map g := by
    rw [← ringEdges_snd, List.map_map]; rfl
  have h2 : (ringEdges r).map (fun e => g e.1) = r.map g := by
    conv_rhs => rw [← ringEdges_fst r, List.map_map]
    rfl
  rw [h1, h2, ((rot1_perm r).map g).sum_eq, sub_self]

/-- **the signed area is invariant under translation** -/
theorem shoelace2_translate (t : Pt K) (r : Ring K) : shoelace2 (r.map (shift t)) = shoelace2 r := by
  rw [shoelace2_eq, shoelace2_eq, ringEdges_map, List.map_map]
  let g : Pt K → K := fun v => t.1 * v.2 - t.2 * v.1
  have h : ∀ e : Pt K × Pt K, ((fun e : Pt K × Pt K => cross2 e.1 e.2) ∘ Prod.map (shift t) (shift t)) e =
      cross2 e.1 e.2 + (g e.2 - g e.1) := by
    intro e; simp only [g, Function.comp, Prod.map, cross2, shift]; ring
  rw [List.map_congr_left (fun e _ => h e), List.sum_map_add, sum_edge_diff g r, add_zero]

theorem shoelace_translate (t : Pt K) (r : Ring K) : shoelace (r.map (shift t)) = shoelace r := by
  simp only [shoelace, shoelace2_translate]

theorem shoelace_reverse (r : Ring K) : shoelace r.reverse = - shoelace r := by
  simp only [shoelace, shoelace2_reverse, neg_div]

theorem shoelace_rotate (n : Nat) (r : Ring K) : shoelace (r.rotate n) = shoelace r := by
  simp only [shoelace, shoelace2_rotate]

/-- shoelace of a triangle = det/2 -/
theorem shoelace_triangle (o a b : Pt K) :
    shoelace [o, a, b] = ((a.1 - o.1) * (b.2 - o.2) - (a.2 - o.2) * (b.1 - o.1)) / 2 := by
  simp only [shoelace, shoelace2, ringEdges, rot1, sumK, cross2, List.zip_cons_cons, List.zip_nil_right, List.map,
    List.foldr, List.cons_append, List.nil_append]
  ring

/-- shoelace of a parallelogram `o, a, a + b − o, b` = det -/
theorem shoelace_parallelogram (o a b : Pt K) :
    shoelace [o, a, (a.1 + b.1 - o.1, a.2 + b.2 - o.2), b] = (a.1 - o.1) * (b.2 - o.2) - (a.2 - o.2) * (b.1 - o.1) := by
  simp only [shoelace, shoelace2, ringEdges, rot1, sumK, cross2, List.zip_cons_cons, List.zip_nil_right, List.map,
    List.foldr, List.cons_append, List.nil_append]
  ring

/-- **`polyArea` of a triangle is the closed form `triVol` of `Triangle._get_volume`** (either orientation) -/
theorem polyArea_triangle [Transc K] (ox oy ax ay bx cy : K) :
    polyArea ⟨[(ox, oy), (ax, ay), (bx, cy)], []⟩ = triVol ox oy ax ay bx cy := by
  simp only [polyArea, shoelace_triangle, triVol, det2, List.map, sumK, List.foldr, sub_zero, absK_eq_abs, abs_div]
  simp

/-- **`polyArea` of a parallelogram is the closed form `parVol` of `Parallelogram._get_volume`** -/
theorem polyArea_parallelogram [Transc K] (ox oy ax ay bx cy : K) :
    polyArea ⟨[(ox, oy), (ax, ay), (ax + bx - ox, ay + cy - oy), (bx, cy)], []⟩ = parVol ox oy ax ay bx cy := by
  have h := shoelace_parallelogram (ox, oy) (ax, ay) (bx, cy)
  simp only at h
  simp only [polyArea, h, parVol, det2, List.map, sumK, List.foldr, sub_zero]

/-- axis-parallel rectangle: width × height -/
theorem polyArea_rect (x0 x1 y0 y1 : K) (hx : x0 ≤ x1) (hy : y0 ≤ y1) :
    polyArea ⟨[(x0, y0), (x1, y0), (x1, y1), (x0, y1)], []⟩ = (x1 - x0) * (y1 - y0) := by
  have h : shoelace [(x0, y0), (x1, y0), (x1, y1), (x0, y1)] = (x1 - x0) * (y1 - y0) := by
    simp only [shoelace, shoelace2, ringEdges, rot1, sumK, cross2, List.zip_cons_cons, List.zip_nil_right, List.map,
      List.foldr, List.cons_append, List.nil_append]
    ring
  simp only [polyArea, h, List.map, sumK, List.foldr, sub_zero, absK_eq_abs]
  exact abs_of_nonneg (mul_nonneg (sub_nonneg.mpr hx) (sub_nonneg.mpr hy))

theorem absK_shoelace_revRing (r : Ring K) : absK (shoelace (revRing r)) = absK (shoelace r) := by
  simp only [shoelace, shoelace2_revRing, absK_eq_abs, neg_div, abs_neg]

theorem absK_shoelace_orientRing (c : Bool) (r : Ring K) : absK (shoelace (orientRing c r)) = absK (shoelace r) := by
  unfold orientRing
  split <;> split <;> simp only [absK_shoelace_revRing]

/-- **the area is orientation independent**: what `__init__` does to the rings (`orient`) does not change it -/
theorem polyArea_orient (P : Polygon K) : polyArea (polyOrient P) = polyArea P := by
  simp only [polyArea, polyOrient, absK_shoelace_orientRing, List.map_map, Function.comp_def]

/-- … nor does reversing or rotating the exterior ring or any hole -/
theorem polyArea_reverse_rotate (P : Polygon K) (n : Nat) (ns : Ring K → Nat) :
    polyArea ⟨(P.outer.rotate n).reverse, P.holes.map fun h => (h.rotate (ns h)).reverse⟩ = polyArea P := by
  simp only [polyArea, shoelace_reverse, shoelace_rotate, absK_eq_abs, abs_neg, List.map_map, Function.comp_def]

/-- after `orient` the exterior is counter-clockwise (signed area ≥ 0) and the holes clockwise -/
theorem polyOrient_signs (P : Polygon K) :
    0 ≤ shoelace2 (polyOrient P).outer ∧ ∀ h ∈ (polyOrient P).holes, shoelace2 h ≤ 0 := by
  constructor
  · simp only [polyOrient, orientRing, if_true]
    split
    · rename_i h; simpa using h
    · rename_i h; rw [shoelace2_revRing]; simp only [le_iff, not_le] at h; linarith
  · intro h hh
    simp only [polyOrient, List.mem_map] at hh
    obtain ⟨r, _, rfl⟩ := hh
    simp only [orientRing, Bool.false_eq_true, if_false]
    split
    · rename_i h; simpa using h
    · rename_i h; rw [shoelace2_revRing]; simp only [le_iff, not_le] at h; linarith

/-! ## 3. membership: the edge tests as propositions, symmetry, independence of start vertex and orientation -/

theorem orient_swap (a b p : Pt K) : orient b a p = - orient a b p := by simp only [orient]; ring

/-- the orientation determinant as a sum of two products of coordinate differences to `p` -/
theorem orient_split (a b p : Pt K) :
    orient a b p = (a.1 - p.1) * (b.2 - p.2) + (b.1 - p.1) * (p.2 - a.2) := by simp only [orient]; ring

theorem onSeg_iff (a b p : Pt K) : onSeg a b p = true ↔
    orient a b p = 0 ∧ min a.1 b.1 ≤ p.1 ∧ p.1 ≤ max a.1 b.1 ∧ min a.2 b.2 ≤ p.2 ∧ p.2 ≤ max a.2 b.2 := by
  simp only [onSeg, Bool.and_eq_true, le_iff, minK_eq_min, maxK_eq_max]
  constructor
  · rintro ⟨⟨h1, h2⟩, ⟨h3, h4⟩, h5, h6⟩; exact ⟨le_antisymm h1 h2, h3, h4, h5, h6⟩
  · rintro ⟨h0, h3, h4, h5, h6⟩; exact ⟨⟨h0.le, h0.ge⟩, ⟨h3, h4⟩, h5, h6⟩

theorem onSeg_swap (a b p : Pt K) : onSeg b a p = onSeg a b p := by
  rw [Bool.eq_iff_iff, onSeg_iff, onSeg_iff, orient_swap, min_comm b.1, max_comm b.1, min_comm b.2, max_comm b.2,
    neg_eq_zero]

theorem crosses_iff (a b p : Pt K) : crosses a b p = true ↔
    (a.2 ≤ p.2 ∧ p.2 < b.2 ∧ 0 < orient a b p) ∨ (b.2 ≤ p.2 ∧ p.2 < a.2 ∧ orient a b p < 0) := by
  unfold crosses above
  rcases lt_or_ge p.2 a.2 with ha | ha <;> rcases lt_or_ge p.2 b.2 with hb | hb
  · have ha' : lt p.2 a.2 = true := (lt_iff _ _).mpr ha
    have hb' : lt p.2 b.2 = true := (lt_iff _ _).mpr hb
    simp only [ha', hb', bne_self_eq_false, Bool.false_and, Bool.false_eq_true, false_iff]
    rintro (⟨h, _, _⟩ | ⟨h, _, _⟩) <;> linarith
  · have ha' : lt p.2 a.2 = true := (lt_iff _ _).mpr ha
    have hb' : lt p.2 b.2 = false := by rw [← Bool.not_eq_true, lt_iff]; exact not_lt.mpr hb
    simp only [ha', hb', Bool.false_eq_true, if_false]
    constructor
    · intro h; right; exact ⟨hb, ha, by simpa using h⟩
    · rintro (⟨h, _, _⟩ | ⟨_, _, h⟩)
      · linarith
      · simpa using h
  · have ha' : lt p.2 a.2 = false := by rw [← Bool.not_eq_true, lt_iff]; exact not_lt.mpr ha
    have hb' : lt p.2 b.2 = true := (lt_iff _ _).mpr hb
    simp only [ha', hb', if_true]
    constructor
    · intro h; left; exact ⟨ha, hb, by simpa using h⟩
    · rintro (⟨_, _, h⟩ | ⟨h, _, _⟩)
      · simpa using h
      · linarith
  · have ha' : lt p.2 a.2 = false := by rw [← Bool.not_eq_true, lt_iff]; exact not_lt.mpr ha
    have hb' : lt p.2 b.2 = false := by rw [← Bool.not_eq_true, lt_iff]; exact not_lt.mpr hb
    simp only [ha', hb', bne_self_eq_false, Bool.false_and, Bool.false_eq_true, false_iff]
    rintro (⟨_, h, _⟩ | ⟨_, h, _⟩) <;> linarith

/-- the crossing test does not depend on the direction of the edge -/
theorem crosses_swap (a b p : Pt K) : crosses b a p = crosses a b p := by
  rw [Bool.eq_iff_iff, crosses_iff, crosses_iff, orient_swap]
  constructor
  · rintro (⟨h1, h2, h3⟩ | ⟨h1, h2, h3⟩)
    · right; exact ⟨h1, h2, by linarith⟩
    · left; exact ⟨h1, h2, by linarith⟩
  · rintro (⟨h1, h2, h3⟩ | ⟨h1, h2, h3⟩)
    · right; exact ⟨h1, h2, by linarith⟩
    · left; exact ⟨h1, h2, by linarith⟩

theorem ringOdd_rot1 (r : Ring K) (p : Pt K) : ringOdd (rot1 r) p = ringOdd r p :=
  xorAll_perm ((ringEdges_rot1 r).map _)

theorem onRing_rot1 (r : Ring K) (p : Pt K) : onRing (rot1 r) p = onRing r p :=
  (ringEdges_rot1 r).any_eq

theorem ringOdd_revRing (r : Ring K) (p : Pt K) : ringOdd (revRing r) p = ringOdd r p := by
  simp only [ringOdd, ringEdges_revRing, List.map_reverse, xorAll_reverse, List.map_map]
  congr 1
  apply List.map_congr_left
  intro e _
  exact crosses_swap e.1 e.2 p

theorem onRing_revRing (r : Ring K) (p : Pt K) : onRing (revRing r) p = onRing r p := by
  simp only [onRing, ringEdges_revRing, List.any_reverse, List.any_map]
  congr 1
  funext e
  exact onSeg_swap e.1 e.2 p

theorem ringLocate_rot1 (r : Ring K) (p : Pt K) : ringLocate (rot1 r) p = ringLocate r p := by
  simp only [ringLocate, onRing_rot1, ringOdd_rot1]

theorem ringLocate_revRing (r : Ring K) (p : Pt K) : ringLocate (revRing r) p = ringLocate r p := by
  simp only [ringLocate, onRing_revRing, ringOdd_revRing]

/-- **the location of a point in a ring does not depend on the start vertex** -/
theorem ringLocate_rotate (n : Nat) : ∀ (r : Ring K) (p : Pt K), ringLocate (r.rotate n) p = ringLocate r p := by
  induction n with
  | zero => intro r p; simp
  | succ n ih =>
    intro r p
    rw [Nat.add_comm, ← List.rotate_rotate, ih, ← rot1_eq_rotate, ringLocate_rot1]

/-- **… nor on the direction in which the ring is traversed** -/
theorem ringLocate_reverse (r : Ring K) (p : Pt K) : ringLocate r.reverse p = ringLocate r p := by
  rw [revRing_eq_rot1, ringLocate_rot1, ringLocate_revRing]

theorem ringLocate_orientRing (c : Bool) (r : Ring K) (p : Pt K) : ringLocate (orientRing c r) p = ringLocate r p := by
  unfold orientRing
  split <;> split <;> simp only [ringLocate_revRing]

theorem holesLocate_map (f : Ring K → Ring K) (p : Pt K) (hf : ∀ r, ringLocate (f r) p = ringLocate r p) :
    ∀ hs : List (Ring K), holesLocate p (hs.map f) = holesLocate p hs
  | [] => rfl
  | h :: hs => by
    simp only [List.map_cons, holesLocate, hf, holesLocate_map f p hf hs]

/-- **membership is what it was before `__init__` re-oriented the rings** -/
theorem polyLocate_orient (P : Polygon K) (p : Pt K) : polyLocate (polyOrient P) p = polyLocate P p := by
  simp only [polyLocate, polyOrient, ringLocate_orientRing,
    holesLocate_map (orientRing false) p (fun r => ringLocate_orientRing false r p)]

theorem polyContains_orient (P : Polygon K) (p : Pt K) : polyContains (polyOrient P) p = polyContains P p := by
  simp only [polyContains, polyLocate_orient]

theorem ringLocate_interior_iff (r : Ring K) (p : Pt K) :
    ringLocate r p = .interior ↔ onRing r p = false ∧ ringOdd r p = true := by
  unfold ringLocate
  cases onRing r p <;> cases ringOdd r p <;> simp

theorem ringLocate_exterior_iff (r : Ring K) (p : Pt K) :
    ringLocate r p = .exterior ↔ onRing r p = false ∧ ringOdd r p = false := by
  unfold ringLocate
  cases onRing r p <;> cases ringOdd r p <;> simp

theorem ringLocate_boundary_iff (r : Ring K) (p : Pt K) : ringLocate r p = .boundary ↔ onRing r p = true := by
  unfold ringLocate
  cases onRing r p <;> cases ringOdd r p <;> simp

theorem holesLocate_interior_iff (p : Pt K) : ∀ hs : List (Ring K),
    holesLocate p hs = .interior ↔ ∀ h ∈ hs, ringLocate h p = .exterior
  | [] => by simp [holesLocate]
  | h :: hs => by
    simp only [holesLocate, List.mem_cons, forall_eq_or_imp]
    cases hh : ringLocate h p <;> simp [holesLocate_interior_iff p hs]

theorem holesLocate_ne_exterior_iff (p : Pt K) : ∀ hs : List (Ring K),
    holesLocate p hs = .boundary → ∃ h ∈ hs, onRing h p = true
  | [] => by simp [holesLocate]
  | h :: hs => by
    intro h'
    simp only [List.mem_cons]
    unfold holesLocate at h'
    split at h'
    · exact absurd h' (by decide)
    · rename_i hh
      exact ⟨h, Or.inl rfl, (ringLocate_boundary_iff _ _).mp hh⟩
    · obtain ⟨g, hg, hp⟩ := holesLocate_ne_exterior_iff p hs h'
      exact ⟨g, Or.inr hg, hp⟩

/-- **`_contains` = inside the exterior ring and outside every hole**, the rings' edges excluded -/
theorem polyContains_iff (P : Polygon K) (p : Pt K) : polyContains P p = true ↔
    ringLocate P.outer p = .interior ∧ ∀ h ∈ P.holes, ringLocate h p = .exterior := by
  simp only [polyContains, polyLocate, beq_iff_eq]
  cases ho : ringLocate P.outer p <;> simp [holesLocate_interior_iff]

theorem onPolyBdry_iff (P : Polygon K) (p : Pt K) : onPolyBdry P p = true ↔
    onRing P.outer p = true ∨ ∃ h ∈ P.holes, onRing h p = true := by
  simp only [onPolyBdry, polyEdges, onRing, List.any_append, Bool.or_eq_true, List.any_eq_true, List.mem_flatten,
    List.mem_map]
  constructor
  · rintro (h | ⟨e, ⟨l, ⟨r, hr, rfl⟩, he⟩, hp⟩)
    · exact Or.inl h
    · exact Or.inr ⟨r, hr, e, he, hp⟩
  · rintro (h | ⟨r, hr, e, he, hp⟩)
    · exact Or.inl h
    · exact Or.inr ⟨e, ⟨_, ⟨r, hr, rfl⟩, he⟩, hp⟩

/-- what GEOS reports as "on the boundary" is a point of some edge -/
theorem polyLocate_boundary_onBdry (P : Polygon K) (p : Pt K) (h : polyLocate P p = .boundary) :
    onPolyBdry P p = true := by
  rw [onPolyBdry_iff]
  simp only [polyLocate] at h
  cases ho : ringLocate P.outer p with
  | exterior => simp [ho] at h
  | boundary => exact Or.inl ((ringLocate_boundary_iff _ _).mp ho)
  | interior =>
    simp only [ho] at h
    exact Or.inr (holesLocate_ne_exterior_iff p P.holes h)

/-- **the interior test rejects every point that lies on an edge** (Shapely's `contains` is the open interior) -/
theorem polyContains_not_onBdry (P : Polygon K) (p : Pt K) (h : polyContains P p = true) : onPolyBdry P p = false := by
  rw [polyContains_iff] at h
  rw [← Bool.not_eq_true, onPolyBdry_iff]
  rintro (h' | ⟨r, hr, h'⟩)
  · have := (ringLocate_interior_iff _ _).mp h.1; simp [h'] at this
  · have := (ringLocate_exterior_iff _ _).mp (h.2 r hr); simp [h'] at this

/-- the closed set = interior ∪ what GEOS calls boundary -/
theorem polyCovers_iff (P : Polygon K) (p : Pt K) :
    polyCovers P p = true ↔ polyContains P p = true ∨ polyLocate P p = .boundary := by
  simp only [polyCovers, polyContains]
  cases polyLocate P p <;> simp

/-! ## 4. bounding box -/

theorem foldl_minK_le (f : Pt K → K) : ∀ (vs : List (Pt K)) (m : K),
    vs.foldl (fun acc q => minK acc (f q)) m ≤ m ∧ ∀ q ∈ vs, vs.foldl (fun acc q => minK acc (f q)) m ≤ f q
  | [], m => by simp
  | v :: vs, m => by
    obtain ⟨h1, h2⟩ := foldl_minK_le f vs (minK m (f v))
    have e : minK m (f v) = min m (f v) := minK_eq_min _ _
    simp only [List.foldl_cons, List.mem_cons, forall_eq_or_imp]
    exact ⟨h1.trans (e.le.trans (min_le_left _ _)), h1.trans (e.le.trans (min_le_right _ _)), h2⟩

theorem le_foldl_maxK (f : Pt K → K) : ∀ (vs : List (Pt K)) (m : K),
    m ≤ vs.foldl (fun acc q => maxK acc (f q)) m ∧ ∀ q ∈ vs, f q ≤ vs.foldl (fun acc q => maxK acc (f q)) m
  | [], m => by simp
  | v :: vs, m => by
    obtain ⟨h1, h2⟩ := le_foldl_maxK f vs (maxK m (f v))
    have e : maxK m (f v) = max m (f v) := maxK_eq_max _ _
    simp only [List.foldl_cons, List.mem_cons, forall_eq_or_imp]
    exact ⟨((le_max_left _ _).trans e.ge).trans h1, ((le_max_right _ _).trans e.ge).trans h1, h2⟩

theorem inBox_iff (b : K × K × K × K) (p : Pt K) :
    inBox b p = true ↔ (b.1 ≤ p.1 ∧ p.1 ≤ b.2.1) ∧ (b.2.2.1 ≤ p.2 ∧ p.2 ≤ b.2.2.2) := by
  simp only [inBox, Bool.and_eq_true, le_iff]

/-- **every vertex of the exterior ring lies in `bounding_box`** -/
theorem vertex_in_bbox (P : Polygon K) (b : K × K × K × K) (hb : polyBBox P = some b) (q : Pt K) (hq : q ∈ P.outer) :
    inBox b q = true := by
  unfold polyBBox at hb
  split at hb
  · simp at hb
  · rename_i v vs hv
    simp only [Option.some.injEq] at hb
    subst hb
    rw [hv] at hq
    rw [inBox_iff]
    simp only
    obtain ⟨a1, a2⟩ := foldl_minK_le (fun q => q.1) vs v.1
    obtain ⟨b1, b2⟩ := le_foldl_maxK (fun q => q.1) vs v.1
    obtain ⟨c1, c2⟩ := foldl_minK_le (fun q => q.2) vs v.2
    obtain ⟨d1, d2⟩ := le_foldl_maxK (fun q => q.2) vs v.2
    rcases List.mem_cons.mp hq with rfl | hq
    · exact ⟨⟨a1, b1⟩, c1, d1⟩
    · exact ⟨⟨a2 q hq, b2 q hq⟩, c2 q hq, d2 q hq⟩

theorem comb_bounds (lo hi : K) (f : Pt K → K) : ∀ (wv : List (K × Pt K)),
    (∀ x ∈ wv, 0 ≤ x.1 ∧ lo ≤ f x.2 ∧ f x.2 ≤ hi) →
    lo * (wv.map Prod.fst).sum ≤ (wv.map fun x => x.1 * f x.2).sum ∧
    (wv.map fun x => x.1 * f x.2).sum ≤ hi * (wv.map Prod.fst).sum
  | [], _ => by simp
  | x :: wv, h => by
    obtain ⟨h0, h1, h2⟩ := h x (List.mem_cons_self ..)
    obtain ⟨i1, i2⟩ := comb_bounds lo hi f wv (fun y hy => h y (List.mem_cons_of_mem _ hy))
    simp only [List.map_cons, List.sum_cons]
    constructor
    · nlinarith [mul_le_mul_of_nonneg_left h1 h0]
    · nlinarith [mul_le_mul_of_nonneg_left h2 h0]

/-- **every convex combination of vertices lies in `bounding_box`** (hence every point of a convex polygon) -/
theorem convex_comb_in_bbox (P : Polygon K) (b : K × K × K × K) (hb : polyBBox P = some b)
    (wv : List (K × Pt K)) (hv : ∀ x ∈ wv, 0 ≤ x.1 ∧ x.2 ∈ P.outer) (h1 : (wv.map Prod.fst).sum = 1) :
    inBox b ((wv.map fun x => x.1 * x.2.1).sum, (wv.map fun x => x.1 * x.2.2).sum) = true := by
  have hx := comb_bounds b.1 b.2.1 (fun q => q.1) wv (fun x hx => by
    have := (inBox_iff b x.2).mp (vertex_in_bbox P b hb x.2 (hv x hx).2)
    exact ⟨(hv x hx).1, this.1.1, this.1.2⟩)
  have hy := comb_bounds b.2.2.1 b.2.2.2 (fun q => q.2) wv (fun x hx => by
    have := (inBox_iff b x.2).mp (vertex_in_bbox P b hb x.2 (hv x hx).2)
    exact ⟨(hv x hx).1, this.2.1, this.2.2⟩)
  rw [h1, mul_one, mul_one] at hx hy
  rw [inBox_iff]
  exact ⟨hx, hy⟩

/-- a point of a segment between two points of a box lies in the box -/
theorem onSeg_in_box (b : K × K × K × K) (a c p : Pt K) (ha : inBox b a = true) (hc : inBox b c = true)
    (h : onSeg a c p = true) : inBox b p = true := by
  rw [inBox_iff] at ha hc ⊢
  obtain ⟨_, h1, h2, h3, h4⟩ := (onSeg_iff a c p).mp h
  exact ⟨⟨(le_min ha.1.1 hc.1.1).trans h1, h2.trans (max_le ha.1.2 hc.1.2)⟩,
    (le_min ha.2.1 hc.2.1).trans h3, h4.trans (max_le ha.2.2 hc.2.2)⟩

/-- a crossed edge: `p` is within the edge's y-range and left of its larger x -/
theorem crosses_bounds (a b p : Pt K) (h : crosses a b p = true) :
    min a.2 b.2 ≤ p.2 ∧ p.2 < max a.2 b.2 ∧ p.1 < max a.1 b.1 := by
  rw [crosses_iff, orient_split] at h
  rcases h with ⟨h1, h2, h3⟩ | ⟨h1, h2, h3⟩
  · refine ⟨(min_le_left _ _).trans h1, lt_of_lt_of_le h2 (le_max_right _ _), ?_⟩
    by_contra hc
    have hc := not_lt.mp hc
    have ha : a.1 ≤ p.1 := (le_max_left _ _).trans hc
    have hb : b.1 ≤ p.1 := (le_max_right _ _).trans hc
    have := mul_nonneg (sub_nonneg.mpr ha) (sub_nonneg.mpr h2.le)
    have := mul_nonneg (sub_nonneg.mpr hb) (sub_nonneg.mpr h1)
    nlinarith
  · refine ⟨(min_le_right _ _).trans h1, lt_of_lt_of_le h2 (le_max_left _ _), ?_⟩
    by_contra hc
    have hc := not_lt.mp hc
    have ha : a.1 ≤ p.1 := (le_max_left _ _).trans hc
    have hb : b.1 ≤ p.1 := (le_max_right _ _).trans hc
    have := mul_nonneg (sub_nonneg.mpr ha) (sub_nonneg.mpr h1)
    have := mul_nonneg (sub_nonneg.mpr hb) (sub_nonneg.mpr h2.le)
    nlinarith

/-- for a point strictly left of both end points the crossing test only asks whether the edge passes the ray's level -/
theorem crosses_of_left (a b p : Pt K) (ha : p.1 < a.1) (hb : p.1 < b.1) :
    crosses a b p = (above p a != above p b) := by
  rw [Bool.eq_iff_iff, crosses_iff, orient_split]
  simp only [above, bne_iff_ne, ne_eq]
  have pa := sub_pos.mpr ha
  have pb := sub_pos.mpr hb
  rcases lt_or_ge p.2 a.2 with h1 | h1 <;> rcases lt_or_ge p.2 b.2 with h2 | h2
  · have e1 : lt p.2 a.2 = true := (lt_iff _ _).mpr h1
    have e2 : lt p.2 b.2 = true := (lt_iff _ _).mpr h2
    simp only [e1, e2, not_true_eq_false, iff_false]
    rintro (⟨h, _, _⟩ | ⟨h, _, _⟩) <;> linarith
  · have e1 : lt p.2 a.2 = true := (lt_iff _ _).mpr h1
    have e2 : lt p.2 b.2 = false := by rw [← Bool.not_eq_true, lt_iff]; exact not_lt.mpr h2
    simp only [e1, e2, Bool.true_eq_false, not_false_eq_true, iff_true]
    right
    refine ⟨h2, h1, ?_⟩
    have := mul_nonneg pa.le (sub_nonneg.mpr h2)
    have := mul_pos pb (sub_pos.mpr h1)
    nlinarith
  · have e1 : lt p.2 a.2 = false := by rw [← Bool.not_eq_true, lt_iff]; exact not_lt.mpr h1
    have e2 : lt p.2 b.2 = true := (lt_iff _ _).mpr h2
    simp only [e1, e2, Bool.false_eq_true, not_false_eq_true, iff_true]
    left
    refine ⟨h1, h2, ?_⟩
    have := mul_pos pa (sub_pos.mpr h2)
    have := mul_nonneg pb.le (sub_nonneg.mpr h1)
    nlinarith
  · have e1 : lt p.2 a.2 = false := by rw [← Bool.not_eq_true, lt_iff]; exact not_lt.mpr h1
    have e2 : lt p.2 b.2 = false := by rw [← Bool.not_eq_true, lt_iff]; exact not_lt.mpr h2
    simp only [e1, e2, not_true_eq_false, iff_false]
    rintro (⟨_, h, _⟩ | ⟨_, h, _⟩) <;> linarith

theorem xorAll_map_bne {α : Type} (f g : α → Bool) : ∀ l : List α,
    xorAll (l.map fun e => f e != g e) = (xorAll (l.map f) != xorAll (l.map g))
  | [] => rfl
  | a :: l => by
    have ih := xorAll_map_bne f g l
    simp only [xorAll, List.map_cons, List.foldr_cons] at ih ⊢
    rw [ih]
    cases f a <;> cases g a <;> cases List.foldr xor false (List.map f l) <;>
      cases List.foldr xor false (List.map g l) <;> rfl

/-- around a closed ring a Boolean vertex label changes an even number of times -/
theorem xor_cycle (g : Pt K → Bool) (r : Ring K) :
    xorAll ((ringEdges r).map fun e => g e.1 != g e.2) = false := by
  rw [xorAll_map_bne (fun e : Pt K × Pt K => g e.1) (fun e => g e.2)]
  have h1 : (ringEdges r).map (fun e => g e.1) = r.map g := by
    conv_rhs => rw [← ringEdges_fst r, List.map_map]
    rfl
  have h2 : (ringEdges r).map (fun e => g e.2) = (rot1 r).map g := by
    rw [← ringEdges_snd, List.map_map]; rfl
  rw [h1, h2, xorAll_perm ((rot1_perm r).map g)]
  simp

/-- a point strictly left of every vertex is crossed an even number of times -/
theorem ringOdd_of_left (r : Ring K) (p : Pt K) (h : ∀ v ∈ r, p.1 < v.1) : ringOdd r p = false := by
  unfold ringOdd
  rw [List.map_congr_left (g := fun e => above p e.1 != above p e.2)]
  · exact xor_cycle (above p) r
  · intro e he
    obtain ⟨h1, h2⟩ := ringEdges_mem r e he
    exact crosses_of_left e.1 e.2 p (h _ h1) (h _ h2)

theorem xorAll_true_exists : ∀ l : List Bool, xorAll l = true → true ∈ l
  | [], h => by simp [xorAll] at h
  | a :: l, h => by
    cases a
    · simp only [xorAll, List.foldr_cons, Bool.false_xor] at h
      exact List.mem_cons_of_mem _ (xorAll_true_exists l h)
    · exact List.mem_cons_self ..

/-- **a point inside a ring (odd crossing number) lies in the bounding box of the ring's vertices** -/
theorem ringOdd_in_box (r : Ring K) (b : K × K × K × K) (hv : ∀ q ∈ r, inBox b q = true) (p : Pt K)
    (h : ringOdd r p = true) : inBox b p = true := by
  have hv' := fun q hq => (inBox_iff b q).mp (hv q hq)
  obtain ⟨e, he, hc⟩ := List.mem_map.mp (xorAll_true_exists _ h)
  obtain ⟨h1, h2⟩ := ringEdges_mem r e he
  obtain ⟨c1, c2, c3⟩ := crosses_bounds e.1 e.2 p hc
  have a1 := hv' _ h1
  have a2 := hv' _ h2
  rw [inBox_iff]
  refine ⟨⟨?_, ?_⟩, (le_min a1.2.1 a2.2.1).trans c1, (c2.trans_le (max_le a1.2.2 a2.2.2)).le⟩
  · by_contra hc'
    have hc' := not_le.mp hc'
    have := ringOdd_of_left r p (fun v hv0 => lt_of_lt_of_le hc' (hv' v hv0).1.1)
    rw [this] at h
    exact Bool.false_ne_true h
  · exact (c3.trans_le (max_le a1.1.2 a2.1.2)).le

theorem onRing_in_box (r : Ring K) (b : K × K × K × K) (hv : ∀ q ∈ r, inBox b q = true) (p : Pt K)
    (h : onRing r p = true) : inBox b p = true := by
  simp only [onRing, List.any_eq_true] at h
  obtain ⟨e, he, hp⟩ := h
  obtain ⟨h1, h2⟩ := ringEdges_mem r e he
  exact onSeg_in_box b e.1 e.2 p (hv _ h1) (hv _ h2) hp

/-- **every point the membership test accepts lies in `bounding_box`** — any polygon (non-convex, with holes) -/
theorem contains_in_bbox (P : Polygon K) (b : K × K × K × K) (hb : polyBBox P = some b) (p : Pt K)
    (h : polyContains P p = true) : inBox b p = true := by
  have h' := ((ringLocate_interior_iff _ _).mp ((polyContains_iff P p).mp h).1).2
  exact ringOdd_in_box P.outer b (vertex_in_bbox P b hb) p h'

/-- … and so does every point of the closed set (edges included) -/
theorem covers_in_bbox (P : Polygon K) (b : K × K × K × K) (hb : polyBBox P = some b) (p : Pt K)
    (h : polyCovers P p = true) : inBox b p = true := by
  simp only [polyCovers, polyLocate, bne_iff_ne, ne_eq] at h
  cases ho : ringLocate P.outer p with
  | exterior => simp [ho] at h
  | boundary => exact onRing_in_box P.outer b (vertex_in_bbox P b hb) p ((ringLocate_boundary_iff _ _).mp ho)
  | interior => exact ringOdd_in_box P.outer b (vertex_in_bbox P b hb) p ((ringLocate_interior_iff _ _).mp ho).2

/-! ## 5. axis-parallel rectangles: the interval test -/

theorem crosses_false_iff (a b p : Pt K) : crosses a b p = false ↔
    ¬ ((a.2 ≤ p.2 ∧ p.2 < b.2 ∧ 0 < orient a b p) ∨ (b.2 ≤ p.2 ∧ p.2 < a.2 ∧ orient a b p < 0)) := by
  rw [← crosses_iff, Bool.not_eq_true]

/-- a horizontal edge is never counted -/
theorem crosses_horizontal (a b p : Pt K) (h : a.2 = b.2) : crosses a b p = false := by
  rw [crosses_false_iff, h]
  rintro (⟨h1, h2, _⟩ | ⟨h1, h2, _⟩) <;> linarith

/-- **for an axis-parallel rectangle the membership test is the (open) interval test in both coordinates** -/
theorem rect_contains_iff (x0 x1 y0 y1 : K) (hx : x0 < x1) (hy : y0 < y1) (p : Pt K) :
    polyContains ⟨[(x0, y0), (x1, y0), (x1, y1), (x0, y1)], []⟩ p = true ↔
      (x0 < p.1 ∧ p.1 < x1) ∧ (y0 < p.2 ∧ p.2 < y1) := by
  obtain ⟨px, py⟩ := p
  rw [polyContains_iff]
  simp only [List.not_mem_nil, false_imp_iff, implies_true, and_true, ringLocate_interior_iff]
  have hedges : ringEdges [(x0, y0), (x1, y0), (x1, y1), (x0, y1)] =
      [((x0, y0), (x1, y0)), ((x1, y0), (x1, y1)), ((x1, y1), (x0, y1)), ((x0, y1), (x0, y0))] := rfl
  simp only [onRing, ringOdd, hedges, List.any_cons, List.any_nil, List.map_cons, List.map_nil, xorAll,
    List.foldr_cons, List.foldr_nil, Bool.or_false, Bool.xor_false, Bool.or_eq_false_iff]
  rw [crosses_horizontal (x0, y0) (x1, y0) (px, py) rfl, crosses_horizontal (x1, y1) (x0, y1) (px, py) rfl]
  simp only [Bool.false_xor]
  have hw := sub_pos.mpr hx
  have hh := sub_pos.mpr hy
  have s1 := onSeg_iff (x0, y0) (x1, y0) (px, py)
  have s2 := onSeg_iff (x1, y0) (x1, y1) (px, py)
  have s3 := onSeg_iff (x1, y1) (x0, y1) (px, py)
  have s4 := onSeg_iff (x0, y1) (x0, y0) (px, py)
  have c2 := crosses_iff (x1, y0) (x1, y1) (px, py)
  have c4 := crosses_iff (x0, y1) (x0, y0) (px, py)
  simp only [orient, sub_self, zero_mul, mul_zero, zero_sub, sub_zero, min_self, max_self, min_eq_left hx.le,
    max_eq_right hx.le, min_eq_right hx.le, max_eq_left hx.le, min_eq_left hy.le, max_eq_right hy.le,
    min_eq_right hy.le, max_eq_left hy.le] at s1 s2 s3 s4 c2 c4
  constructor
  · rintro ⟨⟨n1, n2, n3, n4⟩, hodd⟩
    rw [Bool.eq_false_iff, Ne, s1] at n1
    rw [Bool.eq_false_iff, Ne, s2] at n2
    rw [Bool.eq_false_iff, Ne, s3] at n3
    rw [Bool.eq_false_iff, Ne, s4] at n4
    cases h2 : crosses (x1, y0) (x1, y1) (px, py) <;> cases h4 : crosses (x0, y1) (x0, y0) (px, py) <;>
      rw [h2, h4] at hodd <;> simp only [Bool.xor_self, Bool.false_eq_true, Bool.xor_false, Bool.false_xor, Bool.xor_true,
        Bool.not_true, Bool.not_false] at hodd
    · -- only the left edge crossed: impossible
      rcases c4.mp h4 with ⟨h, h', _⟩ | ⟨a1, a2, a3⟩
      · linarith
      · exfalso
        have : px < x0 := by nlinarith
        have hn : ¬ crosses (x1, y0) (x1, y1) (px, py) = true := by rw [h2]; simp
        apply hn
        rw [c2]
        left
        refine ⟨a1, a2, ?_⟩
        nlinarith
    · -- only the right edge crossed
      rcases c2.mp h2 with ⟨a1, a2, a3⟩ | ⟨h, h', _⟩
      · have hpx1 : px < x1 := by nlinarith
        have hn : ¬ crosses (x0, y1) (x0, y0) (px, py) = true := by rw [h4]; simp
        rw [c4] at hn
        have hpx0 : x0 ≤ px := by
          by_contra hc
          apply hn
          right
          refine ⟨a1, a2, ?_⟩
          have := not_le.mp hc
          nlinarith
        refine ⟨⟨lt_of_le_of_ne hpx0 ?_, hpx1⟩, lt_of_le_of_ne a1 ?_, a2⟩
        · intro e
          apply n4
          subst e
          exact ⟨by ring, le_refl _, le_refl _, a1, a2.le⟩
        · intro e
          apply n1
          subst e
          exact ⟨by ring, hpx0, hpx1.le, le_refl _, le_refl _⟩
      · linarith
  · rintro ⟨⟨h1, h2⟩, h3, h4⟩
    refine ⟨⟨?_, ?_, ?_, ?_⟩, ?_⟩
    · rw [Bool.eq_false_iff, Ne, s1]; rintro ⟨_, _, _, h, h'⟩; linarith
    · rw [Bool.eq_false_iff, Ne, s2]; rintro ⟨_, h, h', _, _⟩; linarith
    · rw [Bool.eq_false_iff, Ne, s3]; rintro ⟨_, _, _, h, h'⟩; linarith
    · rw [Bool.eq_false_iff, Ne, s4]; rintro ⟨_, h, h', _, _⟩; linarith
    · have e2 : crosses (x1, y0) (x1, y1) (px, py) = true := by
        rw [c2]; left; refine ⟨h3.le, h4, ?_⟩; nlinarith
      have e4 : crosses (x0, y1) (x0, y0) (px, py) = false := by
        rw [Bool.eq_false_iff, Ne, c4]
        rintro (⟨h, h', _⟩ | ⟨_, _, h⟩)
        · linarith
        · nlinarith
      rw [e2, e4]; rfl

/-! ## 6. triangles: crossing number = the three half-plane tests = the denoted set of `Triangle` -/

theorem orient_y_identity (a b c p : Pt K) :
    orient a b p * (c.2 - p.2) + orient b c p * (a.2 - p.2) + orient c a p * (b.2 - p.2) = 0 := by
  simp only [orient]; ring

theorem orient_sum (a b c p : Pt K) : orient a b p + orient b c p + orient c a p = orient a b c := by
  simp only [orient]; ring

theorem orient_cycle (a b c : Pt K) : orient b c a = orient a b c := by simp only [orient]; ring

/-- a point that is collinear with an edge and within its (half-open) y-range lies on the edge -/
theorem straddle_collinear_onSeg (a b p : Pt K) (h0 : orient a b p = 0)
    (hs : (a.2 ≤ p.2 ∧ p.2 < b.2) ∨ (b.2 ≤ p.2 ∧ p.2 < a.2)) : onSeg a b p = true := by
  rw [onSeg_iff]
  have hsplit := orient_split a b p
  rw [h0] at hsplit
  rcases hs with ⟨h1, h2⟩ | ⟨h1, h2⟩
  · refine ⟨h0, ?_, ?_, (min_le_left _ _).trans h1, h2.le.trans (le_max_right _ _)⟩
    · by_contra hc
      obtain ⟨c1, c2⟩ := lt_min_iff.mp (not_le.mp hc)
      have := mul_pos (sub_pos.mpr c1) (sub_pos.mpr h2)
      have := mul_nonneg (sub_pos.mpr c2).le (sub_nonneg.mpr h1)
      linarith
    · by_contra hc
      obtain ⟨c1, c2⟩ := max_lt_iff.mp (not_le.mp hc)
      have := mul_pos (sub_pos.mpr c1) (sub_pos.mpr h2)
      have := mul_nonneg (sub_pos.mpr c2).le (sub_nonneg.mpr h1)
      nlinarith
  · refine ⟨h0, ?_, ?_, (min_le_right _ _).trans h1, h2.le.trans (le_max_left _ _)⟩
    · by_contra hc
      obtain ⟨c1, c2⟩ := lt_min_iff.mp (not_le.mp hc)
      have := mul_nonneg (sub_pos.mpr c1).le (sub_nonneg.mpr h1)
      have := mul_pos (sub_pos.mpr c2) (sub_pos.mpr h2)
      nlinarith
    · by_contra hc
      obtain ⟨c1, c2⟩ := max_lt_iff.mp (not_le.mp hc)
      have := mul_nonneg (sub_pos.mpr c1).le (sub_nonneg.mpr h1)
      have := mul_pos (sub_pos.mpr c2) (sub_pos.mpr h2)
      nlinarith

theorem xor3_rot (x y z : Bool) : xor x (xor y z) = xor y (xor z x) := by cases x <;> cases y <;> cases z <;> rfl

/-- exactly one vertex (`a`) strictly above the ray -/
theorem tri_core_one_above (a b c p : Pt K) (hdet : 0 < orient a b c)
    (ha : p.2 < a.2) (hb : b.2 ≤ p.2) (hc : c.2 ≤ p.2)
    (nab : onSeg a b p = false) (nbc : onSeg b c p = false) (nca : onSeg c a p = false) :
    xor (crosses a b p) (xor (crosses b c p) (crosses c a p)) = true ↔
      (0 < orient a b p ∧ 0 < orient b c p ∧ 0 < orient c a p) := by
  have hbc : crosses b c p = false := by
    rw [crosses_false_iff]; rintro (⟨_, h, _⟩ | ⟨_, h, _⟩) <;> linarith
  have hab : crosses a b p = true ↔ orient a b p < 0 := by
    rw [crosses_iff]
    constructor
    · rintro (⟨h, _, _⟩ | ⟨_, _, h⟩)
      · linarith
      · exact h
    · intro h; exact Or.inr ⟨hb, ha, h⟩
  have hca : crosses c a p = true ↔ 0 < orient c a p := by
    rw [crosses_iff]
    constructor
    · rintro (⟨_, _, h⟩ | ⟨_, h, _⟩)
      · exact h
      · linarith
    · intro h; exact Or.inl ⟨hc, ha, h⟩
  have n1 : orient a b p ≠ 0 := fun h0 => by
    have := straddle_collinear_onSeg a b p h0 (Or.inr ⟨hb, ha⟩); rw [nab] at this; exact Bool.false_ne_true this
  have n2 : orient c a p ≠ 0 := fun h0 => by
    have := straddle_collinear_onSeg c a p h0 (Or.inl ⟨hc, ha⟩); rw [nca] at this; exact Bool.false_ne_true this
  have hY := orient_y_identity a b c p
  have hS := orient_sum a b c p
  have pa := sub_pos.mpr ha
  have pb := sub_nonneg.mpr hb
  have pc := sub_nonneg.mpr hc
  rw [hbc, Bool.false_xor]
  constructor
  · intro hx
    cases e1 : crosses a b p <;> cases e2 : crosses c a p <;> rw [e1, e2] at hx <;>
      simp only [Bool.xor_self, Bool.xor_false, Bool.false_xor, Bool.false_eq_true] at hx
    · -- only c→a crossed: the good case
      have o2 : 0 < orient c a p := hca.mp e2
      have o1 : 0 < orient a b p := by
        have : ¬ orient a b p < 0 := fun h => by rw [hab.mpr h] at e1; exact Bool.noConfusion e1
        exact lt_of_le_of_ne (not_lt.mp this) (Ne.symm n1)
      have t1 := mul_nonneg o1.le pc
      have t2 := mul_nonneg o2.le pb
      have o3 : 0 ≤ orient b c p := by
        by_contra hneg
        have := mul_pos (neg_pos.mpr (not_le.mp hneg)) pa
        nlinarith
      refine ⟨o1, lt_of_le_of_ne o3 ?_, o2⟩
      intro h0
      rw [← h0] at hY
      have z1 : orient a b p * (p.2 - c.2) = 0 := by nlinarith
      have z2 : orient c a p * (p.2 - b.2) = 0 := by nlinarith
      have ec : p.2 - c.2 = 0 := (mul_eq_zero.mp z1).resolve_left o1.ne'
      have eb : p.2 - b.2 = 0 := (mul_eq_zero.mp z2).resolve_left o2.ne'
      have ec' : c.2 = p.2 := by linarith
      have eb' : b.2 = p.2 := by linarith
      have s1 := orient_split a b p
      have s2 := orient_split c a p
      rw [eb', sub_self, mul_zero, zero_add] at s1
      rw [ec', sub_self, mul_zero, add_zero] at s2
      have hb1 : b.1 < p.1 := by
        by_contra hge
        have := mul_nonneg (sub_nonneg.mpr (not_lt.mp hge)) pa.le
        nlinarith
      have hc1 : p.1 < c.1 := by
        by_contra hge
        have := mul_nonneg (sub_nonneg.mpr (not_lt.mp hge)) pa.le
        nlinarith
      have : onSeg b c p = true := by
        rw [onSeg_iff]
        refine ⟨h0.symm, (min_le_left _ _).trans hb1.le, hc1.le.trans (le_max_right _ _), ?_, ?_⟩
        · rw [eb', ec', min_self]
        · rw [eb', ec', max_self]
      rw [nbc] at this; exact Bool.noConfusion this
    · -- only a→b crossed: the signed area would be negative
      exfalso
      have o1 : orient a b p < 0 := hab.mp e1
      have o2 : orient c a p < 0 := by
        have : ¬ 0 < orient c a p := fun h => by rw [hca.mpr h] at e2; exact Bool.noConfusion e2
        exact lt_of_le_of_ne (not_lt.mp this) n2
      have t1 := mul_nonneg (neg_pos.mpr o1).le pc
      have t2 := mul_nonneg (neg_pos.mpr o2).le pb
      have o3 : orient b c p ≤ 0 := by
        by_contra hpos
        have := mul_pos (not_le.mp hpos) pa
        nlinarith
      linarith
  · rintro ⟨o1, _, o2⟩
    have e1 : crosses a b p = false := by
      rw [← Bool.not_eq_true, hab]; exact not_lt.mpr o1.le
    rw [e1, hca.mpr o2]; rfl

/-- exactly one vertex (`a`) not above the ray -/
theorem tri_core_one_below (a b c p : Pt K) (hdet : 0 < orient a b c)
    (ha : a.2 ≤ p.2) (hb : p.2 < b.2) (hc : p.2 < c.2)
    (nab : onSeg a b p = false) (nca : onSeg c a p = false) :
    xor (crosses a b p) (xor (crosses b c p) (crosses c a p)) = true ↔
      (0 < orient a b p ∧ 0 < orient b c p ∧ 0 < orient c a p) := by
  have hbc : crosses b c p = false := by
    rw [crosses_false_iff]; rintro (⟨h, _, _⟩ | ⟨h, _, _⟩) <;> linarith
  have hab : crosses a b p = true ↔ 0 < orient a b p := by
    rw [crosses_iff]
    constructor
    · rintro (⟨_, _, h⟩ | ⟨h, _, _⟩)
      · exact h
      · linarith
    · intro h; exact Or.inl ⟨ha, hb, h⟩
  have hca : crosses c a p = true ↔ orient c a p < 0 := by
    rw [crosses_iff]
    constructor
    · rintro (⟨h, _, _⟩ | ⟨_, _, h⟩)
      · linarith
      · exact h
    · intro h; exact Or.inr ⟨ha, hc, h⟩
  have n1 : orient a b p ≠ 0 := fun h0 => by
    have := straddle_collinear_onSeg a b p h0 (Or.inl ⟨ha, hb⟩); rw [nab] at this; exact Bool.false_ne_true this
  have n2 : orient c a p ≠ 0 := fun h0 => by
    have := straddle_collinear_onSeg c a p h0 (Or.inr ⟨ha, hc⟩); rw [nca] at this; exact Bool.false_ne_true this
  have hY := orient_y_identity a b c p
  have hS := orient_sum a b c p
  have pa := sub_nonneg.mpr ha
  have pb := sub_pos.mpr hb
  have pc := sub_pos.mpr hc
  rw [hbc, Bool.false_xor]
  constructor
  · intro hx
    cases e1 : crosses a b p <;> cases e2 : crosses c a p <;> rw [e1, e2] at hx <;>
      simp only [Bool.xor_self, Bool.xor_false, Bool.false_xor, Bool.false_eq_true] at hx
    · -- only c→a crossed: negative area
      exfalso
      have o2 : orient c a p < 0 := hca.mp e2
      have o1 : orient a b p < 0 := by
        have : ¬ 0 < orient a b p := fun h => by rw [hab.mpr h] at e1; exact Bool.noConfusion e1
        exact lt_of_le_of_ne (not_lt.mp this) n1
      have t1 := mul_pos (neg_pos.mpr o1) pc
      have t2 := mul_pos (neg_pos.mpr o2) pb
      have o3 : orient b c p ≤ 0 := by
        by_contra hpos
        have := mul_nonneg (not_le.mp hpos).le pa
        nlinarith
      linarith
    · -- only a→b crossed: the good case
      have o1 : 0 < orient a b p := hab.mp e1
      have o2 : 0 < orient c a p := by
        have : ¬ orient c a p < 0 := fun h => by rw [hca.mpr h] at e2; exact Bool.noConfusion e2
        exact lt_of_le_of_ne (not_lt.mp this) (Ne.symm n2)
      have t1 := mul_pos o1 pc
      have t2 := mul_pos o2 pb
      refine ⟨o1, ?_, o2⟩
      by_contra hneg
      have := mul_nonneg (neg_nonneg.mpr (not_lt.mp hneg)) pa
      nlinarith
  · rintro ⟨o1, _, o2⟩
    have e2 : crosses c a p = false := by
      rw [← Bool.not_eq_true, hca]; exact not_lt.mpr o2.le
    rw [e2, hab.mpr o1]; rfl

/-- **counter-clockwise triangle: the crossing-number test accepts exactly the points strictly on the inner side of
    all three edges** (the general convex statement `convex_contains_iff` for n = 3) -/
theorem tri_contains_iff (a b c p : Pt K) (hdet : 0 < orient a b c) :
    polyContains ⟨[a, b, c], []⟩ p = true ↔ 0 < orient a b p ∧ 0 < orient b c p ∧ 0 < orient c a p := by
  rw [polyContains_iff]
  simp only [List.not_mem_nil, false_imp_iff, implies_true, and_true, ringLocate_interior_iff]
  have hedges : ringEdges [a, b, c] = [(a, b), (b, c), (c, a)] := rfl
  simp only [onRing, ringOdd, hedges, List.any_cons, List.any_nil, List.map_cons, List.map_nil, xorAll,
    List.foldr_cons, List.foldr_nil, Bool.or_false, Bool.xor_false, Bool.or_eq_false_iff]
  have hY := orient_y_identity a b c p
  constructor
  · rintro ⟨⟨nab, nbc, nca⟩, hx⟩
    rcases lt_or_ge p.2 a.2 with ha | ha <;> rcases lt_or_ge p.2 b.2 with hb | hb <;> rcases lt_or_ge p.2 c.2 with hc | hc
    · -- all above: nothing is crossed
      exfalso
      have e1 : crosses a b p = false := by rw [crosses_false_iff]; rintro (⟨h, _, _⟩ | ⟨h, _, _⟩) <;> linarith
      have e2 : crosses b c p = false := by rw [crosses_false_iff]; rintro (⟨h, _, _⟩ | ⟨h, _, _⟩) <;> linarith
      have e3 : crosses c a p = false := by rw [crosses_false_iff]; rintro (⟨h, _, _⟩ | ⟨h, _, _⟩) <;> linarith
      rw [e1, e2, e3] at hx; exact Bool.noConfusion hx
    · -- c below
      have := (tri_core_one_below c a b p (by rw [orient_cycle, orient_cycle]; exact hdet) hc ha hb nca nbc).mp
        (by rw [xor3_rot]; exact hx)
      exact ⟨this.2.1, this.2.2, this.1⟩
    · -- b below
      have := (tri_core_one_below b c a p (by rw [orient_cycle]; exact hdet) hb hc ha nbc nab).mp
        (by rw [← xor3_rot]; exact hx)
      exact ⟨this.2.2, this.1, this.2.1⟩
    · -- only a above
      exact (tri_core_one_above a b c p hdet ha hb hc nab nbc nca).mp hx
    · -- a below
      exact (tri_core_one_below a b c p hdet ha hb hc nab nca).mp hx
    · -- only b above
      have := (tri_core_one_above b c a p (by rw [orient_cycle]; exact hdet) hb hc ha nbc nca nab).mp
        (by rw [← xor3_rot]; exact hx)
      exact ⟨this.2.2, this.1, this.2.1⟩
    · -- only c above
      have := (tri_core_one_above c a b p (by rw [orient_cycle, orient_cycle]; exact hdet) hc ha hb nca nab nbc).mp
        (by rw [xor3_rot]; exact hx)
      exact ⟨this.2.1, this.2.2, this.1⟩
    · -- none above
      exfalso
      have e1 : crosses a b p = false := by rw [crosses_false_iff]; rintro (⟨_, h, _⟩ | ⟨_, h, _⟩) <;> linarith
      have e2 : crosses b c p = false := by rw [crosses_false_iff]; rintro (⟨_, h, _⟩ | ⟨_, h, _⟩) <;> linarith
      have e3 : crosses c a p = false := by rw [crosses_false_iff]; rintro (⟨_, h, _⟩ | ⟨_, h, _⟩) <;> linarith
      rw [e1, e2, e3] at hx; exact Bool.noConfusion hx
  · rintro ⟨o1, o2, o3⟩
    have nab : onSeg a b p = false := by
      rw [← Bool.not_eq_true, onSeg_iff]; rintro ⟨h, _⟩; linarith
    have nbc : onSeg b c p = false := by
      rw [← Bool.not_eq_true, onSeg_iff]; rintro ⟨h, _⟩; linarith
    have nca : onSeg c a p = false := by
      rw [← Bool.not_eq_true, onSeg_iff]; rintro ⟨h, _⟩; linarith
    refine ⟨⟨nab, nbc, nca⟩, ?_⟩
    rcases lt_or_ge p.2 a.2 with ha | ha <;> rcases lt_or_ge p.2 b.2 with hb | hb <;> rcases lt_or_ge p.2 c.2 with hc | hc
    · exfalso
      have := mul_pos o1 (sub_pos.mpr hc)
      have := mul_pos o2 (sub_pos.mpr ha)
      have := mul_pos o3 (sub_pos.mpr hb)
      linarith
    · rw [xor3_rot, xor3_rot]
      exact (tri_core_one_below c a b p (by rw [orient_cycle, orient_cycle]; exact hdet) hc ha hb nca nbc).mpr ⟨o3, o1, o2⟩
    · rw [xor3_rot]
      exact (tri_core_one_below b c a p (by rw [orient_cycle]; exact hdet) hb hc ha nbc nab).mpr ⟨o2, o3, o1⟩
    · exact (tri_core_one_above a b c p hdet ha hb hc nab nbc nca).mpr ⟨o1, o2, o3⟩
    · exact (tri_core_one_below a b c p hdet ha hb hc nab nca).mpr ⟨o1, o2, o3⟩
    · rw [xor3_rot]
      exact (tri_core_one_above b c a p (by rw [orient_cycle]; exact hdet) hb hc ha nbc nca nab).mpr ⟨o2, o3, o1⟩
    · rw [xor3_rot, xor3_rot]
      exact (tri_core_one_above c a b p (by rw [orient_cycle, orient_cycle]; exact hdet) hc ha hb nca nab nbc).mpr ⟨o3, o1, o2⟩
    · exfalso
      have t1 := mul_nonneg o1.le (sub_nonneg.mpr hc)
      have t2 := mul_nonneg o2.le (sub_nonneg.mpr ha)
      have t3 := mul_nonneg o3.le (sub_nonneg.mpr hb)
      have z1 : orient a b p * (p.2 - c.2) = 0 := by nlinarith
      have z2 : orient b c p * (p.2 - a.2) = 0 := by nlinarith
      have ec : p.2 - c.2 = 0 := (mul_eq_zero.mp z1).resolve_left o1.ne'
      have ea : p.2 - a.2 = 0 := (mul_eq_zero.mp z2).resolve_left o2.ne'
      have z3 : orient c a p * (p.2 - b.2) = 0 := by nlinarith
      have eb : p.2 - b.2 = 0 := (mul_eq_zero.mp z3).resolve_left o3.ne'
      have : orient a b p = 0 := by
        simp only [orient]
        have e1 : p.2 - a.2 = 0 := ea
        have e2 : b.2 - a.2 = 0 := by linarith
        rw [e1, e2]; ring
      linarith

/-! ### the closed triangle and the set `Triangle` denotes (`mem (.tri …)` of Proofs/GeomSpec.lean) -/

theorem orient_x_identity (a b c p : Pt K) :
    orient a b p * (c.1 - p.1) + orient b c p * (a.1 - p.1) + orient c a p * (b.1 - p.1) = 0 := by
  simp only [orient]; ring

theorem between_mul_nonpos (a b x : K) (h1 : min a b ≤ x) (h2 : x ≤ max a b) : (a - x) * (b - x) ≤ 0 := by
  rcases le_total a b with h | h
  · rw [min_eq_left h] at h1; rw [max_eq_right h] at h2
    exact mul_nonpos_of_nonpos_of_nonneg (sub_nonpos.mpr h1) (sub_nonneg.mpr h2)
  · rw [min_eq_right h] at h1; rw [max_eq_left h] at h2
    exact mul_nonpos_of_nonneg_of_nonpos (sub_nonneg.mpr h2) (sub_nonpos.mpr h1)

/-- `s·u + t·v = 0` with `u`, `v` of opposite sign, `s + t > 0` and `s < 0` forces `u = v = 0` -/
theorem neg_weight_collapse (s t u v : K) (huv : u * v ≤ 0) (hst : 0 < s + t) (h : s * u + t * v = 0) (hs : s < 0) :
    u = 0 ∧ v = 0 := by
  have ht : 0 < t := by linarith
  have e1 : s * u ^ 2 = - t * (u * v) := by
    have : s * u = - t * v := by linarith
    calc s * u ^ 2 = (s * u) * u := by ring
      _ = - t * (u * v) := by rw [this]; ring
  have q1 : 0 ≤ - t * (u * v) := by
    have := mul_nonneg ht.le (neg_nonneg.mpr huv); nlinarith
  have z1 : u ^ 2 = 0 := by
    by_contra hne
    have : 0 < u ^ 2 := lt_of_le_of_ne (sq_nonneg _) (Ne.symm hne)
    have := mul_neg_of_neg_of_pos hs this
    linarith
  have hu : u = 0 := by simpa using z1
  rw [hu, mul_zero, zero_add] at h
  exact ⟨hu, (mul_eq_zero.mp h).resolve_left ht.ne'⟩

/-- a point of the edge `a b` of a counter-clockwise triangle is on the inner side of the other two edges -/
theorem onSeg_tri_nonneg (a b c p : Pt K) (hdet : 0 < orient a b c) (h : onSeg a b p = true) :
    0 ≤ orient b c p ∧ 0 ≤ orient c a p := by
  obtain ⟨h0, x1, x2, y1, y2⟩ := (onSeg_iff a b p).mp h
  have hS := orient_sum a b c p
  have hY := orient_y_identity a b c p
  have hX := orient_x_identity a b c p
  rw [h0] at hS hY hX
  have uy := between_mul_nonpos a.2 b.2 p.2 y1 y2
  have ux := between_mul_nonpos a.1 b.1 p.1 x1 x2
  have degenerate : a.2 - p.2 = 0 → b.2 - p.2 = 0 → a.1 - p.1 = 0 → b.1 - p.1 = 0 → False := by
    intro ay by' ax bx
    have : orient a b c = 0 := by
      simp only [orient]
      have e1 : b.1 - a.1 = 0 := by linarith
      have e2 : b.2 - a.2 = 0 := by linarith
      rw [e1, e2]; ring
    linarith
  constructor
  · by_contra hc
    obtain ⟨e1, e2⟩ := neg_weight_collapse (orient b c p) (orient c a p) _ _ uy (by linarith) (by linarith) (not_le.mp hc)
    obtain ⟨e3, e4⟩ := neg_weight_collapse (orient b c p) (orient c a p) _ _ ux (by linarith) (by linarith) (not_le.mp hc)
    exact degenerate e1 e2 e3 e4
  · by_contra hc
    obtain ⟨e1, e2⟩ := neg_weight_collapse (orient c a p) (orient b c p) (b.2 - p.2) (a.2 - p.2)
      (by rw [mul_comm]; exact uy) (by linarith) (by linarith) (not_le.mp hc)
    obtain ⟨e3, e4⟩ := neg_weight_collapse (orient c a p) (orient b c p) (b.1 - p.1) (a.1 - p.1)
      (by rw [mul_comm]; exact ux) (by linarith) (by linarith) (not_le.mp hc)
    exact degenerate e2 e1 e4 e3

/-- a point on the inner side of two edges and collinear with the third lies on that edge -/
theorem tri_zero_onSeg (a b c p : Pt K) (hdet : 0 < orient a b c) (h0 : orient a b p = 0)
    (h1 : 0 ≤ orient b c p) (h2 : 0 ≤ orient c a p) : onSeg a b p = true := by
  have hS := orient_sum a b c p
  have hY := orient_y_identity a b c p
  have hX := orient_x_identity a b c p
  rw [h0] at hS hY hX
  rw [onSeg_iff]
  refine ⟨h0, ?_, ?_, ?_, ?_⟩
  · by_contra hc
    obtain ⟨c1, c2⟩ := lt_min_iff.mp (not_le.mp hc)
    have := mul_nonneg h1 (sub_pos.mpr c1).le
    have := mul_nonneg h2 (sub_pos.mpr c2).le
    rcases (lt_or_eq_of_le h1) with h | h
    · have := mul_pos h (sub_pos.mpr c1); linarith
    · have : 0 < orient c a p := by linarith
      have := mul_pos this (sub_pos.mpr c2); linarith
  · by_contra hc
    obtain ⟨c1, c2⟩ := max_lt_iff.mp (not_le.mp hc)
    have := mul_nonneg h1 (sub_pos.mpr c1).le
    have := mul_nonneg h2 (sub_pos.mpr c2).le
    rcases (lt_or_eq_of_le h1) with h | h
    · have := mul_pos h (sub_pos.mpr c1); nlinarith
    · have : 0 < orient c a p := by linarith
      have := mul_pos this (sub_pos.mpr c2); nlinarith
  · by_contra hc
    obtain ⟨c1, c2⟩ := lt_min_iff.mp (not_le.mp hc)
    have := mul_nonneg h1 (sub_pos.mpr c1).le
    have := mul_nonneg h2 (sub_pos.mpr c2).le
    rcases (lt_or_eq_of_le h1) with h | h
    · have := mul_pos h (sub_pos.mpr c1); linarith
    · have : 0 < orient c a p := by linarith
      have := mul_pos this (sub_pos.mpr c2); linarith
  · by_contra hc
    obtain ⟨c1, c2⟩ := max_lt_iff.mp (not_le.mp hc)
    have := mul_nonneg h1 (sub_pos.mpr c1).le
    have := mul_nonneg h2 (sub_pos.mpr c2).le
    rcases (lt_or_eq_of_le h1) with h | h
    · have := mul_pos h (sub_pos.mpr c1); nlinarith
    · have : 0 < orient c a p := by linarith
      have := mul_pos this (sub_pos.mpr c2); nlinarith

theorem polyLocate_noholes (r : Ring K) (p : Pt K) : polyLocate ⟨r, []⟩ p = ringLocate r p := by
  simp only [polyLocate, holesLocate]
  cases ringLocate r p <;> rfl

/-- **counter-clockwise triangle, closed set: `covers` ⇔ the three half-plane tests hold weakly** -/
theorem tri_covers_iff (a b c p : Pt K) (hdet : 0 < orient a b c) :
    polyCovers ⟨[a, b, c], []⟩ p = true ↔ 0 ≤ orient a b p ∧ 0 ≤ orient b c p ∧ 0 ≤ orient c a p := by
  rw [polyCovers_iff, tri_contains_iff a b c p hdet, polyLocate_noholes, ringLocate_boundary_iff]
  have hedges : ringEdges [a, b, c] = [(a, b), (b, c), (c, a)] := rfl
  simp only [onRing, hedges, List.any_cons, List.any_nil, Bool.or_false, Bool.or_eq_true]
  have d1 : 0 < orient b c a := by rw [orient_cycle]; exact hdet
  have d2 : 0 < orient c a b := by rw [orient_cycle, orient_cycle]; exact hdet
  constructor
  · rintro (⟨o1, o2, o3⟩ | h | h | h)
    · exact ⟨o1.le, o2.le, o3.le⟩
    · obtain ⟨h1, h2⟩ := onSeg_tri_nonneg a b c p hdet h
      exact ⟨((onSeg_iff a b p).mp h).1.ge, h1, h2⟩
    · obtain ⟨h1, h2⟩ := onSeg_tri_nonneg b c a p d1 h
      exact ⟨h2, ((onSeg_iff b c p).mp h).1.ge, h1⟩
    · obtain ⟨h1, h2⟩ := onSeg_tri_nonneg c a b p d2 h
      exact ⟨h1, h2, ((onSeg_iff c a p).mp h).1.ge⟩
  · rintro ⟨o1, o2, o3⟩
    rcases lt_or_eq_of_le o1 with p1 | z1
    · rcases lt_or_eq_of_le o2 with p2 | z2
      · rcases lt_or_eq_of_le o3 with p3 | z3
        · exact Or.inl ⟨p1, p2, p3⟩
        · exact Or.inr (Or.inr (Or.inr (tri_zero_onSeg c a b p d2 z3.symm o1 o2)))
      · exact Or.inr (Or.inr (Or.inl (tri_zero_onSeg b c a p d1 z2.symm o3 o1)))
    · exact Or.inr (Or.inl (tri_zero_onSeg a b c p hdet z1.symm o2 o3))

/-- the closed triangle spanned by `o`, `a`, `b` as the textbook set of convex combinations -/
def InTri (o a b p : Pt K) : Prop :=
  ∃ s t : K, 0 ≤ s ∧ 0 ≤ t ∧ s + t ≤ 1 ∧
    p.1 = o.1 + s * (a.1 - o.1) + t * (b.1 - o.1) ∧ p.2 = o.2 + s * (a.2 - o.2) + t * (b.2 - o.2)

theorem inTri_iff_orient (o a b p : Pt K) (hdet : 0 < orient o a b) :
    InTri o a b p ↔ 0 ≤ orient o a p ∧ 0 ≤ orient a b p ∧ 0 ≤ orient b o p := by
  constructor
  · rintro ⟨s, t, hs, ht, hst, ex, ey⟩
    have e1 : orient o a p = t * orient o a b := by simp only [orient, ex, ey]; ring
    have e2 : orient a b p = (1 - s - t) * orient o a b := by simp only [orient, ex, ey]; ring
    have e3 : orient b o p = s * orient o a b := by simp only [orient, ex, ey]; ring
    rw [e1, e2, e3]
    exact ⟨mul_nonneg ht hdet.le, mul_nonneg (by linarith) hdet.le, mul_nonneg hs hdet.le⟩
  · rintro ⟨h1, h2, h3⟩
    have hS := orient_sum o a b p
    refine ⟨orient b o p / orient o a b, orient o a p / orient o a b, div_nonneg h3 hdet.le, div_nonneg h1 hdet.le, ?_, ?_, ?_⟩
    · rw [← add_div, div_le_one hdet]; linarith
    · field_simp
      simp only [orient]; ring
    · field_simp
      simp only [orient]; ring

theorem inTri_swap (o a b p : Pt K) : InTri o b a p ↔ InTri o a b p := by
  constructor <;> rintro ⟨s, t, hs, ht, hst, ex, ey⟩ <;>
    exact ⟨t, s, ht, hs, by linarith, by linarith, by linarith⟩

/-- **non-degenerate triangle, either orientation: the closed set of the crossing-number test is the set of convex
    combinations of the three corners** -/
theorem tri_covers_iff_inTri (o a b p : Pt K) (hdet : orient o a b ≠ 0) :
    polyCovers ⟨[o, a, b], []⟩ p = true ↔ InTri o a b p := by
  rcases lt_or_gt_of_ne hdet with hneg | hpos
  · -- clockwise: read the ring backwards
    have hrev : polyCovers ⟨[o, a, b], []⟩ p = polyCovers ⟨[o, b, a], []⟩ p := by
      simp only [polyCovers, polyLocate_noholes]
      rw [← ringLocate_revRing [o, b, a] p]
      rfl
    have hpos : 0 < orient o b a := by
      have : orient o b a = - orient o a b := by simp only [orient]; ring
      rw [this]; linarith
    rw [hrev, tri_covers_iff o b a p hpos, ← inTri_swap, inTri_iff_orient o b a p hpos]
  · rw [tri_covers_iff o a b p hpos, inTri_iff_orient o a b p hpos]

/-- **agreement with the shared geometry model: for a non-degenerate `Triangle(o, c1, c2)` the closed polygon
    `[o, c1, c2]` contains exactly the points of the denotation `mem (.tri …)`** — which `contains_iff_mem`
    (Props/C05.lean) proves to be what `Triangle._contains` decides -/
theorem tri_covers_iff_mem (v : String) (o c1 c2 : PFun K) (pts ρ : Env K) (x y ox oy ax ay bx cy : K)
    (hp : pts.get v = some [x, y]) (ho : o.f (pts ++ ρ) = [ox, oy]) (h1 : c1.f (pts ++ ρ) = [ax, ay])
    (h2 : c2.f (pts ++ ρ) = [bx, cy]) (hdet : (ax - ox) * (cy - oy) - (ay - oy) * (bx - ox) ≠ 0) :
    polyCovers ⟨[(ox, oy), (ax, ay), (bx, cy)], []⟩ (x, y) = true ↔ mem (.tri v o c1 c2) pts ρ := by
  have hd : orient (ox, oy) (ax, ay) (bx, cy) ≠ 0 := by simpa only [orient] using hdet
  rw [tri_covers_iff_inTri _ _ _ _ hd]
  simp only [mem, InTri]
  constructor
  · rintro ⟨s, t, hs, ht, hst, ex, ey⟩
    exact ⟨x, y, ox, oy, ax, ay, bx, cy, s, t, hp, ho, h1, h2, hs, ht, hst, ex, ey⟩
  · rintro ⟨x', y', ox', oy', ax', ay', bx', cy', s, t, hp', ho', h1', h2', hs, ht, hst, ex, ey⟩
    rw [hp] at hp'; rw [ho] at ho'; rw [h1] at h1'; rw [h2] at h2'
    simp only [Option.some.injEq, List.cons.injEq, and_true] at hp' ho' h1' h2'
    obtain ⟨rfl, rfl⟩ := hp'; obtain ⟨rfl, rfl⟩ := ho'; obtain ⟨rfl, rfl⟩ := h1'; obtain ⟨rfl, rfl⟩ := h2'
    exact ⟨s, t, hs, ht, hst, ex, ey⟩

/-- **the general convex statement** (a strictly convex counter-clockwise ring of any length): the crossing-number
    test accepts exactly the points strictly on the inner side of every edge.  Proved for triangles
    (`convex_contains_iff_partial`); the general case is NOT proved. -/
def StrictConvexCCW (r : Ring K) : Prop :=
  r.Nodup ∧ ∀ e ∈ ringEdges r, ∀ q ∈ r, q ≠ e.1 → q ≠ e.2 → 0 < orient e.1 e.2 q

def convex_contains_iff (K : Type) [Field K] [LinearOrder K] [IsStrictOrderedRing K] : Prop :=
  ∀ (r : Ring K) (p : Pt K), 3 ≤ r.length → StrictConvexCCW r →
    (polyContains ⟨r, []⟩ p = true ↔ ∀ e ∈ ringEdges r, 0 < orient e.1 e.2 p)

/-- the proved part of `convex_contains_iff`: rings with three vertices -/
theorem convex_contains_iff_partial (r : Ring K) (p : Pt K) (h3 : r.length = 3) (hc : StrictConvexCCW r) :
    polyContains ⟨r, []⟩ p = true ↔ ∀ e ∈ ringEdges r, 0 < orient e.1 e.2 p := by
  match r, h3 with
  | [a, b, c], _ =>
    obtain ⟨hnd, hconv⟩ := hc
    have hedges : ringEdges [a, b, c] = [(a, b), (b, c), (c, a)] := rfl
    simp only [List.nodup_cons, List.mem_cons, List.not_mem_nil, or_false, not_or, List.nodup_nil, and_true] at hnd
    have hdet : 0 < orient a b c :=
      hconv (a, b) (by rw [hedges]; simp) c (by simp) (fun h => hnd.1.2 h.symm) (fun h => hnd.2.1 h.symm)
    rw [tri_contains_iff a b c p hdet, hedges]
    simp only [List.mem_cons, List.not_mem_nil, or_false, forall_eq_or_imp, forall_eq]

/-! ## 7. the boundary's membership test (distance to the nearest edge ≤ tol) -/

theorem clampUnit_mem (x : K) : 0 ≤ clampUnit x ∧ clampUnit x ≤ 1 := by
  unfold clampUnit
  split
  · exact ⟨le_refl _, zero_le_one⟩
  · split
    · exact ⟨zero_le_one, le_refl _⟩
    · rename_i h1 h2
      simp only [le_iff, not_le] at h1 h2
      exact ⟨h1.le, h2.le⟩

theorem clampUnit_of_mem (x : K) (h0 : 0 ≤ x) (h1 : x ≤ 1) : clampUnit x = x := by
  unfold clampUnit
  split
  · rename_i h; simp only [le_iff] at h; exact le_antisymm h0 h
  · split
    · rename_i h; simp only [le_iff] at h; exact le_antisymm h h1
    · rfl

theorem dist2_nonneg (a b : Pt K) : 0 ≤ dist2 a b := by
  simp only [dist2]; nlinarith [mul_self_nonneg (a.1 - b.1), mul_self_nonneg (a.2 - b.2)]

theorem dist2_zero_iff (a b : Pt K) : dist2 a b ≤ 0 ↔ a = b := by
  constructor
  · intro h
    have h1 := mul_self_nonneg (a.1 - b.1)
    have h2 := mul_self_nonneg (a.2 - b.2)
    simp only [dist2] at h
    have e1 : (a.1 - b.1) * (a.1 - b.1) = 0 := by linarith
    have e2 : (a.2 - b.2) * (a.2 - b.2) = 0 := by linarith
    exact Prod.ext (sub_eq_zero.mp (mul_self_eq_zero.mp e1)) (sub_eq_zero.mp (mul_self_eq_zero.mp e2))
  · rintro rfl; simp [dist2]

theorem between_mul_nonneg (a b x : K) (h1 : min a b ≤ x) (h2 : x ≤ max a b) :
    0 ≤ (x - a) * (b - a) ∧ 0 ≤ (b - x) * (b - a) := by
  rcases le_total a b with h | h
  · rw [min_eq_left h] at h1; rw [max_eq_right h] at h2
    exact ⟨mul_nonneg (sub_nonneg.mpr h1) (sub_nonneg.mpr h), mul_nonneg (sub_nonneg.mpr h2) (sub_nonneg.mpr h)⟩
  · rw [min_eq_right h] at h1; rw [max_eq_left h] at h2
    exact ⟨mul_nonneg_of_nonpos_of_nonpos (sub_nonpos.mpr h2) (sub_nonpos.mpr h),
      mul_nonneg_of_nonpos_of_nonpos (sub_nonpos.mpr h1) (sub_nonpos.mpr h)⟩

/-- a point of a non-degenerate segment is `a + τ (b − a)` with `τ = ⟨q − a, b − a⟩ / |b − a|² ∈ [0, 1]` -/
theorem onSeg_param (a b q : Pt K) (hl : 0 < dist2 a b) (h : onSeg a b q = true) :
    0 ≤ dotSeg a b q / dist2 a b ∧ dotSeg a b q / dist2 a b ≤ 1 ∧
    q.1 = a.1 + dotSeg a b q / dist2 a b * (b.1 - a.1) ∧ q.2 = a.2 + dotSeg a b q / dist2 a b * (b.2 - a.2) := by
  obtain ⟨h0, x1, x2, y1, y2⟩ := (onSeg_iff a b q).mp h
  obtain ⟨nx, mx⟩ := between_mul_nonneg a.1 b.1 q.1 x1 x2
  obtain ⟨ny, my⟩ := between_mul_nonneg a.2 b.2 q.2 y1 y2
  have hτ : dotSeg a b q / dist2 a b * dist2 a b = dotSeg a b q := div_mul_cancel₀ _ hl.ne'
  simp only [orient] at h0
  refine ⟨div_nonneg (by simp only [dotSeg]; linarith) hl.le, ?_, ?_, ?_⟩
  · rw [div_le_one hl]; simp only [dotSeg, dist2]; nlinarith
  · have : (q.1 - a.1 - dotSeg a b q / dist2 a b * (b.1 - a.1)) * dist2 a b = 0 := by
      have e : (q.1 - a.1 - dotSeg a b q / dist2 a b * (b.1 - a.1)) * dist2 a b =
          (q.1 - a.1) * dist2 a b - (dotSeg a b q / dist2 a b * dist2 a b) * (b.1 - a.1) := by ring
      rw [e, hτ]; simp only [dotSeg, dist2]; linear_combination (-(b.2 - a.2)) * h0
    have := (mul_eq_zero.mp this).resolve_right hl.ne'
    linarith
  · have : (q.2 - a.2 - dotSeg a b q / dist2 a b * (b.2 - a.2)) * dist2 a b = 0 := by
      have e : (q.2 - a.2 - dotSeg a b q / dist2 a b * (b.2 - a.2)) * dist2 a b =
          (q.2 - a.2) * dist2 a b - (dotSeg a b q / dist2 a b * dist2 a b) * (b.2 - a.2) := by ring
      rw [e, hτ]; simp only [dotSeg, dist2]; linear_combination (b.1 - a.1) * h0
    have := (mul_eq_zero.mp this).resolve_right hl.ne'
    linarith

/-- the nearest point computed by the model lies on the segment -/
theorem segNearest_onSeg (a b p : Pt K) : onSeg a b (segNearest a b p) = true := by
  unfold segNearest
  split
  · rw [onSeg_iff]; exact ⟨by simp only [orient]; ring, min_le_left _ _, le_max_left _ _, min_le_left _ _, le_max_left _ _⟩
  · obtain ⟨t0, t1⟩ := clampUnit_mem (dotSeg a b p / dist2 a b)
    generalize clampUnit (dotSeg a b p / dist2 a b) = t at t0 t1
    rw [onSeg_iff]
    refine ⟨by simp only [orient]; ring, ?_, ?_, ?_, ?_⟩
    · rcases le_total a.1 b.1 with h | h
      · rw [min_eq_left h]; nlinarith [mul_nonneg t0 (sub_nonneg.mpr h)]
      · rw [min_eq_right h]; nlinarith [mul_nonneg (sub_nonneg.mpr t1) (sub_nonneg.mpr h)]
    · rcases le_total a.1 b.1 with h | h
      · rw [max_eq_right h]; nlinarith [mul_nonneg (sub_nonneg.mpr t1) (sub_nonneg.mpr h)]
      · rw [max_eq_left h]; nlinarith [mul_nonneg t0 (sub_nonneg.mpr h)]
    · rcases le_total a.2 b.2 with h | h
      · rw [min_eq_left h]; nlinarith [mul_nonneg t0 (sub_nonneg.mpr h)]
      · rw [min_eq_right h]; nlinarith [mul_nonneg (sub_nonneg.mpr t1) (sub_nonneg.mpr h)]
    · rcases le_total a.2 b.2 with h | h
      · rw [max_eq_right h]; nlinarith [mul_nonneg (sub_nonneg.mpr t1) (sub_nonneg.mpr h)]
      · rw [max_eq_left h]; nlinarith [mul_nonneg t0 (sub_nonneg.mpr h)]

/-- a point of the segment has distance zero from it -/
theorem segDist2_onSeg (a b p : Pt K) (h : onSeg a b p = true) : segDist2 a b p = 0 := by
  unfold segDist2 segNearest
  split
  · rename_i hl
    simp only [le_iff] at hl
    have hab := (dist2_zero_iff a b).mp hl
    subst hab
    obtain ⟨_, x1, x2, y1, y2⟩ := (onSeg_iff a a p).mp h
    simp only [min_self, max_self] at x1 x2 y1 y2
    have e1 : p.1 = a.1 := le_antisymm x2 x1
    have e2 : p.2 = a.2 := le_antisymm y2 y1
    simp only [dist2, e1, e2]; ring
  · rename_i hl
    simp only [le_iff, not_le] at hl
    obtain ⟨t0, t1, ex, ey⟩ := onSeg_param a b p hl h
    rw [clampUnit_of_mem _ t0 t1]
    generalize dotSeg a b p / dist2 a b = τ at ex ey ⊢
    simp only [dist2]
    rw [← ex, ← ey]; ring

theorem polyBdryContains_iff (tol : K) (P : Polygon K) (p : Pt K) : polyBdryContains tol P p = true ↔
    0 ≤ tol ∧ ∃ e ∈ polyEdges P, segDist2 e.1 e.2 p ≤ tol * tol := by
  simp only [polyBdryContains, Bool.and_eq_true, le_iff, List.any_eq_true]

/-- **every point that lies exactly on an edge (of the exterior or of a hole) is accepted by the boundary's
    membership test, whatever the (non-negative) tolerance** -/
theorem bdry_accepts_edge_points (tol : K) (h0 : 0 ≤ tol) (P : Polygon K) (p : Pt K) (h : onPolyBdry P p = true) :
    polyBdryContains tol P p = true := by
  rw [polyBdryContains_iff]
  simp only [onPolyBdry, List.any_eq_true] at h
  obtain ⟨e, he, hp⟩ := h
  exact ⟨h0, e, he, by rw [segDist2_onSeg _ _ _ hp]; exact mul_nonneg h0 h0⟩

/-- **every accepted point is within `tol` of a point that lies exactly on an edge**: far points are rejected -/
theorem bdry_accepted_is_near (tol : K) (P : Polygon K) (p : Pt K) (h : polyBdryContains tol P p = true) :
    ∃ q, onPolyBdry P q = true ∧ dist2 p q ≤ tol * tol := by
  rw [polyBdryContains_iff] at h
  obtain ⟨_, e, he, hd⟩ := h
  refine ⟨segNearest e.1 e.2 p, ?_, hd⟩
  simp only [onPolyBdry, List.any_eq_true]
  exact ⟨e, he, segNearest_onSeg _ _ _⟩

/-- the model's nearest point is the nearest: no point of the segment is closer to `p` -/
theorem segDist2_le (a b p q : Pt K) (h : onSeg a b q = true) : segDist2 a b p ≤ dist2 p q := by
  unfold segDist2 segNearest
  split
  · rename_i hl
    simp only [le_iff] at hl
    have hab := (dist2_zero_iff a b).mp hl
    subst hab
    obtain ⟨_, x1, x2, y1, y2⟩ := (onSeg_iff a a q).mp h
    simp only [min_self, max_self] at x1 x2 y1 y2
    have e1 : q.1 = a.1 := le_antisymm x2 x1
    have e2 : q.2 = a.2 := le_antisymm y2 y1
    simp only [dist2, e1, e2]; exact le_refl _
  · rename_i hl
    simp only [le_iff, not_le] at hl
    obtain ⟨s0, s1, ex, ey⟩ := onSeg_param a b q hl h
    generalize dotSeg a b q / dist2 a b = s at s0 s1 ex ey
    have hτ : dotSeg a b p / dist2 a b * dist2 a b = dotSeg a b p := div_mul_cancel₀ _ hl.ne'
    -- f(s) − f(t) = |b−a|² (s − t)(s + t − 2 t₀)
    have key : ∀ t : K, dist2 p q - dist2 p (a.1 + t * (b.1 - a.1), a.2 + t * (b.2 - a.2)) =
        dist2 a b * ((s - t) * (s + t - 2 * (dotSeg a b p / dist2 a b))) := by
      intro t
      have : dist2 a b * ((s - t) * (s + t - 2 * (dotSeg a b p / dist2 a b))) =
          dist2 a b * ((s - t) * (s + t)) - 2 * (s - t) * (dotSeg a b p / dist2 a b * dist2 a b) := by ring
      rw [this, hτ]
      simp only [dist2, dotSeg, ex, ey]; ring
    unfold clampUnit
    split
    · rename_i c0
      simp only [le_iff] at c0
      have := key 0
      have h2 : 0 ≤ (s - 0) * (s + 0 - 2 * (dotSeg a b p / dist2 a b)) := mul_nonneg (by linarith) (by linarith)
      have := mul_nonneg hl.le h2
      linarith
    · split
      · rename_i c0 c1
        simp only [le_iff] at c1
        have := key 1
        have h2 : 0 ≤ (s - 1) * (s + 1 - 2 * (dotSeg a b p / dist2 a b)) :=
          mul_nonneg_of_nonpos_of_nonpos (by linarith) (by linarith)
        have := mul_nonneg hl.le h2
        linarith
      · have := key (dotSeg a b p / dist2 a b)
        have h2 : 0 ≤ (s - dotSeg a b p / dist2 a b) * (s + dotSeg a b p / dist2 a b - 2 * (dotSeg a b p / dist2 a b)) := by
          have e : (s - dotSeg a b p / dist2 a b) * (s + dotSeg a b p / dist2 a b - 2 * (dotSeg a b p / dist2 a b)) =
            (s - dotSeg a b p / dist2 a b) * (s - dotSeg a b p / dist2 a b) := by ring
          rw [e]; exact mul_self_nonneg _
        have := mul_nonneg hl.le h2
        linarith

/-- **the boundary test is exactly "within `tol` of the set of edge points"**: accepted ⇔ some point lying exactly on
    an edge is at (squared) distance ≤ tol² -/
theorem polyBdryContains_iff_near (tol : K) (h0 : 0 ≤ tol) (P : Polygon K) (p : Pt K) :
    polyBdryContains tol P p = true ↔ ∃ q, onPolyBdry P q = true ∧ dist2 p q ≤ tol * tol := by
  constructor
  · exact bdry_accepted_is_near tol P p
  · rintro ⟨q, hq, hd⟩
    rw [polyBdryContains_iff]
    simp only [onPolyBdry, List.any_eq_true] at hq
    obtain ⟨e, he, hp⟩ := hq
    exact ⟨h0, e, he, (segDist2_le e.1 e.2 p q hp).trans hd⟩

/-! ## 8. boundary length -/

/-- **`boundary.volume()` of a triangle is the closed form `triBdryVol` of `TriangleBoundary._get_volume`** -/
theorem polyBdryLen_triangle [Transc K] (ox oy ax ay bx cy : K) :
    polyBdryLen Transc.sqrt ⟨[(ox, oy), (ax, ay), (bx, cy)], []⟩ = triBdryVol ox oy ax ay bx cy := by
  simp only [polyBdryLen, polyEdges, ringEdges, rot1, List.cons_append, List.nil_append, List.zip_cons_cons,
    List.zip_nil_right, List.map_nil, List.flatten_nil, List.append_nil, List.map_cons, sumK, List.foldr_cons,
    List.foldr_nil, dist2, triBdryVol, norm2, add_zero]
  ring

/-- … and of a parallelogram `parBdryVol` -/
theorem polyBdryLen_parallelogram [Transc K] (ox oy ax ay bx cy : K) :
    polyBdryLen Transc.sqrt ⟨[(ox, oy), (ax, ay), (ax + bx - ox, ay + cy - oy), (bx, cy)], []⟩ =
      parBdryVol ox oy ax ay bx cy := by
  simp only [polyBdryLen, polyEdges, ringEdges, rot1, List.cons_append, List.nil_append, List.zip_cons_cons,
    List.zip_nil_right, List.map_nil, List.flatten_nil, List.append_nil, List.map_cons, sumK, List.foldr_cons,
    List.foldr_nil, dist2, parBdryVol, norm2, add_zero]
  have e1 : (ax + bx - ox - ax) * (ax + bx - ox - ax) + (ay + cy - oy - ay) * (ay + cy - oy - ay) =
      (bx - ox) * (bx - ox) + (cy - oy) * (cy - oy) := by ring
  have e2 : (bx - (ax + bx - ox)) * (bx - (ax + bx - ox)) + (cy - (ay + cy - oy)) * (cy - (ay + cy - oy)) =
      (ax - ox) * (ax - ox) + (ay - oy) * (ay - oy) := by ring
  have e3 : (ox - bx) * (ox - bx) + (oy - cy) * (oy - cy) = (bx - ox) * (bx - ox) + (cy - oy) * (cy - oy) := by ring
  rw [e1, e2, e3]
  ring

/-! ## 9. non-vacuity: the theorems above on concrete rational polygons -/

/-- an L-shape (non-convex), counter-clockwise -/
def Lsh : Polygon ℚ := ⟨[(0, 0), (2, 0), (2, 1), (1, 1), (1, 2), (0, 2)], []⟩
/-- a square with a square hole; exterior clockwise and hole counter-clockwise, i.e. both "wrong" for `orient` -/
def SqH : Polygon ℚ := ⟨[(0, 0), (0, 4), (4, 4), (4, 0)], [[(1, 1), (2, 1), (2, 2), (1, 2)]]⟩
/-- a right triangle, counter-clockwise -/
def Tri : Polygon ℚ := ⟨[(0, 0), (4, 0), (0, 3)], []⟩

-- area: start vertex, direction, translation (shoelace2_rotate / _reverse / _translate), closed forms, orientation
example : shoelace2 Lsh.outer = 6 ∧ shoelace2 (Lsh.outer.rotate 2) = 6 ∧ shoelace2 Lsh.outer.reverse = -6 ∧
    shoelace2 (Lsh.outer.map (shift (3, -5/2))) = 6 := by decide +kernel
example : polyArea Lsh = 3 ∧ polyArea SqH = 15 ∧ polyArea Tri = 6 ∧ polyArea ⟨Tri.outer.reverse, []⟩ = 6 := by decide +kernel
example : (polyOrient SqH).outer = [(0, 0), (4, 0), (4, 4), (0, 4)] ∧ (polyOrient SqH).holes = [[(1, 1), (1, 2), (2, 2), (2, 1)]] ∧
    polyArea (polyOrient SqH) = 15 ∧ shoelace2 (polyOrient SqH).outer = 32 := by decide +kernel
example : polyArea ⟨[((1:ℚ), 1), (3, 1), (3, 4), (1, 4)], []⟩ = (3 - 1) * (4 - 1) := by decide +kernel
-- bounding box: vertices, convex combinations, accepted points; a point of the box that is not in the polygon
example : polyBBox Lsh = some (0, 2, 0, 2) ∧ polyContains Lsh (1/2, 3/2) = true ∧ inBox (0, 2, 0, 2) ((1/2 : ℚ), 3/2) = true ∧
    polyContains Lsh (3/2, 3/2) = false ∧ inBox (0, 2, 0, 2) ((3/2 : ℚ), 3/2) = true := by decide +kernel
example : inBox (0, 2, 0, 2) (([((1/4 : ℚ), ((2 : ℚ), (1 : ℚ))), (3/4, (0, 2))].map fun x => x.1 * x.2.1).sum,
    ([((1/4 : ℚ), ((2 : ℚ), (1 : ℚ))), (3/4, (0, 2))].map fun x => x.1 * x.2.2).sum) = true := by decide +kernel
-- membership: holes, edges, orientation independence
example : polyContains SqH (3, 3) = true ∧ polyContains SqH (3/2, 3/2) = false ∧ polyContains SqH (1, 3/2) = false ∧
    onPolyBdry SqH (1, 3/2) = true ∧ polyCovers SqH (1, 3/2) = true ∧ polyContains SqH (5, 1) = false ∧
    polyContains (polyOrient SqH) (3, 3) = true := by decide +kernel
example : ringLocate Lsh.outer (1/2, 3/2) = .interior ∧ ringLocate Lsh.outer.reverse (1/2, 3/2) = .interior ∧
    ringLocate (Lsh.outer.rotate 3) (1/2, 3/2) = .interior ∧ ringLocate Lsh.outer (1, 3/2) = .boundary := by decide +kernel
-- rectangle = interval test
example : polyContains ⟨[((1:ℚ), 1), (3, 1), (3, 4), (1, 4)], []⟩ (2, 2) = true ∧
    polyContains ⟨[((1:ℚ), 1), (3, 1), (3, 4), (1, 4)], []⟩ (3, 2) = false ∧
    polyContains ⟨[((1:ℚ), 1), (3, 1), (3, 4), (1, 4)], []⟩ (2, 5) = false := by decide +kernel
-- triangle: hypotheses of tri_contains_iff / tri_covers_iff_mem / convex_contains_iff_partial are satisfiable
example : 0 < orient ((0:ℚ), 0) (4, 0) (0, 3) ∧ polyContains Tri (1, 1) = true ∧
    0 < orient ((0:ℚ), 0) (4, 0) (1, 1) ∧ 0 < orient ((4:ℚ), 0) (0, 3) (1, 1) ∧ 0 < orient ((0:ℚ), 3) (0, 0) (1, 1) ∧
    polyContains Tri (2, 3/2) = false ∧ polyCovers Tri (2, 3/2) = true ∧ polyCovers Tri (3, 3) = false := by decide +kernel
example : polyCovers Tri (2, 3/2) = true ↔
    mem (.tri "x" (PFun.const [0, 0]) (PFun.const [4, 0]) (PFun.const [0, 3])) [("x", [(2:ℚ), 3/2])] [] :=
  tri_covers_iff_mem "x" _ _ _ _ _ 2 (3/2) 0 0 4 0 0 3 rfl rfl rfl rfl (by norm_num)
example : StrictConvexCCW Tri.outer := by
  refine ⟨by decide +kernel, ?_⟩
  decide +kernel
-- the boundary test: exact edge points, a near point, far points
example : polyBdryContains (1/1000000) SqH (1, 3/2) = true ∧ polyBdryContains (1/1000000) SqH (4, 1) = true ∧
    polyBdryContains (1/1000000) SqH (1 + 1/2000000, 3/2) = true ∧ onPolyBdry SqH (1 + 1/2000000, 3/2) = false ∧
    polyBdryContains (1/1000000) SqH (3, 3) = false ∧ polyBdryContains (1/1000000) SqH (1 + 1/500000, 3/2) = false ∧
    bdryDist2 SqH (3, 3) = some 1 ∧ polyMargin SqH (1, 3/2) = some 0 := by decide +kernel

end TPV.Poly
