/-
  C02 — the pairing theorem at full strength, and why the unrestricted statement is false.
-/
import TPV.Props.C02Pairing
import TPV.Props.C02Append
set_option linter.unusedVariables false

namespace TPV.Sampler

/-- **pairing theorem for every sampler expression of the model**: every leaf kind on every domain node (primitive,
    Boolean, product incl. dependent, translate/rotate), data samplers, products (every partner row gets a sample of the
    first factor made FOR THAT ROW), sums, static samplers and appends whose operands are sum-free — every point of every
    returned row was made for (a part of) the row it is joined with, for every filter verdict, Boolean-node choice and
    round budget.  Hypotheses: the parameter rows are paired and uniform (`Batch`: same variables, no own cells — e.g.
    external rows `ext i vs` over one `vs`, or the rows another sampler returned), the variables of the samplers are
    distinct from the parameter variables and Boolean operands share their variables (`S.wf`, what the code asserts). -/
theorem rows_paired (o : Oracle) (s : S) (ps rows : List Row) (hB : Batch ps) (hps : ∀ ρ ∈ ps, ρ.paired = true)
    (hw : s.wf (paramVars ps) = true) (hp : s.pos) (hs : s.appendsSumFree = true) (h : s.sample o ps = .ok rows) :
    ∀ r ∈ rows, r.paired = true :=
  pairing_of_leaves o (fun k d n f ps rows _ hps _ hn h => leafSample_paired o k d n f ps rows hn hps h)
    s ps rows hB hps hw hp hs h

/-- the unrestricted statement `C02_full_pairing` (no hypothesis on appends) is FALSE of the model — and of the code
    (replayed: `(a1 + a2).append(b1 + b2)` with splits 1,2 / 2,1 and two parameter rows; known finding
    `append_of_sums_layout`): a sum lists its rows operand by operand, so two sums with different splits are not
    ordered by parameter row in the same way and the column stack joins points made for another row -/
theorem C02_full_pairing_false : ¬ C02_full_pairing := by
  intro hfull
  obtain ⟨_, _, hpos, _, _, rows, hs, _, r, hr, hnp⟩ := append_of_sums_not_paired
  have := hfull o0 (S.append aSum bSum) pEx rows hpos (by decide +kernel) hs r hr
  simp [this] at hnp

/-- call histories: a static sampler around any such expression hands out paired rows in every call -/
theorem static_rows_paired (o : Oracle) (s : S) (interval : Option Nat) (pss : List (List Row)) (freshs : List (List Row))
    (hf : ∀ f ∈ freshs, ∃ ps, Batch ps ∧ (∀ ρ ∈ ps, ρ.paired = true) ∧ s.wf (paramVars ps) = true ∧ s.sample o ps = .ok f)
    (hp : s.pos) (hs : s.appendsSumFree = true) :
    ∀ out ∈ staticRun interval (0, none) freshs, ∀ r ∈ out, r.paired = true := by
  apply static_history_paired
  intro f hfm
  obtain ⟨ps, hB, hps, hw, hsm⟩ := hf f hfm
  exact rows_paired o s ps f hB hps hw hp hs hsm

/-- non-vacuity of `rows_paired`: Translate of a dependent ProductDomain with a filter, appended to an LHS sample, in a
    product with a sum of a grid and a data sampler; two parameter rows -/
def sFull : S :=
  .prod (.append (.leaf .uniform (.move (.prod (.prim "x" 1 ["w", "t", "s"]) (.prim "w" 4 [])) 7 ["t"]) 2 true)
                 (.leaf .lhs (.bool (.prim "y" 3 ["t"]) (.prim "y" 3 ["t"])) 2 false))
        (.sum (.leaf .grid (.prim "s" 2 []) 1 false) (.data "s" 5 2))

example : ∃ rows, sFull.sample o0 [.ext 0 ["t"], .ext 1 ["t"]] = .ok rows ∧ rows.length = 12 ∧ ∀ r ∈ rows, r.paired = true := by
  have hl : (sFull.sample o0 [.ext 0 ["t"], .ext 1 ["t"]]).toOption.map List.length = some 12 := by decide +kernel
  cases hsm : sFull.sample o0 [.ext 0 ["t"], .ext 1 ["t"]] with
  | error e => simp [hsm, Except.toOption] at hl
  | ok rows =>
    exact ⟨rows, rfl, by simpa [hsm, Except.toOption] using hl,
      rows_paired o0 sFull _ rows (by decide +kernel) (by decide +kernel) (by decide +kernel)
        (by simp [S.pos, sFull]) (by decide +kernel) hsm⟩

end TPV.Sampler
