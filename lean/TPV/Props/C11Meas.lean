/-
  C11 — sampling laws of the primitive parametrisations (model: TPV/Model/GeomSample.lean) over ℝ,
  with Lebesgue measure for the uniform draws, plus the generic facts about rejection sampling,
  transport by measure-scaling maps and independent products.
-/
import TPV.Model.GeomSample
import Mathlib.MeasureTheory.Measure.Lebesgue.Basic
import Mathlib.MeasureTheory.Measure.Prod
import Mathlib.MeasureTheory.Group.Measure
import Mathlib.MeasureTheory.Measure.WithDensity
import Mathlib.MeasureTheory.Function.Jacobian
import Mathlib.MeasureTheory.Measure.Lebesgue.VolumeOfBalls
import Mathlib.MeasureTheory.Measure.Lebesgue.Complex
import Mathlib.Analysis.SpecialFunctions.Trigonometric.Angle
import Mathlib.MeasureTheory.Measure.Haar.InnerProductSpace
import Mathlib.MeasureTheory.Constructions.Pi
import Mathlib.MeasureTheory.Function.SpecialFunctions.Basic
import Mathlib.Analysis.SpecialFunctions.Sqrt
import Mathlib.Analysis.SpecialFunctions.Pow.Real
import Mathlib.Analysis.SpecialFunctions.Trigonometric.Inverse
import Mathlib.Analysis.SpecificLimits.Basic
import Mathlib.Probability.ConditionalProbability

namespace TPV.Geom
open MeasureTheory Set Real

/-- the real instance of the transcendental operations used by the sampling model -/
noncomputable instance instTranscRealC11 : Transc ℝ :=
  ⟨Real.sqrt, Real.cos, Real.sin, Real.arccos, fun x => x ^ ((1 : ℝ) / 3), Real.pi⟩

/-- the model's scalar `two` is the real number 2 -/
@[simp] theorem two_eq_real : (two : ℝ) = 2 := by
  unfold two; norm_num

/-! ### 1. interval -/

/-- Push-forward of the uniform draw on `[0,1]` under `Interval.sample_random_uniform` is the
    normalised Lebesgue measure on `[l,u]`: the interval sampler is exactly uniform. -/
theorem interval_law (l u : ℝ) (h : l < u) :
    Measure.map (intervalSample l u) (volume.restrict (Icc 0 1)) =
      (ENNReal.ofReal (u - l))⁻¹ • volume.restrict (Icc l u) := by
  have hpos : 0 < u - l := sub_pos.2 h
  have hf : Measurable (intervalSample l u) := by
    unfold intervalSample; fun_prop
  ext s hs
  rw [Measure.map_apply hf hs, Measure.restrict_apply (hf hs), Measure.smul_apply,
    Measure.restrict_apply hs]
  have hset : intervalSample l u ⁻¹' s ∩ Icc 0 1 =
      (· * (u - l)) ⁻¹' ((· + l) ⁻¹' (s ∩ Icc l u)) := by
    ext t
    simp only [mem_inter_iff, mem_preimage, mem_Icc, intervalSample]
    constructor
    · rintro ⟨hs, h0, h1⟩
      exact ⟨hs, by nlinarith, by nlinarith⟩
    · rintro ⟨hs, h0, h1⟩
      refine ⟨hs, ?_, ?_⟩
      · by_contra hc; rw [not_le] at hc; nlinarith
      · by_contra hc; rw [not_le] at hc; nlinarith
  rw [hset, Real.volume_preimage_mul_right hpos.ne', measure_preimage_add_right,
    abs_of_pos (inv_pos.2 hpos), ENNReal.ofReal_inv_of_pos hpos, smul_eq_mul]

example : Measure.map (intervalSample (1:ℝ) 3) (volume.restrict (Icc 0 1)) =
    (ENNReal.ofReal (3 - 1))⁻¹ • volume.restrict (Icc 1 3) := interval_law 1 3 (by norm_num)

/-- The probability that the interval sample falls into a cell `[a,b] ⊆ [l,u]` is the length share
    `(b − a)/(u − l)`. -/
theorem interval_cell_law (l u a b : ℝ) (h : l < u) (hla : l ≤ a) (_hab : a ≤ b) (hbu : b ≤ u) :
    volume {t | t ∈ Icc (0:ℝ) 1 ∧ intervalSample l u t ∈ Icc a b} =
      ENNReal.ofReal ((b - a) / (u - l)) := by
  have hpos : 0 < u - l := sub_pos.2 h
  have hf : Measurable (intervalSample l u) := by
    unfold intervalSample; fun_prop
  have hset : {t | t ∈ Icc (0:ℝ) 1 ∧ intervalSample l u t ∈ Icc a b} =
      intervalSample l u ⁻¹' (Icc a b) ∩ Icc 0 1 := by
    ext t; simp only [mem_ofPred_eq, mem_inter_iff, mem_preimage]; tauto
  have := congrArg (fun μ => μ (Icc a b)) (interval_law l u h)
  rw [Measure.map_apply hf measurableSet_Icc, Measure.restrict_apply (hf measurableSet_Icc),
    Measure.smul_apply, Measure.restrict_apply measurableSet_Icc] at this
  rw [hset, this, Icc_inter_Icc, sup_of_le_left hla, inf_of_le_left hbu, Real.volume_Icc,
    smul_eq_mul, ← ENNReal.ofReal_inv_of_pos hpos, ← ENNReal.ofReal_mul (inv_pos.2 hpos).le]
  congr 1; field_simp

example : volume {t | t ∈ Icc (0:ℝ) 1 ∧ intervalSample (1:ℝ) 3 t ∈ Icc (3/2) 2} =
    ENNReal.ofReal ((2 - 3/2) / (3 - 1)) :=
  interval_cell_law 1 3 (3/2) 2 (by norm_num) (by norm_num) (by norm_num) (by norm_num)

/-! ### 2. interval boundary -/

/-- `IntervalBoundary.sample_random_uniform` returns the left end with probability ½ and the right
    end with probability ½. -/
theorem intervalBdry_law (l u : ℝ) (h : l ≠ u) :
    volume {t | t ∈ Icc (0:ℝ) 1 ∧ intervalBdrySample l u t = l} = ENNReal.ofReal (1 / 2) ∧
    volume {t | t ∈ Icc (0:ℝ) 1 ∧ intervalBdrySample l u t = u} = ENNReal.ofReal (1 / 2) := by
  have e1 : {t | t ∈ Icc (0:ℝ) 1 ∧ intervalBdrySample l u t = l} = Ico 0 (1 / 2) := by
    ext t
    simp only [mem_ofPred_eq, mem_Icc, mem_Ico, intervalBdrySample, le, two_eq_real, decide_eq_true_eq]
    by_cases ht : (1:ℝ) / 2 ≤ t
    · simp only [ht, if_true]
      constructor
      · rintro ⟨_, hul⟩; exact absurd hul.symm h
      · rintro ⟨_, h2⟩; exact absurd ht (not_le.2 h2)
    · simp only [ht, if_false]
      rw [not_le] at ht
      constructor
      · rintro ⟨⟨h0, _⟩, _⟩; exact ⟨h0, ht⟩
      · rintro ⟨h0, _⟩; exact ⟨⟨h0, by linarith⟩, trivial⟩
  have e2 : {t | t ∈ Icc (0:ℝ) 1 ∧ intervalBdrySample l u t = u} = Icc (1 / 2) 1 := by
    ext t
    simp only [mem_ofPred_eq, mem_Icc, intervalBdrySample, le, two_eq_real, decide_eq_true_eq]
    by_cases ht : (1:ℝ) / 2 ≤ t
    · simp only [ht, if_true]
      constructor
      · rintro ⟨⟨_, h1⟩, _⟩; exact ⟨trivial, h1⟩
      · rintro ⟨_, h1⟩; exact ⟨⟨by linarith, h1⟩, trivial⟩
    · simp only [ht, if_false]
      constructor
      · rintro ⟨_, hlu⟩; exact absurd hlu h
      · rintro ⟨h2, _⟩; exact h2.elim
  rw [e1, e2, Real.volume_Ico, Real.volume_Icc]
  constructor <;> norm_num

example : volume {t | t ∈ Icc (0:ℝ) 1 ∧ intervalBdrySample (1:ℝ) 3 t = 1} = ENNReal.ofReal (1 / 2) :=
  (intervalBdry_law 1 3 (by norm_num)).1

/-! ### 3. disc: radial law -/

/-- Radial law of the disc sampler: `P(√u·r ≤ ρ) = (ρ/r)² = area(disc ρ)/area(disc r)`. -/
theorem disc_radial_law (r ρ : ℝ) (hr : 0 < r) (h0 : 0 ≤ ρ) (h1 : ρ ≤ r) :
    volume {u : ℝ | u ∈ Icc (0:ℝ) 1 ∧ Transc.sqrt u * r ≤ ρ} = ENNReal.ofReal ((ρ / r) ^ 2) := by
  have hq0 : 0 ≤ ρ / r := div_nonneg h0 hr.le
  have hq1 : ρ / r ≤ 1 := (div_le_one hr).2 h1
  have hset : {u : ℝ | u ∈ Icc (0:ℝ) 1 ∧ Transc.sqrt u * r ≤ ρ} = Icc 0 ((ρ / r) ^ 2) := by
    ext u
    show (u ∈ Icc (0:ℝ) 1 ∧ √u * r ≤ ρ) ↔ _
    simp only [mem_Icc]
    constructor
    · rintro ⟨⟨hu0, _⟩, h⟩
      refine ⟨hu0, ?_⟩
      have h' : √u ≤ ρ / r := (le_div_iff₀ hr).2 h
      calc u = (√u) ^ 2 := (Real.sq_sqrt hu0).symm
        _ ≤ (ρ / r) ^ 2 := pow_le_pow_left₀ (Real.sqrt_nonneg u) h' 2
    · rintro ⟨hu0, hu⟩
      refine ⟨⟨hu0, hu.trans (pow_le_one₀ hq0 hq1)⟩, ?_⟩
      have : √u ≤ ρ / r := by
        rw [show ρ / r = √((ρ / r) ^ 2) from (Real.sqrt_sq hq0).symm]
        exact Real.sqrt_le_sqrt hu
      exact (le_div_iff₀ hr).1 this
  rw [hset, Real.volume_Icc]; simp

example : volume {u : ℝ | u ∈ Icc (0:ℝ) 1 ∧ Transc.sqrt u * 2 ≤ 1} = ENNReal.ofReal ((1 / 2) ^ 2) :=
  disc_radial_law 2 1 (by norm_num) (by norm_num) (by norm_num)

/-- The squared distance of the disc sample from the centre is `(√u₁·r)²`: the radial law is a
    statement about the distance of `Circle.sample_random_uniform` from the centre. -/
theorem circleSample_radius (cx cy r u1 u2 : ℝ) :
    ((circleSample cx cy r u1 u2).1 - cx) ^ 2 + ((circleSample cx cy r u1 u2).2 - cy) ^ 2 =
      (Transc.sqrt u1 * r) ^ 2 := by
  simp only [circleSample]
  show (√u1 * r * Real.cos _ + cx - cx) ^ 2 + (√u1 * r * Real.sin _ + cy - cy) ^ 2 = (√u1 * r) ^ 2
  generalize (two * Transc.pi * u2 : ℝ) = φ
  have := Real.cos_sq_add_sin_sq φ
  linear_combination (√u1 * r) ^ 2 * this

example : ((circleSample (1:ℝ) 2 3 (1/4) (1/8)).1 - 1) ^ 2 + ((circleSample (1:ℝ) 2 3 (1/4) (1/8)).2 - 2) ^ 2 =
    (Transc.sqrt (1/4 : ℝ) * 3) ^ 2 := circleSample_radius 1 2 3 (1/4) (1/8)

/-! ### 6. ball: radial law -/

theorem cbrt_cube (u : ℝ) (hu : 0 ≤ u) : (u ^ ((1:ℝ) / 3)) ^ 3 = u := by
  rw [← Real.rpow_natCast, ← Real.rpow_mul hu]; norm_num

/-- Radial law of the ball sampler: `P(u^{1/3}·r ≤ ρ) = (ρ/r)³ = vol(ball ρ)/vol(ball r)`. -/
theorem ball_radial_law (r ρ : ℝ) (hr : 0 < r) (h0 : 0 ≤ ρ) (h1 : ρ ≤ r) :
    volume {u : ℝ | u ∈ Icc (0:ℝ) 1 ∧ Transc.cbrt u * r ≤ ρ} = ENNReal.ofReal ((ρ / r) ^ 3) := by
  have hq0 : 0 ≤ ρ / r := div_nonneg h0 hr.le
  have hq1 : ρ / r ≤ 1 := (div_le_one hr).2 h1
  have hset : {u : ℝ | u ∈ Icc (0:ℝ) 1 ∧ Transc.cbrt u * r ≤ ρ} = Icc 0 ((ρ / r) ^ 3) := by
    ext u
    show (u ∈ Icc (0:ℝ) 1 ∧ u ^ ((1:ℝ) / 3) * r ≤ ρ) ↔ _
    simp only [mem_Icc]
    constructor
    · rintro ⟨⟨hu0, _⟩, h⟩
      refine ⟨hu0, ?_⟩
      have h' : u ^ ((1:ℝ) / 3) ≤ ρ / r := (le_div_iff₀ hr).2 h
      calc u = (u ^ ((1:ℝ) / 3)) ^ 3 := (cbrt_cube u hu0).symm
        _ ≤ (ρ / r) ^ 3 := pow_le_pow_left₀ (Real.rpow_nonneg hu0 _) h' 3
    · rintro ⟨hu0, hu⟩
      refine ⟨⟨hu0, hu.trans (pow_le_one₀ hq0 hq1)⟩, ?_⟩
      have : u ^ ((1:ℝ) / 3) ≤ ρ / r := by
        rw [← pow_le_pow_iff_left₀ (Real.rpow_nonneg hu0 _) hq0 (n := 3) (by norm_num),
          cbrt_cube u hu0]
        exact hu
      exact (le_div_iff₀ hr).1 this
  rw [hset, Real.volume_Icc]; simp

example : volume {u : ℝ | u ∈ Icc (0:ℝ) 1 ∧ Transc.cbrt u * 2 ≤ 1} = ENNReal.ofReal ((1 / 2) ^ 3) :=
  ball_radial_law 2 1 (by norm_num) (by norm_num) (by norm_num)

/-! ### 7. sphere: polar angle, height law -/

/-- `sin` of the polar angle `arccos(2w − 1) − π/2` is `1 − 2w`. -/
theorem sphereTheta_sin (w : ℝ) (h0 : 0 ≤ w) (h1 : w ≤ 1) :
    Transc.sin (sphereTheta w) = 1 - 2 * w := by
  show Real.sin (Real.arccos (two * w - 1) - Real.pi / two) = _
  rw [two_eq_real, Real.sin_sub_pi_div_two, Real.cos_arccos (by linarith) (by linarith)]; ring

example : Transc.sin (sphereTheta (1/4 : ℝ)) = 1 - 2 * (1/4) :=
  sphereTheta_sin (1/4) (by norm_num) (by norm_num)

/-- `cos` of the polar angle is non-negative (the angle lies in `[−π/2, π/2]`) … -/
theorem sphereTheta_cos_nonneg (w : ℝ) : 0 ≤ Transc.cos (sphereTheta w) := by
  show 0 ≤ Real.cos (Real.arccos (two * w - 1) - Real.pi / two)
  rw [two_eq_real, Real.cos_sub_pi_div_two, Real.sin_arccos]; exact Real.sqrt_nonneg _

example : 0 ≤ Transc.cos (sphereTheta (1/4 : ℝ)) := sphereTheta_cos_nonneg (1/4)

/-- … and its square is `1 − (1 − 2w)²`. -/
theorem sphereTheta_cos_sq (w : ℝ) (h0 : 0 ≤ w) (h1 : w ≤ 1) :
    Transc.cos (sphereTheta w) ^ 2 = 1 - (1 - 2 * w) ^ 2 := by
  show Real.cos (Real.arccos (two * w - 1) - Real.pi / two) ^ 2 = _
  rw [two_eq_real, Real.cos_sub_pi_div_two, Real.sin_arccos, Real.sq_sqrt (by nlinarith)]; ring

example : Transc.cos (sphereTheta (1/4 : ℝ)) ^ 2 = 1 - (1 - 2 * (1/4)) ^ 2 :=
  sphereTheta_cos_sq (1/4) (by norm_num) (by norm_num)

/-- Height law of the sphere-surface sampler (Archimedes' hat-box theorem): the height
    `r·sin θ(w)` of the sample is uniform on `[−r, r]`, i.e. the spherical cap below height `ζ`
    receives its area share `(ζ + r)/(2r)`. -/
theorem sphere_z_law (r ζ : ℝ) (hr : 0 < r) (_h0 : -r ≤ ζ) (h1 : ζ ≤ r) :
    volume {w : ℝ | w ∈ Icc (0:ℝ) 1 ∧ r * Transc.sin (sphereTheta w) ≤ ζ} =
      ENNReal.ofReal ((ζ + r) / (2 * r)) := by
  have h2r : 0 < 2 * r := by linarith
  have hset : {w : ℝ | w ∈ Icc (0:ℝ) 1 ∧ r * Transc.sin (sphereTheta w) ≤ ζ} =
      Icc ((r - ζ) / (2 * r)) 1 := by
    ext w
    simp only [mem_ofPred_eq, mem_Icc]
    constructor
    · rintro ⟨⟨hw0, hw1⟩, h⟩
      rw [sphereTheta_sin w hw0 hw1] at h
      refine ⟨?_, hw1⟩
      rw [div_le_iff₀ h2r]; linarith
    · rintro ⟨hw, hw1⟩
      have hw0 : 0 ≤ w := le_trans (div_nonneg (by linarith) h2r.le) hw
      refine ⟨⟨hw0, hw1⟩, ?_⟩
      rw [sphereTheta_sin w hw0 hw1]
      rw [div_le_iff₀ h2r] at hw; linarith
  rw [hset, Real.volume_Icc]
  congr 1; field_simp; ring

example : volume {w : ℝ | w ∈ Icc (0:ℝ) 1 ∧ 2 * Transc.sin (sphereTheta w) ≤ 1} =
    ENNReal.ofReal ((1 + 2) / (2 * 2)) := sphere_z_law 2 1 (by norm_num) (by norm_num) (by norm_num)

/-- The height of `SphereBoundary.sample_random_uniform` above the centre is `r·sin θ(u₃)`. -/
theorem sphereBdrySample_z (cx cy cz r u2 u3 : ℝ) :
    (sphereBdrySample cx cy cz r u2 u3).2.2 - cz = r * Transc.sin (sphereTheta u3) := by
  simp [sphereBdrySample]

example : (sphereBdrySample (1:ℝ) 2 3 4 (1/2) (1/4)).2.2 - 3 = 4 * Transc.sin (sphereTheta (1/4 : ℝ)) :=
  sphereBdrySample_z 1 2 3 4 (1/2) (1/4)

/-- The squared distance of `Sphere.sample_random_uniform` from the centre is `(u₁^{1/3}·r)²`. -/
theorem sphereSample_radius (cx cy cz r u1 u2 u3 : ℝ) :
    ((sphereSample cx cy cz r u1 u2 u3).1 - cx) ^ 2 + ((sphereSample cx cy cz r u1 u2 u3).2.1 - cy) ^ 2 +
      ((sphereSample cx cy cz r u1 u2 u3).2.2 - cz) ^ 2 = (Transc.cbrt u1 * r) ^ 2 := by
  simp only [sphereSample]
  show (Transc.cbrt u1 * r * Real.cos _ * Real.cos _ + cx - cx) ^ 2 +
    (Transc.cbrt u1 * r * Real.sin _ * Real.cos _ + cy - cy) ^ 2 +
    (Transc.cbrt u1 * r * Real.sin _ + cz - cz) ^ 2 = _
  generalize (two * Transc.pi * u2 : ℝ) = φ
  generalize (sphereTheta u3 : ℝ) = θ
  generalize (Transc.cbrt u1 : ℝ) = c
  have h1 := Real.cos_sq_add_sin_sq φ
  have h2 := Real.cos_sq_add_sin_sq θ
  linear_combination (c * r) ^ 2 * Real.cos θ ^ 2 * h1 + (c * r) ^ 2 * h2

example : ((sphereSample (1:ℝ) 2 3 4 (1/8) (1/2) (1/4)).1 - 1) ^ 2 +
    ((sphereSample (1:ℝ) 2 3 4 (1/8) (1/2) (1/4)).2.1 - 2) ^ 2 +
    ((sphereSample (1:ℝ) 2 3 4 (1/8) (1/2) (1/4)).2.2 - 3) ^ 2 = (Transc.cbrt (1/8 : ℝ) * 4) ^ 2 :=
  sphereSample_radius 1 2 3 4 (1/8) (1/2) (1/4)

/-! ### 8. rejection = conditioning -/

/-- Rejection sampling is conditioning: the uniform law on `A` (`cond μ A`), with the proposals
    outside `B` rejected, is the uniform law on `A ∩ B` (intersection domains). -/
theorem rejection_uniform {Ω : Type*} [MeasurableSpace Ω] (μ : Measure Ω) {A B : Set Ω}
    (hA : MeasurableSet A) (hB : MeasurableSet B) (hfin : μ A ≠ ⊤) :
    ProbabilityTheory.cond (ProbabilityTheory.cond μ A) B = ProbabilityTheory.cond μ (A ∩ B) :=
  ProbabilityTheory.cond_cond_eq_cond_inter' hA hB hfin

/-- The cut variant: rejecting the proposals inside `B` gives the uniform law on `A \ B`. -/
theorem rejection_uniform_cut {Ω : Type*} [MeasurableSpace Ω] (μ : Measure Ω) {A B : Set Ω}
    (hA : MeasurableSet A) (hB : MeasurableSet B) (hfin : μ A ≠ ⊤) :
    ProbabilityTheory.cond (ProbabilityTheory.cond μ A) Bᶜ = ProbabilityTheory.cond μ (A \ B) := by
  rw [Set.sdiff_eq]; exact rejection_uniform μ hA hB.compl hfin

example : ProbabilityTheory.cond (ProbabilityTheory.cond (volume : Measure ℝ) (Icc 0 2)) (Icc 1 3) =
    ProbabilityTheory.cond volume (Icc 0 2 ∩ Icc 1 3) :=
  rejection_uniform volume measurableSet_Icc measurableSet_Icc (by simp)

example : ProbabilityTheory.cond (ProbabilityTheory.cond (volume : Measure ℝ) (Icc 0 2)) (Icc 1 3)ᶜ =
    ProbabilityTheory.cond volume (Icc 0 2 \ Icc 1 3) :=
  rejection_uniform_cut volume measurableSet_Icc measurableSet_Icc (by simp)

/-- The uniform law on `A` gives a set `S` its share of the measure of `A`. -/
theorem cond_uniform_apply {Ω : Type*} [MeasurableSpace Ω] (μ : Measure Ω) {A S : Set Ω}
    (hS : MeasurableSet S) : ProbabilityTheory.cond μ A S = (μ A)⁻¹ * μ (A ∩ S) :=
  ProbabilityTheory.cond_apply' hS μ

example : ProbabilityTheory.cond (volume : Measure ℝ) (Icc 0 2) (Icc 1 3) =
    (volume (Icc (0:ℝ) 2))⁻¹ * volume (Icc (0:ℝ) 2 ∩ Icc 1 3) :=
  cond_uniform_apply volume measurableSet_Icc

/-! ### 9. first accepted proposal -/

/-- Law of the first accepted proposal of an i.i.d. sequence with law `ν` and acceptance region `D`:
    summing over the number `k` of rejections (each of probability `1 − ν D`) gives the conditional
    law `ν[· | D]`.  Covers the uniform rejection loops and the Gaussian sampler. -/
theorem first_accepted_law {Ω : Type*} [MeasurableSpace Ω] (ν : Measure Ω) [IsProbabilityMeasure ν]
    {D S : Set Ω} (hD : MeasurableSet D) :
    ∑' k : ℕ, (1 - ν D) ^ k * ν (S ∩ D) = ProbabilityTheory.cond ν D S := by
  rw [ENNReal.tsum_mul_right, ENNReal.tsum_geometric,
    ENNReal.sub_sub_cancel ENNReal.one_ne_top prob_le_one, ProbabilityTheory.cond_apply hD,
    Set.inter_comm]

example : ∑' k : ℕ, (1 - ProbabilityTheory.cond (volume : Measure ℝ) (Icc 0 1) (Icc 0 (1/2))) ^ k *
      ProbabilityTheory.cond (volume : Measure ℝ) (Icc 0 1) (Icc 0 (1/4) ∩ Icc 0 (1/2)) =
    ProbabilityTheory.cond (ProbabilityTheory.cond (volume : Measure ℝ) (Icc 0 1)) (Icc 0 (1/2)) (Icc 0 (1/4)) :=
  haveI : IsProbabilityMeasure (ProbabilityTheory.cond (volume : Measure ℝ) (Icc 0 1)) :=
    ProbabilityTheory.cond_isProbabilityMeasure_of_finite (by simp) (by simp)
  first_accepted_law _ measurableSet_Icc

/-! ### 4. disc: angular law -/

/-- Angular law of the disc sampler: the angle `2π·v` falls into `[α, β] ⊆ [0, 2π]` with
    probability `(β − α)/(2π)`. -/
theorem disc_angle_law (α β : ℝ) (h0 : 0 ≤ α) (_hab : α ≤ β) (h1 : β ≤ 2 * π) :
    volume {v : ℝ | v ∈ Icc (0:ℝ) 1 ∧ two * Transc.pi * v ∈ Icc α β} =
      ENNReal.ofReal ((β - α) / (2 * π)) := by
  have h2π : 0 < 2 * π := by positivity
  have hset : {v : ℝ | v ∈ Icc (0:ℝ) 1 ∧ two * Transc.pi * v ∈ Icc α β} =
      Icc (α / (2 * π)) (β / (2 * π)) := by
    ext v
    show (v ∈ Icc (0:ℝ) 1 ∧ two * π * v ∈ Icc α β) ↔ _
    simp only [mem_Icc, two_eq_real]
    rw [div_le_iff₀ h2π, le_div_iff₀ h2π]
    constructor
    · rintro ⟨_, ha, hb⟩; exact ⟨by linarith, by linarith⟩
    · rintro ⟨ha, hb⟩
      refine ⟨⟨?_, ?_⟩, by linarith, by linarith⟩
      · by_contra hc; rw [not_le] at hc; nlinarith
      · by_contra hc; rw [not_le] at hc; nlinarith
  rw [hset, Real.volume_Icc]
  congr 1; ring

example : volume {v : ℝ | v ∈ Icc (0:ℝ) 1 ∧ two * Transc.pi * v ∈ Icc 0 π} =
    ENNReal.ofReal ((π - 0) / (2 * π)) :=
  disc_angle_law 0 π le_rfl Real.pi_pos.le (by linarith [Real.pi_pos])

/-! ### 5. disc: joint law of polar sectors -/

/-- Joint law of the disc sampler on polar sectors: with `(u₁, u₂)` uniform on the unit square, the
    sector `{radius ≤ ρ, angle ∈ [α, β]}` receives exactly its area share
    `ρ²(β − α)/2 / (π r²) = (ρ/r)²·(β − α)/(2π)`. -/
theorem disc_sector_law_partial (r ρ α β : ℝ) (hr : 0 < r) (hρ0 : 0 ≤ ρ) (hρ1 : ρ ≤ r)
    (h0 : 0 ≤ α) (hab : α ≤ β) (h1 : β ≤ 2 * π) :
    volume {p : ℝ × ℝ | p ∈ Icc (0:ℝ) 1 ×ˢ Icc (0:ℝ) 1 ∧ Transc.sqrt p.1 * r ≤ ρ ∧
        two * Transc.pi * p.2 ∈ Icc α β} =
      ENNReal.ofReal ((ρ / r) ^ 2 * ((β - α) / (2 * π))) := by
  have hset : {p : ℝ × ℝ | p ∈ Icc (0:ℝ) 1 ×ˢ Icc (0:ℝ) 1 ∧ Transc.sqrt p.1 * r ≤ ρ ∧
        two * Transc.pi * p.2 ∈ Icc α β} =
      {u : ℝ | u ∈ Icc (0:ℝ) 1 ∧ Transc.sqrt u * r ≤ ρ} ×ˢ
        {v : ℝ | v ∈ Icc (0:ℝ) 1 ∧ two * Transc.pi * v ∈ Icc α β} := by
    ext ⟨u, v⟩
    simp only [mem_ofPred_eq, mem_prod]
    tauto
  rw [hset, Measure.volume_eq_prod, Measure.prod_prod, disc_radial_law r ρ hr hρ0 hρ1,
    disc_angle_law α β h0 hab h1, ← ENNReal.ofReal_mul (by positivity)]

example : volume {p : ℝ × ℝ | p ∈ Icc (0:ℝ) 1 ×ˢ Icc (0:ℝ) 1 ∧ Transc.sqrt p.1 * 2 ≤ 1 ∧
      two * Transc.pi * p.2 ∈ Icc 0 π} = ENNReal.ofReal ((1 / 2) ^ 2 * ((π - 0) / (2 * π))) :=
  disc_sector_law_partial 2 1 0 π (by norm_num) (by norm_num) (by norm_num) le_rfl Real.pi_pos.le
    (by linarith [Real.pi_pos])

/-- Full statement of the disc law: the push-forward of the uniform law on the unit square under
    `Circle.sample_random_uniform` is the normalised Lebesgue measure on the disc.  Proved below
    (`disc_law`, `C11_full_disc_holds`); `disc_sector_law_partial` is its restriction to polar sectors. -/
def C11_full_disc : Prop := ∀ (cx cy r : ℝ), 0 < r →
  Measure.map (fun p : ℝ × ℝ => circleSample cx cy r p.1 p.2) (volume.restrict (Icc 0 1 ×ˢ Icc 0 1)) =
    (ENNReal.ofReal (π * r ^ 2))⁻¹ •
      volume.restrict {q : ℝ × ℝ | (q.1 - cx) ^ 2 + (q.2 - cy) ^ 2 ≤ r ^ 2}

/-! ### 5b. disc: the full law (change of variables with the constant Jacobian `π r²`) -/

/-- the disc sampler written with the real functions -/
theorem circleSample_eq (cx cy r u1 u2 : ℝ) :
    circleSample cx cy r u1 u2 =
      (√u1 * r * Real.cos (2 * π * u2) + cx, √u1 * r * Real.sin (2 * π * u2) + cy) := by
  simp only [circleSample, two_eq_real]; rfl

/-- Jacobian matrix of the disc sampler at `(u₁, u₂)` -/
noncomputable def circleSampleDeriv (r : ℝ) (u : ℝ × ℝ) : ℝ × ℝ →L[ℝ] ℝ × ℝ :=
  (Matrix.toLin (.finTwoProd ℝ) (.finTwoProd ℝ)
    !![r / (2 * √u.1) * Real.cos (2 * π * u.2), -(√u.1 * r * (2 * π)) * Real.sin (2 * π * u.2);
       r / (2 * √u.1) * Real.sin (2 * π * u.2), √u.1 * r * (2 * π) * Real.cos (2 * π * u.2)]).toContinuousLinearMap

theorem circleSample_hasFDerivAt (cx cy r : ℝ) (u : ℝ × ℝ) (hu : 0 < u.1) :
    HasFDerivAt (fun p : ℝ × ℝ => circleSample cx cy r p.1 p.2) (circleSampleDeriv r u) u := by
  have hs : HasFDerivAt (fun p : ℝ × ℝ => √p.1 * r) _ u :=
    ((hasFDerivAt_fst (𝕜 := ℝ) (E := ℝ) (F := ℝ) (p := u)).sqrt hu.ne').mul_const r
  have hφ : HasFDerivAt (fun p : ℝ × ℝ => 2 * π * p.2) _ u :=
    (hasFDerivAt_snd (𝕜 := ℝ) (E := ℝ) (F := ℝ) (p := u)).const_mul (2 * π)
  have h1 := ((hs.mul hφ.cos).add_const cx)
  have h2 := ((hs.mul hφ.sin).add_const cy)
  have h := h1.prodMk h2
  simp only [circleSample_eq]
  refine h.congr_fderiv ?_
  unfold circleSampleDeriv
  rw [Matrix.toLin_finTwoProd_toContinuousLinearMap]
  have hne : √u.1 ≠ 0 := (Real.sqrt_pos.2 hu).ne'
  ext <;> simp <;> field_simp

theorem circleSampleDeriv_det (r : ℝ) (u : ℝ × ℝ) (hu : 0 < u.1) :
    (circleSampleDeriv r u).det = π * r ^ 2 := by
  have hne : √u.1 ≠ 0 := (Real.sqrt_pos.2 hu).ne'
  unfold circleSampleDeriv
  simp only [LinearMap.det_toContinuousLinearMap, LinearMap.det_toLin, Matrix.det_fin_two_of]
  have hc := Real.cos_sq_add_sin_sq (2 * π * u.2)
  have hq : r / (2 * √u.1) * √u.1 = r / 2 := by field_simp
  generalize r / (2 * √u.1) = q at hq
  linear_combination (r * (2 * π) * (Real.cos (2 * π * u.2) ^ 2 + Real.sin (2 * π * u.2) ^ 2)) * hq +
    (π * r ^ 2) * hc

/-- the disc sampler is injective on the open unit square -/
theorem circleSample_injOn (cx cy r : ℝ) (hr : 0 < r) :
    InjOn (fun p : ℝ × ℝ => circleSample cx cy r p.1 p.2) (Ioo 0 1 ×ˢ Ioo 0 1) := by
  rintro ⟨u1, u2⟩ hp ⟨v1, v2⟩ hq h
  simp only [mem_prod, mem_Ioo] at hp hq
  obtain ⟨⟨hu1, _⟩, hu2, hu2'⟩ := hp
  obtain ⟨⟨hv1, _⟩, hv2, hv2'⟩ := hq
  simp only [circleSample_eq, Prod.mk.injEq, add_left_inj] at h
  obtain ⟨hx, hy⟩ := h
  have hsu : 0 < √u1 := Real.sqrt_pos.2 hu1
  have hsv : 0 < √v1 := Real.sqrt_pos.2 hv1
  have hcu := Real.cos_sq_add_sin_sq (2 * π * u2)
  have hcv := Real.cos_sq_add_sin_sq (2 * π * v2)
  have hsq : (√u1 * r) ^ 2 = (√v1 * r) ^ 2 := by
    have : (√u1 * r) ^ 2 * (Real.cos (2 * π * u2) ^ 2 + Real.sin (2 * π * u2) ^ 2) =
        (√v1 * r) ^ 2 * (Real.cos (2 * π * v2) ^ 2 + Real.sin (2 * π * v2) ^ 2) := by
      have e1 : (√u1 * r * Real.cos (2 * π * u2)) ^ 2 = (√v1 * r * Real.cos (2 * π * v2)) ^ 2 := by
        rw [hx]
      have e2 : (√u1 * r * Real.sin (2 * π * u2)) ^ 2 = (√v1 * r * Real.sin (2 * π * v2)) ^ 2 := by
        rw [hy]
      linear_combination e1 + e2
    rwa [hcu, hcv, mul_one, mul_one] at this
  have hab : √u1 * r = √v1 * r :=
    (sq_eq_sq₀ (mul_pos hsu hr).le (mul_pos hsv hr).le).1 hsq
  have hs : √u1 = √v1 := mul_right_cancel₀ hr.ne' hab
  have h1 : u1 = v1 := by
    rw [← Real.sq_sqrt hu1.le, ← Real.sq_sqrt hv1.le, hs]
  have hpos : 0 < √v1 * r := mul_pos hsv hr
  rw [hab] at hx hy
  have hcos : Real.cos (2 * π * u2) = Real.cos (2 * π * v2) := mul_left_cancel₀ hpos.ne' hx
  have hsin : Real.sin (2 * π * u2) = Real.sin (2 * π * v2) := mul_left_cancel₀ hpos.ne' hy
  obtain ⟨k, hk⟩ := Real.Angle.angle_eq_iff_two_pi_dvd_sub.1 (Real.Angle.cos_sin_inj hcos hsin)
  have hk' : u2 - v2 = k := by
    have h2π : (2 * π) ≠ 0 := by positivity
    apply mul_left_cancel₀ h2π; linarith
  have hk1 : (k : ℝ) < 1 := by linarith
  have hk2 : (-1 : ℝ) < k := by linarith
  have hk0 : k = 0 := by
    have a1 : k < 1 := by exact_mod_cast hk1
    have a2 : -1 < k := by exact_mod_cast hk2
    omega
  have h2 : u2 = v2 := by rw [hk0] at hk'; simpa [sub_eq_zero] using hk'
  rw [h1, h2]

/-- area of the closed disc, as a subset of `ℝ × ℝ` -/
theorem volume_disc (cx cy r : ℝ) (hr : 0 ≤ r) :
    volume {q : ℝ × ℝ | (q.1 - cx) ^ 2 + (q.2 - cy) ^ 2 ≤ r ^ 2} = ENNReal.ofReal (π * r ^ 2) := by
  have hset : {q : ℝ × ℝ | (q.1 - cx) ^ 2 + (q.2 - cy) ^ 2 ≤ r ^ 2} =
      Complex.measurableEquivRealProd.symm ⁻¹' Metric.closedBall (⟨cx, cy⟩ : ℂ) r := by
    ext ⟨x, y⟩
    simp only [mem_ofPred_eq, mem_preimage, Metric.mem_closedBall, Complex.dist_eq_re_im]
    show _ ↔ √((x - cx) ^ 2 + (y - cy) ^ 2) ≤ r
    rw [Real.sqrt_le_left hr]
  rw [hset, Complex.volume_preserving_equiv_real_prod.symm.measure_preimage_equiv,
    Complex.volume_closedBall, ← ENNReal.ofReal_pow hr, ← NNReal.coe_real_pi,
    ENNReal.ofReal_coe_nnreal.symm, ← ENNReal.ofReal_mul (by positivity), mul_comm]

theorem circleSample_measurable (cx cy r : ℝ) :
    Measurable (fun p : ℝ × ℝ => circleSample cx cy r p.1 p.2) := by
  simp only [circleSample_eq]; fun_prop

/-- Full law of the disc sampler: the push-forward of the uniform law on the unit square under
    `Circle.sample_random_uniform` is the normalised Lebesgue measure on the disc — the sampler is
    exactly uniform (the map has the constant Jacobian `π r²`). -/
theorem disc_law (cx cy r : ℝ) (hr : 0 < r) :
    Measure.map (fun p : ℝ × ℝ => circleSample cx cy r p.1 p.2)
        (volume.restrict (Icc 0 1 ×ˢ Icc 0 1)) =
      (ENNReal.ofReal (π * r ^ 2))⁻¹ •
        volume.restrict {q : ℝ × ℝ | (q.1 - cx) ^ 2 + (q.2 - cy) ^ 2 ≤ r ^ 2} := by
  set F := fun p : ℝ × ℝ => circleSample cx cy r p.1 p.2 with hF
  set Q : Set (ℝ × ℝ) := Ioo 0 1 ×ˢ Ioo 0 1 with hQdef
  set D : Set (ℝ × ℝ) := {q : ℝ × ℝ | (q.1 - cx) ^ 2 + (q.2 - cy) ^ 2 ≤ r ^ 2} with hD
  have hcpos : 0 < π * r ^ 2 := by positivity
  have hQ : MeasurableSet Q := measurableSet_Ioo.prod measurableSet_Ioo
  have hFm : Measurable F := circleSample_measurable cx cy r
  have hf' : ∀ x ∈ Q, HasFDerivWithinAt F (circleSampleDeriv r x) Q x := fun x hx =>
    (circleSample_hasFDerivAt cx cy r x hx.1.1).hasFDerivWithinAt
  have hinj : InjOn F Q := circleSample_injOn cx cy r hr
  have hsq : (volume : Measure (ℝ × ℝ)).restrict (Icc 0 1 ×ˢ Icc 0 1) = volume.restrict Q := by
    rw [hQdef, Measure.volume_eq_prod, ← Measure.prod_restrict, ← Measure.prod_restrict,
      Measure.restrict_congr_set (Ioo_ae_eq_Icc (a := (0:ℝ)) (b := 1))]
  have hQvol : volume Q = 1 := by
    rw [hQdef, Measure.volume_eq_prod, Measure.prod_prod, Real.volume_Ioo]; simp
  have hdens : (volume.restrict Q).withDensity (fun x => ENNReal.ofReal |(circleSampleDeriv r x).det|) =
      ENNReal.ofReal (π * r ^ 2) • volume.restrict Q := by
    rw [← withDensity_const]
    apply withDensity_congr_ae
    filter_upwards [ae_restrict_mem hQ] with x hx
    rw [circleSampleDeriv_det r x hx.1.1, abs_of_pos hcpos]
  have key := map_withDensity_abs_det_fderiv_eq_addHaar volume hQ.nullMeasurableSet hf' hinj
  rw [hdens, Measure.map_smul] at key
  have himg : F '' Q ⊆ D := by
    rintro _ ⟨⟨u1, u2⟩, hu, rfl⟩
    have hu1 : 0 ≤ u1 := hu.1.1.le
    have hu1' : u1 ≤ 1 := hu.1.2.le
    show ((circleSample cx cy r u1 u2).1 - cx) ^ 2 + ((circleSample cx cy r u1 u2).2 - cy) ^ 2 ≤ r ^ 2
    rw [circleSample_radius]
    show (√u1 * r) ^ 2 ≤ r ^ 2
    rw [mul_pow, Real.sq_sqrt hu1]
    nlinarith [sq_nonneg r]
  have hvolimg : volume (F '' Q) = ENNReal.ofReal (π * r ^ 2) := by
    have := congrArg (fun m : Measure (ℝ × ℝ) => m univ) key
    simp only [Measure.smul_apply, Measure.map_apply hFm MeasurableSet.univ, preimage_univ,
      Measure.restrict_apply_univ, hQvol, smul_eq_mul, mul_one] at this
    exact this.symm
  have hae : F '' Q =ᵐ[volume] D :=
    ae_eq_of_subset_of_measure_ge himg (by rw [hD, volume_disc cx cy r hr.le, hvolimg])
      (measurable_image_of_fderivWithin hQ hf' hinj).nullMeasurableSet
      (by rw [hD, volume_disc cx cy r hr.le]; exact ENNReal.ofReal_ne_top)
  rw [hsq, ← Measure.restrict_congr_set hae, ← key, smul_smul,
    ENNReal.inv_mul_cancel (ENNReal.ofReal_pos.2 hcpos).ne' ENNReal.ofReal_ne_top, one_smul]

example : Measure.map (fun p : ℝ × ℝ => circleSample (1:ℝ) 2 3 p.1 p.2)
      (volume.restrict (Icc 0 1 ×ˢ Icc 0 1)) =
    (ENNReal.ofReal (π * 3 ^ 2))⁻¹ •
      volume.restrict {q : ℝ × ℝ | (q.1 - 1) ^ 2 + (q.2 - 2) ^ 2 ≤ 3 ^ 2} :=
  disc_law 1 2 3 (by norm_num)

/-- The full disc statement holds. -/
theorem C11_full_disc_holds : C11_full_disc := fun cx cy r hr => disc_law cx cy r hr

/-- Consequence: the probability that the disc sample lies in a measurable set `S` is the area share
    of `S` within the disc. -/
theorem disc_law_apply (cx cy r : ℝ) (hr : 0 < r) {S : Set (ℝ × ℝ)} (hS : MeasurableSet S) :
    volume {p : ℝ × ℝ | p ∈ Icc (0:ℝ) 1 ×ˢ Icc (0:ℝ) 1 ∧ circleSample cx cy r p.1 p.2 ∈ S} =
      (ENNReal.ofReal (π * r ^ 2))⁻¹ *
        volume (S ∩ {q : ℝ × ℝ | (q.1 - cx) ^ 2 + (q.2 - cy) ^ 2 ≤ r ^ 2}) := by
  have h := congrArg (fun m : Measure (ℝ × ℝ) => m S) (disc_law cx cy r hr)
  simp only [Measure.map_apply (circleSample_measurable cx cy r) hS,
    Measure.restrict_apply ((circleSample_measurable cx cy r) hS), Measure.smul_apply,
    Measure.restrict_apply hS, smul_eq_mul] at h
  rw [← h]
  congr 1
  ext p; simp only [mem_ofPred_eq, mem_inter_iff, mem_preimage]; tauto

example : volume {p : ℝ × ℝ | p ∈ Icc (0:ℝ) 1 ×ˢ Icc (0:ℝ) 1 ∧
      circleSample (1:ℝ) 2 3 p.1 p.2 ∈ Icc (0:ℝ) 1 ×ˢ Icc (0:ℝ) 1} =
    (ENNReal.ofReal (π * 3 ^ 2))⁻¹ *
      volume ((Icc (0:ℝ) 1 ×ˢ Icc (0:ℝ) 1) ∩ {q : ℝ × ℝ | (q.1 - 1) ^ 2 + (q.2 - 2) ^ 2 ≤ 3 ^ 2}) :=
  disc_law_apply 1 2 3 (by norm_num) (measurableSet_Icc.prod measurableSet_Icc)

/-! ### 7b. sphere surface and ball: joint laws on coordinate cells -/

/-- Joint law of `SphereBoundary.sample_random_uniform` on coordinate cells: with `(u₂, u₃)` uniform
    on the unit square, the cell `{azimuth ∈ [α, β], height ≤ ζ}` of the sphere surface receives its
    area share `(β − α)/(2π) · (ζ + r)/(2r)`. -/
theorem sphereBdry_cell_law_partial (r α β ζ : ℝ) (hr : 0 < r) (h0 : 0 ≤ α) (hab : α ≤ β)
    (h1 : β ≤ 2 * π) (hz0 : -r ≤ ζ) (hz1 : ζ ≤ r) :
    volume {p : ℝ × ℝ | p ∈ Icc (0:ℝ) 1 ×ˢ Icc (0:ℝ) 1 ∧ two * Transc.pi * p.1 ∈ Icc α β ∧
        r * Transc.sin (sphereTheta p.2) ≤ ζ} =
      ENNReal.ofReal ((β - α) / (2 * π) * ((ζ + r) / (2 * r))) := by
  have hset : {p : ℝ × ℝ | p ∈ Icc (0:ℝ) 1 ×ˢ Icc (0:ℝ) 1 ∧ two * Transc.pi * p.1 ∈ Icc α β ∧
        r * Transc.sin (sphereTheta p.2) ≤ ζ} =
      {v : ℝ | v ∈ Icc (0:ℝ) 1 ∧ two * Transc.pi * v ∈ Icc α β} ×ˢ
        {w : ℝ | w ∈ Icc (0:ℝ) 1 ∧ r * Transc.sin (sphereTheta w) ≤ ζ} := by
    ext ⟨u, v⟩
    simp only [mem_ofPred_eq, mem_prod]
    tauto
  have hpi : 0 < 2 * π := by positivity
  rw [hset, Measure.volume_eq_prod, Measure.prod_prod, disc_angle_law α β h0 hab h1,
    sphere_z_law r ζ hr hz0 hz1,
    ← ENNReal.ofReal_mul (div_nonneg (sub_nonneg.2 hab) hpi.le)]

example : volume {p : ℝ × ℝ | p ∈ Icc (0:ℝ) 1 ×ˢ Icc (0:ℝ) 1 ∧ two * Transc.pi * p.1 ∈ Icc 0 π ∧
      2 * Transc.sin (sphereTheta p.2) ≤ 1} =
    ENNReal.ofReal ((π - 0) / (2 * π) * ((1 + 2) / (2 * 2))) :=
  sphereBdry_cell_law_partial 2 0 π 1 (by norm_num) le_rfl Real.pi_pos.le
    (by linarith [Real.pi_pos]) (by norm_num) (by norm_num)

/-- Joint law of `Sphere.sample_random_uniform` on cells of spherical coordinates: with
    `(u₁, u₂, u₃)` uniform on the unit cube, the cell `{radius ≤ ρ, azimuth ∈ [α, β], sin(polar) ≤ s}`
    receives its volume share `(ρ/r)³ · (β − α)/(2π) · (s + 1)/2`. -/
theorem ball_cell_law_partial (r ρ α β s : ℝ) (hr : 0 < r) (hρ0 : 0 ≤ ρ) (hρ1 : ρ ≤ r)
    (h0 : 0 ≤ α) (hab : α ≤ β) (h1 : β ≤ 2 * π) (hs0 : -1 ≤ s) (hs1 : s ≤ 1) :
    volume {p : ℝ × ℝ × ℝ | p ∈ Icc (0:ℝ) 1 ×ˢ Icc (0:ℝ) 1 ×ˢ Icc (0:ℝ) 1 ∧
        Transc.cbrt p.1 * r ≤ ρ ∧ two * Transc.pi * p.2.1 ∈ Icc α β ∧
        Transc.sin (sphereTheta p.2.2) ≤ s} =
      ENNReal.ofReal ((ρ / r) ^ 3 * ((β - α) / (2 * π) * ((s + 1) / 2))) := by
  have hset : {p : ℝ × ℝ × ℝ | p ∈ Icc (0:ℝ) 1 ×ˢ Icc (0:ℝ) 1 ×ˢ Icc (0:ℝ) 1 ∧
        Transc.cbrt p.1 * r ≤ ρ ∧ two * Transc.pi * p.2.1 ∈ Icc α β ∧
        Transc.sin (sphereTheta p.2.2) ≤ s} =
      {u : ℝ | u ∈ Icc (0:ℝ) 1 ∧ Transc.cbrt u * r ≤ ρ} ×ˢ
        ({v : ℝ | v ∈ Icc (0:ℝ) 1 ∧ two * Transc.pi * v ∈ Icc α β} ×ˢ
          {w : ℝ | w ∈ Icc (0:ℝ) 1 ∧ 1 * Transc.sin (sphereTheta w) ≤ s}) := by
    ext ⟨u, v, w⟩
    simp only [mem_ofPred_eq, mem_prod, one_mul]
    tauto
  have hpi : 0 < 2 * π := by positivity
  have hz := sphere_z_law 1 s one_pos hs0 hs1
  rw [mul_one] at hz
  rw [hset, Measure.volume_eq_prod, Measure.prod_prod, Measure.volume_eq_prod, Measure.prod_prod,
    ball_radial_law r ρ hr hρ0 hρ1, disc_angle_law α β h0 hab h1, hz,
    ← ENNReal.ofReal_mul (div_nonneg (sub_nonneg.2 hab) hpi.le),
    ← ENNReal.ofReal_mul (by positivity)]

example : volume {p : ℝ × ℝ × ℝ | p ∈ Icc (0:ℝ) 1 ×ˢ Icc (0:ℝ) 1 ×ˢ Icc (0:ℝ) 1 ∧
      Transc.cbrt p.1 * 2 ≤ 1 ∧ two * Transc.pi * p.2.1 ∈ Icc 0 π ∧
      Transc.sin (sphereTheta p.2.2) ≤ 0} =
    ENNReal.ofReal ((1 / 2) ^ 3 * ((π - 0) / (2 * π) * ((0 + 1) / 2))) :=
  ball_cell_law_partial 2 1 0 π 0 (by norm_num) (by norm_num) (by norm_num) le_rfl Real.pi_pos.le
    (by linarith [Real.pi_pos]) (by norm_num) (by norm_num)

/-- Full statement of the ball law: the push-forward of the uniform law on the unit cube under
    `Sphere.sample_random_uniform` is the normalised Lebesgue measure on the ball.  Proved below
    (`ball_law`, `C11_full_ball_holds`); `ball_cell_law_partial` is its restriction to the cells of
    spherical coordinates. -/
def C11_full_ball : Prop := ∀ (cx cy cz r : ℝ), 0 < r →
  Measure.map (fun p : ℝ × ℝ × ℝ => sphereSample cx cy cz r p.1 p.2.1 p.2.2)
      (volume.restrict (Icc 0 1 ×ˢ Icc 0 1 ×ˢ Icc 0 1)) =
    (ENNReal.ofReal (4 / 3 * π * r ^ 3))⁻¹ •
      volume.restrict {q : ℝ × ℝ × ℝ | (q.1 - cx) ^ 2 + (q.2.1 - cy) ^ 2 + (q.2.2 - cz) ^ 2 ≤ r ^ 2}

/-! ### 7c. ball: the full law (change of variables with the constant Jacobian `−4πr³/3`) -/

/-- coordinates of `ℝ × ℝ × ℝ` -/
noncomputable def coordEquiv3 : (ℝ × ℝ × ℝ) ≃ₗ[ℝ] (Fin 3 → ℝ) where
  toFun p := ![p.1, p.2.1, p.2.2]
  invFun v := (v 0, v 1, v 2)
  map_add' p q := by ext i; fin_cases i <;> simp
  map_smul' a p := by ext i; fin_cases i <;> simp
  left_inv p := by simp
  right_inv v := by ext i; fin_cases i <;> simp

/-- the standard basis of `ℝ × ℝ × ℝ` -/
noncomputable def coordBasis3 : Module.Basis (Fin 3) ℝ (ℝ × ℝ × ℝ) := Module.Basis.ofEquivFun coordEquiv3

theorem toLin3_apply (M : Matrix (Fin 3) (Fin 3) ℝ) (p : ℝ × ℝ × ℝ) :
    Matrix.toLin coordBasis3 coordBasis3 M p =
      (M 0 0 * p.1 + M 0 1 * p.2.1 + M 0 2 * p.2.2,
       M 1 0 * p.1 + M 1 1 * p.2.1 + M 1 2 * p.2.2,
       M 2 0 * p.1 + M 2 1 * p.2.1 + M 2 2 * p.2.2) := by
  rw [Matrix.toLin_apply]
  simp [coordBasis3, coordEquiv3, Fin.sum_univ_three, Matrix.mulVec, dotProduct, Module.Basis.ofEquivFun_repr_apply,
    Module.Basis.coe_ofEquivFun]

/-- the ball sampler written with the real functions (for `u₃ ∈ [0,1]`) -/
theorem sphereSample_eq (cx cy cz r u1 u2 u3 : ℝ) (h0 : 0 ≤ u3) (h1 : u3 ≤ 1) :
    sphereSample cx cy cz r u1 u2 u3 =
      (u1 ^ ((1:ℝ) / 3) * r * Real.cos (2 * π * u2) * √(1 - (2 * u3 - 1) ^ 2) + cx,
       u1 ^ ((1:ℝ) / 3) * r * Real.sin (2 * π * u2) * √(1 - (2 * u3 - 1) ^ 2) + cy,
       u1 ^ ((1:ℝ) / 3) * r * (1 - 2 * u3) + cz) := by
  have hs := sphereTheta_sin u3 h0 h1
  have hc : Transc.cos (sphereTheta u3) = √(1 - (2 * u3 - 1) ^ 2) := by
    show Real.cos (Real.arccos (two * u3 - 1) - Real.pi / two) = _
    rw [two_eq_real, Real.cos_sub_pi_div_two, Real.sin_arccos]
  simp only [sphereSample, two_eq_real, hs, hc]; rfl

/-- the map of `sphereSample_eq` -/
noncomputable def ballG (cx cy cz r : ℝ) (u : ℝ × ℝ × ℝ) : ℝ × ℝ × ℝ :=
  (u.1 ^ ((1:ℝ) / 3) * r * Real.cos (2 * π * u.2.1) * √(1 - (2 * u.2.2 - 1) ^ 2) + cx,
   u.1 ^ ((1:ℝ) / 3) * r * Real.sin (2 * π * u.2.1) * √(1 - (2 * u.2.2 - 1) ^ 2) + cy,
   u.1 ^ ((1:ℝ) / 3) * r * (1 - 2 * u.2.2) + cz)

/-- Jacobian matrix of the ball sampler -/
noncomputable def ballDeriv (r : ℝ) (u : ℝ × ℝ × ℝ) : ℝ × ℝ × ℝ →L[ℝ] ℝ × ℝ × ℝ :=
  (Matrix.toLin coordBasis3 coordBasis3
    !![(1 / 3 * u.1 ^ ((1:ℝ) / 3 - 1)) * r * Real.cos (2 * π * u.2.1) * √(1 - (2 * u.2.2 - 1) ^ 2),
         -(u.1 ^ ((1:ℝ) / 3) * r * (2 * π) * Real.sin (2 * π * u.2.1) * √(1 - (2 * u.2.2 - 1) ^ 2)),
         -(u.1 ^ ((1:ℝ) / 3) * r * Real.cos (2 * π * u.2.1) * (2 * (2 * u.2.2 - 1) / √(1 - (2 * u.2.2 - 1) ^ 2)));
       (1 / 3 * u.1 ^ ((1:ℝ) / 3 - 1)) * r * Real.sin (2 * π * u.2.1) * √(1 - (2 * u.2.2 - 1) ^ 2),
         u.1 ^ ((1:ℝ) / 3) * r * (2 * π) * Real.cos (2 * π * u.2.1) * √(1 - (2 * u.2.2 - 1) ^ 2),
         -(u.1 ^ ((1:ℝ) / 3) * r * Real.sin (2 * π * u.2.1) * (2 * (2 * u.2.2 - 1) / √(1 - (2 * u.2.2 - 1) ^ 2)));
       (1 / 3 * u.1 ^ ((1:ℝ) / 3 - 1)) * r * (1 - 2 * u.2.2), 0,
         -(2 * (u.1 ^ ((1:ℝ) / 3) * r))]).toContinuousLinearMap

theorem ballG_hasFDerivAt (cx cy cz r : ℝ) (u : ℝ × ℝ × ℝ) (hu1 : 0 < u.1) (hu3 : 0 < u.2.2)
    (hu3' : u.2.2 < 1) : HasFDerivAt (ballG cx cy cz r) (ballDeriv r u) u := by
  have hm0 : 0 < 1 - (2 * u.2.2 - 1) ^ 2 := by nlinarith
  have hm : √(1 - (2 * u.2.2 - 1) ^ 2) ≠ 0 := (Real.sqrt_pos.2 hm0).ne'
  have h21 : HasFDerivAt (fun p : ℝ × ℝ × ℝ => p.2.1)
      ((ContinuousLinearMap.fst ℝ ℝ ℝ).comp (ContinuousLinearMap.snd ℝ ℝ (ℝ × ℝ))) u :=
    ((ContinuousLinearMap.fst ℝ ℝ ℝ).comp (ContinuousLinearMap.snd ℝ ℝ (ℝ × ℝ))).hasFDerivAt
  have h22 : HasFDerivAt (fun p : ℝ × ℝ × ℝ => p.2.2)
      ((ContinuousLinearMap.snd ℝ ℝ ℝ).comp (ContinuousLinearMap.snd ℝ ℝ (ℝ × ℝ))) u :=
    ((ContinuousLinearMap.snd ℝ ℝ ℝ).comp (ContinuousLinearMap.snd ℝ ℝ (ℝ × ℝ))).hasFDerivAt
  have hc : HasFDerivAt (fun p : ℝ × ℝ × ℝ => p.1 ^ ((1:ℝ) / 3) * r) _ u :=
    ((Real.hasDerivAt_rpow_const (p := (1:ℝ) / 3) (Or.inl hu1.ne')).comp_hasFDerivAt u
      (hasFDerivAt_fst (𝕜 := ℝ) (E := ℝ) (F := ℝ × ℝ) (p := u))).mul_const r
  have hφ : HasFDerivAt (fun p : ℝ × ℝ × ℝ => 2 * π * p.2.1) _ u := h21.const_mul (2 * π)
  have hw : HasFDerivAt (fun p : ℝ × ℝ × ℝ => √(1 - (2 * p.2.2 - 1) ^ 2)) _ u :=
    ((((h22.const_mul 2).sub_const 1).pow 2).const_sub 1).sqrt hm0.ne'
  have hz : HasFDerivAt (fun p : ℝ × ℝ × ℝ => 1 - 2 * p.2.2) _ u := (h22.const_mul 2).const_sub 1
  have hx := ((hc.mul hφ.cos).mul hw).add_const cx
  have hy := ((hc.mul hφ.sin).mul hw).add_const cy
  have hzz := (hc.mul hz).add_const cz
  have h := hx.prodMk (hy.prodMk hzz)
  unfold ballG
  refine h.congr_fderiv ?_
  unfold ballDeriv
  refine ContinuousLinearMap.ext fun p => ?_
  simp only [LinearMap.coe_toContinuousLinearMap', toLin3_apply]
  simp
  refine ⟨?_, ?_, ?_⟩ <;> field_simp <;> ring

theorem det3_of (a b c d e f g h i : ℝ) :
    Matrix.det !![a, b, c; d, e, f; g, h, i] =
      a * e * i - a * f * h - b * d * i + b * f * g + c * d * h - c * e * g := by
  rw [Matrix.det_fin_three]
  simp

theorem ballDeriv_det (r : ℝ) (u : ℝ × ℝ × ℝ) (hu1 : 0 < u.1) (hu3 : 0 < u.2.2) (hu3' : u.2.2 < 1) :
    (ballDeriv r u).det = -(4 / 3 * π * r ^ 3) := by
  have hm0 : 0 < 1 - (2 * u.2.2 - 1) ^ 2 := by nlinarith
  have hm : √(1 - (2 * u.2.2 - 1) ^ 2) ≠ 0 := (Real.sqrt_pos.2 hm0).ne'
  have h1 := Real.cos_sq_add_sin_sq (2 * π * u.2.1)
  have h3 : √(1 - (2 * u.2.2 - 1) ^ 2) ^ 2 = 1 - (2 * u.2.2 - 1) ^ 2 := Real.sq_sqrt hm0.le
  have h2 : √(1 - (2 * u.2.2 - 1) ^ 2) * (2 * (2 * u.2.2 - 1) / √(1 - (2 * u.2.2 - 1) ^ 2)) =
      2 * (2 * u.2.2 - 1) := by field_simp
  have h4 : (u.1 ^ ((1:ℝ) / 3)) ^ 2 * (1 / 3 * u.1 ^ ((1:ℝ) / 3 - 1)) = 1 / 3 := by
    rw [← Real.rpow_natCast, ← Real.rpow_mul hu1.le, mul_comm, mul_assoc, ← Real.rpow_add hu1]
    norm_num
  unfold ballDeriv
  simp only [LinearMap.det_toContinuousLinearMap, LinearMap.det_toLin]
  generalize (2 * (2 * u.2.2 - 1) / √(1 - (2 * u.2.2 - 1) ^ 2)) = k at h2
  generalize √(1 - (2 * u.2.2 - 1) ^ 2) = m at h2 h3
  generalize (1 / 3 * u.1 ^ ((1:ℝ) / 3 - 1)) = c' at h4
  generalize u.1 ^ ((1:ℝ) / 3) = c at h4
  generalize Real.cos (2 * π * u.2.1) = C at h1
  generalize Real.sin (2 * π * u.2.1) = S at h1
  rw [det3_of]
  linear_combination (c ^ 2 * c' * r ^ 3 * (2 * π) * (-2 * m ^ 2 + (m * k) * (1 - 2 * u.2.2))) * h1 +
    (c ^ 2 * c' * r ^ 3 * (2 * π) * (1 - 2 * u.2.2)) * h2 -
    2 * (c ^ 2 * c' * r ^ 3 * (2 * π)) * h3 - 2 * (2 * π) * r ^ 3 * h4

theorem volume_preserving_fin3 : MeasurePreserving (fun v : Fin 3 → ℝ => ((v 0, v 1, v 2) : ℝ × ℝ × ℝ)) volume volume := by
  have h1 := volume_preserving_piFinSuccAbove (fun _ : Fin 3 => ℝ) 0
  have h2 := (MeasurePreserving.id (volume : Measure ℝ)).prod
    (volume_preserving_piFinTwo (fun _ : Fin 2 => ℝ))
  exact h2.comp h1

theorem volume_ball3 (cx cy cz r : ℝ) (hr : 0 ≤ r) :
    volume {q : ℝ × ℝ × ℝ | (q.1 - cx) ^ 2 + (q.2.1 - cy) ^ 2 + (q.2.2 - cz) ^ 2 ≤ r ^ 2} =
      ENNReal.ofReal (4 / 3 * π * r ^ 3) := by
  have hΨ : MeasurePreserving (fun v : EuclideanSpace ℝ (Fin 3) => ((v 0, v 1, v 2) : ℝ × ℝ × ℝ))
      volume volume := volume_preserving_fin3.comp (PiLp.volume_preserving_ofLp (Fin 3))
  have hD : MeasurableSet {q : ℝ × ℝ × ℝ | (q.1 - cx) ^ 2 + (q.2.1 - cy) ^ 2 + (q.2.2 - cz) ^ 2 ≤ r ^ 2} := by
    apply measurableSet_le <;> fun_prop
  rw [← hΨ.measure_preimage hD.nullMeasurableSet]
  have hset : (fun v : EuclideanSpace ℝ (Fin 3) => ((v 0, v 1, v 2) : ℝ × ℝ × ℝ)) ⁻¹'
      {q : ℝ × ℝ × ℝ | (q.1 - cx) ^ 2 + (q.2.1 - cy) ^ 2 + (q.2.2 - cz) ^ 2 ≤ r ^ 2} =
      Metric.closedBall (WithLp.toLp 2 ![cx, cy, cz]) r := by
    ext v
    simp only [mem_preimage, mem_ofPred_eq, Metric.mem_closedBall, EuclideanSpace.dist_eq,
      Fin.sum_univ_three, Real.sqrt_le_left hr]
    simp [Real.dist_eq, sq_abs]
  rw [hset, EuclideanSpace.volume_closedBall_fin_three, ← ENNReal.ofReal_pow hr,
    ← ENNReal.ofReal_mul (by positivity)]
  congr 1; ring

/-- the ball sampler is injective on the open unit cube -/
theorem ballG_injOn (cx cy cz r : ℝ) (hr : 0 < r) :
    InjOn (ballG cx cy cz r) (Ioo 0 1 ×ˢ Ioo 0 1 ×ˢ Ioo 0 1) := by
  rintro ⟨u1, u2, u3⟩ hp ⟨v1, v2, v3⟩ hq h
  simp only [mem_prod, mem_Ioo] at hp hq
  obtain ⟨⟨hu1, _⟩, ⟨hu2, hu2'⟩, hu3, hu3'⟩ := hp
  obtain ⟨⟨hv1, _⟩, ⟨hv2, hv2'⟩, hv3, hv3'⟩ := hq
  simp only [ballG, Prod.mk.injEq, add_left_inj] at h
  obtain ⟨hx, hy, hz⟩ := h
  have hmu0 : 0 < 1 - (2 * u3 - 1) ^ 2 := by nlinarith
  have hmv0 : 0 < 1 - (2 * v3 - 1) ^ 2 := by nlinarith
  have hmu := Real.sq_sqrt hmu0.le
  have hmv := Real.sq_sqrt hmv0.le
  have hmpos : 0 < √(1 - (2 * v3 - 1) ^ 2) := Real.sqrt_pos.2 hmv0
  have hcu := Real.cos_sq_add_sin_sq (2 * π * u2)
  have hcv := Real.cos_sq_add_sin_sq (2 * π * v2)
  have hau : 0 < u1 ^ ((1:ℝ) / 3) * r := mul_pos (Real.rpow_pos_of_pos hu1 _) hr
  have hav : 0 < v1 ^ ((1:ℝ) / 3) * r := mul_pos (Real.rpow_pos_of_pos hv1 _) hr
  have hsq : (u1 ^ ((1:ℝ) / 3) * r) ^ 2 = (v1 ^ ((1:ℝ) / 3) * r) ^ 2 := by
    have e1 : (u1 ^ ((1:ℝ) / 3) * r * Real.cos (2 * π * u2) * √(1 - (2 * u3 - 1) ^ 2)) ^ 2 =
        (v1 ^ ((1:ℝ) / 3) * r * Real.cos (2 * π * v2) * √(1 - (2 * v3 - 1) ^ 2)) ^ 2 := by rw [hx]
    have e2 : (u1 ^ ((1:ℝ) / 3) * r * Real.sin (2 * π * u2) * √(1 - (2 * u3 - 1) ^ 2)) ^ 2 =
        (v1 ^ ((1:ℝ) / 3) * r * Real.sin (2 * π * v2) * √(1 - (2 * v3 - 1) ^ 2)) ^ 2 := by rw [hy]
    have e3 : (u1 ^ ((1:ℝ) / 3) * r * (1 - 2 * u3)) ^ 2 = (v1 ^ ((1:ℝ) / 3) * r * (1 - 2 * v3)) ^ 2 := by
      rw [hz]
    have nu : (u1 ^ ((1:ℝ) / 3) * r * Real.cos (2 * π * u2) * √(1 - (2 * u3 - 1) ^ 2)) ^ 2 +
        (u1 ^ ((1:ℝ) / 3) * r * Real.sin (2 * π * u2) * √(1 - (2 * u3 - 1) ^ 2)) ^ 2 +
        (u1 ^ ((1:ℝ) / 3) * r * (1 - 2 * u3)) ^ 2 = (u1 ^ ((1:ℝ) / 3) * r) ^ 2 := by
      linear_combination (u1 ^ ((1:ℝ) / 3) * r) ^ 2 * √(1 - (2 * u3 - 1) ^ 2) ^ 2 * hcu +
        (u1 ^ ((1:ℝ) / 3) * r) ^ 2 * hmu
    have nv : (v1 ^ ((1:ℝ) / 3) * r * Real.cos (2 * π * v2) * √(1 - (2 * v3 - 1) ^ 2)) ^ 2 +
        (v1 ^ ((1:ℝ) / 3) * r * Real.sin (2 * π * v2) * √(1 - (2 * v3 - 1) ^ 2)) ^ 2 +
        (v1 ^ ((1:ℝ) / 3) * r * (1 - 2 * v3)) ^ 2 = (v1 ^ ((1:ℝ) / 3) * r) ^ 2 := by
      linear_combination (v1 ^ ((1:ℝ) / 3) * r) ^ 2 * √(1 - (2 * v3 - 1) ^ 2) ^ 2 * hcv +
        (v1 ^ ((1:ℝ) / 3) * r) ^ 2 * hmv
    rw [← nu, ← nv, e1, e2, e3]
  have hab : u1 ^ ((1:ℝ) / 3) * r = v1 ^ ((1:ℝ) / 3) * r := (sq_eq_sq₀ hau.le hav.le).1 hsq
  have hc : u1 ^ ((1:ℝ) / 3) = v1 ^ ((1:ℝ) / 3) := mul_right_cancel₀ hr.ne' hab
  have h1 : u1 = v1 := by rw [← cbrt_cube u1 hu1.le, ← cbrt_cube v1 hv1.le, hc]
  rw [hab] at hx hy hz
  have h3 : u3 = v3 := by
    have := mul_left_cancel₀ hav.ne' hz
    linarith
  rw [h3] at hx hy
  have hcos : Real.cos (2 * π * u2) = Real.cos (2 * π * v2) :=
    mul_left_cancel₀ hav.ne' (mul_right_cancel₀ hmpos.ne' hx)
  have hsin : Real.sin (2 * π * u2) = Real.sin (2 * π * v2) :=
    mul_left_cancel₀ hav.ne' (mul_right_cancel₀ hmpos.ne' hy)
  obtain ⟨k, hk⟩ := Real.Angle.angle_eq_iff_two_pi_dvd_sub.1 (Real.Angle.cos_sin_inj hcos hsin)
  have hk' : u2 - v2 = k := by
    have h2π : (2 * π) ≠ 0 := by positivity
    apply mul_left_cancel₀ h2π; linarith
  have hk1 : (k : ℝ) < 1 := by linarith
  have hk2 : (-1 : ℝ) < k := by linarith
  have hk0 : k = 0 := by
    have a1 : k < 1 := by exact_mod_cast hk1
    have a2 : -1 < k := by exact_mod_cast hk2
    omega
  have h2 : u2 = v2 := by rw [hk0] at hk'; simpa [sub_eq_zero] using hk'
  rw [h1, h2, h3]

/-- Full law of the ball sampler: the push-forward of the uniform law on the unit cube under
    `Sphere.sample_random_uniform` is the normalised Lebesgue measure on the ball — the sampler is
    exactly uniform (the map has the constant Jacobian `−4πr³/3`). -/
theorem ball_law (cx cy cz r : ℝ) (hr : 0 < r) :
    Measure.map (fun p : ℝ × ℝ × ℝ => sphereSample cx cy cz r p.1 p.2.1 p.2.2)
        (volume.restrict (Icc 0 1 ×ˢ Icc 0 1 ×ˢ Icc 0 1)) =
      (ENNReal.ofReal (4 / 3 * π * r ^ 3))⁻¹ •
        volume.restrict
          {q : ℝ × ℝ × ℝ | (q.1 - cx) ^ 2 + (q.2.1 - cy) ^ 2 + (q.2.2 - cz) ^ 2 ≤ r ^ 2} := by
  set F := fun p : ℝ × ℝ × ℝ => sphereSample cx cy cz r p.1 p.2.1 p.2.2 with hF
  set Q : Set (ℝ × ℝ × ℝ) := Ioo 0 1 ×ˢ Ioo 0 1 ×ˢ Ioo 0 1 with hQdef
  set D : Set (ℝ × ℝ × ℝ) :=
    {q : ℝ × ℝ × ℝ | (q.1 - cx) ^ 2 + (q.2.1 - cy) ^ 2 + (q.2.2 - cz) ^ 2 ≤ r ^ 2} with hD
  have hcpos : 0 < 4 / 3 * π * r ^ 3 := by positivity
  have : Measure.IsAddHaarMeasure (volume : Measure (ℝ × ℝ × ℝ)) :=
    Measure.prod.instIsAddHaarMeasure _ _
  have hQ : MeasurableSet Q := measurableSet_Ioo.prod (measurableSet_Ioo.prod measurableSet_Ioo)
  have hFG : ∀ x ∈ Q, F x = ballG cx cy cz r x := fun x hx =>
    sphereSample_eq cx cy cz r x.1 x.2.1 x.2.2 hx.2.2.1.le hx.2.2.2.le
  have hf' : ∀ x ∈ Q, HasFDerivWithinAt F (ballDeriv r x) Q x := fun x hx =>
    (ballG_hasFDerivAt cx cy cz r x hx.1.1 hx.2.2.1 hx.2.2.2).hasFDerivWithinAt.congr hFG (hFG x hx)
  have hinj : InjOn F Q := (ballG_injOn cx cy cz r hr).congr fun x hx => (hFG x hx).symm
  have hsq : (volume : Measure (ℝ × ℝ × ℝ)).restrict (Icc 0 1 ×ˢ Icc 0 1 ×ˢ Icc 0 1) =
      volume.restrict Q := by
    rw [hQdef, Measure.volume_eq_prod, Measure.volume_eq_prod, ← Measure.prod_restrict,
      ← Measure.prod_restrict, ← Measure.prod_restrict, ← Measure.prod_restrict,
      Measure.restrict_congr_set (Ioo_ae_eq_Icc (a := (0:ℝ)) (b := 1))]
  have hQvol : volume Q = 1 := by
    rw [hQdef, Measure.volume_eq_prod, Measure.prod_prod, Measure.volume_eq_prod, Measure.prod_prod,
      Real.volume_Ioo]
    simp
  have hdet : ∀ x ∈ Q, ENNReal.ofReal |(ballDeriv r x).det| = ENNReal.ofReal (4 / 3 * π * r ^ 3) :=
    fun x hx => by rw [ballDeriv_det r x hx.1.1 hx.2.2.1 hx.2.2.2, abs_neg, abs_of_pos hcpos]
  have hdens : (volume.restrict Q).withDensity (fun x => ENNReal.ofReal |(ballDeriv r x).det|) =
      ENNReal.ofReal (4 / 3 * π * r ^ 3) • volume.restrict Q := by
    rw [← withDensity_const]
    apply withDensity_congr_ae
    filter_upwards [ae_restrict_mem hQ] with x hx
    exact hdet x hx
  have key := map_withDensity_abs_det_fderiv_eq_addHaar volume hQ.nullMeasurableSet hf' hinj
  rw [hdens, Measure.map_smul] at key
  have himg : F '' Q ⊆ D := by
    rintro _ ⟨⟨u1, u2, u3⟩, hu, rfl⟩
    have hu1 : 0 ≤ u1 := hu.1.1.le
    have hu1' : u1 ≤ 1 := hu.1.2.le
    show ((sphereSample cx cy cz r u1 u2 u3).1 - cx) ^ 2 + ((sphereSample cx cy cz r u1 u2 u3).2.1 - cy) ^ 2 +
      ((sphereSample cx cy cz r u1 u2 u3).2.2 - cz) ^ 2 ≤ r ^ 2
    rw [sphereSample_radius]
    show (u1 ^ ((1:ℝ) / 3) * r) ^ 2 ≤ r ^ 2
    have h1 : u1 ^ ((1:ℝ) / 3) ≤ 1 := Real.rpow_le_one hu1 hu1' (by norm_num)
    have h0 : 0 ≤ u1 ^ ((1:ℝ) / 3) := Real.rpow_nonneg hu1 _
    have : u1 ^ ((1:ℝ) / 3) * r ≤ r := by nlinarith
    exact pow_le_pow_left₀ (mul_nonneg h0 hr.le) this 2
  have hvolimg : volume (F '' Q) = ENNReal.ofReal (4 / 3 * π * r ^ 3) := by
    rw [← lintegral_abs_det_fderiv_eq_addHaar_image volume hQ hf' hinj, setLIntegral_congr_fun hQ hdet,
      setLIntegral_const, hQvol, mul_one]
  have hae : F '' Q =ᵐ[volume] D :=
    ae_eq_of_subset_of_measure_ge himg (by rw [hD, volume_ball3 cx cy cz r hr.le, hvolimg])
      (measurable_image_of_fderivWithin hQ hf' hinj).nullMeasurableSet
      (by rw [hD, volume_ball3 cx cy cz r hr.le]; exact ENNReal.ofReal_ne_top)
  rw [hsq, ← Measure.restrict_congr_set hae, ← key, smul_smul,
    ENNReal.inv_mul_cancel (ENNReal.ofReal_pos.2 hcpos).ne' ENNReal.ofReal_ne_top, one_smul]

example : Measure.map (fun p : ℝ × ℝ × ℝ => sphereSample (1:ℝ) 2 3 4 p.1 p.2.1 p.2.2)
      (volume.restrict (Icc 0 1 ×ˢ Icc 0 1 ×ˢ Icc 0 1)) =
    (ENNReal.ofReal (4 / 3 * π * 4 ^ 3))⁻¹ •
      volume.restrict {q : ℝ × ℝ × ℝ | (q.1 - 1) ^ 2 + (q.2.1 - 2) ^ 2 + (q.2.2 - 3) ^ 2 ≤ 4 ^ 2} :=
  ball_law 1 2 3 4 (by norm_num)

/-- The full ball statement holds. -/
theorem C11_full_ball_holds : C11_full_ball := fun cx cy cz r hr => ball_law cx cy cz r hr

theorem sphereSample_measurable (cx cy cz r : ℝ) :
    Measurable (fun p : ℝ × ℝ × ℝ => sphereSample cx cy cz r p.1 p.2.1 p.2.2) := by
  have : (fun p : ℝ × ℝ × ℝ => sphereSample cx cy cz r p.1 p.2.1 p.2.2) = fun p =>
      (p.1 ^ ((1:ℝ) / 3) * r * Real.cos (2 * π * p.2.1) *
          Real.cos (Real.arccos (2 * p.2.2 - 1) - π / 2) + cx,
       p.1 ^ ((1:ℝ) / 3) * r * Real.sin (2 * π * p.2.1) *
          Real.cos (Real.arccos (2 * p.2.2 - 1) - π / 2) + cy,
       p.1 ^ ((1:ℝ) / 3) * r * Real.sin (Real.arccos (2 * p.2.2 - 1) - π / 2) + cz) := by
    funext p; simp only [sphereSample, sphereTheta, two_eq_real]; rfl
  rw [this]
  have ha := Real.measurable_arccos
  fun_prop

/-- Consequence: the probability that the ball sample lies in a measurable set `S` is the volume
    share of `S` within the ball. -/
theorem ball_law_apply (cx cy cz r : ℝ) (hr : 0 < r) {S : Set (ℝ × ℝ × ℝ)} (hS : MeasurableSet S) :
    volume {p : ℝ × ℝ × ℝ | p ∈ Icc (0:ℝ) 1 ×ˢ Icc (0:ℝ) 1 ×ˢ Icc (0:ℝ) 1 ∧
        sphereSample cx cy cz r p.1 p.2.1 p.2.2 ∈ S} =
      (ENNReal.ofReal (4 / 3 * π * r ^ 3))⁻¹ *
        volume (S ∩ {q : ℝ × ℝ × ℝ | (q.1 - cx) ^ 2 + (q.2.1 - cy) ^ 2 + (q.2.2 - cz) ^ 2 ≤ r ^ 2}) := by
  have h := congrArg (fun m : Measure (ℝ × ℝ × ℝ) => m S) (ball_law cx cy cz r hr)
  simp only [Measure.map_apply (sphereSample_measurable cx cy cz r) hS,
    Measure.restrict_apply ((sphereSample_measurable cx cy cz r) hS), Measure.smul_apply,
    Measure.restrict_apply hS, smul_eq_mul] at h
  rw [← h]
  congr 1
  ext p; simp only [mem_ofPred_eq, mem_inter_iff, mem_preimage]; tauto

example : volume {p : ℝ × ℝ × ℝ | p ∈ Icc (0:ℝ) 1 ×ˢ Icc (0:ℝ) 1 ×ˢ Icc (0:ℝ) 1 ∧
      sphereSample (1:ℝ) 2 3 4 p.1 p.2.1 p.2.2 ∈ Icc (0:ℝ) 1 ×ˢ Icc (0:ℝ) 1 ×ˢ Icc (0:ℝ) 1} =
    (ENNReal.ofReal (4 / 3 * π * 4 ^ 3))⁻¹ *
      volume ((Icc (0:ℝ) 1 ×ˢ Icc (0:ℝ) 1 ×ˢ Icc (0:ℝ) 1) ∩
        {q : ℝ × ℝ × ℝ | (q.1 - 1) ^ 2 + (q.2.1 - 2) ^ 2 + (q.2.2 - 3) ^ 2 ≤ 4 ^ 2}) :=
  ball_law_apply 1 2 3 4 (by norm_num)
    (measurableSet_Icc.prod (measurableSet_Icc.prod measurableSet_Icc))

/-! ### 10. transport by maps that scale the measure -/

/-- If `X` is uniform on `D` and `e` scales the measure by a constant (translation, rotation, any
    invertible linear map), then `e X` is uniform on `e(D)`. -/
theorem cond_map_of_scaling {E : Type*} [MeasurableSpace E] (μ : Measure E) (e : E ≃ᵐ E)
    (c : ENNReal) (hc0 : c ≠ 0) (hct : c ≠ ⊤) (hmap : Measure.map e μ = c • μ) (D : Set E) :
    Measure.map e (ProbabilityTheory.cond μ D) = ProbabilityTheory.cond μ (e '' D) := by
  have hpre : e ⁻¹' (e '' D) = D := e.injective.preimage_image D
  have hμ : μ D = c * μ (e '' D) := by
    have := congrArg (fun m : Measure E => m (e '' D)) hmap
    simpa [MeasurableEquiv.map_apply, hpre] using this
  have hr : Measure.map e (μ.restrict D) = c • μ.restrict (e '' D) := by
    have := MeasurableEquiv.restrict_map e μ (e '' D)
    rw [hpre] at this
    rw [← this, hmap, Measure.restrict_smul]
  unfold ProbabilityTheory.cond
  rw [Measure.map_smul, hr, hμ, smul_smul]
  congr 1
  rw [ENNReal.mul_inv (Or.inl hc0) (Or.inl hct), mul_assoc, mul_comm, mul_assoc,
    ENNReal.mul_inv_cancel hc0 hct, mul_one]

/-- Translating a uniform sample of `D ⊆ ℝ²` gives a uniform sample of the translated set. -/
theorem translate_law (t : ℝ × ℝ) (D : Set (ℝ × ℝ)) :
    Measure.map (fun p => p + t) (ProbabilityTheory.cond volume D) =
      ProbabilityTheory.cond volume ((fun p => p + t) '' D) := by
  have : (volume : Measure (ℝ × ℝ)).IsAddRightInvariant := by
    rw [Measure.volume_eq_prod]; infer_instance
  have := cond_map_of_scaling (volume : Measure (ℝ × ℝ)) (MeasurableEquiv.addRight t) 1 one_ne_zero
    ENNReal.one_ne_top (by rw [one_smul]; exact map_add_right_eq_self volume t) D
  simpa using this

example : Measure.map (fun p : ℝ × ℝ => p + (1, 2)) (ProbabilityTheory.cond volume (Icc 0 1 ×ˢ Icc 0 1)) =
    ProbabilityTheory.cond volume ((fun p : ℝ × ℝ => p + (1, 2)) '' (Icc 0 1 ×ˢ Icc 0 1)) :=
  translate_law (1, 2) _

/-- The same in 3-D. -/
theorem translate_law3 (t : ℝ × ℝ × ℝ) (D : Set (ℝ × ℝ × ℝ)) :
    Measure.map (fun p => p + t) (ProbabilityTheory.cond volume D) =
      ProbabilityTheory.cond volume ((fun p => p + t) '' D) := by
  have : (volume : Measure (ℝ × ℝ × ℝ)).IsAddRightInvariant := by
    have h2 : ((volume : Measure ℝ).prod (volume : Measure ℝ)).IsAddRightInvariant := inferInstance
    rw [Measure.volume_eq_prod, Measure.volume_eq_prod]
    exact Measure.prod.instIsAddRightInvariant
  have := cond_map_of_scaling (volume : Measure (ℝ × ℝ × ℝ)) (MeasurableEquiv.addRight t) 1
    one_ne_zero ENNReal.one_ne_top (by rw [one_smul]; exact map_add_right_eq_self volume t) D
  simpa using this

example : Measure.map (fun p : ℝ × ℝ × ℝ => p + (1, 2, 3))
      (ProbabilityTheory.cond volume (Icc 0 1 ×ˢ Icc 0 1 ×ˢ Icc 0 1)) =
    ProbabilityTheory.cond volume ((fun p : ℝ × ℝ × ℝ => p + (1, 2, 3)) '' (Icc 0 1 ×ˢ Icc 0 1 ×ˢ Icc 0 1)) :=
  translate_law3 (1, 2, 3) _

/-! ### 11. independent products -/

/-- Independent uniform samples of `A` and `B` form a uniform sample of `A × B`. -/
theorem prod_uniform {α β : Type*} [MeasurableSpace α] [MeasurableSpace β] (μ : Measure α)
    (ν : Measure β) [SFinite μ] [SFinite ν] (A : Set α) (B : Set β) :
    (ProbabilityTheory.cond μ A).prod (ProbabilityTheory.cond ν B) =
      ProbabilityTheory.cond (μ.prod ν) (A ×ˢ B) := by
  by_cases hA : μ A = 0
  · rw [ProbabilityTheory.cond_eq_zero_of_meas_eq_zero hA, Measure.zero_prod,
      ProbabilityTheory.cond_eq_zero_of_meas_eq_zero (by rw [Measure.prod_prod, hA, zero_mul])]
  by_cases hB : ν B = 0
  · rw [ProbabilityTheory.cond_eq_zero_of_meas_eq_zero hB, Measure.prod_zero,
      ProbabilityTheory.cond_eq_zero_of_meas_eq_zero (by rw [Measure.prod_prod, hB, mul_zero])]
  unfold ProbabilityTheory.cond
  rw [Measure.prod_smul_left, Measure.prod_smul_right, Measure.prod_restrict, Measure.prod_prod,
    smul_smul, ENNReal.mul_inv (Or.inl hA) (Or.inr hB)]

example : (ProbabilityTheory.cond (volume : Measure ℝ) (Icc 0 1)).prod
      (ProbabilityTheory.cond (volume : Measure ℝ) (Icc 0 2)) =
    ProbabilityTheory.cond ((volume : Measure ℝ).prod (volume : Measure ℝ)) (Icc 0 1 ×ˢ Icc 0 2) :=
  prod_uniform volume volume _ _

end TPV.Geom

/- axiom audit (all report only propext, Classical.choice, Quot.sound):
#print axioms TPV.Geom.two_eq_real
#print axioms TPV.Geom.interval_law
#print axioms TPV.Geom.interval_cell_law
#print axioms TPV.Geom.intervalBdry_law
#print axioms TPV.Geom.disc_radial_law
#print axioms TPV.Geom.circleSample_radius
#print axioms TPV.Geom.cbrt_cube
#print axioms TPV.Geom.ball_radial_law
#print axioms TPV.Geom.sphereTheta_sin
#print axioms TPV.Geom.sphereTheta_cos_nonneg
#print axioms TPV.Geom.sphereTheta_cos_sq
#print axioms TPV.Geom.sphere_z_law
#print axioms TPV.Geom.sphereBdrySample_z
#print axioms TPV.Geom.sphereSample_radius
#print axioms TPV.Geom.rejection_uniform
#print axioms TPV.Geom.rejection_uniform_cut
#print axioms TPV.Geom.cond_uniform_apply
#print axioms TPV.Geom.first_accepted_law
#print axioms TPV.Geom.disc_angle_law
#print axioms TPV.Geom.disc_sector_law_partial
#print axioms TPV.Geom.circleSample_eq
#print axioms TPV.Geom.circleSample_hasFDerivAt
#print axioms TPV.Geom.circleSampleDeriv_det
#print axioms TPV.Geom.circleSample_injOn
#print axioms TPV.Geom.volume_disc
#print axioms TPV.Geom.circleSample_measurable
#print axioms TPV.Geom.disc_law
#print axioms TPV.Geom.C11_full_disc_holds
#print axioms TPV.Geom.disc_law_apply
#print axioms TPV.Geom.sphereBdry_cell_law_partial
#print axioms TPV.Geom.ball_cell_law_partial
#print axioms TPV.Geom.toLin3_apply
#print axioms TPV.Geom.sphereSample_eq
#print axioms TPV.Geom.ballG_hasFDerivAt
#print axioms TPV.Geom.det3_of
#print axioms TPV.Geom.ballDeriv_det
#print axioms TPV.Geom.volume_preserving_fin3
#print axioms TPV.Geom.volume_ball3
#print axioms TPV.Geom.ballG_injOn
#print axioms TPV.Geom.ball_law
#print axioms TPV.Geom.C11_full_ball_holds
#print axioms TPV.Geom.sphereSample_measurable
#print axioms TPV.Geom.ball_law_apply
#print axioms TPV.Geom.cond_map_of_scaling
#print axioms TPV.Geom.translate_law
#print axioms TPV.Geom.translate_law3
#print axioms TPV.Geom.prod_uniform
-/
