/-
  C20 — Fourier layers are shift-equivariant, resolution-consistent convolutions.
  Property theorems about the model `TPV/Model/Fourier.lean` instantiated at ℝ (`instTrigReal`:
  cos, sin, π are Mathlib's); the driver runs the same definitions at `Float`.
-/
import TPV.Proofs.Fourier

namespace TPV.Fourier
open Finset

/-! ### C20, part 1: shift equivariance -/

/-- The spectral convolution commutes with a circular shift by `a` along any spatial axis `i` of the grid
    `pre ++ [last]` — for every grid, every number of kept modes per axis (truncating or zero-padding), every
    kernel and every input field. -/
theorem spectral_shift_equivariant (pre : List ℕ) (last : ℕ) (modes : List ℕ) (kern : Idx → Cx ℝ) (x : Idx → ℝ)
    (i N a : ℕ) (hi : (pre ++ [last])[i]? = some N) (hN : 0 < N) :
    spectral pre last modes kern (rollAxis i N a x) = rollAxis i N a (spectral pre last modes kern x) := by
  simp only [spectral]
  have h0 : (fun j => Cx.ofReal (rollAxis i N a x j)) = rollAxis i N a (fun j => Cx.ofReal (x j)) := rfl
  rw [h0, fwdFrom_roll i N a hN _ 0 _ (Nat.zero_le _) (by simpa using hi), resize_phase, mulKernel_phase, resize_phase,
    invFrom_phase i N a hN pre last 0 _ (Nat.zero_le _) (by simpa using hi)]

/-- `_FourierLayer.forward` commutes with circular shifts along any spatial axis: any grid, channel count,
    mode counts, kernel, linear connection (any weights/bias) on or off, skip connection on or off. -/
theorem layer_shift_equivariant (pre : List ℕ) (last C : ℕ) (L : Layer ℝ) (x : Idx → ℕ → ℝ)
    (i N a : ℕ) (hi : (pre ++ [last])[i]? = some N) (hN : 0 < N) :
    layer pre last C L (rollAxis i N a x) = rollAxis i N a (layer pre last C L x) := by
  funext n c
  simp only [layer]
  have h0 : ∀ c, (fun j => rollAxis i N a x j c) = rollAxis i N a (fun j => x j c) := fun c => rfl
  rw [h0, spectral_shift_equivariant pre last L.modes _ _ i N a hi hN]
  rfl

/-- a point-wise channel map commutes with shifts -/
theorem pointwise_shift (g : (ℕ → ℝ) → (ℕ → ℝ)) (x : Idx → ℕ → ℝ) (i N a : ℕ) :
    pointwise g (rollAxis i N a x) = rollAxis i N a (pointwise g x) := rfl

theorem fnoBody_shift_equivariant (pre : List ℕ) (last C : ℕ) (i N a : ℕ) (hi : (pre ++ [last])[i]? = some N) (hN : 0 < N) :
    ∀ (layers : List (Layer ℝ × (ℝ → ℝ))) (x : Idx → ℕ → ℝ),
    fnoBody pre last C layers (rollAxis i N a x) = rollAxis i N a (fnoBody pre last C layers x)
  | [], _ => rfl
  | (L, act) :: rest, x => by
    simp only [fnoBody]
    rw [layer_shift_equivariant pre last C L x i N a hi hN]
    exact fnoBody_shift_equivariant pre last C i N a hi hN rest (fun n c => act (layer pre last C L x n c))

/-- An FNO (arbitrary point-wise up- and down-sampling maps, any number of Fourier layers with arbitrary
    point-wise activations) commutes with circular shifts along any spatial axis. -/
theorem fno_shift_equivariant (pre : List ℕ) (last C : ℕ) (up down : (ℕ → ℝ) → (ℕ → ℝ))
    (layers : List (Layer ℝ × (ℝ → ℝ))) (x : Idx → ℕ → ℝ)
    (i N a : ℕ) (hi : (pre ++ [last])[i]? = some N) (hN : 0 < N) :
    fno pre last C up down layers (rollAxis i N a x) = rollAxis i N a (fno pre last C up down layers x) := by
  simp only [fno]
  rw [pointwise_shift, fnoBody_shift_equivariant pre last C i N a hi hN, pointwise_shift]

/-- non-vacuity: the hypotheses are met by a 3 × 4 grid shifted along axis 0, and the shift moves data -/
example : ([3] ++ [4])[0]? = some 3 ∧ 0 < 3 ∧
    rollAxis 0 3 1 (fun n (_ : ℕ) => (n 0 : ℝ)) (fun _ => 0) 0 = 2 := by
  refine ⟨by decide, by decide, ?_⟩
  norm_num [rollAxis, shiftIdx, upd]

/-! ### C20, part 2: resolution consistency of a one-dimensional layer -/

/-- every channel `c` of the input is the trigonometric polynomial
    `Σ_{p ≤ B} a c p · cos(2π p t) + b c p · sin(2π p t)` sampled at the nodes `t = j/N` of the uniform grid -/
noncomputable def sampled (a b : ℕ → ℕ → ℝ) (B N : ℕ) : Idx → ℕ → ℝ := fun j c => trigPoly (a c) (b c) B N (j 0)

/-- On an input that is band-limited below the kept modes (`B < m`) and below the Nyquist frequency of the
    grid (`2B < N`) a one-dimensional Fourier layer is the grid-independent Fourier multiplier plus the
    point-wise connections. -/
theorem layer_on_band_limited (N C B m : ℕ) (hB : 2 * B < N) (hm : B < m) (L : Layer ℝ) (hL : L.modes = [m])
    (a b : ℕ → ℕ → ℝ) (n : Idx) (c : ℕ) :
    layer [] N C L (sampled a b B N) n c =
      (let y := multiplier (a c) (b c) B (fun k => L.kern (upd n 0 k) c) N (n 0)
       let y := if L.lin then y + linear C L.W L.b (sampled a b B N n) c else y
       if L.skip then y + sampled a b B N n c else y) := by
  simp only [layer, hL]
  have h0 : (fun j => sampled a b B N j c) = fun j => trigPoly (a c) (b c) B N (j 0) := rfl
  rw [h0, spectral_trigPoly (a c) (b c) B N m hB hm]

/-- **Resolution consistency.**  For a single one-dimensional Fourier layer (any channel count, kernel,
    `m` kept modes, linear/skip connections on or off) and an input band-limited below the kept modes and
    below the Nyquist frequency of the coarse grid: the output on the finer grid of `r·N` nodes coincides at
    the shared nodes `r·n` with the output on the grid of `N` nodes. -/
theorem layer_resolution_consistent (N r C B m : ℕ) (hr : 0 < r) (hB : 2 * B < N) (hm : B < m)
    (L : Layer ℝ) (hL : L.modes = [m]) (a b : ℕ → ℕ → ℝ) (n : Idx) (c : ℕ) :
    layer [] (r * N) C L (sampled a b B (r * N)) (upd n 0 (r * n 0)) c
      = layer [] N C L (sampled a b B N) n c := by
  have hB' : 2 * B < r * N := lt_of_lt_of_le hB (Nat.le_mul_of_pos_left N hr)
  have hs : sampled a b B (r * N) (upd n 0 (r * n 0)) = sampled a b B N n := by
    funext c'
    simp only [sampled, upd_same, trigPoly_refine _ _ _ _ _ _ hr]
  rw [layer_on_band_limited (r * N) C B m hB' hm L hL, layer_on_band_limited N C B m hB hm L hL]
  simp only [hs, upd_same, upd_upd, multiplier_refine _ _ _ _ _ _ _ hr]

/-- non-vacuity: coarse grid 4, fine grid 8, band 1, two kept modes -/
example : (0 < 2) ∧ (2 * 1 < 4) ∧ (1 < 2) := by decide

/-! ### C20, part 3: a layer never modifies its input tensor -/

/-- Running `_FourierLayer.forward` as coded (fresh tensors for `rfftn`, `pad`, `irfftn`; the in-place `*=`, `+=`
    hit only those fresh tensors): afterwards the input buffer and the kernel buffer hold what they held
    before, `points` is still bound to its buffer, and the returned tensor is the pure value
    `irfftn(pad(rfftn p) · k) [+ lin p] [+ p]` — for every choice of the tensor operations. -/
theorem forward_keeps_input {T : Type} (o : Ops T) (lin skip : Bool) (p k junk : T) :
    let s := runProg (initStore p k junk) (forwardProg o lin skip)
    s.heap 0 = p ∧ s.heap 1 = k ∧ s.env .points = 0 ∧ s.env .kernel = 1 ∧
      s.read .ifft = forwardValue o lin skip p k := by
  cases lin <;> cases skip <;>
    simp [runProg, forwardProg, Step.run, initStore, Store.read, forwardValue]

/-- the same program with the skip connection written as `points += ifft; return points` (a realistic slip)
    does overwrite the input: the statement above is not vacuous -/
example : (runProg (initStore "p" "k" "junk")
    [ .alloc .ifft (fun r => r .points ++ "'"), .inplace .points (fun r => r .points ++ "+" ++ r .ifft) ]).heap 0
      ≠ "p" := by decide

/-! ### C20, part 4: input variables are picked by name on the channel axis, at every grid point -/

/-- picking a model's variables (`points[..., names]`, `Parallel`) commutes with shifts of the grid -/
theorem selectVars_shift (src dst : Vars) (x : Idx → ℕ → ℝ) (i N a : ℕ) :
    selectVars src dst (rollAxis i N a x) = (selectVars src dst x).map (rollAxis i N a) := by
  simp only [selectVars]; split <;> rfl

/-- `_fix_points_order` commutes with shifts of the grid -/
theorem fixOrder_shift (src inS : Vars) (x : Idx → ℕ → ℝ) (i N a : ℕ) :
    fixOrder src inS (rollAxis i N a x) = (fixOrder src inS x).map (rollAxis i N a) := by
  simp only [fixOrder]
  split
  · rfl
  · split
    · exact selectVars_shift src inS x i N a
    · rfl

/-- `FNO.forward` on `Points` whose variables are listed in any order (`src`) commutes with circular shifts
    along any spatial axis; it is rejected (`none`) for the shifted input iff it is for the original one. -/
theorem fnoFix_shift_equivariant (src inS : Vars) (pre : List ℕ) (last C : ℕ) (up down : (ℕ → ℝ) → (ℕ → ℝ))
    (layers : List (Layer ℝ × (ℝ → ℝ))) (x : Idx → ℕ → ℝ)
    (i N a : ℕ) (hi : (pre ++ [last])[i]? = some N) (hN : 0 < N) :
    fnoFix src inS pre last C up down layers (rollAxis i N a x)
      = (fnoFix src inS pre last C up down layers x).map (rollAxis i N a) := by
  simp only [fnoFix, fixOrder_shift]
  cases fixOrder src inS x with
  | none => rfl
  | some y => simp [fno_shift_equivariant pre last C up down layers y i N a hi hN]

/-- the same for an FNO that is a member of `tp.models.Parallel` -/
theorem fnoSelect_shift_equivariant (src inS : Vars) (pre : List ℕ) (last C : ℕ) (up down : (ℕ → ℝ) → (ℕ → ℝ))
    (layers : List (Layer ℝ × (ℝ → ℝ))) (x : Idx → ℕ → ℝ)
    (i N a : ℕ) (hi : (pre ++ [last])[i]? = some N) (hN : 0 < N) :
    fnoSelect src inS pre last C up down layers (rollAxis i N a x)
      = (fnoSelect src inS pre last C up down layers x).map (rollAxis i N a) := by
  simp only [fnoSelect, selectVars_shift]
  cases selectVars src inS x with
  | none => rfl
  | some y =>
    simp only [Option.map_some, Option.bind_some, fixOrder_shift]
    cases fixOrder inS inS y with
    | none => rfl
    | some z => simp [fno_shift_equivariant pre last C up down layers z i N a hi hN]

/-- **Variables are identified by name.**  If the same named data are handed over in another order `src` of
    the variables (distinct names), `_fix_points_order` accepts them and restores every column of the model's
    own layout, at every grid point. -/
theorem fixOrder_by_name {src inS : Vars} (h : SameVars src inS) (x : Idx → ℕ → ℝ) :
    ∃ y, fixOrder src inS (fun n => relayout inS src (x n)) = some y ∧ ∀ n c, c < vdim inS → y n c = x n c := by
  by_cases e : src = inS
  · subst e
    refine ⟨_, by simp [fixOrder], fun n c hc => relayout_self h.nodupA (x n) c hc⟩
  · refine ⟨fun n => relayout src inS (relayout inS src (x n)), ?_, fun n c hc => relayout_roundtrip h (x n) c hc⟩
    simp [fixOrder, e, sameKeySet_of_same h, selectVars, selectable_of_same h]

/-- An FNO (linear up-sampling of the `vdim inS` input channels, as constructed by default) returns the same
    field whether the input variables are listed in its own order or in any other order. -/
theorem fnoFix_by_name {src inS : Vars} (h : SameVars src inS) (pre : List ℕ) (last C : ℕ)
    (W : ℕ → ℕ → ℝ) (b : ℕ → ℝ) (down : (ℕ → ℝ) → (ℕ → ℝ)) (layers : List (Layer ℝ × (ℝ → ℝ))) (x : Idx → ℕ → ℝ) :
    fnoFix src inS pre last C (linear (vdim inS) W b) down layers (fun n => relayout inS src (x n))
      = fnoFix inS inS pre last C (linear (vdim inS) W b) down layers x := by
  obtain ⟨y, hy, hyx⟩ := fixOrder_by_name h x
  have hup : pointwise (linear (vdim inS) W b) y = pointwise (linear (vdim inS) W b) x := by
    funext n
    exact linear_congr _ _ _ _ _ (fun c hc => hyx n c hc)
  have hself : fixOrder inS inS x = some x := by simp [fixOrder]
  simp only [fnoFix]
  rw [hy, hself]
  simp only [Option.map_some, fno, hup]

/-- non-vacuity: `(g, f)` and `(f, g)` are two layouts of the same variables; column 0 of the model's layout
    `(f:2, g:1)` is read from column 1 of the data laid out as `(g:1, f:2)` -/
example : SameVars [("g", 1), ("f", 2)] [("f", 2), ("g", 1)] ∧ srcCol [("g", 1), ("f", 2)] [("f", 2), ("g", 1)] 0 = some 1 :=
  ⟨⟨by decide, by decide, by intro e; simp only [List.mem_cons, List.not_mem_nil, or_false]; tauto⟩, by decide⟩

end TPV.Fourier
