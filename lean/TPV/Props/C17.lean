/-
  C17 — partially evaluating a domain is the same as supplying the parameters.

  Model: `Dom.peval`, `Dom.freeVars` (TPV/Model/Geom.lean); `Dom.ground`, `Dom.needs`, `Dom.wf`, `Dom.pevalC`,
  `sliceContains` and the pinned-snapshot variants (TPV/Model/GeomPeval.lean).  Denotation `mem`:
  TPV/Proofs/GeomSpec.lean.  `D(**σ)` used with the remaining parameter row `ρ` is `D.peval σ` evaluated
  with `ρ`; "the original evaluated at those parameter values" is `D` evaluated with the row `ρ ++ σ`
  (the row extended by the fixed values; the left-most binding of a name wins, exactly like
  `points.join(params)` followed by the defaults of a `UserFunction`).
-/
import TPV.Model.GeomPeval
import TPV.Props.C05
import Mathlib.Tactic.Tauto

namespace TPV.Geom
set_option linter.unusedSectionVars false

/-! ## 1. partial evaluation commutes with every observable -/

section core
variable {K : Type} [Add K] [Sub K] [Mul K] [Div K] [Neg K] [LE K] [DecidableLE K] [OfNat K 0] [OfNat K 1]

theorem pfun_peval_f (p : PFun K) (σ e ρ : Env K) : (p.peval σ).f (e ++ ρ) = p.f (e ++ (ρ ++ σ)) := by
  simp [PFun.peval, List.append_assoc]

theorem env_get_append (a b : Env K) (x : String) : (a ++ b).get x = (a.get x).or (b.get x) := by
  simp [Env.get, List.lookup_append]

/-- **Membership commutes with partial evaluation** — for *every* expression (all primitives, union, cut,
    intersection, dependent products, translations, rotations, boundaries of all of these, the single
    boundary points of an interval; any nesting), every set of fixed values `σ`, every point and every
    remaining parameter row `ρ`: the coded membership test of `D(**σ)` (inside test `onB = false` and
    boundary test `onB = true`) returns exactly what the test of `D` returns when the values are supplied
    as parameters (`ρ ++ σ`) — including the rejections (`none`: a variable is still missing). -/
theorem peval_containsAux (τ : Tol K) (σ : Env K) (D : Dom K) : ∀ (onB : Bool) (pts ρ : Env K),
    containsAux τ onB (D.peval σ) pts ρ = containsAux τ onB D pts (ρ ++ σ) := by
  induction D with
  | interval v lb ub => intro onB pts ρ; cases onB <;> simp only [Dom.peval, containsAux, pfun_peval_f]
  | par v o c1 c2 => intro onB pts ρ; cases onB <;> simp only [Dom.peval, containsAux, pfun_peval_f]
  | tri v o c1 c2 => intro onB pts ρ; cases onB <;> simp only [Dom.peval, containsAux, pfun_peval_f]
  | circle v c r => intro onB pts ρ; cases onB <;> simp only [Dom.peval, containsAux, pfun_peval_f]
  | sphere v c r => intro onB pts ρ; cases onB <;> simp only [Dom.peval, containsAux, pfun_peval_f]
  | union a b iha ihb => intro onB pts ρ; cases onB <;> simp only [Dom.peval, containsAux, iha, ihb]
  | cut a b iha ihb => intro onB pts ρ; cases onB <;> simp only [Dom.peval, containsAux, iha, ihb]
  | inter a b iha ihb => intro onB pts ρ; cases onB <;> simp only [Dom.peval, containsAux, iha, ihb]
  | prod a b iha ihb => intro onB pts ρ; cases onB <;> simp only [Dom.peval, containsAux, iha, ihb]
  | translate v d t ih => intro onB pts ρ; cases onB <;> simp only [Dom.peval, containsAux, pfun_peval_f, ih, List.append_assoc]
  | rotate v d m c ih => intro onB pts ρ; cases onB <;> simp only [Dom.peval, containsAux, pfun_peval_f, ih, List.append_assoc]
  | bdry d ih => intro onB pts ρ; cases onB <;> simp only [Dom.peval, containsAux, ih]
  | bdryL d ih =>
    intro onB pts ρ
    cases d <;> cases onB <;> simp only [Dom.peval, containsAux, pfun_peval_f]
  | bdryR d ih =>
    intro onB pts ρ
    cases d <;> cases onB <;> simp only [Dom.peval, containsAux, pfun_peval_f]

/-- `D(**σ)._contains(points, ρ) = D._contains(points, ρ ∪ σ)` -/
theorem peval_contains (τ : Tol K) (σ : Env K) (D : Dom K) (pts ρ : Env K) :
    contains τ (D.peval σ) pts ρ = contains τ D pts (ρ ++ σ) := peval_containsAux τ σ D false pts ρ

/-- `D(**σ).boundary._contains(points, ρ) = D.boundary._contains(points, ρ ∪ σ)` -/
theorem peval_bdryContains (τ : Tol K) (σ : Env K) (D : Dom K) (pts ρ : Env K) :
    bdryContains τ (D.peval σ) pts ρ = bdryContains τ D pts (ρ ++ σ) := peval_containsAux τ σ D true pts ρ

theorem pfun_peval_peval (p : PFun K) (σ₁ σ₂ : Env K) : (p.peval σ₁).peval σ₂ = p.peval (σ₂ ++ σ₁) := by
  simp only [PFun.peval, PFun.mk.injEq, List.filter_filter, List.append_assoc, and_true]
  apply List.filter_congr
  intro x _
  simp [env_get_append]

theorem pfun_peval_nil (p : PFun K) : p.peval [] = p := by
  cases p; simp [PFun.peval, Env.get]

/-- **Repeated (nested) partial evaluation**: `D(**σ₁)(**σ₂)` *is* the expression `D(**(σ₂ ∪ σ₁))` — the same
    shape parameters as functions of the remaining row, the same declared arguments; a value given in the
    later call overrides an earlier one (`set_default` updates the defaults). -/
theorem peval_peval (σ₁ σ₂ : Env K) (D : Dom K) : (D.peval σ₁).peval σ₂ = D.peval (σ₂ ++ σ₁) := by
  induction D <;> simp_all [Dom.peval, pfun_peval_peval]

/-- evaluating at no value at all returns the expression itself -/
theorem peval_nil (D : Dom K) : D.peval [] = D := by
  induction D <;> simp_all [Dom.peval, pfun_peval_nil]

/-- **Every shape parameter** of `D(**σ)` evaluated at the remaining row `ρ` equals the parameter of `D` at
    `ρ ∪ σ` (the ground expression: interval bounds, corners, centres, radii, translation vectors, rotation
    matrices and centres, through all operation and boundary nodes). -/
theorem peval_ground (σ ρ : Env K) (D : Dom K) : (D.peval σ).ground ρ = D.ground (ρ ++ σ) := by
  induction D <;> simp_all [Dom.peval, Dom.ground, PFun.peval]

/-- **Volume, bounding box, samples.**  `volume(params)`, `bounding_box(params)` and the samplers (given the
    random tape) compute with the shape parameters evaluated at the parameter rows and with nothing else of
    the expression: they are functions `F` of the ground expressions of the rows.  Every such observable of
    `D(**σ)` at rows `ρs` equals the observable of `D` at the rows extended by `σ`. -/
theorem ground_observable_commutes {α : Type} (F : List (Shape K) → α) (σ : Env K) (D : Dom K) (ρs : List (Env K)) :
    F (ρs.map fun ρ => (D.peval σ).ground ρ) = F (ρs.map fun ρ => D.ground (ρ ++ σ)) := by
  simp only [peval_ground]

/-- the same for observables that evaluate parameters at further environments (points of a partner factor
    joined with the row, as the dependent product does): anything computed from the row-closed expression
    `D.peval ρ` — for `D(**σ)` that closed expression is the one of `D` at `ρ ∪ σ` -/
theorem closed_observable_commutes {α : Type} (F : Dom K → α) (σ ρ : Env K) (D : Dom K) :
    F ((D.peval σ).peval ρ) = F (D.peval (ρ ++ σ)) := by
  rw [peval_peval]

/-- membership is such an observable: the test at the row `ρ` is the test of the closed expression -/
theorem contains_closed (τ : Tol K) (D : Dom K) (onB : Bool) (pts ρ : Env K) :
    containsAux τ onB D pts ρ = containsAux τ onB (D.peval ρ) pts [] := by
  rw [peval_containsAux]; simp

/-- repeated evaluation and membership: `D(**σ₁)(**σ₂)` at `ρ` = `D` at `ρ ∪ σ₂ ∪ σ₁` -/
theorem peval_peval_contains (τ : Tol K) (σ₁ σ₂ : Env K) (D : Dom K) (onB : Bool) (pts ρ : Env K) :
    containsAux τ onB ((D.peval σ₁).peval σ₂) pts ρ = containsAux τ onB D pts (ρ ++ (σ₂ ++ σ₁)) := by
  rw [peval_peval, peval_containsAux]

end core

section field
variable {K : Type} [Field K] [LinearOrder K] [IsStrictOrderedRing K]

/-- **The denoted set commutes with partial evaluation**: a point belongs to the set denoted by `D(**σ)` at
    the remaining row `ρ` iff it belongs to the set `D` denotes at `ρ ∪ σ` (the textbook set of
    TPV/Proofs/GeomSpec.lean, for all solid expressions; over any linearly ordered field). -/
theorem peval_mem (σ : Env K) (D : Dom K) : ∀ (pts ρ : Env K),
    mem (D.peval σ) pts ρ ↔ mem D pts (ρ ++ σ) := by
  induction D with
  | union a b iha ihb => intro pts ρ; simp only [Dom.peval, mem, iha, ihb]
  | cut a b iha ihb => intro pts ρ; simp only [Dom.peval, mem, iha, ihb]
  | inter a b iha ihb => intro pts ρ; simp only [Dom.peval, mem, iha, ihb]
  | prod a b iha ihb => intro pts ρ; simp only [Dom.peval, mem, iha, ihb]
  | translate v d t ih => intro pts ρ; simp only [Dom.peval, mem, pfun_peval_f, ih, List.append_assoc]
  | rotate v d m c ih => intro pts ρ; simp only [Dom.peval, mem, pfun_peval_f, ih, List.append_assoc]
  | _ => intro pts ρ; simp only [Dom.peval, mem, pfun_peval_f]

/-- the commuting square: whenever the test of `D(**σ)` answers, its answer is membership in the set that
    `D` denotes at `ρ ∪ σ` (C05's `contains_iff_mem` composed with `peval_contains`) -/
theorem peval_contains_iff_mem (τ : Tol K) (σ : Env K) (D : Dom K) (pts ρ : Env K) (b : Bool)
    (hs : D.solid) (hnd : NonDeg D pts (ρ ++ σ)) (h : contains τ (D.peval σ) pts ρ = some b) :
    (b = true ↔ mem D pts (ρ ++ σ)) := by
  rw [peval_contains] at h
  exact contains_iff_mem τ D pts (ρ ++ σ) b hs hnd h

end field

/-! ## 2. the declared variables -/

section vars
variable {K : Type}

theorem mem_dedup_aux (l acc : List String) (x : String) :
    x ∈ l.foldl (fun acc x => if acc.contains x then acc else acc ++ [x]) acc ↔ x ∈ acc ∨ x ∈ l := by
  induction l generalizing acc with
  | nil => simp
  | cons y ys ih =>
    simp only [List.foldl_cons, ih, List.mem_cons]
    by_cases h : acc.contains y = true
    · simp only [h, if_true]
      have hy : y ∈ acc := by simpa using h
      constructor
      · rintro (h | h); exact Or.inl h; exact Or.inr (Or.inr h)
      · rintro (h | rfl | h); exact Or.inl h; exact Or.inl hy; exact Or.inr h
    · simp only [h, Bool.false_eq_true, if_false, List.mem_append, List.mem_singleton]
      constructor
      · rintro ((h | h) | h); exact Or.inl h; exact Or.inr (Or.inl h); exact Or.inr (Or.inr h)
      · rintro (h | h | h); exact Or.inl (Or.inl h); exact Or.inl (Or.inr h); exact Or.inr h

@[simp] theorem mem_dedup (l : List String) (x : String) : x ∈ dedup l ↔ x ∈ l := by
  unfold dedup; rw [mem_dedup_aux]; simp

theorem mem_pfun_peval_args (p : PFun K) (σ : Env K) (x : String) :
    x ∈ (p.peval σ).args ↔ x ∈ p.args ∧ σ.get x = none := by
  simp [PFun.peval]

theorem peval_vars (σ : Env K) (d : Dom K) : (d.peval σ).vars = d.vars := by
  induction d <;> simp_all [Dom.peval, Dom.vars]

/-- **`necessary_variables` of `D(**σ)`** are exactly those of `D` that `σ` does not fix (for every
    expression, incl. the product rule `(fv a ∖ vars b) ∪ fv b`, motions and boundaries). -/
theorem peval_freeVars (σ : Env K) (D : Dom K) (x : String) :
    x ∈ (D.peval σ).freeVars ↔ x ∈ D.freeVars ∧ σ.get x = none := by
  induction D with
  | prod a b iha ihb =>
    simp only [Dom.peval, Dom.freeVars, mem_dedup, List.mem_append, List.mem_filter, iha, ihb, peval_vars]
    tauto
  | _ => simp_all [Dom.peval, Dom.freeVars, mem_pfun_peval_args]; try tauto

/-- after fixing every declared variable nothing is declared any more -/
theorem peval_freeVars_all (σ : Env K) (D : Dom K) (h : ∀ x ∈ D.freeVars, σ.get x ≠ none) :
    (D.peval σ).freeVars = [] := by
  apply List.eq_nil_iff_forall_not_mem.2
  intro x hx
  rw [peval_freeVars] at hx
  exact h x hx.1 hx.2

@[simp] theorem mem_pfun_needs (p : PFun K) (bd : List String) (x : String) :
    x ∈ p.needs bd ↔ x ∈ p.args ∧ x ∉ bd := by
  simp [PFun.needs]

@[simp] theorem mem_filter_notin (l bd : List String) (x : String) :
    x ∈ l.filter (fun y => !bd.contains y) ↔ x ∈ l ∧ x ∉ bd := by
  simp [List.mem_filter]

theorem needs_congr (D : Dom K) : ∀ (bd bd' : List String), (∀ y, y ∈ bd ↔ y ∈ bd') → ∀ x, x ∈ D.needs bd ↔ x ∈ D.needs bd' := by
  induction D with
  | union a b iha ihb | cut a b iha ihb | inter a b iha ihb | prod a b iha ihb =>
    intro bd bd' h x; simp only [Dom.needs, List.mem_append, iha bd bd' h x, ihb bd bd' h x]
  | bdry d ih | bdryL d ih | bdryR d ih => intro bd bd' h x; simp only [Dom.needs, ih bd bd' h x]
  | _ => intro bd bd' h x; simp only [Dom.needs, List.mem_append, mem_pfun_needs, mem_filter_notin, h]

/-- nothing the point binds is looked up in the row -/
theorem needs_disjoint (D : Dom K) : ∀ (bd : List String) (x : String), x ∈ D.needs bd → x ∉ bd := by
  induction D with
  | union a b iha ihb | cut a b iha ihb | inter a b iha ihb | prod a b iha ihb =>
    intro bd x; simp only [Dom.needs, List.mem_append]
    rintro (h | h)
    · exact iha bd x h
    · exact ihb bd x h
  | bdry d ih | bdryL d ih | bdryR d ih => intro bd x; simp only [Dom.needs]; exact ih bd x
  | _ => intro bd x; simp only [Dom.needs, List.mem_append, mem_pfun_needs, mem_filter_notin]; tauto

theorem needs_mono (D : Dom K) : ∀ (bd ex : List String) (x : String), x ∈ D.needs (bd ++ ex) → x ∈ D.needs bd := by
  induction D with
  | union a b iha ihb | cut a b iha ihb | inter a b iha ihb | prod a b iha ihb =>
    intro bd ex x; simp only [Dom.needs, List.mem_append]
    rintro (h | h)
    · exact Or.inl (iha bd ex x h)
    · exact Or.inr (ihb bd ex x h)
  | bdry d ih | bdryL d ih | bdryR d ih => intro bd ex x; simp only [Dom.needs]; exact ih bd ex x
  | _ => intro bd ex x; simp only [Dom.needs, List.mem_append, mem_pfun_needs, mem_filter_notin, not_or]; tauto

theorem needs_extend (D : Dom K) : ∀ (bd ex : List String) (x : String), x ∈ D.needs bd → x ∉ ex → x ∈ D.needs (bd ++ ex) := by
  induction D with
  | union a b iha ihb | cut a b iha ihb | inter a b iha ihb | prod a b iha ihb =>
    intro bd ex x; simp only [Dom.needs, List.mem_append]
    rintro (h | h) hx
    · exact Or.inl (iha bd ex x h hx)
    · exact Or.inr (ihb bd ex x h hx)
  | bdry d ih | bdryL d ih | bdryR d ih => intro bd ex x; simp only [Dom.needs]; exact ih bd ex x
  | _ => intro bd ex x; simp only [Dom.needs, List.mem_append, mem_pfun_needs, mem_filter_notin, not_or]; tauto

/-- **Declared = read** (`freeVars_exact`, syntactic half).  For every expression the constructors accept
    (`Dom.wf`: no parameter depends on the node's own variable, Boolean operands share a space, the second
    factor of a product does not depend on the first) the declared `necessary_variables` are *exactly* the variables the membership algorithm
    looks up in the parameter row for a point of the domain's own space — none missing, none superfluous. -/
theorem needs_iff_freeVars (D : Dom K) : D.wf = true → ∀ x, x ∈ D.needs D.vars ↔ x ∈ D.freeVars := by
  induction D with
  | interval v lb ub | circle v c r | sphere v c r =>
    intro h x
    simp only [Dom.wf, Bool.and_eq_true, Bool.not_eq_true', List.contains_eq_mem, decide_eq_false_iff_not] at h
    simp only [Dom.needs, Dom.vars, Dom.freeVars, List.mem_append, mem_pfun_needs, mem_dedup, List.mem_singleton]
    constructor
    · tauto
    · rintro (hx | hx)
      · refine Or.inl ⟨hx, fun e => ?_⟩; subst e; tauto
      · refine Or.inr ⟨hx, fun e => ?_⟩; subst e; tauto
  | par v o c1 c2 | tri v o c1 c2 =>
    intro h x
    simp only [Dom.wf, Bool.and_eq_true, Bool.not_eq_true', List.contains_eq_mem, decide_eq_false_iff_not] at h
    simp only [Dom.needs, Dom.vars, Dom.freeVars, List.mem_append, mem_pfun_needs, mem_dedup, List.mem_singleton]
    constructor
    · tauto
    · rintro ((hx | hx) | hx)
      · refine Or.inl (Or.inl ⟨hx, fun e => ?_⟩); subst e; tauto
      · refine Or.inl (Or.inr ⟨hx, fun e => ?_⟩); subst e; tauto
      · refine Or.inr ⟨hx, fun e => ?_⟩; subst e; tauto
  | union a b iha ihb | cut a b iha ihb | inter a b iha ihb =>
    intro h x
    simp only [Dom.wf, Bool.and_eq_true, beq_iff_eq] at h
    obtain ⟨⟨ha, hb⟩, hv⟩ := h
    simp only [Dom.needs, Dom.vars, Dom.freeVars, List.mem_append, mem_dedup]
    rw [iha ha x, hv, ihb hb x]
  | prod a b iha ihb =>
    intro h x
    simp only [Dom.wf, Bool.and_eq_true, List.all_eq_true, Bool.not_eq_true', List.contains_eq_mem,
      decide_eq_false_iff_not] at h
    obtain ⟨⟨ha, hb⟩, hfb⟩ := h
    simp only [Dom.needs, Dom.vars, Dom.freeVars, List.mem_append, mem_dedup, List.mem_filter,
      Bool.not_eq_true', List.contains_eq_mem, decide_eq_false_iff_not]
    have swap : ∀ y, y ∈ a.vars ++ b.vars ↔ y ∈ b.vars ++ a.vars := by
      intro y; simp only [List.mem_append]; tauto
    constructor
    · rintro (hx | hx)
      · have h1 := (iha ha x).1 (needs_mono a _ _ x hx)
        refine Or.inl ⟨h1, fun hxb => ?_⟩
        exact needs_disjoint a _ x hx (List.mem_append_right _ hxb)
      · have := (needs_congr b _ _ swap x).1 hx
        exact Or.inr ((ihb hb x).1 (needs_mono b _ _ x this))
    · rintro (⟨hx, hxb⟩ | hx)
      · exact Or.inl (needs_extend a _ _ x ((iha ha x).2 hx) hxb)
      · have h1 := needs_extend b b.vars a.vars x ((ihb hb x).2 hx) (hfb x hx)
        exact Or.inr ((needs_congr b _ _ swap x).2 h1)
  | translate v d t ih =>
    intro h x
    simp only [Dom.wf, Bool.and_eq_true, beq_iff_eq, Bool.not_eq_true', List.contains_eq_mem,
      decide_eq_false_iff_not] at h
    obtain ⟨⟨hd, hv⟩, ht⟩ := h
    have hih := ih hd x
    rw [hv] at hih
    have hdis := needs_disjoint d [v] x
    simp only [Dom.needs, Dom.vars, Dom.freeVars, List.mem_append, mem_pfun_needs, mem_filter_notin, mem_dedup, hv,
      List.mem_singleton]
    constructor
    · rintro (⟨hx, _⟩ | ⟨hx, _⟩)
      · exact Or.inl hx
      · exact Or.inr (hih.1 hx)
    · rintro (hx | hx)
      · refine Or.inl ⟨hx, fun e => ?_⟩; subst e; exact ht hx
      · have := hih.2 hx
        exact Or.inr ⟨this, by simpa using hdis this⟩
  | rotate v d m c ih =>
    intro h x
    simp only [Dom.wf, Bool.and_eq_true, beq_iff_eq, Bool.not_eq_true', List.contains_eq_mem,
      decide_eq_false_iff_not] at h
    obtain ⟨⟨⟨hd, hv⟩, hm⟩, hc⟩ := h
    have hih := ih hd x
    rw [hv] at hih
    have hdis := needs_disjoint d [v] x
    simp only [Dom.needs, Dom.vars, Dom.freeVars, List.mem_append, mem_pfun_needs, mem_filter_notin, mem_dedup, hv,
      List.mem_singleton]
    constructor
    · rintro ((⟨hx, _⟩ | ⟨hx, _⟩) | ⟨hx, _⟩)
      · exact Or.inl (Or.inl hx)
      · exact Or.inl (Or.inr hx)
      · exact Or.inr (hih.1 hx)
    · rintro ((hx | hx) | hx)
      · refine Or.inl (Or.inl ⟨hx, fun e => ?_⟩); subst e; exact hm hx
      · refine Or.inl (Or.inr ⟨hx, fun e => ?_⟩); subst e; exact hc hx
      · have := hih.2 hx
        exact Or.inr ⟨this, by simpa using hdis this⟩
  | bdry d ih | bdryL d ih | bdryR d ih =>
    intro h x
    simp only [Dom.wf] at h
    simpa only [Dom.needs, Dom.vars, Dom.freeVars] using ih h x

end vars

section dep
variable {K : Type} [Add K] [Sub K] [Mul K] [Div K] [Neg K] [LE K] [DecidableLE K] [OfNat K 0] [OfNat K 1]

/-- a parameter function reads its environment only at its declared arguments (what `UserFunction.__call__`
    guarantees: it passes exactly `self.args` on) -/
def PFun.DependsOnly (p : PFun K) : Prop :=
  ∀ e e' : Env K, (∀ a ∈ p.args, e.get a = e'.get a) → p.f e = p.f e'

/-- every parameter function of the expression reads only its declared arguments -/
def Dom.DependsOnly : Dom K → Prop
  | .interval _ lb ub => lb.DependsOnly ∧ ub.DependsOnly
  | .par _ o c1 c2 | .tri _ o c1 c2 => o.DependsOnly ∧ c1.DependsOnly ∧ c2.DependsOnly
  | .circle _ c r | .sphere _ c r => c.DependsOnly ∧ r.DependsOnly
  | .union a b | .cut a b | .inter a b | .prod a b => a.DependsOnly ∧ b.DependsOnly
  | .translate _ d t => d.DependsOnly ∧ t.DependsOnly
  | .rotate _ d m c => d.DependsOnly ∧ m.DependsOnly ∧ c.DependsOnly
  | .bdry d | .bdryL d | .bdryR d => d.DependsOnly

def keys (e : Env K) : List String := e.map Prod.fst

theorem get_isSome_of_mem_keys (e : Env K) (x : String) (h : x ∈ keys e) : (e.get x).isSome := by
  induction e with
  | nil => simp [keys] at h
  | cons b bs ih =>
    obtain ⟨k, v⟩ := b
    simp only [keys, List.map_cons, List.mem_cons] at h
    simp only [Env.get, List.lookup_cons]
    by_cases hk : x = k
    · subst hk; simp
    · have : (x == k) = false := by simpa using hk
      simp only [this]
      rcases h with h | h
      · exact absurd h hk
      · exact ih h

theorem pfun_congr (p : PFun K) (hp : p.DependsOnly) (pts ρ ρ' : Env K)
    (h : ∀ x ∈ p.needs (keys pts), ρ.get x = ρ'.get x) : p.f (pts ++ ρ) = p.f (pts ++ ρ') := by
  apply hp
  intro a ha
  rw [env_get_append, env_get_append]
  by_cases hb : a ∈ keys pts
  · have := get_isSome_of_mem_keys pts a hb
    cases hg : pts.get a with
    | none => simp [hg] at this
    | some v => simp
  · have : a ∈ p.needs (keys pts) := by simp [PFun.needs, ha, hb]
    rw [h a this]

theorem keys_single (v : String) (x : List K) : keys [(v, x)] = [v] := rfl

theorem mem_keys_filter (e : Env K) (v y : String) : y ∈ keys (e.filter (fun b => b.1 != v)) ↔ y ∈ keys e ∧ y ≠ v := by
  induction e with
  | nil => simp [keys]
  | cons b bs ih =>
    obtain ⟨k, x⟩ := b
    simp only [keys] at ih
    by_cases hk : k = v
    · subst hk
      simp only [keys, List.filter_cons, bne_self_eq_false, Bool.false_eq_true, if_false, List.map_cons, List.mem_cons, ih]
      constructor
      · rintro ⟨h1, h2⟩; exact ⟨Or.inr h1, h2⟩
      · rintro ⟨h1 | h1, h2⟩
        · exact absurd h1 h2
        · exact ⟨h1, h2⟩
    · have : (k != v) = true := by simpa using hk
      simp only [keys, List.filter_cons, this, if_true, List.map_cons, List.mem_cons, ih]
      constructor
      · rintro (h | ⟨h1, h2⟩)
        · subst h; exact ⟨Or.inl rfl, hk⟩
        · exact ⟨Or.inr h1, h2⟩
      · rintro ⟨h1 | h1, h2⟩
        · exact Or.inl h1
        · exact Or.inr ⟨h1, h2⟩

/-- rows that agree on `S` outside the keys of `e` agree on `S` after `e` is put in front -/
theorem env_agree (e ρ ρ' : Env K) (x : String) (h : x ∉ keys e → ρ.get x = ρ'.get x) :
    (e ++ ρ).get x = (e ++ ρ').get x := by
  rw [env_get_append, env_get_append]
  by_cases hb : x ∈ keys e
  · have := get_isSome_of_mem_keys e x hb
    cases hg : e.get x with
    | none => simp [hg] at this
    | some v => simp
  · rw [h hb]

/-- the membership algorithm reads the parameter row only at `D.needs (variables bound by the point)`:
    two rows that agree there give the same answer (inside and boundary test, incl. rejections) -/
theorem contains_congr_needs (τ : Tol K) (D : Dom K) (hD : D.DependsOnly) : ∀ (onB : Bool) (pts ρ ρ' : Env K),
    (∀ x ∈ D.needs (keys pts), ρ.get x = ρ'.get x) →
    containsAux τ onB D pts ρ = containsAux τ onB D pts ρ' := by
  induction D with
  | interval v lb ub =>
    intro onB pts ρ ρ' h
    simp only [Dom.needs, List.mem_append] at h
    have e1 := pfun_congr lb hD.1 pts ρ ρ' (fun x hx => h x (Or.inl hx))
    have e2 := pfun_congr ub hD.2 pts ρ ρ' (fun x hx => h x (Or.inr hx))
    cases onB <;> simp only [containsAux, e1, e2]
  | par v o c1 c2 =>
    intro onB pts ρ ρ' h
    simp only [Dom.needs, List.mem_append] at h
    have e1 := pfun_congr o hD.1 pts ρ ρ' (fun x hx => h x (Or.inl (Or.inl hx)))
    have e2 := pfun_congr c1 hD.2.1 pts ρ ρ' (fun x hx => h x (Or.inl (Or.inr hx)))
    have e3 := pfun_congr c2 hD.2.2 pts ρ ρ' (fun x hx => h x (Or.inr hx))
    cases onB <;> simp only [containsAux, e1, e2, e3]
  | tri v o c1 c2 =>
    intro onB pts ρ ρ' h
    simp only [Dom.needs, List.mem_append] at h
    have e1 := pfun_congr o hD.1 pts ρ ρ' (fun x hx => h x (Or.inl (Or.inl hx)))
    have e2 := pfun_congr c1 hD.2.1 pts ρ ρ' (fun x hx => h x (Or.inl (Or.inr hx)))
    have e3 := pfun_congr c2 hD.2.2 pts ρ ρ' (fun x hx => h x (Or.inr hx))
    cases onB <;> simp only [containsAux, e1, e2, e3]
  | circle v c r =>
    intro onB pts ρ ρ' h
    simp only [Dom.needs, List.mem_append] at h
    have e1 := pfun_congr c hD.1 pts ρ ρ' (fun x hx => h x (Or.inr hx))
    have e2 := pfun_congr r hD.2 pts ρ ρ' (fun x hx => h x (Or.inl hx))
    cases onB <;> simp only [containsAux, e1, e2]
  | sphere v c r =>
    intro onB pts ρ ρ' h
    simp only [Dom.needs, List.mem_append] at h
    have e1 := pfun_congr c hD.1 pts ρ ρ' (fun x hx => h x (Or.inr hx))
    have e2 := pfun_congr r hD.2 pts ρ ρ' (fun x hx => h x (Or.inl hx))
    cases onB <;> simp only [containsAux, e1, e2]
  | union a b iha ihb =>
    intro onB pts ρ ρ' h
    simp only [Dom.needs, List.mem_append] at h
    have ea := fun o => iha hD.1 o pts ρ ρ' (fun x hx => h x (Or.inl hx))
    have eb := fun o => ihb hD.2 o pts ρ ρ' (fun x hx => h x (Or.inr hx))
    cases onB <;> simp only [containsAux, ea, eb]
  | cut a b iha ihb =>
    intro onB pts ρ ρ' h
    simp only [Dom.needs, List.mem_append] at h
    have ea := fun o => iha hD.1 o pts ρ ρ' (fun x hx => h x (Or.inl hx))
    have eb := fun o => ihb hD.2 o pts ρ ρ' (fun x hx => h x (Or.inr hx))
    cases onB <;> simp only [containsAux, ea, eb]
  | inter a b iha ihb =>
    intro onB pts ρ ρ' h
    simp only [Dom.needs, List.mem_append] at h
    have ea := fun o => iha hD.1 o pts ρ ρ' (fun x hx => h x (Or.inl hx))
    have eb := fun o => ihb hD.2 o pts ρ ρ' (fun x hx => h x (Or.inr hx))
    cases onB <;> simp only [containsAux, ea, eb]
  | prod a b iha ihb =>
    intro onB pts ρ ρ' h
    simp only [Dom.needs, List.mem_append] at h
    have ea := fun o => iha hD.1 o pts ρ ρ' (fun x hx => h x (Or.inl hx))
    have eb := fun o => ihb hD.2 o pts ρ ρ' (fun x hx => h x (Or.inr hx))
    cases onB <;> simp only [containsAux, ea, eb]
  | translate v d t ih =>
    intro onB pts ρ ρ' h
    simp only [Dom.needs, List.mem_append, mem_filter_notin] at h
    have e1 := pfun_congr t hD.2 pts ρ ρ' (fun x hx => h x (Or.inl hx))
    have ed := fun (q : List K) => ih hD.1 onB [(v, q)] (pts.filter (fun b => b.1 != v) ++ ρ) (pts.filter (fun b => b.1 != v) ++ ρ')
      (fun x hx => env_agree _ ρ ρ' x (fun hk => by
        rw [keys_single] at hx
        have hxv : x ≠ v := by simpa using needs_disjoint d [v] x hx
        refine h x (Or.inr ⟨hx, fun hin => hk ?_⟩)
        exact (mem_keys_filter pts v x).2 ⟨hin, hxv⟩))
    simp only [containsAux, e1, ed]
  | rotate v d m c ih =>
    intro onB pts ρ ρ' h
    simp only [Dom.needs, List.mem_append, mem_filter_notin] at h
    have e1 := pfun_congr m hD.2.1 pts ρ ρ' (fun x hx => h x (Or.inl (Or.inl hx)))
    have e2 := pfun_congr c hD.2.2 pts ρ ρ' (fun x hx => h x (Or.inl (Or.inr hx)))
    have ed := fun (q : List K) => ih hD.1 onB [(v, q)] (pts.filter (fun b => b.1 != v) ++ ρ) (pts.filter (fun b => b.1 != v) ++ ρ')
      (fun x hx => env_agree _ ρ ρ' x (fun hk => by
        rw [keys_single] at hx
        have hxv : x ≠ v := by simpa using needs_disjoint d [v] x hx
        refine h x (Or.inr ⟨hx, fun hin => hk ?_⟩)
        exact (mem_keys_filter pts v x).2 ⟨hin, hxv⟩))
    simp only [containsAux, e1, e2, ed]
  | bdry d ih =>
    intro onB pts ρ ρ' h
    cases onB
    · simp only [containsAux]; exact ih hD true pts ρ ρ' h
    · simp only [containsAux]
  | bdryL d ih =>
    intro onB pts ρ ρ' h
    cases d with
    | interval v lb ub =>
      simp only [Dom.needs, List.mem_append] at h
      have e1 := pfun_congr lb hD.1 pts ρ ρ' (fun x hx => h x (Or.inl hx))
      cases onB <;> simp only [containsAux, e1]
    | _ => cases onB <;> simp only [containsAux]
  | bdryR d ih =>
    intro onB pts ρ ρ' h
    cases d with
    | interval v lb ub =>
      simp only [Dom.needs, List.mem_append] at h
      have e2 := pfun_congr ub hD.2 pts ρ ρ' (fun x hx => h x (Or.inr hx))
      cases onB <;> simp only [containsAux, e2]
    | _ => cases onB <;> simp only [containsAux]

/-- **The declared variables suffice** (`freeVars_exact`, semantic half): for an expression the constructors
    accept and a point of its own space, membership (inside and boundary test) does not depend on anything
    in the parameter row outside `necessary_variables` — two rows that agree on the declared variables give
    the same answer, in particular a row that provides exactly the declared variables is enough. -/
theorem freeVars_sound (τ : Tol K) (D : Dom K) (hwf : D.wf = true) (hD : D.DependsOnly) (onB : Bool) (pts ρ ρ' : Env K)
    (hpts : ∀ y, y ∈ keys pts ↔ y ∈ D.vars) (h : ∀ x ∈ D.freeVars, ρ.get x = ρ'.get x) :
    containsAux τ onB D pts ρ = containsAux τ onB D pts ρ' := by
  apply contains_congr_needs τ D hD onB pts ρ ρ'
  intro x hx
  exact h x ((needs_iff_freeVars D hwf x).1 ((needs_congr D _ _ hpts x).1 hx))

/-- consequence for the evaluated domain: once `σ` fixes every declared variable, `D(**σ)` needs no
    parameter row at all — any two rows (that do not re-bind the fixed variables) give the same answer -/
theorem peval_closed (τ : Tol K) (σ : Env K) (D : Dom K) (hwf : D.wf = true) (hD : D.DependsOnly) (onB : Bool)
    (pts ρ ρ' : Env K) (hpts : ∀ y, y ∈ keys pts ↔ y ∈ D.vars)
    (hρ : ∀ x ∈ D.freeVars, ρ.get x = none ∧ ρ'.get x = none) :
    containsAux τ onB (D.peval σ) pts ρ = containsAux τ onB (D.peval σ) pts ρ' := by
  rw [peval_containsAux, peval_containsAux]
  apply freeVars_sound τ D hwf hD onB pts _ _ hpts
  intro x hx
  rw [env_get_append, env_get_append, (hρ x hx).1, (hρ x hx).2]

end dep

/-! ## 3. `partially_evaluate` as coded (value when complete, updated defaults otherwise) -/

section pevalC
variable {K : Type} [Add K] [Sub K] [Mul K] [Div K] [Neg K] [LE K] [DecidableLE K] [OfNat K 0] [OfNat K 1]

/-- the environment `e` does not bind again what `σ` fixes -/
def Env.Fresh (σ e : Env K) : Prop := ∀ a, σ.get a ≠ none → e.get a = none

/-- the coordinate variables of all nodes of the expression -/
def Dom.coordVars : Dom K → List String
  | .interval v _ _ | .par v _ _ _ | .tri v _ _ _ | .circle v _ _ | .sphere v _ _ => [v]
  | .union a b | .cut a b | .inter a b | .prod a b => a.coordVars ++ b.coordVars
  | .translate v d _ | .rotate v d _ _ => v :: d.coordVars
  | .bdry d | .bdryL d | .bdryR d => d.coordVars

theorem fresh_append (σ a b : Env K) (ha : Env.Fresh σ a) (hb : Env.Fresh σ b) : Env.Fresh σ (a ++ b) := by
  intro x hx; rw [env_get_append, ha x hx, hb x hx]; rfl

theorem fresh_single (σ : Env K) (v : String) (q : List K) (h : σ.get v = none) : Env.Fresh σ [(v, q)] := by
  intro x hx
  simp only [Env.get, List.lookup_cons, List.lookup_nil]
  by_cases hxv : x = v
  · subst hxv; exact absurd h hx
  · have : (x == v) = false := by simpa using hxv
    simp [this]

theorem get_filter_none (e : Env K) (p : String × List K → Bool) (a : String) (h : e.get a = none) :
    Env.get (e.filter p) a = none := by
  induction e with
  | nil => rfl
  | cons b bs ih =>
    obtain ⟨k, x⟩ := b
    unfold Env.get at h ih ⊢
    rw [List.lookup_cons] at h
    cases hak : (a == k) with
    | true => rw [hak] at h; exact absurd h (by simp)
    | false =>
      rw [hak] at h
      rw [List.filter_cons]
      split
      · rw [List.lookup_cons, hak]; exact ih h
      · exact ih h

theorem fresh_filter (σ e : Env K) (v : String) (h : Env.Fresh σ e) : Env.Fresh σ (e.filter (fun b => b.1 != v)) :=
  fun a ha => get_filter_none e _ a (h a ha)

theorem pfun_pevalC_f (p : PFun K) (hp : p.DependsOnly) (σ e : Env K) (h : Env.Fresh σ e) :
    (p.pevalC σ).f e = p.f (e ++ σ) := by
  unfold PFun.pevalC
  split
  · rename_i hall
    simp only
    apply hp
    intro a ha
    have hs : (σ.get a).isSome = true := (List.all_eq_true.1 hall) a ha
    rw [env_get_append, h a (by intro hn; simp [hn] at hs)]
    rfl
  · rfl

theorem pfun_pevalC_f' (p : PFun K) (hp : p.DependsOnly) (σ pts ρ : Env K) (h1 : Env.Fresh σ pts) (h2 : Env.Fresh σ ρ) :
    (p.pevalC σ).f (pts ++ ρ) = p.f (pts ++ (ρ ++ σ)) := by
  rw [pfun_pevalC_f p hp σ (pts ++ ρ) (fresh_append σ pts ρ h1 h2), List.append_assoc]

/-- **The two branches of `partially_evaluate` do not matter**: as long as neither the point nor the later
    parameter rows bind a fixed variable again, the expression built from values-when-complete /
    updated-defaults-otherwise answers exactly like `D` with the values supplied as parameters. -/
theorem pevalC_containsAux (τ : Tol K) (σ : Env K) (D : Dom K) (hD : D.DependsOnly) :
    ∀ (onB : Bool) (pts ρ : Env K), Env.Fresh σ pts → Env.Fresh σ ρ → (∀ v ∈ D.coordVars, σ.get v = none) →
    containsAux τ onB (D.pevalC σ) pts ρ = containsAux τ onB D pts (ρ ++ σ) := by
  induction D with
  | interval v lb ub =>
    intro onB pts ρ h1 h2 _
    have e1 := pfun_pevalC_f' lb hD.1 σ pts ρ h1 h2
    have e2 := pfun_pevalC_f' ub hD.2 σ pts ρ h1 h2
    cases onB <;> simp only [Dom.pevalC, containsAux, e1, e2]
  | par v o c1 c2 =>
    intro onB pts ρ h1 h2 _
    have e1 := pfun_pevalC_f' o hD.1 σ pts ρ h1 h2
    have e2 := pfun_pevalC_f' c1 hD.2.1 σ pts ρ h1 h2
    have e3 := pfun_pevalC_f' c2 hD.2.2 σ pts ρ h1 h2
    cases onB <;> simp only [Dom.pevalC, containsAux, e1, e2, e3]
  | tri v o c1 c2 =>
    intro onB pts ρ h1 h2 _
    have e1 := pfun_pevalC_f' o hD.1 σ pts ρ h1 h2
    have e2 := pfun_pevalC_f' c1 hD.2.1 σ pts ρ h1 h2
    have e3 := pfun_pevalC_f' c2 hD.2.2 σ pts ρ h1 h2
    cases onB <;> simp only [Dom.pevalC, containsAux, e1, e2, e3]
  | circle v c r =>
    intro onB pts ρ h1 h2 _
    have e1 := pfun_pevalC_f' c hD.1 σ pts ρ h1 h2
    have e2 := pfun_pevalC_f' r hD.2 σ pts ρ h1 h2
    cases onB <;> simp only [Dom.pevalC, containsAux, e1, e2]
  | sphere v c r =>
    intro onB pts ρ h1 h2 _
    have e1 := pfun_pevalC_f' c hD.1 σ pts ρ h1 h2
    have e2 := pfun_pevalC_f' r hD.2 σ pts ρ h1 h2
    cases onB <;> simp only [Dom.pevalC, containsAux, e1, e2]
  | union a b iha ihb | cut a b iha ihb | inter a b iha ihb | prod a b iha ihb =>
    intro onB pts ρ h1 h2 hv
    simp only [Dom.coordVars, List.mem_append] at hv
    have ea := fun o => iha hD.1 o pts ρ h1 h2 (fun v hv' => hv v (Or.inl hv'))
    have eb := fun o => ihb hD.2 o pts ρ h1 h2 (fun v hv' => hv v (Or.inr hv'))
    cases onB <;> simp only [Dom.pevalC, containsAux, ea, eb]
  | translate v d t ih =>
    intro onB pts ρ h1 h2 hv
    simp only [Dom.coordVars, List.mem_cons] at hv
    have e1 := pfun_pevalC_f' t hD.2 σ pts ρ h1 h2
    have ed := fun (q : List K) => ih hD.1 onB [(v, q)] (pts.filter (fun b => b.1 != v) ++ ρ) (fresh_single σ v q (hv v (Or.inl rfl)))
      (fresh_append σ _ ρ (fresh_filter σ pts v h1) h2) (fun w hw => hv w (Or.inr hw))
    simp only [Dom.pevalC, containsAux, e1, ed, List.append_assoc]
  | rotate v d m c ih =>
    intro onB pts ρ h1 h2 hv
    simp only [Dom.coordVars, List.mem_cons] at hv
    have e1 := pfun_pevalC_f' m hD.2.1 σ pts ρ h1 h2
    have e2 := pfun_pevalC_f' c hD.2.2 σ pts ρ h1 h2
    have ed := fun (q : List K) => ih hD.1 onB [(v, q)] (pts.filter (fun b => b.1 != v) ++ ρ) (fresh_single σ v q (hv v (Or.inl rfl)))
      (fresh_append σ _ ρ (fresh_filter σ pts v h1) h2) (fun w hw => hv w (Or.inr hw))
    simp only [Dom.pevalC, containsAux, e1, e2, ed, List.append_assoc]
  | bdry d ih =>
    intro onB pts ρ h1 h2 hv
    cases onB
    · simp only [Dom.pevalC, containsAux]; exact ih hD true pts ρ h1 h2 hv
    · simp only [Dom.pevalC, containsAux]
  | bdryL d ih =>
    intro onB pts ρ h1 h2 hv
    cases d with
    | interval v lb ub =>
      have e1 := pfun_pevalC_f' lb hD.1 σ pts ρ h1 h2
      cases onB <;> simp only [Dom.pevalC, containsAux, e1]
    | _ => cases onB <;> simp only [Dom.pevalC, containsAux]
  | bdryR d ih =>
    intro onB pts ρ h1 h2 hv
    cases d with
    | interval v lb ub =>
      have e2 := pfun_pevalC_f' ub hD.2 σ pts ρ h1 h2
      cases onB <;> simp only [Dom.pevalC, containsAux, e2]
    | _ => cases onB <;> simp only [Dom.pevalC, containsAux]

theorem mem_pfun_pevalC_args (p : PFun K) (σ : Env K) (x : String) :
    x ∈ (p.pevalC σ).args ↔ x ∈ p.args ∧ σ.get x = none := by
  unfold PFun.pevalC
  split
  · rename_i hall
    simp only [List.not_mem_nil, false_iff, not_and]
    intro hx hn
    have hs : (σ.get x).isSome = true := (List.all_eq_true.1 hall) x hx
    simp [hn] at hs
  · exact mem_pfun_peval_args p σ x

theorem pevalC_vars (σ : Env K) (d : Dom K) : (d.pevalC σ).vars = d.vars := by
  induction d <;> simp_all [Dom.pevalC, Dom.vars]

/-- the declared variables of the as-coded evaluation are the same: those of `D` that `σ` does not fix -/
theorem pevalC_freeVars (σ : Env K) (D : Dom K) (x : String) :
    x ∈ (D.pevalC σ).freeVars ↔ x ∈ D.freeVars ∧ σ.get x = none := by
  induction D with
  | prod a b iha ihb =>
    simp only [Dom.pevalC, Dom.freeVars, mem_dedup, List.mem_append, List.mem_filter, iha, ihb, pevalC_vars]
    tauto
  | _ => simp_all [Dom.pevalC, Dom.freeVars, mem_pfun_pevalC_args]; try tauto

end pevalC

/-! ## 4. slicing a product at the coordinates of one factor -/

section slice
variable {K : Type} [Field K] [LinearOrder K] [IsStrictOrderedRing K]

theorem zipWith_isclose_self (πτ : Tol K) (h : πτ.ok) (xs : List K) :
    (List.zipWith (isclose πτ) xs xs).all id = true := by
  induction xs with
  | nil => rfl
  | cons x xs ih => simp only [List.zipWith_cons_cons, List.all_cons, id, isclose_self πτ h x, ih, Bool.and_self]

theorem pointContains_on (πτ : Tol K) (h : πτ.ok) (vs : List String) (σ pts : Env K)
    (hon : ∀ v ∈ vs, ∃ xs, pts.get v = some xs ∧ σ.get v = some xs) : pointContains πτ vs σ pts = some true := by
  induction vs with
  | nil => rfl
  | cons v vs ih =>
    have hrec := ih (fun w hw => hon w (List.mem_cons_of_mem _ hw))
    obtain ⟨xs, h1, h2⟩ := hon v List.mem_cons_self
    simp only [pointContains, List.foldr_cons] at hrec ⊢
    rw [hrec]
    simp [h1, h2]
    exact fun x _ => isclose_self πτ h x

/-- **Slice of a product.** `(A × B)(**σ)` where `σ` fixes all coordinates of `B` (and not those of `A`)
    becomes `A(**σ) × Point(σ|B)`.  For every point whose `B`-coordinates are the fixed values, provided the
    fixed values lie in `B` (evaluated at the remaining values): the sliced product contains the point iff
    the original product, evaluated at `ρ ∪ σ`, does. -/
theorem slice_contains_on (τ πτ : Tol K) (hπ : πτ.ok) (a b : Dom K) (σ pts ρ : Env K)
    (ha : fixesAll σ a.vars = false) (hb : fixesAll σ b.vars = true)
    (hon : ∀ v ∈ b.vars, ∃ xs, pts.get v = some xs ∧ σ.get v = some xs)
    (hin : containsAux τ false b pts (ρ ++ σ) = some true) :
    sliceContains τ πτ a b σ pts ρ = contains τ (.prod a b) pts (ρ ++ σ) := by
  simp only [sliceContains, ha, hb, pointContains_on πτ hπ b.vars σ pts hon, contains, containsAux,
    peval_containsAux, hin]
  cases containsAux τ false a pts (ρ ++ σ) <;> simp

/-- a point of the sliced product has every fixed coordinate within the tolerance of `Point._contains` -/
theorem slice_contains_close (τ πτ : Tol K) (a b : Dom K) (σ pts ρ : Env K) (w : String) (x y : K)
    (hb : fixesAll σ b.vars = true) (hbv : b.vars = [w]) (hx : pts.get w = some [x]) (hy : σ.get w = some [y])
    (h : sliceContains τ πτ a b σ pts ρ = some true) : |x - y| ≤ πτ.atol + πτ.rtol * |y| := by
  unfold sliceContains at h
  rw [hbv] at hb h
  simp only [hb, if_true, pointContains, List.foldr_cons, List.foldr_nil, hx, hy] at h
  split at h <;>
    (obtain ⟨r, _, hr⟩ := Option.bind_eq_some_iff.1 h
     simp at hr
     rw [← isclose_iff]
     exact hr.2)

/-- `necessary_variables` of the slice: those of `A` that are neither fixed nor coordinates of `B` -/
theorem slice_freeVars (a b : Dom K) (σ : Env K) (ha : fixesAll σ a.vars = false) (hb : fixesAll σ b.vars = true)
    (x : String) : x ∈ sliceFreeVars a b σ ↔ (x ∈ a.freeVars ∧ σ.get x = none) ∧ x ∉ b.vars := by
  simp [sliceFreeVars, ha, hb, peval_freeVars]

end slice

/-! ## 5. concrete instances: non-vacuity, and what was wrong in the pinned snapshot -/

section examples

def pT (f : Rat → List Rat) : PFun Rat := ⟨["t"], fun e => match e.get "t" with | some [t] => f t | _ => []⟩
def pS (f : Rat → List Rat) : PFun Rat := ⟨["s"], fun e => match e.get "s" with | some [s] => f s | _ => []⟩
def τ0 : Tol Rat := ⟨1/100000000, 1/100000, 1/100000⟩

theorem pT_dependsOnly (f : Rat → List Rat) : (pT f).DependsOnly := by
  intro e e' h
  have := h "t" (by simp [pT])
  simp [pT, this]

theorem pS_dependsOnly (f : Rat → List Rat) : (pS f).DependsOnly := by
  intro e e' h
  have := h "s" (by simp [pS])
  simp [pS, this]

theorem const_dependsOnly (c : List Rat) : (PFun.const c).DependsOnly := fun _ _ _ => rfl

/-- a time interval `[t, t+1]`, its left boundary point, and the moving square-minus-disc of C05 -/
def exI : Dom Rat := .interval "y" (pT fun t => [t]) (pT fun t => [t + 1])

/-- non-vacuity of `peval_contains` / `peval_freeVars`: `exDom(t = 1/2)` contains (1, 3), and declares nothing -/
example : contains τ0 (exDom.peval [("t", [1/2])]) [("x", [1, 3])] [] = some true := by
  rw [peval_contains]; decide +kernel
example : exDom.freeVars = ["t"] ∧ (exDom.peval [("t", [1/2])]).freeVars = [] := by decide
example : mem (exDom.peval [("t", [1/2])]) [("x", [1, 3])] [] := by
  rw [peval_mem]
  refine (contains_iff_mem τ0 exDom _ _ true ?_ ?_ ?_).1 rfl
  · simp [exDom, Dom.solid]
  · simp only [exDom, NonDeg, PFun.const]
    refine ⟨?_, trivial⟩
    intro ox oy ax ay bx cy h1 h2 h3
    simp only [List.cons.injEq, and_true] at h1 h2 h3
    obtain ⟨rfl, rfl⟩ := h1; obtain ⟨rfl, rfl⟩ := h2; obtain ⟨rfl, rfl⟩ := h3
    norm_num
  · decide +kernel
/-- non-vacuity of `freeVars_sound`: `exDom` is accepted by the constructors, its parameters read only `t` -/
example : exDom.wf = true ∧ exDom.DependsOnly :=
  ⟨by decide, ⟨const_dependsOnly _, const_dependsOnly _, const_dependsOnly _⟩, by
    refine ⟨?_, const_dependsOnly _⟩
    intro e e' h
    have := h "t" (by simp)
    simp [this]⟩
/-- the boundary point `I.boundary_left(t = 1)` of `[t, t+1]` is the point 1 and declares nothing -/
example : contains τ0 ((Dom.bdryL exI).peval [("t", [1])]) [("y", [1])] [] = some true ∧
    ((Dom.bdryL exI).peval [("t", [1])]).freeVars = [] := by
  constructor <;> decide +kernel

/-- **Pinned snapshot, defect 1** (`IntervalSingleBoundaryPoint.__call__` did not evaluate `side`):
    `I.boundary_left(t = 1)` declared no variable, yet its membership test rejected every query that did not
    supply `t` again (the code raised "t is necessary"), while `I.boundary_left` at `t = 1` contains 1. -/
theorem old_side_not_evaluated :
    bdrySideContainsOld τ0 true exI [("t", [1])] [("y", [1])] [] = none ∧
    contains τ0 (.bdryL exI) [("y", [1])] ([] ++ [("t", [1])]) = some true := by
  constructor <;> decide +kernel

/-- a unit square turned by 90° about the moving centre (s, 0) -/
def exR : Dom Rat :=
  .rotate "x" (.par "x" (.const [0, 0]) (.const [1, 0]) (.const [0, 1])) (.const [0, -1, 1, 0]) (pS fun s => [s, 0])

/-- **Pinned snapshot, defect 2** (`Rotate.__init__` registered only the variables of the matrix): the set
    depends on `s` — (-1/2, 1/2) is inside for s = 0 and outside for s = 1 — but `s` was not declared.
    The repaired rule declares it. -/
theorem old_rotate_vars_unsound :
    exR.freeVarsOld = [] ∧ exR.freeVars = ["s"] ∧
    contains τ0 exR [("x", [-1/2, 1/2])] [("s", [0])] = some true ∧
    contains τ0 exR [("x", [-1/2, 1/2])] [("s", [1])] = some false := by
  refine ⟨by decide, by decide, by decide +kernel, by decide +kernel⟩

/-- a disc of radius t + 1, translated, times the time interval: the dependent factor sits below a motion -/
def exMP : Dom Rat :=
  .prod (.translate "x" (.circle "x" (.const [0, 0]) (pT fun t => [t + 1])) (.const [1, 0]))
        (.interval "t" (.const [0]) (.const [1]))

/-- **Dependence below a motion node inside a product** (`Translate(Circle(r = t + 1)) × Interval_t`): the
    expression declares no variable (t is bound by the product), the constructors accept it, and — since
    /repo 414d4d6 and the base model that follows it — the membership test hands the partner coordinate down
    through the translation: no parameter row is needed.  (Before the repair the test raised "t is necessary"
    unless the row supplied `t` once more; `Dom.wf` then had to exclude this shape.) -/
theorem motion_below_product :
    exMP.freeVars = [] ∧ exMP.wf = true ∧
    contains τ0 exMP [("x", [1, 0]), ("t", [1/2])] [] = some true ∧
    contains τ0 exMP [("x", [3, 0]), ("t", [1/2])] [] = some false := by
  refine ⟨by decide, by decide, by decide +kernel, by decide +kernel⟩

def exC : Dom Rat := .interval "y" (.const [0]) (pT fun t => [t + 1])

/-- **Re-binding a fixed variable is not meaningful**: with the completely evaluated bound `t + 1 = 1` the
    later row `t = 5` is ignored by the code (`pevalC`), while a partially evaluated function would let the
    row win (`peval`).  `pevalC_containsAux` needs its freshness hypothesis. -/
theorem rebinding_differs :
    contains τ0 (exC.peval [("t", [0])]) [("y", [2])] [("t", [5])] = some true ∧
    contains τ0 (exC.pevalC [("t", [0])]) [("y", [2])] [("t", [5])] = some false := by
  constructor <;> decide +kernel

/-- non-vacuity of the slice theorems: (disc of radius t + 1) × [0, 1] fixed at t = 1/2 -/
def exSA : Dom Rat := .circle "x" (.const [0, 0]) (pT fun t => [t + 1])
def exSB : Dom Rat := .interval "t" (.const [0]) (.const [1])
example : sliceContains τ0 ⟨1/1000, 1/100000, 1/1000⟩ exSA exSB [("t", [1/2])] [("x", [1, 1]), ("t", [1/2])] [] = some true ∧
    sliceContains τ0 ⟨1/1000, 1/100000, 1/1000⟩ exSA exSB [("t", [1/2])] [("x", [1, 1]), ("t", [3/4])] [] = some false ∧
    fixesAll (K := Rat) [("t", [1/2])] exSA.vars = false ∧ fixesAll (K := Rat) [("t", [1/2])] exSB.vars = true ∧
    sliceFreeVars exSA exSB [("t", [(1/2 : Rat)])] = [] := by
  refine ⟨by decide +kernel, by decide +kernel, by decide, by decide, by decide⟩

end examples

/-! ## 6. user-set volumes, purity on a heap of parameter objects -/

section uvol
variable {K : Type} [Add K] [Sub K] [Mul K] [Div K] [Neg K] [LE K] [DecidableLE K] [OfNat K 0] [OfNat K 1]

/-- **A user-set volume commutes with partial evaluation** (code after 98178e0) -/
theorem upeval_volume (builtin : Dom K → Env K → Option K) (σ : Env K)
    (hb : ∀ D ρ, builtin (D.peval σ) ρ = builtin D (ρ ++ σ)) (u : UDom K) (ρ : Env K) :
    (u.peval σ).volume builtin ρ = u.volume builtin (ρ ++ σ) := by
  obtain ⟨d, uv⟩ := u
  cases uv with
  | none => simp [UDom.peval, UDom.volume, hb]
  | some f => simp [UDom.peval, UDom.volume, PFun.peval]

/-- every built-in volume that is a function of the evaluated shape parameters qualifies -/
theorem upeval_volume_ground (F : Shape K → Option K) (σ : Env K) (u : UDom K) (ρ : Env K) :
    (u.peval σ).volume (fun D ρ => F (D.ground ρ)) ρ = u.volume (fun D ρ => F (D.ground ρ)) (ρ ++ σ) :=
  upeval_volume _ σ (fun D ρ => by show F ((D.peval σ).ground ρ) = F (D.ground (ρ ++ σ)); rw [peval_ground]) u ρ
end uvol

section heap
variable {K : Type}

theorem callCopy_ext (σ : Env K) (rs : List PRef) : ∀ (h : Heap K) (rs' : List PRef) (h' : Heap K),
    callCopy σ rs h = some (rs', h') → ∃ ext, h' = h ++ ext := by
  induction rs with
  | nil => intro h rs' h' e; simp only [callCopy, Option.some.injEq, Prod.mk.injEq] at e; exact ⟨[], by simp [e.2]⟩
  | cons r rs ih =>
    intro h rs' h' e
    simp only [callCopy] at e
    split at e
    · simp at e
    · rename_i d hd
      split at e
      · simp at e
      · rename_i rs'' h'' hc
        simp only [Option.some.injEq, Prod.mk.injEq] at e
        obtain ⟨ext, he⟩ := ih _ _ _ hc
        exact ⟨(restrictTo r.args σ ++ d) :: ext, by rw [← e.2, he]; simp⟩

/-- **Purity.** `D(**σ)` (deep copy + `set_default`) only *adds* cells: every cell that existed before the call
    is unchanged, so every object that existed before — the original `D` in particular — reads exactly the
    same defaults after the call, whatever `σ`, however often the call is repeated. -/
theorem callCopy_pure (σ : Env K) (rs : List PRef) (h : Heap K) (rs' : List PRef) (h' : Heap K)
    (e : callCopy σ rs h = some (rs', h')) (other : List PRef) (ho : ∀ r ∈ other, r.cell < h.length) :
    readObj other h' = readObj other h := by
  obtain ⟨ext, rfl⟩ := callCopy_ext σ rs h rs' h' e
  simp only [readObj]
  apply List.map_congr_left
  intro r hr
  exact List.getElem?_append_left (ho r hr)

/-- the new object has the same argument lists, and all its parameter objects are fresh cells -/
theorem callCopy_fresh (σ : Env K) (rs : List PRef) : ∀ (h : Heap K) (rs' : List PRef) (h' : Heap K),
    callCopy σ rs h = some (rs', h') → rs'.map (·.args) = rs.map (·.args) ∧ (∀ r ∈ rs', h.length ≤ r.cell) := by
  induction rs with
  | nil =>
    intro h rs' h' e
    simp only [callCopy, Option.some.injEq, Prod.mk.injEq] at e
    obtain ⟨rfl, rfl⟩ := e
    exact ⟨rfl, by simp⟩
  | cons r rs ih =>
    intro h rs' h' e
    simp only [callCopy] at e
    split at e
    · simp at e
    · rename_i d hd
      split at e
      · simp at e
      · rename_i rs'' h'' hc
        simp only [Option.some.injEq, Prod.mk.injEq] at e
        obtain ⟨rfl, rfl⟩ := e
        obtain ⟨i1, i2⟩ := ih _ _ _ hc
        refine ⟨by simp [i1], ?_⟩
        intro r' hr'
        simp only [List.mem_cons] at hr'
        rcases hr' with rfl | hr'
        · exact Nat.le_refl _
        · have := i2 r' hr'; simp at this; omega

/-- one parameter object: the copy's defaults are the given values (restricted to the arguments) in front of
    the old defaults — evaluating the function with them is `PFun.peval` (`p.f (e ++ σ ++ old)`) -/
theorem callCopy_single (σ : Env K) (r : PRef) (h : Heap K) (d : Env K) (hd : h[r.cell]? = some d) :
    callCopy σ [r] h = some ([⟨r.args, h.length⟩], h ++ [restrictTo r.args σ ++ d]) := by
  simp [callCopy, hd]

/-- **Without the deep copy the original changes**: one parameter `f(t)` without defaults, `D(t = 1)` in place:
    afterwards the original's parameter has the default `t = 1` -/
theorem callInPlace_not_pure :
    callInPlace (K := Rat) [("t", [1])] [⟨["t"], 0⟩] [[]] = some [[("t", [1])]] ∧
    readObj [⟨["t"], 0⟩] ([[("t", [(1 : Rat)])]] : Heap Rat) ≠ readObj [⟨["t"], 0⟩] ([[]] : Heap Rat) := by
  constructor <;> decide

example : callCopy (K := Rat) [("t", [1])] [⟨["t"], 0⟩] [[]] = some ([⟨["t"], 1⟩], [[], [("t", [1])]]) := by decide

end heap

/-! ## 7. every declared variable matters -/


section sens
variable {K : Type} [Add K] [Sub K] [Mul K] [Div K] [Neg K] [LE K] [DecidableLE K] [OfNat K 0] [OfNat K 1]

/-- changing the value of `x` (everything else equal) changes the value of the parameter -/
def PFun.Sensitive (p : PFun K) (x : String) : Prop :=
  ∀ (e : Env K) (u u' : K), u ≠ u' → p.f (Env.set e x [u]) ≠ p.f (Env.set e x [u'])

/-- every shape parameter of the expression is sensitive to each of its declared arguments
    (true of the affine parameter functions with non-zero coefficients the harness generates) -/
def Dom.AllSensitive : Dom K → Prop
  | .interval _ lb ub => (∀ x ∈ lb.args, lb.Sensitive x) ∧ (∀ x ∈ ub.args, ub.Sensitive x)
  | .par _ o c1 c2 | .tri _ o c1 c2 =>
    (∀ x ∈ o.args, o.Sensitive x) ∧ (∀ x ∈ c1.args, c1.Sensitive x) ∧ (∀ x ∈ c2.args, c2.Sensitive x)
  | .circle _ c r | .sphere _ c r => (∀ x ∈ c.args, c.Sensitive x) ∧ (∀ x ∈ r.args, r.Sensitive x)
  | .union a b | .cut a b | .inter a b | .prod a b => a.AllSensitive ∧ b.AllSensitive
  | .translate _ d t => d.AllSensitive ∧ (∀ x ∈ t.args, t.Sensitive x)
  | .rotate _ d m c => d.AllSensitive ∧ (∀ x ∈ m.args, m.Sensitive x) ∧ (∀ x ∈ c.args, c.Sensitive x)
  | .bdry d | .bdryL d | .bdryR d => d.AllSensitive

/-- all arguments of all shape parameters -/
def Dom.allArgs : Dom K → List String
  | .interval _ lb ub => lb.args ++ ub.args
  | .par _ o c1 c2 | .tri _ o c1 c2 => o.args ++ c1.args ++ c2.args
  | .circle _ c r | .sphere _ c r => r.args ++ c.args
  | .union a b | .cut a b | .inter a b | .prod a b => a.allArgs ++ b.allArgs
  | .translate _ d t => t.args ++ d.allArgs
  | .rotate _ d m c => m.args ++ c.args ++ d.allArgs
  | .bdry d | .bdryL d | .bdryR d => d.allArgs

theorem freeVars_sub_allArgs (D : Dom K) (x : String) : x ∈ D.freeVars → x ∈ D.allArgs := by
  induction D with
  | prod a b iha ihb =>
    simp only [Dom.freeVars, Dom.allArgs, mem_dedup, List.mem_append, List.mem_filter]
    rintro (⟨h, _⟩ | h)
    · exact Or.inl (iha h)
    · exact Or.inr (ihb h)
  | _ => simp_all [Dom.freeVars, Dom.allArgs] <;> tauto

/-- **Every declared variable matters** (`freeVars_exact`, the remaining half, under the sensitivity of the
    parameter functions): changing the value of a declared variable in the parameter row changes the ground
    expression — some shape parameter (a bound, a corner, a centre, a radius, a translation, a rotation)
    takes another value. -/
theorem freeVars_matter (D : Dom K) (hs : D.AllSensitive) (x : String) (hx : x ∈ D.freeVars)
    (ρ : Env K) (u u' : K) (hu : u ≠ u') : D.ground (Env.set ρ x [u]) ≠ D.ground (Env.set ρ x [u']) := by
  have hx' := freeVars_sub_allArgs D x hx
  clear hx
  induction D with
  | interval v lb ub =>
    simp only [Dom.allArgs, List.mem_append] at hx'
    simp only [Dom.ground, ne_eq, Shape.prim.injEq, true_and, List.cons.injEq, and_true, not_and]
    rcases hx' with h | h
    · intro e; exact absurd e (hs.1 x h ρ u u' hu)
    · intro _ e; exact absurd e (hs.2 x h ρ u u' hu)
  | par v o c1 c2 | tri v o c1 c2 =>
    simp only [Dom.allArgs, List.mem_append] at hx'
    simp only [Dom.ground, ne_eq, Shape.prim.injEq, true_and, List.cons.injEq, and_true, not_and]
    rcases hx' with (h | h) | h
    · intro e; exact absurd e (hs.1 x h ρ u u' hu)
    · intro _ e; exact absurd e (hs.2.1 x h ρ u u' hu)
    · intro _ _ e; exact absurd e (hs.2.2 x h ρ u u' hu)
  | circle v c r | sphere v c r =>
    simp only [Dom.allArgs, List.mem_append] at hx'
    simp only [Dom.ground, ne_eq, Shape.prim.injEq, true_and, List.cons.injEq, and_true, not_and]
    rcases hx' with h | h
    · intro _ e; exact absurd e (hs.2 x h ρ u u' hu)
    · intro e; exact absurd e (hs.1 x h ρ u u' hu)
  | union a b iha ihb | cut a b iha ihb | inter a b iha ihb | prod a b iha ihb =>
    simp only [Dom.allArgs, List.mem_append] at hx'
    simp only [Dom.ground, ne_eq, Shape.op.injEq, true_and, not_and]
    rcases hx' with h | h
    · intro e; exact absurd e (iha hs.1 h)
    · intro _ e; exact absurd e (ihb hs.2 h)
  | translate v d t ih =>
    simp only [Dom.allArgs, List.mem_append] at hx'
    simp only [Dom.ground, ne_eq, Shape.motion.injEq, true_and, List.cons.injEq, and_true, not_and]
    rcases hx' with h | h
    · intro _ e; exact absurd e (hs.2 x h ρ u u' hu)
    · intro e; exact absurd e (ih hs.1 h)
  | rotate v d m c ih =>
    simp only [Dom.allArgs, List.mem_append] at hx'
    simp only [Dom.ground, ne_eq, Shape.motion.injEq, true_and, List.cons.injEq, and_true, not_and]
    rcases hx' with (h | h) | h
    · intro _ e; exact absurd e (hs.2.1 x h ρ u u' hu)
    · intro _ _ e; exact absurd e (hs.2.2 x h ρ u u' hu)
    · intro e; exact absurd e (ih hs.1 h)
  | bdry d ih | bdryL d ih | bdryR d ih =>
    simp only [Dom.allArgs] at hx'
    simp only [Dom.ground, ne_eq, Shape.bd.injEq, true_and]
    exact ih hs hx'
end sens

/-- the generator's parameter functions: `k + a·t` with `a ≠ 0` is sensitive to `t` -/
theorem affine_sensitive (k a : Rat) (ha : a ≠ 0) : (pT fun t => [k + a * t]).Sensitive "t" := by
  intro e u u' hu
  simp only [pT, Env.set, Env.get, List.lookup_cons, beq_self_eq_true, ne_eq, List.cons.injEq, and_true]
  intro h
  apply hu
  have : a * u = a * u' := by linarith
  exact mul_left_cancel₀ ha this


/-- non-vacuity of `freeVars_matter`: the interval `[t, 1 + t]` -/
example : (Dom.interval "y" (pT fun t => [0 + 1 * t]) (pT fun t => [1 + 1 * t]) : Dom Rat).AllSensitive :=
  ⟨fun x hx => by simp [pT] at hx; subst hx; exact affine_sensitive 0 1 (by norm_num),
   fun x hx => by simp [pT] at hx; subst hx; exact affine_sensitive 1 1 (by norm_num)⟩

/-- **Pinned snapshot, defect 3** (`__call__` dropped a volume set with `set_volume`): the disc of radius `t + 1`
    with the user volume `7 t` has volume 7 at `t = 1`; the evaluated copy kept it only after /repo 98178e0
    (`builtin` stands for the built-in formula, here the constant 28). -/
theorem old_user_volume_lost :
    (⟨exSA, some (pT fun t => [7 * t])⟩ : UDom Rat).volume (fun _ _ => some 28) [("t", [1])] = some 7 ∧
    ((⟨exSA, some (pT fun t => [7 * t])⟩ : UDom Rat).peval [("t", [1])]).volume (fun _ _ => some 28) [] = some 7 ∧
    ((⟨exSA, some (pT fun t => [7 * t])⟩ : UDom Rat).pevalOld [("t", [1])]).volume (fun _ _ => some 28) [] = some 28 := by
  refine ⟨by decide +kernel, by decide +kernel, by decide +kernel⟩

/-! ## 8. supplying a variable again (a Python default of the user's function, or a value of an earlier call) -/

/-- the interval `[0, t·s]` and `[0, t·k]` -/
def pTS (a b : String) : PFun Rat :=
  ⟨[a, b], fun e => match e.get a, e.get b with | some [x], some [y] => [x * y] | _, _ => []⟩
def exTS : Dom Rat := .interval "y" (.const [0]) (pTS "t" "s")
def exTK : Dom Rat := .interval "y" (.const [0]) (pTS "t" "k")

/-- **The later value wins as long as the function is not yet a constant** (as coded: `partially_evaluate`
    builds the call from the given arguments first, the stored defaults only fill the rest):
    `D(t=1)(t=2, s=3)` is `[0, 6]`, not `[0, 3]`; with the Python default `k = 2` of `def upper(t, k=2)`,
    `D(t=3, k=5)` is `[0, 15]`, not `[0, 6]` — exactly what supplying the same values as parameter rows gives
    (`D(t=1)` at the row `t=2, s=3`; `D` at the row `t=3, k=5`). -/
theorem resupply_later_wins :
    contains τ0 ((exTS.pevalC [("t", [1])]).pevalC [("t", [2]), ("s", [3])]) [("y", [5])] [] = some true ∧
    contains τ0 ((exTS.pevalC [("t", [1])]).pevalC [("t", [2]), ("s", [3])]) [("y", [7])] [] = some false ∧
    contains τ0 (exTS.pevalC [("t", [1])]) [("y", [5])] [("t", [2]), ("s", [3])] = some true ∧
    contains τ0 ((exTK.peval [("k", [2])]).pevalC [("t", [3]), ("k", [5])]) [("y", [14])] [] = some true ∧
    contains τ0 ((exTK.peval [("k", [2])]).pevalC [("t", [3]), ("k", [5])]) [("y", [16])] [] = some false ∧
    contains τ0 (exTK.peval [("k", [2])]) [("y", [14])] [("t", [3]), ("k", [5])] = some true ∧
    ((exTK.peval [("k", [2])]).freeVars = ["t"]) := by
  refine ⟨by decide +kernel, by decide +kernel, by decide +kernel, by decide +kernel, by decide +kernel, by decide +kernel, by decide⟩

/-! ## 9. one call that fixes the variables of several factors -/

section sliceRec
variable {K : Type} [Field K] [LinearOrder K] [IsStrictOrderedRing K]

/-- the point carries exactly the fixed values on the variables of `d`, and those values lie in `d` -/
def OnFixed (τ : Tol K) (σ pts ρ : Env K) (d : Dom K) : Prop :=
  (∀ v ∈ d.vars, ∃ xs, pts.get v = some xs ∧ σ.get v = some xs) ∧ containsAux τ false d pts (ρ ++ σ) = some true

/-- every factor that the call fixes completely is met exactly by the point, with values inside that factor -/
def SliceOK (τ : Tol K) (σ pts ρ : Env K) : Dom K → Prop
  | .prod a b =>
    (if fixesAll σ a.vars = true then OnFixed τ σ pts ρ a else SliceOK τ σ pts ρ a) ∧
    (if fixesAll σ b.vars = true then OnFixed τ σ pts ρ b else SliceOK τ σ pts ρ b)
  | .union a b | .cut a b | .inter a b => SliceOK τ σ pts ρ a ∧ SliceOK τ σ pts ρ b
  | _ => True

/-- **One call that fixes the variables of several factors** (any nesting of products, Boolean combinations of
    products): every completely fixed factor becomes a point — all of them, also both factors of one product —
    and on the slice (the point carries the fixed values, which lie in their factors) the evaluated expression
    answers exactly like the original evaluated at `ρ ∪ σ`. -/
theorem sliceRec_on (τ πτ : Tol K) (hπ : πτ.ok) (σ pts ρ : Env K) (D : Dom K) (h : SliceOK τ σ pts ρ D) :
    sliceRec τ πτ σ D pts ρ = contains τ D pts (ρ ++ σ) := by
  induction D with
  | prod a b iha ihb =>
    simp only [SliceOK] at h
    by_cases hfa : fixesAll σ a.vars = true <;> by_cases hfb : fixesAll σ b.vars = true <;>
      simp only [hfa, hfb, if_true, if_false, Bool.false_eq_true] at h
    · simp only [sliceRec, hfa, hfb, if_true, contains, containsAux, pointContains_on πτ hπ a.vars σ pts h.1.1, h.1.2,
        pointContains_on πτ hπ b.vars σ pts h.2.1, h.2.2]
    · have eb := ihb h.2
      simp only [contains] at eb
      simp only [sliceRec, hfa, hfb, if_true, if_false, Bool.false_eq_true, contains, containsAux,
        pointContains_on πτ hπ a.vars σ pts h.1.1, h.1.2, eb]
    · have ea := iha h.1
      simp only [contains] at ea
      simp only [sliceRec, hfa, hfb, if_true, if_false, Bool.false_eq_true, contains, containsAux,
        pointContains_on πτ hπ b.vars σ pts h.2.1, h.2.2, ea]
    · have ea := iha h.1
      have eb := ihb h.2
      simp only [contains] at ea eb
      simp only [sliceRec, hfa, hfb, if_false, Bool.false_eq_true, contains, containsAux, ea, eb]
  | union a b iha ihb | cut a b iha ihb | inter a b iha ihb =>
    simp only [SliceOK] at h
    have ea := iha h.1
    have eb := ihb h.2
    simp only [contains] at ea eb
    simp only [sliceRec, contains, containsAux, ea, eb]
  | _ => simp only [sliceRec, contains, peval_containsAux]

/-- both factors fixed by one call: the result is the single point — a point with another value on a fixed
    coordinate is rejected (this is what an `elif` between the two tests of `ProductDomain.__call__` breaks) -/
theorem sliceRec_joint_close (τ πτ : Tol K) (a b : Dom K) (σ pts ρ : Env K) (w : String) (x y : K)
    (ha : fixesAll σ a.vars = true) (hb : fixesAll σ b.vars = true) (hbv : b.vars = [w])
    (hx : pts.get w = some [x]) (hy : σ.get w = some [y])
    (h : sliceRec τ πτ σ (.prod a b) pts ρ = some true) : |x - y| ≤ πτ.atol + πτ.rtol * |y| := by
  rw [hbv] at hb
  simp only [sliceRec, ha, hb, if_true, hbv, pointContains, List.foldr_cons, List.foldr_nil, hx, hy] at h
  obtain ⟨r, _, hr⟩ := Option.bind_eq_some_iff.1 h
  simp at hr
  rw [← isclose_iff]
  exact hr.2

end sliceRec

/-- non-vacuity and the seeded scenario: (disc of radius t + 1) × [0, 1], fixed at x = (1/10, 1/5) and t = 1/2 by ONE
    call: the result contains exactly that point (t = 3/4 is rejected), although it lies in the original product -/
theorem joint_slice_example :
    sliceRec τ0 ⟨1/1000, 1/100000, 1/1000⟩ [("x", [1/10, 1/5]), ("t", [1/2])] (.prod exSA exSB) [("x", [1/10, 1/5]), ("t", [1/2])] [] = some true ∧
    sliceRec τ0 ⟨1/1000, 1/100000, 1/1000⟩ [("x", [1/10, 1/5]), ("t", [1/2])] (.prod exSA exSB) [("x", [1/10, 1/5]), ("t", [3/4])] [] = some false ∧
    contains τ0 (.prod exSA exSB) [("x", [1/10, 1/5]), ("t", [3/4])] ([] ++ [("x", [1/10, 1/5]), ("t", [1/2])]) = some true ∧
    sliceRecFreeVars [("x", [(1/10 : Rat), 1/5]), ("t", [1/2])] (.prod exSA exSB) = [] := by
  refine ⟨by decide +kernel, by decide +kernel, by decide +kernel, by decide⟩

end TPV.Geom
