/-
  C04 (order invariance) — the loss of a single-module condition does not depend on any ORDER that Python
  leaves to the user: the order of the variables in the sampler's space (together with the layout of the
  sampled rows), the order of the data-function dict, the order of the learnable-parameter dict, and the
  order in which the model lists its input and its output variables.
  One packaged theorem (`smLoss_perm`), its helper lemmas, and concrete non-vacuity instances.
-/
import TPV.Props.C04

namespace TPV.Cond
open TPV.CondExpr

section dicts
variable {K : Type}

/-- LOOKUP-EQUIVALENCE of two dicts: every key is answered identically (both absent, or the same value).
    This is all a by-name consumer (`UserFunction.__call__`, `_fix_points_order`) can observe. -/
def DictEq (d d' : Named K) : Prop := ∀ k, d.lookup k = d'.lookup k

/-- a dict is lookup-equivalent to itself -/
theorem DictEq.refl (d : Named K) : DictEq d d := fun _ => rfl

/-- lookup-equivalence is symmetric -/
theorem DictEq.symm {d d' : Named K} (h : DictEq d d') : DictEq d' d := fun k => (h k).symm

/-- lookup-equivalence is transitive -/
theorem DictEq.trans {a b c : Named K} (h1 : DictEq a b) (h2 : DictEq b c) : DictEq a c :=
  fun k => (h1 k).trans (h2 k)

/-- dict unpacking `{**b, **a}` (= `a ++ b` with first-match lookup) respects lookup-equivalence of the parts -/
theorem DictEq.append {a a' b b' : Named K} (h1 : DictEq a a') (h2 : DictEq b b') :
    DictEq (a ++ b) (a' ++ b') := by
  intro k
  simp only [List.lookup_append, h1 k, h2 k]

/-- a dict with pairwise distinct keys is lookup-equivalent to every re-ordering of its entries -/
theorem DictEq.of_perm {d d' : Named K} (hp : d.Perm d') (hn : (d.map (·.1)).Nodup) : DictEq d d' :=
  fun k => lookup_perm hp hn k

end dicts

section lists

/-- `mapM` in `Except` on a non-empty list succeeds exactly when the head and the tail succeed -/
theorem mapM_cons_ok {α β ε : Type} {f : α → Except ε β} (a : α) (l : List α) (r : List β) :
    (a :: l).mapM f = .ok r ↔ ∃ b bs, f a = .ok b ∧ l.mapM f = .ok bs ∧ r = b :: bs := by
  simp only [List.mapM_cons, bind, Except.bind, pure, Except.pure]
  cases hfa : f a with
  | error e => simp
  | ok b =>
    cases hl : l.mapM f with
    | error e => simp
    | ok bs => simp [eq_comm]

/-- `mapM` over a RE-ORDERED list: if every element of the list is mapped successfully, the re-ordered list
    is mapped successfully too, and the results are the same up to the same re-ordering.
    (Only for the successful case: with several failing elements the FIRST error depends on the order.) -/
theorem mapM_perm {α β ε : Type} {f : α → Except ε β} {l l' : List α} (hp : l.Perm l') :
    ∀ r, l.mapM f = .ok r → ∃ r', l'.mapM f = .ok r' ∧ r.Perm r' := by
  induction hp with
  | nil => intro r h; exact ⟨r, h, .refl _⟩
  | cons a _ ih =>
    intro r h
    obtain ⟨b, bs, hfa, hl, rfl⟩ := (mapM_cons_ok a _ r).mp h
    obtain ⟨bs', hl', hp'⟩ := ih bs hl
    exact ⟨b :: bs', (mapM_cons_ok a _ _).mpr ⟨b, bs', hfa, hl', rfl⟩, hp'.cons b⟩
  | swap a a' l =>
    intro r h
    obtain ⟨b', bs1, hfa', hl1, rfl⟩ := (mapM_cons_ok a' _ r).mp h
    obtain ⟨b, bs, hfa, hl, rfl⟩ := (mapM_cons_ok a _ bs1).mp hl1
    refine ⟨b :: b' :: bs, ?_, List.Perm.swap ..⟩
    exact (mapM_cons_ok a _ _).mpr ⟨b, b' :: bs, hfa, (mapM_cons_ok a' _ _).mpr ⟨b', bs, hfa', hl, rfl⟩, rfl⟩
  | trans _ _ ih1 ih2 =>
    intro r h
    obtain ⟨r1, h1, hp1⟩ := ih1 r h
    obtain ⟨r2, h2, hp2⟩ := ih2 r1 h1
    exact ⟨r2, h2, hp1.trans hp2⟩

/-- transfer of a successful `mapM` along a pairing of two lists: if, pair by pair, success of `f` on the left
    element forces the same success of `g` on the right element, the whole results agree -/
theorem mapM_transfer {α α' β ε : Type} {f : α → Except ε β} {g : α' → Except ε β} {l : List α} {l' : List α'}
    (h : List.Forall₂ (fun a a' => ∀ b, f a = .ok b → g a' = .ok b) l l') :
    ∀ r, l.mapM f = .ok r → l'.mapM g = .ok r := by
  induction h with
  | nil => intro r h; simpa using h
  | cons hab _ ih =>
    intro r h
    obtain ⟨b, bs, hfa, hl, rfl⟩ := (mapM_cons_ok _ _ r).mp h
    exact (mapM_cons_ok _ _ _).mpr ⟨b, bs, hab b hfa, ih bs hl, rfl⟩

/-- pairing two lists element by element also pairs their enumerations: corresponding elements carry the
    SAME row index -/
theorem forall₂_zipIdx {α α' : Type} {R : α → α' → Prop} {l : List α} {l' : List α'} (h : List.Forall₂ R l l') :
    ∀ k : Nat, List.Forall₂ (fun a b => R a.1 b.1 ∧ a.2 = b.2) (l.zipIdx k) (l'.zipIdx k) := by
  induction h with
  | nil => intro k; simp
  | cons hab _ ih =>
    intro k
    simp only [List.zipIdx_cons]
    exact .cons ⟨hab, rfl⟩ (ih (k + 1))

/-- two element-wise relations between the same two lists hold jointly -/
theorem forall₂_and {α α' : Type} {R S : α → α' → Prop} {l : List α} {l' : List α'}
    (h1 : List.Forall₂ R l l') (h2 : List.Forall₂ S l l') : List.Forall₂ (fun a b => R a b ∧ S a b) l l' := by
  induction h1 with
  | nil => exact .nil
  | cons hab _ ih =>
    cases h2 with
    | cons hab' h2' => exact .cons ⟨hab, hab'⟩ (ih h2')

end lists

section nets
variable {K : Type}

/-- the two networks AGREE BY NAME at the input pair `(x, x')`: either both reject their input, or both answer
    and the outputs and the derivative information are lookup-equivalent dicts -/
def NetAgree (m m' : Net K) (x x' : Named K) : Prop :=
  match m.apply x, m'.apply x' with
  | .ok (y, d), .ok (y', d') => DictEq y y' ∧ DictEq d d'
  | .error _, .error _ => True
  | _, _ => False

/-- the two networks compute the same thing BY NAME on the inputs in `S`: whenever `x ∈ S` has distinct
    variable names and `x'` is a re-ordering of `x`, the networks agree at `(x, x')` -/
def NetEquivOn (S : Named K → Prop) (m m' : Net K) : Prop :=
  ∀ x x' : Named K, S x → (x.map (·.1)).Nodup → x.Perm x' → NetAgree m m' x x'

/-- the two networks compute the same thing by name on EVERY input with distinct variable names -/
def NetEquiv (m m' : Net K) : Prop := NetEquivOn (fun _ => True) m m'

/-- by-name equivalence on a larger set of inputs implies by-name equivalence on a smaller one -/
theorem NetEquivOn.mono {S T : Named K → Prop} {m m' : Net K} (h : NetEquivOn T m m') (hst : ∀ x, S x → T x) :
    NetEquivOn S m m' := fun x x' hs hn hp => h x x' (hst x hs) hn hp

/-- EVERY network is by-name equivalent to itself: feeding it the same point with the variables listed in
    another order changes nothing (`_fix_points_order` re-orders by name) -/
theorem NetEquiv_refl (m : Net K) : NetEquiv m m := by
  intro x x' _ hn hp
  have hfix : fixOrder m.inSpace x = fixOrder m.inSpace x' := fixOrder_perm m.inSpace hp hn
  have happ : m.apply x = m.apply x' := by unfold Net.apply; rw [hfix]
  unfold NetAgree
  rw [happ]
  cases m.apply x' with
  | error e => trivial
  | ok yd => exact ⟨DictEq.refl _, DictEq.refl _⟩

/-- a sufficient, DECIDABLE form of `NetAgree` (used for the concrete instances below): both reject, or both
    answer with outputs / derivative dicts that have distinct keys and are re-orderings of each other -/
def NetAgreeDec (m m' : Net K) (x x' : Named K) : Prop :=
  match m.apply x, m'.apply x' with
  | .ok (y, d), .ok (y', d') =>
      (y.Perm y' ∧ (y.map (·.1)).Nodup) ∧ (d.Perm d' ∧ (d.map (·.1)).Nodup)
  | .error _, .error _ => True
  | _, _ => False

/-- `NetAgreeDec` is decidable over a scalar type with decidable equality -/
instance instDecidableNetAgreeDec [DecidableEq K] (m m' : Net K) (x x' : Named K) : Decidable (NetAgreeDec m m' x x') := by
  unfold NetAgreeDec
  split <;> infer_instance

/-- the decidable criterion implies agreement by name -/
theorem NetAgree_of_dec {m m' : Net K} {x x' : Named K} (h : NetAgreeDec m m' x x') : NetAgree m m' x x' := by
  revert h
  unfold NetAgreeDec NetAgree
  rcases m.apply x with e | ⟨y, d⟩ <;> rcases m'.apply x' with e' | ⟨y', d'⟩
  · exact fun _ => trivial
  · exact fun h => h
  · exact fun h => h
  · exact fun h => ⟨DictEq.of_perm h.1.1 h.1.2, DictEq.of_perm h.2.1 h.2.2⟩

end nets

section rows
variable {K : Type}

/-- a data function only reads the coordinates BY NAME (a callable), or not at all (a pre-evaluated tensor:
    row index and row count only) -/
theorem evalData_congr (n i : Nat) {xc xc' : Named K} (hx : DictEq xc xc') (fn : DataFn K) :
    evalData n i xc fn = evalData n i xc' fn := by
  cases fn with
  | fn u => exact call_congr u (fun p _ => hx p)
  | pre rows => rfl

/-- the data dict of one row under a re-ordering of the data-function dict (distinct keys) and a by-name
    equal coordinate dict: it exists again and is lookup-equivalent -/
theorem evalDataFns_perm (n i : Nat) {xc xc' : Named K} (hx : DictEq xc xc') {fs fs' : List (String × DataFn K)}
    (hp : fs.Perm fs') (hn : (fs.map (·.1)).Nodup) (data : Named K) (h : evalDataFns n i xc fs = .ok data) :
    ∃ data', evalDataFns n i xc' fs' = .ok data' ∧ DictEq data data' := by
  have h1 : evalDataFns n i xc fs = evalDataFns n i xc' fs := by
    unfold evalDataFns
    exact mapM_congr_except fs (fun p _ => by rw [evalData_congr n i hx])
  have hkeys : data.map (·.1) = fs.map (·.1) :=
    forall₂_keys (R := fun fn v => evalData n i xc fn = .ok v) (evalDataFns_spec n i xc fs data h)
  rw [h1] at h
  unfold evalDataFns at h ⊢
  obtain ⟨data', h', hp'⟩ := mapM_perm hp data h
  exact ⟨data', h', DictEq.of_perm hp' (hkeys ▸ hn)⟩

/-- converse of `rowArgs_ok` (condition with a module) -/
theorem rowArgs_some (c : SMCond K) (m : Net K) (hnet : c.net = some m) (space : SpaceL) (n i : Nat)
    (row : List K) (data y ders : Named K) (hd : evalDataFns n i (splitRow space row) c.dataFns = .ok data)
    (hm : m.apply (splitRow space row) = .ok (y, ders)) :
    rowArgs c space n i row = .ok (data ++ (c.params ++ (splitRow space row ++ y)) ++ ders) := by
  unfold rowArgs
  simp only [splitRow_joinRow, hd, hnet, hm, bind, Except.bind, pure, Except.pure, merge]

/-- converse of `rowArgs_ok` (condition without a module) -/
theorem rowArgs_none (c : SMCond K) (hnet : c.net = none) (space : SpaceL) (n i : Nat)
    (row : List K) (data : Named K) (hd : evalDataFns n i (splitRow space row) c.dataFns = .ok data) :
    rowArgs c space n i row = .ok (data ++ (c.params ++ splitRow space row)) := by
  unfold rowArgs
  simp only [hd, hnet, bind, Except.bind, pure, Except.pure, merge]

/-- ONE ROW: under the joint re-ordering the dict handed to the residual function exists again and is
    lookup-equivalent to the original one -/
theorem rowArgs_perm (c c' : SMCond K) (space space' : SpaceL) (n i : Nat) (row row' : List K)
    (hspace : (names space).Nodup)
    (hx : (splitRow space row).Perm (splitRow space' row'))
    (hparams : DictEq c.params c'.params)
    (hdata : c.dataFns.Perm c'.dataFns) (hdn : (c.dataFns.map (·.1)).Nodup)
    (hnet : match c.net, c'.net with
      | some m, some m' => NetAgree m m' (splitRow space row) (splitRow space' row')
      | none, none => True
      | _, _ => False)
    (a : Named K) (h : rowArgs c space n i row = .ok a) :
    ∃ a', rowArgs c' space' n i row' = .ok a' ∧ DictEq a a' := by
  have hxe : DictEq (splitRow space row) (splitRow space' row') :=
    DictEq.of_perm hx (by rw [names_spaceOf_splitRow]; exact hspace)
  obtain ⟨data, hd, hrest⟩ := rowArgs_ok c space n i row a h
  obtain ⟨data', hd', hde⟩ := evalDataFns_perm n i hxe hdata hdn data hd
  cases hn1 : c.net with
  | none =>
    cases hn2 : c'.net with
    | some m' => simp [hn1, hn2] at hnet
    | none =>
      rw [hn1] at hrest
      subst hrest
      exact ⟨_, rowArgs_none c' hn2 space' n i row' data' hd', hde.append (hparams.append hxe)⟩
  | some m =>
    cases hn2 : c'.net with
    | none => simp [hn1, hn2] at hnet
    | some m' =>
      rw [hn1] at hrest
      obtain ⟨y, ders, hy, ha⟩ := hrest
      subst ha
      simp only [hn1, hn2] at hnet
      unfold NetAgree at hnet
      cases hm' : m'.apply (splitRow space' row') with
      | error e => simp [hy, hm'] at hnet
      | ok yd' =>
        obtain ⟨y', ders'⟩ := yd'
        simp only [hy, hm'] at hnet
        exact ⟨_, rowArgs_some c' m' hn2 space' n i row' data' y' ders' hd' hm',
          (hde.append (hparams.append (hxe.append hnet.1))).append hnet.2⟩

/-- a by-name equivalence of the two modules on (at least) the sampled points yields the row-by-row agreement
    that `smLoss_perm` asks for -/
theorem NetEquivOn.forall₂ {m m' : Net K} {S : Named K → Prop} (he : NetEquivOn S m m') (space space' : SpaceL)
    (rows rows' : List (List K)) (hspace : (names space).Nodup) (hS : ∀ r ∈ rows, S (splitRow space r))
    (hrows : List.Forall₂ (fun r r' => (splitRow space r).Perm (splitRow space' r')) rows rows') :
    List.Forall₂ (fun r r' => NetAgree m m' (splitRow space r) (splitRow space' r')) rows rows' := by
  induction hrows with
  | nil => exact .nil
  | cons hab _ ih =>
    refine .cons ?_ (ih (fun r hr => hS r (List.mem_cons_of_mem _ hr)))
    exact he _ _ (hS _ (List.mem_cons_self ..)) (by rw [names_spaceOf_splitRow]; exact hspace) hab

end rows

section loss
variable {K : Type} [Add K] [Mul K] [Neg K] [Div K] [OfNat K 0] [NatCast K] [LT K] [DecidableLT K]

/-- ORDER INVARIANCE OF THE LOSS of a single-module condition (PINN / mean / Deep-Ritz / custom) under a JOINT
    re-ordering of everything Python leaves unordered.  In words, the hypotheses say:
    * `hspace`  — the sampler's variables have pairwise distinct names;
    * `hrows`   — the second run samples the same points, row by row (same row index), but its space lists the
                  variables in another order and every row is laid out accordingly: split by name, each row of
                  the second run is a re-ordering of the corresponding row of the first run;
    * `hresid`, `herr`, `hred` — same residual function, same error function, same reduction;
    * `hparams`, `hpn` — the learnable-parameter dict of the second run is a re-ordering of the first one,
                  whose keys are pairwise distinct;
    * `hdata`, `hdn`   — likewise for the dict of data functions (callables or pre-evaluated tensors);
    * `hnet`    — both conditions have no module, or both have one and the two modules agree BY NAME on
                  corresponding sampled points (e.g. the same network with its input and output variables
                  listed in another order; see `NetEquiv_refl`, `NetEquivOn.forall₂`,
                  `Net.reorder_equivOn`, `NetAgree_of_dec`).
    Conclusion: whenever the loss of the first run is defined, the second run yields the SAME loss.
    (Claimed only for a defined loss: if several data functions fail, the first error raised depends on the
    dict order.) -/
theorem smLoss_perm (c c' : SMCond K) (space space' : SpaceL) (rows rows' : List (List K))
    (hspace : (names space).Nodup)
    (hrows : List.Forall₂ (fun r r' => (splitRow space r).Perm (splitRow space' r')) rows rows')
    (hresid : c'.resid = c.resid) (herr : c'.err = c.err) (hred : c'.red = c.red)
    (hparams : c.params.Perm c'.params) (hpn : (c.params.map (·.1)).Nodup)
    (hdata : c.dataFns.Perm c'.dataFns) (hdn : (c.dataFns.map (·.1)).Nodup)
    (hnet : match c.net, c'.net with
      | some m, some m' =>
          List.Forall₂ (fun r r' => NetAgree m m' (splitRow space r) (splitRow space' r')) rows rows'
      | none, none => True
      | _, _ => False)
    (l : K) (h : smLoss c space rows = .ok l) : smLoss c' space' rows' = .ok l := by
  have hpe : DictEq c.params c'.params := DictEq.of_perm hparams hpn
  -- pair by pair: re-ordered coordinates and agreeing modules
  have hpair : List.Forall₂ (fun r r' => (splitRow space r).Perm (splitRow space' r') ∧
      (match c.net, c'.net with
        | some m, some m' => NetAgree m m' (splitRow space r) (splitRow space' r')
        | none, none => True
        | _, _ => False)) rows rows' := by
    cases hn1 : c.net with
    | none =>
      cases hn2 : c'.net with
      | some m' => simp [hn1, hn2] at hnet
      | none => exact hrows.imp (fun _ _ hr => ⟨hr, trivial⟩)
    | some m =>
      cases hn2 : c'.net with
      | none => simp [hn1, hn2] at hnet
      | some m' =>
        simp only [hn1, hn2] at hnet
        exact forall₂_and hrows hnet
  have hlen : rows.length = rows'.length := hrows.length_eq
  unfold smLoss at h ⊢
  cases hres : residuals c space rows with
  | error e => simp [hres, bind, Except.bind] at h
  | ok rs =>
    simp only [hres, bind, Except.bind] at h
    have hres' : residuals c' space' rows' = .ok rs := by
      unfold residuals at hres ⊢
      refine mapM_transfer ?_ rs hres
      refine (forall₂_zipIdx hpair 0).imp ?_
      rintro ⟨r, i⟩ ⟨r', i'⟩ ⟨⟨hperm, hagree⟩, hi⟩ b hb
      simp only at hperm hagree hi hb ⊢
      subst hi
      cases ha : rowArgs c space rows.length i r with
      | error e => simp [ha, bind, Except.bind] at hb
      | ok a =>
        simp only [ha, bind, Except.bind] at hb
        obtain ⟨a', ha', hae⟩ :=
          rowArgs_perm c c' space space' rows.length i r r' hspace hperm hpe hdata hdn hagree a ha
        rw [← hlen, ha']
        simp only [bind, Except.bind]
        rw [hresid, ← call_congr c.resid (fun p _ => hae p)]
        exact hb
    simp only [hres', herr, hred, bind, Except.bind]
    exact h

/-- `smLoss_perm` with the module hypothesis in its global form: both conditions have no module, or their
    modules are by-name equivalent on every input (`NetEquiv`; in particular the SAME module, `NetEquiv_refl`) -/
theorem smLoss_perm_of_netEquiv (c c' : SMCond K) (space space' : SpaceL) (rows rows' : List (List K))
    (hspace : (names space).Nodup)
    (hrows : List.Forall₂ (fun r r' => (splitRow space r).Perm (splitRow space' r')) rows rows')
    (hresid : c'.resid = c.resid) (herr : c'.err = c.err) (hred : c'.red = c.red)
    (hparams : c.params.Perm c'.params) (hpn : (c.params.map (·.1)).Nodup)
    (hdata : c.dataFns.Perm c'.dataFns) (hdn : (c.dataFns.map (·.1)).Nodup)
    (hnet : match c.net, c'.net with
      | some m, some m' => NetEquiv m m'
      | none, none => True
      | _, _ => False)
    (l : K) (h : smLoss c space rows = .ok l) : smLoss c' space' rows' = .ok l := by
  refine smLoss_perm c c' space space' rows rows' hspace hrows hresid herr hred hparams hpn hdata hdn ?_ l h
  cases hn1 : c.net with
  | none =>
    cases hn2 : c'.net with
    | some m' => simp [hn1, hn2] at hnet
    | none => trivial
  | some m =>
    cases hn2 : c'.net with
    | none => simp [hn1, hn2] at hnet
    | some m' =>
      simp only [hn1, hn2] at hnet ⊢
      exact NetEquivOn.forall₂ hnet space space' rows rows' hspace (fun _ _ => trivial) hrows

end loss

section reorder
variable {K : Type}

/-- a re-ordering of the image of a list under `g` lifts to a re-ordering of the list itself -/
theorem perm_map_lift {α β : Type} (g : α → β) {l₁ l₂ : List β} (hp : l₁.Perm l₂) :
    ∀ x : List α, x.map g = l₁ → ∃ z, x.Perm z ∧ z.map g = l₂ := by
  induction hp with
  | nil => intro x hx; exact ⟨x, .refl _, hx⟩
  | cons b _ ih =>
    intro x hx
    obtain ⟨a, x₀, rfl, ha, hx₀⟩ := List.map_eq_cons_iff.mp hx
    obtain ⟨z₀, hp₀, hz₀⟩ := ih x₀ hx₀
    exact ⟨a :: z₀, hp₀.cons a, by simp [ha, hz₀]⟩
  | swap b b' l =>
    intro x hx
    obtain ⟨a', x₁, rfl, ha', hx₁⟩ := List.map_eq_cons_iff.mp hx
    obtain ⟨a, x₀, rfl, ha, hx₀⟩ := List.map_eq_cons_iff.mp hx₁
    exact ⟨a :: a' :: x₀, List.Perm.swap .., by simp [ha, ha', hx₀]⟩
  | trans _ _ ih1 ih2 =>
    intro x hx
    obtain ⟨z1, hp1, hz1⟩ := ih1 x hx
    obtain ⟨z2, hp2, hz2⟩ := ih2 z1 hz1
    exact ⟨z2, hp1.trans hp2, hz2⟩

/-- `_fix_points_order` SUCCEEDS on a point whose variables (names and dimensions) are those of the model's
    input space in any order (distinct names): the model input is the point re-ordered into that space -/
theorem fixOrder_ok_of_perm (s : SpaceL) (x : Named K) (hs : (spaceOf x).Perm s) (hn : (x.map (·.1)).Nodup) :
    ∃ z : Named K, x.Perm z ∧ spaceOf z = s ∧ fixOrder s x = .ok (joinRow z) := by
  obtain ⟨z, hp, hz⟩ := perm_map_lift (fun p : String × List K => (p.1, p.2.length)) hs x rfl
  have hz : spaceOf z = s := hz
  refine ⟨z, hp, hz, ?_⟩
  rw [fixOrder_perm s hp hn]
  unfold fixOrder
  rw [if_pos hz]

/-- the flat row of a dict is as long as the total dimension of the dict's space -/
theorem length_joinRow (z : Named K) : (joinRow z).length = dimOf (spaceOf z) := by
  induction z with
  | nil => rfl
  | cons p z ih =>
    simp only [joinRow, spaceOf, dimOf] at ih ⊢
    simp [ih]

/-- the total dimension of a space does not depend on the order of its variables -/
theorem dimOf_perm {s s' : SpaceL} (h : s.Perm s') : dimOf s = dimOf s' := by
  unfold dimOf
  exact (h.map (fun p : String × Nat => p.2)).sum_eq

/-- `Net.apply` written out: re-order the point by name, evaluate, check the output width, split by name -/
theorem Net.apply_eq (m : Net K) (x : Named K) :
    m.apply x =
      match fixOrder m.inSpace x with
      | .error e => .error e
      | .ok xin =>
        if (m.f xin).length = dimOf m.outSpace then .ok (splitRow m.outSpace (m.f xin), m.ders xin)
        else .error .shape := by
  unfold Net.apply
  cases fixOrder m.inSpace x <;> rfl

/-- THE SAME NETWORK WITH ITS VARIABLES LISTED IN ANOTHER ORDER: inputs declared as `inSpace'`, outputs as
    `outSpace'`.  Its row function first brings the flat input (laid out as `inSpace'`) back into the layout of
    `m.inSpace`, evaluates `m`, and lays the output blocks out as `outSpace'` (an output of the wrong width is
    passed on unchanged, so that it is rejected as before) -/
def Net.reorder (m : Net K) (inSpace' outSpace' : SpaceL) : Net K :=
  let back : List K → List K := fun xin' =>
    match fixOrder m.inSpace (splitRow inSpace' xin') with
    | .ok v => v
    | .error _ => []
  { inSpace := inSpace', outSpace := outSpace',
    f := fun xin' =>
      let out := m.f (back xin')
      if out.length = dimOf m.outSpace then
        match fixOrder outSpace' (splitRow m.outSpace out) with
        | .ok v => v
        | .error _ => out
      else out,
    ders := fun xin' => m.ders (back xin') }

/-- RE-ORDERING THE MODEL'S VARIABLES IS INVISIBLE BY NAME: if `inSpace'` / `outSpace'` are re-orderings of the
    model's input / output space (variable names pairwise distinct), then `m` and `m.reorder inSpace' outSpace'`
    agree by name on every point whose variables (names and dimensions) are those of the input space, in any
    order.  (The restriction to well-dimensioned points is necessary: `_fix_points_order` does not check block
    widths, and a point with wrongly sized blocks is cut differently by differently ordered input spaces.) -/
theorem Net.reorder_equivOn (m : Net K) (inSpace' outSpace' : SpaceL)
    (hin : m.inSpace.Perm inSpace') (hout : m.outSpace.Perm outSpace') (houtn : (names m.outSpace).Nodup) :
    NetEquivOn (fun x => (spaceOf x).Perm m.inSpace) m (m.reorder inSpace' outSpace') := by
  intro x x' hS hn hp
  have hn' : (x'.map (·.1)).Nodup := (hp.map (·.1)).nodup_iff.mp hn
  have hS' : (spaceOf x').Perm inSpace' :=
    ((hp.map (fun p : String × List K => (p.1, p.2.length))).symm.trans hS).trans hin
  obtain ⟨z, hxz, hz, hfz⟩ := fixOrder_ok_of_perm m.inSpace x hS hn
  obtain ⟨z', hxz', hz', hfz'⟩ := fixOrder_ok_of_perm inSpace' x' hS' hn'
  -- the re-ordered network sees the same flat input
  have hback : fixOrder m.inSpace (splitRow inSpace' (joinRow z')) = .ok (joinRow z) := by
    rw [← hz', splitRow_joinRow, ← fixOrder_perm m.inSpace (hp.trans hxz') hn, hfz]
  unfold NetAgree
  rw [Net.apply_eq m x, Net.apply_eq (m.reorder inSpace' outSpace') x']
  simp only [Net.reorder, hfz, hfz', hback]
  by_cases hlen : (m.f (joinRow z)).length = dimOf m.outSpace
  · have hy : spaceOf (splitRow m.outSpace (m.f (joinRow z))) = m.outSpace := spaceOf_splitRow _ _ hlen
    have hyn : ((splitRow m.outSpace (m.f (joinRow z))).map (·.1)).Nodup := by
      rw [names_spaceOf_splitRow]; exact houtn
    obtain ⟨w, hyw, hw, hfw⟩ := fixOrder_ok_of_perm outSpace' (splitRow m.outSpace (m.f (joinRow z)))
      (by rw [hy]; exact hout) hyn
    have hwl : (joinRow w).length = dimOf outSpace' := by rw [length_joinRow, hw]
    simp only [hlen, if_true, hfw, hwl]
    rw [← hw, splitRow_joinRow]
    exact ⟨DictEq.of_perm hyw hyn, DictEq.refl _⟩
  · have hlen' : ¬ (m.f (joinRow z)).length = dimOf outSpace' := by rw [← dimOf_perm hout]; exact hlen
    simp only [hlen, hlen', if_false]

end reorder

section packaged
variable {K : Type} [Add K] [Mul K] [Neg K] [Div K] [OfNat K 0] [NatCast K] [LT K] [DecidableLT K]

/-- `smLoss_perm` with EVERY re-ordering made explicit (no abstract hypothesis about the module left): take a
    condition with module `m`; list the model's inputs as `inSpace'` and its outputs as `outSpace'` (`Net.reorder`),
    list the sampler's variables as `space'` with every sampled row laid out accordingly (`hrows`), list the
    learnable parameters as `params'` and the data functions as `dataFns'` — all of them re-orderings, names
    pairwise distinct, the sampler's space being the model's input space up to order (`hsm`) and every sampled
    row having the width of the space (`hlen`).  A defined loss is unchanged. -/
theorem smLoss_perm_reorder (c : SMCond K) (m : Net K) (hm : c.net = some m)
    (inSpace' outSpace' : SpaceL) (hin : m.inSpace.Perm inSpace') (hout : m.outSpace.Perm outSpace')
    (houtn : (names m.outSpace).Nodup)
    (space space' : SpaceL) (rows rows' : List (List K))
    (hspace : (names space).Nodup) (hsm : space.Perm m.inSpace) (hlen : ∀ r ∈ rows, r.length = dimOf space)
    (hrows : List.Forall₂ (fun r r' => (splitRow space r).Perm (splitRow space' r')) rows rows')
    (params' : Named K) (hparams : c.params.Perm params') (hpn : (c.params.map (·.1)).Nodup)
    (dataFns' : List (String × DataFn K)) (hdata : c.dataFns.Perm dataFns') (hdn : (c.dataFns.map (·.1)).Nodup)
    (l : K) (h : smLoss c space rows = .ok l) :
    smLoss { c with net := some (m.reorder inSpace' outSpace'), params := params', dataFns := dataFns' }
      space' rows' = .ok l := by
  refine smLoss_perm c { c with net := some (m.reorder inSpace' outSpace'), params := params', dataFns := dataFns' }
    space space' rows rows' hspace hrows rfl rfl rfl hparams hpn hdata hdn ?_ l h
  simp only [hm]
  exact NetEquivOn.forall₂ (Net.reorder_equivOn m inSpace' outSpace' hin hout houtn) space space' rows rows' hspace
    (fun r hr => by rw [spaceOf_splitRow _ _ (hlen r hr)]; exact hsm) hrows

end packaged

/-! ## non-vacuity: a concrete condition and its jointly re-ordered twin (exact rational arithmetic) -/

section examples

/-- model (u, v) = (x·t + 2x, t − x); inputs listed as (t, x), outputs as (u, v) -/
def pmNetA : Net Rat :=
  peNet [("t", 1), ("x", 1)] [("u", 1), ("v", 1)]
    [.add (.mul (.var "x" 0) (.var "t" 0)) (.mul (.const 2) (.var "x" 0)), .sub (.var "t" 0) (.var "x" 0)]
/-- the same model with inputs listed as (x, t) and outputs as (v, u) -/
def pmNetB : Net Rat :=
  peNet [("x", 1), ("t", 1)] [("v", 1), ("u", 1)]
    [.sub (.var "t" 0) (.var "x" 0), .add (.mul (.var "x" 0) (.var "t" 0)) (.mul (.const 2) (.var "x" 0))]
/-- residual (D·u − f, E·v + g·∂u/∂x): reads both data functions, both parameters, both outputs, a derivative -/
def pmResid : UFun Rat :=
  peUFun ["f", "g", "u", "v", "D", "E", "d.u.x"] []
    [.sub (.mul (.var "D" 0) (.var "u" 0)) (.var "f" 0),
     .add (.mul (.var "E" 0) (.var "v" 0)) (.mul (.var "g" 0) (.var "d.u.x" 0))]
/-- data function f(x) = 3x (a callable) -/
def pmF : DataFn Rat := .fn (peUFun ["x"] [] [.mul (.const 3) (.var "x" 0)])
/-- data function g, pre-evaluated for a static sampler: one value per row (selected by ROW INDEX) -/
def pmG : DataFn Rat := .pre [[7], [8]]
/-- condition with module, one callable and one pre-evaluated data function, two learnable parameters -/
def pmCondA : SMCond Rat :=
  { net := some pmNetA, resid := pmResid, dataFns := [("f", pmF), ("g", pmG)],
    params := [("D", [2]), ("E", [5])], err := .sq, red := .mean }
/-- the twin: module with re-ordered inputs and outputs, data-function dict and parameter dict swapped -/
def pmCondB : SMCond Rat :=
  { net := some pmNetB, resid := pmResid, dataFns := [("g", pmG), ("f", pmF)],
    params := [("E", [5]), ("D", [2])], err := .sq, red := .mean }
/-- sampler space of the first run: (x, t) -/
def pmSpaceA : SpaceL := [("x", 1), ("t", 1)]
/-- sampler space of the second run: (t, x) -/
def pmSpaceB : SpaceL := [("t", 1), ("x", 1)]
/-- two sampled points (x, t) = (1/2, 4), (3, 1) -/
def pmRowsA : List (List Rat) := [[1/2, 4], [3, 1]]
/-- the same two points laid out as (t, x) -/
def pmRowsB : List (List Rat) := [[4, 1/2], [1, 3]]

-- (i) both runs are defined and give the same loss; the residual table is the same, row by row
example : residuals pmCondA pmSpaceA pmRowsA = .ok [[9/2, 119/2], [9, 14]] ∧
    residuals pmCondB pmSpaceB pmRowsB = .ok [[9/2, 119/2], [9, 14]] := by decide +kernel
example : smLoss pmCondA pmSpaceA pmRowsA = .ok (7675/4) ∧ smLoss pmCondB pmSpaceB pmRowsB = .ok (7675/4) := by
  decide +kernel
-- the layout matters: the rows of the second run read in the FIRST space are different points, different loss
example : smLoss pmCondA pmSpaceA pmRowsB = .ok (2613/2) := by decide +kernel

/-- (ii) hypothesis `hrows` of `smLoss_perm` for the concrete rows: split by name, corresponding rows are
    re-orderings of each other -/
theorem pm_hrows : List.Forall₂ (fun r r' => (splitRow pmSpaceA r).Perm (splitRow pmSpaceB r')) pmRowsA pmRowsB :=
  .cons (List.Perm.swap ..) (.cons (List.Perm.swap ..) .nil)

/-- (iii) hypothesis `hnet` of `smLoss_perm` for the concrete pair of modules: they agree by name on
    corresponding sampled points (outputs AND derivative dicts are re-orderings with distinct keys) -/
theorem pm_hnet : List.Forall₂ (fun r r' => NetAgree pmNetA pmNetB (splitRow pmSpaceA r) (splitRow pmSpaceB r'))
    pmRowsA pmRowsB :=
  .cons (NetAgree_of_dec (by decide +kernel)) (.cons (NetAgree_of_dec (by decide +kernel)) .nil)

/-- ALL hypotheses of `smLoss_perm` hold simultaneously for the concrete twin conditions: the theorem transports
    the loss of the first run to the second -/
theorem pm_smLoss_perm : smLoss pmCondB pmSpaceB pmRowsB = .ok (7675/4) :=
  smLoss_perm pmCondA pmCondB pmSpaceA pmSpaceB pmRowsA pmRowsB (by decide) pm_hrows rfl rfl rfl
    (List.Perm.swap ..) (by decide) (List.Perm.swap ..) (by decide) pm_hnet _ (by decide +kernel)

-- `smLoss_perm_of_netEquiv` with the SAME module (`NetEquiv_refl`): only sampler space, rows and dicts re-ordered
example : smLoss { pmCondB with net := some pmNetA } pmSpaceB pmRowsB = .ok (7675/4) :=
  smLoss_perm_of_netEquiv pmCondA { pmCondB with net := some pmNetA } pmSpaceA pmSpaceB pmRowsA pmRowsB
    (by decide) pm_hrows rfl rfl rfl (List.Perm.swap ..) (by decide) (List.Perm.swap ..) (by decide)
    (NetEquiv_refl pmNetA) _ (by decide +kernel)

-- `smLoss_perm_reorder`: every hypothesis holds for the first condition, the generic re-ordered module
-- (`Net.reorder`) and the swapped dicts
example : smLoss { pmCondA with net := some (pmNetA.reorder [("x", 1), ("t", 1)] [("v", 1), ("u", 1)]),
                                params := [("E", [5]), ("D", [2])], dataFns := [("g", pmG), ("f", pmF)] }
    pmSpaceB pmRowsB = .ok (7675/4) :=
  smLoss_perm_reorder pmCondA pmNetA rfl _ _ (List.Perm.swap ..) (List.Perm.swap ..) (by decide)
    pmSpaceA pmSpaceB pmRowsA pmRowsB (by decide) (List.Perm.swap ..) (by decide) pm_hrows
    _ (List.Perm.swap ..) (by decide) _ (List.Perm.swap ..) (by decide) _ (by decide +kernel)

-- the restriction of `Net.reorder_equivOn` to well-dimensioned points is necessary: on a point whose blocks have
-- the wrong widths the two input orders cut the flat row differently (`_fix_points_order` checks names only)
example : (pmNetA.apply [("x", [1, 2]), ("t", [])]).map (·.1) = .ok [("u", [6]), ("v", [-1])] ∧
    (pmNetB.apply [("x", [1, 2]), ("t", [])]).map (·.1) = .ok [("v", [1]), ("u", [4])] := by decide +kernel

end examples

end TPV.Cond
