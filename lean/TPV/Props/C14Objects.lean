/-
  C14 — derived state on shared user objects: sampler lengths under products / sums, function-set resampling.
-/
import TPV.Model.SharedObjects

namespace TPV.Shared

/-- sampling ANY expression with ANY number of parameter rows leaves on every base object either what was
    stored before or its OWN number of points — never a number that depends on the other factors -/
theorem sample_lens (n : Nat → Nat) : ∀ (e : SExp) (st : Lens) (k : Nat) (i : Nat),
    (sample n e st k).1 i = st i ∨ (sample n e st k).1 i = some (n i)
  | .base j, st, k, i => by
    simp only [sample, setLen]
    by_cases h : i = j
    · subst h; simp
    · simp [h]
  | .prod a b, st, k, i => by
    simp only [sample]
    rcases sample_lens n a (sample n b st k).1 (sample n b st k).2 i with h | h
    · rcases sample_lens n b st k i with h' | h'
      · left; rw [h, h']
      · right; rw [h, h']
    · right; exact h
  | .sum a b, st, k, i => by
    simp only [sample]
    rcases sample_lens n b (sample n a st k).1 k i with h | h
    · rcases sample_lens n a st k i with h' | h'
      · left; rw [h, h']
      · right; rw [h, h']
    · right; exact h

/-- a state in which every stored length is the object's own size -/
def LensOK (n : Nat → Nat) (st : Lens) : Prop := ∀ i, st i = none ∨ st i = some (n i)

theorem sample_ok (n : Nat → Nat) (e : SExp) (st : Lens) (k : Nat) (h : LensOK n st) : LensOK n (sample n e st k).1 := by
  intro i
  rcases sample_lens n e st k i with h' | h'
  · rw [h']; exact h i
  · right; exact h'

/-- FRAME for sampler lengths: whatever products / sums the conditions have built from the user's base
    samplers and in whatever order they are evaluated, `len(base)` is and stays the object's own size -/
theorem len_frame (n : Nat → Nat) : ∀ (es : List SExp) (st : Lens), LensOK n st →
    ∀ i, lenBase n (sampleAll n st es) i = n i
  | [], st, h, i => by
    simp only [sampleAll, lenBase]
    rcases h i with h' | h' <;> simp [h']
  | e :: es, st, h, i => len_frame n es _ (sample_ok n e st 0 h) i

/-- the rows a sampler expression returns depend on the declared sizes only (not on what was sampled before) -/
theorem sample_rows (n : Nat → Nat) : ∀ (e : SExp) (st : Lens) (k : Nat), (sample n e st k).2 = rows n e k
  | .base _, _, _ => rfl
  | .prod a b, st, k => by
    simp only [sample, rows]
    rw [sample_rows n a, sample_rows n b]
  | .sum a b, st, k => by
    simp only [sample, rows]
    rw [sample_rows n a, sample_rows n b]

/-- the changed code violates the frame: after `t * x` (5 and 6 points) was sampled, `len(t)` is 30 -/
theorem len_frame_bad_false :
    let n : Nat → Nat := fun i => if i = 0 then 5 else 6
    lenBase n (sampleBad n (.prod (.base 0) (.base 1)) (fun _ => none) 0).1 0 = 30 ∧
    lenBase n (sample n (.prod (.base 0) (.base 1)) (fun _ => none) 0).1 0 = 5 := by
  decide

example : rows (fun i => if i = 0 then 5 else 6) (.prod (.base 0) (.sum (.base 1) (.base 1))) 0 = 60 := by decide

/-! ## function sets -/

/-- a second call with the SAME key (same training iteration, or a further direct call) draws nothing -/
theorem fs_same_key (it : IterKey) (s : FSt) : fsForward it (fsForward it s) = fsForward it s := by
  unfold fsForward
  by_cases h : it = s.cur
  · simp [h]
  · simp [h]

/-- within one iteration all conditions sharing the function set see ONE batch: any number of calls with
    the key of the last call leaves the state as it is -/
theorem fs_iteration_shared (it : IterKey) (s : FSt) (h : s.cur = it) : ∀ m, fsRun s (List.replicate m it) = s
  | 0 => rfl
  | m + 1 => by
    simp only [List.replicate_succ, fsRun]
    have : fsForward it s = s := by simp [fsForward, h]
    rw [this]
    exact fs_iteration_shared it s h m

/-- REPEATABILITY of direct calls: after the first direct call, every further direct call — by this or by any
    other condition on the same function set — works on the same batch of input functions -/
theorem fs_direct_repeatable (s : FSt) (m : Nat) :
    (fsRun (fsForward .direct s) (List.replicate m .direct)).draws = (fsForward .direct s).draws := by
  rw [fs_iteration_shared .direct (fsForward .direct s) (by unfold fsForward; split <;> simp_all) m]

/-- the batch number never decreases and grows by at most one per call -/
theorem fs_draws_step (it : IterKey) (s : FSt) :
    (fsForward it s).draws = s.draws ∨ (fsForward it s).draws = s.draws + 1 := by
  unfold fsForward; split <;> simp

/-- the changed code (−1 stored for a direct call) redraws on every direct call: three direct calls, three
    batches, where the rule gives one -/
theorem fs_direct_bad_false :
    ([IterKey.direct, .direct, .direct].foldl (fun s k => fsForwardBad k s) fs0).draws = 3 ∧
    (fsRun fs0 [.direct, .direct, .direct]).draws = 1 := by
  decide

example : fsTrace fs0 [.step 0, .step 0, .direct, .direct, .step 0, .step 1, .step 1] = [1, 1, 2, 2, 3, 4, 4] := by decide

end TPV.Shared
