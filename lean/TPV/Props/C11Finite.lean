/-
  C11 (sampling laws), finite part: the *selection semantics* of the composite samplers in finite
  (counting-measure) probability models with exact rational probabilities.

  A. union mixture (`UnionDomain._sample_random_with_n`): exact law, uniform on disjoint unions,
     density ratio `1 + |A∩B|/|A|` on overlaps, the full uniformity claim is false;
  B. dependent product (`ProductDomain._sample_uniform_b_points`): acceptance step = rejection against the
     *batch* maximum, uniform on the product set when batch max = global max, false for small batches;
  C. selection loops return the first `n` accepted proposals; LHS inside a box returns the design.
-/
import TPV.Model.GeomSample
import Mathlib.Algebra.Order.Field.Rat
import Mathlib.Tactic.Ring
import Mathlib.Tactic.Linarith
import Mathlib.Tactic.FieldSimp
import Mathlib.Tactic.NormNum
import Mathlib.Data.List.Count
import Mathlib.Data.List.Nodup

namespace TPV.Geom

/-- finite model of `UnionDomain._sample_random_with_n`: all equally likely outcomes of one output row —
    `a` uniform on `A`, `b` uniform on `B`, `u` uniform on the grid `{1/M, …, M/M}`, `M = |A|+|B|` (so that
    `P(u ≤ |A|/M) = |A|/M` exactly), combined by the model function `unionPick`.  The probability of `x` is
    `count x (unionOutcomes A B) / (unionOutcomes A B).length`. -/
def unionOutcomes {α} [DecidableEq α] (A B : List α) : List α :=
  A.flatMap fun a => B.flatMap fun b => (List.range (A.length + B.length)).map fun (i : ℕ) =>
    unionPick (K := ℚ) (decide (b ∈ A)) (((i : ℚ) + 1) / ((A.length : ℚ) + B.length))
      ((A.length : ℚ) / ((A.length : ℚ) + B.length)) a b

section union
variable {α : Type} [DecidableEq α]

theorem grid_le_iff (n m i : ℕ) (hi : i < n + m) :
    (((i : ℚ) + 1) / ((n : ℚ) + m) ≤ (n : ℚ) / ((n : ℚ) + m)) ↔ i < n := by
  have hpos : (0 : ℚ) < (n : ℚ) + m := by exact_mod_cast (by omega : 0 < n + m)
  rw [div_le_div_iff_of_pos_right hpos]
  constructor
  · intro h
    have : ((i + 1 : ℕ) : ℚ) ≤ (n : ℚ) := by push_cast; exact h
    have := Nat.cast_le.mp this
    omega
  · intro h
    have : ((i + 1 : ℕ) : ℚ) ≤ (n : ℚ) := Nat.cast_le.mpr h
    push_cast at this; exact this

omit [DecidableEq α] in
theorem unionRow_eq (n m : ℕ) (inA : Bool) (a b : α) :
    ((List.range (n + m)).map fun (i : ℕ) =>
      unionPick (K := ℚ) inA (((i : ℚ) + 1) / ((n : ℚ) + m)) ((n : ℚ) / ((n : ℚ) + m)) a b)
    = List.replicate n a ++ List.replicate m (if inA then a else b) := by
  have h1 : ((List.range (n + m)).map fun (i : ℕ) =>
      unionPick (K := ℚ) inA (((i : ℚ) + 1) / ((n : ℚ) + m)) ((n : ℚ) / ((n : ℚ) + m)) a b)
      = (List.range (n + m)).map fun (i : ℕ) => if inA || decide (i < n) then a else b := by
    apply List.map_congr_left
    intro i hi
    rw [List.mem_range] at hi
    unfold unionPick
    simp only [grid_le_iff n m i hi]
  rw [h1, List.range_add, List.map_append, List.map_map]
  congr 1
  · rw [List.eq_replicate_iff]
    refine ⟨by simp, ?_⟩
    intro x hx
    rw [List.mem_map] at hx
    obtain ⟨i, hi, rfl⟩ := hx
    rw [List.mem_range] at hi
    simp [hi]
  · rw [List.eq_replicate_iff]
    refine ⟨by simp, ?_⟩
    intro x hx
    rw [List.mem_map] at hx
    obtain ⟨i, hi, rfl⟩ := hx
    cases inA <;> simp

theorem unionOutcomes_eq (A B : List α) :
    unionOutcomes A B = A.flatMap fun a => B.flatMap fun b =>
      List.replicate A.length a ++ List.replicate B.length (if decide (b ∈ A) then a else b) := by
  unfold unionOutcomes
  simp only [unionRow_eq]

/-- the definition with the binder `i` left unannotated: Lean then elaborates `i : ℚ` and coerces the
    list `List.range _ : List ℕ` to a `List ℚ` (monadic coercion); same outcomes as `unionOutcomes` -/
def unionOutcomesLit {α} [DecidableEq α] (A B : List α) : List α :=
  A.flatMap fun a => B.flatMap fun b => (List.range (A.length + B.length)).map fun i =>
    unionPick (K := ℚ) (decide (b ∈ A)) (((i : ℚ) + 1) / ((A.length : ℚ) + B.length))
      ((A.length : ℚ) / ((A.length : ℚ) + B.length)) a b

theorem unionOutcomesLit_eq (A B : List α) : unionOutcomesLit A B = unionOutcomes A B := by
  unfold unionOutcomesLit unionOutcomes
  simp only [bind_pure_comp, Functor.map, List.map_map, Function.comp_def]

theorem length_flatMap_const {β γ : Type} (l : List β) (F : β → List γ) (c : ℕ)
    (h : ∀ a ∈ l, (F a).length = c) : (l.flatMap F).length = l.length * c := by
  induction l with
  | nil => simp
  | cons a l ih =>
    rw [List.flatMap_cons, List.length_append, h a (by simp),
      ih (fun b hb => h b (List.mem_cons_of_mem _ hb)), List.length_cons]
    ring

/-- 1. The finite model of the union sampler has `|A|·|B|·(|A|+|B|)` equally likely outcomes. -/
theorem unionOutcomes_length (A B : List α) :
    (unionOutcomes A B).length = A.length * B.length * (A.length + B.length) := by
  rw [unionOutcomes_eq]
  rw [length_flatMap_const A _ (B.length * (A.length + B.length))]
  · ring
  · intro a _
    apply length_flatMap_const
    intro b _
    simp

example : (unionOutcomes [0, 1] [1, 2]).length = 16 := by rw [unionOutcomes_length]; rfl

theorem count_unionInner (A B : List α) (n m : ℕ) (a x : α) (ha : a ∈ A) :
    List.count x (B.flatMap fun b =>
      List.replicate n a ++ List.replicate m (if decide (b ∈ A) then a else b))
    = (if a = x then n * B.length + m * B.countP (fun b => decide (b ∈ A)) else 0)
      + (if x ∈ A then 0 else m * List.count x B) := by
  induction B with
  | nil => simp
  | cons b B ih =>
    rw [List.flatMap_cons, List.count_append, ih, List.count_append, List.count_replicate,
      List.count_replicate, List.length_cons, List.countP_cons, List.count_cons]
    by_cases hb : b ∈ A
    · by_cases hax : a = x
      · subst hax
        simp [hb, ha]
        ring
      · by_cases hxA : x ∈ A
        · simp [hb, hax, hxA]
        · have : ¬ b = x := fun h => hxA (h ▸ hb)
          simp [hb, hax, hxA, this]
    · by_cases hax : a = x
      · subst hax
        have : ¬ b = a := fun h => hb (h ▸ ha)
        simp [hb, ha, this]
        ring
      · by_cases hxA : x ∈ A
        · have : ¬ b = x := fun h => hb (h ▸ hxA)
          simp [hb, hax, hxA, this]
        · by_cases hbx : b = x
          · simp [hax, hxA, hbx]; ring
          · simp [hb, hax, hxA, hbx]

theorem count_flatMap_affine {β : Type} [DecidableEq β] (l : List α) (F : α → List β) (x : α) (y : β)
    (c d : ℕ) (h : ∀ a ∈ l, List.count y (F a) = (if a = x then c else 0) + d) :
    List.count y (l.flatMap F) = List.count x l * c + l.length * d := by
  induction l with
  | nil => simp
  | cons a l ih =>
    rw [List.flatMap_cons, List.count_append, h a (by simp),
      ih (fun b hb => h b (List.mem_cons_of_mem _ hb)), List.length_cons, List.count_cons]
    by_cases hax : a = x
    · simp [hax]; ring
    · simp [hax]; ring

theorem countP_add_countP_not (A B : List α) :
    B.countP (fun b => decide (b ∈ A)) + B.countP (fun b => decide (b ∉ A)) = B.length := by
  have := List.length_eq_countP_add_countP (fun b => decide (b ∈ A)) (l := B)
  simp only [decide_not]
  simpa using this.symm

/-- 2. Exact law of the union sampler in the finite model: the number of outcomes equal to `x`.  A point
    of `A` is returned whenever it is the `A`-proposal and either the `B`-proposal lies in `A` (all `|A|+|B|`
    draws) or the draw is below the ratio (`|A|` draws); a point of `B ∖ A` is returned whenever it is the
    `B`-proposal and the draw is above the ratio (`|B|` draws), for each of the `|A|` `A`-proposals. -/
theorem union_mixture_law (A B : List α) (hA : A.Nodup) (hB : B.Nodup) (x : α) :
    List.count x (unionOutcomes A B)
    = (if x ∈ A then B.countP (fun b => decide (b ∈ A)) * (A.length + B.length)
          + B.countP (fun b => decide (b ∉ A)) * A.length else 0)
      + (if x ∈ B ∧ x ∉ A then A.length * B.length else 0) := by
  rw [unionOutcomes_eq]
  rw [count_flatMap_affine A _ x x
    (A.length * B.length + B.length * B.countP (fun b => decide (b ∈ A)))
    (if x ∈ A then 0 else B.length * List.count x B)
    (fun a ha => count_unionInner A B A.length B.length a x ha)]
  have hsum := countP_add_countP_not A B
  by_cases hxA : x ∈ A
  · rw [List.count_eq_one_of_mem hA hxA]
    simp only [hxA, if_true, not_true_eq_false, and_false, if_false]
    generalize B.countP (fun b => decide (b ∈ A)) = ci at *
    generalize B.countP (fun b => decide (b ∉ A)) = co at *
    rw [← hsum]
    ring
  · rw [List.count_eq_zero_of_not_mem hxA]
    by_cases hxB : x ∈ B
    · rw [List.count_eq_one_of_mem hB hxB]
      simp [hxA, hxB]
    · rw [List.count_eq_zero_of_not_mem hxB]
      simp [hxA, hxB]

example : List.count 1 (unionOutcomes [0, 1] [1, 2]) = 6 := by
  rw [union_mixture_law _ _ (by decide) (by decide)]; decide

theorem countP_mem_eq_zero_of_disjoint (A B : List α) (hdis : ∀ b ∈ B, b ∉ A) :
    B.countP (fun b => decide (b ∈ A)) = 0 := by
  rw [List.countP_eq_zero]
  intro b hb
  simpa using hdis b hb

/-- 3. Disjoint operands: every point of `A ∪ B` has probability exactly `1/(|A|+|B|) = 1/|A ∪ B|`
    (count · (|A|+|B|) = number of outcomes): the union sampler is uniform on a disjoint union. -/
theorem union_uniform_partial (A B : List α) (hA : A.Nodup) (hB : B.Nodup) (hdis : ∀ b ∈ B, b ∉ A)
    (x : α) (hx : x ∈ A ++ B) :
    List.count x (unionOutcomes A B) * (A.length + B.length) = (unionOutcomes A B).length := by
  rw [union_mixture_law A B hA hB, unionOutcomes_length]
  have h0 := countP_mem_eq_zero_of_disjoint A B hdis
  have hsum := countP_add_countP_not A B
  rw [h0, Nat.zero_add] at hsum
  rw [h0, hsum]
  rw [List.mem_append] at hx
  by_cases hxA : x ∈ A
  · simp only [hxA, if_true, not_true_eq_false, and_false, if_false]
    ring
  · have hxB : x ∈ B := hx.resolve_left hxA
    simp only [hxA, hxB, if_false, not_false_eq_true, and_self, if_true]
    ring

example : ∀ x ∈ [0, 1] ++ [2, 3, 4],
    List.count x (unionOutcomes [0, 1] [2, 3, 4]) * (2 + 3) = (unionOutcomes [0, 1] [2, 3, 4]).length :=
  union_uniform_partial [0, 1] [2, 3, 4] (by decide) (by decide) (by decide)

example : List.count 3 (unionOutcomes [0, 1] [2, 3, 4]) = 6 ∧ (unionOutcomes [0, 1] [2, 3, 4]).length = 30 := by
  rw [union_mixture_law _ _ (by decide) (by decide), unionOutcomes_length]; decide

/-- 4. Overlapping operands: the probability of a point of `A` exceeds the probability of a point of
    `B ∖ A` by the factor `1 + |A ∩ B| / |A|` — the sampler is not uniform on `A ∪ B` unless `A ∩ B = ∅`. -/
theorem union_overlap_density_ratio (A B : List α) (hA : A.Nodup) (hB : B.Nodup) (x y : α)
    (hx : x ∈ A) (hy : y ∈ B) (hyA : y ∉ A) :
    (List.count x (unionOutcomes A B) : ℚ) / List.count y (unionOutcomes A B)
      = 1 + (B.countP (fun b => decide (b ∈ A)) : ℚ) / A.length := by
  rw [union_mixture_law A B hA hB x, union_mixture_law A B hA hB y]
  have hsum := countP_add_countP_not A B
  have hn : (A.length : ℚ) ≠ 0 := by
    have : 0 < A.length := List.length_pos_of_mem hx
    exact_mod_cast this.ne'
  have hm : (B.length : ℚ) ≠ 0 := by
    have : 0 < B.length := List.length_pos_of_mem hy
    exact_mod_cast this.ne'
  simp only [hx, hy, hyA, if_true, not_true_eq_false, and_false, if_false, not_false_eq_true, and_self,
    Nat.add_zero, Nat.zero_add]
  have hsumQ : (B.countP (fun b => decide (b ∈ A)) : ℚ) + B.countP (fun b => decide (b ∉ A)) = B.length := by
    exact_mod_cast hsum
  generalize (B.countP (fun b => decide (b ∈ A))) = ci at *
  generalize (B.countP (fun b => decide (b ∉ A))) = co at *
  push_cast
  rw [← hsumQ] at hm ⊢
  field_simp
  ring

example : (List.count 0 (unionOutcomes [0, 1] [1, 2]) : ℚ) / List.count 2 (unionOutcomes [0, 1] [1, 2])
    = 1 + 1 / 2 := by
  rw [union_overlap_density_ratio [0, 1] [1, 2] (by decide) (by decide) 0 2 (by decide) (by decide) (by decide)]
  norm_num [List.countP_cons]

/-- 5. Concrete overlap `A = {0,1}`, `B = {1,2}`: of the 16 equally likely outcomes 6 are `0`, 6 are `1`
    and only 4 are `2` — the sample is not uniform on `A ∪ B = {0,1,2}`. -/
theorem union_overlap_not_uniform :
    List.count 0 (unionOutcomes [0, 1] [1, 2]) = 6 ∧ List.count 1 (unionOutcomes [0, 1] [1, 2]) = 6 ∧
    List.count 2 (unionOutcomes [0, 1] [1, 2]) = 4 ∧ (unionOutcomes [0, 1] [1, 2]).length = 16 := by
  rw [union_mixture_law _ _ (by decide) (by decide), union_mixture_law _ _ (by decide) (by decide),
    union_mixture_law _ _ (by decide) (by decide), unionOutcomes_length]
  decide

/-- the full claim "the union sampler is uniform on `A ∪ B`" in the finite model -/
def C11_full_union_uniform : Prop :=
  ∀ (A B : List ℕ), A.Nodup → B.Nodup → A ≠ [] → B ≠ [] → ∀ x ∈ A ++ B, ∀ y ∈ A ++ B,
    List.count x (unionOutcomes A B) = List.count y (unionOutcomes A B)

/-- 5. The full claim is false of the code: `A = {0,1}`, `B = {1,2}` is a counterexample. -/
theorem union_uniform_full_false :
    ¬ (∀ (A B : List ℕ), A.Nodup → B.Nodup → A ≠ [] → B ≠ [] → ∀ x ∈ A ++ B, ∀ y ∈ A ++ B,
      List.count x (unionOutcomes A B) = List.count y (unionOutcomes A B)) := by
  intro h
  have := h [0, 1] [1, 2] (by decide) (by decide) (by decide) (by decide) 0 (by decide) 2 (by decide)
  rw [union_overlap_not_uniform.1, union_overlap_not_uniform.2.2.1] at this
  exact absurd this (by decide)

theorem not_C11_full_union_uniform : ¬ C11_full_union_uniform := union_uniform_full_false

/-- 2'. / 4'. the same with `filter … |>.length` instead of `countP` -/
theorem union_mixture_law_filter (A B : List α) (hA : A.Nodup) (hB : B.Nodup) (x : α) :
    List.count x (unionOutcomes A B)
    = (if x ∈ A then (B.filter (fun b => decide (b ∈ A))).length * (A.length + B.length)
          + (B.filter (fun b => decide (b ∉ A))).length * A.length else 0)
      + (if x ∈ B ∧ x ∉ A then A.length * B.length else 0) := by
  rw [← List.countP_eq_length_filter, ← List.countP_eq_length_filter]
  exact union_mixture_law A B hA hB x

theorem union_overlap_density_ratio_filter (A B : List α) (hA : A.Nodup) (hB : B.Nodup) (x y : α)
    (hx : x ∈ A) (hy : y ∈ B) (hyA : y ∉ A) :
    (List.count x (unionOutcomes A B) : ℚ) / List.count y (unionOutcomes A B)
      = 1 + ((B.filter (fun b => decide (b ∈ A))).length : ℚ) / A.length := by
  rw [← List.countP_eq_length_filter]
  exact union_overlap_density_ratio A B hA hB x y hx hy hyA

end union

/-! ## B. dependent product -/

section product
variable {α : Type}

/-- 6. A batch with a single candidate skips the acceptance step: the candidate is kept whatever its
    volume and draw are. -/
theorem prodAccept_single {K} [Mul K] [LE K] [DecidableLE K] (c : α × K × K) :
    prodAccept [c] = [c.1] := rfl

example : prodAccept (K := ℚ) [((7 : ℕ), 1 / 1000, 999 / 1000)] = [7] := prodAccept_single _

/-- the maximum volume of the batch, computed by the fold the model (and `torch.max`) uses -/
def batchMax (cands : List (α × ℚ × ℚ)) : ℚ :=
  match cands.map (·.2.1) with
  | [] => 0
  | v :: vs => vs.foldl (fun a b => if a ≤ b then b else a) v

theorem foldl_max_eq (vs : List ℚ) (v : ℚ) :
    vs.foldl (fun a b => if a ≤ b then b else a) v = vs.foldl max v := by
  have : (fun a b : ℚ => if a ≤ b then b else a) = max := by
    funext a b
    rw [max_def]
  rw [this]

theorem foldl_max_ge (vs : List ℚ) (v : ℚ) :
    v ≤ vs.foldl max v ∧ ∀ w ∈ vs, w ≤ vs.foldl max v := by
  induction vs generalizing v with
  | nil => simp
  | cons w vs ih =>
    rw [List.foldl_cons]
    obtain ⟨h1, h2⟩ := ih (max v w)
    refine ⟨le_trans (le_max_left _ _) h1, ?_⟩
    intro z hz
    rw [List.mem_cons] at hz
    rcases hz with rfl | hz
    · exact le_trans (le_max_right _ _) h1
    · exact h2 z hz

theorem foldl_max_mem (vs : List ℚ) (v : ℚ) : vs.foldl max v ∈ v :: vs := by
  induction vs generalizing v with
  | nil => simp
  | cons w vs ih =>
    rw [List.foldl_cons]
    have := ih (max v w)
    rw [List.mem_cons] at this
    rcases this with h | h
    · rw [h]
      rcases max_choice v w with h' | h' <;> rw [h'] <;> simp
    · simp [h]

/-- 7a. `batchMax` is an upper bound of the volumes of the batch. -/
theorem le_batchMax (cands : List (α × ℚ × ℚ)) : ∀ c ∈ cands, c.2.1 ≤ batchMax cands := by
  intro c hc
  unfold batchMax
  cases hmap : cands.map (·.2.1) with
  | nil => simp at hmap; subst hmap; simp at hc
  | cons v vs =>
    simp only
    rw [foldl_max_eq]
    have hmem : c.2.1 ∈ v :: vs := by rw [← hmap]; exact List.mem_map_of_mem hc
    rw [List.mem_cons] at hmem
    rcases hmem with h | h
    · rw [h]; exact (foldl_max_ge vs v).1
    · exact (foldl_max_ge vs v).2 _ h

/-- 7b. `batchMax` is attained: it is the volume of some candidate of the batch. -/
theorem batchMax_attained (cands : List (α × ℚ × ℚ)) (hne : cands ≠ []) :
    ∃ c ∈ cands, c.2.1 = batchMax cands := by
  unfold batchMax
  cases hmap : cands.map (·.2.1) with
  | nil => simp at hmap; exact absurd hmap hne
  | cons v vs =>
    simp only
    rw [foldl_max_eq]
    have := foldl_max_mem vs v
    rw [← hmap, List.mem_map] at this
    obtain ⟨c, hc, h⟩ := this
    exact ⟨c, hc, h⟩

/-- 7. Acceptance step for batches with `≠ 1` candidates: candidate `(p, vol, u)` is kept iff
    `batchMax · u < vol`, where `batchMax` is the largest volume *of this batch*. -/
theorem prodAccept_spec (cands : List (α × ℚ × ℚ)) (hlen : cands.length ≠ 1) :
    prodAccept cands = (cands.filter fun c => decide (batchMax cands * c.2.2 < c.2.1)).map (·.1) := by
  have key : ∀ (mx : ℚ), (cands.filter fun c => !decide (c.2.1 ≤ mx * c.2.2))
      = cands.filter fun c => decide (mx * c.2.2 < c.2.1) := by
    intro mx
    congr 1
    funext c
    by_cases h : c.2.1 ≤ mx * c.2.2
    · simp [h, not_lt.mpr h]
    · simp [h, not_le.mp h]
  unfold prodAccept batchMax
  split
  · simp at hlen
  · cases hmap : cands.map (·.2.1) with
    | nil => simp at hmap; subst hmap; simp
    | cons v vs => simp only [key]

example : prodAccept (K := ℚ) [((0 : ℕ), 1, 1 / 2), (1, 3, 1 / 2), (2, 2, 9 / 10)] = [1] := by
  rw [prodAccept_spec _ (by decide)]
  have : batchMax [((0 : ℕ), (1 : ℚ), (1 / 2 : ℚ)), (1, 3, 1 / 2), (2, 2, 9 / 10)] = 3 := by
    norm_num [batchMax]
  rw [this]
  norm_num [List.filter_cons]

theorem filter_lt_range_length (n M : ℕ) (h : n ≤ M) :
    ((List.range M).filter fun i => decide (i < n)).length = n := by
  obtain ⟨k, rfl⟩ := Nat.exists_eq_add_of_le h
  rw [List.range_add, List.filter_append]
  have h1 : (List.range n).filter (fun i => decide (i < n)) = List.range n := by
    rw [List.filter_eq_self]
    intro i hi
    simpa using hi
  have h2 : ((List.range k).map (n + ·)).filter (fun i => decide (i < n)) = [] := by
    rw [List.filter_eq_nil_iff]
    intro i hi
    rw [List.mem_map] at hi
    obtain ⟨j, _, rfl⟩ := hi
    simp
  rw [h1, h2]
  simp

/-- 8. The draw `u = i/M` is uniform on the grid `{0, 1/M, …, (M-1)/M}`; a candidate of volume `n ≤ M`
    (`M` the maximum) is accepted (`M·u < n`) for exactly `n` of the `M` draws: acceptance probability `n/M`. -/
theorem accept_count (n M : ℕ) (hn : n ≤ M) (hM : 0 < M) :
    ((List.range M).filter fun (i : ℕ) => decide ((M : ℚ) * ((i : ℚ) / M) < n)).length = n := by
  have hM' : (M : ℚ) ≠ 0 := by exact_mod_cast hM.ne'
  have : ((List.range M).filter fun (i : ℕ) => decide ((M : ℚ) * ((i : ℚ) / M) < n))
      = (List.range M).filter fun i => decide (i < n) := by
    congr 1
    funext i
    simp only [mul_div_cancel₀ _ hM', Nat.cast_lt]
  rw [this, filter_lt_range_length n M hn]

example : ((List.range 5).filter fun (i : ℕ) => decide (((5 : ℕ) : ℚ) * ((i : ℚ) / (5 : ℕ)) < (2 : ℕ))).length = 2 :=
  accept_count 2 5 (by decide) (by decide)

/-- probability weight of the pair `(a, b)`, `a` in the fibre `A(b)` of size `sz b`: `b` is proposed with
    probability `1/|B|`, accepted with probability `#{i < M | M·(i/M) < sz b} / M`, and `a` is then drawn
    uniformly from the fibre -/
def depWeight {β : Type} (B : List β) (sz : β → ℕ) (M : ℕ) (b : β) : ℚ :=
  (1 / (B.length : ℚ))
    * ((((List.range M).filter fun (i : ℕ) => decide ((M : ℚ) * ((i : ℚ) / M) < sz b)).length : ℚ) / M)
    * (1 / (sz b : ℚ))

/-- 9. Dependent product, batch maximum = global maximum `M`: every pair `(a, b)` of the product set
    `{(a, b) | b ∈ B, a ∈ A(b)}` has the same weight `1/(|B|·M)` — the accepted sample is uniform on the
    dependent product (equivalently: the density of `b` is proportional to `|A(b)|`). -/
theorem dependent_product_law {β : Type} (B : List β) (sz : β → ℕ) (M : ℕ)
    (hpos : ∀ b ∈ B, 0 < sz b) (hM : ∀ b ∈ B, sz b ≤ M) :
    ∀ b ∈ B, depWeight B sz M b = 1 / ((B.length : ℚ) * M) := by
  intro b hb
  have h1 := hpos b hb
  have h2 := hM b hb
  have hMpos : 0 < M := lt_of_lt_of_le h1 h2
  unfold depWeight
  rw [accept_count (sz b) M h2 hMpos]
  have hs : ((sz b : ℕ) : ℚ) ≠ 0 := by exact_mod_cast h1.ne'
  have hM' : (M : ℚ) ≠ 0 := by exact_mod_cast hMpos.ne'
  have hB : (B.length : ℚ) ≠ 0 := by
    have : 0 < B.length := List.length_pos_of_mem hb
    exact_mod_cast this.ne'
  field_simp

example : ∀ b ∈ [0, 1], depWeight [0, 1] (fun b => if b = 0 then 1 else 3) 3 b = 1 / (((2 : ℕ) : ℚ) * (3 : ℕ)) :=
  dependent_product_law [0, 1] (fun b => if b = 0 then 1 else 3) 3 (by decide) (by decide)

/-- acceptance probability of `b` in a single-candidate batch, draws on the grid `i/M`: number of kept
    candidates over all draws, divided by the number of draws -/
def accProbSingle {β : Type} (sz : β → ℕ) (M : ℕ) (b : β) : ℚ :=
  (((List.range M).flatMap fun (i : ℕ) => prodAccept (K := ℚ) [(b, (sz b : ℚ), (i : ℚ) / M)]).length : ℚ) / M

/-- 10a. In a single-candidate batch the candidate is accepted with probability 1, whatever its volume. -/
theorem accProbSingle_eq_one {β : Type} (sz : β → ℕ) (M : ℕ) (hM : 0 < M) (b : β) :
    accProbSingle sz M b = 1 := by
  unfold accProbSingle
  have : ((List.range M).flatMap fun (i : ℕ) => prodAccept (K := ℚ) [(b, (sz b : ℚ), (i : ℚ) / M)]).length = M := by
    simp [prodAccept_single, List.length_flatMap]
  rw [this]
  have hM' : (M : ℚ) ≠ 0 := by exact_mod_cast hM.ne'
  exact div_self hM'

/-- weight of the pair `(a, b)` when batches have a single candidate -/
def depWeightSingle {β : Type} (B : List β) (sz : β → ℕ) (M : ℕ) (b : β) : ℚ :=
  (1 / (B.length : ℚ)) * accProbSingle sz M b * (1 / (sz b : ℚ))

theorem depWeightSingle_eq {β : Type} (B : List β) (sz : β → ℕ) (M : ℕ) (hM : 0 < M) (b : β) :
    depWeightSingle B sz M b = (1 / (B.length : ℚ)) * (1 / (sz b : ℚ)) := by
  unfold depWeightSingle
  rw [accProbSingle_eq_one sz M hM, mul_one]

/-- 10b. Single-candidate batches (`n = 1`): `B = {0,1}`, `|A(0)| = 1`, `|A(1)| = 3`.  The pair over
    `b = 0` has weight `1/2`, each pair over `b = 1` has weight `1/6`: not uniform on the product set
    (the exact rule gives `1/6` for all four pairs, `dependent_product_law`). -/
theorem dependent_product_single_not_uniform :
    depWeightSingle [0, 1] (fun b => if b = 0 then 1 else 3) 3 0 = 1 / 2 ∧
    depWeightSingle [0, 1] (fun b => if b = 0 then 1 else 3) 3 1 = 1 / 6 ∧
    depWeightSingle [0, 1] (fun b => if b = 0 then 1 else 3) 3 0
      ≠ depWeightSingle [0, 1] (fun b => if b = 0 then 1 else 3) 3 1 ∧
    depWeight [0, 1] (fun b => if b = 0 then 1 else 3) 3 0 = 1 / 6 ∧
    depWeight [0, 1] (fun b => if b = 0 then 1 else 3) 3 1 = 1 / 6 := by
  have hl := dependent_product_law [0, 1] (fun b => if b = 0 then 1 else 3) 3 (by decide) (by decide)
  rw [depWeightSingle_eq _ _ _ (by decide), depWeightSingle_eq _ _ _ (by decide),
    hl 0 (by decide), hl 1 (by decide)]
  norm_num

/-- 10c. A batch whose own maximum volume (1) is below the global maximum (3): both candidates are kept,
    although the exact rule `3·u < 1` rejects both draws (`3/2`, `27/10`). -/
theorem prodAccept_batch_max_witness :
    prodAccept (K := ℚ) [((0 : ℕ), 1, 1 / 2), (1, 1, 9 / 10)] = [0, 1] ∧
    ([((0 : ℕ), (1 : ℚ), (1 / 2 : ℚ)), (1, 1, 9 / 10)].filter fun c => decide (3 * c.2.2 < c.2.1)).map (·.1) = [] := by
  constructor
  · rw [prodAccept_spec _ (by decide)]
    have : batchMax [((0 : ℕ), (1 : ℚ), (1 / 2 : ℚ)), (1, 1, 9 / 10)] = 1 := by norm_num [batchMax]
    rw [this]
    norm_num [List.filter_cons]
  · norm_num [List.filter_cons]

/-- the full claim "for every batch the acceptance step is the exact rejection rule against a global bound
    `mx` of the volumes" (which would make the accepted `b` have probability `∝ vol_A(b)`) -/
def C11_full_dependent_product : Prop :=
  ∀ (cands : List (ℕ × ℚ × ℚ)) (mx : ℚ), (∀ c ∈ cands, 0 < c.2.1 ∧ c.2.1 ≤ mx) →
    (∀ c ∈ cands, 0 ≤ c.2.2 ∧ c.2.2 < 1) →
    prodAccept cands = (cands.filter fun c => decide (mx * c.2.2 < c.2.1)).map (·.1)

/-- 10d. The full claim is false of the code: a single candidate of volume 1 with draw `1/2` is kept
    although the global maximum is 3. -/
theorem not_C11_full_dependent_product : ¬ C11_full_dependent_product := by
  intro h
  have := h [((0 : ℕ), 1, 1 / 2)] 3 (by norm_num) (by norm_num)
  rw [prodAccept_single] at this
  norm_num [List.filter_cons] at this

end product

/-! ## C. selection loops return the first `n` accepted proposals -/

section loops
variable {α : Type}

/-- 11. `_random_points_inside`: the output is the first `n` accepted proposals of one round (the first
    round that delivers at least `n` accepted proposals). -/
theorem insideRow_first_n (n : Nat) (prop : Nat → Nat → List α) (ok : α → Bool) :
    ∀ (fuel rd : Nat) (req : Rat) (reqs rq : List Nat) (out : List α),
      insideRow n prop ok fuel rd req reqs = some (rq, out) →
      ∃ rd' m, out = ((prop rd' m).filter ok).take n ∧ n ≤ ((prop rd' m).filter ok).length := by
  intro fuel
  induction fuel with
  | zero => intro rd req reqs rq out h; simp [insideRow] at h
  | succ f ih =>
    intro rd req reqs rq out h
    simp only [insideRow] at h
    split at h
    · rename_i hle
      simp only [Option.some.injEq, Prod.mk.injEq] at h
      obtain ⟨_, rfl⟩ := h
      exact ⟨_, _, rfl, hle⟩
    · exact ih _ _ _ _ _ h

example : insideRow 2 (fun _ m => List.range m) (fun i => i % 2 == 0) 5 0 3 [] = some ([3], [0, 2]) := by
  decide

theorem flatMap_range_succ_shift (g : Nat → List α) (k : Nat) :
    (List.range (k + 1)).flatMap g = g 0 ++ (List.range k).flatMap fun i => g (i + 1) := by
  rw [List.range_succ_eq_map, List.flatMap_cons, List.flatMap_map]

/-- 12. The accumulate loop (boundary sampler, filter sampler, Gaussian sampler) without give-up: it
    stops after `k` further rounds and returns the first `n` of `acc` followed by all accepted proposals
    of rounds `rd, …, rd+k-1` in proposal order. -/
theorem accLoop_first_n (n : Nat) (prop : Nat → List α) (ok : α → Bool) :
    ∀ (fuel rd : Nat) (acc : List α) (r : Nat) (out : List α),
      accLoop n prop ok (fun _ _ => false) fuel rd acc = some (r, out) →
      ∃ k, r = rd + k ∧
        out = (acc ++ (List.range k).flatMap fun i => (prop (rd + i)).filter ok).take n ∧
        n ≤ (acc ++ (List.range k).flatMap fun i => (prop (rd + i)).filter ok).length := by
  intro fuel
  induction fuel with
  | zero =>
    intro rd acc r out h
    unfold accLoop at h
    split at h
    · rename_i hle
      simp only [Option.some.injEq, Prod.mk.injEq] at h
      obtain ⟨rfl, rfl⟩ := h
      exact ⟨0, rfl, by simp, by simpa using hle⟩
    · simp at h
  | succ f ih =>
    intro rd acc r out h
    unfold accLoop at h
    split at h
    · rename_i hle
      simp only [Option.some.injEq, Prod.mk.injEq] at h
      obtain ⟨rfl, rfl⟩ := h
      exact ⟨0, rfl, by simp, by simpa using hle⟩
    · simp only [Bool.false_eq_true, if_false] at h
      obtain ⟨k, hr, hout, hlen⟩ := ih _ _ _ _ h
      have hshift : (acc ++ (List.range (k + 1)).flatMap fun i => (prop (rd + i)).filter ok)
          = (acc ++ (prop rd).filter ok) ++ (List.range k).flatMap fun i => (prop (rd + 1 + i)).filter ok := by
        rw [flatMap_range_succ_shift (fun i => (prop (rd + i)).filter ok) k, List.append_assoc]
        simp only [Nat.add_zero, Nat.add_assoc, Nat.add_comm 1]
      refine ⟨k + 1, by omega, ?_, ?_⟩
      · rw [hshift]; exact hout
      · rw [hshift]; exact hlen

/-- 12'. Started from round 0 with nothing accumulated: the output is the first `n` accepted proposals in
    proposal order — the loop realises "propose until `n` are accepted", i.e. conditioning on acceptance. -/
theorem accLoop_first_n_start (n : Nat) (prop : Nat → List α) (ok : α → Bool) (fuel r : Nat) (out : List α)
    (h : accLoop n prop ok (fun _ _ => false) fuel 0 [] = some (r, out)) :
    out = ((List.range r).flatMap fun i => (prop i).filter ok).take n ∧
    n ≤ ((List.range r).flatMap fun i => (prop i).filter ok).length := by
  obtain ⟨k, hr, hout, hlen⟩ := accLoop_first_n n prop ok fuel 0 [] r out h
  simp only [Nat.zero_add, List.nil_append] at hr hout hlen
  subst hr
  exact ⟨hout, hlen⟩

example : accLoop 3 (fun rd => [2 * rd, 2 * rd + 1, 2 * rd + 2]) (fun i => i % 2 == 0) (fun _ _ => false) 5 0 []
    = some (2, [0, 2, 2]) := by decide

/-- 13. LHS sampler inside a box: no stratified point is rejected, so the design is returned unchanged
    (no top-up, no reordering). -/
theorem lhsRow_box (n : Nat) (props : List α) (ok : α → Bool) (topup : Nat → List α)
    (hok : ∀ p ∈ props, ok p = true) (hlen : props.length = n) :
    lhsRow n props ok topup = props := by
  unfold lhsRow
  have : props.filter ok = props := List.filter_eq_self.mpr hok
  simp [this, hlen]

example : lhsRow 3 [5, 1, 3] (fun _ => true) (fun m => List.replicate m 0) = [5, 1, 3] :=
  lhsRow_box 3 [5, 1, 3] _ _ (by simp) rfl

end loops

end TPV.Geom
