import TPV.Props.C12
namespace TPV.Table
variable {α : Type}

/-! ## natural total extensions of calls the code rejects for incidental reasons -/

theorem mul_nil_left (b : Space) (hb : b.WF) : (Space.mk []).mul b = b := by
  cases b with
  | mk vs =>
    simp only [Space.mul, List.map_nil, List.filter_nil, List.nil_append, keys_nil]
    congr 1
    rw [List.filter_eq_self]
    intro v hv
    simp [hb.2 v hv]

theorem isempty_false_iff (p : Points α) : p.isempty = false ↔ (p.len ≠ 0 ∨ p.space.dim ≠ 0) := by
  simp only [Points.isempty, Bool.and_eq_false_iff, beq_eq_false_iff_ne]

/-- the loop of the coded `joined` and the fold of `join` compute the same, started from related
    accumulators -/
theorem go_fold (p0 : Points α) (l : List (Points α)) (acc : Option (Points α)) (res : Option (Points α))
    (hl : ∀ p ∈ l, p.isempty = false → p.space.WF)
    (hacc : ∀ a, acc = some a → a.space.Keyed ∧ a.shape = p0.shape ∧ a.isempty = false)
    (h : Points.joined.go p0 l acc = .ok res) : joinFold l acc = .ok res := by
  induction l generalizing acc with
  | nil => simpa [Points.joined.go, joinFold] using h
  | cons p rest ih =>
    have hrest : ∀ q ∈ rest, q.isempty = false → q.space.WF := fun q hq => hl q (List.mem_cons_of_mem _ hq)
    simp only [Points.joined.go] at h
    simp only [joinFold]
    by_cases he : p.isempty = true
    · simp only [he, if_true] at h ⊢
      exact ih acc hrest hacc h
    · have he' : p.isempty = false := by simpa using he
      have hw := hl p (by simp) he'
      simp only [he', Bool.false_eq_true, if_false] at h ⊢
      cases acc with
      | none =>
        simp only at h ⊢
        split at h
        · cases h
        · rename_i hsh
          have hsh : p.shape = p0.shape := Decidable.not_not.1 hsh
          have e : (⟨(Space.mk []).mul p.space, p.shape, p.data⟩ : Points α) = p := by
            rw [mul_nil_left _ hw]
          rw [e] at h
          exact ih (some p) hrest (fun a ha => by cases ha; exact ⟨hw.1, hsh, he'⟩) h
      | some a =>
        obtain ⟨hak, hash, hae⟩ := hacc a rfl
        simp only at h ⊢
        split at h
        · cases h
        · rename_i hd
          split at h
          · cases h
          · rename_i hsh
            have hsh : p.shape = p0.shape := Decidable.not_not.1 hsh
            have hd' : disjointKeys a.space p.space = true := by simpa using hd
            have hj : a.join p = .ok ⟨a.space.mul p.space, a.shape, List.zipWith (· ++ ·) a.data p.data⟩ := by
              simp [Points.join, hae, he', hd', hash, hsh]
              rfl
            simp only [hj, bind, Except.bind]
            refine ih _ hrest ?_ h
            intro b hb
            cases hb
            refine ⟨mul_keyed _ _ hak hw.1, hash, ?_⟩
            rw [isempty_false_iff] at hae ⊢
            simp only [Points.len, Space.dim] at hae ⊢
            have := mul_dim a.space p.space hak hw.1
            simp only [Space.dim] at this
            omega

/-- **the total `joined` extends the coded one**: wherever `Points.joined` returns a table (spaces as
    the library builds them), the fold of `join` over the non-empty arguments returns the same table -/
theorem joined_total_of_joined (ps : List (Points α)) (r : Points α)
    (hl : ∀ p ∈ ps, p.isempty = false → p.space.WF) (h : Points.joined ps = .ok r) :
    Points.joinedTotal ps = .ok r := by
  cases ps with
  | nil => cases h
  | cons p0 rest =>
    simp only [Points.joined, bind, Except.bind] at h
    split at h
    · cases h
    · rename_i res hgo
      have := go_fold p0 (p0 :: rest) none res hl (fun a ha => by cases ha) hgo
      simp only [Points.joinedTotal, this, bind, Except.bind]
      cases res with
      | none => cases h
      | some x => simpa using h

/-- empty arguments are neutral at every position of the total `joined` -/
theorem joinedTotal_skip_empty (e : Points α) (ps qs : List (Points α)) (he : e.isempty = true) :
    Points.joinedTotal (ps ++ e :: qs) = Points.joinedTotal (ps ++ qs) := by
  have key : ∀ (l : List (Points α)) acc, joinFold (l ++ e :: qs) acc = joinFold (l ++ qs) acc := by
    intro l
    induction l with
    | nil => intro acc; simp [joinFold, he]
    | cons p rest ih =>
      intro acc
      simp only [List.cons_append, joinFold]
      split
      · exact ih acc
      · cases acc with
        | none => exact ih _
        | some a =>
          simp only [bind, Except.bind]
          cases a.join p with
          | error e => rfl
          | ok j => exact ih _
  simp only [Points.joinedTotal, key]

/-- no argument, or only empty ones: `Points.empty()` -/
theorem joinedTotal_all_empty (ps : List (Points α)) (h : ∀ p ∈ ps, p.isempty = true) :
    Points.joinedTotal ps = .ok Points.empty := by
  have key : ∀ l : List (Points α), (∀ p ∈ l, p.isempty = true) → joinFold l none = .ok none := by
    intro l
    induction l with
    | nil => intro _; rfl
    | cons p rest ih =>
      intro hl
      simp only [joinFold, hl p (by simp), if_true]
      exact ih (fun q hq => hl q (List.mem_cons_of_mem _ hq))
  simp only [Points.joinedTotal, key ps h, bind, Except.bind]
  rfl

/-- a Python list of row numbers that the code accepts means the same as the tensor of these numbers -/
theorem getitem_pylist (p : Points α) (is : List Int) (h1 : is ≠ []) (h2 : is.length ≠ p.shape.length + 1) :
    p.getitem (.pylist is) = p.getitem (.one (.list is)) := by
  simp only [Points.getitem, Points.select, splitIndex, h1, h2, if_false]

example : (Points.joinedTotal [Points.empty, (⟨⟨[("x", 1)]⟩, [2], [[0], [1]]⟩ : Points Nat),
    ⟨⟨[("t", 1)]⟩, [2], [[5], [6]]⟩]).toOption = some ⟨⟨[("x", 1), ("t", 1)]⟩, [2], [[0, 5], [1, 6]]⟩ := by decide

end TPV.Table
