/-
  C01, part 5 — the even-odd polygon denotation (Model/GeomPoly.lean) used to judge ShapelyPolygon samples:
  it is invariant under translations (so the oracle for Translate(P) is the pulled-back test), exact examples.
-/
import TPV.Props.C01Sel
import TPV.Model.GeomPoly

namespace TPV.Geom
set_option linter.unusedSectionVars false
variable {K : Type} [Field K] [LinearOrder K] [IsStrictOrderedRing K]

theorem edgeCross_translate (x y x1 y1 x2 y2 dx dy : K) :
    edgeCross (x + dx) (y + dy) (x1 + dx) (y1 + dy) (x2 + dx) (y2 + dy) = edgeCross x y x1 y1 x2 y2 := by
  unfold edgeCross
  have e1 : le (y1 + dy) (y + dy) = le y1 y := by simp [le]
  have e2 : le (y2 + dy) (y + dy) = le y2 y := by simp [le]
  have e3 : x1 + dx + (y + dy - (y1 + dy)) * (x2 + dx - (x1 + dx)) / (y2 + dy - (y1 + dy)) =
      (x1 + (y - y1) * (x2 - x1) / (y2 - y1)) + dx := by
    have a : y + dy - (y1 + dy) = y - y1 := by ring
    have b : x2 + dx - (x1 + dx) = x2 - x1 := by ring
    have c : y2 + dy - (y1 + dy) = y2 - y1 := by ring
    rw [a, b, c]; ring
  have e4 : le (x1 + (y - y1) * (x2 - x1) / (y2 - y1) + dx) (x + dx) = le (x1 + (y - y1) * (x2 - x1) / (y2 - y1)) x := by
    simp [le]
  rw [e1, e2, e3, e4]

theorem onEdge_translate (x y x1 y1 x2 y2 dx dy : K) :
    onEdge (x + dx) (y + dy) (x1 + dx) (y1 + dy) (x2 + dx) (y2 + dy) = onEdge x y x1 y1 x2 y2 := by
  unfold onEdge
  have a : (x2 + dx - (x1 + dx)) * (y + dy - (y1 + dy)) - (y2 + dy - (y1 + dy)) * (x + dx - (x1 + dx)) =
      (x2 - x1) * (y - y1) - (y2 - y1) * (x - x1) := by ring
  have mx : minK (x1 + dx) (x2 + dx) = minK x1 x2 + dx := by
    rw [minK_eq_min, minK_eq_min, min_add_add_right]
  have Mx : maxK (x1 + dx) (x2 + dx) = maxK x1 x2 + dx := by
    rw [maxK_eq_max, maxK_eq_max, max_add_add_right]
  have my : minK (y1 + dy) (y2 + dy) = minK y1 y2 + dy := by
    rw [minK_eq_min, minK_eq_min, min_add_add_right]
  have My : maxK (y1 + dy) (y2 + dy) = maxK y1 y2 + dy := by
    rw [maxK_eq_max, maxK_eq_max, max_add_add_right]
  simp only [a, mx, Mx, my, My]
  simp [le]

def shiftPt (dx dy : K) (p : K × K) : K × K := (p.1 + dx, p.2 + dy)

theorem edgesAux_shift (dx dy : K) (first : K × K) (vs : List (K × K)) :
    edgesAux (shiftPt dx dy first) (vs.map (shiftPt dx dy)) =
      (edgesAux first vs).map (fun e => (shiftPt dx dy e.1, shiftPt dx dy e.2)) := by
  induction vs with
  | nil => rfl
  | cons a t ih =>
    cases t with
    | nil => rfl
    | cons b t' =>
      simp only [List.map_cons, edgesAux] at ih ⊢
      rw [ih]

theorem polyEdges_shift (dx dy : K) (vs : List (K × K)) :
    polyEdges (vs.map (shiftPt dx dy)) = (polyEdges vs).map (fun e => (shiftPt dx dy e.1, shiftPt dx dy e.2)) := by
  cases vs with
  | nil => rfl
  | cons a t => exact edgesAux_shift dx dy a (a :: t)

/-- **the even-odd denotation commutes with translations**: a point is inside (outside, on the boundary of) the
    shifted polygon iff its pre-image is inside (outside, on the boundary of) the polygon -/
theorem polyContains_translate (dx dy : K) (vs : List (K × K)) (q : K × K) :
    polyContains (vs.map (shiftPt dx dy)) (shiftPt dx dy q) = polyContains vs q := by
  unfold polyContains
  simp only [polyEdges_shift, List.any_map, List.filter_map, List.length_map, shiftPt, Function.comp_def,
    edgeCross_translate, onEdge_translate]

/-- exact examples on the executable instance: the notch of an L-shape is outside, a point of its arm inside,
    a point of an edge is reported as boundary; a point in the hole of a square ring is outside -/
example : polyContains [((0:Rat), (0:Rat)), (2, 0), (2, 1), (1, 1), (1, 2), (0, 2)] (3/2, 3/2) = some false := by decide +kernel
example : polyContains [((0:Rat), (0:Rat)), (2, 0), (2, 1), (1, 1), (1, 2), (0, 2)] (1/2, 3/2) = some true := by decide +kernel
example : polyContains [((0:Rat), (0:Rat)), (2, 0), (2, 1), (1, 1), (1, 2), (0, 2)] (1, 3/2) = none := by decide +kernel
example : polyHoleContains [((0:Rat), (0:Rat)), (4, 0), (4, 4), (0, 4)] (some [(1, 1), (3, 1), (3, 3), (1, 3)]) (2, 2) = some false := by
  decide +kernel

end TPV.Geom
