/-
  C15 — static and adaptive samplers follow their documented state machines.
-/
import TPV.Model.SamplerState
import Mathlib.Algebra.Order.Field.Rat
import Mathlib.Tactic.Linarith

namespace TPV.SamplerState

/-! ## helper lemmas: running a history -/

theorem run_append (w : World) (a b : List Op) : run w (a ++ b) = run w a ++ run (exec w a) b := by
  induction a generalizing w with
  | nil => simp [run, exec]
  | cons op a ih =>
    simp only [List.cons_append, run, exec]
    cases h : (step w op).2 <;> simp [ih]

theorem run_sample_cons (w : World) (d : Nat) (ops : List Op) :
    run w (.sample d :: ops) = (sample d w).2 :: run (sample d w).1 ops := by
  simp [run, step]

theorem run_makeStatic_cons (w : World) (k : Option Nat) (ops : List Op) :
    run w (.makeStatic k :: ops) = run (makeStatic k w) ops := by
  simp [run, step]

theorem sample_plain {w : World} (d : Nat) (hs : w.static = none) :
    sample d w = ({ w with fresh := w.fresh + 1 }, ⟨w.fresh, d, true⟩) := by
  simp [sample, hs]

theorem sample_draw {w : World} {s : Static} (d : Nat) (hs : w.static = some s)
    (h : s.cached = none ∨ (w.nonempty && ltInterval (s.counter + 1) s.interval) = false) :
    sample d w = (⟨w.fresh + 1, w.nonempty, some ⟨0, some w.fresh, s.interval⟩⟩, ⟨w.fresh, d, true⟩) := by
  cases hc : s.cached with
  | none => simp [sample, hs, hc]
  | some p =>
    rcases h with h | h
    · rw [hc] at h; cases h
    · simp only [sample, hs, hc, h]; simp

theorem sample_cached {w : World} {s : Static} {p : Nat} (d : Nat) (hs : w.static = some s) (hc : s.cached = some p)
    (h : (w.nonempty && ltInterval (s.counter + 1) s.interval) = true) :
    sample d w = (⟨w.fresh, w.nonempty, some ⟨s.counter + 1, some p, s.interval⟩⟩, ⟨p, d, false⟩) := by
  simp only [sample, hs, hc, h]; simp

theorem run_query_cons (w : World) (q : Nat) (ops : List Op) :
    run w (.query q :: ops) = run w ops := by
  simp [run, step]

/-- **Queries are not uses**: `len()`, `bool()`, `repr()`, `is_static`, `iter()`, the length of a containing
    product/concat/append sampler, … leave the sampler untouched — removing (or inserting) them anywhere in a history
    changes neither the sets that the `sample_points` calls return nor the state reached. -/
theorem queries_transparent (ops : List Op) : ∀ w,
    run w ops = run w (eraseQueries ops) ∧ exec w ops = exec w (eraseQueries ops) := by
  induction ops with
  | nil => intro w; simp [eraseQueries]
  | cons op ops ih =>
    intro w
    cases op with
    | sample d =>
      have := ih (sample d w).1
      simp only [eraseQueries, Op.isQuery, Bool.not_false, List.filter_cons_of_pos] at this ⊢
      rw [run_sample_cons, run_sample_cons, this.1]
      exact ⟨rfl, by simp only [exec, step]; exact this.2⟩
    | makeStatic k =>
      have := ih (makeStatic k w)
      simp only [eraseQueries, Op.isQuery, Bool.not_false, List.filter_cons_of_pos] at this ⊢
      rw [run_makeStatic_cons, run_makeStatic_cons, this.1]
      exact ⟨rfl, by simp only [exec, step]; exact this.2⟩
    | query q =>
      have := ih w
      simp only [eraseQueries, Op.isQuery, Bool.not_true, Bool.false_eq_true, not_false_eq_true,
        List.filter_cons_of_neg] at this ⊢
      rw [run_query_cons, this.1]
      exact ⟨rfl, by simp only [exec, step]; exact this.2⟩

example : run (static0 (some 2)) [.query 0, .sample 0, .query 3, .sample 0, .sample 0, .query 1] =
    run (static0 (some 2)) [.sample 0, .sample 0, .sample 0] := by decide

/-- the transition ignores the device argument: two calls that differ only in the device lead to the same state and
    return the same set -/
theorem sample_device_irrelevant (w : World) (d d' : Nat) :
    (sample d w).1 = (sample d' w).1 ∧ (sample d w).2.core = (sample d' w).2.core := by
  cases hs : w.static with
  | none => rw [sample_plain d hs, sample_plain d' hs]; simp [Out.core]
  | some s =>
    cases hc : s.cached with
    | none => rw [sample_draw d hs (Or.inl hc), sample_draw d' hs (Or.inl hc)]; simp [Out.core]
    | some p =>
      cases h : (w.nonempty && ltInterval (s.counter + 1) s.interval) with
      | true => rw [sample_cached d hs hc h, sample_cached d' hs hc h]; simp [Out.core]
      | false => rw [sample_draw d hs (Or.inr h), sample_draw d' hs (Or.inr h)]; simp [Out.core]

/-- **The state machine does not depend on the device arguments**: for every history, replacing the device of every
    `sample_points` call (any spelling of any device, varied arbitrarily within the history) by one fixed device changes
    neither which set each call returns, nor which calls draw, nor the state reached. In particular no device-specific copy
    of an old set can survive a resample. -/
theorem device_independent (ops : List Op) : ∀ w,
    (run w ops).map Out.core = (run w (ops.map Op.forgetDev)).map Out.core ∧
    exec w ops = exec w (ops.map Op.forgetDev) := by
  induction ops with
  | nil => intro w; simp [run, exec]
  | cons op ops ih =>
    intro w
    cases op with
    | sample d =>
      obtain ⟨e1, e2⟩ := sample_device_irrelevant w d 0
      simp only [List.map_cons, Op.forgetDev]
      rw [run_sample_cons, run_sample_cons, List.map_cons, List.map_cons, e2]
      simp only [exec, step]
      rw [e1]
      exact ⟨by rw [(ih _).1], (ih _).2⟩
    | makeStatic k =>
      simp only [List.map_cons, Op.forgetDev]
      rw [run_makeStatic_cons, run_makeStatic_cons]
      simp only [exec, step]
      exact ih _
    | query q =>
      simp only [List.map_cons, Op.forgetDev]
      rw [run_query_cons, run_query_cons]
      simp only [exec, step]
      exact ih _

example : (run (static0 (some 2)) [.sample 0, .sample 2, .sample 0, .sample 2, .sample 3]).map Out.core =
    (run (static0 (some 2)) [.sample 0, .sample 0, .sample 0, .sample 0, .sample 0]).map Out.core := by decide

/-! ## constant interval -/

/-- state of a static sampler that holds set `q`, has returned it `r + 1` times, next draw is `q + 1` -/
def holding (q r : Nat) (k : Option Nat) : World := ⟨q + 1, true, some ⟨r, some q, k⟩⟩

theorem sample_holding_lt (q r k d : Nat) (h : r + 1 < k) :
    sample d (holding q r (some k)) = (holding q (r + 1) (some k), ⟨q, d, false⟩) := by
  simp [sample, holding, ltInterval, h]

theorem sample_holding_ge (q r k d : Nat) (h : ¬ r + 1 < k) :
    sample d (holding q r (some k)) = (holding (q + 1) 0 (some k), ⟨q + 1, d, true⟩) := by
  simp [sample, holding, ltInterval, h]

theorem run_holding (k : Nat) (hk : 0 < k) (devs : List Nat) : ∀ q r, r < k →
    ids (run (holding q r (some k)) (devs.map Op.sample)) =
      (List.range devs.length).map fun j => q + (r + 1 + j) / k := by
  induction devs with
  | nil => intro q r _; simp [run, ids]
  | cons d devs ih =>
    intro q r hr
    rw [List.map_cons, run_sample_cons, List.length_cons, List.range_succ_eq_map]
    by_cases h : r + 1 < k
    · rw [sample_holding_lt q r k d h]
      simp only [ids, List.map_cons, List.map_map] at ih ⊢
      rw [ih q (r + 1) h]
      congr 1
      · simp [Nat.div_eq_of_lt h]
      · apply List.map_congr_left; intro j _
        simp only [Function.comp]
        congr 2; omega
    · rw [sample_holding_ge q r k d h]
      have hrk : r + 1 = k := by omega
      simp only [ids, List.map_cons, List.map_map] at ih ⊢
      rw [ih (q + 1) 0 hk]
      congr 1
      · rw [Nat.add_zero, hrk, Nat.div_self hk]
      · apply List.map_congr_left; intro j _
        simp only [Function.comp]
        have : r + 1 + (j + 1) = (0 + 1 + j) + k := by omega
        rw [this, Nat.add_div_right _ hk]; omega

theorem sample_static0 (k : Option Nat) (f d : Nat) (ne : Bool) :
    sample d ⟨f, ne, some ⟨0, none, k⟩⟩ = (⟨f + 1, ne, some ⟨0, some f, k⟩⟩, ⟨f, d, true⟩) := by
  simp [sample]

/-- **Static sampler, constant interval `k ≥ 1`**: for every number of calls (any device arguments) the
    `j`-th `sample_points` call (0-based) returns draw number `j / k` of the underlying sampler: every set is
    used on exactly `k` consecutive calls, then a fresh one is drawn — on the first cycle and on every later one. -/
theorem static_trace (k : Nat) (hk : 0 < k) (devs : List Nat) :
    ids (run (static0 (some k)) (devs.map Op.sample)) = (List.range devs.length).map (· / k) := by
  cases devs with
  | nil => simp [run, ids]
  | cons d devs =>
    rw [List.map_cons, run_sample_cons, static0, sample_static0, List.length_cons, List.range_succ_eq_map]
    have := run_holding k hk devs 0 0 hk
    simp only [holding, Nat.zero_add] at this
    simp only [ids, List.map_cons, List.map_map, Nat.zero_add] at this ⊢
    rw [this]
    congr 1
    · simp
    · apply List.map_congr_left; intro j _
      simp only [Function.comp]
      congr 1; omega

/-- `static_trace` for histories with read-only questions anywhere (before the first draw, inside a window, …): only the
    `sample_points` calls count — asking for `len()` before the first draw does not shorten the first window -/
theorem static_trace_with_queries (k : Nat) (hk : 0 < k) (ops : List Op) (devs : List Nat)
    (h : eraseQueries ops = devs.map Op.sample) :
    ids (run (static0 (some k)) ops) = (List.range devs.length).map (· / k) := by
  rw [(queries_transparent ops _).1, h, static_trace k hk]

example : ids (run (static0 (some 2)) [.query 0, .sample 0, .sample 0, .query 1, .sample 0, .sample 0, .sample 0]) = [0, 0, 1, 1, 2] := by
  decide

example : ids (run (static0 (some 3)) ([0, 1, 0, 0, 1, 0, 0, 0].map Op.sample)) = [0, 0, 0, 1, 1, 1, 2, 2] := by decide

/-- "exactly that many consecutive uses": set `q` is returned at call `j` iff `q·k ≤ j < (q+1)·k` -/
theorem static_block (k : Nat) (hk : 0 < k) (devs : List Nat) (j q : Nat) (hj : j < devs.length) :
    (ids (run (static0 (some k)) (devs.map Op.sample)))[j]? = some q ↔ q * k ≤ j ∧ j < (q + 1) * k := by
  rw [static_trace k hk]
  simp only [List.getElem?_map, List.getElem?_range hj, Option.map_some, Option.some.injEq]
  rw [Nat.div_eq_iff hk]
  constructor
  · rintro ⟨a, b⟩
    refine ⟨a, ?_⟩
    have : (q + 1) * k = q * k + k := by rw [Nat.add_mul, Nat.one_mul]
    omega
  · rintro ⟨a, b⟩
    refine ⟨a, ?_⟩
    have : (q + 1) * k = q * k + k := by rw [Nat.add_mul, Nat.one_mul]
    omega

example : (ids (run (static0 (some 2)) ([0, 0, 0, 0, 0].map Op.sample)))[3]? = some 1 := by decide

theorem run_holding_inf (devs : List Nat) : ∀ q r,
    ids (run (holding q r none) (devs.map Op.sample)) = List.replicate devs.length q := by
  induction devs with
  | nil => intro q r; simp [run, ids]
  | cons d devs ih =>
    intro q r
    rw [List.map_cons, run_sample_cons]
    have : sample d (holding q r none) = (holding q (r + 1) none, ⟨q, d, false⟩) := by
      simp [sample, holding, ltInterval]
    rw [this]
    simp only [ids, List.map_cons] at ih ⊢
    rw [ih q (r + 1)]
    simp [List.replicate_succ]

/-- **Static sampler without interval** (`math.inf`, the default): the first set is returned forever -/
theorem static_inf (devs : List Nat) :
    ids (run (static0 none) (devs.map Op.sample)) = List.replicate devs.length 0 := by
  cases devs with
  | nil => simp [run, ids]
  | cons d devs =>
    rw [List.map_cons, run_sample_cons, static0, sample_static0]
    have := run_holding_inf devs 0 0
    simp only [holding, Nat.zero_add] at this
    simp only [ids, List.map_cons] at this ⊢
    rw [this]; simp [List.replicate_succ]

example : ids (run (static0 none) ([0, 1, 1, 0].map Op.sample)) = [0, 0, 0, 0] := by decide

/-- every call draws: the sampler is plain, or the interval is 0, or the sets are empty -/
def alwaysDraws (w : World) : Prop :=
  match w.static with
  | none => True
  | some s => s.interval = some 0 ∨ w.nonempty = false

theorem run_alwaysDraws (devs : List Nat) : ∀ w, alwaysDraws w →
    ids (run w (devs.map Op.sample)) = (List.range devs.length).map (w.fresh + ·) := by
  induction devs with
  | nil => intro w _; simp [run, ids]
  | cons d devs ih =>
    intro w hw
    rw [List.map_cons, run_sample_cons, List.length_cons, List.range_succ_eq_map]
    have key : (sample d w).2.id = w.fresh ∧ (sample d w).1.fresh = w.fresh + 1 ∧ alwaysDraws (sample d w).1 := by
      unfold alwaysDraws at hw ⊢
      cases hs : w.static with
      | none => rw [sample_plain d hs]; simp [hs]
      | some s =>
        rw [hs] at hw
        have hd : s.cached = none ∨ (w.nonempty && ltInterval (s.counter + 1) s.interval) = false := by
          right
          rcases hw with h | h
          · simp [h, ltInterval]
          · simp [h]
        rw [sample_draw d hs hd]
        simpa using hw
    obtain ⟨h1, h2, h3⟩ := key
    simp only [ids, List.map_cons, List.map_map] at ih ⊢
    rw [ih _ h3, h1, h2]
    congr 1
    apply List.map_congr_left; intro j _
    simp only [Function.comp]; omega

/-- **Non-static sampler**: every call draws fresh points — call `j` returns draw `j` -/
theorem plain_trace (devs : List Nat) :
    ids (run plain0 (devs.map Op.sample)) = List.range devs.length := by
  have := run_alwaysDraws devs plain0 (by simp [alwaysDraws, plain0])
  simpa [plain0] using this

example : ids (run plain0 ([0, 1, 0].map Op.sample)) = [0, 1, 2] := by decide

/-- as coded, `resample_interval = 0` behaves like 1: a fresh set on every call -/
theorem static_zero (devs : List Nat) :
    ids (run (static0 (some 0)) (devs.map Op.sample)) = List.range devs.length := by
  have := run_alwaysDraws devs (static0 (some 0)) (by simp [alwaysDraws, static0])
  simpa [static0] using this

/-- as coded, a static sampler over *empty* point sets re-draws on every call (`if self.created_points` is a length
    test); all these sets are equal (empty), so the returned point set is still the same on every call -/
theorem static_empty_redraws (k : Option Nat) (devs : List Nat) :
    ids (run ⟨0, false, some ⟨0, none, k⟩⟩ (devs.map Op.sample)) = List.range devs.length := by
  have := run_alwaysDraws devs ⟨0, false, some ⟨0, none, k⟩⟩ (by simp [alwaysDraws])
  simpa using this

/-! ## arbitrary histories: sample calls with any device arguments interleaved with re-staticising -/

theorem trailingRun_append_same (h : List Nat) (a : Nat) (hl : h.getLast? = some a) :
    trailingRun (h ++ [a]) = trailingRun h + 1 := by
  unfold trailingRun
  rw [List.reverse_append, List.reverse_singleton, List.singleton_append]
  have : h.reverse.head? = some a := by rw [List.head?_reverse]; exact hl
  cases hr : h.reverse with
  | nil => rw [hr] at this; simp at this
  | cons b r =>
    rw [hr] at this
    simp only [List.head?_cons, Option.some.injEq] at this
    subst this
    simp

theorem trailingRun_append_ne (h : List Nat) (a x : Nat) (hl : h.getLast? = some a) (hx : a ≠ x) :
    trailingRun (h ++ [x]) = 1 := by
  unfold trailingRun
  rw [List.reverse_append, List.reverse_singleton, List.singleton_append]
  have : h.reverse.head? = some a := by rw [List.head?_reverse]; exact hl
  cases hr : h.reverse with
  | nil => rw [hr] at this; simp at this
  | cons b r =>
    rw [hr] at this
    simp only [List.head?_cons, Option.some.injEq] at this
    subst this
    simp [hx]

theorem trailingRun_singleton (x : Nat) : trailingRun [x] = 1 := by simp [trailingRun]

/-- invariant linking the fields of the static sampler to what it has returned so far (`h`, since it became static;
    `f0` = draws the underlying sampler had made before) -/
def Inv (f0 : Nat) (w : World) (h : List Nat) : Prop :=
  w.nonempty = true ∧ ∃ s, w.static = some s ∧
    match h.getLast? with
    | none => s.cached = none ∧ w.fresh = f0
    | some last => s.cached = some last ∧ w.fresh = last + 1 ∧ s.counter + 1 = trailingRun h

def curInterval (w : World) : Option Nat :=
  match w.static with
  | none => none
  | some s => s.interval

theorem Inv_makeStatic {f0 w h} (k : Option Nat) (hi : Inv f0 w h) :
    Inv f0 (makeStatic k w) h ∧ curInterval (makeStatic k w) = k := by
  obtain ⟨hne, s, hs, hm⟩ := hi
  refine ⟨⟨by simp [makeStatic, hs, hne], { s with interval := k }, by simp [makeStatic, hs], ?_⟩, by simp [makeStatic, hs, curInterval]⟩
  have hf : (makeStatic k w).fresh = w.fresh := by simp [makeStatic, hs]
  cases hl : h.getLast? with
  | none => rw [hl] at hm; simpa [hf] using hm
  | some a => rw [hl] at hm; simpa [hf] using hm

theorem Inv_sample {f0 w h} (d : Nat) (hi : Inv f0 w h) :
    (sample d w).2.id = specNext f0 h (curInterval w) ∧
    Inv f0 (sample d w).1 (h ++ [(sample d w).2.id]) ∧
    curInterval (sample d w).1 = curInterval w := by
  obtain ⟨hne, s, hs, hm⟩ := hi
  cases hl : h.getLast? with
  | none =>
    rw [hl] at hm
    obtain ⟨hc, hf⟩ := hm
    have e : sample d w = ({ w with fresh := w.fresh + 1, static := some ⟨0, some w.fresh, s.interval⟩ }, ⟨w.fresh, d, true⟩) := by
      simp [sample, hs, hc]
    rw [e]
    refine ⟨by simp [specNext, hl, hf], ⟨hne, ⟨0, some w.fresh, s.interval⟩, rfl, ?_⟩, by simp [curInterval, hs]⟩
    have hnil : h = [] := by simpa using hl
    simp [hnil, trailingRun_singleton]
  | some a =>
    rw [hl] at hm
    obtain ⟨hc, hf, hcnt⟩ := hm
    by_cases hlt : ltInterval (s.counter + 1) s.interval = true
    · have e : sample d w = ({ w with static := some { s with counter := s.counter + 1 } }, ⟨a, d, false⟩) := by
        simp [sample, hs, hc, hne, hlt]
      rw [e]
      refine ⟨by simp [specNext, hl, curInterval, hs, ← hcnt, hlt], ⟨hne, { s with counter := s.counter + 1 }, rfl, ?_⟩, by simp [curInterval, hs]⟩
      simp only [List.getLast?_append, List.getLast?_singleton, Option.some_or]
      exact ⟨hc, hf, by rw [trailingRun_append_same h a hl, hcnt]⟩
    · have e : sample d w = ({ w with fresh := w.fresh + 1, static := some ⟨0, some w.fresh, s.interval⟩ }, ⟨w.fresh, d, true⟩) := by
        simp [sample, hs, hc, hne, hlt]
      rw [e]
      refine ⟨by simp [specNext, hl, curInterval, hs, ← hcnt, hlt, hf], ⟨hne, ⟨0, some w.fresh, s.interval⟩, rfl, ?_⟩, by simp [curInterval, hs]⟩
      simp only [List.getLast?_append, List.getLast?_singleton, Option.some_or]
      exact ⟨by simp, by simp, by rw [trailingRun_append_ne h a w.fresh hl (by omega)]⟩

theorem history_aux (f0 : Nat) (d : Nat) (pre : List Op) : ∀ w h, Inv f0 w h →
    ids (run w (pre ++ [.sample d])) =
      ids (run w pre) ++ [specNext f0 (h ++ ids (run w pre)) (intervalAfter (curInterval w) pre)] := by
  induction pre with
  | nil =>
    intro w h hi
    simp [run, step, ids, intervalAfter, (Inv_sample d hi).1]
  | cons op pre ih =>
    intro w h hi
    cases op with
    | sample d' =>
      obtain ⟨_, h2, h3⟩ := Inv_sample d' hi
      rw [List.cons_append, run_sample_cons, run_sample_cons]
      have := ih _ _ h2
      simp only [ids, List.map_cons, List.cons_append, intervalAfter] at this ⊢
      rw [this, h3]
      simp
    | makeStatic k =>
      obtain ⟨h1, h2⟩ := Inv_makeStatic k hi
      rw [List.cons_append, run_makeStatic_cons, run_makeStatic_cons]
      have := ih _ _ h1
      simp only [intervalAfter] at this ⊢
      rw [this, h2]
    | query q =>
      rw [List.cons_append, run_query_cons, run_query_cons]
      have := ih _ _ hi
      simp only [intervalAfter] at this ⊢
      exact this

/-- **Static sampler, every call history** (any length, any interleaving of `sample_points` calls with any device
    arguments and `make_static(k)` calls that change the interval; `f0` = draws made before the sampler became static,
    `k0` = its first interval): after any history `pre`, the next `sample_points` call returns exactly what the
    documented rule says, phrased on the observable sequence of returned sets: the first call draws; afterwards the
    last returned set is returned again iff it has so far been returned on fewer than `interval` consecutive calls
    (interval now in effect), else the next fresh draw. -/
theorem static_history (f0 : Nat) (k0 : Option Nat) (pre : List Op) (d : Nat) :
    let w0 : World := ⟨f0, true, some ⟨0, none, k0⟩⟩
    ids (run w0 (pre ++ [.sample d])) =
      ids (run w0 pre) ++ [specNext f0 (ids (run w0 pre)) (intervalAfter k0 pre)] := by
  intro w0
  have hi : Inv f0 w0 [] := ⟨rfl, ⟨0, none, k0⟩, rfl, by simp [w0]⟩
  have := history_aux f0 d pre w0 [] hi
  simpa [curInterval, w0] using this

example : ids (run ⟨0, true, some ⟨0, none, some 5⟩⟩
    [.sample 0, .sample 0, .sample 0, .makeStatic (some 2), .sample 0, .sample 1, .sample 0, .sample 0,
     .makeStatic (some 4), .sample 0, .sample 0, .sample 0]) = [0, 0, 0, 1, 1, 2, 2, 2, 2, 3] := by decide
example : specNext 0 [0, 0, 0, 1, 1, 2, 2, 2, 2] (some 4) = 3 := by decide
example : specNext 0 [0, 0, 0, 1, 1, 2, 2, 2] (some 4) = 2 := by decide

/-- a plain sampler that is made static after some calls: the calls before are draws `0 … m-1`, the static sampler
    starts with nothing cached and the underlying sampler at draw `m` (so `static_history` applies with `f0 = m`) -/
theorem plain_then_static (devs : List Nat) (k : Option Nat) (rest : List Op) :
    run plain0 (devs.map Op.sample ++ .makeStatic k :: rest) =
      run plain0 (devs.map Op.sample) ++ run ⟨devs.length, true, some ⟨0, none, k⟩⟩ rest := by
  rw [run_append, run_makeStatic_cons]
  have : ∀ (l : List Nat) (f : Nat), exec ⟨f, true, none⟩ (l.map Op.sample) = ⟨f + l.length, true, none⟩ := by
    intro l
    induction l with
    | nil => intro f; simp [exec]
    | cons d l ih => intro f; simp [exec, step, sample, ih]; omega
  rw [plain0, this]
  simp [makeStatic]

/-! ## fresh sets are new draws; devices -/

/-- every `sample_points` call returns a set on the requested device, and either invokes the underlying sampler —
    then it returns that brand-new draw — or returns the cached set without invoking it -/
theorem sample_cases (w : World) (d : Nat) :
    (sample d w).2.dev = d ∧
    (((sample d w).2.drawn = true ∧ (sample d w).2.id = w.fresh ∧ (sample d w).1.fresh = w.fresh + 1) ∨
     ((sample d w).2.drawn = false ∧ (sample d w).1.fresh = w.fresh ∧
        ∃ s, w.static = some s ∧ s.cached = some (sample d w).2.id)) := by
  cases hs : w.static with
  | none => rw [sample_plain d hs]; simp
  | some s =>
    cases hc : s.cached with
    | none => rw [sample_draw d hs (Or.inl hc)]; simp
    | some p =>
      cases h : (w.nonempty && ltInterval (s.counter + 1) s.interval) with
      | true => rw [sample_cached d hs hc h]; simp [hc]
      | false => rw [sample_draw d hs (Or.inr h)]; simp

/-- over every history the sets that were drawn are the consecutive draws of the underlying sampler, each returned by
    the call that drew it: a "fresh" set is never an old one, and the underlying sampler is invoked for nothing else -/
theorem drawn_ids_consecutive (ops : List Op) : ∀ w,
    ((run w ops).filter (·.drawn)).map (·.id) =
      (List.range ((run w ops).filter (·.drawn)).length).map (w.fresh + ·) ∧
    (exec w ops).fresh = w.fresh + ((run w ops).filter (·.drawn)).length := by
  induction ops with
  | nil => intro w; simp [run, exec]
  | cons op ops ih =>
    intro w
    cases op with
    | makeStatic k =>
      rw [run_makeStatic_cons]
      simp only [exec, step]
      have hf : (makeStatic k w).fresh = w.fresh := by simp only [makeStatic]; cases w.static <;> simp
      have := ih (makeStatic k w)
      rw [hf] at this
      exact this
    | query q =>
      rw [run_query_cons]
      simp only [exec, step]
      exact ih w
    | sample d =>
      rw [run_sample_cons]
      simp only [exec, step]
      obtain ⟨i1, i2⟩ := ih (sample d w).1
      rcases (sample_cases w d).2 with ⟨a, b, c⟩ | ⟨a, c, _⟩
      · rw [List.filter_cons_of_pos (by simpa using a), List.map_cons, List.length_cons, List.range_succ_eq_map,
          i1, i2, c, b]
        refine ⟨?_, by omega⟩
        simp only [List.map_cons, List.map_map, Nat.add_zero]
        congr 1
        apply List.map_congr_left; intro j _
        simp only [Function.comp]; omega
      · rw [List.filter_cons_of_neg (by simp [a]), i1, i2, c]
        exact ⟨rfl, rfl⟩

/-- the device of every returned set is the device requested in that call -/
theorem out_devices (ops : List Op) : ∀ w,
    (run w ops).map (·.dev) = ops.filterMap (fun | .sample d => some d | _ => none) := by
  induction ops with
  | nil => intro w; simp [run]
  | cons op ops ih =>
    intro w
    cases op with
    | makeStatic k => rw [run_makeStatic_cons, ih]; simp
    | query q => rw [run_query_cons, ih]; simp
    | sample d => rw [run_sample_cons, List.map_cons, ih, (sample_cases w d).1]; simp

/-! ## adaptive samplers -/

theorem replaced_iff {K} [LT K] [Add K] [Sub K] [Mul K] [DecidableLT K] (lo hi thr x : K) :
    replaced lo hi thr x = true ↔ x < lo + (hi - lo) * thr := by
  simp [replaced]

theorem foldl_rmin (xs : List Rat) : ∀ a : Rat,
    (xs.foldl rmin a ≤ a ∧ ∀ x ∈ xs, xs.foldl rmin a ≤ x) ∧ (xs.foldl rmin a = a ∨ xs.foldl rmin a ∈ xs) := by
  induction xs with
  | nil => intro a; simp
  | cons y ys ih =>
    intro a
    obtain ⟨⟨h1, h2⟩, h3⟩ := ih (rmin a y)
    have hm : rmin a y ≤ a ∧ rmin a y ≤ y ∧ (rmin a y = a ∨ rmin a y = y) := by
      unfold rmin; split
      · exact ⟨le_refl _, by assumption, Or.inl rfl⟩
      · exact ⟨by linarith, le_refl _, Or.inr rfl⟩
    simp only [List.foldl_cons, List.mem_cons, forall_eq_or_imp]
    refine ⟨⟨le_trans h1 hm.1, le_trans h1 hm.2.1, h2⟩, ?_⟩
    rcases h3 with h3 | h3
    · rcases hm.2.2 with e | e
      · left; rw [h3, e]
      · right; left; rw [h3, e]
    · right; right; exact h3

theorem foldl_rmax (xs : List Rat) : ∀ a : Rat,
    (a ≤ xs.foldl rmax a ∧ ∀ x ∈ xs, x ≤ xs.foldl rmax a) ∧ (xs.foldl rmax a = a ∨ xs.foldl rmax a ∈ xs) := by
  induction xs with
  | nil => intro a; simp
  | cons y ys ih =>
    intro a
    obtain ⟨⟨h1, h2⟩, h3⟩ := ih (rmax a y)
    have hm : a ≤ rmax a y ∧ y ≤ rmax a y ∧ (rmax a y = a ∨ rmax a y = y) := by
      unfold rmax; split
      · exact ⟨by assumption, le_refl _, Or.inr rfl⟩
      · exact ⟨le_refl _, by linarith, Or.inl rfl⟩
    simp only [List.foldl_cons, List.mem_cons, forall_eq_or_imp]
    refine ⟨⟨le_trans hm.1 h1, le_trans hm.2.1 h1, h2⟩, ?_⟩
    rcases h3 with h3 | h3
    · rcases hm.2.2 with e | e
      · left; rw [h3, e]
      · right; left; rw [h3, e]
    · right; right; exact h3

/-- `lmin` / `lmax` are the minimum and the maximum of a non-empty loss vector (so the coded threshold
    `lo + (hi - lo) * ratio` is the documented `min(loss) + ratio * (max(loss) - min(loss))`) -/
theorem lmin_lmax_spec (l : List Rat) (hl : l ≠ []) :
    lmin l ∈ l ∧ lmax l ∈ l ∧ ∀ x ∈ l, lmin l ≤ x ∧ x ≤ lmax l := by
  cases l with
  | nil => exact absurd rfl hl
  | cons a xs =>
    obtain ⟨⟨a1, a2⟩, a3⟩ := foldl_rmin xs a
    obtain ⟨⟨b1, b2⟩, b3⟩ := foldl_rmax xs a
    simp only [lmin, lmax, List.mem_cons, forall_eq_or_imp]
    refine ⟨?_, ?_, ⟨a1, b1⟩, fun x hx => ⟨a2 x hx, b2 x hx⟩⟩
    · rcases a3 with h | h
      · left; exact h
      · right; exact h
    · rcases b3 with h | h
      · left; exact h
      · right; exact h

theorem mergeRows_getElem? (m : List Bool) : ∀ (o f : List Row) (i : Nat),
    (mergeRows m o f)[i]? =
      match m[i]?, o[i]?, f[i]? with
      | some b, some x, some y => some (if b then y else x)
      | _, _, _ => none := by
  induction m with
  | nil => intro o f i; simp [mergeRows]
  | cons b m ih =>
    intro o f i
    cases o with
    | nil => simp [mergeRows]
    | cons x o =>
      cases f with
      | nil =>
        simp only [mergeRows, List.getElem?_nil]
        cases (b :: m)[i]? <;> cases (x :: o)[i]? <;> rfl
      | cons y f =>
        cases i with
        | zero => simp [mergeRows]
        | succ i => simp [mergeRows, ih]

theorem mergeRows_length (m : List Bool) : ∀ (o f : List Row) (n : Nat),
    m.length = n → o.length = n → f.length = n → (mergeRows m o f).length = n := by
  induction m with
  | nil => intro o f n h _ _; simpa [mergeRows] using h
  | cons b m ih =>
    intro o f n hm ho hf
    cases o with
    | nil => simp at ho hm; omega
    | cons x o =>
      cases f with
      | nil => simp at hf hm; omega
      | cons y f =>
        cases n with
        | zero => simp at hm
        | succ n =>
          simp only [mergeRows, List.length_cons] at hm ho hf ⊢
          rw [ih o f n (by omega) (by omega) (by omega)]

theorem freshRows_getElem? (t n i : Nat) (h : i < n) : (freshRows t n)[i]? = some (t, i) := by
  simp [freshRows, List.getElem?_range h]

theorem freshRows_length (t n : Nat) : (freshRows t n).length = n := by simp [freshRows]

/-- the point set of an adaptive sampler is well-formed: `n` rows, row `i` is row `i` of one of the earlier draws -/
def AInv (s : Adaptive) : Prop :=
  ∀ last, s.last = some last → last.length = s.n ∧ ∀ (i : Nat) (row : Row), last[i]? = some row → row.2 = i ∧ row.1 < s.t

theorem adaptiveStep_n (s : Adaptive) (c) : (adaptiveStep s c).1.n = s.n ∧ (adaptiveStep s c).1.t = s.t + 1 := by
  unfold adaptiveStep
  cases hl : s.last with
  | none => simp
  | some last =>
    cases c with
    | none => simp
    | some p =>
      obtain ⟨l, thr⟩ := p
      simp only
      split <;> simp

/-- **One adaptive call with a loss vector** (`thr` = the per-row thresholds: all equal to `resample_ratio` in the
    threshold variant, the drawn `rand_like` values in the random variant): the call returns `n` rows again; row `i` is the
    previous row `i` iff its previous loss is at or above `min + (max - min)·thrᵢ`, and is otherwise row `i` of the fresh
    uniform sample drawn in this call (draw number `s.t`, which no earlier row carries). -/
theorem adaptive_retain (s : Adaptive) (last : List Row) (l thr : List Rat)
    (hs : s.last = some last) (hinv : AInv s) (hl : l.length = s.n) (hthr : thr.length = s.n) (hn : 0 < s.n) :
    ∃ out, (adaptiveStep s (some (l, thr))).2 = .ok out ∧ (adaptiveStep s (some (l, thr))).1.last = some out ∧
      out.length = s.n ∧
      (∀ (i : Nat) (x u : Rat) (old : Row), l[i]? = some x → thr[i]? = some u → last[i]? = some old →
        out[i]? = some (if lmin l + (lmax l - lmin l) * u ≤ x then old else (s.t, i))) ∧
      (∀ row ∈ last, row.1 < s.t) := by
  obtain ⟨hlen, hrows⟩ := hinv last hs
  have hne : l ≠ [] := by intro h; rw [h] at hl; simp at hl; omega
  have hcond : ¬ (l.length ≠ last.length ∨ thr.length ≠ l.length ∨ l = []) := by
    rintro (h | h | h)
    · exact h (by omega)
    · exact h (by omega)
    · exact hne h
  have e : adaptiveStep s (some (l, thr)) =
      ({ s with t := s.t + 1, last := some (mergeRows (List.zipWith (fun x u => replaced (lmin l) (lmax l) u x) l thr) last (freshRows s.t s.n)) },
       .ok (mergeRows (List.zipWith (fun x u => replaced (lmin l) (lmax l) u x) l thr) last (freshRows s.t s.n))) := by
    simp only [adaptiveStep, hs, if_neg hcond]
  rw [e]
  refine ⟨_, rfl, rfl, ?_, ?_, ?_⟩
  · apply mergeRows_length
    · simp [List.length_zipWith]; omega
    · exact hlen
    · exact freshRows_length _ _
  · intro i x u old hx hu ho
    have hi : i < s.n := by
      have := (List.getElem?_eq_some_iff.mp hx).1
      omega
    rw [mergeRows_getElem?, List.getElem?_zipWith, hx, hu, ho, freshRows_getElem? _ _ _ hi]
    simp only [replaced]
    by_cases hc : x < lmin l + (lmax l - lmin l) * u
    · simp [hc, not_le.mpr hc]
    · simp [hc, not_lt.mp hc]
  · intro row hr
    obtain ⟨i, hi, rfl⟩ := List.getElem_of_mem hr
    exact (hrows i _ (List.getElem?_eq_getElem hi)).2

theorem AInv_step (s : Adaptive) (c) (hn : 0 < s.n) (hinv : AInv s) : AInv (adaptiveStep s c).1 := by
  have fresh_ok : AInv { s with t := s.t + 1, last := some (freshRows s.t s.n) } := by
    intro last' h
    simp only [Option.some.injEq] at h
    subst h
    refine ⟨freshRows_length _ _, ?_⟩
    intro i row hr
    have hi : i < s.n := by
      have := (List.getElem?_eq_some_iff.mp hr).1
      rwa [freshRows_length] at this
    rw [freshRows_getElem? _ _ _ hi] at hr
    cases hr
    exact ⟨rfl, Nat.lt_succ_self _⟩
  cases hl : s.last with
  | none =>
    have : (adaptiveStep s c).1 = { s with t := s.t + 1, last := some (freshRows s.t s.n) } := by
      simp [adaptiveStep, hl]
    rw [this]; exact fresh_ok
  | some last =>
    cases c with
    | none =>
      have : (adaptiveStep s none).1 = { s with t := s.t + 1, last := some (freshRows s.t s.n) } := by
        simp [adaptiveStep, hl]
      rw [this]; exact fresh_ok
    | some p =>
      obtain ⟨l, thr⟩ := p
      obtain ⟨hlen, hrows⟩ := hinv last hl
      by_cases hcond : (l.length ≠ last.length ∨ thr.length ≠ l.length ∨ l = [])
      · have : (adaptiveStep s (some (l, thr))).1 = { s with t := s.t + 1 } := by
          simp only [adaptiveStep, hl, if_pos hcond]
        rw [this]
        intro last' h
        simp only at h
        rw [hl] at h; cases h
        exact ⟨hlen, fun i row hr => ⟨(hrows i row hr).1, Nat.lt_succ_of_lt (hrows i row hr).2⟩⟩
      · have hl' : l.length = s.n := by
          by_contra h; exact hcond (Or.inl (by omega))
        have hthr : thr.length = s.n := by
          by_contra h; exact hcond (Or.inr (Or.inl (by omega)))
        obtain ⟨out, _, h2, h3, h4, _⟩ := adaptive_retain s last l thr hl hinv hl' hthr hn
        intro last' h
        rw [h2] at h; cases h
        rw [(adaptiveStep_n s _).1, (adaptiveStep_n s _).2]
        refine ⟨h3, ?_⟩
        intro i row hr
        have hi : i < s.n := by
          have := (List.getElem?_eq_some_iff.mp hr).1
          omega
        have hx := List.getElem?_eq_getElem (show i < l.length by omega)
        have hu := List.getElem?_eq_getElem (show i < thr.length by omega)
        have ho := List.getElem?_eq_getElem (show i < last.length by omega)
        rw [h4 i _ _ _ hx hu ho] at hr
        simp only [Option.some.injEq] at hr
        split at hr
        · subst hr
          exact ⟨(hrows i _ ho).1, Nat.lt_succ_of_lt (hrows i _ ho).2⟩
        · subst hr
          exact ⟨rfl, Nat.lt_succ_self _⟩

theorem AInv_exec (cs : List (Option (List Rat × List Rat))) : ∀ s, 0 < s.n → AInv s →
    AInv (adaptiveExec s cs) ∧ (adaptiveExec s cs).n = s.n ∧ (adaptiveExec s cs).t = s.t + cs.length := by
  induction cs with
  | nil => intro s _ h; exact ⟨h, rfl, rfl⟩
  | cons c cs ih =>
    intro s hn h
    have h1 := AInv_step s c hn h
    obtain ⟨e1, e2⟩ := adaptiveStep_n s c
    obtain ⟨a, b, c'⟩ := ih (adaptiveStep s c).1 (by omega) h1
    refine ⟨a, by rw [adaptiveExec, b, e1], ?_⟩
    rw [adaptiveExec, c', e2, List.length_cons]; omega

theorem adaptiveRun_append (s : Adaptive) (a b) :
    adaptiveRun s (a ++ b) = adaptiveRun s a ++ adaptiveRun (adaptiveExec s a) b := by
  induction a generalizing s with
  | nil => simp [adaptiveRun, adaptiveExec]
  | cons c a ih => simp [adaptiveRun, adaptiveExec, ih]

theorem adaptiveRun_length (cs : List (Option (List Rat × List Rat))) : ∀ s, (adaptiveRun s cs).length = cs.length := by
  induction cs with
  | nil => intro s; rfl
  | cons c cs ih => intro s; simp [adaptiveRun, ih]

/-- the result of a call in terms of the state it leaves: a successful call returns the stored point set -/
theorem adaptiveStep_ok_last (s : Adaptive) (c) (out : List Row) (h : (adaptiveStep s c).2 = .ok out) :
    (adaptiveStep s c).1.last = some out := by
  unfold adaptiveStep at h ⊢
  cases hl : s.last with
  | none => simp only [hl] at h ⊢; simp at h ⊢; exact h
  | some last =>
    cases c with
    | none => simp only [hl] at h ⊢; simp at h ⊢; exact h
    | some p =>
      obtain ⟨l, thr⟩ := p
      simp only [hl] at h ⊢
      split at h
      · simp at h
      · rename_i hc
        simp only [if_neg hc] 
        simp at h ⊢; exact h

/-- **Adaptive samplers, every call history** (any number of calls; each with or without a loss vector, of the right or
    a wrong length; threshold and random variant alike): every point set a call returns has exactly `n` rows — the
    number of points stays constant — and row `i` is always row `i` of the fresh uniform sample of this or an earlier
    call (rows are replaced in place, never moved, duplicated or invented). -/
theorem adaptive_count (n : Nat) (hn : 0 < n) (cs : List (Option (List Rat × List Rat))) (j : Nat) (out : List Row)
    (h : (adaptiveRun (adaptive0 n) cs)[j]? = some (.ok out)) :
    out.length = n ∧ ∀ (i : Nat) (row : Row), out[i]? = some row → row.2 = i ∧ row.1 ≤ j := by
  have hj : j < cs.length := by
    have := (List.getElem?_eq_some_iff.mp h).1
    rwa [adaptiveRun_length] at this
  have hsplit : cs = cs.take j ++ cs[j] :: cs.drop (j + 1) := by
    rw [List.getElem_cons_drop, List.take_append_drop]
  have hinv0 : AInv (adaptive0 n) := by intro last h; simp [adaptive0] at h
  obtain ⟨a, b, c⟩ := AInv_exec (cs.take j) (adaptive0 n) hn hinv0
  have htake : (cs.take j).length = j := by rw [List.length_take]; omega
  rw [hsplit, adaptiveRun_append, List.getElem?_append_right (by rw [adaptiveRun_length, htake])] at h
  rw [adaptiveRun_length, htake, Nat.sub_self] at h
  simp only [adaptiveRun, List.getElem?_cons_zero, Option.some.injEq] at h
  set s := adaptiveExec (adaptive0 n) (cs.take j) with hsdef
  have hstep := AInv_step s cs[j] (by rw [b]; exact hn) a
  have hlast := adaptiveStep_ok_last s cs[j] out h
  obtain ⟨e1, e2⟩ := adaptiveStep_n s cs[j]
  obtain ⟨l1, l2⟩ := hstep out hlast
  refine ⟨by rw [l1, e1, b]; rfl, ?_⟩
  intro i row hr
  obtain ⟨r1, r2⟩ := l2 i row hr
  refine ⟨r1, ?_⟩
  rw [e2, c, htake] at r2
  simp only [adaptive0] at r2
  omega

/-- **Adaptive samplers, a call with a loss vector after any history** `cs` (calls with/without loss, right or wrong
    length; `last` = the point set the sampler holds, i.e. what its last successful call returned): the call succeeds,
    returns `n` rows, keeps exactly the rows whose previous loss is at or above `min + (max − min)·thrᵢ` and replaces every
    other row `i` by row `i` of the fresh uniform sample drawn in this call (draw number `cs.length`). -/
theorem adaptive_history (n : Nat) (hn : 0 < n) (cs : List (Option (List Rat × List Rat))) (l thr : List Rat) (last : List Row)
    (h : (adaptiveExec (adaptive0 n) cs).last = some last) (hl : l.length = n) (hthr : thr.length = n) :
    ∃ out, (adaptiveRun (adaptive0 n) (cs ++ [some (l, thr)]))[cs.length]? = some (.ok out) ∧ out.length = n ∧
      ∀ (i : Nat) (x u : Rat) (old : Row), l[i]? = some x → thr[i]? = some u → last[i]? = some old →
        out[i]? = some (if lmin l + (lmax l - lmin l) * u ≤ x then old else (cs.length, i)) := by
  have hinv0 : AInv (adaptive0 n) := by intro last h; simp [adaptive0] at h
  obtain ⟨a, b, c⟩ := AInv_exec cs (adaptive0 n) hn hinv0
  simp only [adaptive0] at b c
  have hb : (adaptiveExec (adaptive0 n) cs).n = n := b
  have hc : (adaptiveExec (adaptive0 n) cs).t = cs.length := by
    have := c; rw [Nat.zero_add] at this; exact this
  obtain ⟨out, h1, _, h3, h4, _⟩ := adaptive_retain _ last l thr h a (by rw [hb]; exact hl) (by rw [hb]; exact hthr) (by rw [hb]; exact hn)
  refine ⟨out, ?_, by rw [h3, hb], ?_⟩
  · rw [adaptiveRun_append, List.getElem?_append_right (by rw [adaptiveRun_length]), adaptiveRun_length, Nat.sub_self]
    simp [adaptiveRun, h1]
  · intro i x u old hx hu ho
    rw [h4 i x u old hx hu ho, hc]

example : (adaptiveRun (adaptive0 3) ([none, thrCall (1/2) (some [0, 1, 1/2])] ++ [some ([3, 1, 2], [1/2, 1/2, 1/2])]))[2]? =
    some (.ok [(1, 0), (2, 1), (0, 2)]) := by decide +kernel

/-- **Every returned row — kept or replaced — is a whole row of a fresh sample**, so whatever holds for every row of every
    fresh uniform sample (`good (t, i)`: "row `i` of the sample of call `t` lies in the domain *at the parameter row that call
    handed in*" — that is property C01 for the inner uniform sampler) holds for every row of every point set an adaptive sampler
    ever returns: rows are replaced as a whole (coordinates and parameter columns together), never mixed. -/
theorem adaptive_rows_inherit (good : Row → Prop) (n : Nat) (hn : 0 < n) (hfresh : ∀ t i, i < n → good (t, i))
    (cs : List (Option (List Rat × List Rat))) (j : Nat) (out : List Row)
    (h : (adaptiveRun (adaptive0 n) cs)[j]? = some (.ok out)) : ∀ row ∈ out, good row := by
  obtain ⟨hlen, hrows⟩ := adaptive_count n hn cs j out h
  intro row hr
  obtain ⟨i, hi, rfl⟩ := List.getElem_of_mem hr
  have h2 := (hrows i _ (List.getElem?_eq_getElem hi)).1
  have : out[i] = ((out[i]).1, i) := Prod.ext rfl h2
  rw [this]
  exact hfresh _ _ (by omega)

example : adaptiveRun (adaptive0 3) [none, thrCall (1/2) (some [0, 1, 1/2]), thrCall (1/2) (some [1, 1, 1]), some ([0, 1], [0, 0])] =
    [.ok [(0, 0), (0, 1), (0, 2)], .ok [(1, 0), (0, 1), (0, 2)], .ok [(1, 0), (0, 1), (0, 2)], .error .shape] := by decide +kernel

/-- threshold variant, row-wise reading of `adaptive_retain` with `thr = resample_ratio` everywhere -/
theorem adaptive_threshold_retain (ratio : Rat) (s : Adaptive) (last : List Row) (l : List Rat)
    (hs : s.last = some last) (hinv : AInv s) (hl : l.length = s.n) (hn : 0 < s.n) :
    ∃ out, (adaptiveStep s (thrCall ratio (some l))).2 = .ok out ∧ out.length = s.n ∧
      ∀ (i : Nat) (x : Rat) (old : Row), l[i]? = some x → last[i]? = some old →
        out[i]? = some (if lmin l + (lmax l - lmin l) * ratio ≤ x then old else (s.t, i)) := by
  obtain ⟨out, h1, _, h3, h4, _⟩ := adaptive_retain s last l (l.map fun _ => ratio) hs hinv hl (by simpa using hl) hn
  refine ⟨out, by simpa [thrCall] using h1, h3, ?_⟩
  intro i x old hx ho
  exact h4 i x ratio old hx (by simp [hx]) ho

example : (adaptiveStep ⟨3, 1, some [(0, 0), (0, 1), (0, 2)]⟩ (thrCall (1/2) (some [0, 1, 1/2]))).2 = .ok [(1, 0), (0, 1), (0, 2)] := by
  decide +kernel

/-- consequences of the threshold rule over any ordered field: the row of maximal loss is never replaced when
    `ratio ≤ 1`; nothing is replaced when `ratio ≤ 0` or when all losses are equal; the row of minimal loss is replaced
    when `0 < ratio` and the losses are not all equal -/
theorem threshold_extremes {K} [Field K] [LinearOrder K] [IsStrictOrderedRing K] (lo hi ratio x : K)
    (hlo : lo ≤ x) (hhi : x ≤ hi) :
    (ratio ≤ 1 → replaced lo hi ratio hi = false) ∧
    (ratio ≤ 0 → replaced lo hi ratio x = false) ∧
    (lo = hi → replaced lo hi ratio x = false) ∧
    (0 < ratio → lo < hi → replaced lo hi ratio lo = true) := by
  have hd : 0 ≤ hi - lo := by linarith
  refine ⟨?_, ?_, ?_, ?_⟩
  · intro hr
    simp only [replaced, decide_eq_false_iff_not, not_lt]
    nlinarith
  · intro hr
    simp only [replaced, decide_eq_false_iff_not, not_lt]
    nlinarith
  · intro he
    simp only [replaced, decide_eq_false_iff_not, not_lt]
    rw [he]; simp; linarith
  · intro hr hlt
    simp only [replaced, decide_eq_true_eq]
    have : 0 < (hi - lo) * ratio := mul_pos (by linarith) hr
    linarith

example : replaced (0 : Rat) 1 (1/2) (1/2) = false ∧ replaced (0 : Rat) 1 (1/2) (1/4) = true := by decide +kernel


end TPV.SamplerState
