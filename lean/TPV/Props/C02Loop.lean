/-
  C02 — the filter loop: rows do not share state, and a row whose rounds each accept something finishes within n rounds.
-/
import TPV.Props.C02Adaptive
set_option linter.unusedVariables false

namespace TPV.Sampler

/-- the per-row loops are independent: the result for a batch is the concatenation of the results for its parts — no
    counter (rounds, found points) survives from one parameter row to the next, however many rows there are -/
theorem perRow_append (f : Row → Except Err (List Row)) (l1 l2 : List Row) :
    perRow f (l1 ++ l2) = (do let r1 ← perRow f l1; let r2 ← perRow f l2; pure (r1 ++ r2)) := by
  induction l1 with
  | nil =>
    simp only [List.nil_append, perRow]
    cases perRow f l2 <;> rfl
  | cons ρ rs ih =>
    simp only [List.cons_append, perRow, ih]
    cases f ρ with
    | error e => rfl
    | ok r =>
      cases perRow f rs with
      | error e => rfl
      | ok r1 =>
        cases perRow f l2 with
        | error e => rfl
        | ok r2 => simp [bind, Except.bind, pure, Except.pure]

/-- progress: if every round accepts at least one proposal, `n` rounds are enough for a row (so a give-up of a row can
    only come from ITS OWN rounds without an accepted point) -/
theorem accumLoop_progress {α} (n : Nat) (prop : Nat → List α) (acc : Nat → Nat → Bool)
    (hacc : ∀ r, 0 < (filterIdx (acc r) (prop r)).length) :
    ∀ (fuel r : Nat) (h : List α), n ≤ h.length + fuel → 0 < fuel → (accumLoop n prop acc fuel r h).isSome = true := by
  intro fuel
  induction fuel with
  | zero => intro r h _ hf; omega
  | succ f ih =>
    intro r h hn _
    simp only [accumLoop]
    split
    · rfl
    · rename_i hlt
      have hr := hacc r
      have hlen : (h ++ filterIdx (acc r) (prop r)).length = h.length + (filterIdx (acc r) (prop r)).length := by simp
      apply ih
      · omega
      · omega

/-- so with a filter that accepts something in every round, a filtered uniform sampler returns (exactly n rows per row),
    for every number of parameter rows -/
theorem filterLoopRow_ok (o : Oracle) (d : Dom) (n : Nat) (ρ : Row) (hn : 0 < n) (hfuel : n ≤ o.fuel)
    (hacc : ∀ r, 0 < (filterIdx (o.acc r) (forRow o d n ρ)).length) :
    ∃ rows, filterLoopRow o d n ρ = .ok rows ∧ rows.length = n := by
  have h := accumLoop_progress n (fun _ => forRow o d n ρ) o.acc hacc o.fuel 0 [] (by simpa using hfuel) (by omega)
  unfold filterLoopRow
  cases hc : accumLoop n (fun _ => forRow o d n ρ) o.acc o.fuel 0 [] with
  | none => simp [hc] at h
  | some rows => exact ⟨rows, rfl, accumLoop_length _ _ _ _ _ _ _ hc⟩

end TPV.Sampler
