/-
  C15 — state machines of the static and the adaptive samplers (import-free, executable).
  Mirrors src/torchphysics/problem/samplers/sampler_base.py (`PointSampler.make_static`,
  `StaticSampler.__init__/sample_points/make_static`) and random_samplers.py
  (`AdaptiveThresholdRejectionSampler.sample_points`, `AdaptiveRandomRejectionSampler.sample_points`).

  A point set is represented by the number of the draw of the underlying sampler that produced it
  (draw 0, 1, 2, …: the underlying sampler is an external call, every invocation yields a new set);
  a row of an adaptive sampler by its origin (draw number, row index).
-/
namespace TPV.SamplerState

/-! ## static samplers -/

/-- `counter < resample_interval`; `none` is `math.inf` -/
def ltInterval (c : Nat) : Option Nat → Bool
  | none => true
  | some k => decide (c < k)

/-- the fields of a `StaticSampler` (`cached = none` is `created_points is None`) -/
structure Static where
  counter : Nat
  cached : Option Nat
  interval : Option Nat
deriving Repr, DecidableEq

/-- the sampler object the history talks about together with the underlying (non-static) sampler:
    `fresh` = number of sets the underlying sampler has drawn so far (= id of its next draw),
    `nonempty` = whether its sets have at least one row (`if self.created_points` is `len > 0`),
    `static = none`: the object is the plain sampler itself. -/
structure World where
  fresh : Nat
  nonempty : Bool
  static : Option Static
deriving Repr, DecidableEq

/-- what a `sample_points` call returns: the id of the returned set, the device it is on, and whether
    the underlying sampler was invoked for it -/
structure Out where
  id : Nat
  dev : Nat
  drawn : Bool
deriving Repr, DecidableEq

inductive Op where
  | sample (dev : Nat)              -- `sample_points(device=dev)`
  | makeStatic (k : Option Nat)     -- `s = s.make_static(k)`
  | query (kind : Nat)              -- a read-only question: `len(s)`, `bool(s)`, `repr(s)`, `s.is_static`,
                                    -- `s.is_adaptive`, `iter(s)`, `len()` of a product/concat/append sampler that
                                    -- contains `s`, constructing a condition that asks for `len(s)` (kind = which one)
deriving Repr, DecidableEq

/-- `PointSampler.make_static` wraps the plain sampler in a new `StaticSampler` (counter 0, nothing cached);
    `StaticSampler.make_static` only overwrites the interval (counter and cache stay). -/
def makeStatic (k : Option Nat) (w : World) : World :=
  match w.static with
  | none => { w with static := some ⟨0, none, k⟩ }
  | some s => { w with static := some { s with interval := k } }

/-- `sample_points(device=dev)`.
    plain sampler: a new draw.
    static sampler: `counter += 1`; if a (non-empty) set is cached and `counter < interval`: move the
    cache to `dev` and return it; otherwise `counter = 0`, draw, cache, return. -/
def sample (dev : Nat) (w : World) : World × Out :=
  match w.static with
  | none => ({ w with fresh := w.fresh + 1 }, ⟨w.fresh, dev, true⟩)
  | some s =>
    let c := s.counter + 1
    match s.cached with
    | some p =>
      if w.nonempty && ltInterval c s.interval then
        ({ w with static := some { s with counter := c } }, ⟨p, dev, false⟩)
      else
        ({ w with fresh := w.fresh + 1, static := some ⟨0, some w.fresh, s.interval⟩ }, ⟨w.fresh, dev, true⟩)
    | none =>
      ({ w with fresh := w.fresh + 1, static := some ⟨0, some w.fresh, s.interval⟩ }, ⟨w.fresh, dev, true⟩)

def step (w : World) : Op → World × Option Out
  | .sample d => let r := sample d w; (r.1, some r.2)
  | .makeStatic k => (makeStatic k w, none)
  | .query _ => (w, none)       -- `StaticSampler.__len__` = `self.length or len(self.sampler)`: no field is written

/-- the world after a history -/
def exec (w : World) : List Op → World
  | [] => w
  | op :: ops => exec (step w op).1 ops

/-- what the `sample_points` calls of a history return, in order -/
def run (w : World) : List Op → List Out
  | [] => []
  | op :: ops =>
    match (step w op).2 with
    | some o => o :: run (step w op).1 ops
    | none => run (step w op).1 ops

def ids (os : List Out) : List Nat := os.map (·.id)

/-- a plain sampler whose underlying sampler has drawn nothing yet -/
def plain0 : World := ⟨0, true, none⟩
/-- `sampler.make_static(k)` of such a sampler -/
def static0 (k : Option Nat) : World := ⟨0, true, some ⟨0, none, k⟩⟩

/-- the interval in effect after a history that started with interval `k0` -/
def intervalAfter (k0 : Option Nat) : List Op → Option Nat
  | [] => k0
  | .sample _ :: ops => intervalAfter k0 ops
  | .makeStatic k :: ops => intervalAfter k ops
  | .query _ :: ops => intervalAfter k0 ops

def Op.isQuery : Op → Bool
  | .query _ => true
  | _ => false

/-- the history with every device argument replaced by one fixed device -/
def Op.forgetDev : Op → Op
  | .sample _ => .sample 0
  | o => o

/-- what a call returns apart from the device: which set, and whether it was drawn for this call -/
def Out.core (o : Out) : Nat × Bool := (o.id, o.drawn)

/-- the history with all read-only questions removed -/
def eraseQueries (ops : List Op) : List Op := ops.filter (fun o => !o.isQuery)

/-- number of equal elements at the end of a list = how often the last returned set has been returned
    consecutively -/
def trailingRun (l : List Nat) : Nat :=
  match l.reverse with
  | [] => 0
  | a :: r => (r.takeWhile (· == a)).length + 1

/-- the documented behaviour of a static sampler, phrased on what is observable: given the ids returned
    so far (since the sampler became static) and the interval now in effect, the set returned next:
    nothing returned yet → the next draw `f0`; the last set if it has been used fewer than `interval` times;
    else the draw after it. -/
def specNext (f0 : Nat) (outs : List Nat) (k : Option Nat) : Nat :=
  match outs.getLast? with
  | none => f0
  | some last => if ltInterval (trailingRun outs) k then last else last + 1

/-! ## adaptive samplers -/

/-- a row is replaced iff its loss is below `lo + (hi - lo) * thr` (the coded strict comparison).
    Polymorphic in the scalar so that the same definition is used over `Rat` (driver) and `ℝ` (law). -/
def replaced {K} [LT K] [Add K] [Sub K] [Mul K] [DecidableLT K] (lo hi thr x : K) : Bool :=
  decide (x < lo + (hi - lo) * thr)

def rmin (a b : Rat) : Rat := if a ≤ b then a else b
def rmax (a b : Rat) : Rat := if a ≤ b then b else a

/-- `torch.min(loss)` / `torch.max(loss)`; only used on non-empty vectors (`adaptiveStep` guards) -/
def lmin : List Rat → Rat
  | [] => 0
  | x :: xs => xs.foldl rmin x

def lmax : List Rat → Rat
  | [] => 0
  | x :: xs => xs.foldl rmax x

/-- origin of a row: (draw number of the inner uniform sampler, row index) -/
abbrev Row := Nat × Nat

def freshRows (t n : Nat) : List Row := (List.range n).map fun i => (t, i)

/-- `last = none` is `last_points is None`; `t` = draws of the inner `RandomUniformSampler` so far;
    `n` = rows per draw (constant: `n_points`) -/
structure Adaptive where
  n : Nat
  t : Nat
  last : Option (List Row)
deriving Repr, DecidableEq

/-- row-wise in-place replacement `last._t[mask] = new._t[mask]` -/
def mergeRows : List Bool → List Row → List Row → List Row
  | m :: ms, o :: os, f :: fs => (if m then f else o) :: mergeRows ms os fs
  | _, _, _ => []

inductive AErr where
  | shape     -- loss vector and point set differ in length: the Boolean mask index raises IndexError
deriving Repr, DecidableEq

/-- one call `sample_points(unreduced_loss=loss)` where the per-row thresholds are `thr`
    (threshold variant: all equal to `resample_ratio`; random variant: `rand_like(loss)`).
    The inner sampler is drawn from first, in every case. -/
def adaptiveStep (s : Adaptive) (loss : Option (List Rat × List Rat)) : Adaptive × Except AErr (List Row) :=
  let new := freshRows s.t s.n
  match s.last, loss with
  | none, _ => ({ s with t := s.t + 1, last := some new }, .ok new)
  | some _, none => ({ s with t := s.t + 1, last := some new }, .ok new)
  | some last, some (l, thr) =>
    if l.length ≠ last.length ∨ thr.length ≠ l.length ∨ l = [] then
      ({ s with t := s.t + 1 }, .error .shape)
    else
      let lo := lmin l
      let hi := lmax l
      let mask := List.zipWith (fun x u => replaced lo hi u x) l thr
      let out := mergeRows mask last new
      ({ s with t := s.t + 1, last := some out }, .ok out)

/-- threshold variant: every row uses `resample_ratio` -/
def thrCall (ratio : Rat) (loss : Option (List Rat)) : Option (List Rat × List Rat) :=
  loss.map fun l => (l, l.map fun _ => ratio)

def adaptiveRun (s : Adaptive) : List (Option (List Rat × List Rat)) → List (Except AErr (List Row))
  | [] => []
  | c :: cs => (adaptiveStep s c).2 :: adaptiveRun (adaptiveStep s c).1 cs

def adaptiveExec (s : Adaptive) : List (Option (List Rat × List Rat)) → Adaptive
  | [] => s
  | c :: cs => adaptiveExec (adaptiveStep s c).1 cs

def adaptive0 (n : Nat) : Adaptive := ⟨n, 0, none⟩

end TPV.SamplerState
