/-
  IntegroPINNCondition and AdaptiveWeightsCondition (problem/conditions/condition.py).  Import-free
  apart from the condition model it extends.

  IntegroPINNCondition.forward:  `x` = sampled points (n rows), `x_int` = points of the integral
  sampler (m rows, variables ⊆ variables of `x`);  `x_combined = x.repeat(1, m)` with
  `x_combined[..., keys(x_int)] = x_int.repeat(n, 1)`: every point paired with every integral point,
  the integral variables OVERWRITTEN by name;  `y = module(x)`, `y_int = module(x_combined)`;
  the residual gets  {**y, **y_int(_integral), **x, **x_int(_integral), **parameter, **data}.
  Row view: for point i the residual receives the usual row arguments plus, under `<name>_integral`,
  the concatenation over the integral rows j of the block of `name` (tensor (n, m, d) reshaped to
  (n, 1, m·d); index j·d + c) — so a residual like `u − mean_j u_integral_j` is a row function.
-/
import TPV.Model.Condition

namespace TPV.Cond
open TPV.CondExpr

section generic
variable {K : Type}

/-- `x_combined[..., list(x_int.space.keys())] = x_int`: the integral variables of the point are replaced BY
    NAME; an integral variable the point does not have, or has with another dimension, is an error -/
def overwrite (xc ic : Named K) : Except Err (Named K) :=
  if ic.all (fun p => match xc.lookup p.1 with
      | some v => v.length == p.2.length
      | none => false) then
    .ok (xc.map fun p => match ic.lookup p.1 with
      | some v => (p.1, v)
      | none => p)
  else .error .space

/-- concatenate, key by key, the blocks of a list of dicts that all have the keys `keys` in this order
    (reshape of an (m, d) block table to one vector of length m·d) -/
def catBlocks (keys : List String) : List (Named K) → Named K
  | [] => keys.map fun k => (k, [])
  | d :: ds => List.zipWith (fun p q => (p.1, p.2 ++ q.2)) d (catBlocks keys ds)

end generic

section arith
variable {K : Type} [Add K] [Sub K] [Mul K] [Neg K] [Div K] [OfNat K 0] [NatCast K] [LT K] [DecidableLT K]

structure IntCond (K : Type) where
  net : Net K
  resid : UFun K
  dataFns : List (String × DataFn K)
  params : Named K
  err : ErrKind
  red : RedKind

/-- model output at the point whose integral variables are overwritten by the integral row `ir` -/
def intOut (m : Net K) (ispace : SpaceL) (xc : Named K) (ir : List K) : Except Err (Named K) := do
  let comb ← overwrite xc (splitRow ispace ir)
  let (yj, _) ← m.apply comb
  pure yj

/-- the dict handed to the residual for point `i` (of `n`) and the integral rows `irows` -/
def intRowArgs (c : IntCond K) (space ispace : SpaceL) (n i : Nat) (row : List K) (irows : List (List K)) :
    Except Err (Named K) := do
  let xc := splitRow space row
  let data ← evalDataFns n i xc c.dataFns
  let (y, ders) ← c.net.apply xc
  let yint ← irows.mapM (intOut c.net ispace xc)
  let yI := suffix "_integral" (catBlocks (names c.net.outSpace) yint)
  let xI := suffix "_integral" (catBlocks (names ispace) (irows.map (splitRow ispace)))
  pure (merge (merge (merge (merge (merge y yI) xc) xI) c.params) data ++ ders)

def intResiduals (c : IntCond K) (space ispace : SpaceL) (rows irows : List (List K)) : Except Err (List (List K)) :=
  rows.zipIdx.mapM fun ri => do c.resid.call (← intRowArgs c space ispace rows.length ri.2 ri.1 irows)

def intLoss (c : IntCond K) (space ispace : SpaceL) (rows irows : List (List K)) : Except Err K := do
  let rs ← intResiduals c space ispace rows irows
  applyRed c.red (applyErr c.err rs)

/-! ## AdaptiveWeightsCondition: `reduce_fn = mean(adaptive_layer(unreduced))`, one learnable weight per point -/

def awLoss (c : SMCond K) (weights : List K) (space : SpaceL) (rows : List (List K)) : Except Err K := do
  let rs ← residuals c space rows
  let un := applyErr c.err rs
  if un.length = weights.length then applyRed .mean (List.zipWith (· * ·) weights un)
  else .error .shape

end arith

end TPV.Cond
