/-
  Conditions of torchphysics (problem/conditions/*.py): how a condition assembles the named
  arguments of its residual function and reduces the residuals to the loss.  Import-free.

  "Rows, not tensors": the residual / data / constrain functions and the network are ROW functions
  (a vectorised torch function that treats rows independently); tensors are lists of rows.
  A Python dict is an association list with first-match lookup; `{**a, **b}` is `merge a b`.

  Mirrors (file: function):
    points.py: track_coord_gradients / coordinates / from_coordinates / join   → splitRow, joinRow
    model.py:  Model._fix_points_order                                           → fixOrder
    user_fun.py: UserFunction.__call__ / evaluate_function                       → UFun.call, evalData
    condition.py: SquaredError, SingleModuleCondition.forward (PINN/Mean/DeepRitz/HPM-at-sampler),
                  DataCondition, PeriodicCondition.forward, Condition._setup_data_functions
    deeponet_condition.py: DeepONetSingleModuleCondition.forward
  C14 (isolation) lives in the second half: the world of user dicts / static caches / conditions.
-/
import TPV.Model.CondExpr

namespace TPV.Cond
open TPV.CondExpr

inductive Err where
  | missingArg (name : String)   -- AssertionError "The argument … is necessary"
  | space                        -- ValueError of _fix_points_order / KeyError
  | shape                        -- tensor shape mismatch
  | empty                        -- reduction of an empty tensor
  | user                         -- the user function itself failed (component out of range)
  | join                         -- Points.join on non-disjoint spaces (AssertionError)
deriving Repr, DecidableEq

abbrev SpaceL := List (String × Nat)

def dimOf (s : SpaceL) : Nat := (s.map (·.2)).sum
def names (s : SpaceL) : List String := s.map (·.1)

section generic
variable {K : Type}

/-- `Points.coordinates`: cut a flat row into named blocks, in the order of the space -/
def splitRow : SpaceL → List K → Named K
  | [], _ => []
  | (v, d) :: s, r => (v, r.take d) :: splitRow s (r.drop d)

/-- `Points.from_coordinates`: concatenate the blocks in dict order -/
def joinRow (d : Named K) : List K := (d.map (·.2)).flatten

def spaceOf (d : Named K) : SpaceL := d.map fun p => (p.1, p.2.length)

/-- dict unpacking `{**a, **b}` (b wins): first-match lookup over `b ++ a` -/
def merge (a b : Named K) : Named K := b ++ a

def suffix (s : String) (d : Named K) : Named K := d.map fun p => (p.1 ++ s, p.2)

def sameKeys (a b : List String) : Bool := a.all (b.contains ·) && b.all (a.contains ·)

def selectVars (x : Named K) : List String → Option (List (List K))
  | [] => some []
  | v :: vs =>
    match x.lookup v, selectVars x vs with
    | some a, some r => some (a :: r)
    | _, _ => none

/-- `Model._fix_points_order`: same space → unchanged; same key set → re-ordered by name; else ValueError -/
def fixOrder (inSpace : SpaceL) (x : Named K) : Except Err (List K) :=
  if spaceOf x = inSpace then .ok (joinRow x)
  else if sameKeys (x.map (·.1)) (names inSpace) then
    match selectVars x (names inSpace) with
    | some vs => .ok vs.flatten
    | none => .error .space
  else .error .space

/-- a torchphysics `Model`: row function from the flat input (in `inSpace` order) to the flat output;
    `ders` = the derivative information autograd makes available to the residual (reserved names
    `d.<out>.<in>`, `dd.<out>.<in>.<in'>`; opaque for the routing theorems, symbolic for `peNet`) -/
structure Net (K : Type) where
  inSpace : SpaceL
  outSpace : SpaceL
  f : List K → List K
  ders : List K → Named K

def Net.apply (m : Net K) (x : Named K) : Except Err (Named K × Named K) := do
  let xin ← fixOrder m.inSpace x
  let out := m.f xin
  if out.length = dimOf m.outSpace then pure (splitRow m.outSpace out, m.ders xin)
  else .error .shape

/-- `UserFunction`: parameter names, defaults, the wrapped function (positional in `params` order) -/
structure UFun (K : Type) where
  params : List String
  defaults : Named K
  f : List (List K) → Except Err (List K)

def bindArg (defaults args : Named K) (p : String) : Except Err (List K) :=
  match args.lookup p with
  | some v => .ok v
  | none =>
    match defaults.lookup p with
    | some v => .ok v
    | none => .error (.missingArg p)

/-- `UserFunction.__call__`: select by NAME, fall back to defaults, reject a missing necessary argument -/
def UFun.call (u : UFun K) (args : Named K) : Except Err (List K) := do
  let bound ← u.params.mapM (bindArg u.defaults args)
  u.f bound

/-- a data function inside a condition: wrapped callable, or the tensor pre-evaluated for a static sampler -/
inductive DataFn (K : Type) where
  | fn (u : UFun K)
  | pre (rows : List (List K))

/-- value of a data function for row `i` of `n`: a callable is evaluated on this row's coordinates,
    a pre-evaluated tensor is returned as it is (row `i`; the arguments are ignored) -/
def evalData (n i : Nat) (xc : Named K) : DataFn K → Except Err (List K)
  | .fn u => u.call xc
  | .pre rows =>
    if rows.length = n then
      match rows[i]? with
      | some r => .ok r
      | none => .error .shape
    else .error .shape

def evalDataFns (n i : Nat) (xc : Named K) (fs : List (String × DataFn K)) : Except Err (Named K) :=
  fs.mapM fun p => do pure (p.1, ← evalData n i xc p.2)

/-- does `_setup_data_functions` pre-evaluate?  (after the repair: only for a StaticSampler that never
    resamples; `interval = none` is `resample_interval = math.inf`) -/
def shouldPreEval (static : Bool) (interval : Option Nat) : Bool := static && interval.isNone

/-- the code before the repair pre-evaluated for every StaticSampler -/
def shouldPreEvalOld (static : Bool) (_interval : Option Nat) : Bool := static

/-- `Condition._setup_data_functions`: every entry is wrapped; for a StaticSampler every function is
    evaluated ONCE, at construction, on the points `sampler.sample_points()` returns at that moment
    (one call per function: `pre` = one point set per data function, in dict order) and replaced by
    the resulting tensor -/
def setupDataFns (space : SpaceL) (pre : Option (List (List (List K)))) (fs : List (String × UFun K)) :
    Except Err (List (String × DataFn K)) :=
  match pre with
  | none => .ok (fs.map fun p => (p.1, DataFn.fn p.2))
  | some sets =>
    if sets.length = fs.length then
      (fs.zip sets).mapM fun ps => do
        let t ← ps.2.mapM fun row => ps.1.2.call (splitRow space row)
        pure (ps.1.1, DataFn.pre t)
    else .error .shape

inductive ErrKind where | sq | ident | absSum deriving Repr, DecidableEq
inductive RedKind where | mean | sum | max deriving Repr, DecidableEq

end generic

section arith
variable {K : Type} [Add K] [Sub K] [Mul K] [Neg K] [Div K] [OfNat K 0] [NatCast K] [LT K] [DecidableLT K]

def sumK (l : List K) : K := l.foldr (· + ·) 0
def absK (x : K) : K := if x < 0 then -x else x
def maxK (a b : K) : K := if a < b then b else a
def powK (x : K) : Nat → K
  | 0 => (1 : Nat)
  | n+1 => powK x n * x

/-- `SquaredError.forward` on one row: sum over the components of the squares -/
def sqErr (r : List K) : K := sumK (r.map fun v => v * v)

/-- error function applied to the residual table (rows × components) → flat list of unreduced losses -/
def applyErr : ErrKind → List (List K) → List K
  | .sq, t => t.map sqErr
  | .ident, t => t.flatten
  | .absSum, t => t.map fun r => sumK (r.map absK)

/-- `torch.mean` / `torch.sum` / `torch.max` over all elements -/
def applyRed : RedKind → List K → Except Err K
  | .mean, l => if l.isEmpty then .error .empty else .ok (sumK l / (l.length : K))
  | .sum, l => .ok (sumK l)
  | .max, l =>
    match l with
    | [] => .error .empty
    | a :: r => .ok (r.foldl maxK a)

/-! ## SingleModuleCondition.forward (PINNCondition, MeanCondition, DeepRitzCondition, custom error/reduce,
    HPM_EquationLoss_at_Sampler = no module) -/

structure SMCond (K : Type) where
  net : Option (Net K)
  resid : UFun K
  dataFns : List (String × DataFn K)
  params : Named K                 -- `parameter.coordinates` (one row, broadcast)
  err : ErrKind
  red : RedKind

/-- the dict handed to the residual function for row `i` (of `n`) of the sampled points -/
def rowArgs (c : SMCond K) (space : SpaceL) (n i : Nat) (row : List K) : Except Err (Named K) := do
  let xc := splitRow space row                       -- x_coordinates
  let x := splitRow (spaceOf xc) (joinRow xc)        -- Points.from_coordinates(x_coordinates)
  let data ← evalDataFns n i xc c.dataFns
  match c.net with
  | some m =>
    let (y, ders) ← m.apply x
    pure (merge (merge (merge y xc) c.params) data ++ ders)
  | none => pure (merge (merge xc c.params) data)

def residuals (c : SMCond K) (space : SpaceL) (rows : List (List K)) : Except Err (List (List K)) :=
  rows.zipIdx.mapM fun ri => do c.resid.call (← rowArgs c space rows.length ri.2 ri.1)

def smLoss (c : SMCond K) (space : SpaceL) (rows : List (List K)) : Except Err K := do
  let rs ← residuals c space rows
  applyRed c.red (applyErr c.err rs)

/-! ## DataCondition -/

structure DataCond (K : Type) where
  net : Net K
  constrain : Option (UFun K)
  norm : Option Nat               -- `none` = 'inf'

/-- `_compute_dist` on one row: |model_out − target| per component -/
def dataDist (c : DataCond K) (xspace : SpaceL) (xrow yrow : List K) : Except Err (List K) := do
  let x := splitRow xspace xrow
  let (y, _) ← c.net.apply x
  let out ← match c.constrain with
    | some g => g.call (merge y x)
    | none => pure (joinRow y)
  if out.length = yrow.length then pure (List.zipWith (fun a b => absK (a - b)) out yrow)
  else .error .shape

def dataDists (c : DataCond K) (xspace : SpaceL) (batch : List (List K × List K)) : Except Err (List K) := do
  let t ← batch.mapM fun xy => dataDist c xspace xy.1 xy.2
  pure t.flatten

/-- loss of one batch BEFORE the root is taken: max |·| or mean |·|^p over all elements -/
def dataBatchLoss (c : DataCond K) (xspace : SpaceL) (batch : List (List K × List K)) : Except Err K := do
  let a ← dataDists c xspace batch
  match c.norm with
  | none => applyRed .max a
  | some p => applyRed .mean (a.map (powK · p))

/-- the k-th call of `forward` (use_full_dataset = False) uses batch `k mod #batches`: the iterator is
    restarted when it is exhausted -/
def dataForward (c : DataCond K) (xspace : SpaceL) (batches : List (List (List K × List K))) (k : Nat) :
    Except Err K :=
  match batches[k % batches.length]? with
  | some b => dataBatchLoss c xspace b
  | none => .error .empty

/-- use_full_dataset = True: the fold over all batches as coded (start 0; max resp. + mean / #batches) -/
def dataFull (c : DataCond K) (xspace : SpaceL) (batches : List (List (List K × List K))) : Except Err K :=
  batches.foldlM (fun acc b => do
    let l ← dataBatchLoss c xspace b
    match c.norm with
    | none => pure (maxK acc l)
    | some _ => pure (acc + l / (batches.length : K))) 0

/-! ## PeriodicCondition.forward -/

structure PerCond (K : Type) where
  net : Net K
  resid : UFun K
  perSpace : SpaceL               -- space of the periodic interval
  leftData : List (String × DataFn K)
  rightData : List (String × DataFn K)
  params : Named K
  err : ErrKind
  red : RedKind

/-- `Points.join`: empty operands are skipped, overlapping names are rejected -/
def joinNamed (a b : Named K) : Except Err (Named K) :=
  if a.isEmpty then .ok b else if b.isEmpty then .ok a
  else if (a.map (·.1)).any ((b.map (·.1)).contains ·) then .error .join else .ok (a ++ b)

def perRowArgs (c : PerCond K) (bspace : SpaceL) (n i : Nat) (xl xr xb : List K) : Except Err (Named K) := do
  let xlc := splitRow c.perSpace xl
  let xrc := splitRow c.perSpace xr
  let xbc := splitRow bspace xb
  let dl ← evalDataFns n i (merge xlc xbc) c.leftData
  let dr ← evalDataFns n i (merge xrc xbc) c.rightData
  let (yl, _) ← c.net.apply (← joinNamed xlc xbc)
  let (yr, _) ← c.net.apply (← joinNamed xrc xbc)
  pure (merge (merge (merge (merge (merge (merge (merge
    (suffix "_left" yl) (suffix "_right" yr)) (suffix "_left" xlc)) (suffix "_right" xrc)) xbc) c.params)
    (suffix "_right" dr)) (suffix "_left" dl))

def perLoss (c : PerCond K) (bspace : SpaceL) (rows : List (List K × List K × List K)) : Except Err K := do
  let rs ← rows.zipIdx.mapM fun ri => do
    c.resid.call (← perRowArgs c bspace rows.length ri.2 ri.1.1 ri.1.2.1 ri.1.2.2)
  applyRed c.red (applyErr c.err rs)

/-! ## DeepONetSingleModuleCondition.forward / PIDeepONetCondition
    The DeepONet (branch · trunk) is a row function of the trunk point AND the parameter row of the
    input function: `net.inSpace` = function parameters followed by trunk variables. -/

structure DONCond (K : Type) where
  net : Net K
  fsOut : Option (SpaceL × UFun K)   -- function-set output (space, function of parameters and point), if the residual uses it
  resid : UFun K
  dataFns : List (String × DataFn K)
  params : Named K
  sumOverLocations : Bool           -- true = SquaredError with dim=1 on the rank-3 residual (code before the repair)

def donRowArgs (c : DONCond K) (pspace xspace : SpaceL) (n j : Nat) (prow xrow : List K) : Except Err (Named K) := do
  let xc := splitRow xspace xrow
  let pc := splitRow pspace prow
  let (y, ders) ← c.net.apply (pc ++ xc)
  let data ← evalDataFns n j xc c.dataFns
  let fso ← match c.fsOut with
    | some (sp, g) => do
      let v ← g.call (pc ++ xc)
      if v.length = dimOf sp then pure (splitRow sp v) else .error .shape
    | none => pure []
  pure (merge (merge (merge (merge y xc) fso) c.params) data ++ ders)

/-- residual tensor [function][location] ↦ component vector -/
def donResiduals (c : DONCond K) (pspace xspace : SpaceL) (prows xrows : List (List K)) :
    Except Err (List (List (List K))) :=
  prows.mapM fun prow =>
    xrows.zipIdx.mapM fun xj => do c.resid.call (← donRowArgs c pspace xspace xrows.length xj.2 prow xj.1)

/-- column sums of squares of one function's (locations × components) block: `sum(square(x), dim=1)` on rank 3 -/
def colSq : List (List K) → List K
  | [] => []
  | [r] => r.map fun v => v * v
  | r :: rs => List.zipWith (fun v s => v * v + s) r (colSq rs)

def donUnreduced (c : DONCond K) (res : List (List (List K))) : List K :=
  if c.sumOverLocations then (res.map colSq).flatten
  else (res.map fun blk => blk.map sqErr).flatten

def donLoss (c : DONCond K) (pspace xspace : SpaceL) (prows xrows : List (List K)) : Except Err K := do
  let res ← donResiduals c pspace xspace prows xrows
  applyRed .mean (donUnreduced c res)

end arith

/-! ## executable instances from polynomial programs -/

section pe
variable {K : Type} [Add K] [Sub K] [Mul K] [Neg K] [OfNat K 0] [OfNat K 1]

def peUFun (params : List String) (defaults : Named K) (es : List (PE K)) : UFun K :=
  { params := params, defaults := defaults,
    f := fun bound =>
      match evalVec (params.zip bound) es with
      | some v => .ok v
      | none => .error .user }

def derName (o i : String) : String := "d." ++ o ++ "." ++ i
def dderName (o i i' : String) : String := "dd." ++ o ++ "." ++ i ++ "." ++ i'

/-- components of a space as scalar variables, in order -/
def scalarVars (s : SpaceL) : List (String × Nat) :=
  s.flatMap fun p => (List.range p.2).map fun j => (p.1, j)

/-- pair every output variable with its component programs -/
def outBlocks : SpaceL → List (PE K) → List (String × List (PE K))
  | [], _ => []
  | (v, d) :: s, es => (v, es.take d) :: outBlocks s (es.drop d)

/-- first and second derivatives of every output block w.r.t. every input variable (symbolic):
    `d.u.x`[c * dim x + j] = ∂u_c/∂x_j;  `dd.u.x.t`[(c * dim x + j) * dim t + k] = ∂²u_c/∂x_j∂t_k -/
def peDers (inSpace outSpace : SpaceL) (outs : List (PE K)) (env : Named K) : Named K :=
  let blocks := outBlocks outSpace outs
  let first := blocks.flatMap fun ob => inSpace.map fun iv =>
    (derName ob.1 iv.1,
      ob.2.flatMap fun e => (List.range iv.2).map fun j => (PE.D iv.1 j e).eval env.env)
  let second := blocks.flatMap fun ob => inSpace.flatMap fun iv => inSpace.map fun iw =>
    (dderName ob.1 iv.1 iw.1,
      ob.2.flatMap fun e => (List.range iv.2).flatMap fun j => (List.range iw.2).map fun k =>
        (PE.D iw.1 k (PE.D iv.1 j e)).eval env.env)
  first ++ second

/-- a probe network given by polynomial programs over the input variables (by name) -/
def peNet (inSpace outSpace : SpaceL) (outs : List (PE K)) : Net K :=
  { inSpace := inSpace, outSpace := outSpace,
    f := fun xin =>
      match evalVec (splitRow inSpace xin) outs with
      | some v => v
      | none => [],          -- wrong output length ⇒ `Net.apply` answers err:shape
    ders := fun xin => peDers inSpace outSpace outs (splitRow inSpace xin) }

end pe

end TPV.Cond
