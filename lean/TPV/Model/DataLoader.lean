/-
  C16 — index arithmetic of the data loaders (import-free, executable).
  Mirrors src/torchphysics/utils/data/dataloader.py and deeponet_dataloader.py.
  A batch is represented by the list of data-set indices it presents.
-/
namespace TPV.DataLoader

/-- `PointsDataset.__getitem__`: rows `idx*bs ..< min((idx+1)*bs, n)` -/
def ptsBatch (n bs idx : Nat) : List Nat :=
  (List.range (min ((idx + 1) * bs) n - idx * bs)).map (· + idx * bs)

/-- `PointsDataset.__len__`: `n // bs` with drop_last, else `ceil(n / bs)` -/
def ptsLen (n bs : Nat) (drop : Bool) : Nat :=
  if drop then n / bs else (n + bs - 1) / bs

/-- all batches of one pass -/
def ptsPass (n bs : Nat) (drop : Bool) : List (List Nat) :=
  (List.range (ptsLen n bs drop)).map (ptsBatch n bs)

/-- the wrap-around slice of `DeepONetDataset._slice_points` / `DeepONetDataset_Unique.__getitem__`:
    `a = idx*bs % n`, `b = (idx+1)*bs % n`, rows `[a,b)` if `a < b`, else `[a,n) ++ [0,b)` -/
def wrapSlice (n bs idx : Nat) : List Nat :=
  let a := (idx * bs) % n
  let b := ((idx + 1) * bs) % n
  if a < b then (List.range (b - a)).map (· + a)
  else (List.range (n - a)).map (· + a) ++ List.range b

/-- `DeepONetDataset.__len__`: lcm (lcm nB bB / bB) (lcm nT bT / bT) -/
def sharedLen (nB bB nT bT : Nat) : Nat :=
  Nat.lcm (Nat.lcm nB bB / bB) (Nat.lcm nT bT / bT)

/-- `DeepONetDataset.__getitem__`: the same `idx` slices branch and trunk -/
def sharedBatch (nB bB nT bT idx : Nat) : List Nat × List Nat :=
  (wrapSlice nB bB idx, wrapSlice nT bT idx)

def ceilDiv (a b : Nat) : Nat := (a + b - 1) / b

/-- batch size actually used by both DeepONet data sets: a negative request means "everything",
    a request larger than the data set is clamped to it -/
def effBatch (n : Nat) (req : Int) : Nat := if req < 0 then n else min req.toNat n

/-- `DeepONetDataset_Unique.__len__` -/
def uniqueLen (nB bB nT bT : Nat) : Nat := ceilDiv nB bB * ceilDiv nT bT

/-- index split of `DeepONetDataset_Unique.__getitem__` as it is coded in /repo now.
    (`branch_idx = int(idx / trunk_batch_len)`, `trunk_idx = idx % trunk_batch_len`) -/
def uniqueSplit (Bl Tl idx : Nat) : Nat × Nat :=
  let _ := Bl
  (idx / Tl, idx % Tl)

/-- the split of the pinned snapshot before the repair (`idx / branch_batch_len`), kept to state the
    negative result -/
def uniqueSplitOld (Bl Tl idx : Nat) : Nat × Nat := (idx / Bl, idx % Tl)

def uniqueBatchWith (split : Nat → Nat → Nat → Nat × Nat) (nB bB nT bT idx : Nat) : List Nat × List Nat :=
  let s := split (ceilDiv nB bB) (ceilDiv nT bT) idx
  (wrapSlice nB bB s.1, wrapSlice nT bT s.2)

def uniqueBatch := uniqueBatchWith uniqueSplit

/-- another way to fill the last window of an axis when `bs` does not divide `n`: its last `bs` rows, one
    contiguous slice `[min((idx+1)·bs, n) − bs, min((idx+1)·bs, n))` (instead of the tail followed by the first rows).
    Which rows fill the incomplete window is not fixed by the property; the model covers both policies. -/
def lastSlice (n bs idx : Nat) : List Nat :=
  let stop := min ((idx + 1) * bs) n
  let start := stop - bs
  (List.range (stop - start)).map (· + start)

/-- the per-function data set with a given window policy -/
def uniqueBatchWin (win : Nat → Nat → Nat → List Nat) (nB bB nT bT idx : Nat) : List Nat × List Nat :=
  let s := uniqueSplit (ceilDiv nB bB) (ceilDiv nT bT) idx
  (win nB bB s.1, win nT bT s.2)

/-- all (function, location) pairs presented in a pass -/
def pairsOf (batches : List (List Nat × List Nat)) : List (Nat × Nat) :=
  batches.flatMap fun b => b.1.flatMap fun f => b.2.map fun x => (f, x)

def sharedPass (nB bB nT bT : Nat) : List (List Nat × List Nat) :=
  (List.range (sharedLen nB bB nT bT)).map (sharedBatch nB bB nT bT)

def uniquePassWith (split : Nat → Nat → Nat → Nat × Nat) (nB bB nT bT : Nat) : List (List Nat × List Nat) :=
  (List.range (uniqueLen nB bB nT bT)).map (uniqueBatchWith split nB bB nT bT)

def uniquePass := uniquePassWith uniqueSplit

def uniquePassWin (win : Nat → Nat → Nat → List Nat) (nB bB nT bT : Nat) : List (List Nat × List Nat) :=
  (List.range (uniqueLen nB bB nT bT)).map (uniqueBatchWin win nB bB nT bT)

def coversAll (nB nT : Nat) (ps : List (Nat × Nat)) : Bool :=
  (List.range nB).all fun f => (List.range nT).all fun x => ps.contains (f, x)

def sharedCovers (nB bB nT bT : Nat) : Bool := coversAll nB nT (pairsOf (sharedPass nB bB nT bT))
def uniqueCoversWith (split : Nat → Nat → Nat → Nat × Nat) (nB bB nT bT : Nat) : Bool :=
  coversAll nB nT (pairsOf (uniquePassWith split nB bB nT bT))

/-! ### full-data-set fold of `DataCondition.forward` (use_full_dataset = True)

  inf-norm:  `loss = max(loss, max |a|)` over the batches, starting from 0
  otherwise: `loss += mean_batch / len(loader)`, optionally the root afterwards (root is applied by
  the caller; the fold itself is what is modelled here). -/

def maxAbs (xs : List Rat) : Rat := xs.foldl (fun m x => max m (if x < 0 then -x else x)) 0

def foldInf (batches : List (List Rat)) : Rat :=
  batches.foldl (fun l b => max l (maxAbs b)) 0

def mean (xs : List Rat) : Rat := xs.sum / xs.length

def foldMean (batches : List (List Rat)) : Rat :=
  batches.foldl (fun l b => l + mean b / batches.length) 0

end TPV.DataLoader

namespace TPV.DataLoader

/-- indexing a data tensor by a list of row indices (`tensor[idxs]`) -/
def gather {α} (l : List α) (idxs : List Nat) : List α := idxs.filterMap (l[·]?)

/-- the output block a DeepONet batch carries: row i ↔ i-th branch index, column j ↔ j-th trunk index -/
def outBlock {α} (out : Nat → Nat → α) (b : List Nat × List Nat) : List (List α) :=
  b.1.map fun f => b.2.map fun x => out f x

end TPV.DataLoader
