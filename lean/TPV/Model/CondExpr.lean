/-
  Polynomial row programs over named vector variables (import-free).
  Used by the condition model (C04, C14) as the executable instance of residual functions,
  data functions, constrain functions and probe "networks".  Deliberately independent of the
  expression language of C03 (`TPV.Model.Expr`).

  `K` is the scalar type: `Rat` in the driver (every float that the harness sends is a dyadic
  rational, so the arithmetic is exact), any commutative ring / `ℝ` in the proofs.
-/
namespace TPV.CondExpr

/-- a polynomial program: constants, components `name[comp]` of named arguments, `+ - * neg` -/
inductive PE (K : Type) where
  | const : K → PE K
  | var : String → Nat → PE K
  | add : PE K → PE K → PE K
  | sub : PE K → PE K → PE K
  | mul : PE K → PE K → PE K
  | neg : PE K → PE K
deriving Repr

namespace PE
variable {K : Type}

/-- evaluation in a (total) environment of scalar variables -/
def eval [Add K] [Sub K] [Mul K] [Neg K] (ρ : String → Nat → K) : PE K → K
  | const c => c
  | var n i => ρ n i
  | add a b => eval ρ a + eval ρ b
  | sub a b => eval ρ a - eval ρ b
  | mul a b => eval ρ a * eval ρ b
  | neg a => - eval ρ a

/-- purely syntactic partial derivative with respect to the scalar variable `x[j]` -/
def D [OfNat K 0] [OfNat K 1] (x : String) (j : Nat) : PE K → PE K
  | const _ => const 0
  | var n i => if n = x ∧ i = j then const 1 else const 0
  | add a b => add (D x j a) (D x j b)
  | sub a b => sub (D x j a) (D x j b)
  | mul a b => add (mul (D x j a) b) (mul a (D x j b))
  | neg a => neg (D x j a)

/-- the scalar variables a program reads -/
def vars : PE K → List (String × Nat)
  | const _ => []
  | var n i => [(n, i)]
  | add a b => vars a ++ vars b
  | sub a b => vars a ++ vars b
  | mul a b => vars a ++ vars b
  | neg a => vars a

end PE

/-- a dict of named vectors (one row): Python dict, first match wins on lookup -/
abbrev Named (K : Type) := List (String × List K)

/-- `name[comp]` is present in the dict -/
def Named.has {K : Type} (d : Named K) (v : String × Nat) : Bool :=
  match d.lookup v.1 with
  | some vec => decide (v.2 < vec.length)
  | none => false

/-- total environment of a dict; only used under the guard `closed` below -/
def Named.env {K : Type} [OfNat K 0] (d : Named K) (n : String) (i : Nat) : K :=
  match d.lookup n with
  | some vec => match vec[i]? with
    | some x => x
    | none => 0
  | none => 0

/-- every variable the program reads is bound (with a large enough vector) -/
def PE.closed {K : Type} (e : PE K) (d : Named K) : Bool := e.vars.all d.has

/-- guarded evaluation: `none` when a name or component is missing (never a default value) -/
def PE.evalIn {K : Type} [Add K] [Sub K] [Mul K] [Neg K] [OfNat K 0] (d : Named K) (e : PE K) : Option K :=
  if e.closed d then some (e.eval d.env) else none

/-- a vector valued program = list of component programs -/
def evalVec {K : Type} [Add K] [Sub K] [Mul K] [Neg K] [OfNat K 0] (d : Named K) (es : List (PE K)) :
    Option (List K) :=
  es.mapM (PE.evalIn d)

end TPV.CondExpr
