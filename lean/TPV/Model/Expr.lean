/-
  Expression language of differentiable row-wise programs + purely syntactic derivative
  (import-free, executable).  Used by C03 (differential operators).

  `Expr V` is a deep embedding of "a function composed of differentiable tensor operations of the
  given input variables", written for ONE row of the batch: `V` is the type of scalar coordinates
  (row level: `(name, component)`; batch level: `(row, (name, component))`).
  `eval` is generic in the scalar type: `Float` and the exact `QE` (= `Option Rat`) in the driver,
  `ℝ` in the proofs (instance in `TPV/Props/C03.lean`).
-/
namespace TPV.Expr

/-- the non-field operations a scalar type must provide -/
class Transc (K : Type) where
  ofRat : Rat → K
  sin : K → K
  cos : K → K
  exp : K → K
  tanh : K → K
  /-- `relu(a)ⁿ` with the convention `relu(a)⁰ = step(a)`: `aⁿ` if `a > 0`, else `0` — the library's smooth
      activation `ReLUn(n)` for `n ≥ 1`; the exponent 0 only arises as the derivative of `n = 1` -/
  rpow : K → Nat → K

inductive Expr (V : Type) where
  | const : Rat → Expr V
  | var : V → Expr V
  | add : Expr V → Expr V → Expr V
  | sub : Expr V → Expr V → Expr V
  | mul : Expr V → Expr V → Expr V
  | div : Expr V → Expr V → Expr V
  | neg : Expr V → Expr V
  | pow : Expr V → Nat → Expr V
  | sin : Expr V → Expr V
  | cos : Expr V → Expr V
  | exp : Expr V → Expr V
  | tanh : Expr V → Expr V
  | relun : Expr V → Nat → Expr V
deriving Repr, BEq, DecidableEq

namespace Expr
variable {V W K : Type}

def zero : Expr V := const 0
def one : Expr V := const 1

/-- `a ^ n` by repeated multiplication (core notation classes only) -/
def powN [Mul K] [Transc K] (a : K) : Nat → K
  | 0 => Transc.ofRat 1
  | n + 1 => powN a n * a

/-- value of an expression at one row -/
def eval [Add K] [Sub K] [Mul K] [Div K] [Neg K] [Transc K] (ρ : V → K) : Expr V → K
  | const c => Transc.ofRat c
  | var y => ρ y
  | add a b => eval ρ a + eval ρ b
  | sub a b => eval ρ a - eval ρ b
  | mul a b => eval ρ a * eval ρ b
  | div a b => eval ρ a / eval ρ b
  | neg a => - eval ρ a
  | pow a n => powN (eval ρ a) n
  | sin a => Transc.sin (eval ρ a)
  | cos a => Transc.cos (eval ρ a)
  | exp a => Transc.exp (eval ρ a)
  | tanh a => Transc.tanh (eval ρ a)
  | relun a n => Transc.rpow (eval ρ a) n

/-- purely syntactic derivative with respect to one scalar coordinate -/
def D [DecidableEq V] (x : V) : Expr V → Expr V
  | const _ => const 0
  | var y => if y = x then const 1 else const 0
  | add a b => add (D x a) (D x b)
  | sub a b => sub (D x a) (D x b)
  | mul a b => add (mul (D x a) b) (mul a (D x b))
  | div a b => div (sub (mul (D x a) b) (mul a (D x b))) (mul b b)
  | neg a => neg (D x a)
  | pow a n => mul (mul (const (n : Rat)) (pow a (n - 1))) (D x a)
  | sin a => mul (cos a) (D x a)
  | cos a => neg (mul (sin a) (D x a))
  | exp a => mul (exp a) (D x a)
  | tanh a => mul (sub (const 1) (mul (tanh a) (tanh a))) (D x a)
  | relun a n => mul (mul (const (n : Rat)) (relun a (n - 1))) (D x a)

/-- iterated derivative, first element of the list applied first -/
def Dn [DecidableEq V] : List V → Expr V → Expr V
  | [], e => e
  | x :: xs, e => Dn xs (D x e)

/-- the coordinates that occur syntactically -/
def vars : Expr V → List V
  | const _ => []
  | var y => [y]
  | add a b | sub a b | mul a b | div a b => vars a ++ vars b
  | neg a | pow a _ | sin a | cos a | exp a | tanh a | relun a _ => vars a

/-- rename coordinates (used to place a row-level program at one row of the batch) -/
def map (f : V → W) : Expr V → Expr W
  | const c => const c
  | var y => var (f y)
  | add a b => add (map f a) (map f b)
  | sub a b => sub (map f a) (map f b)
  | mul a b => mul (map f a) (map f b)
  | div a b => div (map f a) (map f b)
  | neg a => neg (map f a)
  | pow a n => pow (map f a) n
  | sin a => sin (map f a)
  | cos a => cos (map f a)
  | exp a => exp (map f a)
  | tanh a => tanh (map f a)
  | relun a n => relun (map f a) n

/-- every denominator is non-zero at `ρ` (the guard under which division is meaningful) -/
def Defined [Add K] [Sub K] [Mul K] [Div K] [Neg K] [Transc K] (isZero : K → Prop) (ρ : V → K) : Expr V → Prop
  | const _ => True
  | var _ => True
  | add a b | sub a b | mul a b => Defined isZero ρ a ∧ Defined isZero ρ b
  | div a b => Defined isZero ρ a ∧ Defined isZero ρ b ∧ ¬ isZero (eval ρ b)
  | neg a | pow a _ | sin a | cos a | exp a | tanh a => Defined isZero ρ a
  | relun a _ => Defined isZero ρ a ∧ ¬ isZero (eval ρ a)      -- away from the kink of relu

/-- syntactic "at most affine in `x`": sums of `x`-free terms and (`x`-free) · (affine) products -/
def affineIn [DecidableEq V] (x : V) : Expr V → Bool
  | const _ => true
  | var _ => true
  | add a b | sub a b => affineIn x a && affineIn x b
  | mul a b => (!(vars a).contains x && affineIn x b) || (affineIn x a && !(vars b).contains x)
  | div a b => affineIn x a && !(vars b).contains x
  | neg a => affineIn x a
  | pow a _ | sin a | cos a | exp a | tanh a | relun a _ => !(vars a).contains x

/-- sum of a list of expressions (`tensor.sum()` over the components of one row) -/
def sumE : List (Expr V) → Expr V
  | [] => zero
  | [e] => e
  | e :: es => add e (sumE es)

end Expr

/-! ### scalar instances used by the driver -/

def powF (a : Float) : Nat → Float
  | 0 => 1
  | n + 1 => powF a n * a

instance : Transc Float where
  ofRat c := Float.ofInt c.num / Float.ofNat c.den
  sin := Float.sin
  cos := Float.cos
  exp := Float.exp
  tanh := Float.tanh
  rpow a n := if a > 0 then powF a n else 0

/-- exact rational arithmetic with explicit failure: `none` = "not a rational computation"
    (transcendental function) or division by zero.  No default values. -/
structure QE where
  v : Option Rat
deriving Repr, BEq

namespace QE
def lift2 (f : Rat → Rat → Rat) (a b : QE) : QE := ⟨do let x ← a.v; let y ← b.v; pure (f x y)⟩
instance : Add QE := ⟨lift2 (· + ·)⟩
instance : Sub QE := ⟨lift2 (· - ·)⟩
instance : Mul QE := ⟨lift2 (· * ·)⟩
instance : Div QE := ⟨fun a b => ⟨do let x ← a.v; let y ← b.v; if y = 0 then none else pure (x / y)⟩⟩
instance : Neg QE := ⟨fun a => ⟨a.v.map (- ·)⟩⟩
instance : Transc QE where
  ofRat c := ⟨some c⟩
  sin _ := ⟨none⟩
  cos _ := ⟨none⟩
  exp _ := ⟨none⟩
  tanh _ := ⟨none⟩
  rpow a n := ⟨a.v.map fun x => if x > 0 then x ^ n else 0⟩
end QE

/-- value together with a first-order running bound of the rounding error of evaluating the
    expression in floating point, in units of the unit round-off `u`.  Only the harness uses the bound
    (as the comparison tolerance); no theorem is about it. -/
structure ErrF where
  v : Float
  e : Float

namespace ErrF
def mk' (v e : Float) : ErrF := ⟨v, e + v.abs⟩
instance : Add ErrF := ⟨fun a b => mk' (a.v + b.v) (a.e + b.e)⟩
instance : Sub ErrF := ⟨fun a b => mk' (a.v - b.v) (a.e + b.e)⟩
instance : Mul ErrF := ⟨fun a b => mk' (a.v * b.v) (a.v.abs * b.e + b.v.abs * a.e)⟩
instance : Div ErrF := ⟨fun a b => mk' (a.v / b.v) ((a.e + (a.v / b.v).abs * b.e) / b.v.abs)⟩
instance : Neg ErrF := ⟨fun a => ⟨-a.v, a.e⟩⟩
instance : Transc ErrF where
  ofRat c := ⟨Float.ofInt c.num / Float.ofNat c.den, 0⟩
  sin a := mk' (Float.sin a.v) a.e
  cos a := mk' (Float.cos a.v) a.e
  exp a := mk' (Float.exp a.v) (Float.exp a.v * a.e)
  tanh a := mk' (Float.tanh a.v) a.e
  rpow a n := if a.v > 0 then mk' (powF a.v n) ((Float.ofNat n) * powF a.v (n - 1) * a.e + (Float.ofNat n) * powF a.v n) else ⟨0, 0⟩
end ErrF

end TPV.Expr
