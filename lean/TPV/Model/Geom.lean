/-
  Geometry core shared by C01, C05, C06, C10, C11, C17, C18 (import-free, executable).

  Mirrors src/torchphysics/problem/domains: the CSG expression language, membership tests
  (`_contains`) of primitives, boundaries and operations, bounding boxes, volumes, partial evaluation.

  Conventions
  * scalars: any type `K` with the core notation classes; the driver runs `Rat` (exact) and `Float`.
  * one row at a time: a point is an environment `pts` (variable name ↦ coordinates), its own parameter
    row is an environment `ρ`; parameter functions see `pts ++ ρ` (`points.join(params)` in the code).
  * malformed input (missing variable, wrong dimension) is `none` — the code raises; never a default.
  * `‖p − c‖ ≤ r` is represented without square roots as `0 ≤ r ∧ ‖p − c‖² ≤ r²` (equivalent over ℝ,
    `Props/C05.lean: norm_le_iff_sq`).
-/
namespace TPV.Geom

/-- variable name ↦ coordinate vector -/
abbrev Env (K : Type) := List (String × List K)

def Env.get {K} (e : Env K) (v : String) : Option (List K) := List.lookup v e

/-- replace (or add) the binding of `v` -/
def Env.set {K} (e : Env K) (v : String) (x : List K) : Env K :=
  (v, x) :: e.filter (fun b => b.1 != v)

/-- a domain parameter: a function of named variables (shallow embedding — theorems hold for every
    function); `args` is the declared dependency list (`necessary_args`) -/
structure PFun (K : Type) where
  args : List String
  f : Env K → List K

def PFun.const {K} (c : List K) : PFun K := ⟨[], fun _ => c⟩

/-- `UserFunction.partially_evaluate(**σ)` for a domain parameter: bind what `σ` provides -/
def PFun.peval {K} (p : PFun K) (σ : Env K) : PFun K :=
  ⟨p.args.filter (fun a => (σ.get a).isNone), fun e => p.f (e ++ σ)⟩

/-- CSG domain expressions. Primitives carry the name of their variable. -/
inductive Dom (K : Type) where
  | interval (v : String) (lb ub : PFun K)
  | par (v : String) (o c1 c2 : PFun K)          -- Parallelogram(origin, corner_1, corner_2)
  | tri (v : String) (o c1 c2 : PFun K)          -- Triangle(origin, corner_1, corner_2)
  | circle (v : String) (c r : PFun K)
  | sphere (v : String) (c r : PFun K)
  | union (a b : Dom K)
  | cut (a b : Dom K)
  | inter (a b : Dom K)
  | prod (a b : Dom K)
  | translate (v : String) (d : Dom K) (t : PFun K)
  | rotate (v : String) (d : Dom K) (m c : PFun K)   -- 2-D: m = [m00, m01, m10, m11]
  | bdry (d : Dom K)                              -- `.boundary`
  | bdryL (d : Dom K) | bdryR (d : Dom K)         -- Interval.boundary_left / boundary_right

section ops
variable {K : Type} [Add K] [Sub K] [Mul K] [Div K] [Neg K] [LE K] [DecidableLE K] [OfNat K 0] [OfNat K 1]

def le (a b : K) : Bool := decide (a ≤ b)

def absK (a : K) : K := if (0 : K) ≤ a then a else -a
def maxK (a b : K) : K := if a ≤ b then b else a
def minK (a b : K) : K := if a ≤ b then a else b

/-- tolerances of `torch.isclose(x, y)`: `|x − y| ≤ atol + rtol·|y|` -/
structure Tol (K : Type) where
  atol : K
  rtol : K
  batol : K      -- absolute tolerance of the barycentric edge tests (`BARY_ATOL` in parallelogram.py)

/-- tolerances of the barycentric edge tests -/
def Tol.bary {K} (τ : Tol K) : Tol K := ⟨τ.batol, τ.rtol, τ.batol⟩

def isclose (τ : Tol K) (x y : K) : Bool := le (absK (x - y)) (τ.atol + τ.rtol * absK y)

/-- solution of `[d1 d2]·(s,t)ᵀ = q` by Cramer's rule, exactly as `_solve_lgs` -/
def solveLgs (q1 q2 d1x d1y d2x d2y : K) : K × K :=
  let det := d1x * d2y - d1y * d2x
  ((d2y * q1 - d2x * q2) / det, (d1x * q2 - d1y * q1) / det)

/-- `‖(dx,dy,…)‖ ≤ r` without roots -/
def normLe (d2 r : K) : Bool := le 0 r && le d2 (r * r)

/-- `isclose(‖·‖, r)` without roots: `r − τ ≤ ‖·‖ ≤ r + τ`, `τ = atol + rtol·|r|` -/
def normClose (τ : Tol K) (d2 r : K) : Bool :=
  let t := τ.atol + τ.rtol * absK r
  let hi := r + t
  let lo := r - t
  (le 0 hi && le d2 (hi * hi)) && (le lo 0 || le (lo * lo) d2)

/-- the membership algorithm. `onB = true` asks for the boundary of the node (`.boundary._contains`). -/
def containsAux (τ : Tol K) : Bool → Dom K → Env K → Env K → Option Bool
  | false, .interval v lb ub, pts, ρ =>
    match pts.get v, lb.f (pts ++ ρ), ub.f (pts ++ ρ) with
    | some [x], [l], [u] => some (le l x && le x u)
    | _, _, _ => none
  | true, .interval v lb ub, pts, ρ =>
    match pts.get v, lb.f (pts ++ ρ), ub.f (pts ++ ρ) with
    | some [x], [l], [u] => some (isclose τ x l || isclose τ x u)
    | _, _, _ => none
  | onB, .par v o c1 c2, pts, ρ =>
    match pts.get v, o.f (pts ++ ρ), c1.f (pts ++ ρ), c2.f (pts ++ ρ) with
    | some [x, y], [ox, oy], [ax, ay], [bx, cy] =>
      let b := solveLgs (x - ox) (y - oy) (ax - ox) (ay - oy) (bx - ox) (cy - oy)
      if onB then
        -- along an edge the range check includes the corners up to the same tolerance
        let in1 := le (-τ.batol) b.1 && le b.1 (1 + τ.batol)
        let in2 := le (-τ.batol) b.2 && le b.2 (1 + τ.batol)
        some (((isclose τ.bary b.1 1 || isclose τ.bary b.1 0) && in2) || ((isclose τ.bary b.2 1 || isclose τ.bary b.2 0) && in1))
      else
        some ((le 0 b.1 && le b.1 1) && (le 0 b.2 && le b.2 1))
    | _, _, _, _ => none
  | onB, .tri v o c1 c2, pts, ρ =>
    match pts.get v, o.f (pts ++ ρ), c1.f (pts ++ ρ), c2.f (pts ++ ρ) with
    | some [x, y], [ox, oy], [ax, ay], [bx, cy] =>
      -- dir_1 = c1 − o, −dir_3 = c2 − o
      let b := solveLgs (x - ox) (y - oy) (ax - ox) (ay - oy) (bx - ox) (cy - oy)
      if onB then
        let x0 := isclose τ.bary b.1 0 && (le (-τ.batol) b.2 && le b.2 (1 + τ.batol))
        let y0 := isclose τ.bary b.2 0 && (le (-τ.batol) b.1 && le b.1 (1 + τ.batol))
        -- third edge: sum close to 1, restricted to the segment between corner_1 and corner_2
        let e3 := isclose τ.bary (b.1 + b.2) 1 && (le (-τ.batol) b.1 && le (-τ.batol) b.2)
        some ((x0 || y0) || e3)
      else
        some ((le 0 b.1 && le 0 b.2) && le (b.2 + b.1) 1)
    | _, _, _, _ => none
  | onB, .circle v c r, pts, ρ =>
    match pts.get v, c.f (pts ++ ρ), r.f (pts ++ ρ) with
    | some [x, y], [cx, cy], [rr] =>
      let d2 := (x - cx) * (x - cx) + (y - cy) * (y - cy)
      some (if onB then normClose τ d2 rr else normLe d2 rr)
    | _, _, _ => none
  | onB, .sphere v c r, pts, ρ =>
    match pts.get v, c.f (pts ++ ρ), r.f (pts ++ ρ) with
    | some [x, y, z], [cx, cy, cz], [rr] =>
      let d2 := (x - cx) * (x - cx) + (y - cy) * (y - cy) + (z - cz) * (z - cz)
      some (if onB then normClose τ d2 rr else normLe d2 rr)
    | _, _, _ => none
  | false, .union a b, pts, ρ => do
    let ia ← containsAux τ false a pts ρ
    let ib ← containsAux τ false b pts ρ
    pure (ia || ib)
  | true, .union a b, pts, ρ => do
    let ia ← containsAux τ false a pts ρ
    let ib ← containsAux τ false b pts ρ
    let oa ← containsAux τ true a pts ρ
    let ob ← containsAux τ true b pts ρ
    pure ((oa && !ib) || ((ob && !ia) || (ob && oa)))
  | false, .cut a b, pts, ρ => do
    let ia ← containsAux τ false a pts ρ
    let ib ← containsAux τ false b pts ρ
    pure (ia && !ib)
  | true, .cut a b, pts, ρ => do
    let ia ← containsAux τ false a pts ρ
    let ib ← containsAux τ false b pts ρ
    let oa ← containsAux τ true a pts ρ
    let ob ← containsAux τ true b pts ρ
    pure ((oa && !ib) || ((ob && ia) && !oa))
  | false, .inter a b, pts, ρ => do
    let ia ← containsAux τ false a pts ρ
    let ib ← containsAux τ false b pts ρ
    pure (ia && ib)
  | true, .inter a b, pts, ρ => do
    let ia ← containsAux τ false a pts ρ
    let ib ← containsAux τ false b pts ρ
    let oa ← containsAux τ true a pts ρ
    let ob ← containsAux τ true b pts ρ
    pure ((oa && ib) || (ob && ia))
  | false, .prod a b, pts, ρ => do
    let ia ← containsAux τ false a pts ρ
    let ib ← containsAux τ false b pts ρ
    pure (ia && ib)
  | true, .prod a b, pts, ρ => do
    -- `ProductDomain.boundary` = (∂a × b) ∪ (a × ∂b)
    let ia ← containsAux τ false a pts ρ
    let ib ← containsAux τ false b pts ρ
    let oa ← containsAux τ true a pts ρ
    let ob ← containsAux τ true b pts ρ
    pure ((oa && ib) || (ia && ob))
  | onB, .translate v d t, pts, ρ =>
    -- the inner domain sees the shifted coordinates of `v`; the point's other coordinates (a product
    -- partner's) are handed down in front of the parameters (`points.join(params)` minus the moved variable)
    match pts.get v, t.f (pts ++ ρ) with
    | some [x], [tx] => containsAux τ onB d [(v, [x - tx])] (pts.filter (fun b => b.1 != v) ++ ρ)
    | some [x, y], [tx, ty] => containsAux τ onB d [(v, [x - tx, y - ty])] (pts.filter (fun b => b.1 != v) ++ ρ)
    | some [x, y, z], [tx, ty, tz] => containsAux τ onB d [(v, [x - tx, y - ty, z - tz])] (pts.filter (fun b => b.1 != v) ++ ρ)
    | _, _ => none
  | onB, .rotate v d m c, pts, ρ =>
    match pts.get v, m.f (pts ++ ρ), c.f (pts ++ ρ) with
    | some [x, y], [m00, m01, m10, m11], [cx, cy] =>
      -- `linalg.solve(M, p − c) + c`
      let det := m00 * m11 - m01 * m10
      let qx := x - cx
      let qy := y - cy
      let sx := (m11 * qx - m01 * qy) / det
      let sy := (m00 * qy - m10 * qx) / det
      containsAux τ onB d [(v, [sx + cx, sy + cy])] (pts.filter (fun b => b.1 != v) ++ ρ)
    | _, _, _ => none
  | false, .bdry d, pts, ρ => containsAux τ true d pts ρ
  | true, .bdry _, _, _ => none                      -- a boundary has no boundary
  | false, .bdryL (.interval v lb _), pts, ρ =>
    match pts.get v, lb.f (pts ++ ρ) with
    | some [x], [l] => some (isclose τ x l)
    | _, _ => none
  | false, .bdryR (.interval v _ ub), pts, ρ =>
    match pts.get v, ub.f (pts ++ ρ) with
    | some [x], [u] => some (isclose τ x u)
    | _, _ => none
  | _, .bdryL _, _, _ => none
  | _, .bdryR _, _, _ => none

/-- `Domain._contains(points, params)` for one row -/
def contains (τ : Tol K) (d : Dom K) (pts ρ : Env K) : Option Bool := containsAux τ false d pts ρ

/-- `Domain.boundary._contains(points, params)` for one row -/
def bdryContains (τ : Tol K) (d : Dom K) (pts ρ : Env K) : Option Bool := containsAux τ true d pts ρ

end ops


/-! ### comparison slacks (used by the correspondence only: how far is a query from a decision boundary)

  `slacks` returns, for one row, the normalised slack `lhs − rhs` of every comparison the membership
  algorithm makes (sizes normalised to the primitive: barycentric units for parallelogram / triangle,
  relative squared radius for discs / balls, interval length for intervals).  The harness demands
  agreement with the floating-point implementation only when every |slack| exceeds its margin. -/

section slack
variable {K : Type} [Add K] [Sub K] [Mul K] [Div K] [Neg K] [LE K] [DecidableLE K] [OfNat K 0] [OfNat K 1]
  [BEq K]

def nz (a : K) : K := if a == 0 then 1 else a

def closeSlack (τ : Tol K) (x y scale : K) : K := (absK (x - y) - (τ.atol + τ.rtol * absK y)) / nz scale

def slacks (τ : Tol K) : Bool → Dom K → Env K → Env K → Option (List K)
  | onB, .interval v lb ub, pts, ρ =>
    match pts.get v, lb.f (pts ++ ρ), ub.f (pts ++ ρ) with
    | some [x], [l], [u] =>
      let w := absK (u - l)
      some (if onB then [closeSlack τ x l w, closeSlack τ x u w] else [(x - l) / nz w, (u - x) / nz w])
    | _, _, _ => none
  | onB, .par v o c1 c2, pts, ρ =>
    match pts.get v, o.f (pts ++ ρ), c1.f (pts ++ ρ), c2.f (pts ++ ρ) with
    | some [x, y], [ox, oy], [ax, ay], [bx, cy] =>
      let b := solveLgs (x - ox) (y - oy) (ax - ox) (ay - oy) (bx - ox) (cy - oy)
      let ins := [b.1, 1 - b.1, b.2, 1 - b.2]
      let insB := [b.1 + τ.batol, 1 + τ.batol - b.1, b.2 + τ.batol, 1 + τ.batol - b.2]
      some (if onB then insB ++ [closeSlack τ.bary b.1 0 1, closeSlack τ.bary b.1 1 1, closeSlack τ.bary b.2 0 1, closeSlack τ.bary b.2 1 1] else ins)
    | _, _, _, _ => none
  | onB, .tri v o c1 c2, pts, ρ =>
    match pts.get v, o.f (pts ++ ρ), c1.f (pts ++ ρ), c2.f (pts ++ ρ) with
    | some [x, y], [ox, oy], [ax, ay], [bx, cy] =>
      let b := solveLgs (x - ox) (y - oy) (ax - ox) (ay - oy) (bx - ox) (cy - oy)
      some (if onB then [b.1 + τ.batol, 1 + τ.batol - b.1, b.2 + τ.batol, 1 + τ.batol - b.2, closeSlack τ.bary b.1 0 1, closeSlack τ.bary b.2 0 1, closeSlack τ.bary (b.1 + b.2) 1 1,
                         b.1 + τ.batol, b.2 + τ.batol]
            else [b.1, b.2, 1 - (b.1 + b.2)])
    | _, _, _, _ => none
  | onB, .circle v c r, pts, ρ =>
    match pts.get v, c.f (pts ++ ρ), r.f (pts ++ ρ) with
    | some [x, y], [cx, cy], [rr] =>
      let d2 := (x - cx) * (x - cx) + (y - cy) * (y - cy)
      let t := τ.atol + τ.rtol * absK rr
      some (if onB then [((rr + t) * (rr + t) - d2) / nz (rr * rr), (d2 - (rr - t) * (rr - t)) / nz (rr * rr), rr]
            else [(rr * rr - d2) / nz (rr * rr), rr])
    | _, _, _ => none
  | onB, .sphere v c r, pts, ρ =>
    match pts.get v, c.f (pts ++ ρ), r.f (pts ++ ρ) with
    | some [x, y, z], [cx, cy, cz], [rr] =>
      let d2 := (x - cx) * (x - cx) + (y - cy) * (y - cy) + (z - cz) * (z - cz)
      let t := τ.atol + τ.rtol * absK rr
      some (if onB then [((rr + t) * (rr + t) - d2) / nz (rr * rr), (d2 - (rr - t) * (rr - t)) / nz (rr * rr), rr]
            else [(rr * rr - d2) / nz (rr * rr), rr])
    | _, _, _ => none
  | onB, .union a b, pts, ρ | onB, .cut a b, pts, ρ | onB, .inter a b, pts, ρ | onB, .prod a b, pts, ρ => do
    let ia ← slacks τ false a pts ρ
    let ib ← slacks τ false b pts ρ
    if onB then
      let oa ← slacks τ true a pts ρ
      let ob ← slacks τ true b pts ρ
      pure (ia ++ ib ++ oa ++ ob)
    else pure (ia ++ ib)
  | onB, .translate v d t, pts, ρ =>
    match pts.get v, t.f (pts ++ ρ) with
    | some [x], [tx] => slacks τ onB d [(v, [x - tx])] (pts.filter (fun b => b.1 != v) ++ ρ)
    | some [x, y], [tx, ty] => slacks τ onB d [(v, [x - tx, y - ty])] (pts.filter (fun b => b.1 != v) ++ ρ)
    | some [x, y, z], [tx, ty, tz] => slacks τ onB d [(v, [x - tx, y - ty, z - tz])] (pts.filter (fun b => b.1 != v) ++ ρ)
    | _, _ => none
  | onB, .rotate v d m c, pts, ρ =>
    match pts.get v, m.f (pts ++ ρ), c.f (pts ++ ρ) with
    | some [x, y], [m00, m01, m10, m11], [cx, cy] =>
      let det := m00 * m11 - m01 * m10
      let qx := x - cx
      let qy := y - cy
      slacks τ onB d [(v, [(m11 * qx - m01 * qy) / det + cx, (m00 * qy - m10 * qx) / det + cy])] (pts.filter (fun b => b.1 != v) ++ ρ)
    | _, _, _ => none
  | false, .bdry d, pts, ρ => slacks τ true d pts ρ
  | true, .bdry _, _, _ => none
  | false, .bdryL (.interval v lb ub), pts, ρ =>
    match pts.get v, lb.f (pts ++ ρ), ub.f (pts ++ ρ) with
    | some [x], [l], [u] => some [closeSlack τ x l (absK (u - l))]
    | _, _, _ => none
  | false, .bdryR (.interval v lb ub), pts, ρ =>
    match pts.get v, lb.f (pts ++ ρ), ub.f (pts ++ ρ) with
    | some [x], [l], [u] => some [closeSlack τ x u (absK (u - l))]
    | _, _, _ => none
  | _, .bdryL _, _, _ => none
  | _, .bdryR _, _, _ => none

/-- smallest |slack| -/
def margin (τ : Tol K) (onB : Bool) (d : Dom K) (pts ρ : Env K) : Option K :=
  (slacks τ onB d pts ρ).bind fun l =>
    match l.map absK with
    | [] => none
    | x :: xs => some (xs.foldl minK x)

end slack

/-! ### free variables and partial evaluation (`necessary_variables`, `__call__`) -/

def dedup (l : List String) : List String := l.foldl (fun acc x => if acc.contains x then acc else acc ++ [x]) []

/-- the coordinate variables of the space a domain lives in -/
def Dom.vars {K} : Dom K → List String
  | .interval v _ _ | .par v _ _ _ | .tri v _ _ _ | .circle v _ _ | .sphere v _ _ => [v]
  | .union a _ | .cut a _ | .inter a _ => a.vars
  | .prod a b => a.vars ++ b.vars
  | .translate _ d _ | .rotate _ d _ _ => d.vars
  | .bdry d | .bdryL d | .bdryR d => d.vars

/-- `necessary_variables` as the constructors compute it -/
def Dom.freeVars {K} : Dom K → List String
  | .interval _ lb ub => dedup (lb.args ++ ub.args)
  | .par _ o c1 c2 | .tri _ o c1 c2 => dedup (o.args ++ c1.args ++ c2.args)
  | .circle _ c r | .sphere _ c r => dedup (r.args ++ c.args)
  | .union a b | .cut a b | .inter a b => dedup (a.freeVars ++ b.freeVars)
  | .prod a b => dedup ((a.freeVars.filter (fun x => !b.vars.contains x)) ++ b.freeVars)
  | .translate _ d t => dedup (t.args ++ d.freeVars)
  | .rotate _ d m c => dedup (m.args ++ c.args ++ d.freeVars)
  | .bdry d | .bdryL d | .bdryR d => d.freeVars

/-- `D(**σ)` for parameter variables (σ binds no coordinate variable of `D`) -/
def Dom.peval {K} (σ : Env K) : Dom K → Dom K
  | .interval v lb ub => .interval v (lb.peval σ) (ub.peval σ)
  | .par v o c1 c2 => .par v (o.peval σ) (c1.peval σ) (c2.peval σ)
  | .tri v o c1 c2 => .tri v (o.peval σ) (c1.peval σ) (c2.peval σ)
  | .circle v c r => .circle v (c.peval σ) (r.peval σ)
  | .sphere v c r => .sphere v (c.peval σ) (r.peval σ)
  | .union a b => .union (a.peval σ) (b.peval σ)
  | .cut a b => .cut (a.peval σ) (b.peval σ)
  | .inter a b => .inter (a.peval σ) (b.peval σ)
  | .prod a b => .prod (a.peval σ) (b.peval σ)
  | .translate v d t => .translate v (d.peval σ) (t.peval σ)
  | .rotate v d m c => .rotate v (d.peval σ) (m.peval σ) (c.peval σ)
  | .bdry d => .bdry (d.peval σ)
  | .bdryL d => .bdryL (d.peval σ)
  | .bdryR d => .bdryR (d.peval σ)

end TPV.Geom
