/-
  C11 additions to the sampling model (import-free; the parametrisations and the selection semantics
  themselves live in GeomSample.lean, which C11 only reads).

  * one axis of `LHSSampler._create_lhs_in_bounding_box` (samplers/random_samplers.py):
        axis_grid   = linspace(lo, hi, n + 1)[:-1]                 -- lo + (hi - lo)·i/n
        axis_points = axis_grid + (hi - lo)/n · rand(n)
        column      = axis_points[randperm(n)]
  * `Interval.sample_grid(n)` as a whole list (the single point is `intervalGrid` of GeomSample).
-/
import TPV.Model.GeomSample

namespace TPV.Geom

section lhs
variable {K : Type} [Add K] [Sub K] [Mul K] [Div K] [OfNat K 0] [OfNat K 1]

/-- point of stratum `i` with shift `u ∈ [0,1)`: `linspace(lo,hi,n+1)[i] + (hi - lo)/n · u` -/
def lhsAxisPoint (lo hi : K) (n i : Nat) (u : K) : K :=
  (lo + (hi - lo) * (natK i / natK n)) + (hi - lo) / natK n * u

/-- one coordinate column of the LHS design: output row `j` receives stratum `perm[j]` together with
    that stratum's own shift `us[perm[j]]` (`axis_points[permutation]`).  `none` if the permutation
    addresses a stratum that has no shift (cannot happen in the code: both have length `n`). -/
def lhsAxis (lo hi : K) (n : Nat) (us : List K) (perm : List Nat) : Option (List K) :=
  perm.mapM fun i => (us[i]?).map (lhsAxisPoint lo hi n i)

/-- `Interval.sample_grid(n)`: all `n` points -/
def intervalGridList (l u : K) (n : Nat) : List K := (List.range n).map (intervalGrid l u n)

end lhs

end TPV.Geom
