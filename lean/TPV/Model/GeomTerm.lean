/-
  Concrete syntax for the geometry drivers: parameter terms (polynomials in named variables),
  domain expressions and environments, parsed from the line protocol.  Import-free.
-/
import TPV.Model.Proto
import TPV.Model.Geom

namespace TPV.Geom
open TPV.Proto

/-- parameter terms: what the harness generates as Python lambdas -/
inductive PT (K : Type) where
  | c (k : K)
  | var (name : String) (i : Nat)
  | add (a b : PT K)
  | sub (a b : PT K)
  | mul (a b : PT K)
  | neg (a : PT K)

section
variable {K : Type} [Add K] [Sub K] [Mul K] [Neg K]

def PT.eval : PT K → Env K → Option K
  | .c k, _ => some k
  | .var n i, e => (e.get n).bind (·[i]?)
  | .add a b, e => do pure ((← a.eval e) + (← b.eval e))
  | .sub a b, e => do pure ((← a.eval e) - (← b.eval e))
  | .mul a b, e => do pure ((← a.eval e) * (← b.eval e))
  | .neg a, e => do pure (-(← a.eval e))

def PT.vars : PT K → List String
  | .c _ => []
  | .var n _ => [n]
  | .add a b | .sub a b | .mul a b => a.vars ++ b.vars
  | .neg a => a.vars

/-- a parameter function from one term per component; a missing variable yields `[]`, which no
    primitive accepts (→ `none`, the code raises) -/
def pfunOf (ts : List (PT K)) : PFun K :=
  ⟨dedup (ts.flatMap PT.vars), fun e => match ts.mapM (·.eval e) with | some l => l | none => []⟩
end

/-! ### parsers (prefix notation, see DESIGN.md Appendix B) -/

partial def parsePT {K} (rd : P K) : P (PT K) := do
  let t ← next
  match t with
  | "c" => do pure (.c (← rd))
  | "v" => do let n ← next; let i ← nat; pure (.var n i)
  | "+" => do let a ← parsePT rd; let b ← parsePT rd; pure (.add a b)
  | "-" => do let a ← parsePT rd; let b ← parsePT rd; pure (.sub a b)
  | "*" => do let a ← parsePT rd; let b ← parsePT rd; pure (.mul a b)
  | "n" => do let a ← parsePT rd; pure (.neg a)
  | _ => throw s!"pt:{t}"

def parsePF {K} [Add K] [Sub K] [Mul K] [Neg K] (rd : P K) : P (PFun K) := do
  let ts ← many (parsePT rd)
  pure (pfunOf ts)

partial def parseDom {K} [Add K] [Sub K] [Mul K] [Neg K] (rd : P K) : P (Dom K) := do
  let t ← next
  let pf := parsePF rd
  let dom := parseDom rd
  match t with
  | "interval" => do let v ← next; let a ← pf; let b ← pf; pure (.interval v a b)
  | "par" => do let v ← next; let o ← pf; let a ← pf; let b ← pf; pure (.par v o a b)
  | "tri" => do let v ← next; let o ← pf; let a ← pf; let b ← pf; pure (.tri v o a b)
  | "circle" => do let v ← next; let c ← pf; let r ← pf; pure (.circle v c r)
  | "sphere" => do let v ← next; let c ← pf; let r ← pf; pure (.sphere v c r)
  | "union" => do let a ← dom; let b ← dom; pure (.union a b)
  | "cut" => do let a ← dom; let b ← dom; pure (.cut a b)
  | "inter" => do let a ← dom; let b ← dom; pure (.inter a b)
  | "prod" => do let a ← dom; let b ← dom; pure (.prod a b)
  | "translate" => do let v ← next; let d ← dom; let t ← pf; pure (.translate v d t)
  | "rotate" => do let v ← next; let d ← dom; let m ← pf; let c ← pf; pure (.rotate v d m c)
  | "bdry" => do let d ← dom; pure (.bdry d)
  | "bdryL" => do let d ← dom; pure (.bdryL d)
  | "bdryR" => do let d ← dom; pure (.bdryR d)
  | _ => throw s!"dom:{t}"

def parseEnv {K} (rd : P K) : P (Env K) :=
  many (do let n ← next; let xs ← many rd; pure (n, xs))

/-- `Rat → Float` for the Float drivers -/
def ratToFloat (r : Rat) : Float := Float.ofInt r.num / Float.ofNat r.den

def floatFromRat : P Float := do pure (ratToFloat (← rat))

end TPV.Geom
