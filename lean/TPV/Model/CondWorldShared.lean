/-
  C14 — worlds in which several conditions share one SAMPLER OBJECT (static or not).  Import-free.

  `CondWorld.lean` gives every condition its own sampler.  Here samplers are objects of the world
  (`mkSampler sid static interval`), a condition is constructed WITH a sampler id, and every
  `sample_points()` call of any condition acts on that shared object (sampler_base.py:
  `StaticSampler.sample_points`: `counter += 1`; a non-empty cached set is returned while
  `counter < resample_interval`, otherwise the counter is reset and a fresh set is drawn and cached;
  a plain sampler draws a fresh set on every call).  As in `CondWorld.lean` the set the underlying
  sampler WOULD draw is an input of each operation (`fresh`).

  Sharing a static sampler is sharing its cached points — by design of the library.  What isolation
  means here is stated in Props/C14Shared.lean: (1) all conditions on one never-resampling static
  sampler see the same points, (2) every condition returns exactly the losses it returns ALONE when
  its own private sampler hands it the points it was given in company (`replay`), (3) the user
  dicts stay untouched.  Every transition records the points it used (`Rec.used`).
-/
import TPV.Model.CondWorld

namespace TPV.Cond
open TPV.CondExpr

/-- `counter < resample_interval` (`none` = `math.inf`) -/
def ltIv (c : Nat) : Option Nat → Bool
  | none => true
  | some k => decide (c < k)

/-- a sampler object: a plain sampler (`static = false`) or a `StaticSampler` around one -/
structure SamplerSt (K : Type) where
  static : Bool
  interval : Option Nat
  counter : Nat
  cache : Option (List (List K))

/-- `sampler.sample_points()`: the points returned, whether the underlying sampler was asked, the new state -/
def SamplerSt.draw {K : Type} (s : SamplerSt K) (fresh : List (List K)) : List (List K) × Bool × SamplerSt K :=
  if s.static then
    let c := s.counter + 1
    match s.cache with
    | some pts =>
      if !pts.isEmpty && ltIv c s.interval then (pts, false, { s with counter := c })
      else (fresh, true, { s with counter := 0, cache := some fresh })
    | none => (fresh, true, { s with counter := 0, cache := some fresh })
  else (fresh, true, s)

/-- a constructed condition: its own data-function dict (`spec.dataFns`), the sampler OBJECT it uses -/
structure CondS (K : Type) where
  spec : SMCond K
  dictRef : Nat
  space : SpaceL
  sid : Nat

structure WorldS (K : Type) where
  dicts : List (UDict K)
  samplers : Nat → Option (SamplerSt K)
  conds : Nat → Option (CondS K)

inductive OpS (K : Type) where
  | mkSampler (sid : Nat) (static : Bool) (interval : Option Nat)
  | construct (cid dictRef : Nat) (spec : SMCond K) (space : SpaceL) (sid : Nat) (fresh : List (List K))
  | eval (cid : Nat) (fresh : List (List K))

/-- the condition an operation belongs to (`none` for sampler creation) -/
def OpS.cid? {K : Type} : OpS K → Option Nat
  | .mkSampler .. => none
  | .construct c .. => some c
  | .eval c _ => some c

/-- what an operation did: its output and the point set it took from its sampler (if it took one) -/
structure Rec (K : Type) where
  cid : Option Nat
  out : Out K
  used : Option (List (List K))

section
variable {K : Type} [Add K] [Sub K] [Mul K] [Neg K] [Div K] [OfNat K 0] [NatCast K] [LT K] [DecidableLT K]

def setSampler (w : WorldS K) (sid : Nat) (s : SamplerSt K) : WorldS K :=
  { w with samplers := fun j => if j = sid then some s else w.samplers j }

def setCondS (w : WorldS K) (cid : Nat) (c : CondS K) : WorldS K :=
  { w with conds := fun j => if j = cid then some c else w.conds j }

def stepS (w : WorldS K) : OpS K → WorldS K × Rec K
  | .mkSampler sid static interval =>
    (setSampler w sid { static := static, interval := interval, counter := 0, cache := none }, ⟨none, .constructed, none⟩)
  | .construct cid dictRef spec space sid fresh =>
    match w.dicts[dictRef]?, w.samplers sid with
    | some d, some s =>
      -- `_setup_data_functions`: pre-evaluation only for a static sampler that never resamples, and the
      -- sampler is only asked for points when there is something to pre-evaluate
      let pre := shouldPreEval s.static s.interval
      if pre && !d.isEmpty then
        let r := s.draw fresh
        match setupEntries space true r.1 d with
        -- the sampler HAS been asked (and a static one has cached the set) before the pre-evaluation fails
        | .error e => (setSampler w sid r.2.2, ⟨some cid, .failed e, some r.1⟩)
        | .ok own =>
          (setCondS (setSampler w sid r.2.2) cid ⟨{ spec with dataFns := own }, dictRef, space, sid⟩,
            ⟨some cid, .constructed, some r.1⟩)
      else
        match setupEntries space false [] d with
        | .error e => (w, ⟨some cid, .failed e, none⟩)
        | .ok own =>
          (setCondS w cid ⟨{ spec with dataFns := own }, dictRef, space, sid⟩, ⟨some cid, .constructed, none⟩)
    | _, _ => (w, ⟨some cid, .failed .user, none⟩)
  | .eval cid fresh =>
    match w.conds cid with
    | none => (w, ⟨some cid, .noSuchCondition, none⟩)
    | some c =>
      match w.samplers c.sid with
      | none => (w, ⟨some cid, .failed .user, none⟩)
      | some s =>
        let r := s.draw fresh
        let w' := setSampler w c.sid r.2.2
        match smLoss c.spec c.space r.1 with
        | .ok l => (w', ⟨some cid, .loss l, some r.1⟩)
        | .error e => (w', ⟨some cid, .failed e, some r.1⟩)

def runS : WorldS K → List (OpS K) → WorldS K × List (Rec K)
  | w, [] => (w, [])
  | w, op :: ops =>
    let r := stepS w op
    let rest := runS r.1 ops
    (rest.1, r.2 :: rest.2)

def WorldS.init (dicts : List (UDict K)) : WorldS K :=
  { dicts := dicts, samplers := fun _ => none, conds := fun _ => none }

/-- the outputs of condition `cid` -/
def outsOfS (cid : Nat) (recs : List (Rec K)) : List (Out K) :=
  (recs.filter fun r => r.cid == some cid).map (·.out)

/-- the condition's own operations replayed in the world of `CondWorld.lean` (a PRIVATE sampler per
    condition): the private sampler is static exactly when the shared one pre-evaluates (static and never
    resampling), and it is handed the point set the operation used in company (an operation that took no
    points keeps its own `fresh`; it does not draw in the private world either) -/
def replay (cid : Nat) (samplerOf : Nat → Option (Bool × Option Nat)) :
    List (OpS K) → List (Rec K) → List (Op K)
  | op :: ops, r :: recs =>
    let rest := replay cid samplerOf ops recs
    match op with
    | .mkSampler .. => rest
    | .construct c dictRef spec space sid fresh =>
      if c = cid then
        let st := match samplerOf sid with
          | some (static, interval) => shouldPreEval static interval
          | none => false
        Op.construct c dictRef spec space st (r.used.getD fresh) :: rest
      else rest
    | .eval c fresh => if c = cid then Op.eval c (r.used.getD fresh) :: rest else rest
  | _, _ => []

/-- static flag and interval every sampler id is created with in a history (first creation wins) -/
def samplerDecl : List (OpS K) → Nat → Option (Bool × Option Nat)
  | [], _ => none
  | .mkSampler sid static interval :: ops, j =>
    if j = sid then some (static, interval) else samplerDecl ops j
  | _ :: ops, j => samplerDecl ops j

end

end TPV.Cond
