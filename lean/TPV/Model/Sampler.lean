/-
  C02 — row book-keeping of domains and samplers (import-free, executable).

  Mirrors  src/torchphysics/problem/samplers/{sampler_base,random_samplers,grid_samplers,data_samplers}.py
  and the row handling of problem/domains/domain.py (`_repeat_params`, `len_of_params`) and
  domainoperations/{union,cut,intersection,sampler_helper,product,translate,rotate}.py.

  What is modelled is WHICH rows come out and WHAT they were made for, not coordinates:
  a row is a list of cells in column order; a cell of a sampled variable remembers the parameter
  row it was generated for (`gen`), so "the point belongs to the parameter row it is joined with"
  is the decidable predicate `Row.paired`.  The harness makes `gen` observable on the real code with
  tagging domains (the location of the domain encodes the parameter values).
-/
namespace TPV.Sampler

abbrev Var := String

mutual
/-- one row of a `Points` object, cells in column (variable) order -/
inductive Row where
  /-- the row of `Points.empty()` -/
  | nil : Row
  /-- external parameter row number `i` over the variables `vs` (copied, never changed) -/
  | ext (i : Nat) (vs : List Var) : Row
  /-- the columns of one sampled point, joined in front of `rest` -/
  | cons (p : Pt) (rest : Row) : Row
/-- the columns of one variable of a sampled point -/
inductive Pt where
  /-- point number `j` that primitive domain `leaf` produced in variable `v` for the parameter row `gen` -/
  | prim (v : Var) (leaf j : Nat) (gen : Row) : Pt
  /-- stored datum number `j` of data sampler `id` (not generated for any parameter row) -/
  | datum (v : Var) (id j : Nat) : Pt
  /-- marker in front of the cells of a moved point: the following cells of the variables `vs` were moved by
      motion `id` (Translate / Rotate) evaluated at the parameter row `gen`.  The cells themselves stay the cells of
      the UNMOVED point: a moved point belongs to the moved domain iff its pre-image belongs to the inner domain
      (checked on the real code for a Translate of a dependent ProductDomain), so "the first factor was evaluated at
      the partner point" refers to the unmoved partner point.  A marker occupies no column. -/
  | marker (id : Nat) (vs : List Var) (gen : Row) : Pt
end

deriving instance DecidableEq for Row, Pt
deriving instance Repr for Row, Pt
instance : Inhabited Row := ⟨.nil⟩

mutual
/-- the variables of a row in column order (the ordered space of the `Points` object) -/
def Row.vars : Row → List Var
  | .nil => []
  | .ext _ vs => vs
  | .cons p r => p.cols ++ r.vars
/-- the columns (variables) a cell occupies -/
def Pt.cols : Pt → List Var
  | .prim v _ _ _ => [v]
  | .datum v _ _ => [v]
  | .marker _ _ _ => []
end

/-- the sampled cells of a row -/
def Row.cells : Row → List Pt
  | .cons p r => p :: r.cells
  | _ => []

/-- the external parameter row a row ends in -/
def Row.base : Row → Row
  | .cons _ r => r.base
  | r => r

/-- `g ⊑ ctx`: every column of the parameter row `g` is a column of `ctx` (a point made for `g` is a
    point made for `ctx`; a point made without parameters (`g = nil`) fits every row, the domain did not
    need any) -/
def Row.sub (g ctx : Row) : Bool :=
  g.cells.all (fun c => ctx.cells.contains c) && (g.base == .nil || g.base == ctx.base)

mutual
/-- every sampled cell of the row was generated for (a part of) the row it is joined with -/
def Row.paired : Row → Bool
  | .nil => true
  | .ext _ _ => true
  | .cons p r => p.pairedTo r && r.paired
def Pt.pairedTo (ctx : Row) : Pt → Bool
  | .prim _ _ _ g => g.sub ctx
  | .datum _ _ _ => true
  | .marker _ _ g => g.sub ctx
end

/-- a sampled point of a domain = its cells in the order of the domain's space -/
abbrev Point := List Pt

/-- `points.join(params)` for one row -/
def joinPt (cells : Point) (ρ : Row) : Row := cells.foldr Row.cons ρ

/-- the variables a cell belongs to -/
def Pt.tagVars : Pt → List Var
  | .prim v _ _ _ => [v]
  | .datum v _ _ => [v]
  | .marker _ vs _ => vs

/-- the cell belongs to the sampled points, not to the parameter columns `pv` -/
def Pt.isOwn (pv : List Var) (p : Pt) : Bool := p.tagVars.all (· ∉ pv)

/-- the cells of a row that do not belong to the parameter variables `pv` -/
def Row.own (pv : List Var) : Row → Point
  | .cons p r => if p.isOwn pv then p :: r.own pv else r.own pv
  | _ => []

/-- the row without the cells `Row.own` takes -/
def Row.rest (pv : List Var) : Row → Row
  | .cons p r => if p.isOwn pv then r.rest pv else .cons p (r.rest pv)
  | r => r

/-- no cell of the row is an own cell (a parameter row over the variables `pv`) -/
def Row.pure (pv : List Var) : Row → Bool
  | .cons p r => !p.isOwn pv && r.pure pv
  | _ => true

/-- own cells first, then a pure parameter row -/
def Row.sorted (pv : List Var) : Row → Bool
  | .cons p r => if p.isOwn pv then r.sorted pv else (Row.cons p r).pure pv
  | _ => true

/-- the variables of a parameter batch (`params.space`; empty for `Points.empty()`) -/
def paramVars : List Row → List Var
  | [] => []
  | ρ :: _ => ρ.vars

/-- the rows a per-row loop visits: `for i in range(max(1, len(params)))` with
    `ith = params[i,] if len(params) > 0 else Points.empty()` -/
def rowsOr1 (ps : List Row) : List Row := if ps.isEmpty then [Row.nil] else ps

/-- `_repeat_params(params, n)` = `torch.repeat_interleave(params, n, dim=0)` -/
def repeatParams (ps : List Row) (n : Nat) : List Row := ps.flatMap (List.replicate n)

/-- `points.repeat(k)`: the whole block `k` times -/
def tile {α} (k : Nat) (l : List α) : List α := (List.replicate k l).flatten

inductive Err where
  | shape          -- tensors of different row counts are joined / added
  | noValid        -- filter loop gave up (20 rounds without a valid point)
  | notImplemented -- e.g. grid sampling of a ProductDomain
  deriving DecidableEq, Repr

/-- `points.join(repeated_params)`: an empty parameter batch is the unit, otherwise the row counts
    must agree -/
def joinRows (pts : List Point) (reps : List Row) : Except Err (List Row) :=
  if reps.isEmpty then .ok (pts.map (joinPt · .nil))
  else if pts.length = reps.length then .ok (List.zipWith joinPt pts reps)
  else .error .shape

/-! ## domains -/

/-- domain expressions, as far as rows are concerned -/
inductive Dom where
  /-- a primitive in variable `v` whose parameters are functions of the variables `deps`
      (vectorised over the parameter rows: `rand((len_of_params, n, dim))`) -/
  | prim (v : Var) (id : Nat) (deps : List Var)
  /-- union / cut / intersection and their boundaries: every returned point is a point that `a` or
      `b` produced for the same parameter row (which one: oracle) -/
  | bool (a b : Dom)
  /-- `ProductDomain(a, b)` (a may depend on the variables of b) -/
  | prod (a b : Dom)
  /-- `Translate` / `Rotate` with a motion that is a function of `deps` -/
  | move (d : Dom) (id : Nat) (deps : List Var)
  deriving DecidableEq, Repr

def Dom.vars : Dom → List Var
  | .prim v _ _ => [v]
  | .bool a _ => a.vars
  | .prod a b => a.vars ++ b.vars
  | .move d _ _ => d.vars

/-- `necessary_variables` -/
def Dom.deps : Dom → List Var
  | .prim _ _ ds => ds
  | .bool a b => a.deps ++ b.deps
  | .prod a b => (a.deps.filter (· ∉ b.vars)) ++ b.deps
  | .move d _ ds => ds ++ d.deps

/-- `ProductDomain.sample_grid` raises NotImplementedError -/
def Dom.gridOk : Dom → Bool
  | .prim _ _ _ => true
  | .bool a b => a.gridOk && b.gridOk
  | .prod _ _ => false
  | .move d _ _ => d.gridOk

/-- `choose idx pa pb`: row-wise choice between two equally long samples -/
def chooseRows (o : Nat → Bool) (a b : List Point) : List Point :=
  (List.zipWith (fun (pa : Point) (pb : Point) => (pa, pb)) a b).zipIdx.map
    fun (x : (Point × Point) × Nat) => if o x.2 then x.1.1 else x.1.2

/-- `D.sample_random_uniform(n, params)` / `D.sample_grid(n, params)` with `n ≥ 1`:
    the points, parameter-row-major.  `o` decides which operand a Boolean node takes a point from. -/
def Dom.sample (o : Nat → Bool) : Dom → Nat → List Row → List Point
  | .prim v id _, n, ps =>
      (rowsOr1 ps).flatMap fun ρ => (List.range n).map fun j => [Pt.prim v id j ρ]
  | .bool a b, n, ps => chooseRows o (a.sample o n ps) (b.sample o n ps)
  | .prod a b, n, ps =>
      -- n_, new_params = self._repeat_params(n, params)   (1, repeated) or (n, empty)
      let reps := repeatParams ps n
      let bpts := if ps.isEmpty then b.sample o n [] else b.sample o 1 reps
      -- the parameter rows of a: new_params joined with the b points (read by name; the model keeps
      -- the canonical column order "points before parameters")
      let aps := if ps.isEmpty then bpts.map (joinPt · .nil) else List.zipWith joinPt bpts reps
      let apts := a.sample o 1 aps
      List.zipWith (· ++ ·) apts bpts
  | .move d id _, n, ps =>
      let pts := d.sample o n ps
      -- n = len(original_points) // max(len(params), 1); _repeat_params(n, params)
      let m := pts.length / max ps.length 1
      let reps := if ps.isEmpty then List.replicate pts.length Row.nil else repeatParams ps m
      List.zipWith (fun (p : Point) ρ => Pt.marker id d.vars ρ :: p) pts reps

/-- as `Translate/Rotate.sample_random_uniform` were coded in the pinned snapshot:
    `n = int(len(points) / (k+1))`, parameters repeated `n+1` times ("round up n") -/
def moveSampleOld (o : Nat → Bool) (d : Dom) (id : Nat) (n : Nat) (ps : List Row) : Except Err (List Point) :=
  let pts := d.sample o n ps
  let m := pts.length / (ps.length + 1)
  let reps := repeatParams ps (m + 1)
  if ps.isEmpty then .ok (pts.map fun p => Pt.marker id d.vars .nil :: p)
  else if reps.length = pts.length then .ok (List.zipWith (fun (p : Point) ρ => Pt.marker id d.vars ρ :: p) pts reps)
  else .error .shape

/-- the `n = 1` path of cut / intersection in the pinned snapshot: `zeros((len(params), dim))` -/
def boolSampleN1Old (o : Nat → Bool) (a b : Dom) (ps : List Row) : List Point :=
  (chooseRows o (a.sample o 1 ps) (b.sample o 1 ps)).take ps.length

/-! ## samplers -/

inductive LeafKind where
  | uniform | grid | gaussian | lhs | expInterval
  deriving DecidableEq, Repr

/-- sampler expressions with a given number of points -/
inductive S where
  /-- RandomUniformSampler / GridSampler / GaussianSampler / LHSSampler / ExponentialIntervalSampler
      with `n_points = n`; `filt` = a `filter_fn` is set -/
  | leaf (kind : LeafKind) (d : Dom) (n : Nat) (filt : Bool)
  /-- DataSampler with `m` stored rows of variable `v` -/
  | data (v : Var) (id m : Nat)
  | prod (a b : S)
  | sum (a b : S)
  | append (a b : S)
  /-- StaticSampler, first call -/
  | static (s : S)
  deriving DecidableEq, Repr

/-- outside choices: operand choice of Boolean nodes, verdicts of filters / membership tests
    (`acc round index`), number of rounds a rejection loop is allowed -/
structure Oracle where
  choose : Nat → Bool
  acc : Nat → Nat → Bool
  fuel : Nat

/-- keep the elements whose index is accepted -/
def filterIdx {α} (f : Nat → Bool) (l : List α) : List α :=
  (l.zipIdx.filter fun x => f x.2).map (·.1)

/-- `while found < n: new = filter(propose()); found += len(new); have |= new` then `have[:n]`
    (`_sample_n_points_with_filter`, `GaussianSampler._sample_points`) -/
def accumLoop {α} (n : Nat) (prop : Nat → List α) (acc : Nat → Nat → Bool) :
    Nat → Nat → List α → Option (List α)
  | 0, _, _ => none
  | fuel + 1, r, have_ =>
    let have' := have_ ++ filterIdx (acc r) (prop r)
    if n ≤ have'.length then some (have'.take n) else accumLoop n prop acc fuel (r + 1) have'

/-- does the domain depend on the given parameters
    (`any(var in domain.necessary_variables for var in params.space.keys())`) -/
def dependent (d : Dom) (ps : List Row) : Bool := (paramVars ps).any (· ∈ d.deps)

/-- `params[i,]` as a batch, or `Points.empty()` -/
def single (ρ : Row) : List Row := if ρ = Row.nil then [] else [ρ]

/-- `_sample_for_ith_param`: sample for one row and join with that row repeated -/
def forRow (o : Oracle) (d : Dom) (n : Nat) (ρ : Row) : List Row :=
  (d.sample o.choose n (single ρ)).map (joinPt · ρ)

/-- a loop over the parameter rows whose body can fail; the results are concatenated (`|`) -/
def perRow (f : Row → Except Err (List Row)) : List Row → Except Err (List Row)
  | [] => .ok []
  | ρ :: rs => do
    let r ← f ρ
    let rest ← perRow f rs
    pure (r ++ rest)

/-- LHSSampler for one row: the stratified proposals that are inside, topped up with random points -/
def lhsRow (o : Oracle) (d : Dom) (n : Nat) (ρ : Row) : List Row :=
  let kept := filterIdx (o.acc 0) (forRow o d n ρ)
  if kept.length = n then kept else kept ++ forRow o d (n - kept.length) ρ

/-- the rescaled grid size of `GridSampler._resample_grid` -/
def scaledN (n got : Nat) : Nat := if got = 0 then 10 * n else n * n / got

/-- the per-row loop of `_sample_n_points_with_filter` -/
def filterLoopRow (o : Oracle) (d : Dom) (n : Nat) (ρ : Row) : Except Err (List Row) :=
  match accumLoop n (fun _ => forRow o d n ρ) o.acc o.fuel 0 [] with
  | some r => .ok r
  | none => .error .noValid

/-- GridSampler with a filter, one row: filtered grid; if it does not have exactly n points a rescaled
    filtered grid; if that does not fit either, n filtered random points are appended; cut to n -/
def gridFilterRow (o : Oracle) (d : Dom) (n : Nat) (ρ : Row) : Except Err (List Row) :=
  let g1 := filterIdx (o.acc 0) (forRow o d n ρ)
  if g1.length = n then .ok g1
  else
    let g2 := filterIdx (o.acc 1) (forRow o d (scaledN n g1.length) ρ)
    if g2.length = n then .ok g2
    else match accumLoop n (fun _ => forRow o d n ρ) (fun r => o.acc (r + 2)) o.fuel 0 [] with
      | some r => .ok ((g2 ++ r).take n)
      | none => .error .noValid

def leafSample (o : Oracle) (kind : LeafKind) (d : Dom) (n : Nat) (filt : Bool) (ps : List Row) :
    Except Err (List Row) :=
  match kind, filt with
  | .uniform, false =>
      -- rand_points.join(self._repeat_params(params, len(self)))
      joinRows (d.sample o.choose n ps) (repeatParams ps n)
  | .uniform, true => perRow (filterLoopRow o d n) (rowsOr1 ps)
  | .gaussian, _ => perRow (filterLoopRow o d n) (rowsOr1 ps)
  | .lhs, _ => .ok ((rowsOr1 ps).flatMap (lhsRow o d n))
  | k, false =>   -- grid, expInterval
      if k = .grid && !d.gridOk then .error .notImplemented
      else if dependent d ps then
        -- _sample_params_dependent: one call per parameter row
        .ok ((rowsOr1 ps).flatMap (forRow o d n))
      else
        -- _sample_params_independent: sample once, copy for every parameter row
        let pts := d.sample o.choose n []
        joinRows (tile (max 1 ps.length) pts) (repeatParams ps pts.length)
  | _, true =>    -- GridSampler with a filter
      if !d.gridOk then .error .notImplemented else perRow (gridFilterRow o d n) (rowsOr1 ps)

/-- `DataSampler.sample_points` -/
def dataSample (v : Var) (id m : Nat) (ps : List Row) : Except Err (List Row) :=
  let stored : List Point := (List.range m).map fun j => [Pt.datum v id j]
  if ps.isEmpty then .ok (stored.map (joinPt · .nil))
  else joinRows (tile ps.length stored) (repeatParams ps m)

/-- `AppendSampler`: column stack of two equally long samples, parameter columns kept once -/
def appendRows (pv : List Var) (ra rb : List Row) : Except Err (List Row) :=
  if ra.length = rb.length then
    .ok (List.zipWith (fun a b => joinPt (a.own pv ++ b.own pv) (a.rest pv)) ra rb)
  else .error .shape

def S.sample (o : Oracle) : S → List Row → Except Err (List Row)
  | .leaf kind d n filt, ps => leafSample o kind d n filt ps
  | .data v id m, ps => dataSample v id m ps
  | .prod a b, ps => do
      let rb ← b.sample o ps
      a.sample o rb
  | .sum a b, ps => do
      let ra ← a.sample o ps
      let rb ← b.sample o ps
      pure (ra ++ rb)
  | .append a b, ps => do
      let ra ← a.sample o ps
      let rb ← b.sample o ps
      appendRows (paramVars ps) ra rb
  | .static s, ps => s.sample o ps

/-- `len(sampler)` before any call (`length is None`, `n_points` given) -/
def S.len : S → Nat
  | .leaf _ _ n _ => n
  | .data _ _ m => m
  | .prod a b => a.len * b.len
  | .sum a b => a.len + b.len
  | .append a _ => a.len
  | .static s => s.len

/-- the variables a sampler adds in front of the parameters -/
def S.vars : S → List Var
  | .leaf _ d _ _ => d.vars
  | .data v _ _ => [v]
  | .prod a b => a.vars ++ b.vars
  | .sum a _ => a.vars
  | .append a b => a.vars ++ b.vars
  | .static s => s.vars

/-! ## call histories of a StaticSampler (the trace itself is C15's subject; here: which sample is handed out) -/

/-- one call of `StaticSampler.sample_points`: `counter += 1`; the saved points are handed out while
    `created_points and counter < resample_interval`, otherwise `counter = 0` and `fresh` (what the wrapped
    sampler returns for the parameters of THIS call) is saved and returned.  `interval = none` is `math.inf`. -/
def keepSaved (interval : Option Nat) (c : Nat) (pts : List Row) : Bool :=
  !pts.isEmpty && (match interval with | none => true | some r => decide (c < r))

def staticStep (interval : Option Nat) (st : Nat × Option (List Row)) (fresh : List Row) :
    List Row × (Nat × Option (List Row)) :=
  match st.2 with
  | some pts => if keepSaved interval (st.1 + 1) pts then (pts, (st.1 + 1, some pts)) else (fresh, (0, some fresh))
  | none => (fresh, (0, some fresh))

/-- the outputs of a history of calls; `freshs[t]` is what the wrapped sampler would return in call `t` -/
def staticRun (interval : Option Nat) : (Nat × Option (List Row)) → List (List Row) → List (List Row)
  | _, [] => []
  | st, f :: fs => let r := staticStep interval st f; r.1 :: staticRun interval r.2 fs

/-! ## the dependent ProductDomain of the pinned snapshot (kept for the negative result) -/

/-- `_sample_uniform_b_points(n_in, params)`: `n_in` points of b for every parameter row, thinned by the
    volume-ratio rejection (verdicts: oracle) unless there is a single row -/
def depBatchOld (o : Oracle) (b : Dom) (round nIn : Nat) (ps : List Row) : List (Point × Row) :=
  let reps := if ps.isEmpty then List.replicate nIn Row.nil else repeatParams ps nIn
  let pts := if ps.isEmpty then b.sample o.choose nIn [] else b.sample o.choose 1 (repeatParams ps nIn)
  let rows := List.zip pts reps
  if rows.length = 1 then rows else filterIdx (o.acc round) rows

/-- the loop of `ProductDomain.sample_random_uniform` as it was: the number of kept points is compared with
    `n` for all parameter rows together (`while n_points != n`) -/
def depLoopOld (o : Oracle) (b : Dom) (n : Nat) (ps : List Row) : Nat → Nat → List (Point × Row) → Option (List (Point × Row))
  | 0, _, _ => none
  | fuel + 1, r, have_ =>
    if have_.length = n then some have_
    else if have_.length < n then
      if have_.length = 0 then none     -- ZeroDivisionError in `n / n_points`
      else depLoopOld o b n ps fuel (r + 1) (have_ ++ depBatchOld o b (r + 1) (n * (n - have_.length) / have_.length + 1) ps)
    else some (have_.take n)

/-- the (b point, parameter row) pairs the pinned dependent ProductDomain went on with -/
def depBPointsOld (o : Oracle) (b : Dom) (n : Nat) (ps : List Row) : Option (List (Point × Row)) :=
  depLoopOld o b n ps o.fuel 0 (depBatchOld o b 0 n ps)

/-! ## adaptive rejection samplers (the keep/replace rule itself is C15's subject; here: which rows come out)

  `AdaptiveThresholdRejectionSampler` / `AdaptiveRandomRejectionSampler.sample_points(unreduced_loss, params)`:
  `new_points = self.random_sampler.sample_points(params)` (a RandomUniformSampler with the same n and filter);
  the first call (or a call without loss) hands out `new_points`; later calls overwrite IN PLACE the rows of the
  last point set whose loss is below the threshold by the rows of `new_points` AT THE SAME POSITION. -/

/-- `last._t[mask, :] = new._t[mask, :]` -/
def adaptiveStep (mask : Nat → Bool) (last fresh : List Row) : List Row :=
  (List.zipWith (fun (l : Row) (f : Row) => (l, f)) last fresh).zipIdx.map
    fun (x : (Row × Row) × Nat) => if mask x.2 then x.1.2 else x.1.1

/-- the outputs of a history of calls: `freshs[t]` = what the inner random sampler returns in call t,
    `masks[t]` = which rows the loss of call t marks for replacement (`none` = no loss given) -/
def adaptiveRun : Option (List Row) → List (Option (Nat → Bool) × List Row) → List (List Row)
  | _, [] => []
  | none, (_, f) :: rest => f :: adaptiveRun (some f) rest
  | some last, (none, f) :: rest => f :: adaptiveRun (some f) rest
  | some last, (some m, f) :: rest => adaptiveStep m last f :: adaptiveRun (some (adaptiveStep m last f)) rest

/-- the round-d seeded variant: kept rows first, replaced rows behind them (`last[keep] | new[replace]`) -/
def adaptiveStepOutOfPlace (mask : Nat → Bool) (last fresh : List Row) : List Row :=
  filterIdx (fun i => !mask i) last ++ filterIdx mask fresh

end TPV.Sampler
