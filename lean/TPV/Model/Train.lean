/-
  C07 / C19 — the training loop of `torchphysics.solver.Solver` under pytorch-lightning, the plain
  reference loop of the property text, trainer-state checkpoints / resume, and the weight-save
  callback.  Import-free and executable.

  Mirrors  src/torchphysics/solver.py  (Solver.__init__, on_train_start, training_step,
  validation_step, configure_optimizers),  problem/conditions/condition.py  (register_parameter
  (name+"_params"), module / adaptive-layer children),  models/model.py (AdaptiveWeightLayer.GradReverse)
  and  utils/callbacks.py (WeightSaveCallback, TrainerStateCheckpoint).

  What is a parameter of the model (trusted, exercised by the correspondence): the loss / autograd
  gradient of a condition as functions of (iteration argument, number of earlier calls of that condition
  object, learnable state), the optimizer + LR-scheduler update rule, Lightning's hook order.
-/
namespace TPV.Train

/-! ## Part 1 — generic loop (any scalar type, any losses, any optimizer) -/

section Generic
variable {K σ : Type}

/-- `.grad` of one tensor: `none` = no gradient path reached it (torch leaves `.grad = None` and the
    optimizers skip such tensors entirely), accumulation adds -/
def oadd [Add K] : Option K → Option K → Option K
  | none, b => b
  | a, none => a
  | some a, some b => some (a + b)

/-- gradient accumulation of autograd: entry-wise -/
def vadd [Add K] (a b : List (Option K)) : List (Option K) := List.zipWith oadd a b

/-- `weight * grad` -/
def smul [Mul K] (w : K) (v : List (Option K)) : List (Option K) := v.map (Option.map (w * ·))

/-- A condition object as the solver sees it.  `loss it n θ` is the value of
    `condition(device, iteration=it)` at its `n`-th call (sampler / data-iterator position) when the
    learnable tensors handed to the optimizer hold `θ`; `grad` is what autograd returns for it
    (entry per optimizer slot, gradient reversal of adaptive weights included). -/
structure Cond (K : Type) where
  weight : K
  loss : Option Nat → Nat → List K → K
  grad : Option Nat → Nat → List K → List (Option K)
  track : Bool

/-- A training set-up: the two `ModuleList`s of the Solver, the number of optimizer slots and the
    optimizer together with its LR scheduler as one deterministic update
    `opt state grad params = (state', params')`. -/
structure Cfg (K σ : Type) where
  train : List (Cond K)
  val : List (Cond K)
  dim : Nat
  opt : σ → List (Option K) → List K → σ × List K

/-- Everything that exists while `trainer.fit` runs. -/
structure St (K σ : Type) where
  θ : List K                 -- learnable tensors (optimizer slots, flattened)
  opt : σ                    -- optimizer + scheduler state
  gstep : Nat                -- trainer.global_step (= batch index of the next training batch)
  nIter : Nat                -- Solver.n_training_step
  calls : List Nat           -- per training-condition object: how often it has been called
  vcalls : List Nat          -- per validation-condition object
  logged : Option K          -- trainer.logged_metrics["train/loss"]
  vlogged : List K           -- last logged validation losses
  gradOn : Bool              -- torch.is_grad_enabled()

/-- `loss = zeros(1); for c in train_conditions: loss = loss + c.weight * c(iteration=n_training_step)` -/
def totalLoss [Add K] [Mul K] [OfNat K 0] (cs : List (Cond K)) (calls : List Nat) (it : Option Nat)
    (θ : List K) : K :=
  (List.zipWith (fun c n => c.weight * c.loss it n θ) cs calls).foldl (· + ·) 0

/-- what `loss.backward()` leaves in the `.grad` fields: the weighted per-condition gradients,
    accumulated -/
def totalGrad [Add K] [Mul K] [OfNat K 0] (dim : Nat) (cs : List (Cond K)) (calls : List Nat)
    (it : Option Nat) (θ : List K) : List (Option K) :=
  (List.zipWith (fun c n => smul c.weight (c.grad it n θ)) cs calls).foldl vadd (List.replicate dim none)

/-- one Lightning training batch: `training_step` (uses and then increments `n_training_step`),
    backward, optimizer (+ scheduler) step, `global_step += 1` -/
def trainStep [Add K] [Mul K] [OfNat K 0] (cfg : Cfg K σ) (s : St K σ) : St K σ :=
  let it := some s.nIter
  let L := totalLoss cfg.train s.calls it s.θ
  let g := totalGrad cfg.dim cfg.train s.calls it s.θ
  let r := cfg.opt s.opt g s.θ
  { s with θ := r.2, opt := r.1, gstep := s.gstep + 1, nIter := s.nIter + 1,
           calls := s.calls.map (· + 1), logged := some L }

/-- `validation_step`: every validation condition is evaluated with `iteration=None`, the grad mode
    is set per condition (`track_gradients is not False`); no backward, no optimizer. -/
def validationStep (cfg : Cfg K σ) (s : St K σ) : St K σ :=
  { s with vlogged := List.zipWith (fun c n => c.loss none n s.θ) cfg.val s.vcalls,
           vcalls := s.vcalls.map (· + 1),
           gradOn := match cfg.val.getLast? with
                     | some c => c.track
                     | none => s.gradOn }

/-- Lightning's evaluation loop: runs `validation_step` inside a context manager that restores the
    grad mode of the surrounding training loop afterwards -/
def valPass (cfg : Cfg K σ) (s : St K σ) : St K σ :=
  { validationStep cfg s with gradOn := s.gradOn }

/-- `Solver.on_train_start` (after the repair): the iteration counter continues at the trainer's
    global step — 0 for a fresh fit, `k` after resuming a step-`k` checkpoint -/
def onTrainStart (s : St K σ) : St K σ := { s with nIter := s.gstep }

/-- `Solver.on_train_start` as it was: `self.n_training_step = 0` -/
def onTrainStartOld (s : St K σ) : St K σ := { s with nIter := 0 }

/-- `n` training batches; after the batch with index `b` a validation pass runs iff `sched b` -/
def loop [Add K] [Mul K] [OfNat K 0] (cfg : Cfg K σ) (sched : Nat → Bool) : Nat → St K σ → St K σ
  | 0, s => s
  | n + 1, s =>
    let s1 := trainStep cfg s
    loop cfg sched n (if sched s.gstep then valPass cfg s1 else s1)

/-- `trainer.fit(solver)` up to `max_steps = N`: optional sanity validation, `on_train_start`, the loop -/
def solverRun [Add K] [Mul K] [OfNat K 0] (cfg : Cfg K σ) (sched : Nat → Bool) (sanity : Bool)
    (N : Nat) (s : St K σ) : St K σ :=
  loop cfg sched (N - s.gstep) (onTrainStart (if sanity then valPass cfg s else s))

def solverRunOld [Add K] [Mul K] [OfNat K 0] (cfg : Cfg K σ) (sched : Nat → Bool) (sanity : Bool)
    (N : Nat) (s : St K σ) : St K σ :=
  loop cfg sched (N - s.gstep) (onTrainStartOld (if sanity then valPass cfg s else s))

/-- state of freshly built objects: nothing called yet -/
def fresh (cfg : Cfg K σ) (θ : List K) (o : σ) : St K σ :=
  { θ := θ, opt := o, gstep := 0, nIter := 0, calls := cfg.train.map (fun _ => 0),
    vcalls := cfg.val.map (fun _ => 0), logged := none, vlogged := [], gradOn := true }

/-! ### the reference loop of the property text -/

/-- step `j` of the plain loop: every training condition once (its `j`-th evaluation) with the step
    index `j`, weighted sum, one optimizer (+ scheduler) step -/
def refStep [Add K] [Mul K] [OfNat K 0] (cfg : Cfg K σ) (p : List K × σ) (j : Nat) : List K × σ :=
  let g := (cfg.train.map (fun c => smul c.weight (c.grad (some j) j p.1))).foldl vadd
              (List.replicate cfg.dim none)
  let r := cfg.opt p.2 g p.1
  (r.2, r.1)

/-- `for j in range(a, a+n): refStep j` -/
def refLoopFrom [Add K] [Mul K] [OfNat K 0] (cfg : Cfg K σ) : Nat → Nat → List K × σ → List K × σ
  | _, 0, p => p
  | a, n + 1, p => refLoopFrom cfg (a + 1) n (refStep cfg p a)

def refLoop [Add K] [Mul K] [OfNat K 0] (cfg : Cfg K σ) (N : Nat) (p : List K × σ) : List K × σ :=
  refLoopFrom cfg 0 N p

/-! ### trainer-state checkpoint and resume -/

/-- what `trainer.save_checkpoint` keeps of the state: module state dict, optimizer / scheduler
    state, global step.  The Solver's iteration counter and the positions of samplers / data iterators
    inside the condition objects are NOT part of it. -/
structure Ckpt (K σ : Type) where
  θ : List K
  opt : σ
  gstep : Nat

def save (s : St K σ) : Ckpt K σ := { θ := s.θ, opt := s.opt, gstep := s.gstep }

/-- `TrainerStateCheckpoint.on_train_batch_end`: `batch_idx % check_interval == 0` -/
def ckptWritten (interval b : Nat) : Bool := b % interval == 0

/-- `trainer.fit(solver', ckpt_path=…)` with freshly built objects: restore, then the same run -/
def restore (cfg : Cfg K σ) (ck : Ckpt K σ) : St K σ :=
  { fresh cfg ck.θ ck.opt with gstep := ck.gstep }

/-- restoring a checkpoint into objects that already exist (`trainer.fit(solver, ckpt_path=…)` with the Solver,
    condition and callback objects of the interrupted fit): only what the checkpoint holds is overwritten,
    the positions of samplers / data iterators inside the condition objects stay what they are -/
def restoreInto (s : St K σ) (ck : Ckpt K σ) : St K σ := { s with θ := ck.θ, opt := ck.opt, gstep := ck.gstep }

def resume [Add K] [Mul K] [OfNat K 0] (cfg : Cfg K σ) (sched : Nat → Bool) (N : Nat) (ck : Ckpt K σ) :
    St K σ :=
  solverRun cfg sched false N (restore cfg ck)

def resumeOld [Add K] [Mul K] [OfNat K 0] (cfg : Cfg K σ) (sched : Nat → Bool) (N : Nat) (ck : Ckpt K σ) :
    St K σ :=
  solverRunOld cfg sched false N (restore cfg ck)

/-! ### WeightSaveCallback -/

/-- the callback's own state and the files it has written (`min` with the batch index at which it
    was written) -/
structure WS (K : Type) where
  cur : Option K                    -- current_loss, `none` = +inf
  init : Option (List K)
  min : Option (Nat × List K)
  final : Option (List K)

def wsNew : WS K := { cur := none, init := none, min := none, final := none }

/-- `on_train_batch_start(batch_idx = b)`; `interval = 0` stands for every `check_interval <= 0` -/
def wsBatchStart [LT K] [DecidableLT K] (interval b : Nat) (logged : Option K) (θ : List K) (w : WS K) : WS K :=
  if 0 < interval ∧ 0 < b ∧ (b - 1) % interval = 0 then
    match logged with
    | none => w
    | some l =>
      let better := match w.cur with
        | none => true
        | some c => decide (l < c)
      if better then { w with cur := some l, min := some (b, θ) } else w
  else w

/-- training with the callback attached (no validation: it does not touch what the callback reads) -/
def wsLoop [Add K] [Mul K] [OfNat K 0] [LT K] [DecidableLT K] (cfg : Cfg K σ) (interval : Nat) :
    Nat → St K σ × WS K → St K σ × WS K
  | 0, p => p
  | n + 1, (s, w) =>
    wsLoop cfg interval n (trainStep cfg s, wsBatchStart interval s.gstep s.logged s.θ w)

def wsRun [Add K] [Mul K] [OfNat K 0] [LT K] [DecidableLT K] (cfg : Cfg K σ) (interval : Nat)
    (saveInit saveFinal : Bool) (N : Nat) (s : St K σ) : St K σ × WS K :=
  let s0 := onTrainStart s
  let w0 : WS K := { (wsNew : WS K) with init := if saveInit then some s0.θ else none }
  let r := wsLoop cfg interval (N - s.gstep) (s0, w0)
  (r.1, { r.2 with final := if saveFinal then some r.1.θ else none })

end Generic


/-! ## Part 2 — an executable instance: polynomial losses, SGD (+ momentum, weight decay) and StepLR,
    exact rational arithmetic -/

/-- loss terms: polynomials in the learnable scalars (`par id`), the iteration argument and constants;
    `rev a` is `AdaptiveWeightLayer.GradReverse`: the value of `a`, the derivative negated -/
inductive PExp where
  | const (c : Rat)
  | par (id : Nat)
  | iter
  | add (a b : PExp)
  | mul (a b : PExp)
  | neg (a : PExp)
  | rev (a : PExp)

/-- position of a tensor id in the optimizer's parameter list -/
def slotOf : List Nat → Nat → Option Nat
  | [], _ => none
  | r :: rs, id => if r = id then some 0 else (slotOf rs id).map (· + 1)

/-- where values come from: registered ids read the optimizer slot, all others keep their initial value -/
structure Env where
  reg : List Nat
  frozen : List (Nat × Rat)
  θ : List Rat
  it : Rat

def Env.get (e : Env) (id : Nat) : Rat :=
  match slotOf e.reg id with
  | some k => e.θ.getD k 0
  | none => (e.frozen.lookup id).getD 0

namespace PExp

def ids : PExp → List Nat
  | const _ => []
  | par i => [i]
  | iter => []
  | add a b => a.ids ++ b.ids
  | mul a b => a.ids ++ b.ids
  | neg a => a.ids
  | rev a => a.ids

def eval (e : Env) : PExp → Rat
  | const c => c
  | par i => e.get i
  | iter => e.it
  | add a b => a.eval e + b.eval e
  | mul a b => a.eval e * b.eval e
  | neg a => - a.eval e
  | rev a => a.eval e

/-- forward-mode derivative with respect to the tensor `x` (what autograd returns for this graph) -/
def deriv (e : Env) (x : Nat) : PExp → Rat
  | const _ => 0
  | par i => if i = x then 1 else 0
  | iter => 0
  | add a b => a.deriv e x + b.deriv e x
  | mul a b => a.deriv e x * b.eval e + a.eval e * b.deriv e x
  | neg a => - a.deriv e x
  | rev a => - a.deriv e x

end PExp

/-- a condition of the executable instance -/
structure CondSpec where
  weight : Rat
  tensors : List Nat        -- learnable tensors registered under the condition (module parameters,
                            -- `<name>_params`, adaptive layer), in registration order
  losses : List PExp        -- loss at the n-th call is `losses[n % losses.length]` (data-loader batches)
  track : Bool

structure Spec where
  env0 : List (Nat × Rat)   -- every learnable scalar of the set-up with its initial value
  train : List CondSpec
  val : List CondSpec

/-- first occurrences, in order (`nn.Module.parameters()` yields every tensor object once) -/
def uniq : List Nat → List Nat
  | [] => []
  | x :: xs => x :: (uniq xs).filter (· != x)

/-- `Solver.parameters()`: `ModuleList(train) , ModuleList(val)` traversed in order, every tensor once -/
def registry (s : Spec) : List Nat :=
  uniq ((s.train ++ s.val).flatMap (·.tensors))

def CondSpec.lossAt (c : CondSpec) (n : Nat) : PExp :=
  c.losses.getD (n % c.losses.length) (.const 0)

def itVal : Option Nat → Rat
  | some j => (j : Rat)
  | none => 0

def CondSpec.toCond (s : Spec) (c : CondSpec) : Cond Rat :=
  { weight := c.weight
    loss := fun it n θ => (c.lossAt n).eval ⟨registry s, s.env0, θ, itVal it⟩
    grad := fun it n θ => (registry s).map (fun x =>
      if x ∈ (c.lossAt n).ids then some ((c.lossAt n).deriv ⟨registry s, s.env0, θ, itVal it⟩ x) else none)
    track := c.track }

/-- torch.optim.SGD + StepLR driven by Lightning with `interval="step"`, `frequency` -/
structure OptSpec where
  lr : Rat
  momentum : Rat
  dampening : Rat
  wd : Rat
  stepSize : Nat      -- StepLR.step_size; 0 = no scheduler
  gamma : Rat
  freq : Nat          -- scheduler_frequency

structure OptState where
  lr : Rat
  bufs : List (Option Rat)   -- momentum buffer per slot (`none` until the slot is first updated)
  nsteps : Nat               -- optimizer steps taken
  epoch : Nat                -- scheduler.last_epoch

/-- one tensor entry in `SGD.step`: skipped when it has no gradient -/
def sgdSlot (o : OptSpec) (lr : Rat) (g : Option Rat) (t : Rat) (b : Option Rat) : Rat × Option Rat :=
  match g with
  | none => (t, b)
  | some g =>
    let g1 := if o.wd = 0 then g else g + o.wd * t
    if o.momentum = 0 then (t - lr * g1, b)
    else
      let b' := match b with
        | none => g1
        | some b => o.momentum * b + (1 - o.dampening) * g1
      (t - lr * b', some b')

def sgd (o : OptSpec) (st : OptState) (g : List (Option Rat)) (θ : List Rat) : OptState × List Rat :=
  let r := List.zipWith (fun gi tb => sgdSlot o st.lr gi tb.1 tb.2) g (θ.zip st.bufs)
  let n := st.nsteps + 1
  -- Lightning: scheduler.step() after the optimizer step when (batch_idx + 1) % frequency == 0
  let stepSched := o.stepSize ≠ 0 ∧ o.freq ≠ 0 ∧ n % o.freq = 0
  let epoch := if stepSched then st.epoch + 1 else st.epoch
  let lr := if stepSched ∧ epoch % o.stepSize = 0 then st.lr * o.gamma else st.lr
  ({ lr := lr, bufs := r.map (·.2), nsteps := n, epoch := epoch }, r.map (·.1))

def optInit (o : OptSpec) (dim : Nat) : OptState :=
  { lr := o.lr, bufs := List.replicate dim none, nsteps := 0, epoch := 0 }

def Spec.toCfg (s : Spec) (o : OptSpec) : Cfg Rat OptState :=
  { train := s.train.map (CondSpec.toCond s)
    val := s.val.map (CondSpec.toCond s)
    dim := (registry s).length
    opt := sgd o }

def Spec.opt0 (s : Spec) (o : OptSpec) : OptState := optInit o (registry s).length

def Spec.θ0 (s : Spec) : List Rat := (registry s).map (fun id => (s.env0.lookup id).getD 0)

/-- every id that occurs anywhere has an initial value and every condition has at least one loss -/
def Spec.wellFormed (s : Spec) : Bool :=
  (s.train ++ s.val).all (fun c => !c.losses.isEmpty &&
    (c.tensors ++ c.losses.flatMap PExp.ids).all (fun id => (s.env0.lookup id).isSome))

/-- states after 0, 1, …, n training batches -/
def trajectory {K σ : Type} [Add K] [Mul K] [OfNat K 0] (cfg : Cfg K σ) (sched : Nat → Bool) :
    Nat → St K σ → List (St K σ)
  | 0, s => [s]
  | n + 1, s =>
    let s1 := trainStep cfg s
    s :: trajectory cfg sched n (if sched s.gstep then valPass cfg s1 else s1)

end TPV.Train
