/-
  Volumes (C10) of domain expressions — import-free, executable.

  Mirrors `Domain.volume / set_volume / compute_n_from_density` (domain.py), every primitive's and
  boundary's `_get_volume`, the composition rules of union.py / cut.py / intersection.py / product.py,
  `Translate.volume`, `Rotate.volume`, and the point counts of density sampling.

  Conventions (see Geom.lean): one parameter row `ρ` at a time; scalars are any `K` with the core
  notation classes plus `Transc K` (π and √; the class and `norm2` are those of GeomSample.lean); the driver runs `Float`, the proofs `ℝ` / ordered fields.
  Outcomes the model does not turn into a number are explicit (`VErr`), never a default value.
-/
import TPV.Model.GeomSample

namespace TPV.Geom

/-- domain expressions with everything `volume()` looks at: the `disjoint` / `contained`
    declarations of unions and cuts, user-set volumes (`set_volume`), and `Point`. -/
inductive VDom (K : Type) where
  | interval (v : String) (lb ub : PFun K)
  | par (v : String) (o c1 c2 : PFun K)
  | tri (v : String) (o c1 c2 : PFun K)
  | circle (v : String) (c r : PFun K)
  | sphere (v : String) (c r : PFun K)
  | point (v : String) (p : PFun K)
  | union (disjoint : Bool) (a b : VDom K)
  | cut (contained : Bool) (a b : VDom K)
  | inter (a b : VDom K)
  | prod (a b : VDom K)
  | translate (v : String) (d : VDom K) (t : PFun K)
  | rotate (v : String) (d : VDom K) (m c : PFun K)
  | bdry (d : VDom K)
  | bdryL (d : VDom K) | bdryR (d : VDom K)
  | userVol (d : VDom K) (f : PFun K)            -- `d.set_volume(f)`

/-- forget the annotations: the set-level expression of Geom.lean (`Point` has none) -/
def VDom.erase {K} : VDom K → Option (Dom K)
  | .interval v lb ub => some (.interval v lb ub)
  | .par v o c1 c2 => some (.par v o c1 c2)
  | .tri v o c1 c2 => some (.tri v o c1 c2)
  | .circle v c r => some (.circle v c r)
  | .sphere v c r => some (.sphere v c r)
  | .point _ _ => none
  | .union _ a b => do pure (.union (← a.erase) (← b.erase))
  | .cut _ a b => do pure (.cut (← a.erase) (← b.erase))
  | .inter a b => do pure (.inter (← a.erase) (← b.erase))
  | .prod a b => do pure (.prod (← a.erase) (← b.erase))
  | .translate v d t => do pure (.translate v (← d.erase) t)
  | .rotate v d m c => do pure (.rotate v (← d.erase) m c)
  | .bdry d => do pure (.bdry (← d.erase))
  | .bdryL d => do pure (.bdryL (← d.erase))
  | .bdryR d => do pure (.bdryR (← d.erase))
  | .userVol d _ => d.erase

def VDom.vars {K} : VDom K → List String
  | .interval v _ _ | .par v _ _ _ | .tri v _ _ _ | .circle v _ _ | .sphere v _ _ | .point v _ => [v]
  | .union _ a _ | .cut _ a _ | .inter a _ => a.vars
  | .prod a b => a.vars ++ b.vars
  | .translate _ d _ | .rotate _ d _ _ => d.vars
  | .bdry d | .bdryL d | .bdryR d => d.vars
  | .userVol d _ => d.vars

/-- `necessary_variables` (`set_volume` does not change them) -/
def VDom.freeVars {K} : VDom K → List String
  | .interval _ lb ub => dedup (lb.args ++ ub.args)
  | .par _ o c1 c2 | .tri _ o c1 c2 => dedup (o.args ++ c1.args ++ c2.args)
  | .circle _ c r | .sphere _ c r => dedup (r.args ++ c.args)
  | .point _ p => dedup p.args
  | .union _ a b | .cut _ a b | .inter a b => dedup (a.freeVars ++ b.freeVars)
  | .prod a b => dedup ((a.freeVars.filter (fun x => !b.vars.contains x)) ++ b.freeVars)
  | .translate _ d t => dedup (t.args ++ d.freeVars)
  | .rotate _ d m c => dedup (m.args ++ c.args ++ d.freeVars)
  | .bdry d | .bdryL d | .bdryR d => d.freeVars
  | .userVol d _ => d.freeVars

/-- `ProductDomain._is_constant`: no variable of the second factor is needed by the first -/
def prodConstant {K} (a b : VDom K) : Bool := !(b.vars.any (fun x => a.freeVars.contains x))

/-- why there is no number -/
inductive VErr where
  | raises        -- the code raises (malformed parameter, `.boundary.boundary`, …)
  | monteCarlo    -- dependent product: the code *estimates* from 10 random points; not modelled
deriving Repr, BEq, DecidableEq

/-- value and "a warning `Exact volume … is not known, will use the estimate` is issued" -/
abbrev VRes (K : Type) := Except VErr (K × Bool)

section closedForms
variable {K : Type} [Add K] [Sub K] [Mul K] [Div K] [Neg K] [LE K] [DecidableLE K]
  [OfNat K 0] [OfNat K 1] [OfNat K 2] [OfNat K 3] [OfNat K 4] [Transc K]

def det2 (ax ay bx cy : K) : K := ax * cy - ay * bx

def intervalVol (l u : K) : K := u - l
/-- `Parallelogram._get_volume` (after the repair: the absolute value of the determinant) -/
def parVol (ox oy ax ay bx cy : K) : K := absK (det2 (ax - ox) (ay - oy) (bx - ox) (cy - oy))
/-- `Triangle._get_volume` (after the repair) -/
def triVol (ox oy ax ay bx cy : K) : K := absK (det2 (ax - ox) (ay - oy) (bx - ox) (cy - oy)) / 2
def circleVol (r : K) : K := Transc.pi * (r * r)
/-- `Sphere._get_volume` (after the repair: 4/3·π·r³) -/
def sphereVol (r : K) : K := 4 / 3 * Transc.pi * (r * r * r)

/-- the pinned snapshot: signed determinant (negative for clockwise corners) -/
def parVolOld (ox oy ax ay bx cy : K) : K := det2 (ax - ox) (ay - oy) (bx - ox) (cy - oy)
/-- the pinned snapshot: `(−d1ₓ·d3ᵧ + d1ᵧ·d3ₓ)/2` with `d3 = o − c2`, i.e. the signed determinant / 2 -/
def triVolOld (ox oy ax ay bx cy : K) : K :=
  (-(ax - ox) * (oy - cy) + (ay - oy) * (ox - bx)) / 2
/-- the pinned snapshot: `3/4·π·r³` -/
def sphereVolOld (r : K) : K := 3 / 4 * Transc.pi * (r * r * r)

def intervalBdryVol : K := 2
def parBdryVol (ox oy ax ay bx cy : K) : K :=
  2 * (norm2 (ax - ox) (ay - oy) + norm2 (bx - ox) (cy - oy))
/-- `dir_1 = c1 − o`, `dir_2 = c2 − c1`, `dir_3 = o − c2` -/
def triBdryVol (ox oy ax ay bx cy : K) : K :=
  norm2 (ax - ox) (ay - oy) + norm2 (bx - ax) (cy - ay) + norm2 (ox - bx) (oy - cy)
def circleBdryVol (r : K) : K := 2 * Transc.pi * r
def sphereBdryVol (r : K) : K := 4 * Transc.pi * (r * r)

/-- `volume(params)` for one parameter row.  `onB = true`: the volume of `d.boundary`. -/
def volAux : Bool → VDom K → Env K → Except VErr (K × Bool)
  | false, .interval _ lb ub, ρ =>
    match lb.f ρ, ub.f ρ with
    | [l], [u] => .ok (intervalVol l u, false)
    | _, _ => .error .raises
  | true, .interval _ _ _, _ => .ok (intervalBdryVol, false)   -- two points, nothing is evaluated
  | onB, .par _ o c1 c2, ρ =>
    match o.f ρ, c1.f ρ, c2.f ρ with
    | [ox, oy], [ax, ay], [bx, cy] =>
      .ok (if onB then parBdryVol ox oy ax ay bx cy else parVol ox oy ax ay bx cy, false)
    | _, _, _ => .error .raises
  | onB, .tri _ o c1 c2, ρ =>
    match o.f ρ, c1.f ρ, c2.f ρ with
    | [ox, oy], [ax, ay], [bx, cy] =>
      .ok (if onB then triBdryVol ox oy ax ay bx cy else triVol ox oy ax ay bx cy, false)
    | _, _, _ => .error .raises
  | onB, .circle _ _ r, ρ =>
    -- the centre is not evaluated
    match r.f ρ with
    | [rr] => .ok (if onB then circleBdryVol rr else circleVol rr, false)
    | _ => .error .raises
  | onB, .sphere _ _ r, ρ =>
    match r.f ρ with
    | [rr] => .ok (if onB then sphereBdryVol rr else sphereVol rr, false)
    | _ => .error .raises
  | false, .point _ _, _ => .ok (1, false)          -- counting measure of the single point
  | true, .point _ _, _ => .error .raises            -- a point has no boundary
  | onB, .union dj a b, ρ => do
    -- solid: |a| + |b| ; boundary: |∂a| + |∂b| ; exact only when declared disjoint
    let va ← volAux onB a ρ
    let vb ← volAux onB b ρ
    pure (va.1 + vb.1, !dj || va.2 || vb.2)
  | false, .cut ct a b, ρ => do
    let va ← volAux false a ρ
    if ct then
      let vb ← volAux false b ρ
      pure (va.1 - vb.1, va.2 || vb.2)
    else pure (va.1, true)                           -- estimate |a|; `b` is not looked at
  | true, .cut ct a b, ρ => do
    let va ← volAux true a ρ
    let vb ← volAux true b ρ
    pure (va.1 + vb.1, !ct || va.2 || vb.2)
  | false, .inter a _, ρ => do
    let va ← volAux false a ρ
    pure (va.1, true)
  | true, .inter a b, ρ => do
    let va ← volAux true a ρ
    let vb ← volAux true b ρ
    pure (va.1 + vb.1, true)
  | false, .prod a b, ρ =>
    if prodConstant a b then do
      let va ← volAux false a ρ
      let vb ← volAux false b ρ
      pure (va.1 * vb.1, va.2 || vb.2)
    else .error .monteCarlo
  | true, .prod a b, ρ =>
    -- `boundary` = UnionDomain(∂a × b, a × ∂b), not declared disjoint
    if prodConstant a b then do
      let oa ← volAux true a ρ
      let vb ← volAux false b ρ
      let va ← volAux false a ρ
      let ob ← volAux true b ρ
      pure (oa.1 * vb.1 + va.1 * ob.1, true)
    else .error .monteCarlo
  | onB, .translate _ d _, ρ => volAux onB d ρ       -- `Translate.volume = domain.volume`
  | onB, .rotate _ d _ _, ρ => volAux onB d ρ        -- `Rotate.volume = domain.volume`
  | false, .bdry d, ρ => volAux true d ρ
  | true, .bdry _, _ => .error .raises
  | false, .bdryL (.interval _ _ _), _ | false, .bdryR (.interval _ _ _), _ => .ok (1, false)
  | _, .bdryL _, _ => .error .raises
  | _, .bdryR _, _ => .error .raises
  | false, .userVol _ f, ρ =>
    -- `set_volume`: the user's function replaces everything below, silently
    match f.f ρ with
    | [x] => .ok (x, false)
    | _ => .error .raises
  | true, .userVol d _, ρ => volAux true d ρ        -- `d.boundary` is a new object without override

/-- `Domain.volume(params)` for one row -/
def volume (d : VDom K) (ρ : Env K) : Except VErr (K × Bool) := volAux false d ρ

end closedForms

/-! ### partial evaluation `D(**σ)` — as coded after the repairs: the disjoint / contained declarations are kept
    and a user volume is handed on, partially evaluated, to the new object (`Domain._evaluate_user_volume`) -/

def VDom.peval {K} (σ : Env K) : VDom K → VDom K
  | .interval v lb ub => .interval v (lb.peval σ) (ub.peval σ)
  | .par v o c1 c2 => .par v (o.peval σ) (c1.peval σ) (c2.peval σ)
  | .tri v o c1 c2 => .tri v (o.peval σ) (c1.peval σ) (c2.peval σ)
  | .circle v c r => .circle v (c.peval σ) (r.peval σ)
  | .sphere v c r => .sphere v (c.peval σ) (r.peval σ)
  | .point v p => .point v (p.peval σ)
  | .union dj a b => .union dj (a.peval σ) (b.peval σ)
  | .cut ct a b => .cut ct (a.peval σ) (b.peval σ)
  | .inter a b => .inter (a.peval σ) (b.peval σ)
  | .prod a b => .prod (a.peval σ) (b.peval σ)
  | .translate v d t => .translate v (d.peval σ) (t.peval σ)
  | .rotate v d m c => .rotate v (d.peval σ) (m.peval σ) (c.peval σ)
  | .bdry d => .bdry (d.peval σ)
  | .bdryL d => .bdryL (d.peval σ)
  | .bdryR d => .bdryR (d.peval σ)
  | .userVol d f => .userVol (d.peval σ) (f.peval σ)

/-- the pinned snapshot: `UnionDomain.__call__` / `CutDomain.__call__` forget the declarations, and every
    `__call__` forgets a user volume -/
def VDom.pevalOld {K} (σ : Env K) : VDom K → VDom K
  | .union _ a b => .union false (a.pevalOld σ) (b.pevalOld σ)
  | .cut _ a b => .cut false (a.pevalOld σ) (b.pevalOld σ)
  | .inter a b => .inter (a.pevalOld σ) (b.pevalOld σ)
  | .prod a b => .prod (a.pevalOld σ) (b.pevalOld σ)
  | .translate v d t => .translate v (d.pevalOld σ) (t.peval σ)
  | .rotate v d m c => .rotate v (d.pevalOld σ) (m.peval σ) (c.peval σ)
  | .bdry d => .bdry (d.pevalOld σ)
  | .bdryL d => .bdryL (d.pevalOld σ)
  | .bdryR d => .bdryR (d.pevalOld σ)
  | .userVol d _ => d.pevalOld σ
  | d => d.peval σ

/-! ### density → number of points -/

/-- `compute_n_from_density`: `int(torch.ceil(d * volume))` -/
def densityCount (d v : Rat) : Int := Rat.ceil (d * v)

/-- `ProductDomain.sample_random_uniform(d=…)`: `int(d * volume)` (truncation) -/
def densityCountProd (d v : Rat) : Int := Rat.floor (d * v)

/-- barycentric inner grid of `Parallelogram/Triangle.sample_grid`: `linspace(0,1,nᵢ+2)[1:-1]` on both axes -/
def baryLattice (n1 n2 : Nat) : List (Rat × Rat) :=
  (List.range n2).flatMap fun j => (List.range n1).map fun i =>
    (mkRat ((i : Nat) + 1 : Nat) (n1 + 1), mkRat ((j : Nat) + 1 : Nat) (n2 + 1))

/-- the triangle keeps the grid points with `x + y ≤ 1` -/
def triGrid (n1 n2 : Nat) : List (Rat × Rat) := (baryLattice n1 n2).filter fun p => decide (p.1 + p.2 ≤ 1)

/-- `Triangle.sample_grid(d=…)` after the repair: the surplus over `n = ceil(d·area)` is cut off -/
def triDensityGrid (n n1 n2 : Nat) : List (Rat × Rat) := (triGrid n1 n2).take n

section triExact
variable {K : Type} [Add K] [Sub K] [LE K] [DecidableLE K] [OfNat K 1]
/-- the EXACT scheme for `Triangle.sample_random_uniform(d=…)` (the statement allows it next to the coded rejection scheme):
    `n = ceil(d·area)` uniform barycentric pairs, those with `u + v ≥ 1` mirrored at (½,½) (`triMirror` of GeomSample.lean) -/
def triDensityMirror (tape : List (K × K)) : List (K × K) := tape.map fun p => triMirror p.1 p.2
end triExact

/-- … and those strictly inside (the diagonal ones are at the mercy of float rounding in the code) -/
def triGridStrict (n1 n2 : Nat) : List (Rat × Rat) := (baryLattice n1 n2).filter fun p => decide (p.1 + p.2 < 1)

/-- `Interval.sample_grid`: `linspace(0,1,n+2)[1:-1]` scaled to `[l,u]` -/
def intervalLattice (l u : Rat) (n : Nat) : List Rat :=
  (List.range n).map fun i => l + (u - l) * mkRat ((i : Nat) + 1 : Nat) (n + 1)

section gridDims
variable {K : Type} [Mul K] [Div K] [Transc K]
/-- `_compute_barycentric_grid`: `n₁ = int(√(n·s₁/s₂))`, `n₂ = int(√(n·s₂/s₁))` (`fl` = truncation of a non-negative number) -/
def gridDims (fl : K → Nat) (n s1 s2 : K) : Nat × Nat :=
  (fl (Transc.sqrt (n * s1 / s2)), fl (Transc.sqrt (n * s2 / s1)))
end gridDims

end TPV.Geom
