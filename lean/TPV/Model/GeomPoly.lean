/-
  Even-odd (crossing number) membership of a simple polygon, optionally with one hole — the denotation by which
  C01 judges the samples of `ShapelyPolygon` (which itself is an opaque kernel).  Import-free, executable on `Rat`.
  Mirrors harness/c01_opaque.py: poly_contains (the harness evaluates both and they must agree).
-/
import TPV.Model.Geom

namespace TPV.Geom

section
variable {K : Type} [Add K] [Sub K] [Mul K] [Div K] [Neg K] [LE K] [DecidableLE K] [OfNat K 0] [OfNat K 1]

/-- the horizontal ray from `(x, y)` towards `+∞` crosses the edge `(x1,y1)–(x2,y2)`: exactly one end point lies
    strictly above the ray (half-open rule) and the edge meets the line `Y = y` to the right of `x` -/
def edgeCross (x y x1 y1 x2 y2 : K) : Bool :=
  ((!le y1 y) != (!le y2 y)) && !le (x1 + (y - y1) * (x2 - x1) / (y2 - y1)) x

/-- `(x, y)` lies on the closed edge: collinear and inside the edge's bounding box -/
def onEdge (x y x1 y1 x2 y2 : K) : Bool :=
  let cr := (x2 - x1) * (y - y1) - (y2 - y1) * (x - x1)
  (le cr 0 && le 0 cr) && (le (minK x1 x2) x && le x (maxK x1 x2)) && (le (minK y1 y2) y && le y (maxK y1 y2))

/-- consecutive vertex pairs of the closed ring, `first` closing it -/
def edgesAux (first : K × K) : List (K × K) → List ((K × K) × (K × K))
  | [] => []
  | [a] => [(a, first)]
  | a :: b :: t => (a, b) :: edgesAux first (b :: t)

def polyEdges : List (K × K) → List ((K × K) × (K × K))
  | [] => []
  | a :: t => edgesAux a (a :: t)

/-- even-odd rule: `none` on the boundary, else the parity of the crossing number -/
def polyContains (vs : List (K × K)) (q : K × K) : Option Bool :=
  let es := polyEdges vs
  if es.any (fun e => onEdge q.1 q.2 e.1.1 e.1.2 e.2.1 e.2.2) then none
  else some ((es.filter (fun e => edgeCross q.1 q.2 e.1.1 e.1.2 e.2.1 e.2.2)).length % 2 == 1)

/-- polygon with an optional hole: inside the outer ring and not inside the hole; `none` on either ring -/
def polyHoleContains (outer : List (K × K)) (hole : Option (List (K × K))) (q : K × K) : Option Bool :=
  match hole with
  | none => polyContains outer q
  | some h => do
    let o ← polyContains outer q
    let i ← polyContains h q
    pure (o && !i)

end
end TPV.Geom
