/-
  C05 — membership for the public constructors that are not constructors of `Dom`:
    * `Point` (0-D domain: `isclose` in every coordinate with its own `atol = 0.001`) and products
      `Point × … × Point × D` — the way a point is used in practice (an initial time, a fixed parameter);
    * `Rotate` with a 3×3 matrix (the model's `Dom.rotate` is the 2-D case): inverse image under
      `x ↦ M (x − c) + c`, computed as the code does with `linalg.solve(M, x − c) + c` (Cramer's rule);
    * `TrimeshPolyhedron` for meshes assembled from convex bodies: solids and cavities, each given by its
      outward-wound triangles; the denoted set is (⋃ solids) \ (⋃ interiors of cavities).
  Import-free and executable; generic over the scalar type like `TPV.Model.Geom`.
-/
import TPV.Model.Geom

namespace TPV.GeomX
open TPV.Geom

section ops
variable {K : Type} [Add K] [Sub K] [Mul K] [Div K] [Neg K] [LE K] [DecidableLE K] [OfNat K 0] [OfNat K 1]

/-! ### Point -/

/-- `torch.all(torch.isclose(x, p, atol=atol), dim=-1)` -/
def closeAll (atol rtol : K) : List K → List K → Bool
  | [], [] => true
  | x :: xs, p :: ps => isclose ⟨atol, rtol, atol⟩ x p && closeAll atol rtol xs ps
  | _, _ => false

/-- `Point._contains` for one row: `none` where the code raises (missing variable, wrong width) -/
def pointContains (atol rtol : K) (v : String) (p : PFun K) (pts ρ : Env K) : Option Bool :=
  match pts.get v, p.f (pts ++ ρ) with
  | some (x :: xs), q :: qs =>
    if xs.length = qs.length then some (closeAll atol rtol (x :: xs) (q :: qs)) else none
  | _, _ => none

/-- `Point(V₁, p₁) * … * Point(V_k, p_k) [* D]`; each point carries the `atol` of its class -/
structure PProd (K : Type) where
  points : List (String × PFun K × K)
  rest : Option (Dom K)

/-- all the point factors -/
def pointsContain (rtol : K) (pts ρ : Env K) : List (String × PFun K × K) → Option Bool
  | [] => some true
  | (v, p, a) :: more => do
    let h ← pointContains a rtol v p pts ρ
    let t ← pointsContain rtol pts ρ more
    pure (h && t)

/-- `ProductDomain._contains`: the conjunction of the factors, each seeing the whole row -/
def PProd.contains (τ : Tol K) (d : PProd K) (pts ρ : Env K) : Option Bool := do
  let a ← pointsContain τ.rtol pts ρ d.points
  let b ← match d.rest with
    | some D => TPV.Geom.contains τ D pts ρ
    | none => some true
  pure (a && b)

/-! ### rotation in three dimensions -/

/-- determinant of the matrix with rows `(a,b,c) (d,e,f) (g,h,i)` -/
def det3 (a b c d e f g h i : K) : K := a * (e * i - f * h) - b * (d * i - f * g) + c * (d * h - e * g)

/-- the solution of `M s = q` by Cramer's rule; `m` is row-major -/
def solve3 (m00 m01 m02 m10 m11 m12 m20 m21 m22 q0 q1 q2 : K) : K × K × K :=
  let det := det3 m00 m01 m02 m10 m11 m12 m20 m21 m22
  (det3 q0 m01 m02 q1 m11 m12 q2 m21 m22 / det,
   det3 m00 q0 m02 m10 q1 m12 m20 q2 m22 / det,
   det3 m00 m01 q0 m10 m11 q1 m20 m21 q2 / det)

/-- `Rotate(D, M, c)._contains` for a 3-D variable `v` (and the boundary, which is the rotated boundary) -/
def rot3Contains (τ : Tol K) (onB : Bool) (v : String) (d : Dom K) (m c : PFun K) (pts ρ : Env K) : Option Bool :=
  match pts.get v, m.f (pts ++ ρ), c.f (pts ++ ρ) with
  | some [x, y, z], [m00, m01, m02, m10, m11, m12, m20, m21, m22], [cx, cy, cz] =>
    let s := solve3 m00 m01 m02 m10 m11 m12 m20 m21 m22 (x - cx) (y - cy) (z - cz)
    containsAux τ onB d [(v, [s.1 + cx, s.2.1 + cy, s.2.2 + cz])] (pts.filter (fun b => b.1 != v) ++ ρ)
  | _, _, _ => none

/-! ### polyhedra assembled from convex bodies -/

abbrev V3 (K : Type) := K × K × K
abbrev Tri (K : Type) := V3 K × V3 K × V3 K

/-- `det (b − a, c − a, x − a)`: negative on the inner side of an outward-wound triangle `(a, b, c)` -/
def side (t : Tri K) (x : V3 K) : K :=
  let a := t.1; let b := t.2.1; let c := t.2.2
  det3 (b.1 - a.1) (b.2.1 - a.2.1) (b.2.2 - a.2.2)
       (c.1 - a.1) (c.2.1 - a.2.1) (c.2.2 - a.2.2)
       (x.1 - a.1) (x.2.1 - a.2.1) (x.2.2 - a.2.2)

/-- squared length of the (un-normalised) face normal `(b − a) × (c − a)` -/
def normal2 (t : Tri K) : K :=
  let a := t.1; let b := t.2.1; let c := t.2.2
  let ux := b.1 - a.1; let uy := b.2.1 - a.2.1; let uz := b.2.2 - a.2.2
  let vx := c.1 - a.1; let vy := c.2.1 - a.2.1; let vz := c.2.2 - a.2.2
  let nx := uy * vz - uz * vy; let ny := uz * vx - ux * vz; let nz := ux * vy - uy * vx
  nx * nx + ny * ny + nz * nz

/-- closed convex body = intersection of the half-spaces of its faces -/
def convexContains (tris : List (Tri K)) (x : V3 K) : Bool := tris.all fun t => le (side t x) 0

/-- strictly inside every face plane (the open body) -/
def convexInterior (tris : List (Tri K)) (x : V3 K) : Bool := tris.all fun t => !(le 0 (side t x))

structure Mesh (K : Type) where
  solids : List (List (Tri K))
  cavities : List (List (Tri K))

def Mesh.contains (m : Mesh K) (x : V3 K) : Bool :=
  m.solids.any (convexContains · x) && !(m.cavities.any (convexInterior · x))

/-- `TrimeshPolyhedron._contains` for one row -/
def meshContains (m : Mesh K) (v : String) (pts : Env K) : Option Bool :=
  match pts.get v with
  | some [x, y, z] => some (m.contains (x, y, z))
  | _ => none

end ops

section slack
variable {K : Type} [Add K] [Sub K] [Mul K] [Div K] [Neg K] [LE K] [DecidableLE K] [OfNat K 0] [OfNat K 1] [BEq K]

/-- slack of every face test, in units of (distance × length of the un-normalised normal) / |normal|² -/
def meshSlacks (m : Mesh K) (x : V3 K) : List K :=
  (m.solids ++ m.cavities).flatMap fun tris => tris.map fun t => side t x / nz (normal2 t)

/-- the comparisons a point test makes: `|x − p| − (atol + rtol |p|)` per coordinate -/
def pointSlacks (atol rtol : K) : List K → List K → List K
  | x :: xs, p :: ps => (absK (x - p) - (atol + rtol * absK p)) :: pointSlacks atol rtol xs ps
  | _, _ => []

end slack

end TPV.GeomX
