/-
  C14 — derived state on USER objects that several conditions share.  Import-free.

  (1) Sampler objects as FACTORS of products / sums (sampler_base.py: `ProductSampler`, `ConcatSampler`,
      `StaticSampler`, `PointSampler._sample_params_independent`, `__len__`, `set_length`).
      A base sampler is created with `n` own points.  Sampling it with `k` parameter rows returns
      `n · max 1 k` rows and stores `length = n` (its OWN points) on the object; a product `a * b` samples
      `b`, hands the result to `a` as parameter rows and stores its own length; `len(s)` reads the stored
      length if there is one, else the declared size.  `sampleBad` is the variant that stores the rows of
      the last call (own points × parameter rows) on the base object.
  (2) Function sets shared by DeepONet conditions (deeponet.py: `DeepONet._forward_branch`): the set keeps
      the key of the call it was last sampled for (`current_iteration_num`, initially −1) and draws new
      functions exactly when it is called with another key; the key is the training iteration number or
      `None` for a direct call / validation step.  `fsForwardBad` forgets a direct call (stores −1).
-/
namespace TPV.Shared

/-! ## sampler expressions over base sampler objects -/

inductive SExp where
  | base (id : Nat)
  | prod (a b : SExp)        -- `a * b`
  | sum (a b : SExp)         -- `a + b`
deriving Repr, DecidableEq

/-- stored `length` attribute of every base object (`none` = never set) -/
abbrev Lens := Nat → Option Nat

def setLen (st : Lens) (i : Nat) (v : Nat) : Lens := fun j => if j = i then some v else st j

/-- `len(base i)`: the stored length, else the declared number of points -/
def lenBase (n : Nat → Nat) (st : Lens) (i : Nat) : Nat :=
  match st i with
  | some v => v
  | none => n i

/-- `sample_points(params)` with `k` parameter rows: (stored lengths afterwards, rows returned) -/
def sample (n : Nat → Nat) : SExp → Lens → Nat → Lens × Nat
  | .base i, st, k => (setLen st i (n i), n i * max 1 k)
  | .prod a b, st, k =>
    let rb := sample n b st k
    sample n a rb.1 rb.2
  | .sum a b, st, k =>
    let ra := sample n a st k
    let rb := sample n b ra.1 k
    (rb.1, ra.2 + rb.2)

/-- the changed code: the base object stores the rows of THIS call -/
def sampleBad (n : Nat → Nat) : SExp → Lens → Nat → Lens × Nat
  | .base i, st, k => (setLen st i (n i * max 1 k), n i * max 1 k)
  | .prod a b, st, k =>
    let rb := sampleBad n b st k
    sampleBad n a rb.1 rb.2
  | .sum a b, st, k =>
    let ra := sampleBad n a st k
    let rb := sampleBad n b ra.1 k
    (rb.1, ra.2 + rb.2)

/-- rows of a top-level sample, from the declared sizes alone -/
def rows (n : Nat → Nat) : SExp → Nat → Nat
  | .base i, k => n i * max 1 k
  | .prod a b, k => rows n a (rows n b k)
  | .sum a b, k => rows n a k + rows n b k

/-- a history of top-level samples of several expressions (the conditions' samplers), in any order -/
def sampleAll (n : Nat → Nat) (st : Lens) : List SExp → Lens
  | [] => st
  | e :: es => sampleAll n (sample n e st 0).1 es

/-! ## function sets: resampling keyed by the iteration -/

inductive IterKey where
  | init                 -- −1, before the first call
  | direct               -- `None`: direct call / validation step
  | step (n : Nat)       -- training iteration number
deriving Repr, DecidableEq

structure FSt where
  cur : IterKey
  draws : Nat            -- how many function batches have been drawn (the batch in force is `draws − 1`)
deriving Repr, DecidableEq

def fsForward (it : IterKey) (s : FSt) : FSt :=
  if it = s.cur then s else ⟨it, s.draws + 1⟩

/-- the changed code: a direct call leaves −1 behind -/
def fsForwardBad (it : IterKey) (s : FSt) : FSt :=
  if it = s.cur then s else ⟨if it = .direct then .init else it, s.draws + 1⟩

def fsRun (s : FSt) : List IterKey → FSt
  | [] => s
  | k :: ks => fsRun (fsForward k s) ks

/-- batch number in force at every call of a history -/
def fsTrace (s : FSt) : List IterKey → List Nat
  | [] => []
  | k :: ks => (fsForward k s).draws :: fsTrace (fsForward k s) ks

def fs0 : FSt := ⟨.init, 0⟩

end TPV.Shared
