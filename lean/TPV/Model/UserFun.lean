/-
  C13 — name routing of `UserFunction` / `DomainUserFunction` (import-free, executable).
  Mirrors src/torchphysics/utils/user_fun.py as it is coded.

  * values are opaque identifiers (`Val = Int`); a Python `dict` is an insertion-ordered association
    list with the update semantics of `d[k] = v` (`dset`), `d.update` (`dupdate`), `d.pop` (`dpop`);
  * the only object a wrapper ever mutates is its `defaults` dict.  Dicts therefore live in a heap of
    cells, a wrapper refers to its `defaults` by cell index, so that the aliasing the code creates
    (re-wrapping shares the dict; a user-supplied `defaults=` dict is used as is) is expressible;
  * `fn` is the identity of the user's function (never copied: functions are atomic for `deepcopy`);
  * what the user's function receives is the keyword dictionary `kw` of `self.fun(**kw)`.
-/
namespace TPV.UserFun

abbrev Val := Int
abbrev Dict := List (String × Val)

def keys (d : Dict) : List String := d.map (·.1)

/-- Python `d[k] = v`: overwrite in place, else append -/
def dset : Dict → String → Val → Dict
  | [], k, v => [(k, v)]
  | (k', v') :: t, k, v => if k' = k then (k', v) :: t else (k', v') :: dset t k v

/-- Python `d.update(σ)` (σ iterated in order) -/
def dupdate (d : Dict) (σ : List (String × Val)) : Dict := σ.foldl (fun d kv => dset d kv.1 kv.2) d

/-- a dict comprehension `{k: v for (k, v) in l}` -/
def dictOf (l : List (String × Val)) : Dict := dupdate [] l

/-- Python `d.pop(k)`; `none` = KeyError -/
def dpop : Dict → String → Option Dict
  | [], _ => none
  | (k', v') :: t, k => if k' = k then some t else (dpop t k).map ((k', v') :: ·)

/-- all entries present, else `none` (an exception inside a comprehension) -/
def allSome {α} : List (Option α) → Option (List α)
  | [] => some []
  | none :: _ => none
  | some a :: t => (allSome t).map (a :: ·)

inductive Err | missingArg | keyError | indexError | badRef | valueError | typeError
  deriving DecidableEq, Repr

/-- `_set_input_args_for_function`:
    `{self.args[-i]: f_defaults[-i] for i in range(len(f_defaults), 0, -1)}`; `none` = IndexError
    (cannot happen for a signature Python accepts: it never has more defaults than parameters) -/
def alignList (names : List String) (dflts : List Val) : List (Option (String × Val)) :=
  (List.range dflts.length).reverse.map fun j =>
    -- i = j + 1 runs len(f_defaults) … 1
    if j + 1 ≤ names.length then
      match names[names.length - (j + 1)]?, dflts[dflts.length - (j + 1)]? with
      | some k, some v => some (k, v)
      | _, _ => none
    else none

def alignDefaults (names : List String) (dflts : List Val) : Option Dict :=
  (allSome (alignList names dflts)).map dictOf

/-- `necessary_args`: `[arg for arg in self.args if arg not in self.defaults]` -/
def necessary (params : List String) (d : Dict) : List String :=
  params.filter fun p => !(keys d).contains p

/-- `optional_args` -/
def optional (params : List String) (d : Dict) : List String :=
  params.filter fun p => (keys d).contains p

/-- the keyword dictionary built by `__call__` / `partially_evaluate`:
    `inp = {key: args[key] for key in self.args if key in args}`
    `inp.update({key: self.defaults[key] for key in self.args if key not in args})` -/
def assemble (params : List String) (d env : Dict) : Except Err Dict :=
  let inp := dictOf (params.filterMap fun p => (env.lookup p).map (p, ·))
  match allSome ((params.filter fun p => !(keys env).contains p).map fun p => (d.lookup p).map (p, ·)) with
  | some rest => .ok (dupdate inp (dictOf rest))
  | none => .error .keyError

/-- `__call__`: the assert loop over `necessary_args`, then the assembly -/
def call (params : List String) (d env : Dict) : Except Err Dict :=
  if (necessary params d).all fun k => (keys env).contains k then assemble params d env
  else .error .missingArg

/-! ### the argument of a call is *any mapping*

  A user mapping is observed through `key in m` (`contains`) and `m[key]` (`getitem`).  For a plain dict,
  OrderedDict, MappingProxyType, ChainMap or `Points.coordinates`, `m[key]` of an absent key is a KeyError.
  A `collections.defaultdict` or a dict subclass with `__missing__` answers it with a fallback value, and a
  defaultdict also STORES that value under the key: there `m[key]` is only harmless after `key in m`. -/

structure Mapping where
  stored : Dict
  fallback : Option Val      -- what `m[k]` answers for an absent key (`none`: KeyError)
  inserts : Bool             -- defaultdict: the fallback is stored under the key
  deriving DecidableEq, Repr

def Mapping.contains (m : Mapping) (k : String) : Bool := (keys m.stored).contains k

/-- `m[k]`: the value (or KeyError) and the mapping afterwards -/
def Mapping.getitem (m : Mapping) (k : String) : Option Val × Mapping :=
  match m.stored.lookup k with
  | some v => (some v, m)
  | none =>
    match m.fallback with
    | none => (none, m)
    | some v => (some v, if m.inserts then { m with stored := dset m.stored k v } else m)

/-- `{key: args[key] for key in l if key in args}` on a user mapping, the mapping threaded through -/
def pickM (m : Mapping) : List String → Except Err (List (String × Val)) × Mapping
  | [] => (.ok [], m)
  | k :: t =>
    if m.contains k then
      match m.getitem k with
      | (some v, m') =>
        match pickM m' t with
        | (.ok r, m'') => (.ok ((k, v) :: r), m'')
        | (.error e, m'') => (.error e, m'')
      | (none, m') => (.error .keyError, m')
    else pickM m t

/-- `__call__` as coded, on a user mapping: the assert loop (`key in args`), the supplied names
    (`args[key]` only `if key in args`), then the defaults of the names that are `not in args` -/
def callM (params : List String) (d : Dict) (m : Mapping) : Except Err Dict × Mapping :=
  if (necessary params d).all fun k => m.contains k then
    match pickM m params with
    | (.ok sup, m') =>
      match allSome ((params.filter fun p => !m'.contains p).map fun p => (d.lookup p).map (p, ·)) with
      | some rest => (.ok (dupdate (dictOf sup) (dictOf rest)), m')
      | none => (.error .keyError, m')
    | (.error e, m') => (.error e, m')
  else (.error .missingArg, m)

/-- the "ask first" variant (`try: args[key] except KeyError: defaults[key]`), kept to state why it is
    wrong for mappings with a fallback -/
def collectEafp (d : Dict) (m : Mapping) : List String → Except Err (List (String × Val)) × Mapping
  | [] => (.ok [], m)
  | k :: t =>
    match m.getitem k with
    | (some v, m') =>
      match collectEafp d m' t with
      | (.ok r, m'') => (.ok ((k, v) :: r), m'')
      | (.error e, m'') => (.error e, m'')
    | (none, m') =>
      match d.lookup k with
      | some v =>
        match collectEafp d m' t with
        | (.ok r, m'') => (.ok ((k, v) :: r), m'')
        | (.error e, m'') => (.error e, m'')
      | none => (.error .keyError, m')

def callEafp (params : List String) (d : Dict) (m : Mapping) : Except Err Dict × Mapping :=
  if (necessary params d).all fun k => m.contains k then
    match collectEafp d m params with
    | (.ok bs, m') => (.ok (dictOf bs), m')
    | (.error e, m') => (.error e, m')
  else (.error .missingArg, m)

/-- what the user's function can observe of `**kw`: its parameters in declaration order -/
def canon (params : List String) (kw : Dict) : List (String × Option Val) :=
  params.map fun p => (p, kw.lookup p)

/-- `set_default(**σ)`: `self.defaults.update({key: args[key] for key in args if key in self.args})` -/
def setDefaults (params : List String) (d σ : Dict) : Dict :=
  dupdate d (dictOf (σ.filter fun kv => params.contains kv.1))

/-- `remove_default(*ks)`: pops one after the other; a KeyError leaves the earlier pops done -/
def removeDefaults : Dict → List String → Dict × Bool
  | d, [] => (d, true)
  | d, k :: ks => match dpop d k with
    | some d' => removeDefaults d' ks
    | none => (d, false)

/-! ### degenerate values and containers

  `None`, `False`, `0`, `''`, a tensor or a Points object with zero rows are values / containers like any
  other: the code never asks for the truth value of an argument container and never filters a value by what
  it is.  The two variants below do, and are kept to state why that is wrong. -/

/-- `set_default` that skips one particular value (`… and value is not None`) -/
def setDefaultsSkip (skip : Val) (params : List String) (d σ : Dict) : Dict :=
  dupdate d (dictOf (σ.filter fun kv => params.contains kv.1 && kv.2 != skip))

/-- a container of named columns with a number of rows (a Points object): Python's truth value of it is
    `rows ≠ 0` (it defines `__len__` = number of rows, no `__bool__`) -/
structure Table where
  entries : Dict
  rows : Nat
  deriving Repr

/-- `args = args or {}` before the call -/
def callTruthy (params : List String) (d : Dict) (t : Table) : Except Err Dict :=
  call params d (if t.rows = 0 then [] else t.entries)

/-! ### which signature is inspected, which callable is invoked

  The wrapper inspects the object it is handed (`inspect.getfullargspec(self.fun)`, which does NOT follow
  `__wrapped__`) and later invokes that same object with `**kw`.  Python then binds `kw` against the
  signature of the invoked callable (`pyBind`): an unknown keyword or a missing parameter without an own
  default is a TypeError, an absent parameter with an own default silently takes that default. -/

/-- a callable as the wrapper meets it: the signature of the object itself and, for a function decorated
    with `functools.wraps`, the signature of the decorated function it carries as `__wrapped__` -/
structure Callable where
  fn : Nat
  names : List String
  dflts : List Val
  wrapped : Option (List String × List Val)
  kwnames : List String := []          -- keyword-only parameters (after `*`)
  kwdflts : Dict := []                 -- `kwonlydefaults`: any subset of them
  deriving Repr

/-- all parameters of the callable, positional-or-keyword first -/
def Callable.params (c : Callable) : List String := c.names ++ c.kwnames

/-- the signature `_set_input_args_for_function` reads: the one of the object that will be invoked -/
def Callable.inspected (c : Callable) : List String × List Val := (c.names, c.dflts)

/-- the variant "look through decorators" (`inspect.unwrap`), kept to state why it is wrong -/
def Callable.inspectedUnwrapped (c : Callable) : List String × List Val :=
  match c.wrapped with
  | some s => s
  | none => (c.names, c.dflts)

/-- Python's binding of `f(**kw)` for a function with parameters `names` and own defaults `own` -/
def pyBind (names : List String) (own kw : Dict) : Except Err Dict :=
  if kw.any fun kv => !names.contains kv.1 then .error .typeError        -- unexpected keyword argument
  else
    match allSome (names.map fun p => ((kw.lookup p).or (own.lookup p)).map (p, ·)) with
    | some bs => .ok bs
    | none => .error .typeError                                           -- missing required argument

/-! ### `apply_to_batch` (the `vectorize=True` path of `UserFunction.__call__`): one invocation per row

  A batched value is the list of its rows.  `batch_size = max(len(inp[key]) for key in inp)`; invocation
  `i` receives `inp[key][i]` for every key whose value has exactly `batch_size` rows and the whole value
  for every other key. -/

abbrev BVal := List Val

inductive Arg | row (v : Val) | whole (b : BVal)
  deriving DecidableEq, Repr

/-- `max(len(inp[key]) for key in inp)`; `none` = ValueError (max of an empty sequence) -/
def batchSize : List (String × BVal) → Option Nat
  | [] => none
  | kv :: t => some (t.foldl (fun m kv => max m kv.2.length) kv.2.length)

/-- the keyword dictionary of invocation `i`; `none` = IndexError (cannot happen for `i < bs`) -/
def rowArgs (inp : List (String × BVal)) (bs i : Nat) : Option (List (String × Arg)) :=
  allSome (inp.map fun kv =>
    if kv.2.length = bs then (kv.2[i]?).map fun v => (kv.1, Arg.row v)
    else some (kv.1, Arg.whole kv.2))

def applyToBatch (inp : List (String × BVal)) : Except Err (List (List (String × Arg))) :=
  match batchSize inp with
  | none => .error .valueError
  | some bs =>
    match allSome ((List.range bs).map (rowArgs inp bs)) with
    | some rows => .ok rows
    | none => .error .indexError

/-- the rows of the batched value with identifier `v` and `len` rows (transport convention of the driver) -/
def rowsOf (v : Val) (len : Nat) : BVal := (List.range len).map fun (i : Nat) => v * 1000 + (i : Int)

/-- interpret the opaque values of an assembled keyword dictionary as batched values -/
def batched (lens : List (Val × Nat)) (kw : Dict) : Option (List (String × BVal)) :=
  allSome (kw.map fun kv => (lens.lookup kv.2).map fun n => (kv.1, rowsOf kv.2 n))

/-! ### heap of dict cells and wrappers -/

structure UF where
  fn : Nat
  callable : Bool
  params : List String
  cell : Nat
  deriving DecidableEq, Repr

structure Heap where
  dicts : List Dict
  ws : List UF
  deriving DecidableEq, Repr

inductive Op
  | newDict (d : Dict)                                      -- a dict the user creates
  | wrapFun (fn : Nat) (names : List String) (dflts : List Val)   -- UserFunction(f), f callable
  | wrapFunKw (fn : Nat) (names : List String) (dflts : List Val) (kwnames : List String) (kwdflts : Dict)
                                                            -- … f with keyword-only parameters
  | wrapConst (fn : Nat)                                    -- UserFunction(3.0)
  | wrapExplicit (fn : Nat) (params : List String) (dc : Option Nat)  -- UserFunction(f, defaults=…, args=[…])
  | rewrap (r : Nat)                                        -- UserFunction(u)
  | shallowCopy (r : Nat)                                   -- copy.copy(u): a new wrapper object with the SAME attribute objects
  | call (r : Nat) (env : Dict)
  | callVec (r : Nat) (env : Dict) (lens : List (Val × Nat))   -- u(env, vectorize=True); lens: rows per value
  | partialEval (r : Nat) (σ : Dict)
  | setDefault (r : Nat) (σ : Dict)
  | removeDefault (r : Nat) (ks : List String)
  | deepcopy (r : Nat)
  deriving Repr

inductive Out
  | unit
  | dict (c : Nat)
  | wrapper (r : Nat)
  | value (fn : Nat) (kw : Dict)       -- the user's function `fn` was invoked with `**kw`; its value is returned
  | const (fn : Nat)                   -- the wrapped constant itself is returned
  | batch (fn : Nat) (invocations : List (List (String × Arg)))   -- one invocation of `fn` per row
  | err (e : Err)
  deriving DecidableEq, Repr

def Heap.empty : Heap := ⟨[], []⟩

/-- wrapper `r` together with the content of its defaults dict -/
def Heap.look (h : Heap) (r : Nat) : Option (UF × Dict) :=
  match h.ws[r]? with
  | some u => (h.dicts[u.cell]?).map (u, ·)
  | none => none

def Heap.addWrapper (h : Heap) (u : UF) : Heap × Out := (⟨h.dicts, h.ws ++ [u]⟩, .wrapper h.ws.length)

/-- a new wrapper with a new dict object -/
def Heap.addFresh (h : Heap) (fn : Nat) (callable : Bool) (params : List String) (d : Dict) : Heap × Out :=
  (⟨h.dicts ++ [d], h.ws ++ [⟨fn, callable, params, h.dicts.length⟩]⟩, .wrapper h.ws.length)

/-- one operation on the code as it is in /repo now (after the repair of the shared `defaults={}`) -/
def step (h : Heap) : Op → Heap × Out
  | .newDict d => (⟨h.dicts ++ [d], h.ws⟩, .dict h.dicts.length)
  | .wrapFun fn names dflts =>
    match alignDefaults names dflts with
    | some d => h.addFresh fn true names d
    | none => (h, .err .indexError)
  | .wrapFunKw fn names dflts kwnames kwdflts =>
    -- self.args = f_args + f_kwonlyargs; the positional defaults align at the end of f_args;
    -- self.defaults.update(kwonlydefaults)
    match alignDefaults names dflts with
    | some d => h.addFresh fn true (names ++ kwnames) (dupdate d kwdflts)
    | none => (h, .err .indexError)
  | .wrapConst fn => h.addFresh fn false [] []
  | .wrapExplicit fn params none => h.addFresh fn true params []
  | .wrapExplicit fn params (some c) =>
    if c < h.dicts.length then h.addWrapper ⟨fn, true, params, c⟩ else (h, .err .badRef)
  | .rewrap r =>
    match h.ws[r]? with
    | some u => h.addWrapper u
    | none => (h, .err .badRef)
  | .shallowCopy r =>
    match h.ws[r]? with
    | some u => h.addWrapper u
    | none => (h, .err .badRef)
  | .call r env =>
    match h.look r with
    | some (u, d) =>
      match call u.params d env with
      | .ok kw => (h, if u.callable then .value u.fn kw else .const u.fn)
      | .error e => (h, .err e)
    | none => (h, .err .badRef)
  | .callVec r env lens =>
    match h.look r with
    | some (u, d) =>
      match call u.params d env with
      | .ok kw =>
        match batched lens kw with
        | some inp =>
          match applyToBatch inp with
          | .ok rows => (h, .batch u.fn rows)
          | .error e => (h, .err e)
        | none => (h, .err .badRef)
      | .error e => (h, .err e)
    | none => (h, .err .badRef)
  | .partialEval r σ =>
    match h.look r with
    | some (u, d) =>
      if u.callable then
        if (necessary u.params d).all fun k => (keys σ).contains k then
          match assemble u.params d σ with
          | .ok kw => (h, .value u.fn kw)
          | .error e => (h, .err e)
        else
          -- copy.deepcopy(self), then set_default(**σ) on the copy
          h.addFresh u.fn u.callable u.params (setDefaults u.params d σ)
      else (h, .const u.fn)
    | none => (h, .err .badRef)
  | .setDefault r σ =>
    match h.look r with
    | some (u, d) => (⟨h.dicts.set u.cell (setDefaults u.params d σ), h.ws⟩, .unit)
    | none => (h, .err .badRef)
  | .removeDefault r ks =>
    match h.look r with
    | some (u, d) =>
      let (d', ok) := removeDefaults d ks
      (⟨h.dicts.set u.cell d', h.ws⟩, if ok then .unit else .err .keyError)
    | none => (h, .err .badRef)
  | .deepcopy r =>
    match h.look r with
    | some (u, d) => h.addFresh u.fn u.callable u.params d
    | none => (h, .err .badRef)

/-! ### the second container policy of the constructor

  `step` mirrors the constructor that ALIASES: `UserFunction(u)` stores `u.defaults` itself and an explicitly
  passed `defaults=` dict is used as it is.  The statement of C13 does not promise either sharing or isolation
  under `set_default`, so the constructor that gives every wrapper its OWN (shallow) copy of these containers
  is an equally valid implementation; `stepCopy` is that policy.  `copy.copy(u)` aliases under both. -/

inductive Policy | share | copy
  deriving DecidableEq, Repr

def stepCopy (h : Heap) : Op → Heap × Out
  | .rewrap r =>
    match h.look r with
    | some (u, d) => h.addFresh u.fn u.callable u.params d
    | none => (h, .err .badRef)
  | .wrapExplicit fn params (some c) =>
    match h.dicts[c]? with
    | some d => h.addFresh fn true params d
    | none => (h, .err .badRef)
  | op => step h op

def stepP : Policy → Heap → Op → Heap × Out
  | .share => step
  | .copy => stepCopy

def runP (pol : Policy) : Heap → List Op → Heap × List Out
  | h, [] => (h, [])
  | h, op :: ops =>
    let (h1, o) := stepP pol h op
    let (h2, os) := runP pol h1 ops
    (h2, o :: os)

/-- a history -/
def run : Heap → List Op → Heap × List Out
  | h, [] => (h, [])
  | h, op :: ops =>
    let (h1, o) := step h op
    let (h2, os) := run h1 ops
    (h2, o :: os)

/-! ### the pinned snapshot before the repair (`def __init__(self, fun, defaults={}, args={})`)

  Cell 0 is the one dict object Python creates for the default value of `defaults`; every
  construction that omits `defaults` stores *that object* in `self.defaults`, and the signature of a
  callable is only inspected `if … self.defaults == {} and self.args == {}`. -/

def Heap.initOld : Heap := ⟨[[]], []⟩

def stepOld (h : Heap) : Op → Heap × Out
  | .wrapFun fn names dflts =>
    match h.dicts[0]? with
    | some [] =>
      match alignDefaults names dflts with
      | some d => h.addFresh fn true names d
      | none => (h, .err .indexError)
    | some _ => h.addWrapper ⟨fn, true, [], 0⟩     -- not inspected: args stays the (empty) shared `{}`
    | none => (h, .err .badRef)
  | .wrapConst fn => h.addWrapper ⟨fn, false, [], 0⟩
  | .wrapExplicit fn params none => h.addWrapper ⟨fn, true, params, 0⟩
  | op => step h op

def runOld : Heap → List Op → Heap × List Out
  | h, [] => (h, [])
  | h, op :: ops =>
    let (h1, o) := stepOld h op
    let (h2, os) := runOld h1 ops
    (h2, o :: os)

end TPV.UserFun
