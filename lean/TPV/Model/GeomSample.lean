/-
  Sampling model shared by C01 (samples lie in their domain) and C11 (sampling laws).  Import-free.

  Mirrors the sampling code of src/torchphysics/problem/domains and .../samplers:

  (a) the *parametrisations* of every primitive and primitive boundary: the map from raw uniform
      draws (a "tape", recorded from `torch.rand`) and the parameter row to a point — random and grid
      variants, exactly as coded (order of operations included);
  (b) the *selection semantics* of the composite samplers (sampler_helper.py loops, union mixture,
      dependent product, translate / rotate, filtered / Gaussian / LHS samplers): which of the
      proposals delivered by the sub-samplers are returned, which counts are requested next.  The
      sub-samplers and membership tests are oracle arguments, loops take fuel.

  One row at a time: a point is produced for its own parameter row `ρ`.  Scalars: any `K` with the
  core notation classes plus `Transc K`; the driver runs `Float`, the proofs run ordered fields / ℝ.
  The names of the parametrisations are referred to by C11 — do not rename.
-/
import TPV.Model.Geom

namespace TPV.Geom

/-- scalar operations beyond field arithmetic that the sampling code uses -/
class Transc (K : Type) where
  sqrt : K → K
  cos : K → K
  sin : K → K
  arccos : K → K
  cbrt : K → K
  pi : K

instance : Transc Float := ⟨Float.sqrt, Float.cos, Float.sin, Float.acos, Float.cbrt, 3.141592653589793⟩

/-- Python's `int(x)` for a non-negative scalar (grid sizes) -/
class FloorNat (K : Type) where
  floorNat : K → Nat
  ceilNat : K → Nat

instance : FloorNat Float := ⟨fun x => (Float.floor x).toUInt64.toNat, fun x => (Float.ceil x).toUInt64.toNat⟩
instance : FloorNat Rat := ⟨fun x => x.floor.toNat, fun x => x.ceil.toNat⟩

section param
variable {K : Type} [Add K] [Sub K] [Mul K] [Div K] [Neg K] [LE K] [DecidableLE K] [OfNat K 0] [OfNat K 1]

/-- the scalar `n` -/
def natK : Nat → K
  | 0 => 0
  | n + 1 => natK n + 1

def two : K := 1 + 1

/-- `torch.clamp(x, min=0, max=1)` -/
def clamp01 (x : K) : K := if le x 0 then 0 else if le 1 x then 1 else x

/-! ### (a) parametrisations — random variants (`sample_random_uniform`) -/

/-- `Interval.sample_random_uniform`: `rand * (ub - lb) + lb` -/
def intervalSample (l u t : K) : K := t * (u - l) + l

/-- `IntervalBoundary.sample_random_uniform`: `where(rand < 0.5, lb, ub)` -/
def intervalBdrySample (l u t : K) : K := if le (1 / two) t then u else l

/-- `Parallelogram.sample_random_uniform`: `u·dir_1 + v·dir_2 + origin` -/
def parSample (ox oy ax ay bx cy u v : K) : K × K :=
  (u * (ax - ox) + v * (bx - ox) + ox, u * (ay - oy) + v * (cy - oy) + oy)

/-- `Triangle._handle_sum_greater_1`: mirror at (½,½) when `u + v ≥ 1` -/
def triMirror (u v : K) : K × K := if le 1 (u + v) then (1 - u, 1 - v) else (u, v)

/-- `Triangle.sample_random_uniform`: `u'·dir_1 − v'·dir_3 + origin`, `dir_3 = origin − corner_2`,
    `(u', v')` the mirrored draws -/
def triSample (ox oy ax ay bx cy u v : K) : K × K :=
  let m := triMirror u v
  (m.1 * (ax - ox) + (-m.2) * (ox - bx) + ox, m.1 * (ay - oy) + (-m.2) * (oy - cy) + oy)

/-- one side of the perimeter walk (`_scale_points_on_side`): move by `clamp(s/len, 0, 1)·dir`,
    then `s −= len` -/
def walkStep (st : (K × K) × K) (len dx dy : K) : (K × K) × K :=
  let c := clamp01 (st.2 / len)
  ((st.1.1 + c * dx, st.1.2 + c * dy), st.2 - len)

/-- `ParallelogramBoundary._transform_interval_to_boundary` (+ origin): walk `s ∈ [0, 2(l₁+l₂))` along
    dir_1, dir_2, −dir_1, −dir_2.  `l1`, `l2` are the side lengths the code computes with norms. -/
def parBdryWalk (ox oy ax ay bx cy l1 l2 s : K) : K × K :=
  let d1x := ax - ox; let d1y := ay - oy; let d2x := bx - ox; let d2y := cy - oy
  let st := walkStep ((0, 0), s) l1 d1x d1y
  let st := walkStep st l2 d2x d2y
  let st := walkStep st l1 (-d1x) (-d1y)
  let st := walkStep st l2 (-d2x) (-d2y)
  (st.1.1 + ox, st.1.2 + oy)

/-- `TriangleBoundary._transform_interval_to_boundary` (+ origin): dir_1 = c1 − o, dir_2 = c2 − c1,
    dir_3 = o − c2 -/
def triBdryWalk (ox oy ax ay bx cy l1 l2 l3 s : K) : K × K :=
  let st := walkStep ((0, 0), s) l1 (ax - ox) (ay - oy)
  let st := walkStep st l2 (bx - ax) (cy - ay)
  let st := walkStep st l3 (ox - bx) (oy - cy)
  (st.1.1 + ox, st.1.2 + oy)

variable [Transc K]

def norm2 (x y : K) : K := Transc.sqrt (x * x + y * y)

/-- `Circle.sample_random_uniform`: `√u₁·r·(cos 2πu₂, sin 2πu₂) + c` -/
def circleSample (cx cy r u1 u2 : K) : K × K :=
  let rad := Transc.sqrt u1 * r
  let phi := two * Transc.pi * u2
  (rad * Transc.cos phi + cx, rad * Transc.sin phi + cy)

/-- `CircleBoundary.sample_random_uniform` -/
def circleBdrySample (cx cy r u : K) : K × K :=
  let phi := two * Transc.pi * u
  (r * Transc.cos phi + cx, r * Transc.sin phi + cy)

/-- polar angle of the ball samplers: `arccos(2w − 1) − π/2` -/
def sphereTheta (w : K) : K := Transc.arccos (two * w - 1) - Transc.pi / two

/-- `Sphere.sample_random_uniform`: radius `u₁^{1/3}·r`, azimuth `2πu₂`, polar angle `sphereTheta u₃` -/
def sphereSample (cx cy cz r u1 u2 u3 : K) : K × K × K :=
  let rad := Transc.cbrt u1 * r
  let phi := two * Transc.pi * u2
  let th := sphereTheta u3
  (rad * Transc.cos phi * Transc.cos th + cx, rad * Transc.sin phi * Transc.cos th + cy, rad * Transc.sin th + cz)

/-- `SphereBoundary.sample_random_uniform` -/
def sphereBdrySample (cx cy cz r u2 u3 : K) : K × K × K :=
  let phi := two * Transc.pi * u2
  let th := sphereTheta u3
  (r * Transc.cos phi * Transc.cos th + cx, r * Transc.sin phi * Transc.cos th + cy, r * Transc.sin th + cz)

/-- `ParallelogramBoundary.sample_random_uniform`: position `u·2(l₁+l₂)` on the perimeter -/
def parBdrySample (ox oy ax ay bx cy u : K) : K × K :=
  let l1 := norm2 (ax - ox) (ay - oy)
  let l2 := norm2 (bx - ox) (cy - oy)
  parBdryWalk ox oy ax ay bx cy l1 l2 (u * (two * (l1 + l2)))

/-- `TriangleBoundary.sample_random_uniform` -/
def triBdrySample (ox oy ax ay bx cy u : K) : K × K :=
  let l1 := norm2 (ax - ox) (ay - oy)
  let l2 := norm2 (bx - ax) (cy - ay)
  let l3 := norm2 (ox - bx) (oy - cy)
  triBdryWalk ox oy ax ay bx cy l1 l2 l3 (u * (l1 + l2 + l3))

/-! ### (a) parametrisations — grid variants (`sample_grid`) -/

/-- `linspace(0, 1, n + 2)[1:-1][j]` -/
def linInner (n j : Nat) : K := natK (j + 1) / natK (n + 1)

/-- `linspace(0, 1, n + 1)[:-1][j]` -/
def linOpen (n j : Nat) : K := natK j / natK n

/-- `Interval.sample_grid`: `(ub − lb)·g + lb` -/
def intervalGrid (l u : K) (n j : Nat) : K := (u - l) * linInner n j + l

/-- `IntervalBoundary.sample_grid`: `where([F, T, F, T, …][j], lb, ub)` -/
def intervalBdryGrid (l u : K) (j : Nat) : K := if j % 2 == 1 then l else u

/-- `Circle._equidistant_points_in_circle` (sunflower), scaled: j = 1 … n -/
def circleGrid (cx cy r : K) (n j : Nat) : K × K :=
  let gr : K := (Transc.sqrt (natK 5) + 1) / two
  let phi := (two * Transc.pi / gr) * natK j
  let rad := Transc.sqrt (natK j - 1 / two) / Transc.sqrt (natK n + 1 / two)
  (r * (rad * Transc.cos phi) + cx, r * (rad * Transc.sin phi) + cy)

/-- `CircleBoundary.sample_grid`: angle `linspace(0, 2π, n + 1)[j]` -/
def circleBdryGrid (cx cy r : K) (n j : Nat) : K × K :=
  let phi := two * Transc.pi * linOpen n j
  (r * Transc.cos phi + cx, r * Transc.sin phi + cy)

/-- `SphereBoundary.sample_grid` (Fibonacci sphere), j = 0 … n−1; the code divides by `max(n − 1, 1)`
    (since fix 62832b1; before: `n − 1`, i.e. 0/0 for a single point) -/
def sphereBdryGrid (cx cy cz r : K) (n j : Nat) : K × K × K :=
  let golden := Transc.pi * (natK 3 - Transc.sqrt (natK 5))
  let y := 1 - natK j / natK (max (n - 1) 1) * two
  let cr := Transc.sqrt (1 - y * y)
  let th := golden * natK j
  (cr * Transc.cos th * r + cx, y * r + cy, cr * Transc.sin th * r + cz)

/-- barycentric mesh of `_compute_barycentric_grid`: row `idx` of the `n1 × n2` inner grid
    (x index runs fastest) -/
def baryGrid (n1 n2 idx : Nat) : K × K := (linInner n1 (idx % n1), linInner n2 (idx / n1))

/-- `ParallelogramBoundary.sample_grid` / `TriangleBoundary.sample_grid`: perimeter position
    `linspace(0,1,n+1)[j]·total` -/
def parBdryGrid (ox oy ax ay bx cy : K) (n j : Nat) : K × K :=
  let l1 := norm2 (ax - ox) (ay - oy)
  let l2 := norm2 (bx - ox) (cy - oy)
  parBdryWalk ox oy ax ay bx cy l1 l2 (linOpen n j * (two * (l1 + l2)))

def triBdryGrid (ox oy ax ay bx cy : K) (n j : Nat) : K × K :=
  let l1 := norm2 (ax - ox) (ay - oy)
  let l2 := norm2 (bx - ax) (cy - ay)
  let l3 := norm2 (ox - bx) (oy - cy)
  triBdryWalk ox oy ax ay bx cy l1 l2 l3 (linOpen n j * (l1 + l2 + l3))

variable [FloorNat K]

/-- grid sizes of `Parallelogram._compute_barycentric_grid`: `int(√(n·l₁/l₂))`, `int(√(n·l₂/l₁))` -/
def parGridCounts (n : Nat) (l1 l2 : K) : Nat × Nat :=
  (FloorNat.floorNat (Transc.sqrt (natK n * l1 / l2)), FloorNat.floorNat (Transc.sqrt (natK n * l2 / l1)))

/-- `Parallelogram.sample_grid` with `n`: the inner barycentric mesh, then random barycentric
    coordinates (`topup`, from the tape) when the mesh has fewer than `n` nodes — never more -/
def parGridBary (n : Nat) (l1 l2 : K) (topup : List (K × K)) : List (K × K) :=
  let c := parGridCounts n l1 l2
  let mesh := (List.range (c.1 * c.2)).map (baryGrid c.1 c.2)
  if mesh.length < n then mesh ++ topup.take (n - mesh.length) else mesh

/-- `Triangle.sample_grid` with `n`: mesh for `2n`, keep `u + v ≤ 1`, cut to the first `n` or top up with
    mirrored random draws -/
def triGridBary (n : Nat) (l1 l3 : K) (topup : List (K × K)) : List (K × K) :=
  let c := parGridCounts (2 * n) l1 l3
  let mesh := ((List.range (c.1 * c.2)).map (baryGrid c.1 c.2)).filter (fun b => le (b.1 + b.2) 1)
  if mesh.length < n then mesh ++ (topup.take (n - mesh.length)).map (fun b => triMirror b.1 b.2)
  else mesh.take n

/-- the candidates of `Triangle.sample_grid` before the first-n cut: the whole filtered mesh and the mirrored
    top-up draws.  The returned grid (`triGridBary`) is a sub-list of it; WHICH n mesh nodes survive the cut
    depends on the row order of the mesh, which the property does not care about. -/
def triGridPoolBary (n : Nat) (l1 l3 : K) (topup : List (K × K)) : List (K × K) :=
  let c := parGridCounts (2 * n) l1 l3
  ((List.range (c.1 * c.2)).map (baryGrid c.1 c.2)).filter (fun b => le (b.1 + b.2) 1) ++
    topup.map (fun b => triMirror b.1 b.2)

/-- axis of `Sphere._point_grid_in_box`: `linspace(−r, r, m)[i]` -/
def boxAxis (r : K) (m i : Nat) : K := -r + (two * r) * (natK i / natK (m - 1))

/-- `Sphere.sample_grid` for `n > 10`: nodes of the `m³` box mesh (`m = ⌈(6n/π)^{1/3}⌉`) inside the ball,
    x index slowest … as `permute(3,2,1,0)` orders them: index = ((k·m) + j)·m + i ↦ (axis i, axis j, axis k) -/
def sphereGridBox (r : K) (n : Nat) : List (K × K × K) :=
  let m := FloorNat.ceilNat (Transc.cbrt ((natK n : K) * natK 6 / Transc.pi))
  ((List.range (m * m * m)).map fun idx =>
      (boxAxis r m (idx % m), boxAxis r m ((idx / m) % m), boxAxis r m (idx / (m * m)))).filter
    fun p => le (p.1 * p.1 + p.2.1 * p.2.1 + p.2.2 * p.2.2) (r * r)

/-- `Sphere.sample_grid` with `n`: for `n > 10` the nodes of the box mesh inside the ball (moved to the centre),
    cut to the first `n` (fix 94ff128) or topped up with random ball samples (`topup` = their draws) -/
def sphereGridPts (cx cy cz r : K) (n : Nat) (topup : List (K × K × K)) : List (K × K × K) :=
  let box := if n > 10 then (sphereGridBox r n).map (fun p => (p.1 + cx, p.2.1 + cy, p.2.2 + cz)) else []
  if n ≤ box.length then box.take n
  else box ++ (topup.take (n - box.length)).map fun u => sphereSample cx cy cz r u.1 u.2.1 u.2.2

end param

/-! ### one-row primitive samplers on domain expressions

  Parameter functions are evaluated at the parameter row only (`self.lower_bound(params)` …): a
  primitive whose parameter reads a variable that `ρ` does not bind yields `none` (the code raises). -/

section prim
variable {K : Type} [Add K] [Sub K] [Mul K] [Div K] [Neg K] [LE K] [DecidableLE K] [OfNat K 0] [OfNat K 1]
  [Transc K]

/-- `sample_random_uniform` of a primitive or primitive boundary for one output row; `tape` = the
    uniform draws that row consumes, in the order the code draws them -/
def primSample : Dom K → Env K → List K → Option (Env K)
  | .interval v lb ub, ρ, [t] =>
    match lb.f ρ, ub.f ρ with
    | [l], [u] => some [(v, [intervalSample l u t])]
    | _, _ => none
  | .par v o c1 c2, ρ, [s, t] =>
    match o.f ρ, c1.f ρ, c2.f ρ with
    | [ox, oy], [ax, ay], [bx, cy] => let p := parSample ox oy ax ay bx cy s t; some [(v, [p.1, p.2])]
    | _, _, _ => none
  | .tri v o c1 c2, ρ, [s, t] =>
    match o.f ρ, c1.f ρ, c2.f ρ with
    | [ox, oy], [ax, ay], [bx, cy] => let p := triSample ox oy ax ay bx cy s t; some [(v, [p.1, p.2])]
    | _, _, _ => none
  | .circle v c r, ρ, [u1, u2] =>
    match c.f ρ, r.f ρ with
    | [cx, cy], [rr] => let p := circleSample cx cy rr u1 u2; some [(v, [p.1, p.2])]
    | _, _ => none
  | .sphere v c r, ρ, [u1, u2, u3] =>
    match c.f ρ, r.f ρ with
    | [cx, cy, cz], [rr] => let p := sphereSample cx cy cz rr u1 u2 u3; some [(v, [p.1, p.2.1, p.2.2])]
    | _, _ => none
  | .bdry (.interval v lb ub), ρ, [t] =>
    match lb.f ρ, ub.f ρ with
    | [l], [u] => some [(v, [intervalBdrySample l u t])]
    | _, _ => none
  | .bdryL (.interval v lb _), ρ, [] =>
    match lb.f ρ with
    | [l] => some [(v, [l])]
    | _ => none
  | .bdryR (.interval v _ ub), ρ, [] =>
    match ub.f ρ with
    | [u] => some [(v, [u])]
    | _ => none
  | .bdry (.par v o c1 c2), ρ, [t] =>
    match o.f ρ, c1.f ρ, c2.f ρ with
    | [ox, oy], [ax, ay], [bx, cy] => let p := parBdrySample ox oy ax ay bx cy t; some [(v, [p.1, p.2])]
    | _, _, _ => none
  | .bdry (.tri v o c1 c2), ρ, [t] =>
    match o.f ρ, c1.f ρ, c2.f ρ with
    | [ox, oy], [ax, ay], [bx, cy] => let p := triBdrySample ox oy ax ay bx cy t; some [(v, [p.1, p.2])]
    | _, _, _ => none
  | .bdry (.circle v c r), ρ, [t] =>
    match c.f ρ, r.f ρ with
    | [cx, cy], [rr] => let p := circleBdrySample cx cy rr t; some [(v, [p.1, p.2])]
    | _, _ => none
  | .bdry (.sphere v c r), ρ, [u2, u3] =>
    match c.f ρ, r.f ρ with
    | [cx, cy, cz], [rr] => let p := sphereBdrySample cx cy cz rr u2 u3; some [(v, [p.1, p.2.1, p.2.2])]
    | _, _ => none
  | _, _, _ => none

variable [FloorNat K]

/-- `sample_grid(n)` of a primitive or primitive boundary for one parameter row: all `n` points.
    `topup` = the random draws of the top-up steps (barycentric pairs for parallelogram / triangle,
    whole ball samples for the sphere), `none` where the code raises. -/
def primGrid : Dom K → Env K → Nat → List (List K) → Option (List (Env K))
  | .interval v lb ub, ρ, n, _ =>
    match lb.f ρ, ub.f ρ with
    | [l], [u] => some ((List.range n).map fun j => [(v, [intervalGrid l u n j])])
    | _, _ => none
  | .par v o c1 c2, ρ, n, topup =>
    match o.f ρ, c1.f ρ, c2.f ρ with
    | [ox, oy], [ax, ay], [bx, cy] =>
      let bs := parGridBary n (norm2 (ax - ox) (ay - oy)) (norm2 (bx - ox) (cy - oy))
        (topup.filterMap fun | [a, b] => some (a, b) | _ => none)
      some (bs.map fun b => let p := parSample ox oy ax ay bx cy b.1 b.2; [(v, [p.1, p.2])])
    | _, _, _ => none
  | .tri v o c1 c2, ρ, n, topup =>
    match o.f ρ, c1.f ρ, c2.f ρ with
    | [ox, oy], [ax, ay], [bx, cy] =>
      let bs := triGridBary n (norm2 (ax - ox) (ay - oy)) (norm2 (ox - bx) (oy - cy))
        (topup.filterMap fun | [a, b] => some (a, b) | _ => none)
      -- no second mirror: `parSample` with the (already mirrored / filtered) barycentric pair
      some (bs.map fun b => let p := parSample ox oy ax ay bx cy b.1 b.2; [(v, [p.1, p.2])])
    | _, _, _ => none
  | .circle v c r, ρ, n, _ =>
    match c.f ρ, r.f ρ with
    | [cx, cy], [rr] => some ((List.range n).map fun j => let p := circleGrid cx cy rr n (j + 1); [(v, [p.1, p.2])])
    | _, _ => none
  | .sphere v c r, ρ, n, topup =>
    match c.f ρ, r.f ρ with
    | [cx, cy, cz], [rr] =>
      some ((sphereGridPts cx cy cz rr n (topup.filterMap fun | [u1, u2, u3] => some (u1, u2, u3) | _ => none)).map
        fun p => [(v, [p.1, p.2.1, p.2.2])])
    | _, _ => none
  | .bdry (.interval v lb ub), ρ, n, _ =>
    match lb.f ρ, ub.f ρ with
    | [l], [u] => some ((List.range n).map fun j => [(v, [intervalBdryGrid l u j])])
    | _, _ => none
  | .bdryL (.interval v lb _), ρ, n, _ =>
    match lb.f ρ with
    | [l] => some (List.replicate n [(v, [l])])
    | _ => none
  | .bdryR (.interval v _ ub), ρ, n, _ =>
    match ub.f ρ with
    | [u] => some (List.replicate n [(v, [u])])
    | _ => none
  | .bdry (.par v o c1 c2), ρ, n, _ =>
    match o.f ρ, c1.f ρ, c2.f ρ with
    | [ox, oy], [ax, ay], [bx, cy] =>
      some ((List.range n).map fun j => let p := parBdryGrid ox oy ax ay bx cy n j; [(v, [p.1, p.2])])
    | _, _, _ => none
  | .bdry (.tri v o c1 c2), ρ, n, _ =>
    match o.f ρ, c1.f ρ, c2.f ρ with
    | [ox, oy], [ax, ay], [bx, cy] =>
      some ((List.range n).map fun j => let p := triBdryGrid ox oy ax ay bx cy n j; [(v, [p.1, p.2])])
    | _, _, _ => none
  | .bdry (.circle v c r), ρ, n, _ =>
    match c.f ρ, r.f ρ with
    | [cx, cy], [rr] => some ((List.range n).map fun j => let p := circleBdryGrid cx cy rr n j; [(v, [p.1, p.2])])
    | _, _ => none
  | .bdry (.sphere v c r), ρ, n, _ =>
    match c.f ρ, r.f ρ with
    | [cx, cy, cz], [rr] =>
      some ((List.range n).map fun j => let p := sphereBdryGrid cx cy cz rr n j; [(v, [p.1, p.2.1, p.2.2])])
    | _, _ => none
  | _, _, _, _ => none

end prim

/-! ### (b) selection semantics of the composite samplers

  `α` is the type of a proposal (a point together with its parameter row).  `prop` stands for the
  sub-sampler (`round ↦ requested count ↦ proposals`), `ok` for the membership test the code applies. -/

section select
variable {α : Type}

/-- next request of `_random_points_inside`: `5·req` if nothing was valid, else `req²/valid + 1`
    (a Python float; the next round asks for `int(req)`) -/
def nextReq (req : Rat) (valid : Nat) : Rat :=
  if valid = 0 then 5 * req else req * req / (valid : Rat) + 1

/-- D.1 one parameter row of `sampler_helper._random_points_inside` (cut / intersection, `n ≥ 2`, and
    the top-up of the grid path): fresh proposals every round, stop when one round has `≥ n` valid
    proposals, return the first `n` valid ones **of that round**.  Also returns the requested counts. -/
def insideRow (n : Nat) (prop : Nat → Nat → List α) (ok : α → Bool) : Nat → Nat → Rat → List Nat → Option (List Nat × List α)
  | 0, _, _, _ => none
  | fuel + 1, rd, req, reqs =>
    let m := req.floor.toNat
    let valid := (prop rd m).filter ok
    if n ≤ valid.length then some (reqs ++ [m], valid.take n)
    else insideRow n prop ok fuel (rd + 1) (nextReq req valid.length) (reqs ++ [m])

/-- D.2 `_random_points_if_n_eq_1`: one proposal per parameter row and round; a row is (over)written
    whenever its proposal is valid; stop when every row has been written once.  The code starts with
    `n1Rows k = max(k, 1)` unwritten rows (fix 65cd845; before: `k` rows, so no point at all for `k = 0`). -/
def n1Loop (prop : Nat → List α) (ok : α → Bool) : Nat → Nat → List (Option α) → Option (Nat × List α)
  | fuel, rd, final =>
    if final.all Option.isSome then some (rd, final.filterMap id)
    else match fuel with
      | 0 => none
      | fuel + 1 =>
        let ps := prop rd
        let final' := (final.zip ps).map fun (old, p) => if ok p then some p else old
        if ps.length = final.length then n1Loop prop ok fuel (rd + 1) final' else none

def n1Rows (k : Nat) : Nat := max k 1

/-- D.2b `_random_boundary_points_if_n_eq_1`: alternate `∂A`, `∂B`; only rows not yet found are written -/
def n1BdryLoop (propA propB : Nat → List α) (ok : α → Bool) : Nat → Nat → List (Option α) → Option (Nat × List α)
  | fuel, rd, final =>
    if final.all Option.isSome then some (rd, final.filterMap id)
    else match fuel with
      | 0 => none
      | fuel + 1 =>
        let ps := if rd % 2 == 0 then propA rd else propB rd
        let final' := (final.zip ps).map fun (old, p) => if ok p && old.isNone then some p else old
        if ps.length = final.length then n1BdryLoop propA propB ok fuel (rd + 1) final' else none

/-- accumulate loop shared by `_random_points_boundary` (D.4), `_sample_n_points_with_filter`,
    `GaussianSampler._sample_points`: valid proposals of every round are appended until `≥ n`; the
    first `n` are returned.  `giveUp iter found` = the code raises (filter sampler: 20 rounds, nothing found). -/
def accLoop (n : Nat) (prop : Nat → List α) (ok : α → Bool) (giveUp : Nat → Nat → Bool) :
    Nat → Nat → List α → Option (Nat × List α)
  | fuel, rd, acc =>
    if n ≤ acc.length then some (rd, acc.take n)
    else match fuel with
      | 0 => none
      | fuel + 1 =>
        let acc' := acc ++ (prop rd).filter ok
        if giveUp (rd + 1) acc'.length then none else accLoop n prop ok giveUp fuel (rd + 1) acc'

/-- D.4 proposals of `_random_points_boundary`: even rounds `∂A` (`reqA` points), odd rounds `∂B` -/
def bdryProp (propA propB : Nat → Nat → List α) (reqA reqB : Nat) (rd : Nat) : List α :=
  if rd % 2 == 0 then propA rd reqA else propB rd reqB

/-- D.3 `_inside_grid_with_n`; `topup m` = D.1 for the missing `m` points (`topup n` = all random when
    no grid point is valid, fix b6d3b9c; before: `ZeroDivisionError`, see `gridInsideOld`). -/
def gridInside (n : Nat) (gridA : Nat → List α) (ok : α → Bool) (topup : Nat → Option (List α)) : Option (Nat × List α) :=
  let g := gridA n
  let v := (g.filter ok).length
  if v = n then some (n, g)
  else if v = 0 then (topup n).map fun r => (0, r)
  else
    let m := n * n / v
    let g2 := (gridA m).filter ok
    if n ≤ g2.length then some (m, g2.take n)
    else (topup (n - g2.length)).map fun r => (m, g2 ++ r)

/-- D.3 before fix b6d3b9c: `int(n**2 / 0)` raises when no grid point is valid -/
def gridInsideOld (n : Nat) (gridA : Nat → List α) (ok : α → Bool) (topup : Nat → Option (List α)) : Option (Nat × List α) :=
  if ((gridA n).filter ok).length = 0 ∧ n ≠ 0 then none else gridInside n gridA ok topup

/-- D.5 `_boundary_grid_with_n`; `scale a b` = the rescaled grid sizes (recorded: float32 surface
    estimates), `none` = `OverflowError` when nothing was accepted -/
def gridBdry (n : Nat) (gridA gridB : Nat → List α) (ok : α → Bool) (scale : Nat → Nat → Option (Nat × Nat))
    (topup : Nat → Option (List α)) : Option (List α) :=
  let a := (gridA n).filter ok
  let b := (gridB n).filter ok
  if a.length + b.length = n then some (a ++ b)
  else if a.length + b.length = 0 then topup n          -- all random (fix b6d3b9c; before: OverflowError)
  else match scale a.length b.length with
    | none => none
    | some (sa, sb) =>
      let g := (gridA sa).filter ok ++ (gridB sb).filter ok
      if n ≤ g.length then some (g.take n) else (topup (n - g.length)).map fun r => g ++ r

/-- D.6 `UnionDomain._sample_random_with_n`, one output row: `where(in_a ∨ u ≤ ratio, a, b)`;
    `inA` = "the b-proposal lies in A" -/
def unionPick {K} [LE K] [DecidableLE K] (inA : Bool) (u ratio : K) (pa pb : α) : α :=
  if inA || decide (u ≤ ratio) then pa else pb

/-- D.6 union with a density / `_append_points`: all of `A`'s points, then `B`'s points outside `A` -/
def unionAppend (pa pb : List α) (inA : α → Bool) : List α := pa ++ pb.filter (fun p => !inA p)

/-- D.6 `UnionDomain._sample_grid_with_n`: `m = ⌈n·|A|/(|A|+|B|)⌉` (recorded), A-grid minus B, B-grid for the rest -/
def unionGrid (n m : Nat) (gridA gridB : Nat → List α) (inB : α → Bool) : List α :=
  let ga := gridA m
  if n - m > 0 then
    let keep := ga.filter (fun p => !inB p)
    keep ++ gridB (n - keep.length)
  else ga

/-- cut / intersection with a density (`_cut_points`): filter A's points by the partner test -/
def cutPoints (pa : List α) (okB : α → Bool) : List α := pa.filter okB

/-- D.7 acceptance step of `ProductDomain._sample_uniform_b_points`: a single candidate is kept as
    is; otherwise keep row `i` iff `max(vol)·uᵢ < volᵢ` -/
def prodAccept {K} [Mul K] [LE K] [DecidableLE K] (cands : List (α × K × K)) : List α :=
  match cands with
  | [c] => [c.1]
  | _ =>
    match cands.map (·.2.1) with
    | [] => []
    | v :: vs =>
      let mx := vs.foldl (fun a b => if a ≤ b then b else a) v
      (cands.filter fun c => !decide (c.2.1 ≤ mx * c.2.2)).map (·.1)

/-- D.7 the count loop of the dependent `ProductDomain.sample_random_uniform(n)`: `batch rd m` = the
    accepted b-points of a call with `n_in = m`.  Compares the number of kept rows with `n`
    (not `n·k`); `none` = `ZeroDivisionError` (nothing kept) or out of fuel. -/
def prodLoop (n : Nat) (batch : Nat → Nat → List α) : Nat → Nat → List α → Option (List α)
  | fuel, rd, acc =>
    if acc.length = n then some acc
    else if n < acc.length then some (acc.take n)
    else match fuel with
      | 0 => none
      | fuel + 1 =>
        if acc.length = 0 then none
        else
          -- `int((n / n_points - 1) * n_sampled) + 1` with `n_sampled = n`
          let guess := (((n : Rat) / (acc.length : Rat) - 1) * (n : Rat)).floor.toNat + 1
          prodLoop n batch fuel (rd + 1) (acc ++ batch (rd + 1) guess)

def prodSample (n : Nat) (batch : Nat → Nat → List α) (fuel : Nat) : Option (List α) :=
  prodLoop n batch fuel 0 (batch 0 n)

/-- `LHSSampler`, one parameter row: stratified proposals inside the box that pass the membership
    test, topped up by the uniform sampler -/
def lhsRow (n : Nat) (props : List α) (ok : α → Bool) (topup : Nat → List α) : List α :=
  let kept := props.filter ok
  if kept.length = n then kept else kept ++ topup (n - kept.length)

/-- `GridSampler._sample_n_points_with_filter`, one parameter row: grid `n`, filter; if not exactly `n`:
    re-grid with `⌊n²/kept⌋` (`10n` if none), filter, append `n` filtered random points, cut to `n` -/
def gridFilterRow (n : Nat) (grid : Nat → List α) (ok : α → Bool) (rnd : List α) : List α :=
  let g := (grid n).filter ok
  if g.length = n then g
  else
    let m := if g.length = 0 then 10 * n else n * n / g.length
    let g2 := (grid m).filter ok
    (if g2.length = n then g2 else g2 ++ rnd).take n

end select

/-! ### rigid motions applied to samples (`Translate._translate_points`, `Rotate._rotate_points`) -/

section motion
variable {K : Type} [Add K] [Sub K] [Mul K]

/-- `p + t(ρ)` component-wise; `none` on a dimension mismatch -/
def translatePt : List K → List K → Option (List K)
  | [x], [tx] => some [x + tx]
  | [x, y], [tx, ty] => some [x + tx, y + ty]
  | [x, y, z], [tx, ty, tz] => some [x + tx, y + ty, z + tz]
  | _, _ => none

/-- `M(ρ)·(p − c(ρ)) + c(ρ)` in 2-D -/
def rotatePt : List K → List K → List K → Option (List K)
  | [x, y], [m00, m01, m10, m11], [cx, cy] =>
    some [m00 * (x - cx) + m01 * (y - cy) + cx, m10 * (x - cx) + m11 * (y - cy) + cy]
  | _, _, _ => none

/-- `Translate.sample_*`: the inner sample of the row moved by the row's own translation -/
def translateSample (v : String) (t : PFun K) (ρ : Env K) (inner : Env K) : Option (Env K) :=
  match inner.get v with
  | some q => (translatePt q (t.f ρ)).map fun p => [(v, p)]
  | none => none

/-- `Rotate.sample_*` -/
def rotateSample (v : String) (m c : PFun K) (ρ : Env K) (inner : Env K) : Option (Env K) :=
  match inner.get v with
  | some q => (rotatePt q (m.f ρ) (c.f ρ)).map fun p => [(v, p)]
  | none => none

end motion

end TPV.Geom
