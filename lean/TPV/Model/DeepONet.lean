/-
  C09 — DeepONet contraction, feature reshape, branch-input variants, and the fast trunk layer
  (`TrunkLinear` / autograd function `linear`) with its coded backward.  Import-free, executable.

  Mirrors  src/torchphysics/models/deeponet/{deeponet,layers,trunknets,branchnets}.py  and
  src/torchphysics/problem/domains/functionsets/functionset.py  as they are coded.

  Tensors are nested lists (row-major).  A trunk input is rank 2 `(locations, in)` or rank 3
  `(copies, locations, in)`; everything is polymorphic in the scalar `K` (the driver runs `Rat` and
  `Float`, the theorems are over any commutative ring).
-/
namespace TPV.DeepONet

section
variable {K : Type} [Add K] [Mul K] [OfNat K 0]

/-- `torch.sum` of a vector -/
def sumL (l : List K) : K := l.foldr (· + ·) 0

/-- `sum(a * b, dim=-1)` for two vectors -/
def dot (a b : List K) : K := sumL (List.zipWith (· * ·) a b)

/-- elementwise sum of two vectors -/
def vadd (a b : List K) : List K := List.zipWith (· + ·) a b

/-- scalar times vector -/
def smul (c : K) (v : List K) : List K := v.map (c * ·)

/-! ## flat reshapes -/

/-- consecutive chunks `l[c*k ..< (c+1)*k]`, `c < cnt` -/
def chunkN (k cnt : Nat) (l : List K) : List (List K) :=
  (List.range cnt).map (fun c => (l.drop (c * k)).take k)

/-- `tensor.reshape(-1, k)` on flat data: torch accepts it iff `k > 0` and the number of elements is
    a multiple of `k`; it then simply re-cuts the row-major data (rows of the input are NOT respected
    when their length is not `k`). -/
def rechunk (flat : List K) (k : Nat) : Except String (List (List K)) :=
  if k = 0 then .error "err:shape"
  else if flat.length % k ≠ 0 then .error "err:shape"
  else .ok (chunkN k (flat.length / k) flat)

/-- `FCBranchNet.forward`: `as_tensor.reshape(-1, input_dim)` of a `(functions, points, fdim)` batch -/
def branchFlatten (batch : List (List (List K))) (inputDim : Nat) : Except String (List (List K)) :=
  rechunk (batch.map List.flatten).flatten inputDim

/-- `TrunkNet.finalize` / `BranchNet.finalize` (after the repair): the neurons must split evenly
    over the output components -/
def finalizeOk (d neurons : Nat) : Bool := d ≠ 0 && neurons % d = 0

/-- one feature row → `(output_dim, neurons / output_dim)`: feature `c*(N/d)+k` ↦ `(c, k)` -/
def splitRow (d neurons : Nat) (row : List K) : List (List K) :=
  chunkN (neurons / d) d row

/-- `_reshape_multidimensional_output` on a rank-2 feature matrix `(rows, neurons)`:
    `output.reshape(-1, d, neurons/d)` -/
def reshapeFeat (d neurons : Nat) (rows : List (List K)) : Except String (List (List (List K))) :=
  if !finalizeOk d neurons then .error "err:neurons"
  else do
    let r ← rechunk rows.flatten (d * (neurons / d))
    pure (r.map (splitRow d neurons))

/-- the reshape of the pinned snapshot (no divisibility check): `int(neurons / d)`, flat re-cut -/
def reshapeFeatOld (d neurons : Nat) (rows : List (List K)) : Except String (List (List (List K))) :=
  if d = 0 then .error "err:zerodiv"
  else do
    let r ← rechunk rows.flatten (d * (neurons / d))
    pure (r.map (chunkN (neurons / d) d))

/-! ## the contraction of `DeepONet.forward` -/

/-- output of one (function, location) pair: per component the inner product over the neuron axis;
    `sum(trunk * branch, dim=-1)` -/
def outAt (tj : List (List K)) (bi : List (List K)) : List K :=
  List.zipWith dot tj bi

/-- all locations of one trunk copy against one function -/
def outRow (ti : List (List (List K))) (bi : List (List K)) : List (List K) :=
  ti.map (fun tj => outAt tj bi)

/-- `torch.sum(trunk_out * branch.current_out.unsqueeze(1), dim=-1)`:
    `trunk_out : (Bt, N, d, k)`, `branch : (B, d, k)`; axis 0 broadcasts (`Bt = B`, or one of them 1) -/
def contract (tr : List (List (List (List K)))) (br : List (List (List K))) :
    Except String (List (List (List K))) :=
  if tr.length = br.length then .ok (List.zipWith outRow tr br)
  else match tr, br with
    | [t0], _ => .ok (br.map (outRow t0))
    | _, [b0] => .ok (tr.map (fun t => outRow t b0))
    | _, _ => .error "err:shape"

/-! ## linear layers -/

structure Layer (K : Type) where
  W : List (List K)          -- (out, in)
  b : Option (List K)        -- (out) or no bias
deriving Repr

/-- `x Wᵀ + b` for one row -/
def affineRow (L : Layer K) (x : List K) : List K :=
  let y := L.W.map (fun w => dot x w)
  match L.b with
  | some b => vadd y b
  | none => y

/-- rank-2 or rank-3 tensor -/
inductive T23 (K : Type) where
  | r2 (x : List (List K))
  | r3 (x : List (List (List K)))
deriving Repr

def T23.map (f : List K → List K) : T23 K → T23 K
  | .r2 x => .r2 (x.map f)
  | .r3 x => .r3 (x.map (·.map f))

/-- `torch.nn.Linear` -/
def plainLinear (L : Layer K) (x : T23 K) : Except String (T23 K) := .ok (x.map (affineRow L))

/-- `layers.linear.forward`: unsqueeze a rank-2 input, evaluate on the FIRST copy only, expand -/
def fastLinear (L : Layer K) : T23 K → Except String (T23 K)
  | .r2 x => .ok (.r3 [x.map (affineRow L)])
  | .r3 [] => .error "err:index"
  | .r3 (x0 :: rest) => .ok (.r3 (List.replicate (rest.length + 1) (x0.map (affineRow L))))

/-- `nn.Sequential(Linear, act₀, Linear, act₁, …, Linear)` as built by `_construct_FC_layers` /
    `construct_FC_trunk_layers`: hidden layer `i` is followed by ITS OWN activation `acts[i]`
    (a single activation object is first replicated `len(hidden)` times by the builders; a list that
    is too short raises `IndexError`, surplus entries are ignored), the last layer by none. -/
def fcNet (lin : Layer K → T23 K → Except String (T23 K)) :
    List (K → K) → List (Layer K) → T23 K → Except String (T23 K)
  | _, [], _ => .error "err:nolayers"
  | _, [l], x => lin l x
  | [], _ :: _ :: _, _ => .error "err:index"
  | a :: acts, l :: l' :: ls, x => do
    let y ← lin l x
    fcNet lin acts (l' :: ls) (y.map (·.map a))

/-- `TrunkNet._reshape_multidimensional_output` followed by the `unsqueeze(0)` of `DeepONet.forward` -/
def trunkReshape (d neurons : Nat) : T23 K → Except String (List (List (List (List K))))
  | .r2 x => do
    let r ← reshapeFeat d neurons x
    pure [r]
  | .r3 x =>
    if !finalizeOk d neurons then .error "err:neurons"
    else
      -- output.reshape(shape[0], shape[1], d, neurons/d): every row must have d*(neurons/d) entries
      if x.all (·.all (fun row => row.length = d * (neurons / d))) then
        .ok (x.map (·.map (splitRow d neurons)))
      else .error "err:shape"

/-- the whole `DeepONet.forward` for FC trunk and branch nets -/
def forward (fast : Bool) (tacts bacts : List (K → K)) (d neurons : Nat)
    (trunk branch : List (Layer K)) (inputDim : Nat)
    (x : T23 K) (fnBatch : List (List (List K))) : Except String (List (List (List K))) := do
  let bin ← branchFlatten fnBatch inputDim
  let bout ← fcNet plainLinear bacts branch (.r2 bin)
  let bfeat ← match bout with
    | .r2 rows => reshapeFeat d neurons rows
    | .r3 _ => .error "err:shape"
  let tout ← fcNet (if fast then fastLinear else plainLinear) tacts trunk x
  let tfeat ← trunkReshape d neurons tout
  contract tfeat bfeat

/-! ## branch input variants (`BranchNet.fix_input`) -/

/-- callable `f` on the discretisation points, `unsqueeze(0)` -/
def batchOfCallable (f : List K → List K) (pts : List (List K)) : List (List (List K)) :=
  [pts.map f]

/-- rank-2 tensor / Points `(points, fdim)`: `unsqueeze(0)` -/
def batchOfTensor2 (t : List (List K)) : List (List (List K)) := [t]

/-- rank-3 tensor / Points: taken as it is -/
def batchOfTensor3 (t : List (List (List K))) : List (List (List K)) := t

/-- `FunctionSet._create_meshgrid`: entry `[i][j] = params[i] ++ points[j]`
    (`cat((params.unsqueeze(1).repeat(1,n,1), points.unsqueeze(0).repeat(m,1,1)), dim=-1)`) -/
def meshgrid (params pts : List (List K)) : List (List (List K)) :=
  let paramsRep := params.map (fun p => List.replicate pts.length p)
  let ptsRep := List.replicate params.length pts
  List.zipWith (fun ps xs => List.zipWith (· ++ ·) ps xs) paramsRep ptsRep

/-- `FunctionSet.create_function_batch`: the function of (parameters ++ point) on the meshgrid -/
def batchOfFunctionSet (f : List K → List K) (params pts : List (List K)) : List (List (List K)) :=
  (meshgrid params pts).map (·.map f)

/-- `FunctionSetCollection.create_function_batch`: batches concatenated along the function axis -/
def batchOfCollection (sets : List ((List K → List K) × List (List K))) (pts : List (List K)) :
    List (List (List K)) :=
  sets.foldl (fun acc s => acc ++ batchOfFunctionSet s.1 s.2 pts) []

/-! ## the coded backward of the fast layer (`layers.linear.backward`) -/

/-- `grad_output.matmul(weight)` for one row: `Σ_o g[o] * W[o][:]` -/
def rowTimesW (nin : Nat) (W : List (List K)) (g : List K) : List K :=
  (List.zipWith smul g W).foldr vadd (List.replicate nin 0)

/-- `grad_input = grad_output.matmul(weight)`, shape of `grad_output` -/
def gradInput (nin : Nat) (W : List (List K)) (g : List (List (List K))) : List (List (List K)) :=
  g.map (·.map (rowTimesW nin W))

/-- elementwise sum of two matrices -/
def madd (a b : List (List K)) : List (List K) := List.zipWith vadd a b

/-- `gᵀ x` for one copy: `(out, in)` matrix `Σ_r g[r][o] * x[r][i]`, accumulated row by row -/
def gTx (nout nin : Nat) (g x : List (List K)) : List (List K) :=
  (List.zipWith (fun gr xr => gr.map (fun go => smul go xr)) g x).foldr madd
    (List.replicate nout (List.replicate nin 0))

/-- `grad_weight = grad_output.transpose(-1,-2).matmul(input)` with `input` = the saved FIRST copy;
    autograd then sums the `(copies, out, in)` result down to the shape of the weight -/
def gradWeight (nout nin : Nat) (x0 : List (List K)) (g : List (List (List K))) : List (List K) :=
  (g.map (fun gc => gTx nout nin gc x0)).foldr madd (List.replicate nout (List.replicate nin 0))

/-- `grad_bias = grad_output.reshape(-1, out).sum(0)` -/
def gradBias (nout : Nat) (g : List (List (List K))) : List K :=
  (g.flatten).foldr vadd (List.replicate nout 0)

/-- the backward of `torch.nn.Linear` on a rank-3 input (every copy contributes its own input) -/
def gradWeightPlain (nout nin : Nat) (x g : List (List (List K))) : List (List K) :=
  (List.zipWith (fun gc xc => gTx nout nin gc xc) g x).foldr madd
    (List.replicate nout (List.replicate nin 0))

/-- pairing `⟨a, b⟩` of two rank-2 / rank-3 tensors -/
def dot2 (a b : List (List K)) : K := sumL (List.zipWith dot a b)
def dot3 (a b : List (List (List K))) : K := sumL (List.zipWith dot2 a b)

end

/-! ## reverse mode through a fast trunk net with `tanh` (driver only, `Float`) -/

section
variable {K : Type} [Add K] [Mul K] [OfNat K 0]

/-- forward pass of the trunk on ONE copy keeping the inputs of every layer (the tensors
    `save_for_backward` keeps) and the pre-activations; `acts[i]` follows layer `i` -/
def trunkTape : List (K → K) → List (Layer K) → List (List K) → List (List (List K) × List (List K))
  | _, [], _ => []
  | _, [l], x => [(x, x.map (affineRow l))]
  | [], _ :: _ :: _, _ => []
  | a :: acts, l :: l' :: ls, x =>
    let z := x.map (affineRow l)
    (x, z) :: trunkTape acts (l' :: ls) (z.map (·.map a))

/-- reverse sweep with the coded formulas: returns (grad wrt input, per layer (gradW, gradb)),
    `g : (copies, rows, out)` cotangent of the last layer's output.  Every entry carries its layer, the
    DERIVATIVE of the activation that follows this layer (unused for the last layer) and its tape
    entry; entries are given in REVERSE order. -/
def trunkSweep :
    List (Layer K × (K → K) × (List (List K) × List (List K))) → List (List (List K)) →
    List (List (List K)) × List (List (List K) × List K)
  | [], g => (g, [])
  | (l, _, (x, _)) :: rest, g =>
    let nout := l.W.length
    let nin := match l.W with | [] => 0 | w :: _ => w.length
    let gW := gradWeight nout nin x g
    let gb := gradBias nout g
    let gx := gradInput nin l.W g
    match rest with
    | [] => (gx, [(gW, gb)])
    | (_, dprev, (_, zprev)) :: _ =>
      -- through the activation of the previous layer: g * act'(z)
      let gz := gx.map (fun gc => List.zipWith (fun gr zr => List.zipWith (fun a z => a * dprev z) gr zr) gc zprev)
      let (gin, grads) := trunkSweep rest gz
      (gin, (gW, gb) :: grads)

end

/-! ## histories: which input functions the stored branch output belongs to
    (`DeepONet._forward_branch`, `fix_branch_input`, `FunctionSet.current_iteration_num`) -/

namespace Hist

/-- what the stored branch output of a model was computed from -/
inductive Src where
  | empty                          -- `torch.empty(0)`: never evaluated
  | fixed (tag : Nat)              -- a directly supplied batch (callable / tensor / Points / function set)
  | set (s : Nat) (draw : Nat)     -- function set `s`, its `draw`-th parameter batch
deriving DecidableEq, Repr

structure St where
  iter : Nat → Int      -- `function_set.current_iteration_num` (initially -1)
  draws : Nat → Nat     -- how often `sample_params` of the set ran
  holds : Nat → Src     -- per model: the source of `branch.current_out`

def init : St := ⟨fun _ => -1, fun _ => 0, fun _ => .empty⟩

def upd {α : Type} (f : Nat → α) (i : Nat) (v : α) : Nat → α := fun j => if j = i then v else f j

inductive Op where
  | fb (m s : Nat) (k : Int)       -- `model m._forward_branch(set s, iteration k)` (what a condition does first)
  | fix (m tag : Nat)              -- `fix_branch_input` / `forward(x, branch_inputs)` with a direct batch
deriving Repr

/-- the code as it is now: sample once per (set, iteration); re-evaluate the branch unless exactly the
    output for the current parameter batch of this set is stored in this model.
    (`none`: the set was never sampled, `create_function_batch` fails) -/
def step (σ : St) : Op → Option St
  | .fix m tag => some { σ with holds := upd σ.holds m (.fixed tag) }
  | .fb m s k =>
    if k ≠ σ.iter s then
      some { iter := upd σ.iter s k, draws := upd σ.draws s (σ.draws s + 1),
             holds := upd σ.holds m (.set s (σ.draws s + 1)) }
    else if σ.draws s = 0 then none   -- iteration -1 on a set that was never sampled: no parameter batch
    else some { σ with holds := upd σ.holds m (.set s (σ.draws s)) }

/-- the pinned snapshot: the decision looked at the function set only -/
def stepOld (σ : St) : Op → Option St
  | .fix m tag => some { σ with holds := upd σ.holds m (.fixed tag) }
  | .fb m s k =>
    if k ≠ σ.iter s then
      some { iter := upd σ.iter s k, draws := upd σ.draws s (σ.draws s + 1),
             holds := upd σ.holds m (.set s (σ.draws s + 1)) }
    else some σ

def run (stp : St → Op → Option St) : St → List Op → Option St
  | σ, [] => some σ
  | σ, o :: os => match stp σ o with
    | none => none
    | some σ' => run stp σ' os

/-- the sources held by model `m` after every prefix of the history (what the driver prints) -/
def trace (stp : St → Op → Option St) : St → List Op → List (Option Src)
  | _, [] => []
  | σ, o :: os =>
    let m := match o with | .fb m _ _ => m | .fix m _ => m
    match stp σ o with
    | none => [none]
    | some σ' => some (σ'.holds m) :: trace stp σ' os

end Hist

end TPV.DeepONet
