/-
  C14 — the WORLD in which conditions are constructed and evaluated: user-owned data-function dicts
  (heap cells that several conditions may be constructed from), conditions with their own sampler
  (static cache or fresh draws), and a history of construct / evaluate operations.  Import-free.

  Two transition functions over the same world:
    `stepNew` — the code after the repair (condition.py: `_setup_data_functions` wraps into a NEW dict
                owned by the condition; the user's dict is only read);
    `stepOld` — the code before the repair (`data_functions[fun] = UserFunction(...)` written INTO the
                user's dict, pre-evaluated tensors stored there, every condition keeps a reference to
                the shared dict and reads it again at every forward).
  The points a sampler would draw are an input of each operation (`fresh`): a non-static sampler uses
  them, a static sampler uses them only while its cache is empty.
-/
import TPV.Model.Condition

namespace TPV.Cond
open TPV.CondExpr

/-- what a user dict holds under a key -/
inductive DEntry (K : Type) where
  | raw (u : UFun K)                    -- the user's own function
  | wrapped (u : UFun K)                -- `UserFunction(f)`            (only the old code writes this)
  | tensor (rows : List (List K))       -- `UserFunction(pre-evaluated)` (only the old code writes this)

abbrev UDict (K : Type) := List (String × DEntry K)

def DEntry.toDataFn {K : Type} : DEntry K → DataFn K
  | .raw u => .fn u
  | .wrapped u => .fn u
  | .tensor rows => .pre rows

def DEntry.tag {K : Type} : DEntry K → String
  | .raw _ => "raw"
  | .wrapped _ => "wrapped"
  | .tensor _ => "tensor"

/-- a constructed condition -/
structure CondState (K : Type) where
  spec : SMCond K                    -- `spec.dataFns` = the condition's OWN dict (new code)
  dictRef : Nat                      -- the user dict it was constructed from (the old code keeps only this)
  space : SpaceL
  static : Bool
  cache : Option (List (List K))     -- created_points of its static sampler

structure World (K : Type) where
  dicts : List (UDict K)
  conds : Nat → Option (CondState K)

inductive Op (K : Type) where
  | construct (cid dictRef : Nat) (spec : SMCond K) (space : SpaceL) (static : Bool) (fresh : List (List K))
  | eval (cid : Nat) (fresh : List (List K))

def Op.cid {K : Type} : Op K → Nat
  | .construct c .. => c
  | .eval c _ => c

inductive Out (K : Type) where
  | constructed
  | loss (l : K)
  | failed (e : Err)
  | noSuchCondition

section
variable {K : Type} [Add K] [Sub K] [Mul K] [Neg K] [Div K] [OfNat K 0] [NatCast K] [LT K] [DecidableLT K]

def setConds (w : World K) (cid : Nat) (st : Option (CondState K)) : World K :=
  { w with conds := fun j => if j = cid then st else w.conds j }

/-- `sampler.sample_points()` of the condition's own sampler: (points used, new cache) -/
def drawPoints (static : Bool) (cache : Option (List (List K))) (fresh : List (List K)) :
    List (List K) × Option (List (List K)) :=
  if static then
    match cache with
    | some pts => (pts, some pts)
    | none => (fresh, some fresh)
  else (fresh, none)

/-- pre-evaluate every entry on `pts` (static sampler), or just wrap (non-static) -/
def setupEntries (space : SpaceL) (static : Bool) (pts : List (List K)) (d : UDict K) :
    Except Err (List (String × DataFn K)) :=
  d.mapM fun p =>
    match p.2 with
    | .tensor rows => pure (p.1, DataFn.pre rows)      -- a wrapped tensor evaluates to itself, on any points
    | e =>
      if static then do
        let t ← pts.zipIdx.mapM fun ri => evalData pts.length ri.2 (splitRow space ri.1) e.toDataFn
        pure (p.1, DataFn.pre t)
      else pure (p.1, e.toDataFn)

/-! ### the repaired code: a condition's transition depends only on the (read-only) user dicts and on
    its own state -/

def stepCondNew (dicts : List (UDict K)) (st : Option (CondState K)) : Op K → Option (CondState K) × Out K
  | .construct _ dictRef spec space static fresh =>
    match dicts[dictRef]? with
    | none => (st, .failed .user)
    | some d =>
      -- the sampler is only asked for points when there is something to pre-evaluate
      let needs := static && !d.isEmpty
      match setupEntries space static fresh d with
      | .error e => (st, .failed e)
      | .ok own =>
        (some { spec := { spec with dataFns := own }, dictRef := dictRef, space := space, static := static,
                cache := if needs then some fresh else none }, .constructed)
  | .eval _ fresh =>
    match st with
    | none => (none, .noSuchCondition)
    | some c =>
      let (pts, cache') := drawPoints c.static c.cache fresh
      let c' := { c with cache := cache' }
      match smLoss c.spec c.space pts with
      | .ok l => (some c', .loss l)
      | .error e => (some c', .failed e)

def stepNew (w : World K) (op : Op K) : World K × Out K :=
  let r := stepCondNew w.dicts (w.conds op.cid) op
  (setConds w op.cid r.1, r.2)

/-! ### the code before the repair: construction WRITES into the user's dict, evaluation READS it -/

def setDict (dicts : List (UDict K)) (i : Nat) (d : UDict K) : List (UDict K) := dicts.set i d

def toEntries (own : List (String × DataFn K)) : UDict K :=
  own.map fun p => (p.1, match p.2 with
    | .fn u => DEntry.wrapped u
    | .pre rows => DEntry.tensor rows)

def stepOld (w : World K) : Op K → World K × Out K
  | .construct cid dictRef spec space static fresh =>
    match w.dicts[dictRef]? with
    | none => (w, .failed .user)
    | some d =>
      let needs := static && !d.isEmpty
      match setupEntries space static fresh d with
      | .error e => (w, .failed e)
      | .ok own =>
        let w' : World K := { w with dicts := setDict w.dicts dictRef (toEntries own) }
        (setConds w' cid (some { spec := spec, dictRef := dictRef, space := space, static := static,
                                  cache := if needs then some fresh else none }), .constructed)
  | .eval cid fresh =>
    match w.conds cid with
    | none => (w, .noSuchCondition)
    | some c =>
      let (pts, cache') := drawPoints c.static c.cache fresh
      let w' := setConds w cid (some { c with cache := cache' })
      match w.dicts[c.dictRef]? with
      | none => (w', .failed .user)
      | some d =>
        match smLoss { c.spec with dataFns := d.map fun p => (p.1, p.2.toDataFn) } c.space pts with
        | .ok l => (w', .loss l)
        | .error e => (w', .failed e)

/-- run a history; the outputs are tagged with the condition they belong to -/
def runWith (step : World K → Op K → World K × Out K) : World K → List (Op K) → World K × List (Nat × Out K)
  | w, [] => (w, [])
  | w, op :: ops =>
    let r := step w op
    let rest := runWith step r.1 ops
    (rest.1, (op.cid, r.2) :: rest.2)

def runNew : World K → List (Op K) → World K × List (Nat × Out K) := runWith stepNew
def runOld : World K → List (Op K) → World K × List (Nat × Out K) := runWith stepOld

/-- the outputs of condition `cid` in a tagged output list -/
def outsOf (cid : Nat) (outs : List (Nat × Out K)) : List (Out K) :=
  (outs.filter fun p => p.1 == cid).map (·.2)

/-- the history a condition would see if it were alone -/
def alone (cid : Nat) (ops : List (Op K)) : List (Op K) := ops.filter fun op => op.cid == cid

def World.init (dicts : List (UDict K)) : World K := { dicts := dicts, conds := fun _ => none }

end

end TPV.Cond
