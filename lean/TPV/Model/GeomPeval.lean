/-
  C17 — partial evaluation of domain expressions (`Domain.__call__(**data)`), additions to the
  geometry core (import-free, executable).  `Dom.peval`, `Dom.freeVars`, `PFun.peval` live in Geom.lean.

  What the code does (src/torchphysics/problem/domains/*/`__call__`, utils/user_fun.py):
  every node re-creates itself from `param.partially_evaluate(**data)` of each of its shape parameters
  and from the evaluated operands.  `partially_evaluate`
    * returns the value when `data` provides all necessary arguments (the parameter becomes a constant),
    * else returns a copy whose defaults are updated by `data`; on a later call the *arguments given at
      that call override the defaults* (`inp = {given}, then defaults for the rest`) — this is
      `PFun.peval`: `fun e => p.f (e ++ σ)` (left-most binding wins).
  The two branches differ only if a later row re-binds a variable that was fixed; `PFun.pevalC` mirrors
  the branch structure exactly, `Props/C17.lean: pevalC_contains` shows that it does not matter when the
  later rows do not re-bind fixed variables.
-/
import TPV.Model.Geom

namespace TPV.Geom

/-! ### ground shapes: the expression with every shape parameter replaced by its value at one row -/

/-- an expression whose parameters are numbers (what `volume`, `bounding_box`, the samplers compute with
    for one parameter row: they evaluate every parameter function at `params`) -/
inductive Shape (K : Type) where
  | prim (kind v : String) (ps : List (List K))
  | op (kind : String) (a b : Shape K)
  | motion (kind v : String) (d : Shape K) (ps : List (List K))
  | bd (kind : String) (d : Shape K)

/-- evaluate all shape parameters at the environment `e` (the parameter row) -/
def Dom.ground {K} : Dom K → Env K → Shape K
  | .interval v lb ub, e => .prim "interval" v [lb.f e, ub.f e]
  | .par v o c1 c2, e => .prim "par" v [o.f e, c1.f e, c2.f e]
  | .tri v o c1 c2, e => .prim "tri" v [o.f e, c1.f e, c2.f e]
  | .circle v c r, e => .prim "circle" v [c.f e, r.f e]
  | .sphere v c r, e => .prim "sphere" v [c.f e, r.f e]
  | .union a b, e => .op "union" (a.ground e) (b.ground e)
  | .cut a b, e => .op "cut" (a.ground e) (b.ground e)
  | .inter a b, e => .op "inter" (a.ground e) (b.ground e)
  | .prod a b, e => .op "prod" (a.ground e) (b.ground e)
  | .translate v d t, e => .motion "translate" v (d.ground e) [t.f e]
  | .rotate v d m c, e => .motion "rotate" v (d.ground e) [m.f e, c.f e]
  | .bdry d, e => .bd "bdry" (d.ground e)
  | .bdryL d, e => .bd "bdryL" (d.ground e)
  | .bdryR d, e => .bd "bdryR" (d.ground e)

/-- all parameter values of a ground shape, in traversal order (driver output) -/
def Shape.values {K} : Shape K → List (List K)
  | .prim _ _ ps => ps
  | .op _ a b => a.values ++ b.values
  | .motion _ _ d ps => ps ++ d.values
  | .bd _ d => d.values

/-! ### the variables a membership query reads from the parameter row -/

/-- arguments of a parameter that are not supplied by the point itself -/
def PFun.needs {K} (bound : List String) (p : PFun K) : List String :=
  p.args.filter (fun a => !bound.contains a)

/-- the variables `containsAux · D pts ρ` reads from `ρ` when the point binds the variables `bound`:
    parameters see `pts ++ ρ`; below a translation / rotation the operand sees the moved coordinates of `v`,
    then the point's other coordinates, then the row (`Points(shifted, self.space)` and
    `params' = other coordinates ⋈ params`, /repo 414d4d6) — so it still reads from the row only what the
    point does not bind -/
def Dom.needs {K} : List String → Dom K → List String
  | bd, .interval _ lb ub => lb.needs bd ++ ub.needs bd
  | bd, .par _ o c1 c2 | bd, .tri _ o c1 c2 => o.needs bd ++ c1.needs bd ++ c2.needs bd
  | bd, .circle _ c r | bd, .sphere _ c r => r.needs bd ++ c.needs bd
  | bd, .union a b | bd, .cut a b | bd, .inter a b | bd, .prod a b => a.needs bd ++ b.needs bd
  | bd, .translate v d t => t.needs bd ++ (d.needs [v]).filter (fun x => !bd.contains x)
  | bd, .rotate v d m c => m.needs bd ++ c.needs bd ++ (d.needs [v]).filter (fun x => !bd.contains x)
  | bd, .bdry d | bd, .bdryL d | bd, .bdryR d => d.needs bd

/-- what the constructors check (`set_necessary_variables` asserts that no parameter depends on a
    variable of the node's own space; Boolean operands share a space; `_check_variable_dependencies`:
    the second factor of a product does not depend on the first) -/
def Dom.wf {K} : Dom K → Bool
  | .interval v lb ub => !lb.args.contains v && !ub.args.contains v
  | .par v o c1 c2 | .tri v o c1 c2 => !o.args.contains v && !c1.args.contains v && !c2.args.contains v
  | .circle v c r | .sphere v c r => !c.args.contains v && !r.args.contains v
  | .union a b | .cut a b | .inter a b => a.wf && b.wf && a.vars == b.vars
  | .prod a b => a.wf && b.wf && b.freeVars.all (fun x => !a.vars.contains x)
  | .translate v d t => d.wf && d.vars == [v] && !t.args.contains v
  | .rotate v d m c => d.wf && d.vars == [v] && !m.args.contains v && !c.args.contains v
  | .bdry d | .bdryL d | .bdryR d => d.wf

/-! ### `partially_evaluate` with its two branches, as coded -/

/-- all necessary arguments given → the value (a constant); else the copy with updated defaults -/
def PFun.pevalC {K} (p : PFun K) (σ : Env K) : PFun K :=
  if p.args.all (fun a => (σ.get a).isSome) then ⟨[], fun _ => p.f σ⟩ else p.peval σ

def Dom.pevalC {K} (σ : Env K) : Dom K → Dom K
  | .interval v lb ub => .interval v (lb.pevalC σ) (ub.pevalC σ)
  | .par v o c1 c2 => .par v (o.pevalC σ) (c1.pevalC σ) (c2.pevalC σ)
  | .tri v o c1 c2 => .tri v (o.pevalC σ) (c1.pevalC σ) (c2.pevalC σ)
  | .circle v c r => .circle v (c.pevalC σ) (r.pevalC σ)
  | .sphere v c r => .sphere v (c.pevalC σ) (r.pevalC σ)
  | .union a b => .union (a.pevalC σ) (b.pevalC σ)
  | .cut a b => .cut (a.pevalC σ) (b.pevalC σ)
  | .inter a b => .inter (a.pevalC σ) (b.pevalC σ)
  | .prod a b => .prod (a.pevalC σ) (b.pevalC σ)
  | .translate v d t => .translate v (d.pevalC σ) (t.pevalC σ)
  | .rotate v d m c => .rotate v (d.pevalC σ) (m.pevalC σ) (c.pevalC σ)
  | .bdry d => .bdry (d.pevalC σ)
  | .bdryL d => .bdryL (d.pevalC σ)
  | .bdryR d => .bdryR (d.pevalC σ)

/-! ### behaviour of the pinned snapshot (before the repairs), kept for the negative results -/

section old
variable {K : Type} [Add K] [Sub K] [Mul K] [Div K] [Neg K] [LE K] [DecidableLE K] [OfNat K 0] [OfNat K 1]

/-- pinned `IntervalSingleBoundaryPoint.__call__`: the interval was evaluated, the `side` function was
    handed over unevaluated — the membership test of `I.boundary_left(**σ)` at the row `ρ` evaluated the
    *original* bound at `pts ++ ρ` (without `σ`) -/
def bdrySideContainsOld (τ : Tol K) (left : Bool) (d : Dom K) (_σ : Env K) (pts ρ : Env K) : Option Bool :=
  containsAux τ false (if left then .bdryL d else .bdryR d) pts ρ

end old

/-- pinned `Rotate.__init__`: `set_necessary_variables(self.rotation_fn)` — the variables of
    `rotate_around` were not registered -/
def Dom.freeVarsOld {K} : Dom K → List String
  | .rotate _ d m _ => dedup (m.args ++ d.freeVarsOld)
  | .interval _ lb ub => dedup (lb.args ++ ub.args)
  | .par _ o c1 c2 | .tri _ o c1 c2 => dedup (o.args ++ c1.args ++ c2.args)
  | .circle _ c r | .sphere _ c r => dedup (r.args ++ c.args)
  | .union a b | .cut a b | .inter a b => dedup (a.freeVarsOld ++ b.freeVarsOld)
  | .prod a b => dedup ((a.freeVarsOld.filter (fun x => !b.vars.contains x)) ++ b.freeVarsOld)
  | .translate _ d t => dedup (t.args ++ d.freeVarsOld)
  | .bdry d | .bdryL d | .bdryR d => d.freeVarsOld

/-! ### slicing a product: `(A × B)(**σ)` where `σ` fixes the coordinates of one factor

  `ProductDomain.__call__`: both factors are evaluated at `σ`; a factor all of whose own variables are in
  `σ` is replaced by `Point(factor space, values)`, whose membership test is
  `isclose(point, value, atol = 1e-3)` on every coordinate. -/

section slice
variable {K : Type} [Add K] [Sub K] [Mul K] [Div K] [Neg K] [LE K] [DecidableLE K] [OfNat K 0] [OfNat K 1]

/-- `Point._contains` for the variables `vs` fixed at `σ`: every coordinate is `isclose` (tolerances `πτ`) -/
def pointContains (πτ : Tol K) (vs : List String) (σ pts : Env K) : Option Bool :=
  vs.foldr (fun v acc => do
    let r ← acc
    match pts.get v, σ.get v with
    | some xs, some ys =>
      if xs.length = ys.length then some (r && (List.zipWith (isclose πτ) xs ys).all id) else none
    | _, _ => none) (some true)

def fixesAll (σ : Env K) (vs : List String) : Bool := vs.all (fun v => (σ.get v).isSome)

/-- membership test of `(a × b)(**σ)` at the row (`pts`, `ρ`) -/
def sliceContains (τ πτ : Tol K) (a b : Dom K) (σ pts ρ : Env K) : Option Bool := do
  let ia ← if fixesAll σ a.vars then pointContains πτ a.vars σ pts else containsAux τ false (a.peval σ) pts ρ
  let ib ← if fixesAll σ b.vars then pointContains πτ b.vars σ pts else containsAux τ false (b.peval σ) pts ρ
  pure (ia && ib)

/-- `necessary_variables` of `(a × b)(**σ)` -/
def sliceFreeVars (a b : Dom K) (σ : Env K) : List String :=
  let fa := if fixesAll σ a.vars then [] else (a.peval σ).freeVars
  let fb := if fixesAll σ b.vars then [] else (b.peval σ).freeVars
  dedup ((fa.filter (fun x => !b.vars.contains x)) ++ fb)

/-- `D(**σ)` for any nesting of products (and Boolean combinations of products): EVERY factor all of whose own
    variables are in `σ` becomes a `Point` — both factors of one product if the call fixes both (the two tests in
    `ProductDomain.__call__` are independent) —, the other factors are evaluated recursively -/
def sliceRec (τ πτ : Tol K) (σ : Env K) : Dom K → Env K → Env K → Option Bool
  | .prod a b, pts, ρ => do
    let ia ← if fixesAll σ a.vars then pointContains πτ a.vars σ pts else sliceRec τ πτ σ a pts ρ
    let ib ← if fixesAll σ b.vars then pointContains πτ b.vars σ pts else sliceRec τ πτ σ b pts ρ
    pure (ia && ib)
  | .union a b, pts, ρ => do
    let ia ← sliceRec τ πτ σ a pts ρ
    let ib ← sliceRec τ πτ σ b pts ρ
    pure (ia || ib)
  | .cut a b, pts, ρ => do
    let ia ← sliceRec τ πτ σ a pts ρ
    let ib ← sliceRec τ πτ σ b pts ρ
    pure (ia && !ib)
  | .inter a b, pts, ρ => do
    let ia ← sliceRec τ πτ σ a pts ρ
    let ib ← sliceRec τ πτ σ b pts ρ
    pure (ia && ib)
  | d, pts, ρ => containsAux τ false (d.peval σ) pts ρ

/-- `necessary_variables` of the sliced expression -/
def sliceRecFreeVars (σ : Env K) : Dom K → List String
  | .prod a b =>
    let fa := if fixesAll σ a.vars then [] else sliceRecFreeVars σ a
    let fb := if fixesAll σ b.vars then [] else sliceRecFreeVars σ b
    dedup ((fa.filter (fun x => !b.vars.contains x)) ++ fb)
  | .union a b | .cut a b | .inter a b => dedup (sliceRecFreeVars σ a ++ sliceRecFreeVars σ b)
  | d => (d.peval σ).freeVars

end slice

section sliceMargin
variable {K : Type} [Add K] [Sub K] [Mul K] [Div K] [Neg K] [LE K] [DecidableLE K] [OfNat K 0] [OfNat K 1] [BEq K]

/-- smallest comparison slack of the factors that are NOT fixed (harness only); `none` = nothing to compare -/
def sliceRecMargin (τ : Tol K) (σ : Env K) : Dom K → Env K → Env K → Option K
  | .prod a b, pts, ρ | .union a b, pts, ρ | .cut a b, pts, ρ | .inter a b, pts, ρ =>
    let ma := if fixesAll σ a.vars then none else sliceRecMargin τ σ a pts ρ
    let mb := if fixesAll σ b.vars then none else sliceRecMargin τ σ b pts ρ
    match ma, mb with
    | some x, some y => some (minK x y)
    | some x, none => some x
    | none, y => y
  | d, pts, ρ => margin τ false (d.peval σ) pts ρ

end sliceMargin

/-! ### user-set volumes (`Domain.set_volume`) under `__call__`

  `volume(params)` returns the user's function when one was set, else the built-in `_get_volume`.
  Since /repo 98178e0 every `__call__` hands the user volume, partially evaluated, on to the copy
  (`Domain._evaluate_user_volume`); the pinned snapshot dropped it. -/

/-- a domain object with the volume the user set on it (if any) -/
structure UDom (K : Type) where
  dom : Dom K
  uvol : Option (PFun K)

def UDom.peval {K} (σ : Env K) (u : UDom K) : UDom K := ⟨u.dom.peval σ, u.uvol.map (·.peval σ)⟩

/-- pinned snapshot: the evaluated copy has no user volume -/
def UDom.pevalOld {K} (σ : Env K) (u : UDom K) : UDom K := ⟨u.dom.peval σ, none⟩

/-- `Domain.volume(params)` for one row; `builtin` = `_get_volume` of the expression -/
def UDom.volume {K} (builtin : Dom K → Env K → Option K) (u : UDom K) (ρ : Env K) : Option K :=
  match u.uvol with
  | some f => (match f.f ρ with | [x] => some x | _ => none)
  | none => builtin u.dom ρ

/-! ### a heap-style model of `__call__` for the purity statement

  Every shape parameter is a `UserFunction` object whose only mutable part is its `defaults` dict.
  Cell `i` of the heap is the `defaults` of parameter object `i`; a domain object is (for this purpose)
  the list of its parameter objects in traversal order.  `partially_evaluate` works on a deep copy:
  a *new* cell `σ|args ++ old defaults`; the variant without the copy writes into the old cell. -/

abbrev Heap (K : Type) := List (Env K)

structure PRef where
  args : List String
  cell : Nat
deriving DecidableEq, Repr

/-- `set_default(**σ)`: only the keys that are arguments of the function -/
def restrictTo {K} (args : List String) (σ : Env K) : Env K := σ.filter (fun b => args.contains b.1)

/-- `D(**σ)` as coded (deep copy, then `set_default`): the new object's parameter objects and the heap
    after the call; `none` = dangling reference (cannot happen for objects built by the constructors) -/
def callCopy {K} (σ : Env K) : List PRef → Heap K → Option (List PRef × Heap K)
  | [], h => some ([], h)
  | r :: rs, h =>
    match h[r.cell]? with
    | none => none
    | some d =>
      match callCopy σ rs (h ++ [restrictTo r.args σ ++ d]) with
      | none => none
      | some (rs', h') => some (⟨r.args, h.length⟩ :: rs', h')

/-- the same without the deep copy (`copy_self = self`): the defaults of the original are overwritten -/
def callInPlace {K} (σ : Env K) : List PRef → Heap K → Option (Heap K)
  | [], h => some h
  | r :: rs, h =>
    match h[r.cell]? with
    | none => none
    | some d => callInPlace σ rs (h.set r.cell (restrictTo r.args σ ++ d))

/-- everything an object can observe of its parameter objects: their defaults -/
def readObj {K} (refs : List PRef) (h : Heap K) : List (Option (Env K)) := refs.map fun r => h[r.cell]?

end TPV.Geom
