/-
  C12 — `Space`: an insertion-ordered `Counter` of variable names (import-free, executable).
  Mirrors src/torchphysics/problem/spaces/space.py (class Space(Counter, OrderedDict)).
  A space is the ordered list of its `(name, dimension)` items.  The code that exists is mirrored,
  including the `Counter` corner cases: a missing name has dimension 0 (`Counter.__missing__`),
  `+` and `&` drop non-positive counts, `in` compares as plain dicts (order-insensitive).
-/
namespace TPV.Table

abbrev Vars := List (String × Nat)

structure Space where
  vars : Vars
  deriving DecidableEq, Repr

/-- `space[name]` for a string: the stored dimension, `0` for a name that is not a key
    (this is what `Counter.__missing__` returns in the real code; it is not a totalisation) -/
def dimOf : Vars → String → Nat
  | [], _ => 0
  | (m, d) :: r, n => if m = n then d else dimOf r n

def keys (vs : Vars) : List String := vs.map (·.1)

/-- `Space.dim`: `sum(self.values())` -/
def vdim (vs : Vars) : Nat := (vs.map (·.2)).sum

def Space.dim (s : Space) : Nat := vdim s.vars
def Space.names (s : Space) : List String := keys s.vars

/-- what a `dict` guarantees: keys are distinct -/
def Space.Keyed (s : Space) : Prop := s.names.Nodup
/-- the spaces the library builds (`R1`, `R2`, `R3`, `Rn` with `n ≥ 1` and their products) -/
def Space.WF (s : Space) : Prop := s.names.Nodup ∧ ∀ v ∈ s.vars, 0 < v.2

/-- `Space.__mul__ = Space(self + other)` with `Counter.__add__`: the left operand's names in
    order with the dimensions ADDED when the right operand has the name too, then the right
    operand's new names in order; entries whose count is not positive vanish -/
def Space.mul (a b : Space) : Space :=
  ⟨(a.vars.map fun v => (v.1, v.2 + dimOf b.vars v.1)).filter (fun v => 0 < v.2) ++
    b.vars.filter (fun v => !(keys a.vars).contains v.1 && 0 < v.2)⟩

/-- `Counter.__and__` (`big & small`): big's names in order with the minimum count, positive only -/
def interVars (big small : Vars) : Vars :=
  (big.map fun v => (v.1, min v.2 (dimOf small v.1))).filter (fun v => 0 < v.2)

/-- `small in big` for a Space: `(big & small) == small`, compared as plain dicts
    (the left side is a plain `Counter`, so `OrderedDict.__eq__` falls back to `dict.__eq__`):
    same items, order irrelevant.  For key-distinct lists: mutual inclusion of the item lists. -/
def Space.has (big small : Space) : Bool :=
  let i := interVars big.vars small.vars
  i.all (fun v => small.vars.contains v) && small.vars.all (fun v => i.contains v)

/-- `name in space` for a string: key membership -/
def Space.hasName (s : Space) (n : String) : Bool := s.names.contains n

/-- order-preserving removal of repeated names (a dict comprehension keeps the first position) -/
def dedup : List String → List String
  | [] => []
  | n :: r => n :: (dedup r).filter (· ≠ n)

/-- `space[[n₁, n₂, …]]` / `space[(n₁, …)]`: `Space({k: self[k] for k in val})` — requested order,
    repeated names once, a missing name becomes a 0-dimensional entry (no error at this level) -/
def Space.sub (s : Space) (ns : List String) : Space :=
  ⟨(dedup ns).map fun n => (n, dimOf s.vars n)⟩

/-- Python `list.index` -/
def indexOf? (l : List String) (n : String) : Option Nat :=
  match l with
  | [] => none
  | m :: r => if m = n then some 0 else (indexOf? r n).map (· + 1)

/-- normalisation of an optional slice bound for a POSITIVE step (CPython `PySlice_AdjustIndices`) -/
def clampPos (len : Nat) (b : Option Int) (dflt : Nat) : Nat :=
  match b with
  | none => dflt
  | some i => if i < 0 then (i + len).toNat else min i.toNat len

/-- for a NEGATIVE step the bounds live in `-1 … len-1`; represented shifted by one (`0 … len`) -/
def clampNeg (len : Nat) (b : Option Int) (dflt : Nat) : Nat :=
  match b with
  | none => dflt
  | some i => if i < 0 then (i + len + 1).toNat else min (i.toNat + 1) len

/-- the positions selected by the Python slice `start:stop:step` on a sequence of length `len`
    (`step ≠ 0`; the callers reject `step = 0` before) -/
def pySlice (len : Nat) (start stop : Option Int) (step : Int) : List Nat :=
  if 0 < step then
    let lo := clampPos len start 0
    let hi := clampPos len stop len
    let st := step.toNat
    (List.range ((hi - lo + st - 1) / st)).map (fun k => lo + k * st)
  else
    -- shifted representation: position p is stored as p+1, "before the first" as 0
    let lo := clampNeg len start len      -- first selected, shifted
    let hi := clampNeg len stop 0         -- exclusive lower end, shifted
    let st := (-step).toNat
    (List.range ((lo - hi + st - 1) / st)).map (fun k => lo - 1 - k * st)

inductive Err where
  | key | value | type | index | assert | runtime
  /-- not an error of the code: the request lies outside the fragment the model covers -/
  | unmodelled
  deriving DecidableEq, Repr

def Err.name : Err → String
  | .key => "key" | .value => "value" | .type => "type" | .index => "index"
  | .assert => "assert" | .runtime => "runtime" | .unmodelled => "unmodelled"

/-- `space[a:b:c]` with names as bounds: `keys.index(bound)` (ValueError when absent), then the
    ordinary list slice of the keys (any non-zero step) -/
def Space.slice (s : Space) (start stop : Option String) (step : Option Int) : Except Err Space := do
  let ks := s.names
  let bound (b : Option String) : Except Err (Option Int) :=
    match b with
    | none => pure none
    | some n => match indexOf? ks n with
      | some i => pure (some (i : Int))
      | none => throw .value
  let a ← bound start
  let b ← bound stop
  let st : Int := match step with | none => 1 | some k => k   -- Python: a missing step is 1
  if st = 0 then throw .value
  let pos := pySlice ks.length a b st
  -- `Space({k: self[k] for k in new_keys})`; the keys are distinct, so nothing merges
  match pos.mapM (fun i => s.vars[i]?) with
  | some vs => pure ⟨vs⟩
  | none => throw .index   -- unreachable: pySlice stays below `len` (theorem pySlice_lt)

end TPV.Table
