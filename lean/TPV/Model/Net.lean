/-
  C08 — executable model of torchphysics.models (model.py, fcn.py, qres.py, deepritz.py,
  activation_fn.py) and of the parts of problem/spaces/{space,points}.py they use.
  Import-free.  "The code that exists": tables are flat rows + a batch shape, columns are found by
  the offset arithmetic of `Points._variable_slices`, reordering is `Points.__getitem__` with a list
  of names, `Space` arithmetic is `Counter` arithmetic.

  Rejection is `none` (the driver tells name-level from shape-level rejections by re-running the
  request with zero rows).
-/
namespace TPV.Net

/-! ## Space: an ordered dict  name ↦ dimension  (`Space(Counter, OrderedDict)`) -/

abbrev Space := List (String × Nat)

def keys (S : Space) : List String := S.map (·.1)

/-- `Space.dim` = sum of the values -/
def sdim : Space → Nat
  | [] => 0
  | (_, d) :: S => d + sdim S

/-- dict lookup (`KeyError` = `none`) -/
def dimOf : Space → String → Option Nat
  | [], _ => none
  | (w, d) :: S, v => if w = v then some d else dimOf S v

/-- `Points._variable_slices[v].start` -/
def start : Space → String → Option Nat
  | [], _ => none
  | (w, d) :: S, v => if w = v then some 0 else (start S v).map (d + ·)

/-- `Counter.__getitem__`: a missing name counts 0 (this is Python's `Counter.__missing__`, used by
    the `Space` arithmetic below — not a totalisation of ours) -/
def cnt (S : Space) (v : String) : Nat :=
  match dimOf S v with
  | some d => d
  | none => 0

/-- `Counter.__sub__` (as used in `Parallel.__init__`): keeps the positive differences, in the
    order of the left operand -/
def spaceSub (A B : Space) : Space :=
  A.filterMap fun (k, d) => if d - cnt B k > 0 then some (k, d - cnt B k) else none

/-- `Space.__mul__` = `Counter.__add__`: names of the left operand first (dimensions added), then the
    new names of the right operand; non-positive counts vanish -/
def spaceMul (A B : Space) : Space :=
  (A.filterMap fun (k, d) => if d + cnt B k > 0 then some (k, d + cnt B k) else none) ++
  (B.filterMap fun (k, d) => if !(keys A).contains k && d > 0 then some (k, d) else none)

/-- `a.keys() == b.keys()` (set comparison of dict key views) -/
def sameKeys (A B : Space) : Bool :=
  (keys A).all (fun k => (keys B).contains k) && (keys B).all (fun k => (keys A).contains k)

/-- `a.keys().isdisjoint(b)` -/
def disjointKeys (A B : Space) : Bool :=
  (keys A).all fun k => !(keys B).contains k

/-! ## Option-valued map (own definition: one failure rejects the whole batch) -/

def mapOpt {α β : Type} (f : α → Option β) : List α → Option (List β)
  | [] => some []
  | a :: as => (f a).bind fun b => (mapOpt f as).map (b :: ·)

/-! ## Points: flat rows (row-major over the batch axes) + batch shape + space -/

structure Pts (K : Type) where
  space : Space
  shape : List Nat
  rows : List (List K)
  deriving DecidableEq

/-- column indices of the requested names, in the requested order
    (`out_idxs += rng[slc[var]]` in `Points._compute_slice`); `KeyError` = `none` -/
def colIdx (S : Space) : List String → Option (List Nat)
  | [] => some []
  | k :: ks =>
    match start S k, dimOf S k, colIdx S ks with
    | some s, some d, some r => some (List.range' s d ++ r)
    | _, _, _ => none

/-- `Space.__getitem__(list)` restricted to present names: `{k: self[k] for k in val}` -/
def selSpace (S : Space) (ks : List String) : Option Space :=
  mapOpt (fun k => (dimOf S k).map fun d => (k, d)) ks

/-- advanced indexing of one row with a list of column indices -/
def gatherCols {K : Type} (idx : List Nat) (row : List K) : Option (List K) :=
  mapOpt (fun i => row[i]?) idx

/-- `points[..., list_of_names]` -/
def select {K : Type} (p : Pts K) (ks : List String) : Option (Pts K) :=
  match selSpace p.space ks, colIdx p.space ks with
  | some sp, some idx => (mapOpt (gatherCols idx) p.rows).map fun rows => ⟨sp, p.shape, rows⟩
  | _, _ => none

/-- `Model._fix_points_order` -/
def fixOrder {K : Type} (inS : Space) (p : Pts K) : Option (Pts K) :=
  if p.space = inS then some p
  else if sameKeys p.space inS then select p (keys inS)
  else none

/-- `torch.cat(..., dim=-1)` of two row tables -/
def hcat {K : Type} (a b : List (List K)) : Option (List (List K)) :=
  if a.length = b.length then some (List.zipWith (· ++ ·) a b) else none

/-- the loop of `Points.joined` (asserts: names disjoint, batch shapes equal to the first one).
    Not modelled: the skipping of *empty* Points (zero rows and a zero-dimensional space), which no
    model with a non-empty output space produces. -/
def joinLoop {K : Type} (shape : List Nat) : Pts K → List (Pts K) → Option (Pts K)
  | acc, [] => some acc
  | acc, p :: ps =>
    if disjointKeys acc.space p.space && p.shape == shape then
      (hcat acc.rows p.rows).bind fun rows => joinLoop shape ⟨spaceMul acc.space p.space, shape, rows⟩ ps
    else none

/-- `Points.joined(*points_l)`; no arguments: `IndexError` -/
def joined {K : Type} : List (Pts K) → Option (Pts K)
  | [] => none
  | p :: ps => joinLoop p.shape ⟨[], p.shape, p.rows.map fun _ => []⟩ (p :: ps)

/-! ## Models -/

/-- A model: a point-wise architecture (`leaf`: declared spaces, whether `forward` calls
    `_fix_points_order`, and the function applied to every row), `Sequential(m, *ms)` or
    `Parallel(*ms)`. -/
inductive Model (K : Type) where
  | leaf (inS outS : Space) (fix : Bool) (f : List K → Option (List K))
  | seq (m : Model K) (ms : List (Model K))
  | par (ms : List (Model K))

mutual
/-- `model.input_space` -/
def Model.inS {K : Type} : Model K → Space
  | .leaf i _ _ _ => i
  | .seq m _ => m.inS
  | .par ms => parIn [] ms
/-- `input_space = input_space * Space(model.input_space - input_space)` for every part -/
def parIn {K : Type} : Space → List (Model K) → Space
  | acc, [] => acc
  | acc, m :: ms => parIn (spaceMul acc (spaceSub m.inS acc)) ms
end

mutual
/-- `model.output_space` -/
def Model.outS {K : Type} : Model K → Space
  | .leaf _ o _ _ => o
  | .seq m ms => seqOut m.outS ms
  | .par ms => parOut [] ms
/-- `models[-1].output_space` -/
def seqOut {K : Type} : Space → List (Model K) → Space
  | o, [] => o
  | _, m :: ms => seqOut m.outS ms
def parOut {K : Type} : Space → List (Model K) → Space
  | acc, [] => acc
  | acc, m :: ms => parOut (spaceMul acc m.outS) ms
end

mutual
/-- construction succeeds (`assert output_space.keys().isdisjoint(model.output_space)` in
    `Parallel.__init__`) -/
def Model.valid {K : Type} : Model K → Bool
  | .leaf _ _ _ _ => true
  | .seq m ms => m.valid && validAll ms
  | .par ms => validAll ms && parDisjoint [] ms
def validAll {K : Type} : List (Model K) → Bool
  | [] => true
  | m :: ms => m.valid && validAll ms
def parDisjoint {K : Type} : Space → List (Model K) → Bool
  | _, [] => true
  | acc, m :: ms => disjointKeys acc m.outS && parDisjoint (spaceMul acc m.outS) ms
end

mutual
/-- `model(points)` -/
def Model.apply {K : Type} : Model K → Pts K → Option (Pts K)
  | .leaf i o fx f, p =>
    (if fx then fixOrder i p else some p).bind fun q =>
      (mapOpt f q.rows).bind fun rows =>
        -- `Points(out, self.output_space)` asserts the last axis has `output_space.dim` entries
        if rows.all (fun r => r.length == sdim o) then some ⟨o, q.shape, rows⟩ else none
  | .seq m ms, p => (fixOrder m.inS p).bind fun q => (m.apply q).bind fun r => applyChain ms r
  | .par ms, p => (applyPar ms p).bind joined
/-- `for model in self.models: points = model(points)` -/
def applyChain {K : Type} : List (Model K) → Pts K → Option (Pts K)
  | [], p => some p
  | m :: ms, p => (m.apply p).bind fun q => applyChain ms q
/-- `out.append(model(points[..., list(model.input_space.keys())]))` -/
def applyPar {K : Type} : List (Model K) → Pts K → Option (List (Pts K))
  | [], _ => some []
  | m :: ms, p =>
    (select p (keys m.inS)).bind fun q => (m.apply q).bind fun o => (applyPar ms p).map (o :: ·)
end

/-! ## The point-wise architectures (row functions), generic in the scalar type -/

section Arch
variable {K : Type} [Add K] [Mul K] [OfNat K 0]

/-- inner product; operands of different length: shape error -/
def dot : List K → List K → Option K
  | [], [] => some 0
  | a :: as, b :: bs => (dot as bs).map (a * b + ·)
  | _, _ => none

/-- `x @ W.T` for `W` stored as in `nn.Linear.weight` (one row per output feature) -/
def matVec (W : List (List K)) (x : List K) : Option (List K) := mapOpt (fun w => dot w x) W

def addVec (a b : List K) : Option (List K) :=
  if a.length = b.length then some (List.zipWith (· + ·) a b) else none

def mulVec (a b : List K) : Option (List K) :=
  if a.length = b.length then some (List.zipWith (· * ·) a b) else none

/-- `nn.Linear` -/
structure Lin (K : Type) where
  W : List (List K)
  b : List K

def Lin.app (l : Lin K) (x : List K) : Option (List K) := (matVec l.W x).bind (addVec · l.b)

/-- `Linear, act, Linear, act, …, Linear` (`_construct_FC_layers`) -/
def fcnRow (hidden : List (Lin K × (K → K))) (last : Lin K) (x : List K) : Option (List K) :=
  (hidden.foldlM (fun h (la : Lin K × (K → K)) => (la.1.app h).map (·.map la.2)) x).bind last.app

/-- `Harmonic_FCN.forward`: `x ++ cos(π x) ++ sin(π x) ++ … ` for frequencies `minF+1 … maxF` -/
def harmonicFeatures (cosf sinf : K → K) (pi : K) (ofNat : Nat → K) (minF maxF : Nat) (x : List K) : List K :=
  x ++ ((List.range' minF (maxF - minF)).map fun i =>
      x.map (fun t => cosf (ofNat (i + 1) * pi * t)) ++ x.map (fun t => sinf (ofNat (i + 1) * pi * t))).flatten

def harmonicRow (cosf sinf : K → K) (pi : K) (ofNat : Nat → K) (minF maxF : Nat)
    (hidden : List (Lin K × (K → K))) (last : Lin K) (x : List K) : Option (List K) :=
  fcnRow hidden last (harmonicFeatures cosf sinf pi ofNat minF maxF x)

/-- `Quadratic.forward`: `W₂x ∗ W₁x + W₁x + b` -/
structure Quad (K : Type) where
  W1 : List (List K)
  W2 : List (List K)
  b : List K

def Quad.app (l : Quad K) (x : List K) : Option (List K) :=
  (matVec l.W1 x).bind fun lin => (matVec l.W2 x).bind fun quad =>
    (mulVec quad lin).bind fun ql => (addVec ql lin).bind (addVec · l.b)

def qresRow (hidden : List (Quad K × (K → K))) (last : Quad K) (x : List K) : Option (List K) :=
  (hidden.foldlM (fun h (la : Quad K × (K → K)) => (la.1.app h).map (·.map la.2)) x).bind last.app

/-- `DeepRitzNet.forward`: `x ↦ relu(l₂(relu(l₁ x)³))³) + x` blocks between two linear maps -/
def ritzRow (relu : K → K) (linIn : Lin K) (blocks : List (Lin K × Lin K)) (linOut : Lin K) (x : List K) :
    Option (List K) :=
  let cube := fun (t : K) => relu (t * t * t)
  (linIn.app x).bind fun h =>
    (blocks.foldlM (fun h (b : Lin K × Lin K) =>
      (b.1.app h).bind fun t1 => (b.2.app (t1.map cube)).bind fun t2 => addVec (t2.map cube) h) h).bind linOut.app

variable [Div K]

/-- torch broadcasting of two vectors along one axis -/
def bcast {α β : Type} (a : List α) (b : List β) : Option (List α × List β) :=
  if a.length = b.length then some (a, b)
  else match a, b with
    | [v], _ => some (List.replicate b.length v, b)
    | _, [w] => some (a, List.replicate a.length w)
    | _, _ => none

/-- one layer of `Polynomial_FCN.forward` before the activation; `L[k][l][j]`, `k` input, `l` output,
    `j` power.  As coded: `out = L[.,.,deg-1]/deg`, then for `j = deg … 1`:
    `out = x*out + L[.,.,j-1]/max(1,j-1)`, then the sum over the input axis. -/
def polyLayer (ofNat : Nat → K) (deg : Nat) (L : List (List (List K))) (x : List K) : Option (List K) :=
  -- the product `points(…,in,1) * out(…,in',out)` broadcasts when one of in, in' is 1
  (bcast x L).bind fun (xs, Ls) =>
    -- per input k: the row out[k][·]
    let perInput : Option (List (List K)) := mapOpt (fun (xl : K × List (List K)) =>
        mapOpt (fun (c : List K) =>
          (c[deg - 1]?).bind fun top =>
            (List.range deg).reverse.foldlM (fun acc j =>       -- j+1 = deg … 1
              (c[j]?).map fun cj => xl.1 * acc + cj / ofNat (max 1 j)) (top / ofNat deg)) xl.2)
      (xs.zip Ls)
    perInput.bind fun rows =>
      match rows with
      | [] => none
      | r :: rs => rs.foldlM (fun acc r' => addVec acc r') r

/-- `Polynomial_FCN.forward` -/
def polyRow (ofNat : Nat → K) (deg : Nat) (resCon : Bool) (act : K → K) (layers : List (List (List (List K))))
    (x : List K) : Option (List K) :=
  let nL := layers.length
  ((layers.zip (List.range nL)).foldlM (fun (st : List K × List K) (Li : List (List (List K)) × Nat) =>
      (polyLayer ofNat deg Li.1 st.1).bind fun out =>
        if resCon && Li.2 < nL - 1 && Li.2 > 0 then
          (bcast (out.map act) st.1).map fun ab => (List.zipWith (· + ·) ab.1 ab.2, out)
        else some (out.map act, out)) (x, ([] : List K))).bind fun st =>
    if nL = 0 then none else some st.2

variable [Sub K] [Neg K] [OfNat K 2]

/-- `NormalizationLayer.__init__`: weight `2/(max-min)` and bias `-(max+min)/2 * weight` per coordinate -/
def normCoeff (lo hi : K) : K × K :=
  let d : K := 2 / (hi - lo)
  (d, -((hi + lo) / 2) * d)

/-- one coordinate of the layer -/
def normCoord (lo hi x : K) : K := x * (normCoeff lo hi).1 + (normCoeff lo hi).2

/-- `NormalizationLayer.forward` on a row, given the layer's (weight, bias) per coordinate
    (the layer is `nn.Linear` with a diagonal weight matrix) -/
def diagRow (coeffs : List (K × K)) (x : List K) : Option (List K) :=
  if coeffs.length = x.length then some (List.zipWith (fun (c : K × K) t => t * c.1 + c.2) coeffs x) else none

def normRow (box : List (K × K)) (x : List K) : Option (List K) :=
  diagRow (box.map fun b => normCoeff b.1 b.2) x

end Arch

/-! ## The library's model classes -/

section Classes
variable {K : Type} [Add K] [Mul K] [OfNat K 0]

def FCN (inS outS : Space) (hidden : List (Lin K × (K → K))) (last : Lin K) : Model K :=
  .leaf inS outS true (fcnRow hidden last)

def HarmonicFCN (cosf sinf : K → K) (pi : K) (ofNat : Nat → K) (inS outS : Space) (minF maxF : Nat)
    (hidden : List (Lin K × (K → K))) (last : Lin K) : Model K :=
  .leaf inS outS true (harmonicRow cosf sinf pi ofNat minF maxF hidden last)

/-- `QRES` after the repair (`forward` calls `_fix_points_order`) -/
def QRES (inS outS : Space) (hidden : List (Quad K × (K → K))) (last : Quad K) : Model K :=
  .leaf inS outS true (qresRow hidden last)

/-- `QRES` as it was at the pinned commit: `forward` applied the layers to whatever came in -/
def QRESOld (inS outS : Space) (hidden : List (Quad K × (K → K))) (last : Quad K) : Model K :=
  .leaf inS outS false (qresRow hidden last)

def DeepRitzNet (relu : K → K) (inS outS : Space) (linIn : Lin K) (blocks : List (Lin K × Lin K)) (linOut : Lin K) :
    Model K :=
  .leaf inS outS true (ritzRow relu linIn blocks linOut)

def PolynomialFCN [Div K] (ofNat : Nat → K) (inS outS : Space) (deg : Nat) (resCon : Bool) (act : K → K)
    (layers : List (List (List (List K)))) : Model K :=
  .leaf inS outS true (polyRow ofNat deg resCon act layers)

/-- `NormalizationLayer(domain)`: input and output space are the domain's space, the coefficients
    come from `domain.bounding_box()` (`box[2i]`, `box[2i+1]`) -/
def NormalizationLayer [Div K] [Sub K] [Neg K] [OfNat K 2] (S : Space) (box : List (K × K)) : Model K :=
  .leaf S S true (normRow box)

/-- the same layer with its current (trainable) weight diagonal and bias -/
def DiagLayer (S : Space) (coeffs : List (K × K)) : Model K :=
  .leaf S S true (diagRow coeffs)

end Classes

end TPV.Net
