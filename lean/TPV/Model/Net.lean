/-
  C08 — executable model of torchphysics.models (model.py, fcn.py, qres.py, deepritz.py,
  activation_fn.py) and of the parts of problem/spaces/{space,points}.py they use.
  Import-free.  "The code that exists": tables are flat rows + a batch shape, columns are found by
  the offset arithmetic of `Points._variable_slices`, reordering is `Points.__getitem__` with a list
  of names, `Space` arithmetic is `Counter` arithmetic.

  Rejection is `none` (the driver tells name-level from shape-level rejections by re-running the
  request with zero rows).
-/
namespace TPV.Net

/-! ## Space: an ordered dict  name ↦ dimension  (`Space(Counter, OrderedDict)`) -/

abbrev Space := List (String × Nat)

def keys (S : Space) : List String := S.map (·.1)

/-- `Space.dim` = sum of the values -/
def sdim : Space → Nat
  | [] => 0
  | (_, d) :: S => d + sdim S

/-- dict lookup (`KeyError` = `none`) -/
def dimOf : Space → String → Option Nat
  | [], _ => none
  | (w, d) :: S, v => if w = v then some d else dimOf S v

/-- `Points._variable_slices[v].start` -/
def start : Space → String → Option Nat
  | [], _ => none
  | (w, d) :: S, v => if w = v then some 0 else (start S v).map (d + ·)

/-- `Counter.__getitem__`: a missing name counts 0 (this is Python's `Counter.__missing__`, used by
    the `Space` arithmetic below — not a totalisation of ours) -/
def cnt (S : Space) (v : String) : Nat :=
  match dimOf S v with
  | some d => d
  | none => 0

/-- `Counter.__sub__` (as used in `Parallel.__init__`): keeps the positive differences, in the
    order of the left operand -/
def spaceSub (A B : Space) : Space :=
  A.filterMap fun (k, d) => if d - cnt B k > 0 then some (k, d - cnt B k) else none

/-- `Space.__mul__` = `Counter.__add__`: names of the left operand first (dimensions added), then the
    new names of the right operand; non-positive counts vanish -/
def spaceMul (A B : Space) : Space :=
  (A.filterMap fun (k, d) => if d + cnt B k > 0 then some (k, d + cnt B k) else none) ++
  (B.filterMap fun (k, d) => if !(keys A).contains k && d > 0 then some (k, d) else none)

/-- `a.keys() == b.keys()` (set comparison of dict key views) -/
def sameKeys (A B : Space) : Bool :=
  (keys A).all (fun k => (keys B).contains k) && (keys B).all (fun k => (keys A).contains k)

/-- `a.keys().isdisjoint(b)` -/
def disjointKeys (A B : Space) : Bool :=
  (keys A).all fun k => !(keys B).contains k

/-! ## Option-valued map (own definition: one failure rejects the whole batch) -/

def mapOpt {α β : Type} (f : α → Option β) : List α → Option (List β)
  | [] => some []
  | a :: as => (f a).bind fun b => (mapOpt f as).map (b :: ·)

/-! ## Points: flat rows (row-major over the batch axes) + batch shape + space -/

structure Pts (K : Type) where
  space : Space
  shape : List Nat
  rows : List (List K)
  deriving DecidableEq

/-- column indices of the requested names, in the requested order
    (`out_idxs += rng[slc[var]]` in `Points._compute_slice`); `KeyError` = `none` -/
def colIdx (S : Space) : List String → Option (List Nat)
  | [] => some []
  | k :: ks =>
    match start S k, dimOf S k, colIdx S ks with
    | some s, some d, some r => some (List.range' s d ++ r)
    | _, _, _ => none

/-- `Space.__getitem__(list)` restricted to present names: `{k: self[k] for k in val}` -/
def selSpace (S : Space) (ks : List String) : Option Space :=
  mapOpt (fun k => (dimOf S k).map fun d => (k, d)) ks

/-- advanced indexing of one row with a list of column indices -/
def gatherCols {K : Type} (idx : List Nat) (row : List K) : Option (List K) :=
  mapOpt (fun i => row[i]?) idx

/-- `points[..., list_of_names]` -/
def select {K : Type} (p : Pts K) (ks : List String) : Option (Pts K) :=
  match selSpace p.space ks, colIdx p.space ks with
  | some sp, some idx => (mapOpt (gatherCols idx) p.rows).map fun rows => ⟨sp, p.shape, rows⟩
  | _, _ => none

/-- `Model._fix_points_order` -/
def fixOrder {K : Type} (inS : Space) (p : Pts K) : Option (Pts K) :=
  if p.space = inS then some p
  else if sameKeys p.space inS then select p (keys inS)
  else none

/-- `torch.cat(..., dim=-1)` of two row tables -/
def hcat {K : Type} (a b : List (List K)) : Option (List (List K)) :=
  if a.length = b.length then some (List.zipWith (· ++ ·) a b) else none

/-- the loop of `Points.joined` (asserts: names disjoint, batch shapes equal to the first one), without the
    skipping of *empty* Points (zero rows and a zero-dimensional space), which no model with a non-empty output
    space produces; `joinedCode` below has the skip and is proved equal when no argument is empty. -/
def joinLoop {K : Type} (shape : List Nat) : Pts K → List (Pts K) → Option (Pts K)
  | acc, [] => some acc
  | acc, p :: ps =>
    if disjointKeys acc.space p.space && p.shape == shape then
      (hcat acc.rows p.rows).bind fun rows => joinLoop shape ⟨spaceMul acc.space p.space, shape, rows⟩ ps
    else none

/-- `Points.joined(*points_l)`; no arguments: `IndexError` -/
def joined {K : Type} : List (Pts K) → Option (Pts K)
  | [] => none
  | p :: ps => joinLoop p.shape ⟨[], p.shape, p.rows.map fun _ => []⟩ (p :: ps)

/-- `Points.isempty`: `len(self) == 0 and self.space.dim == 0` (`len` = product of the batch shape) -/
def Pts.isEmptyPts {K : Type} (p : Pts K) : Bool := p.shape.foldl (· * ·) 1 == 0 && sdim p.space == 0

/-- the loop of `Points.joined` exactly as coded, INCLUDING the skipping of empty Points: the accumulator is
    `none` until the first non-empty argument has been appended (`torch.cat([])` raises) -/
def joinCodeLoop {K : Type} (shape : List Nat) : Option (Pts K) → List (Pts K) → Option (Pts K)
  | acc, [] => acc
  | acc, p :: ps =>
    if p.isEmptyPts then joinCodeLoop shape acc ps
    else match acc with
      | none =>
        if p.shape == shape then joinCodeLoop shape (some ⟨spaceMul [] p.space, shape, p.rows⟩) ps else none
      | some a =>
        if disjointKeys a.space p.space && p.shape == shape then
          (hcat a.rows p.rows).bind fun rows => joinCodeLoop shape (some ⟨spaceMul a.space p.space, shape, rows⟩) ps
        else none

/-- `Points.joined(*points_l)` as coded (with the skip).  `joined` above is the same function whenever no argument
    is empty (`joinedCode_eq_joined`), which is the case for every `Parallel` on a non-empty batch or with parts
    whose output spaces are not zero-dimensional. -/
def joinedCode {K : Type} : List (Pts K) → Option (Pts K)
  | [] => none
  | p :: ps => joinCodeLoop p.shape none (p :: ps)

/-! ## Models -/

/-- A model: a point-wise architecture (`leaf`: declared spaces, whether `forward` calls
    `_fix_points_order`, and the function applied to every row), `Sequential(m, *ms)` or
    `Parallel(*ms)`. -/
inductive Model (K : Type) where
  | leaf (inS outS : Space) (fix : Bool) (f : List K → Option (List K))
  | seq (m : Model K) (ms : List (Model K))
  | par (ms : List (Model K))

mutual
/-- `model.input_space` -/
def Model.inS {K : Type} : Model K → Space
  | .leaf i _ _ _ => i
  | .seq m _ => m.inS
  | .par ms => parIn [] ms
/-- `input_space = input_space * Space(model.input_space - input_space)` for every part -/
def parIn {K : Type} : Space → List (Model K) → Space
  | acc, [] => acc
  | acc, m :: ms => parIn (spaceMul acc (spaceSub m.inS acc)) ms
end

mutual
/-- `model.output_space` -/
def Model.outS {K : Type} : Model K → Space
  | .leaf _ o _ _ => o
  | .seq m ms => seqOut m.outS ms
  | .par ms => parOut [] ms
/-- `models[-1].output_space` -/
def seqOut {K : Type} : Space → List (Model K) → Space
  | o, [] => o
  | _, m :: ms => seqOut m.outS ms
def parOut {K : Type} : Space → List (Model K) → Space
  | acc, [] => acc
  | acc, m :: ms => parOut (spaceMul acc m.outS) ms
end

mutual
/-- construction succeeds (`assert output_space.keys().isdisjoint(model.output_space)` in
    `Parallel.__init__`) -/
def Model.valid {K : Type} : Model K → Bool
  | .leaf _ _ _ _ => true
  | .seq m ms => m.valid && validAll ms
  | .par ms => validAll ms && parDisjoint [] ms
def validAll {K : Type} : List (Model K) → Bool
  | [] => true
  | m :: ms => m.valid && validAll ms
def parDisjoint {K : Type} : Space → List (Model K) → Bool
  | _, [] => true
  | acc, m :: ms => disjointKeys acc m.outS && parDisjoint (spaceMul acc m.outS) ms
end

mutual
/-- `model(points)` -/
def Model.apply {K : Type} : Model K → Pts K → Option (Pts K)
  | .leaf i o fx f, p =>
    (if fx then fixOrder i p else some p).bind fun q =>
      (mapOpt f q.rows).bind fun rows =>
        -- `Points(out, self.output_space)` asserts the last axis has `output_space.dim` entries
        if rows.all (fun r => r.length == sdim o) then some ⟨o, q.shape, rows⟩ else none
  | .seq m ms, p => (fixOrder m.inS p).bind fun q => (m.apply q).bind fun r => applyChain ms r
  | .par ms, p => (applyPar ms p).bind joined
/-- `for model in self.models: points = model(points)` -/
def applyChain {K : Type} : List (Model K) → Pts K → Option (Pts K)
  | [], p => some p
  | m :: ms, p => (m.apply p).bind fun q => applyChain ms q
/-- `out.append(model(points[..., list(model.input_space.keys())]))` -/
def applyPar {K : Type} : List (Model K) → Pts K → Option (List (Pts K))
  | [], _ => some []
  | m :: ms, p =>
    (select p (keys m.inS)).bind fun q => (m.apply q).bind fun o => (applyPar ms p).map (o :: ·)
end

/-! ## The point-wise architectures (row functions), generic in the scalar type -/

section Arch
variable {K : Type} [Add K] [Mul K] [OfNat K 0]

/-- inner product; operands of different length: shape error -/
def dot : List K → List K → Option K
  | [], [] => some 0
  | a :: as, b :: bs => (dot as bs).map (a * b + ·)
  | _, _ => none

/-- `x @ W.T` for `W` stored as in `nn.Linear.weight` (one row per output feature) -/
def matVec (W : List (List K)) (x : List K) : Option (List K) := mapOpt (fun w => dot w x) W

def addVec (a b : List K) : Option (List K) :=
  if a.length = b.length then some (List.zipWith (· + ·) a b) else none

def mulVec (a b : List K) : Option (List K) :=
  if a.length = b.length then some (List.zipWith (· * ·) a b) else none

/-- `nn.Linear` -/
structure Lin (K : Type) where
  W : List (List K)
  b : List K

def Lin.app (l : Lin K) (x : List K) : Option (List K) := (matVec l.W x).bind (addVec · l.b)

/-- `Linear, act, Linear, act, …, Linear` (`_construct_FC_layers`) -/
def fcnRow (hidden : List (Lin K × (K → K))) (last : Lin K) (x : List K) : Option (List K) :=
  (hidden.foldlM (fun h (la : Lin K × (K → K)) => (la.1.app h).map (·.map la.2)) x).bind last.app

/-- `Harmonic_FCN.forward`: `x ++ cos(π x) ++ sin(π x) ++ … ` for frequencies `minF+1 … maxF` -/
def harmonicFeatures (cosf sinf : K → K) (pi : K) (ofNat : Nat → K) (minF maxF : Nat) (x : List K) : List K :=
  x ++ ((List.range' minF (maxF - minF)).map fun i =>
      x.map (fun t => cosf (ofNat (i + 1) * pi * t)) ++ x.map (fun t => sinf (ofNat (i + 1) * pi * t))).flatten

def harmonicRow (cosf sinf : K → K) (pi : K) (ofNat : Nat → K) (minF maxF : Nat)
    (hidden : List (Lin K × (K → K))) (last : Lin K) (x : List K) : Option (List K) :=
  fcnRow hidden last (harmonicFeatures cosf sinf pi ofNat minF maxF x)

/-- `Quadratic.forward`: `W₂x ∗ W₁x + W₁x + b` -/
structure Quad (K : Type) where
  W1 : List (List K)
  W2 : List (List K)
  b : List K

def Quad.app (l : Quad K) (x : List K) : Option (List K) :=
  (matVec l.W1 x).bind fun lin => (matVec l.W2 x).bind fun quad =>
    (mulVec quad lin).bind fun ql => (addVec ql lin).bind (addVec · l.b)

def qresRow (hidden : List (Quad K × (K → K))) (last : Quad K) (x : List K) : Option (List K) :=
  (hidden.foldlM (fun h (la : Quad K × (K → K)) => (la.1.app h).map (·.map la.2)) x).bind last.app

/-- `DeepRitzNet.forward`: `x ↦ relu(l₂(relu(l₁ x)³))³) + x` blocks between two linear maps -/
def ritzRow (relu : K → K) (linIn : Lin K) (blocks : List (Lin K × Lin K)) (linOut : Lin K) (x : List K) :
    Option (List K) :=
  let cube := fun (t : K) => relu (t * t * t)
  (linIn.app x).bind fun h =>
    (blocks.foldlM (fun h (b : Lin K × Lin K) =>
      (b.1.app h).bind fun t1 => (b.2.app (t1.map cube)).bind fun t2 => addVec (t2.map cube) h) h).bind linOut.app

variable [Div K]

/-- torch broadcasting of two vectors along one axis -/
def bcast {α β : Type} (a : List α) (b : List β) : Option (List α × List β) :=
  if a.length = b.length then some (a, b)
  else match a, b with
    | [v], _ => some (List.replicate b.length v, b)
    | _, [w] => some (a, List.replicate a.length w)
    | _, _ => none

/-- elementwise sum of a non-empty list of vectors (`torch.sum` over one axis of a matrix) -/
def sumVecs : List (List K) → Option (List K)
  | [] => none
  | r :: rs => rs.foldlM (fun acc r' => addVec acc r') r

/-- the rank-2 slice `out[k][l]` of one row in `Polynomial_FCN.forward` (before the sum); `L[k][l][j]`, `k` input,
    `l` output, `j` power.  As coded: `out = L[.,.,deg-1]/deg`, then for `j = deg … 1`:
    `out = x*out + L[.,.,j-1]/max(1,j-1)`.  The product `points(…,in,1) * out(…,in',out)` broadcasts when one
    of in, in' is 1. -/
def polyPerInput (ofNat : Nat → K) (deg : Nat) (L : List (List (List K))) (x : List K) : Option (List (List K)) :=
  (bcast x L).bind fun (xs, Ls) =>
    mapOpt (fun (xl : K × List (List K)) =>
        mapOpt (fun (c : List K) =>
          (c[deg - 1]?).bind fun top =>
            (List.range deg).reverse.foldlM (fun acc j =>       -- j+1 = deg … 1
              (c[j]?).map fun cj => xl.1 * acc + cj / ofNat (max 1 j)) (top / ofNat deg)) xl.2)
      (xs.zip Ls)

/-- one layer of `Polynomial_FCN.forward` before the activation, for one row: the slice above summed over
    the input axis -/
def polyLayer (ofNat : Nat → K) (deg : Nat) (L : List (List (List K))) (x : List K) : Option (List K) :=
  (polyPerInput ofNat deg L x).bind sumVecs

/-- `Polynomial_FCN.forward` -/
def polyRow (ofNat : Nat → K) (deg : Nat) (resCon : Bool) (act : K → K) (layers : List (List (List (List K))))
    (x : List K) : Option (List K) :=
  let nL := layers.length
  ((layers.zip (List.range nL)).foldlM (fun (st : List K × List K) (Li : List (List (List K)) × Nat) =>
      (polyLayer ofNat deg Li.1 st.1).bind fun out =>
        if resCon && Li.2 < nL - 1 && Li.2 > 0 then
          (bcast (out.map act) st.1).map fun ab => (List.zipWith (· + ·) ab.1 ab.2, out)
        else some (out.map act, out)) (x, ([] : List K))).bind fun st =>
    if nL = 0 then none else some st.2

variable [Sub K] [Neg K] [OfNat K 2]

/-- `NormalizationLayer.__init__`: weight `2/(max-min)` and bias `-(max+min)/2 * weight` per coordinate -/
def normCoeff (lo hi : K) : K × K :=
  let d : K := 2 / (hi - lo)
  (d, -((hi + lo) / 2) * d)

/-- one coordinate of the layer -/
def normCoord (lo hi x : K) : K := x * (normCoeff lo hi).1 + (normCoeff lo hi).2

/-- `NormalizationLayer.forward` on a row, given the layer's (weight, bias) per coordinate
    (the layer is `nn.Linear` with a diagonal weight matrix) -/
def diagRow (coeffs : List (K × K)) (x : List K) : Option (List K) :=
  if coeffs.length = x.length then some (List.zipWith (fun (c : K × K) t => t * c.1 + c.2) coeffs x) else none

def normRow (box : List (K × K)) (x : List K) : Option (List K) :=
  diagRow (box.map fun b => normCoeff b.1 b.2) x

end Arch

/-! ## The same architectures written over the whole batch (table level), as the code is

  `X` is the batch as a table (one row per point, all batch axes flattened: every operation below except the
  old polynomial sum treats the batch axes uniformly).  That these table-level forwards map every row on its
  own is *proved* in `TPV/Props/C08Arch.lean`. -/

section Table
variable {K : Type} [Add K] [Mul K] [OfNat K 0]

/-- split every row into its first entry and the rest (a column and the remaining table) -/
def heads (X : List (List K)) : Option (List (K × List K)) :=
  mapOpt (fun r => match r with | [] => none | a :: t => some (a, t)) X

/-- `X @ W.T`, accumulated over the `k` input features as a sum of outer products
    `Σ_k (column k of X) ⊗ (column k of W)`.  An empty batch has no row to check (the convention of this
    model for empty batches, see the header). -/
def tMatMulT : Nat → List (List K) → List (List K) → Option (List (List K))
  | _, [], _ => some []
  | 0, x :: xs, W =>
    if (x :: xs).all List.isEmpty && W.all List.isEmpty then some ((x :: xs).map fun _ => W.map fun _ => 0) else none
  | k + 1, x :: xs, W =>
    (heads (x :: xs)).bind fun hx => (heads W).bind fun hw =>
      (tMatMulT k (hx.map (·.2)) (hw.map (·.2))).map fun R =>
        List.zipWith (fun (a : K × List K) r => List.zipWith (fun (b : K × List K) c => b.1 * a.1 + c) hw r) hx R

/-- `F.linear(X, W)` without bias; `in_features` is read off the weight matrix -/
def tLinearT (X W : List (List K)) : Option (List (List K)) :=
  match W with
  | [] => some (X.map fun _ => [])
  | w :: _ => tMatMulT w.length X W

/-- elementwise binary operation on two tables of the same batch length -/
def tZip (f : List K → List K → Option (List K)) (A B : List (List K)) : Option (List (List K)) :=
  if A.length = B.length then mapOpt (fun ab => f ab.1 ab.2) (A.zip B) else none

/-- `T + b` with the vector `b` expanded over the batch -/
def tAddBias (A : List (List K)) (b : List K) : Option (List (List K)) := tZip addVec A (A.map fun _ => b)

/-- an activation applied to the whole table -/
def tMap (act : K → K) (A : List (List K)) : List (List K) := A.map (·.map act)

def Lin.appT (l : Lin K) (X : List (List K)) : Option (List (List K)) := (tLinearT X l.W).bind (tAddBias · l.b)

def fcnT (hidden : List (Lin K × (K → K))) (last : Lin K) (X : List (List K)) : Option (List (List K)) :=
  (hidden.foldlM (fun H (la : Lin K × (K → K)) => (la.1.appT H).map (tMap la.2)) X).bind last.appT

/-- `torch.cat([X, cos(1πX), sin(1πX), …], dim=-1)` -/
def harmonicFeaturesT (cosf sinf : K → K) (pi : K) (ofNat : Nat → K) (minF maxF : Nat) (X : List (List K)) :
    Option (List (List K)) :=
  ((List.range' minF (maxF - minF)).flatMap fun i =>
      [tMap (fun t => cosf (ofNat (i + 1) * pi * t)) X, tMap (fun t => sinf (ofNat (i + 1) * pi * t)) X]).foldlM hcat X

def harmonicT (cosf sinf : K → K) (pi : K) (ofNat : Nat → K) (minF maxF : Nat)
    (hidden : List (Lin K × (K → K))) (last : Lin K) (X : List (List K)) : Option (List (List K)) :=
  (harmonicFeaturesT cosf sinf pi ofNat minF maxF X).bind (fcnT hidden last)

/-- `Quadratic.forward` on the batch: two matrix products, a Hadamard product, two sums -/
def Quad.appT (l : Quad K) (X : List (List K)) : Option (List (List K)) :=
  (tLinearT X l.W1).bind fun lin => (tLinearT X l.W2).bind fun quad =>
    (tZip mulVec quad lin).bind fun ql => (tZip addVec ql lin).bind (tAddBias · l.b)

def qresT (hidden : List (Quad K × (K → K))) (last : Quad K) (X : List (List K)) : Option (List (List K)) :=
  (hidden.foldlM (fun H (la : Quad K × (K → K)) => (la.1.appT H).map (tMap la.2)) X).bind last.appT

/-- `DeepRitzNet.forward` on the batch -/
def ritzT (relu : K → K) (linIn : Lin K) (blocks : List (Lin K × Lin K)) (linOut : Lin K) (X : List (List K)) :
    Option (List (List K)) :=
  let cube := fun (t : K) => relu (t * t * t)
  (linIn.appT X).bind fun H =>
    (blocks.foldlM (fun H (b : Lin K × Lin K) =>
      (b.1.appT H).bind fun t1 => (b.2.appT (tMap cube t1)).bind fun t2 => tZip addVec (tMap cube t2) H) H).bind linOut.appT

variable [Div K]

/-- the rank-3 tensor `(batch, in, out)` of `Polynomial_FCN.forward` (elementwise Horner steps with the
    coefficients expanded over the batch and the points over the output axis) -/
def polyTensor (ofNat : Nat → K) (deg : Nat) (L : List (List (List K))) (X : List (List K)) :
    Option (List (List (List K))) := mapOpt (polyPerInput ofNat deg L) X

/-- `torch.sum(out, dim=-2)` on a rank-3 tensor: the sum over the input features (the repaired code) -/
def sumAxisM2 (T : List (List (List K))) : Option (List (List K)) := mapOpt sumVecs T

/-- elementwise sum of a non-empty list of matrices -/
def sumTables : List (List (List K)) → Option (List (List K))
  | [] => none
  | t :: ts => ts.foldlM (fun acc t' => tZip addVec acc t') t

/-- `torch.sum(out, dim=1)` on a rank-4 tensor `(a, b, in, out)`: the sum over the SECOND BATCH AXIS
    (what the pinned code did when the points had two batch axes) -/
def sumAxis1R4 (T : List (List (List (List K)))) : Option (List (List (List K))) := mapOpt sumTables T

/-- one layer of the repaired `Polynomial_FCN.forward` on the batch -/
def polyLayerT (ofNat : Nat → K) (deg : Nat) (L : List (List (List K))) (X : List (List K)) : Option (List (List K)) :=
  (polyTensor ofNat deg L X).bind sumAxisM2

/-- the repaired `Polynomial_FCN.forward` on the batch -/
def polyT (ofNat : Nat → K) (deg : Nat) (resCon : Bool) (act : K → K) (layers : List (List (List (List K))))
    (X : List (List K)) : Option (List (List K)) :=
  let nL := layers.length
  ((layers.zip (List.range nL)).foldlM (fun (st : List (List K) × List (List K)) (Li : List (List (List K)) × Nat) =>
      (polyLayerT ofNat deg Li.1 st.1).bind fun out =>
        if resCon && Li.2 < nL - 1 && Li.2 > 0 then
          (tZip (fun a b => (bcast a b).map fun ab => List.zipWith (· + ·) ab.1 ab.2) (tMap act out) st.1).map fun s => (s, out)
        else some (tMap act out, out)) (X, X.map fun _ => ([] : List K))).bind fun st =>
    if nL = 0 then none else some st.2

/-- one layer of the PINNED `Polynomial_FCN.forward` on points with two batch axes `P[i][j]` (shape `(a, b, f)`),
    `A = len(points)` as computed once at the start of `forward`: the coefficients are expanded to `(A, f, out)`,
    the product `(a, b, f, 1) * (A, f, out)` broadcasts iff `b = A` or `A = 1` or `b = 1` (the expanded axis is
    constant, so the product is the per-point slice in every accepted case), and the result is summed over
    `dim=1`: the `b` points of every `i` are ADDED UP; the answer has shape `(a, f, out)`. -/
def polyOldLayer2 (ofNat : Nat → K) (deg : Nat) (A : Nat) (L : List (List (List K))) (P : List (List (List K))) :
    Option (List (List (List K))) :=
  if P.all (fun Pi => Pi.length == A || A == 1 || Pi.length == 1) then
    (mapOpt (mapOpt (polyPerInput ofNat deg L)) P).bind sumAxis1R4
  else none

/-- the pinned `Polynomial_FCN.forward` (without residual connections) on points with two batch axes: every layer
    turns `(a, b, f)` into `(a, f, out)`; the final tensor is wrapped as Points of batch shape `(a, f_last)` -/
def polyOldForward2 (ofNat : Nat → K) (deg : Nat) (act : K → K) (layers : List (List (List (List K))))
    (P : List (List (List K))) : Option (List Nat × List (List K)) :=
  (layers.foldlM (fun (st : List (List (List K)) × List (List (List K))) L =>
      (polyOldLayer2 ofNat deg P.length L st.1).map fun out => (out.map (tMap act), out)) (P, [])).bind fun st =>
    match layers, st.2 with
    | [], _ => none
    | _, [] => some ([0], [])
    | _, S0 :: Ss => some ([(S0 :: Ss).length, S0.length], (S0 :: Ss).flatten)

end Table

/-! ## The library's model classes -/

section Classes
variable {K : Type} [Add K] [Mul K] [OfNat K 0]

def FCN (inS outS : Space) (hidden : List (Lin K × (K → K))) (last : Lin K) : Model K :=
  .leaf inS outS true (fcnRow hidden last)

def HarmonicFCN (cosf sinf : K → K) (pi : K) (ofNat : Nat → K) (inS outS : Space) (minF maxF : Nat)
    (hidden : List (Lin K × (K → K))) (last : Lin K) : Model K :=
  .leaf inS outS true (harmonicRow cosf sinf pi ofNat minF maxF hidden last)

/-- `QRES` after the repair (`forward` calls `_fix_points_order`) -/
def QRES (inS outS : Space) (hidden : List (Quad K × (K → K))) (last : Quad K) : Model K :=
  .leaf inS outS true (qresRow hidden last)

/-- `QRES` as it was at the pinned commit: `forward` applied the layers to whatever came in -/
def QRESOld (inS outS : Space) (hidden : List (Quad K × (K → K))) (last : Quad K) : Model K :=
  .leaf inS outS false (qresRow hidden last)

def DeepRitzNet (relu : K → K) (inS outS : Space) (linIn : Lin K) (blocks : List (Lin K × Lin K)) (linOut : Lin K) :
    Model K :=
  .leaf inS outS true (ritzRow relu linIn blocks linOut)

def PolynomialFCN [Div K] (ofNat : Nat → K) (inS outS : Space) (deg : Nat) (resCon : Bool) (act : K → K)
    (layers : List (List (List (List K)))) : Model K :=
  .leaf inS outS true (polyRow ofNat deg resCon act layers)

/-- `NormalizationLayer(domain)`: input and output space are the domain's space, the coefficients
    come from `domain.bounding_box()` (`box[2i]`, `box[2i+1]`) -/
def NormalizationLayer [Div K] [Sub K] [Neg K] [OfNat K 2] (S : Space) (box : List (K × K)) : Model K :=
  .leaf S S true (normRow box)

/-- the same layer with its current (trainable) weight diagonal and bias -/
def DiagLayer (S : Space) (coeffs : List (K × K)) : Model K :=
  .leaf S S true (diagRow coeffs)

end Classes

end TPV.Net
