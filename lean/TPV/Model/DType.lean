/-
  C12 — element types of the table (import-free, executable).  The library never converts element
  types itself: `torch.cat` (join, joined, `|`, from_coordinates) and tensor arithmetic PROMOTE the
  operands (`torch.promote_types`), assignment keeps the type of the target.  Cells are exact rationals
  in the model; a typed table is the table plus its tag, and an operation is compared with the code only
  when every resulting cell is representable in the resulting type (`fits`), otherwise torch rounds —
  which the model does not describe (`unmodelled`).
-/
import TPV.Model.Points
namespace TPV.Table

inductive DType where
  | i64 | f32 | f64
  deriving DecidableEq, Repr

def DType.name : DType → String
  | .i64 => "i64" | .f32 => "f32" | .f64 => "f64"

/-- `torch.promote_types` on {int64, float32, float64} -/
def promote : DType → DType → DType
  | .f64, _ => .f64
  | _, .f64 => .f64
  | .f32, _ => .f32
  | _, .f32 => .f32
  | .i64, .i64 => .i64

def bitLen : Nat → Nat
  | 0 => 0
  | n + 1 => 1 + bitLen ((n + 1) / 2)

/-- strip the factors 2 -/
def oddPart : Nat → Nat → Nat
  | 0, n => n
  | fuel + 1, n => if n ≠ 0 ∧ n % 2 = 0 then oddPart fuel (n / 2) else n

def isPow2 (fuel n : Nat) : Bool := oddPart fuel n == 1

/-- the rational is a value of the element type (exponent range ignored: cells are moderate) -/
def fits (t : DType) (r : Rat) : Bool :=
  match t with
  | .i64 => r.den == 1 && r.num.natAbs < 2 ^ 63
  | .f32 => isPow2 r.den r.den && bitLen (oddPart r.num.natAbs r.num.natAbs) ≤ 24
  | .f64 => isPow2 r.den r.den && bitLen (oddPart r.num.natAbs r.num.natAbs) ≤ 53

structure TPoints (α : Type) where
  dtype : DType
  pts : Points α

variable {α : Type}

/-- `p.join(q)`: an empty operand gives the other one back unchanged, otherwise `torch.cat` promotes -/
def TPoints.join (p q : TPoints α) : Except Err (TPoints α) :=
  if p.pts.isempty then pure q
  else if q.pts.isempty then pure p
  else do let r ← p.pts.join q.pts; pure ⟨promote p.dtype q.dtype, r⟩

/-- `p | q` -/
def TPoints.cat (p q : TPoints α) : Except Err (TPoints α) :=
  if p.pts.isempty then pure q
  else if q.pts.isempty then pure p
  else do let r ← p.pts.cat q.pts; pure ⟨promote p.dtype q.dtype, r⟩

/-- the promoted type of a non-empty list of types -/
def promoteAll : List DType → Option DType
  | [] => none
  | t :: ts => some (ts.foldl promote t)

/-- `Points.joined(*ps)`: the empty entries are skipped, the others are concatenated by one `torch.cat` -/
def TPoints.joined (ps : List (TPoints α)) : Except Err (TPoints α) := do
  let r ← Points.joined (ps.map (·.pts))
  match promoteAll ((ps.filter fun p => !p.pts.isempty).map (·.dtype)) with
  | some t => pure ⟨t, r⟩
  | none => throw .value

/-- typed version of the natural total extension `Points.joinedTotal` -/
def TPoints.joinedTotal (ps : List (TPoints α)) : Except Err (TPoints α) := do
  let r ← Points.joinedTotal (ps.map (·.pts))
  match promoteAll ((ps.filter fun p => !p.pts.isempty).map (·.dtype)) with
  | some t => pure ⟨t, r⟩
  | none => pure ⟨.f32, r⟩          -- `Points.empty()` is float32

/-- `p + q`, `p - q`, `p * q` on tensors: promoted type -/
def TPoints.arith (f : α → α → α) (p q : TPoints α) : Except Err (TPoints α) := do
  let r ← p.pts.arith f q.pts; pure ⟨promote p.dtype q.dtype, r⟩

/-- the index addresses rows through a list / tensor / mask (torch: `index_put`) -/
def Index.hasAdvanced : Index → Bool
  | .one it => it.isAdvanced
  | .pylist _ => true
  | .tup its => its.any Item.isAdvanced

/-- `p[ix] = q`: the target keeps its element type; plain indices convert the assigned cells
    (`copy_`), but torch refuses a list/mask index when the element types differ
    ("Index put requires the source and destination dtypes match"), except for a one-cell value -/
def TPoints.setitem (p : TPoints α) (ix : Index) (q : TPoints α) : Except Err (TPoints α) := do
  let r ← p.pts.setitem ix q.pts
  if p.dtype ≠ q.dtype ∧ ix.hasAdvanced then
    -- a one-cell value is taken as a scalar by torch's mask path (`masked_fill`): not modelled
    throw (if (q.pts.data.map List.length).sum = 1 then .unmodelled else .runtime)
  pure ⟨p.dtype, r⟩

def TPoints.getitem (p : TPoints α) (ix : Index) : Except Err (TPoints α) := do
  let r ← p.pts.getitem ix; pure ⟨p.dtype, r⟩

def TPoints.repeat (p : TPoints α) (ns : List Int) : Except Err (TPoints α) := do
  let r ← p.pts.repeat ns; pure ⟨p.dtype, r⟩

/-- `Points.from_coordinates`: one `torch.cat` over all coordinate tensors (`{}` gives `Points.empty()`,
    which is float32) -/
def TPoints.fromCoordinates (cs : List (DType × Coord α)) : Except Err (TPoints α) := do
  let r ← Points.fromCoordinates (cs.map (·.2))
  match promoteAll (cs.map (·.1)) with
  | some t => pure ⟨t, r⟩
  | none => pure ⟨.f32, r⟩

end TPV.Table

/-! ## one object over time: the state of a `Points` object is its typed table and the
    `requires_grad` flag of its tensor; every read accessor is a function of that state only -/
namespace TPV.Table
variable {α : Type}

structure Obj (α : Type) where
  t : TPoints α
  grad : Bool

/-- the state-changing operations of a `Points` object -/
inductive Mut (α : Type) where
  | set (ix : Index) (q : TPoints α)     -- `p[ix] = q`
  | to (d : DType)                       -- `p.to(dtype)`: rebinds the tensor
  | setGrad (b : Bool)                   -- `p.requires_grad = b`

/-- torch refuses in-place writes into a leaf tensor that requires grad, and `requires_grad = True`
    on an integer tensor; `to` keeps the cells (conversion that rounds is outside the model: the
    driver answers `unmodelled` when a cell is not a value of the new type) -/
def Obj.step (o : Obj α) : Mut α → Except Err (Obj α)
  | .set ix q => if o.grad then throw .runtime else do let t ← o.t.setitem ix q; pure ⟨t, o.grad⟩
  | .to d => pure ⟨⟨d, o.t.pts⟩, o.grad && decide (d ≠ .i64)⟩
  | .setGrad b => if b ∧ o.t.dtype = .i64 then throw .runtime else pure ⟨o.t, b⟩

def Obj.run (o : Obj α) : List (Mut α) → Except Err (Obj α)
  | [] => pure o
  | m :: ms => do let o' ← o.step m; o'.run ms

/-! the read accessors -/
def Obj.asTensor (o : Obj α) : DType × List Nat × List (List α) := (o.t.dtype, o.t.pts.shape, o.t.pts.data)
def Obj.coordinates (o : Obj α) : List (String × DType × Bool × List (List α)) :=
  o.t.pts.coordinates.map fun c => (c.1, o.t.dtype, o.grad, c.2)
def Obj.byName (o : Obj α) (v : String) : Except Err (TPoints α) := o.t.getitem (.tup [.ell, .name v])
def Obj.len (o : Obj α) : Nat := o.t.pts.len
def Obj.isempty (o : Obj α) : Bool := o.t.pts.isempty
def Obj.requiresGrad (o : Obj α) : Bool := o.grad

end TPV.Table
