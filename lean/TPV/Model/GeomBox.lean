/-
  Bounding boxes of domain expressions (C18) — import-free, executable.
  Mirrors `bounding_box` of src/torchphysics/problem/domains (primitives, Boolean operations, products,
  Translate / Rotate) and the arithmetic of its two consumers: `LHSSampler._create_lhs_in_bounding_box`
  (the normalisation layer is modelled in TPV/Model/Net.lean: `normCoord`, `normRow`).

  Conventions (see Geom.lean): one box is a list of `(min, max)` per axis in space order
  (`[x_min, x_max, y_min, y_max, …]` in the code); `ρs` are the supplied parameter rows — never
  empty, the parameter-free call is `[[]]` — ; rejected input is `none`.

  As in the code
  * primitives take the extreme values over *all* supplied rows (`torch.min` / `torch.max` over the
    row axis); disc and ball combine every centre with every radius (`center[:, i] - radius`
    broadcasts a (k,) against a (k,1) tensor), i.e. `min centre − max radius`, `max centre + max radius`;
  * union = axis-wise hull, intersection = axis-wise (max of the minima, min of the maxima), cut = the
    box of the first operand, product = concatenation;
  * `Translate` / `Rotate` evaluate the motion per parameter row and return ONE BOX PER ROW when the
    motion depends on parameters (the argument `ρ` of `bbox` selects that row; every other node
    ignores it).  The inner box is still the box over all rows.  Union / intersection / product reduce
    such per-row boxes of an operand to the common box of all rows before combining them.
-/
import TPV.Model.Geom

namespace TPV.Geom

/-- `mapM` for `Option`, written out (all results or `none`) -/
def mapOpt {α β : Type} (f : α → Option β) : List α → Option (List β)
  | [] => some []
  | a :: as =>
    match f a, mapOpt f as with
    | some b, some bs => some (b :: bs)
    | _, _ => none

section box
variable {K : Type} [Add K] [Sub K] [Mul K] [Div K] [Neg K] [LE K] [DecidableLE K] [OfNat K 0] [OfNat K 1]

def minL : List K → Option K
  | [] => none
  | x :: xs => some (xs.foldl minK x)

def maxL : List K → Option K
  | [] => none
  | x :: xs => some (xs.foldl maxK x)

/-- (smallest, largest) entry -/
def span (l : List K) : Option (K × K) :=
  match minL l, maxL l with
  | some a, some b => some (a, b)
  | _, _ => none

/-- a parameter evaluated at one row, as a scalar / 2-vector / 3-vector (anything else: rejected) -/
def eval1 (p : PFun K) (ρ : Env K) : Option K :=
  match p.f ρ with | [a] => some a | _ => none
def eval2 (p : PFun K) (ρ : Env K) : Option (K × K) :=
  match p.f ρ with | [a, b] => some (a, b) | _ => none
def eval3 (p : PFun K) (ρ : Env K) : Option (K × K × K) :=
  match p.f ρ with | [a, b, c] => some (a, b, c) | _ => none

/-- axis-wise extreme coordinates of a list of planar points -/
def box2 (l : List (K × K)) : Option (List (K × K)) :=
  match span (l.map (·.1)), span (l.map (·.2)) with
  | some sx, some sy => some [sx, sy]
  | _, _ => none

/-- the four corners of `Parallelogram(origin, corner_1, corner_2)` at one row
    (`corner_3 = corner_1 + corner_2 - origin`) -/
def parCorners (o c1 c2 : PFun K) (ρ : Env K) : Option (List (K × K)) :=
  match eval2 o ρ, eval2 c1 ρ, eval2 c2 ρ with
  | some (ox, oy), some (ax, ay), some (bx, cy) => some [(ox, oy), (ax, ay), (bx, cy), (ax + bx - ox, ay + cy - oy)]
  | _, _, _ => none

def triCorners (o c1 c2 : PFun K) (ρ : Env K) : Option (List (K × K)) :=
  match eval2 o ρ, eval2 c1 ρ, eval2 c2 ρ with
  | some o', some a, some b => some [o', a, b]
  | _, _, _ => none

/-- image of a point under `q ↦ M (q − c) + c` -/
def rotPt (m00 m01 m10 m11 cx cy x y : K) : K × K :=
  (m00 * (x - cx) + m01 * (y - cy) + cx, m10 * (x - cx) + m11 * (y - cy) + cy)

/-- `Rotate.bounding_box` on an inner box: all four corners are rotated about `c`
    (order of `itertools.product([min, max], repeat=2)`), extreme coordinates of the images -/
def bboxRotate (bd : List (K × K)) (m c : List K) : Option (List (K × K)) :=
  match m, c, bd with
  | [m00, m01, m10, m11], [cx, cy], [(x0, x1), (y0, y1)] =>
    let r := rotPt m00 m01 m10 m11 cx cy
    box2 [r x0 y0, r x0 y1, r x1 y0, r x1 y1]
  | _, _, _ => none

/-- `Translate.bounding_box` on an inner box: minimum and maximum of axis `i` are shifted by `t[i]` -/
def bboxTranslate (bd : List (K × K)) (t : List K) : Option (List (K × K)) :=
  if t.length = bd.length then some (List.zipWith (fun b s => (b.1 + s, b.2 + s)) bd t) else none

/-- axis-wise hull of a non-empty list of boxes of equal dimension (`Domain._common_bounding_box`: the one box
    that contains the boxes of all parameter rows) -/
def hullBoxes : List (List (K × K)) → Option (List (K × K))
  | [] => none
  | [b] => some b
  | b :: bs =>
    match hullBoxes bs with
    | some h => if b.length = h.length then some (List.zipWith (fun x y => (minK x.1 y.1, maxK x.2 y.2)) b h) else none
    | none => none

/-- the common box of an operand over all supplied rows (`f ρ` = the operand's box for row `ρ`) -/
def rowsHull (f : Env K → Option (List (K × K))) (ρs : List (Env K)) : Option (List (K × K)) :=
  match mapOpt f ρs with
  | some l => hullBoxes l
  | none => none

/-- **`bounding_box(params)`** for the rows `ρs`; for motion nodes: the box returned for row `ρ`.
    Union, intersection and product first reduce the boxes of an operand to the common box of all rows. -/
def bbox : Dom K → List (Env K) → Env K → Option (List (K × K))
  | .interval _ lb ub, ρs, _ =>
    match mapOpt (eval1 lb) ρs, mapOpt (eval1 ub) ρs with
    | some ls, some us =>
      match minL ls, maxL us with
      | some lo, some hi => some [(lo, hi)]
      | _, _ => none
    | _, _ => none
  | .par _ o c1 c2, ρs, _ =>
    match mapOpt (parCorners o c1 c2) ρs with
    | some cs => box2 cs.flatten
    | none => none
  | .tri _ o c1 c2, ρs, _ =>
    match mapOpt (triCorners o c1 c2) ρs with
    | some cs => box2 cs.flatten
    | none => none
  | .circle _ c r, ρs, _ =>
    match mapOpt (eval2 c) ρs, mapOpt (eval1 r) ρs with
    | some cs, some rs =>
      match span (cs.map (·.1)), span (cs.map (·.2)), maxL rs with
      | some (x0, x1), some (y0, y1), some rm => some [(x0 - rm, x1 + rm), (y0 - rm, y1 + rm)]
      | _, _, _ => none
    | _, _ => none
  | .sphere _ c r, ρs, _ =>
    match mapOpt (eval3 c) ρs, mapOpt (eval1 r) ρs with
    | some cs, some rs =>
      match span (cs.map (·.1)), span (cs.map (·.2.1)), span (cs.map (·.2.2)), maxL rs with
      | some (x0, x1), some (y0, y1), some (z0, z1), some rm =>
        some [(x0 - rm, x1 + rm), (y0 - rm, y1 + rm), (z0 - rm, z1 + rm)]
      | _, _, _, _ => none
    | _, _ => none
  | .union a b, ρs, _ =>
    match rowsHull (bbox a ρs) ρs, rowsHull (bbox b ρs) ρs with
    | some ba, some bb =>
      if ba.length = bb.length then some (List.zipWith (fun x y => (minK x.1 y.1, maxK x.2 y.2)) ba bb) else none
    | _, _ => none
  | .inter a b, ρs, _ =>
    match rowsHull (bbox a ρs) ρs, rowsHull (bbox b ρs) ρs with
    | some ba, some bb =>
      if ba.length = bb.length then some (List.zipWith (fun x y => (maxK x.1 y.1, minK x.2 y.2)) ba bb) else none
    | _, _ => none
  | .cut a _, ρs, ρ => bbox a ρs ρ
  | .prod a b, ρs, _ =>
    -- constant product, or the partner's coordinates are supplied with the parameters
    match rowsHull (bbox a ρs) ρs, rowsHull (bbox b ρs) ρs with
    | some ba, some bb => some (ba ++ bb)
    | _, _ => none
  | .translate _ d t, ρs, ρ =>
    match bbox d ρs ρ with
    | some bd => bboxTranslate bd (t.f ρ)
    | none => none
  | .rotate _ d m c, ρs, ρ =>
    match bbox d ρs ρ with
    | some bd => bboxRotate bd (m.f ρ) (c.f ρ)
    | none => none
  | .bdry d, ρs, ρ | .bdryL d, ρs, ρ | .bdryR d, ρs, ρ => bbox d ρs ρ

/-- `Rotate.bounding_box` of the pinned snapshot: only the corners (min, min) and (max, max) are
    rotated (kept for the negative result `rotate_old_not_enclosing`) -/
def bboxRotateOld (bd : List (K × K)) (m c : List K) : Option (List (K × K)) :=
  match m, c, bd with
  | [m00, m01, m10, m11], [cx, cy], [(x0, x1), (y0, y1)] =>
    let r := rotPt m00 m01 m10 m11 cx cy
    box2 [r x0 y0, r x1 y1]
  | _, _, _ => none


/-! ### rotations of 3-D domains (`Rotate` with an explicit 3×3 matrix; the expression type `Dom` only has the
    2-D rotation, so this is a function of the inner box) -/

/-- axis-wise extreme coordinates of a list of points in space -/
def box3 (l : List (K × K × K)) : Option (List (K × K)) :=
  match span (l.map (·.1)), span (l.map (·.2.1)), span (l.map (·.2.2)) with
  | some sx, some sy, some sz => some [sx, sy, sz]
  | _, _, _ => none

/-- image of a point under `q ↦ M (q − c) + c`, `M` row-major -/
def rotPt3 (m c : List K) (x y z : K) : Option (K × K × K) :=
  match m, c with
  | [a11, a12, a13, a21, a22, a23, a31, a32, a33], [cx, cy, cz] =>
    some (a11 * (x - cx) + a12 * (y - cy) + a13 * (z - cz) + cx,
          a21 * (x - cx) + a22 * (y - cy) + a23 * (z - cz) + cy,
          a31 * (x - cx) + a32 * (y - cy) + a33 * (z - cz) + cz)
  | _, _ => none

/-- `Rotate.bounding_box` in three dimensions: all eight corners of the inner box are rotated about `c`
    (order of `itertools.product([min, max], repeat=3)`), extreme coordinates of the images -/
def bboxRotate3 (bd : List (K × K)) (m c : List K) : Option (List (K × K)) :=
  match bd with
  | [(x0, x1), (y0, y1), (z0, z1)] =>
    match mapOpt (fun (q : K × K × K) => rotPt3 m c q.1 q.2.1 q.2.2)
        [(x0, y0, z0), (x0, y0, z1), (x0, y1, z0), (x0, y1, z1), (x1, y0, z0), (x1, y0, z1), (x1, y1, z0), (x1, y1, z1)] with
    | some imgs => box3 imgs
    | none => none
  | _ => none

/-! ### shape of the result for several parameter rows -/

/-- does `bounding_box` return one box per row when called with two or more rows?  (a motion that depends
    on parameters, seen through outer motions, cuts and boundaries; union / intersection / product reduce
    their operands' boxes to the common box) -/
def Dom.perRow : Dom K → Bool
  | .interval .. | .par .. | .tri .. | .circle .. | .sphere .. => false
  | .union .. | .inter .. | .prod .. => false
  | .cut a _ => a.perRow
  | .translate _ d t => !t.args.isEmpty || d.perRow
  | .rotate _ d m c => !m.args.isEmpty || !c.args.isEmpty || d.perRow
  | .bdry d | .bdryL d | .bdryR d => d.perRow

/-- the whole call `D.bounding_box(params)`: `inl box` = flat result, `inr boxes` = one box per row;
    `none` = rejected -/
def bboxCall (D : Dom K) (ρs : List (Env K)) : Option (List (K × K) ⊕ List (List (K × K))) :=
  match ρs with
  | [] => none
  | ρ :: rest =>
    if rest.isEmpty || !D.perRow then (bbox D ρs ρ).map .inl
    else (mapOpt (bbox D ρs) ρs).map .inr

/-! ### consumers -/

/-- `LHSSampler._create_lhs_in_bounding_box`, one axis, stratum `j` of `n`, random number `u`:
    `linspace(lo, hi, n+1)[j] + (hi − lo)/n · u` -/
def lhsCoord (lo hi : K) (n j u : K) : K := lo + (hi - lo) / n * j + (hi - lo) / n * u

end box

end TPV.Geom
