/-
  Bounding boxes (C18), volumes (C10) of domain expressions — import-free, executable.
  Mirrors `bounding_box` / `_get_volume` / `volume` of src/torchphysics/problem/domains.
-/
import TPV.Model.Geom

namespace TPV.Geom

section box
variable {K : Type} [Add K] [Sub K] [Mul K] [Div K] [Neg K] [LE K] [DecidableLE K] [OfNat K 0] [OfNat K 1]

def minL : List K → Option K
  | [] => none
  | x :: xs => some (xs.foldl minK x)

def maxL : List K → Option K
  | [] => none
  | x :: xs => some (xs.foldl maxK x)

/-- evaluate a parameter at every row; all rows must yield vectors of length `n` -/
def evalRows (p : PFun K) (ρs : List (Env K)) (n : Nat) : Option (List (List K)) :=
  ρs.mapM fun ρ => let r := p.f ρ; if r.length = n then some r else none

/-- axis-wise hull of a list of points (each of dimension `n`) -/
def hull (n : Nat) (ptsL : List (List K)) : Option (List (K × K)) :=
  (List.range n).mapM fun i => do
    let col ← ptsL.mapM (·[i]?)
    let lo ← minL col
    let hi ← maxL col
    pure (lo, hi)

def vadd (a b : List K) : List K := List.zipWith (· + ·) a b
def vsub (a b : List K) : List K := List.zipWith (· - ·) a b

/-- all `2^d` corners of a box -/
def corners : List (K × K) → List (List K)
  | [] => [[]]
  | (lo, hi) :: rest => (corners rest).flatMap fun c => [lo :: c, hi :: c]

/-- `bounding_box(params)` for the rows `ρs` (never empty: the parameter-free call is `[[]]`).
    For motion nodes the code returns one box per row; `ρ` selects that row (it is ignored by
    every other node). -/
def bbox : Dom K → List (Env K) → Env K → Option (List (K × K))
  | .interval _ lb ub, ρs, _ => do
    let ls ← evalRows lb ρs 1
    let us ← evalRows ub ρs 1
    let lo ← minL ls.flatten
    let hi ← maxL us.flatten
    pure [(lo, hi)]
  | .par _ o c1 c2, ρs, _ => do
    let os ← evalRows o ρs 2
    let as ← evalRows c1 ρs 2
    let bs ← evalRows c2 ρs 2
    let c3 := List.zipWith vsub (List.zipWith vadd as bs) os
    hull 2 (os ++ as ++ bs ++ c3)
  | .tri _ o c1 c2, ρs, _ => do
    let os ← evalRows o ρs 2
    let as ← evalRows c1 ρs 2
    let bs ← evalRows c2 ρs 2
    hull 2 (os ++ as ++ bs)
  | .circle _ c r, ρs, _ => do
    let cs ← evalRows c ρs 2
    let rs ← evalRows r ρs 1
    let lo := List.zipWith (fun c r => c.map (· - r.headD 0)) cs rs
    let hi := List.zipWith (fun c r => c.map (· + r.headD 0)) cs rs
    let l ← hull 2 lo
    let h ← hull 2 hi
    pure (List.zipWith (fun a b => (a.1, b.2)) l h)
  | .sphere _ c r, ρs, _ => do
    let cs ← evalRows c ρs 3
    let rs ← evalRows r ρs 1
    let lo := List.zipWith (fun c r => c.map (· - r.headD 0)) cs rs
    let hi := List.zipWith (fun c r => c.map (· + r.headD 0)) cs rs
    let l ← hull 3 lo
    let h ← hull 3 hi
    pure (List.zipWith (fun a b => (a.1, b.2)) l h)
  | .union a b, ρs, ρ => do
    let ba ← bbox a ρs ρ
    let bb ← bbox b ρs ρ
    if ba.length = bb.length then pure (List.zipWith (fun x y => (minK x.1 y.1, maxK x.2 y.2)) ba bb) else none
  | .inter a b, ρs, ρ => do
    let ba ← bbox a ρs ρ
    let bb ← bbox b ρs ρ
    if ba.length = bb.length then pure (List.zipWith (fun x y => (maxK x.1 y.1, minK x.2 y.2)) ba bb) else none
  | .cut a _, ρs, ρ => bbox a ρs ρ
  | .prod a b, ρs, ρ => do
    -- constant product, or the partner's coordinates are supplied with the parameters
    let ba ← bbox a ρs ρ
    let bb ← bbox b ρs ρ
    pure (ba ++ bb)
  | .translate _ d t, ρs, ρ => do
    let bd ← bbox d ρs ρ
    let tv := t.f ρ
    if tv.length = bd.length then pure (List.zipWith (fun b s => (b.1 + s, b.2 + s)) bd tv) else none
  | .rotate _ d m c, ρs, ρ => do
    let bd ← bbox d ρs ρ
    match m.f ρ, c.f ρ, bd with
    | [m00, m01, m10, m11], [cx, cy], [_, _] =>
      -- every corner of the inner box is rotated about `c`
      let rot := (corners bd).map fun p =>
        match p with
        | [x, y] => [m00 * (x - cx) + m01 * (y - cy) + cx, m10 * (x - cx) + m11 * (y - cy) + cy]
        | _ => []
      hull 2 rot
    | _, _, _ => none
  | .bdry d, ρs, ρ | .bdryL d, ρs, ρ | .bdryR d, ρs, ρ => bbox d ρs ρ

/-- the box of the pinned snapshot for rotations: only the (min,min) and (max,max) corners are rotated -/
def bboxRotateOld (bd : List (K × K)) (m c : List K) : Option (List (K × K)) :=
  match m, c, bd with
  | [m00, m01, m10, m11], [cx, cy], [(x0, x1), (y0, y1)] =>
    let a := [m00 * (x0 - cx) + m01 * (y0 - cy), m10 * (x0 - cx) + m11 * (y0 - cy)]
    let b := [m00 * (x1 - cx) + m01 * (y1 - cy), m10 * (x1 - cx) + m11 * (y1 - cy)]
    match a, b with
    | [ax, ay], [bx, cy'] => some [(minK ax bx + cx, maxK ax bx + cx), (minK ay cy' + cy, maxK ay cy' + cy)]
    | _, _ => none
  | _, _, _ => none

end box

end TPV.Geom
