/-
  C05 — deciding a boundary membership leaf by leaf.
  A point ON the boundary of a composite has a closeness slack of the size of the tolerance, so a float implementation and
  the exact model may legitimately disagree about a single leaf's boundary test when the point lies at the rim of the band.
  The harness therefore decides such rows in three-valued (Kleene) logic:
    * motions are pushed down to the primitives (`Dom.push`),
    * a leaf's boundary test is TRUE if the exact model accepts with the LOW tolerances (a quarter of the band), FALSE if it
      rejects with the HIGH tolerances (four times the band), undecided otherwise,
    * a leaf's interior test counts if its margin exceeds the harness's margin,
    * the formulas of `containsAux` are evaluated over {true, false, undecided}.
  Soundness (`Props/C05Kleene.lean`): a definite value is the value of the coded formula for EVERY assignment of leaf answers
  that agrees with the decided leaves, in particular for the model at every tolerance between LOW and HIGH.
  Import-free and executable; generic over the scalar type like `TPV.Model.Geom`.
-/
import TPV.Model.Geom

namespace TPV.Geom

/-! ### Kleene connectives (`none` = undecided) -/

def kAnd : Option Bool → Option Bool → Option Bool
  | some false, _ => some false
  | _, some false => some false
  | some true, some true => some true
  | _, _ => none

def kOr : Option Bool → Option Bool → Option Bool
  | some true, _ => some true
  | _, some true => some true
  | some false, some false => some false
  | _, _ => none

def kNot : Option Bool → Option Bool
  | some b => some (!b)
  | none => none

/-! ### motions pushed to the leaves -/

/-- union / cut / intersection / product -/
def Dom.isOp {K} : Dom K → Bool
  | .union _ _ | .cut _ _ | .inter _ _ | .prod _ _ => true
  | _ => false

/-- `Translate(d, t)` distributed over the Boolean structure of `d` -/
def wrapT {K} (v : String) (t : PFun K) : Dom K → Dom K
  | .union a b => .union (wrapT v t a) (wrapT v t b)
  | .cut a b => .cut (wrapT v t a) (wrapT v t b)
  | .inter a b => .inter (wrapT v t a) (wrapT v t b)
  | .prod a b => .prod (wrapT v t a) (wrapT v t b)
  | d => .translate v d t

/-- `Rotate(d, m, c)` distributed over the Boolean structure of `d` -/
def wrapR {K} (v : String) (m c : PFun K) : Dom K → Dom K
  | .union a b => .union (wrapR v m c a) (wrapR v m c b)
  | .cut a b => .cut (wrapR v m c a) (wrapR v m c b)
  | .inter a b => .inter (wrapR v m c a) (wrapR v m c b)
  | .prod a b => .prod (wrapR v m c a) (wrapR v m c b)
  | d => .rotate v d m c

/-- every motion moved down to the primitives it acts on -/
def Dom.push {K} : Dom K → Dom K
  | .union a b => .union a.push b.push
  | .cut a b => .cut a.push b.push
  | .inter a b => .inter a.push b.push
  | .prod a b => .prod a.push b.push
  | .translate v d t => wrapT v t d.push
  | .rotate v d m c => wrapR v m c d.push
  | d => d

/-- a primitive under any number of motions -/
def Dom.isLeaf {K} : Dom K → Bool
  | .interval _ _ _ | .par _ _ _ _ | .tri _ _ _ _ | .circle _ _ _ | .sphere _ _ _ => true
  | .translate _ d _ | .rotate _ d _ _ => d.isLeaf
  | _ => false

/-- Boolean operations over moved primitives: the shape of `Dom.push` of a solid expression -/
def Dom.pushed {K} : Dom K → Bool
  | .union a b | .cut a b | .inter a b | .prod a b => a.pushed && b.pushed
  | d => d.isLeaf

/-! ### the coded formulas over arbitrary leaf answers -/

/-- the formulas of `containsAux` for the Boolean operations, over given answers for everything else -/
def boolAux {K} (atom : Bool → Dom K → Option Bool) : Bool → Dom K → Option Bool
  | false, .union a b => do
    let ia ← boolAux atom false a
    let ib ← boolAux atom false b
    pure (ia || ib)
  | true, .union a b => do
    let ia ← boolAux atom false a
    let ib ← boolAux atom false b
    let oa ← boolAux atom true a
    let ob ← boolAux atom true b
    pure ((oa && !ib) || ((ob && !ia) || (ob && oa)))
  | false, .cut a b => do
    let ia ← boolAux atom false a
    let ib ← boolAux atom false b
    pure (ia && !ib)
  | true, .cut a b => do
    let ia ← boolAux atom false a
    let ib ← boolAux atom false b
    let oa ← boolAux atom true a
    let ob ← boolAux atom true b
    pure ((oa && !ib) || ((ob && ia) && !oa))
  | false, .inter a b => do
    let ia ← boolAux atom false a
    let ib ← boolAux atom false b
    pure (ia && ib)
  | true, .inter a b => do
    let ia ← boolAux atom false a
    let ib ← boolAux atom false b
    let oa ← boolAux atom true a
    let ob ← boolAux atom true b
    pure ((oa && ib) || (ob && ia))
  | false, .prod a b => do
    let ia ← boolAux atom false a
    let ib ← boolAux atom false b
    pure (ia && ib)
  | true, .prod a b => do
    let ia ← boolAux atom false a
    let ib ← boolAux atom false b
    let oa ← boolAux atom true a
    let ob ← boolAux atom true b
    pure ((oa && ib) || (ia && ob))
  | onB, d => atom onB d

/-- the same formulas in Kleene logic -/
def kleeneAux {K} (atom : Bool → Dom K → Option Bool) : Bool → Dom K → Option Bool
  | false, .union a b => kOr (kleeneAux atom false a) (kleeneAux atom false b)
  | true, .union a b =>
    let ia := kleeneAux atom false a
    let ib := kleeneAux atom false b
    let oa := kleeneAux atom true a
    let ob := kleeneAux atom true b
    kOr (kAnd oa (kNot ib)) (kOr (kAnd ob (kNot ia)) (kAnd ob oa))
  | false, .cut a b => kAnd (kleeneAux atom false a) (kNot (kleeneAux atom false b))
  | true, .cut a b =>
    let ia := kleeneAux atom false a
    let ib := kleeneAux atom false b
    let oa := kleeneAux atom true a
    let ob := kleeneAux atom true b
    kOr (kAnd oa (kNot ib)) (kAnd (kAnd ob ia) (kNot oa))
  | false, .inter a b => kAnd (kleeneAux atom false a) (kleeneAux atom false b)
  | true, .inter a b =>
    let ia := kleeneAux atom false a
    let ib := kleeneAux atom false b
    let oa := kleeneAux atom true a
    let ob := kleeneAux atom true b
    kOr (kAnd oa ib) (kAnd ob ia)
  | false, .prod a b => kAnd (kleeneAux atom false a) (kleeneAux atom false b)
  | true, .prod a b =>
    let ia := kleeneAux atom false a
    let ib := kleeneAux atom false b
    let oa := kleeneAux atom true a
    let ob := kleeneAux atom true b
    kOr (kAnd oa ib) (kAnd ia ob)
  | onB, d => atom onB d

section ops
variable {K : Type} [Add K] [Sub K] [Mul K] [Div K] [Neg K] [LE K] [DecidableLE K] [OfNat K 0] [OfNat K 1] [BEq K]

/-- componentwise order of tolerances -/
def Tol.le (τ τ' : Tol K) : Prop := τ.atol ≤ τ'.atol ∧ τ.rtol ≤ τ'.rtol ∧ τ.batol ≤ τ'.batol

/-- what the harness takes as decided about a leaf:
    interior test — the exact answer if its margin exceeds `mg`;
    boundary test — TRUE if accepted with the low tolerances, FALSE if rejected with the high ones -/
def leafAtom (τ lo hi : Tol K) (mg : K) (pts ρ : Env K) : Bool → Dom K → Option Bool
  | false, d =>
    match margin τ false d pts ρ with
    | some m => if le m mg then none else containsAux τ false d pts ρ
    | none => none
  | true, d =>
    match containsAux lo true d pts ρ, containsAux hi true d pts ρ with
    | some true, some _ => some true
    | some _, some false => some false
    | _, _ => none

/-- the harness's decision for `D.boundary` at one row: `none` = undecided -/
def kleeneBdry (τ lo hi : Tol K) (mg : K) (D : Dom K) (pts ρ : Env K) : Option Bool :=
  kleeneAux (leafAtom τ lo hi mg pts ρ) true D.push

end ops

end TPV.Geom
