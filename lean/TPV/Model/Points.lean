/-
  C12 — `Points`: a tensor with named column groups (import-free, executable).
  Mirrors src/torchphysics/problem/spaces/points.py.
  A `Points` object is its space, its batch shape (all axes but the last) and its rows in row-major
  order over the batch axes; every row has `space.dim` cells.  Row operations are gathers of whole
  rows by flat index lists that depend on shapes only; column operations act inside one row.
-/
import TPV.Model.Space
namespace TPV.Table

def prodL : List Nat → Nat
  | [] => 1
  | a :: r => a * prodL r

structure Points (α : Type) where
  space : Space
  shape : List Nat
  data  : List (List α)
  deriving DecidableEq, Repr

variable {α : Type}

/-- the invariant established by `Points.__init__` (≥ 1 batch axis, last axis = `space.dim`) -/
def Points.WF (p : Points α) : Prop :=
  p.shape ≠ [] ∧ p.data.length = prodL p.shape ∧ ∀ r ∈ p.data, r.length = p.space.dim

/-- `len(points)` -/
def Points.len (p : Points α) : Nat := prodL p.shape
/-- `points.isempty` -/
def Points.isempty (p : Points α) : Bool := p.len == 0 && p.space.dim == 0

/-- `Points.empty()`: `torch.empty(0, 0)` in the space `{}` -/
def Points.empty : Points α := ⟨⟨[]⟩, [0], []⟩

/-- positions `ds.length` … of a list, in order, or `none` if one is out of range (torch IndexError) -/
def gather {β : Type} (d : List β) : List Nat → Option (List β)
  | [] => some []
  | i :: is =>
    match d[i]?, gather d is with
    | some a, some r => some (a :: r)
    | _, _ => none

/-- split a flat value list into rows of width `w` -/
def chunkRows (w : Nat) : Nat → List α → List (List α)
  | 0, _ => []
  | n + 1, xs => xs.take w :: chunkRows w n (xs.drop w)

/-- `Points(data, space)` from a tensor of full shape `fs` with flat values `xs` -/
def Points.mk? (sp : Space) (fs : List Nat) (xs : List α) : Except Err (Points α) :=
  match fs.reverse with
  | [] => throw .assert
  | [_] => throw .assert                       -- `assert len(shape) >= 2`
  | w :: brev =>
    if w ≠ sp.dim then throw .assert           -- `assert shape[-1] == space.dim`
    else pure ⟨sp, brev.reverse, chunkRows w (prodL brev.reverse) xs⟩

/-! ## columns -/

/-- start of variable `v` in a row: `_variable_slices[v].start` -/
def offOf : Vars → String → Nat
  | [], _ => 0
  | (m, d) :: r, n => if m = n then 0 else d + offOf r n

/-- `rng[slc[v]]`: the column numbers of variable `v` -/
def colsOf (vs : Vars) (v : String) : List Nat :=
  (List.range (dimOf vs v)).map (· + offOf vs v)

/-- the cells of variable `v` in row `r`: `r[slc[v]]` -/
def piece (vs : Vars) (v : String) (r : List α) : List α :=
  (r.drop (offOf vs v)).take (dimOf vs v)

/-- `points.coordinates`: for every variable (in the order of the space) its cells, row by row -/
def Points.coordinates (p : Points α) : List (String × List (List α)) :=
  p.space.names.map fun v => (v, p.data.map (piece p.space.vars v))

/-- one entry of the `coords` dict: name, full shape of the tensor, its rows (`rows` cells each) -/
structure Coord (α : Type) where
  name : String
  shape : List Nat          -- batch shape
  width : Nat
  rows : List (List α)
  deriving Repr

/-- `points.coordinates` in the form `from_coordinates` takes it back: one tensor per variable -/
def Points.coords (p : Points α) : List (Coord α) :=
  p.space.vars.map fun v => ⟨v.1, p.shape, v.2, p.data.map (piece p.space.vars v.1)⟩

/-- row-wise concatenation: `torch.cat(…, dim=-1)` on equal batch shapes -/
def hcat : List (List (List α)) → Nat → List (List α)
  | [], n => List.replicate n []
  | c :: cs, n => List.zipWith (· ++ ·) c (hcat cs n)

/-- `Points.from_coordinates(coords)` -/
def Points.fromCoordinates (cs : List (Coord α)) : Except Err (Points α) :=
  match cs with
  | [] => pure Points.empty
  | c :: _ =>
    if cs.any (fun d => d.shape ≠ c.shape) then throw .assert     -- `assert shape[:-1] == n`
    else if c.shape = [] then throw .assert                      -- constructor: `len(shape) >= 2`
    else pure ⟨⟨cs.map fun d => (d.name, d.width)⟩, c.shape, hcat (cs.map (·.rows)) (prodL c.shape)⟩

/-! ## index expressions -/

inductive Bound where
  | none | int (i : Int) | name (s : String)
  deriving DecidableEq, Repr

inductive Item where
  | int (i : Int)
  | slice (a b : Bound) (step : Option Int)
  | ell
  | mask (bs : List Bool)          -- 1-D bool tensor
  | list (is : List Int)           -- list / tensor / array of integers
  | name (s : String)
  | names (ns : List String)       -- tuple or list of names
  deriving DecidableEq, Repr

inductive Index where
  | one (it : Item)                -- `p[it]`, `it` not a tuple and not a Python list
  | pylist (is : List Int)         -- `p[[i, j, …]]`: a Python list (takes the tuple code path)
  | tup (its : List Item)          -- `p[a, b, …]`
  deriving Repr

/-- what one index item selects on one batch axis -/
structure AxSel where
  size : Nat
  idxs : List Nat
  keep : Bool
  deriving Repr

def normIdx (size : Nat) (i : Int) : Except Err Nat :=
  let j := if i < 0 then i + size else i
  if 0 ≤ j ∧ j < size then pure j.toNat else throw .index

def Item.isAdvanced : Item → Bool
  | .mask _ => true
  | .list _ => true
  | _ => false

/-- selection of an item on a batch axis of length `size` (torch semantics) -/
def axisSel (size : Nat) : Item → Except Err AxSel
  | .int i => do let j ← normIdx size i; pure ⟨size, [j], false⟩
  | .slice a b step => do
    let bound : Bound → Except Err (Option Int) := fun
      | .none => pure none
      | .int i => pure (some i)
      | .name _ => throw .type
    let a ← bound a
    let b ← bound b
    let st : Int := match step with | none => 1 | some k => k
    if st ≤ 0 then throw .value               -- torch: "step must be greater than zero"
    pure ⟨size, pySlice size a b st, true⟩
  | .ell => pure ⟨size, List.range size, true⟩
  | .mask bs =>
    if bs.length ≠ size then throw .index
    else pure ⟨size, (List.range size).filter (fun i => bs[i]? == some true), true⟩
  | .list is => do let js ← is.mapM (normIdx size); pure ⟨size, js, true⟩
  | .name _ => throw .type
  | .names _ => throw .type

/-- flat (row-major) indices of the selected rows, in the order of the result -/
def flatIdx : List AxSel → List Nat
  | [] => [0]
  | a :: rest =>
    let stride := prodL (rest.map (·.size))
    a.idxs.flatMap fun i => (flatIdx rest).map fun j => i * stride + j

def keptShape (l : List AxSel) : List Nat := (l.filter (·.keep)).map (·.idxs.length)

def fullSlice : Item := .slice .none .none none

/-- distribute the batch items over the `k` batch axes: one Ellipsis expands to full slices,
    missing trailing items are full slices -/
def expandItems (k : Nat) (its : List Item) : Except Err (List Item) :=
  let nonEll := its.filter (· ≠ .ell)
  let nEll := its.length - nonEll.length
  if nEll > 1 then throw .unmodelled      -- torch tolerates further `...` in some positions
  else if nonEll.length > k then throw .index
  else if nEll = 1 then
    pure (its.flatMap fun it => if it = .ell then List.replicate (k - nonEll.length) fullSlice else [it])
  else pure (its ++ List.replicate (k - its.length) fullSlice)

def selsOf : List Nat → List Item → Except Err (List AxSel)
  | s :: ss, it :: its => do
    let a ← axisSel s it
    let r ← selsOf ss its
    pure (a :: r)
  | [], [] => pure []
  | _, _ => throw .index

/-- `_compute_slice`, first half: which part of the index addresses batch axes and whether the last
    entry is a column key.  `nd` = number of axes of the tensor (batch axes + 1). -/
def splitIndex (nd : Nat) : Index → Except Err (List Item × Option Item)
  | .one (.name _) => throw .type            -- `p['x']`: torch cannot index with a string
  | .one (.names _) => throw .type
  | .one it => pure ([it], none)
  | .pylist is =>
    if is = [] then throw .index             -- `val[-1]` on an empty list
    else if is.length = nd then throw .type  -- last integer is taken for a column key
    else pure ([.list is], none)
  | .tup its =>
    match its.getLast? with
    | none => throw .index                   -- `p[()]`: `val[-1]` on an empty list
    | some last =>
      let hasEll := its.any (· = .ell)
      if its.length = nd ∨ (hasEll ∧ last ≠ .ell) then pure (its.dropLast, some last)
      else pure (its, none)

/-- `_compute_slice`, second half: the column key → (space of the result, column numbers) -/
def colKey (vs : Vars) : Item → Except Err (Vars × List Nat)
  | .name v =>
    if (keys vs).contains v then pure ([(v, dimOf vs v)], colsOf vs v) else throw .key
  | .names ns =>
    let out := (Space.sub ⟨vs⟩ ns).vars
    if out.any (fun w => !(keys vs).contains w.1) then throw .key
    else pure (out, out.flatMap fun w => colsOf vs w.1)
  | .slice a b step => do
    let bound : Bound → Except Err (Option String) := fun
      | .none => pure none
      | .name s => pure (some s)
      | .int _ => throw .value               -- `keys.index(3)`
    let a ← bound a
    let b ← bound b
    let out ← Space.slice ⟨vs⟩ a b step
    pure (out.vars, out.vars.flatMap fun w => colsOf vs w.1)
  | _ => throw .type

structure Sel where
  sels : List AxSel
  space : Vars
  cols : Option (List Nat)
  deriving Repr

/-- space and column numbers of the result: the whole space without a column key -/
def keyPart (vs : Vars) : Option Item → Except Err (Vars × Option (List Nat))
  | none => pure (vs, none)
  | some it => do let (s, c) ← colKey vs it; pure (s, some c)

/-- everything `__getitem__`/`__setitem__` derive from the index -/
def Points.select (p : Points α) (ix : Index) : Except Err Sel := do
  let k := p.shape.length
  let (bitems, ck) ← splitIndex (k + 1) ix
  let (sp, cols) ← keyPart p.space.vars ck
  -- more than one list/mask index: torch broadcasts them against each other (not modelled)
  if (bitems.filter Item.isAdvanced).length > 1 then throw .unmodelled
  let nonEll := (bitems.filter (· ≠ .ell)).length
  -- without a column key the items may reach the column axis (not modelled)
  if ck.isNone ∧ nonEll = k + 1 then throw .unmodelled
  let its ← expandItems k bitems
  let sels ← selsOf p.shape its
  pure ⟨sels, sp, cols⟩

def pickCols (cols : Option (List Nat)) (r : List α) : Option (List α) :=
  match cols with
  | none => some r
  | some cs => gather r cs

/-- `points[ix]` (as coded after the two index fixes): rows are gathered whole, then the columns
    of the key are picked inside every row; a result without batch axis gets one -/
def Points.getitem (p : Points α) (ix : Index) : Except Err (Points α) := do
  let s ← p.select ix
  match gather p.data (flatIdx s.sels) with
  | none => throw .index
  | some rows =>
    match rows.mapM (pickCols s.cols) with
    | none => throw .index
    | some rows' =>
      let sh := keptShape s.sels
      pure ⟨⟨s.space⟩, if sh = [] then [1] else sh, rows'⟩

/-! ## assignment -/

/-- write the cells `xs` to the columns `cols` of row `r` (`cols[k] ← xs[k]`) -/
def writeCols : List Nat → List α → List α → List α
  | c :: cs, r, x :: xs => writeCols cs (r.set c x) xs
  | _, r, _ => r

def writeRow (cols : Option (List Nat)) (r x : List α) : List α :=
  match cols with
  | none => x
  | some cs => writeCols cs r x

/-- rows `is[k]` of `d` get the cells of `xs[k]` at `cols` -/
def writeRows (cols : Option (List Nat)) : List Nat → List (List α) → List (List α) → List (List α)
  | i :: is, x :: xs, d => writeRows cols is xs (d.modify i (fun r => writeRow cols r x))
  | _, _, d => d

def dropLeadingOnes : Nat → List Nat → List Nat
  | n, 1 :: r => if r.length ≥ n then dropLeadingOnes n r else 1 :: r
  | _, l => l

/-- right-aligned shapes are incompatible for broadcasting -/
def bcastClash (small big : List Nat) : Bool :=
  (small.reverse.zip big.reverse).any fun (a, b) => a ≠ 1 && a ≠ b

/-- the rows of the right-hand side as torch broadcasts them to `n` target rows of batch shape `t` -/
def bcastRows (t : List Nat) (n : Nat) (rshape : List Nat) (rows : List (List α)) :
    Except Err (List (List α)) :=
  let r := dropLeadingOnes t.length rshape
  if r = t then pure rows
  else if r.length > t.length then throw .runtime
  else if bcastClash r t then throw .runtime
  else if r.all (· == 1) then
    match rows with
    | [x] => pure (List.replicate n x)
    | _ => throw .runtime
  else
    -- general right-aligned broadcasting: an axis of length 1 is repeated, the others are copied
    let pad := List.replicate (t.length - r.length) 1 ++ r
    let sels := List.zipWith (fun rk tk =>
      (⟨rk, if rk = tk then List.range tk else List.replicate tk 0, true⟩ : AxSel)) pad t
    match gather rows (flatIdx sels) with
    | some out => pure out
    | none => throw .runtime

/-- `points[ix] = rhs` -/
def Points.setitem (p : Points α) (ix : Index) (rhs : Points α) : Except Err (Points α) := do
  let s ← p.select ix
  if s.space ≠ rhs.space.vars then throw .assert      -- `assert space == points.space`
  let idxs := flatIdx s.sels
  let rows ← bcastRows (keptShape s.sels) idxs.length rhs.shape rhs.data
  if ¬ idxs.Nodup then throw .unmodelled              -- repeated target rows: order of writes
  pure ⟨p.space, p.shape, writeRows s.cols idxs rows p.data⟩

/-! ## whole-table operations -/

/-- two right-aligned shapes cannot be broadcast against each other -/
def symClash (a b : List Nat) : Bool :=
  (a.reverse.zip b.reverse).any fun (x, y) => x ≠ y && x ≠ 1 && y ≠ 1

def sameOrBcast (a b : List Nat) : Except Err Unit :=
  if a = b then pure ()
  else if symClash a b then throw .runtime
  else throw .unmodelled

/-- `p + q`, `p - q`, `p * q`, `p / q`, `p ** q` with the cell function `f` -/
def Points.arith (f : α → α → α) (p q : Points α) : Except Err (Points α) := do
  if q.space ≠ p.space then throw .assert
  sameOrBcast p.shape q.shape
  pure ⟨p.space, p.shape, List.zipWith (List.zipWith f) p.data q.data⟩

/-- `p | q`: `torch.cat` along the first batch axis -/
def Points.cat (p q : Points α) : Except Err (Points α) :=
  if p.isempty then pure q
  else if q.isempty then pure p
  else if q.space ≠ p.space then throw .assert
  else match p.shape, q.shape with
    | a :: ra, b :: rb => if ra = rb then pure ⟨p.space, (a + b) :: ra, p.data ++ q.data⟩ else throw .runtime
    | _, _ => throw .runtime

def disjointKeys (a b : Space) : Bool := a.names.all fun n => !b.names.contains n

/-- `p.join(q)`: `torch.cat` along the column axis, product space -/
def Points.join (p q : Points α) : Except Err (Points α) :=
  if p.isempty then pure q
  else if q.isempty then pure p
  else if !disjointKeys p.space q.space then throw .assert
  else if p.shape ≠ q.shape then throw .runtime
  else pure ⟨p.space.mul q.space, p.shape, List.zipWith (· ++ ·) p.data q.data⟩

/-- `Points.joined(*ps)`: every non-empty entry must have the batch shape of the FIRST entry
    (also when the first entry is empty and skipped — mirrored as coded) -/
def Points.joined (ps : List (Points α)) : Except Err (Points α) :=
  match ps with
  | [] => throw .index
  | p0 :: _ =>
    let rec go : List (Points α) → Option (Points α) → Except Err (Option (Points α))
      | [], acc => pure acc
      | p :: rest, acc =>
        if p.isempty then go rest acc
        else match acc with
          | none =>
            if p.shape ≠ p0.shape then throw .assert
            else go rest (some ⟨(Space.mk []).mul p.space, p.shape, p.data⟩)
          | some a =>
            if !disjointKeys a.space p.space then throw .assert
            else if p.shape ≠ p0.shape then throw .assert
            else go rest (some ⟨a.space.mul p.space, a.shape, List.zipWith (· ++ ·) a.data p.data⟩)
    do match (← go ps none) with
       | none => throw .value                 -- `torch.cat([])`
       | some r => pure r

/-- the fold of `join` over the non-empty arguments, left to right -/
def joinFold : List (Points α) → Option (Points α) → Except Err (Option (Points α))
  | [], acc => pure acc
  | p :: rest, acc =>
    if p.isempty then joinFold rest acc
    else match acc with
      | none => joinFold rest (some p)
      | some a => do let j ← a.join p; joinFold rest (some j)

/-- the natural total extension of `Points.joined`: empty arguments are the neutral element of the
    join at every position, no argument at all gives `Points.empty()`.  It agrees with the coded
    `joined` wherever that is defined (`joined_total_of_joined`); where the coded version raises for an
    incidental reason (empty first argument, only empty arguments) this is the only table the
    property allows.  Overlapping names and different batch shapes are rejected by both. -/
def Points.joinedTotal (ps : List (Points α)) : Except Err (Points α) := do
  match (← joinFold ps none) with
  | none => pure Points.empty
  | some r => pure r

/-- index expressions that the code rejects for an incidental reason, and the reading under which
    the property determines the result: a Python list of integers is a list of rows, a trailing
    Ellipsis is not a column key, a bare name (or tuple of names) selects these variables of all rows -/
def altIndex (nd : Nat) : Index → Option Index
  | .pylist is => if is = [] then none else some (.one (.list is))
  | .one (.name v) => some (.tup [.ell, .name v])
  | .one (.names ns) => some (.tup [.ell, .names ns])
  | .tup its =>
    if its.length = nd ∧ its.getLast? = some .ell then some (.tup (its ++ [fullSlice])) else none
  | _ => none

/-- `torch.Tensor.repeat` on the full shape (`shape` ++ column axis) with one repeat per axis -/
def Points.repeatCore (p : Points α) (shape reps : List Nat) : Except Err (Points α) :=
  match reps.reverse with
  | [] => throw .runtime
  | rc :: brev =>
    -- the column axis may not grow: `assert shape[-1] == space.dim`
    if rc * p.space.dim ≠ p.space.dim then throw .assert
    else
      let sels := (shape.zip brev.reverse).map fun (s, r) =>
        (⟨s, (List.replicate r (List.range s)).flatten, true⟩ : AxSel)
      match gather p.data (flatIdx sels) with
      | none => throw .index
      | some rows => pure ⟨p.space, keptShape sels, rows⟩

/-- `p.repeat(*ns)`: `torch.Tensor.repeat` with the repeats padded by ones up to the tensor rank -/
def Points.repeat (p : Points α) (ns : List Int) : Except Err (Points α) := do
  -- negative repeats are rejected by torch, except that it does not look at them for a tensor without cells
  if ns.any (· < 0) then throw (if p.len = 0 ∨ p.space.dim = 0 then .unmodelled else .runtime)
  let reps := ns.map Int.toNat
  let nd := p.shape.length + 1
  -- full (shape, repeats) including the column axis
  if reps.length ≤ nd then p.repeatCore p.shape (reps ++ List.replicate (nd - reps.length) 1)
  else p.repeatCore (List.replicate (reps.length - nd) 1 ++ p.shape) reps

/-- `p.unsqueeze(dim)` -/
def Points.unsqueeze (p : Points α) (d : Int) : Except Err (Points α) :=
  let k : Int := p.shape.length
  if d ≥ k + 1 then throw .assert               -- `assert dim < len(self._t.shape)`
  else if d < -(k + 1) then throw .index        -- torch: dimension out of range
  else
    let pos := if d < 0 then (d + k + 1).toNat else d.toNat
    pure ⟨p.space, p.shape.take pos ++ 1 :: p.shape.drop pos, p.data⟩

/-- `p == q`: order-sensitive equality of the spaces and `torch.equal` of the tensors -/
def Points.beq [DecidableEq α] (p q : Points α) : Bool :=
  p.space.vars == q.space.vars && p.shape == q.shape && p.data == q.data

/-! ## the code before the index fixes (kept for the negative results) -/

/-- before fix B: a row index list and the column list of a multi-name key were handed to torch as
    TWO advanced indices, which pairs them element-wise (equal lengths): one output row made of
    the cells `(rows[j], cols[j])` -/
def Points.getitemPairedOld (p : Points α) (rows cols : List Nat) : Option (List (List α)) :=
  if rows.length ≠ cols.length then none
  else (List.zipWith (fun i c => (p.data[i]?).bind (·[c]?)) rows cols).mapM id |>.map ([·])

/-- before fix A: the tuple index was turned into a list, and torch reads a list of integers that
    is shorter than the tensor rank as ONE list index on the first axis -/
def Points.getitemIntTupleOld (p : Points α) (is : List Int) : Except Err (Points α) :=
  p.getitem (.one (.list is))

end TPV.Table
