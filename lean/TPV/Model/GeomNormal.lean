/-
  Boundary normals (C06) — executable model of `BoundaryDomain.normal(points, params)` for one row.

  Mirrors
    domain1D/interval.py   IntervalBoundary.normal, IntervalSingleBoundaryPoint.normal
    domain2D/circle.py     CircleBoundary.normal          (p − c) / r
    domain3D/sphere.py     SphereBoundary.normal          (p − c) / r
    domain2D/parallelogram.py  ParallelogramBoundary.normal / _add_local_normal_vector / _get_normal_direction
    domain2D/triangle.py       TriangleBoundary.normal
    domainoperations/union.py, cut.py, intersection.py    *.normal  (operand selection, sign flip)

  Conventions (see Geom.lean): one row (`pts`, `ρ`); generic scalar `K`; `none` where the code has no
  answer — here: the node has no `normal` method (translate / rotate / product boundaries are plain
  `Domain`s), malformed input, or the code divides 0 by 0 and returns a NaN row (no edge of a
  parallelogram / triangle is selected; radius 0).
  The square root (`torch.linalg.norm`) is a class parameter: `Float.sqrt` in the driver, `Real.sqrt`
  (or any function with `0 ≤ s x`, `s x * s x = x`) in the proofs.
-/
import TPV.Model.Geom

namespace TPV.Geom

class HasSqrt (K : Type) where
  sqrt : K → K

instance : HasSqrt Float := ⟨Float.sqrt⟩

section normal
variable {K : Type} [Add K] [Sub K] [Mul K] [Div K] [Neg K] [LE K] [DecidableLE K] [OfNat K 0] [OfNat K 1]
  [HasSqrt K]

/-- `torch.sign` -/
def sgn (a : K) : K := if a ≤ 0 then (if (0 : K) ≤ a then 0 else -1) else 1

def isZero (a : K) : Bool := le a 0 && le 0 a

/-- `v / ‖v‖` in the plane, as `torch.divide(v, torch.linalg.norm(v))` -/
def unit2 (x y : K) : K × K :=
  let l := HasSqrt.sqrt (x * x + y * y)
  (x / l, y / l)

/-- indicator weight of `torch.where(isclose(b, i, atol = BARY_ATOL), w, 0)` -/
def closeW (τ : Tol K) (b i w : K) : K := if isclose τ.bary b i then w else 0

/-- `ParallelogramBoundary._get_normal_direction`: swap, negate the FIRST coordinate, normalise
    (= the edge direction turned by +90°) -/
def parNormalDir (dx dy : K) : K × K := unit2 (-dy) dx

/-- `TriangleBoundary._get_normal_direction`: swap, negate the SECOND coordinate, normalise
    (= the edge direction turned by −90°) -/
def triNormalDir (dx dy : K) : K × K := unit2 dy (-dx)

/-- sum of the normals of all edges whose barycentric coordinate is `isclose` to 0 / 1
    (`_add_local_normal_vector` called with i = 0 and i = 1), before orientation and normalisation -/
def parRaw (τ : Tol K) (x y ox oy ax ay bx cy : K) : K × K :=
  let d1x := ax - ox; let d1y := ay - oy
  let d2x := bx - ox; let d2y := cy - oy
  let b := solveLgs (x - ox) (y - oy) d1x d1y d2x d2y
  let n1 := parNormalDir d1x d1y
  let m2 := parNormalDir d2x d2y
  let n2 : K × K := (-m2.1, -m2.2)
  let wy := closeW τ b.2 0 (-1) + closeW τ b.2 1 1
  let wx := closeW τ b.1 0 (-1) + closeW τ b.1 1 1
  (n1.1 * wy + n2.1 * wx, n1.2 * wy + n2.2 * wx)

/-- the three `_add_local_normal_vector` calls of `TriangleBoundary.normal` -/
def triRaw (τ : Tol K) (x y ox oy ax ay bx cy : K) : K × K :=
  -- dir_1 = c1 − o, dir_2 = c2 − c1, dir_3 = o − c2; barycentric coordinates w.r.t. (dir_1, −dir_3)
  let d1x := ax - ox; let d1y := ay - oy
  let d2x := bx - ax; let d2y := cy - ay
  let d3x := ox - bx; let d3y := oy - cy
  let b := solveLgs (x - ox) (y - oy) d1x d1y (bx - ox) (cy - oy)
  let n1 := triNormalDir d1x d1y
  let n2 := triNormalDir d2x d2y
  let n3 := triNormalDir d3x d3y
  let w3 := closeW τ b.1 0 1
  let w2 := closeW τ (b.1 + b.2) 1 1
  let w1 := closeW τ b.2 0 1
  (n3.1 * w3 + n2.1 * w2 + n1.1 * w1, n3.2 * w3 + n2.2 * w2 + n1.2 * w1)

/-- final step shared by parallelogram and triangle: orient by the sign of the determinant
    (`fix:` commit, see design_notes/C06.md; `oriented = false` is the code before the fix), then divide by the
    length; `none` = the NaN row the code returns when the sum is the zero vector -/
def finish2 (oriented : Bool) (det : K) (raw : K × K) : Option (List K) :=
  let s : K := if oriented then sgn det else 1
  let vx := raw.1 * s
  let vy := raw.2 * s
  if isZero vx && isZero vy then none
  else
    let u := unit2 vx vy
    some [u.1, u.2]

/-- normal of `d.boundary` at the row (`pts`, `ρ`).  `oriented = true` is the current code. -/
def normalAux (oriented : Bool) (τ : Tol K) : Dom K → Env K → Env K → Option (List K)
  | .interval v lb ub, pts, ρ =>
    -- `torch.where(close_to_left, -1, 1)`
    match pts.get v, lb.f (pts ++ ρ), ub.f (pts ++ ρ) with
    | some [x], [l], [_] => some [if isclose τ x l then -1 else 1]
    | _, _, _ => none
  | .circle v c r, pts, ρ =>
    match pts.get v, c.f (pts ++ ρ), r.f (pts ++ ρ) with
    | some [x, y], [cx, cy], [rr] => if isZero rr then none else some [(x - cx) / rr, (y - cy) / rr]
    | _, _, _ => none
  | .sphere v c r, pts, ρ =>
    match pts.get v, c.f (pts ++ ρ), r.f (pts ++ ρ) with
    | some [x, y, z], [cx, cy, cz], [rr] =>
      if isZero rr then none else some [(x - cx) / rr, (y - cy) / rr, (z - cz) / rr]
    | _, _, _ => none
  | .par v o c1 c2, pts, ρ =>
    match pts.get v, o.f (pts ++ ρ), c1.f (pts ++ ρ), c2.f (pts ++ ρ) with
    | some [x, y], [ox, oy], [ax, ay], [bx, cy] =>
      finish2 oriented ((ax - ox) * (cy - oy) - (ay - oy) * (bx - ox)) (parRaw τ x y ox oy ax ay bx cy)
    | _, _, _, _ => none
  | .tri v o c1 c2, pts, ρ =>
    match pts.get v, o.f (pts ++ ρ), c1.f (pts ++ ρ), c2.f (pts ++ ρ) with
    | some [x, y], [ox, oy], [ax, ay], [bx, cy] =>
      finish2 oriented ((ax - ox) * (cy - oy) - (ay - oy) * (bx - ox)) (triRaw τ x y ox oy ax ay bx cy)
    | _, _, _, _ => none
  | .union a b, pts, ρ | .inter a b, pts, ρ => do
    -- `torch.where(on_a, a_normals, b_normals)`
    let onA ← containsAux τ true a pts ρ
    if onA then normalAux oriented τ a pts ρ else normalAux oriented τ b pts ρ
  | .cut a b, pts, ρ => do
    -- `torch.where(on_a, a_normals, -b_normals)`
    let onA ← containsAux τ true a pts ρ
    if onA then normalAux oriented τ a pts ρ else (normalAux oriented τ b pts ρ).map (·.map (- ·))
  | .prod .., _, _ | .translate .., _, _ | .rotate .., _, _ => none   -- their `.boundary` has no `normal`
  | .bdry _, _, _ | .bdryL _, _, _ | .bdryR _, _, _ => none

/-- `B.normal(points, params)` for a boundary expression `B` -/
def normal (oriented : Bool) (τ : Tol K) : Dom K → Env K → Env K → Option (List K)
  | .bdry d, pts, ρ => normalAux oriented τ d pts ρ
  | .bdryL (.interval v _ _), pts, _ =>
    match pts.get v with | some [_] => some [-1] | _ => none      -- `ones * normal_vec`, normal_vec = −1
  | .bdryR (.interval v _ _), pts, _ =>
    match pts.get v with | some [_] => some [1] | _ => none
  | _, _, _ => none

end normal

/-! ### decision slacks of `normal` (correspondence only): how far is the row from flipping one of the
    `isclose` decisions that select the edges / the operand -/

section slack
variable {K : Type} [Add K] [Sub K] [Mul K] [Div K] [Neg K] [LE K] [DecidableLE K] [OfNat K 0] [OfNat K 1]
  [BEq K]

def normalSlacks (τ : Tol K) : Dom K → Env K → Env K → Option (List K)
  | .interval v lb ub, pts, ρ =>
    match pts.get v, lb.f (pts ++ ρ), ub.f (pts ++ ρ) with
    | some [x], [l], [u] => some [closeSlack τ x l (absK (u - l))]
    | _, _, _ => none
  | .circle .., _, _ | .sphere .., _, _ => some []
  | .par v o c1 c2, pts, ρ =>
    match pts.get v, o.f (pts ++ ρ), c1.f (pts ++ ρ), c2.f (pts ++ ρ) with
    | some [x, y], [ox, oy], [ax, ay], [bx, cy] =>
      let b := solveLgs (x - ox) (y - oy) (ax - ox) (ay - oy) (bx - ox) (cy - oy)
      some [closeSlack τ.bary b.1 0 1, closeSlack τ.bary b.1 1 1, closeSlack τ.bary b.2 0 1, closeSlack τ.bary b.2 1 1]
    | _, _, _, _ => none
  | .tri v o c1 c2, pts, ρ =>
    match pts.get v, o.f (pts ++ ρ), c1.f (pts ++ ρ), c2.f (pts ++ ρ) with
    | some [x, y], [ox, oy], [ax, ay], [bx, cy] =>
      let b := solveLgs (x - ox) (y - oy) (ax - ox) (ay - oy) (bx - ox) (cy - oy)
      some [closeSlack τ.bary b.1 0 1, closeSlack τ.bary b.2 0 1, closeSlack τ.bary (b.1 + b.2) 1 1]
    | _, _, _, _ => none
  | .union a b, pts, ρ | .inter a b, pts, ρ | .cut a b, pts, ρ => do
    let onA ← containsAux τ true a pts ρ
    let sa ← slacks τ true a pts ρ
    let rest ← if onA then normalSlacks τ a pts ρ else normalSlacks τ b pts ρ
    pure (sa ++ rest)
  | _, _, _ => none

/-- smallest |slack|; `none` when no decision is involved -/
def normalMargin (τ : Tol K) : Dom K → Env K → Env K → Option K
  | .bdry d, pts, ρ =>
    (normalSlacks τ d pts ρ).bind fun l =>
      match l.map absK with
      | [] => none
      | x :: xs => some (xs.foldl minK x)
  | _, _, _ => none

end slack

end TPV.Geom
