/-
  Polygons (`ShapelyPolygon`, src/torchphysics/problem/domains/domain2D/shapely_polygon.py) — import-free
  (core Lean + TPV.Model.Geom), executable, generic scalar `K` (the driver runs `Rat`, and `Float` for lengths).

  What the code does and what is mirrored here
  * `__init__`: `self.polygon = orient(Polygon(vertices))` — exterior ring counter-clockwise, holes
    clockwise; a ring that has the wrong orientation is replaced by its closed coordinate list read
    backwards (`v₀ :: reverse(v₁ … vₙ₋₁)`): `orientRing`, `polyOrient`, `polyOutline` (= `outline()`).
  * `_contains`: `polygon.contains(Point)` — Shapely/GEOS *interior only*: a point on an edge of the outer
    ring or of a hole is NOT contained.  GEOS locates the point in the shell, then in the holes, each ring
    with the ray-crossing counter (even-odd rule, ray in +x direction, half-open rule "one end strictly
    above the ray, the other not", side decided by the orientation determinant): `ringLocate`,
    `polyLocate`, `polyContains`.  `polyCovers` is the closed set (`covers`), not used by the library.
  * `bounding_box`: `polygon.bounds` = (minx, miny, maxx, maxy) of the exterior ring, entries 1 and 2
    swapped ⇒ (xmin, xmax, ymin, ymax): `polyBBox`.
  * `_get_volume`: `polygon.area` = |shoelace(exterior)| − Σ |shoelace(hole)|: `polyArea`.
  * `ShapelyBoundary._get_volume`: `polygon.boundary.length` = Σ edge lengths over all rings: `polyBdryLen`
    (the square root is an argument; nothing else needs it).
  * `ShapelyBoundary._contains`: `abs(boundary.distance(point)) <= tol` (`tol = 1e-6`): the distance to
    the nearest edge segment; without roots `0 ≤ tol ∧ dist² ≤ tol²`: `segDist2`, `polyBdryContains`.
  * `onPolyBdry`: the point lies exactly on some edge segment (the set the boundary test approximates).
  * `polyMargin` (correspondence only): how far a query is from a decision boundary, in edge-normalised
    units — the harness demands agreement of floating-point computations only above a margin.

  A ring is the list of its vertices WITHOUT the repeated closing vertex.  Malformed input (no vertex)
  is `none` where the code raises; degenerate edges (`a = b`) are handled explicitly, never by `x/0`.
-/
import TPV.Model.Geom

namespace TPV.Poly
open TPV.Geom

abbrev Pt (K : Type) := K × K
abbrev Ring (K : Type) := List (K × K)

/-- outer ring and hole rings -/
structure Polygon (K : Type) where
  outer : Ring K
  holes : List (Ring K)

/-- cyclic successor list: `[v₀,…,vₙ₋₁] ↦ [v₁,…,vₙ₋₁,v₀]` -/
def rot1 {α : Type} : List α → List α
  | [] => []
  | v :: vs => vs ++ [v]

/-- the directed edges `(vᵢ, vᵢ₊₁ mod n)` of a ring -/
def ringEdges {K : Type} (r : Ring K) : List (Pt K × Pt K) := List.zip r (rot1 r)

/-- all edges: exterior first, then the holes in order (`polygon.boundary`) -/
def polyEdges {K : Type} (P : Polygon K) : List (Pt K × Pt K) :=
  ringEdges P.outer ++ (P.holes.map ringEdges).flatten

/-- closed coordinate list of a ring (`ring.coords`): the first vertex repeated at the end -/
def closeRing {K : Type} : Ring K → List (Pt K)
  | [] => []
  | v :: vs => v :: vs ++ [v]

/-- a closed coordinate list read backwards, as a ring: same start vertex, opposite direction -/
def revRing {K : Type} : Ring K → Ring K
  | [] => []
  | v :: vs => v :: vs.reverse

section ops
variable {K : Type} [Add K] [Sub K] [Mul K] [Div K] [Neg K] [LE K] [DecidableLE K] [OfNat K 0] [OfNat K 1]

def sumK (l : List K) : K := l.foldr (· + ·) 0

/-- strict comparison through the only order relation the model uses -/
def lt (a b : K) : Bool := !le b a

/-! ### area -/

def cross2 (a b : Pt K) : K := a.1 * b.2 - b.1 * a.2

/-- twice the signed area (shoelace formula): positive for counter-clockwise rings -/
def shoelace2 (r : Ring K) : K := sumK ((ringEdges r).map fun e => cross2 e.1 e.2)

def shoelace (r : Ring K) : K := shoelace2 r / (1 + 1)

/-- `polygon.area`: |exterior| − Σ |holes| -/
def polyArea (P : Polygon K) : K := absK (shoelace P.outer) - sumK (P.holes.map fun h => absK (shoelace h))

/-! ### orientation (`shapely.geometry.polygon.orient`) -/

def orientRing (ccw : Bool) (r : Ring K) : Ring K :=
  if ccw then (if le 0 (shoelace2 r) then r else revRing r)
  else (if le (shoelace2 r) 0 then r else revRing r)

def polyOrient (P : Polygon K) : Polygon K := ⟨orientRing true P.outer, P.holes.map (orientRing false)⟩

/-- `ShapelyPolygon.outline()`: closed coordinate lists of the oriented polygon, exterior first -/
def polyOutline (P : Polygon K) : List (List (Pt K)) :=
  let Q := polyOrient P
  closeRing Q.outer :: Q.holes.map closeRing

/-! ### bounding box -/

/-- (xmin, xmax, ymin, ymax) of the exterior ring's vertices; `none` for an empty ring -/
def polyBBox (P : Polygon K) : Option (K × K × K × K) :=
  match P.outer with
  | [] => none
  | v :: vs => some (vs.foldl (fun acc q => minK acc q.1) v.1, vs.foldl (fun acc q => maxK acc q.1) v.1,
                     vs.foldl (fun acc q => minK acc q.2) v.2, vs.foldl (fun acc q => maxK acc q.2) v.2)

def inBox (b : K × K × K × K) (p : Pt K) : Bool :=
  (le b.1 p.1 && le p.1 b.2.1) && (le b.2.2.1 p.2 && le p.2 b.2.2.2)

/-! ### membership -/

/-- orientation determinant: `> 0` iff `p` is to the left of the directed line `a → b` -/
def orient (a b p : Pt K) : K := (b.1 - a.1) * (p.2 - a.2) - (b.2 - a.2) * (p.1 - a.1)

/-- `p` lies on the closed segment `[a, b]`: collinear and inside the segment's bounding box -/
def onSeg (a b p : Pt K) : Bool :=
  (le (orient a b p) 0 && le 0 (orient a b p)) &&
    ((le (minK a.1 b.1) p.1 && le p.1 (maxK a.1 b.1)) && (le (minK a.2 b.2) p.2 && le p.2 (maxK a.2 b.2)))

/-- the vertex `a` is strictly above the horizontal ray through `p` -/
def above (p a : Pt K) : Bool := lt p.2 a.2

/-- the ray from `p` in +x direction crosses the edge `a → b` (half-open rule: exactly one end strictly
    above; the crossing lies to the right of `p` iff `p` is on the left of the upward-directed edge) -/
def crosses (a b p : Pt K) : Bool :=
  (above p a != above p b) && (if above p b then lt 0 (orient a b p) else lt (orient a b p) 0)

def xorAll (l : List Bool) : Bool := l.foldr xor false

inductive Loc where
  | interior | boundary | exterior
deriving DecidableEq, Repr

def onRing (r : Ring K) (p : Pt K) : Bool := (ringEdges r).any fun e => onSeg e.1 e.2 p

/-- parity of the number of crossed edges -/
def ringOdd (r : Ring K) (p : Pt K) : Bool := xorAll ((ringEdges r).map fun e => crosses e.1 e.2 p)

/-- GEOS `PointLocation.locateInRing` -/
def ringLocate (r : Ring K) (p : Pt K) : Loc :=
  if onRing r p then .boundary else if ringOdd r p then .interior else .exterior

/-- the holes are looked at only for a point inside the shell: inside a hole = outside the polygon -/
def holesLocate (p : Pt K) : List (Ring K) → Loc
  | [] => .interior
  | h :: hs =>
    match ringLocate h p with
    | .interior => .exterior
    | .boundary => .boundary
    | .exterior => holesLocate p hs

/-- GEOS `SimplePointInAreaLocator.locatePointInPolygon` -/
def polyLocate (P : Polygon K) (p : Pt K) : Loc :=
  match ringLocate P.outer p with
  | .exterior => .exterior
  | .boundary => .boundary
  | .interior => holesLocate p P.holes

/-- `ShapelyPolygon._contains` = `polygon.contains(point)`: the open interior -/
def polyContains (P : Polygon K) (p : Pt K) : Bool := polyLocate P p == .interior

/-- `polygon.covers(point)`: the closed set (not used by the library; the set C05 speaks about up to the boundary) -/
def polyCovers (P : Polygon K) (p : Pt K) : Bool := polyLocate P p != .exterior

/-- the point lies exactly on an edge of some ring -/
def onPolyBdry (P : Polygon K) (p : Pt K) : Bool := (polyEdges P).any fun e => onSeg e.1 e.2 p

/-! ### distance to the boundary, the boundary's membership test -/

def dist2 (a b : Pt K) : K := (a.1 - b.1) * (a.1 - b.1) + (a.2 - b.2) * (a.2 - b.2)

def dotSeg (a b p : Pt K) : K := (p.1 - a.1) * (b.1 - a.1) + (p.2 - a.2) * (b.2 - a.2)

def clampUnit (x : K) : K := if le x 0 then 0 else if le 1 x then 1 else x

/-- the point of the segment `[a,b]` nearest to `p` (`a` for a degenerate segment) -/
def segNearest (a b p : Pt K) : Pt K :=
  if le (dist2 a b) 0 then a else
    let t := clampUnit (dotSeg a b p / dist2 a b)
    (a.1 + t * (b.1 - a.1), a.2 + t * (b.2 - a.2))

/-- squared distance from `p` to the closed segment `[a,b]` -/
def segDist2 (a b p : Pt K) : K := dist2 p (segNearest a b p)

/-- `ShapelyBoundary._contains`: `abs(boundary.distance(point)) <= tol`, without roots -/
def polyBdryContains (tol : K) (P : Polygon K) (p : Pt K) : Bool :=
  le 0 tol && (polyEdges P).any fun e => le (segDist2 e.1 e.2 p) (tol * tol)

/-- squared distance to the boundary (`none`: no edge) -/
def bdryDist2 (P : Polygon K) (p : Pt K) : Option K :=
  match (polyEdges P).map fun e => segDist2 e.1 e.2 p with
  | [] => none
  | x :: xs => some (xs.foldl minK x)

/-! ### boundary length -/

/-- `polygon.boundary.length`; the square root is handed in (`Float.sqrt`, `Real.sqrt`) -/
def polyBdryLen (sqrt : K → K) (P : Polygon K) : K :=
  sumK ((polyEdges P).map fun e => sqrt (dist2 e.2 e.1))

/-! ### comparison margin (correspondence only) -/

/-- distance proxy of `p` from the segment `[a,b]` in units of the segment: along the segment the
    normalised cross product |orient|/|b−a|² (= distance to the line / edge length), beyond the end
    points additionally the overshoot of the segment parameter.  Zero exactly on the segment. -/
def edgeSlack (a b p : Pt K) : K :=
  if le (dist2 a b) 0 then maxK (absK (p.1 - a.1)) (absK (p.2 - a.2)) else
    let c := absK (orient a b p) / dist2 a b
    let t := dotSeg a b p / dist2 a b
    if le t 0 then maxK c (0 - t) else if le 1 t then maxK c (t - 1) else c

/-- smallest edge slack over all rings (`none`: no edge) -/
def polyMargin (P : Polygon K) (p : Pt K) : Option K :=
  match (polyEdges P).map fun e => edgeSlack e.1 e.2 p with
  | [] => none
  | x :: xs => some (xs.foldl minK x)

end ops

end TPV.Poly
