/-
  Line-protocol helpers shared by all drivers (import-free).
  A request is one line of whitespace-separated tokens; nested data are length-prefixed.
  Numbers: naturals/integers in decimal, rationals as `p/q` (or a plain integer).
-/
namespace TPV.Proto

abbrev Toks := List String

def tokens (line : String) : Toks :=
  (line.splitOn " ").filter (fun s => s ≠ "" && s ≠ "\n" && s ≠ "\r") |>.map (fun s => s.trimAscii.toString)

/-- a tiny parser monad over a token list -/
abbrev P := StateT Toks (Except String)

def next : P String := do
  match (← get) with
  | [] => throw "eol"
  | t :: ts => set ts; pure t

def nat : P Nat := do
  let t ← next
  match t.toNat? with
  | some n => pure n
  | none => throw s!"nat:{t}"

def int : P Int := do
  let t ← next
  match t.toInt? with
  | some n => pure n
  | none => throw s!"int:{t}"

def ratOfString (t : String) : Option Rat :=
  match t.splitOn "/" with
  | [p] => p.toInt?.map (fun (i : Int) => (i : Rat))
  | [p, q] =>
    match p.toInt?, q.toNat? with
    | some p, some q => if q = 0 then none else some (mkRat p q)
    | _, _ => none
  | _ => none

def rat : P Rat := do
  let t ← next
  match ratOfString t with
  | some r => pure r
  | none => throw s!"rat:{t}"

def bool : P Bool := do
  let t ← next
  match t with
  | "1" => pure true
  | "0" => pure false
  | "true" => pure true
  | "false" => pure false
  | _ => throw s!"bool:{t}"

/-- length-prefixed list -/
def many {α} (p : P α) : P (List α) := do
  let n ← nat
  let rec go : Nat → List α → P (List α)
    | 0, acc => pure acc.reverse
    | k+1, acc => do let a ← p; go k (a :: acc)
  go n []

def atEnd : P Bool := do pure (← get).isEmpty

def run {α} (p : P α) (line : String) : Except String α :=
  match (p.run (tokens line)) with
  | .ok (a, []) => .ok a
  | .ok (_, r) => .error s!"trailing:{r.length}"
  | .error e => .error e

def showRat (r : Rat) : String :=
  if r.den = 1 then toString r.num else s!"{r.num}/{r.den}"

def showList {α} (f : α → String) (l : List α) : String :=
  " ".intercalate (l.map f)

def showNats (l : List Nat) : String := showList toString l

/-- hex of a double's bit pattern: exact float transport -/
def floatOfBits (t : String) : Option Float :=
  t.toNat?.map (fun n => Float.ofBits n.toUInt64)

def float : P Float := do
  let t ← next
  match floatOfBits t with
  | some f => pure f
  | none => throw s!"float:{t}"

def showFloat (f : Float) : String := toString f.toBits.toNat

/-- generic main loop: one reply line per request line -/
partial def loop (h : IO.FS.Stream) (step : String → String) : IO Unit := do
  let line ← h.getLine
  if line.isEmpty then return ()
  let l := (line.dropEndWhile (fun c => c == '\n' || c == '\r')).toString
  if l.isEmpty then
    IO.println ""
  else
    IO.println (step l)
  loop h step

def mainLoop (step : String → String) : IO Unit := do
  loop (← IO.getStdin) step

end TPV.Proto
