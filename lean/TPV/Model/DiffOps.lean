/-
  C03 — the differential operators of src/torchphysics/utils/differentialoperators.py, written on
  expressions with the syntactic derivative `D` (import-free, executable).

  Conventions.  The code is vectorised; the model is written for ONE row.  A "variable tensor" is
  the list of its scalar coordinates in that row (`VarT V`), the network output is the list of its
  component expressions.  `torch.autograd.grad(y.sum(), vari)[0]` restricted to one row is
  `autograd y vari` (that this is legitimate — the sum over the batch contributes nothing from other
  rows — is the theorem `sum_trick`; the batch-level forms the code literally executes are the
  `…B` definitions at the end of this file, over coordinates `(row, coordinate)`).

  Mirrored as coded, after the repairs `fix:` commits of C03 in /repo:
    * a variable that does not occur in the differentiated tensor yields zeros (`allow_unused` +
      `zeros_like`), so no error kind for "unused" exists any more; the behaviour of the pinned
      snapshot is kept as `unusedOld` / `gradOld` / `gradShapeOld` for the negative results;
    * `grad` concatenates along the LAST axis (`torch.cat(dim=-1)`), for every batch rank; `jac` and the operators
      built on it use the trailing axes, for every batch rank (`jacShape`);
    * `div` selects the output column with a running offset `var_dim + i`;
    * errors of the real code that remain: a `narrow`/index outside the tensor (`err:narrow`),
      shapes that cannot be multiplied/added (`err:shape`).
-/
import TPV.Model.Expr
namespace TPV.DiffOps
open TPV.Expr TPV.Expr.Expr

variable {V : Type} [DecidableEq V]

/-- a variable tensor = the list of its scalar coordinates in one row -/
abbrev VarT (V : Type) := List V

/-- `torch.autograd.grad(y.sum(), vari, create_graph=True)[0]`, one row -/
def autograd (y : Expr V) (v : VarT V) : List (Expr V) := v.map (fun x => D x y)

/-- `grad(model_out, *vars)`: for each variable the gradient of `model_out.sum()`, concatenated
    along the last axis -/
def grad (out : List (Expr V)) (vars : List (VarT V)) : List (Expr V) :=
  (vars.map (autograd (sumE out))).flatten

/-- elementwise product with torch broadcasting of the last axis -/
def bmul (a b : List (Expr V)) : Except String (List (Expr V)) :=
  if a.length = b.length then .ok (List.zipWith mul a b)
  else match a, b with
    | [x], _ => .ok (b.map (mul x))
    | _, [y] => .ok (a.map (fun x => mul x y))
    | _, _ => .error "shape"

/-- `normal_derivative`: `(grad * normals).sum(dim=-1, keepdim=True)` -/
def normalDerivative (out normals : List (Expr V)) (vars : List (VarT V)) : Except String (List (Expr V)) := do
  let p ← bmul (grad out vars) normals
  pure [sumE p]

/-- inner loop of `laplacian` for one variable tensor:
    `for i: D2u = autograd(grad.narrow(-1,i,1).sum(), vari); laplacian += D2u.narrow(-1,i,1)` -/
def lapVar (s : Expr V) (v : VarT V) : List (Expr V) :=
  let g := autograd s v
  (List.range v.length).filterMap fun i => (g[i]?).bind fun gi => (autograd gi v)[i]?

/-- `laplacian(model_out, *vars)` (one component per row) -/
def laplacian (out : List (Expr V)) (vars : List (VarT V)) : List (Expr V) :=
  [sumE ((vars.map (lapVar (sumE out))).flatten)]

/-- inner loop of `div` for one variable tensor; `k` is the running output column `var_dim + i`:
    `Du = autograd(model_out.narrow(-1, var_dim+i, 1).sum(), vari); divergence += Du.narrow(-1,i,1)` -/
def divVar (out : List (Expr V)) : VarT V → Nat → Except String (List (Expr V))
  | [], _ => .ok []
  | x :: xs, k =>
    match out[k]? with
    | some o => (divVar out xs (k + 1)).map (fun l => D x o :: l)
    | none => .error "narrow"

/-- outer loop of `div`; `off` is `var_dim` -/
def divTerms (out : List (Expr V)) : List (VarT V) → Nat → Except String (List (Expr V))
  | [], _ => .ok []
  | v :: vs, off => do
    let here ← divVar out v off
    let rest ← divTerms out vs (off + v.length)
    pure (here ++ rest)

/-- `div(model_out, *vars)` -/
def div (out : List (Expr V)) (vars : List (VarT V)) : Except String (List (Expr V)) := do
  let t ← divTerms out vars 0
  pure [sumE t]

/-- `jac`: row `i` = gradients of component `i` w.r.t. every variable, concatenated -/
def jac (out : List (Expr V)) (vars : List (VarT V)) : List (List (Expr V)) :=
  out.map (fun o => (vars.map (autograd o)).flatten)

/-- `J[:, i, j]` -/
def entry (J : List (List (Expr V))) (i j : Nat) : Except String (Expr V) :=
  match J[i]? with
  | some r => match r[j]? with
    | some e => .ok e
    | none => .error "narrow"
  | none => .error "narrow"

/-- `rot`: curl from the Jacobian entries as coded -/
def rot (out : List (Expr V)) (vars : List (VarT V)) : Except String (List (Expr V)) := do
  let J := jac out vars
  let r0 := sub (← entry J 2 1) (← entry J 1 2)
  let r1 := sub (← entry J 0 2) (← entry J 2 0)
  let r2 := sub (← entry J 1 0) (← entry J 0 1)
  pure [r0, r1, r2]

/-- `convective`: `bmm(jac, field.unsqueeze(2)).squeeze(2)` — every Jacobian row must be as long as the field -/
def convective (out field : List (Expr V)) (vars : List (VarT V)) : Except String (List (Expr V)) :=
  let J := jac out vars
  if J.all (fun r => r.length = field.length) then
    .ok (J.map (fun r => sumE (List.zipWith mul r field)))
  else .error "shape"

/-- `sym_grad`: `0.5 * (J + Jᵀ)`.  Square Jacobian: the symmetric gradient.  Mirrored oddity: torch broadcasts
    `J + Jᵀ` when the Jacobian has a single row (1×n: entry (i,j) = ½(J₀ⱼ + J₀ᵢ)) or a single column
    (m×1: entry (i,j) = ½(Jᵢ₀ + Jⱼ₀)); every other non-square shape is rejected. -/
def symGrad (out : List (Expr V)) (vars : List (VarT V)) : Except String (List (List (Expr V))) :=
  let J := jac out vars
  let m := J.length
  if J.all (fun r => r.length = m) then
    (List.range m).mapM fun i => (List.range m).mapM fun j => do
      let a ← entry J i j
      let b ← entry J j i
      pure (mul (const (1/2)) (add a b))
  else match J with
    | [r] => .ok (r.map fun ri => r.map fun rj => mul (const (1/2)) (add rj ri))
    | _ =>
      if J.all (fun r => r.length = 1) then
        let c := J.flatten
        .ok (c.map fun ci => c.map fun cj => mul (const (1/2)) (add ci cj))
      else .error "shape"

/-- `matrix_div`: the divergence of every matrix row -/
def matrixDiv (out : List (List (Expr V))) (vars : List (VarT V)) : Except String (List (Expr V)) := do
  let rows ← out.mapM (fun row => div row vars)
  pure rows.flatten

/-- `partial(model_out, *vars)`: `du = autograd(du.sum(), inp)` for each listed variable in turn -/
def partialD (out : List (Expr V)) : List (VarT V) → List (Expr V)
  | [] => out
  | v :: vs => partialD (autograd (sumE out) v) vs

/-! ### shapes -/

/-- result shape of `grad` on a batch of shape `batch ++ [d_k]` per variable: last-axis concatenation -/
def gradShape (batch : List Nat) (dims : List Nat) : List Nat := batch ++ [dims.sum]

/-- result shape of `jac` (and of `sym_grad`) on a batch: batch axes, then components × coordinates -/
def jacShape (batch : List Nat) (m : Nat) (dims : List Nat) : List Nat := batch ++ [m, dims.sum]

/-! ### behaviour of the pinned snapshot (before the `fix:` commits), kept for the negative results -/

/-- the pinned `torch.autograd.grad(y.sum(), vari)` without `allow_unused` raised when no coordinate of
    `vari` occurs in `y` -/
def unusedOld (y : Expr V) (v : VarT V) : Bool := !(v.any (fun x => (vars y).contains x))

def gradOld (out : List (Expr V)) (vars : List (VarT V)) : Except String (List (Expr V)) :=
  if vars.any (unusedOld (sumE out)) then .error "unused" else .ok (grad out vars)

/-- `none + g = g` : contributions of the operands that lie on a path to the coordinate -/
def oplus : Option (Expr V) → Option (Expr V) → Option (Expr V)
  | some p, some q => some (add p q)
  | some p, none => some p
  | none, some q => some q
  | none, none => none

/-- reverse-mode gradient as torch BUILDS it (needed only to say which tensors the gradient's graph mentions):
    `none` = no path from the output to the coordinate; otherwise the gradient expression, in which only operands
    lying on such a path contribute a term (`d(a*b)/dt = a * db/dt` when `t` occurs in `b` only — `b` itself is
    not mentioned). -/
def Dg (x : V) : Expr V → Option (Expr V)
  | const _ => none
  | var y => if y = x then some one else none
  | add a b => oplus (Dg x a) (Dg x b)
  | sub a b => oplus (Dg x a) ((Dg x b).map neg)
  | mul a b => oplus ((Dg x a).map (fun g => mul g b)) ((Dg x b).map (fun g => mul a g))
  | Expr.div a b => oplus ((Dg x a).map (fun g => Expr.div g b))
      ((Dg x b).map (fun g => neg (mul (Expr.div a (mul b b)) g)))
  | neg a => (Dg x a).map neg
  | pow a n => (Dg x a).map (fun g => mul (mul (const (n : Rat)) (pow a (n - 1))) g)
  | sin a => (Dg x a).map (fun g => mul (cos a) g)
  | cos a => (Dg x a).map (fun g => neg (mul (sin a) g))
  | exp a => (Dg x a).map (fun g => mul (exp a) g)
  | tanh a => (Dg x a).map (fun g => mul (sub one (mul (tanh a) (tanh a))) g)
  | relun a n => (Dg x a).map (fun g => mul (mul (const (n : Rat)) (relun a (n - 1))) g)

/-- pinned `laplacian`, per variable tensor `v`: the first `autograd` raised when `v` is unused; `continue` when the
    gradient tensor has no `grad_fn` (its graph mentions no input); the second `autograd` (of a column of the gradient
    tensor, whose graph is that of the whole gradient tensor) raised when that graph does not mention `v`. -/
def laplacianOld (out : List (Expr V)) (vs : List (VarT V)) : Except String (List (Expr V)) :=
  let s := sumE out
  let bad := vs.any fun v =>
    unusedOld s v ||
    (let gs := v.filterMap (fun x => Dg x s)
     gs.any (fun g => !(vars g).isEmpty) && !(v.any fun x => gs.any fun g => (vars g).contains x))
  if bad then .error "unused" else .ok (laplacian out vs)

/-- pinned `grad` used `torch.column_stack`: for batch rank ≥ 2 (tensor rank ≥ 3) it concatenates along
    axis 1; all other axes (including the last) must agree -/
def gradShapeOld (batch : List Nat) (dims : List Nat) : Except String (List Nat) :=
  match batch, dims with
  | [b], ds => .ok [b, ds.sum]                         -- rank-2 tensors: hstack = last axis
  | b0 :: b1 :: bs, d :: ds =>
    if ds.all (· = d) then .ok (b0 :: (b1 * (ds.length + 1)) :: bs ++ [d]) else .error "shape"
  | _, _ => .error "shape"

/-- pinned `jac` indexed `model_out[:, i]`, joined along axis 1 and stacked at axis 1: with two batch axes `(a, b)` it
    looped over `b` "components" and returned `(a, b, b·k, d)` (all variable dimensions `d` must agree) -/
def jacShapeOld (batch : List Nat) (m : Nat) (dims : List Nat) : Except String (List Nat) :=
  match batch, dims with
  | [b], ds => .ok [b, m, ds.sum]
  | b0 :: b1 :: bs, d :: ds =>
    if ds.all (· = d) then .ok (b0 :: b1 :: (b1 * (ds.length + 1)) :: bs ++ [d]) else .error "shape"
  | _, _ => .error "shape"

/-! ### the batch-level forms the code literally executes -/

/-- coordinates of a whole batch: (row index, row-level coordinate) -/
abbrev BV (V : Type) := Nat × V

/-- the row-level program placed at row `r` -/
def atRow (r : Nat) (e : Expr V) : Expr (BV V) := e.map (fun y => (r, y))

/-- `tensor.sum()` over the `n` rows of one output column -/
def total (n : Nat) (e : Expr V) : Expr (BV V) := sumE ((List.range n).map (fun r => atRow r e))

/-- the coordinates of variable tensor `v` in row `r` -/
def varAt (r : Nat) (v : VarT V) : VarT (BV V) := v.map (fun y => (r, y))

/-- `grad` as executed: differentiate the sum over all rows and components, read off row `r` -/
def gradB (n : Nat) (out : List (Expr V)) (vars : List (VarT V)) (r : Nat) : List (Expr (BV V)) :=
  grad (out.map (total n)) (vars.map (varAt r))

/-- `jac` as executed: `model_out[:, i].sum()` differentiated, row `r` -/
def jacB (n : Nat) (out : List (Expr V)) (vars : List (VarT V)) (r : Nat) : List (List (Expr (BV V))) :=
  jac (out.map (total n)) (vars.map (varAt r))

/-- `div` as executed -/
def divB (n : Nat) (out : List (Expr V)) (vars : List (VarT V)) (r : Nat) : Except String (List (Expr (BV V))) :=
  div (out.map (total n)) (vars.map (varAt r))

/-- `laplacian` as executed: the second `autograd` call differentiates the sum over ALL rows of the
    gradient column -/
def laplacianB (n : Nat) (out : List (Expr V)) (vars : List (VarT V)) (r : Nat) : List (Expr (BV V)) :=
  let S := sumE (out.map (total n))
  [sumE ((vars.map fun v => v.map fun x =>
      D (r, x) (sumE ((List.range n).map fun r' => D (r', x) S)))).flatten]

/-- one step of `partial` as executed on the whole batch: `du` maps a row to its components -/
def partialStepB (n : Nat) (du : Nat → List (Expr (BV V))) (v : VarT V) : Nat → List (Expr (BV V)) :=
  fun r => autograd (sumE ((List.range n).map fun r' => sumE (du r'))) (varAt r v)

def partialB (n : Nat) (out : List (Expr V)) (vars : List (VarT V)) : Nat → List (Expr (BV V)) :=
  vars.foldl (partialStepB n) (fun r => out.map (atRow r))

end TPV.DiffOps
