/-
  C20 — the Fourier layer of `src/torchphysics/models/FNO.py` (import-free, executable).

  `_FourierLayer.forward`:
      fft  = rfftn(points, dim = 1..d)               -- real DFT over the d spatial axes
      fft  = pad(fft, …)                             -- every spatial axis of the spectrum is zero-padded or
                                                     --   truncated AT ITS END to `mode_num[i]` entries
      fft *= fourier_kernel                          -- kernel of shape (*mode_num, channels): per channel
      ifft = irfftn(fft, s = points.shape[1:-1])     -- trims / zero-pads every axis (again at its end) to the
                                                     --   input resolution, c2c inverse over the first d-1 axes,
                                                     --   then c2r over the last axis
      ifft += linear_transform(points)   (optional)  -- point-wise channel map
      ifft += points                     (optional)
  `FNO.forward`: point-wise channel map, (layer, point-wise activation)*, point-wise channel map.

  Scalars: the definitions are polymorphic in `K` (core notation classes + `Trig K`).  The driver runs
  them at `Float`; the theorems in `TPV/Props/C20.lean` are about the same definitions at `ℝ`.
  Fields are functions of a multi-index `Idx = Nat → Nat` (axis ↦ index) and a channel number; a field
  of shape `N₀ × … × N_{d-1}` is only ever read at indices `k i < Nᵢ` (i < d).
  The shape of the spatial grid is given as `pre ++ [last]` (d ≥ 1 by construction: `last` is the axis
  that carries the half spectrum).
-/
namespace TPV.Fourier

/-- the transcendental part of the scalar interface -/
class Trig (K : Type) where
  cos : K → K
  sin : K → K
  pi : K
  ofNat : Nat → K

instance : Trig Float := ⟨Float.cos, Float.sin, 3.141592653589793, Float.ofNat⟩

/-- multi-index: axis ↦ index along that axis -/
abbrev Idx := Nat → Nat

/-- replace the index of axis `i` by `v` -/
def upd (k : Idx) (i v : Nat) : Idx := fun a => if a = i then v else k a

/-- complex numbers as pairs -/
structure Cx (K : Type) where
  re : K
  im : K

section
variable {K : Type} [Add K] [Sub K] [Mul K] [Div K] [Neg K] [Trig K]

def zero : K := Trig.ofNat 0
def one : K := Trig.ofNat 1
def two : K := Trig.ofNat 2

def Cx.zero : Cx K := ⟨Fourier.zero, Fourier.zero⟩
def Cx.ofReal (x : K) : Cx K := ⟨x, Fourier.zero⟩
def Cx.add (a b : Cx K) : Cx K := ⟨a.re + b.re, a.im + b.im⟩
def Cx.mul (a b : Cx K) : Cx K := ⟨a.re * b.re - a.im * b.im, a.re * b.im + a.im * b.re⟩
def Cx.scale (s : K) (a : Cx K) : Cx K := ⟨s * a.re, s * a.im⟩

/-- `Σ_{j<n} f j`, summed in increasing order -/
def sumTo : Nat → (Nat → K) → K
  | 0, _ => zero
  | n + 1, f => sumTo n f + f n

def csumTo : Nat → (Nat → Cx K) → Cx K
  | 0, _ => Cx.zero
  | n + 1, f => (csumTo n f).add (f n)

/-- the angle `2π m / N` -/
def ang (N m : Nat) : K := (two * Trig.pi * Trig.ofNat m) / Trig.ofNat N

/-- `exp(+2πi m / N)` -/
def tw (N m : Nat) : Cx K := ⟨Trig.cos (ang N m), Trig.sin (ang N m)⟩

/-- `exp(-2πi m / N)` -/
def twc (N m : Nat) : Cx K := ⟨Trig.cos (ang N m), -Trig.sin (ang N m)⟩

/-- forward DFT along axis `i` (size `N`):  `X[k] = Σ_j exp(-2πi j kᵢ/N) · x[k with kᵢ := j]` -/
def fwdAxis (i N : Nat) (x : Idx → Cx K) : Idx → Cx K :=
  fun k => csumTo N fun j => (twc N (j * k i)).mul (x (upd k i j))

/-- inverse complex DFT along axis `i` (normalisation 1/N, torch's default "backward") -/
def invAxis (i N : Nat) (Y : Idx → Cx K) : Idx → Cx K :=
  fun n => Cx.scale (one / Trig.ofNat N) (csumTo N fun k => (tw N (k * n i)).mul (Y (upd n i k)))

/-- one term of the complex-to-real inverse: the imaginary parts of the DC bin and (for even `N`) of the
    Nyquist bin are ignored, every other bin of the half spectrum counts twice (Hermitian partner) -/
def c2rTerm (N k n : Nat) (z : Cx K) : K :=
  if k = 0 then z.re
  else if 2 * k = N then z.re * Trig.cos (ang N (k * n))
  else two * ((tw N (k * n)).mul z).re

/-- complex-to-real inverse DFT along axis `i`: reads the bins `0 … N/2`, output length `N` -/
def c2rAxis (i N : Nat) (Y : Idx → Cx K) : Idx → K :=
  fun n => (one / Trig.ofNat N) * sumTo (N / 2 + 1) fun k => c2rTerm N k (n i) (Y (upd n i k))

/-- forward transform over the axes `s, s+1, …` with sizes `ns` (last axis first, like r2c then c2c) -/
def fwdFrom (s : Nat) : List Nat → (Idx → Cx K) → (Idx → Cx K)
  | [], x => x
  | N :: ns, x => fwdAxis s N (fwdFrom (s + 1) ns x)

/-- inverse over the axes `s, s+1, …` (`pre`: complex inverses) and finally the c2r axis of size `last` -/
def invFrom (s : Nat) : List Nat → Nat → (Idx → Cx K) → (Idx → K)
  | [], last, Y => c2rAxis s last Y
  | N :: ns, last, Y => invFrom (s + 1) ns last (invAxis s N Y)

/-- is `k` inside the box `sizes` (axes `s, s+1, …`)? -/
def inBox (s : Nat) : List Nat → Idx → Bool
  | [], _ => true
  | N :: ns, k => decide (k s < N) && inBox (s + 1) ns k

/-- `pad` with a positive or negative amount at the END of every axis: from shape `src` to shape `dst`;
    entries that exist in both keep their index, new entries are zero -/
def resize (src dst : List Nat) (Y : Idx → Cx K) : Idx → Cx K :=
  fun k => if inBox 0 src k && inBox 0 dst k then Y k else Cx.zero

/-- shape of `rfftn`'s result -/
def specShape (pre : List Nat) (last : Nat) : List Nat := pre ++ [last / 2 + 1]

/-- the spectral convolution of one channel -/
def spectral (pre : List Nat) (last : Nat) (modes : List Nat) (kern : Idx → Cx K) (x : Idx → K) : Idx → K :=
  let X := fwdFrom 0 (pre ++ [last]) (fun j => Cx.ofReal (x j))   -- rfftn (bins read: specShape)
  let P := resize (specShape pre last) modes X                    -- pad / truncate to the kept modes
  let M := fun k => (P k).mul (kern k)                            -- fft *= kernel
  let R := resize modes (specShape pre last) M                    -- irfftn(…, s=input shape) resizes first
  invFrom 0 pre last R

/-- `torch.nn.Linear` on the channel axis: `y_c = Σ_c' W[c,c'] v_c' + b_c` -/
def linear (C : Nat) (W : Nat → Nat → K) (b : Nat → K) (v : Nat → K) : Nat → K :=
  fun c => sumTo C (fun c' => v c' * W c c') + b c

structure Layer (K : Type) where
  modes : List Nat
  kern : Idx → Nat → Cx K        -- (mode index, channel)
  lin : Bool
  W : Nat → Nat → K
  b : Nat → K
  skip : Bool

/-- `_FourierLayer.forward` (without batch normalisation) on a field with `C` channels -/
def layer (pre : List Nat) (last C : Nat) (L : Layer K) (x : Idx → Nat → K) : Idx → Nat → K :=
  fun n c =>
    let y := spectral pre last L.modes (fun k => L.kern k c) (fun j => x j c) n
    let y := if L.lin then y + linear C L.W L.b (x n) c else y
    if L.skip then y + x n c else y

/-- a map applied to the channel vector of every grid point separately -/
def pointwise (g : (Nat → K) → (Nat → K)) (x : Idx → Nat → K) : Idx → Nat → K := fun n => g (x n)

/-- `fourier_sequential`: layers alternating with point-wise activations -/
def fnoBody (pre : List Nat) (last C : Nat) : List (Layer K × (K → K)) → (Idx → Nat → K) → (Idx → Nat → K)
  | [], x => x
  | (L, act) :: rest, x => fnoBody pre last C rest (fun n c => act (layer pre last C L x n c))

/-- `FNO.forward`: up-sampling, Fourier layers with activations, down-sampling -/
def fno (pre : List Nat) (last C : Nat) (up down : (Nat → K) → (Nat → K))
    (layers : List (Layer K × (K → K))) (x : Idx → Nat → K) : Idx → Nat → K :=
  pointwise down (fnoBody pre last C layers (pointwise up x))

/-- `torch.roll(x, a, dims = axis i)` on an axis of size `N`: `out[n] = x[(n - a) mod N]` -/
def shiftIdx (N a m : Nat) : Nat := (m + (N - a % N)) % N

def rollAxis {α : Type} (i N a : Nat) (x : Idx → α) : Idx → α :=
  fun n => x (upd n i (shiftIdx N a (n i)))

/-- samples of the trigonometric polynomial `Σ_{p ≤ B} a_p cos(2π p t) + b_p sin(2π p t)` at `t = j/N` -/
def trigPoly (a b : Nat → K) (B N : Nat) (j : Nat) : K :=
  sumTo (B + 1) fun p => a p * Trig.cos (ang N (p * j)) + b p * Trig.sin (ang N (p * j))

end

/-! ### variables by name on the channel axis

  `Model._fix_points_order` (first statement of `FNO.forward`, `Sequential.forward`) and the slice
  `points[..., list(model.input_space.keys())]` of `Parallel.forward`: the channel axis of a `Points`
  object is laid out by its space (an ordered list of named variables with dimensions); a model picks
  the columns of its own variables, in its own order, at EVERY grid point (the index acts on the last
  axis only). -/

abbrev Vars := List (String × Nat)

def vdim : Vars → Nat
  | [] => 0
  | (_, d) :: S => d + vdim S

def keysOf (S : Vars) : List String := S.map (·.1)

/-- which variable / component sits in column `c` of the layout `S` -/
def decode : Vars → Nat → Option (String × Nat)
  | [], _ => none
  | (v, d) :: S, c => if c < d then some (v, c) else decode S (c - d)

/-- the column of component `j` of variable `v` in the layout `S` (first variable of that name) -/
def encode : Vars → String → Nat → Option Nat
  | [], _, _ => none
  | (w, d) :: S, v, j => if w = v then (if j < d then some j else none) else (encode S v j).map (· + d)

/-- the source column that destination column `c` is read from -/
def srcCol (src dst : Vars) (c : Nat) : Option Nat :=
  (decode dst c).bind fun vj => encode src vj.1 vj.2

/-- every column of the layout `dst` exists in `src` (else the code raises a KeyError) -/
def selectable (src dst : Vars) : Bool :=
  (List.range (vdim dst)).all fun c => (srcCol src dst c).isSome

/-- re-layout of one channel vector; columns `≥ vdim dst` do not exist in the result and are never read -/
def relayout {K : Type} (src dst : Vars) (v : Nat → K) : Nat → K :=
  fun c => match srcCol src dst c with
    | some s => v s
    | none => v c

/-- `points[..., list(dst.keys())]`: the same grid, channels picked by name -/
def selectVars {K : Type} (src dst : Vars) (x : Idx → Nat → K) : Option (Idx → Nat → K) :=
  if selectable src dst then some (fun n => relayout src dst (x n)) else none

def sameKeySet (A B : Vars) : Bool :=
  (keysOf A).all (fun k => (keysOf B).contains k) && (keysOf B).all (fun k => (keysOf A).contains k)

/-- `Model._fix_points_order`: nothing to do for the model's own space, a ValueError (`none`) for other
    variable names, otherwise the columns in the model's order -/
def fixOrder {K : Type} (src inS : Vars) (x : Idx → Nat → K) : Option (Idx → Nat → K) :=
  if src = inS then some x
  else if sameKeySet src inS then selectVars src inS x
  else none

section
variable {K : Type} [Add K] [Sub K] [Mul K] [Div K] [Neg K] [Trig K]

/-- `FNO.forward` on a `Points` object whose channels are laid out by `src` -/
def fnoFix (src inS : Vars) (pre : List Nat) (last C : Nat) (up down : (Nat → K) → (Nat → K))
    (layers : List (Layer K × (K → K))) (x : Idx → Nat → K) : Option (Idx → Nat → K) :=
  (fixOrder src inS x).map (fno pre last C up down layers)

/-- an FNO as a member of `Parallel`: `model(points[..., list(model.input_space.keys())])` -/
def fnoSelect (src inS : Vars) (pre : List Nat) (last C : Nat) (up down : (Nat → K) → (Nat → K))
    (layers : List (Layer K × (K → K))) (x : Idx → Nat → K) : Option (Idx → Nat → K) :=
  ((selectVars src inS x).bind (fixOrder inS inS)).map (fno pre last C up down layers)

end

/-! ### which buffers `_FourierLayer.forward` writes to

  The forward pass is a straight-line program over tensor buffers.  `alloc` steps bind a variable to a
  fresh buffer holding the result of a pure function; `inplace` steps overwrite the buffer a variable is
  bound to (`*=`, `+=`).  Values are abstract (`T`), the functions are parameters. -/

inductive Var | points | kernel | fft | ifft
  deriving DecidableEq, Repr

structure Store (T : Type) where
  env : Var → Nat            -- variable ↦ buffer id
  heap : Nat → T             -- buffer id ↦ contents
  next : Nat                 -- first unused buffer id

inductive Step (T : Type)
  | alloc (dst : Var) (f : (Var → T) → T)       -- dst = f(…)      (new tensor)
  | inplace (dst : Var) (f : (Var → T) → T)     -- dst op= …       (writes into dst's buffer)

def Store.read {T} (s : Store T) : Var → T := fun v => s.heap (s.env v)

def Step.run {T} (s : Store T) : Step T → Store T
  | .alloc dst f =>
    let v := f s.read
    { env := fun w => if w = dst then s.next else s.env w,
      heap := fun b => if b = s.next then v else s.heap b,
      next := s.next + 1 }
  | .inplace dst f =>
    let v := f s.read
    { s with heap := fun b => if b = s.env dst then v else s.heap b }

def runProg {T} (s : Store T) : List (Step T) → Store T
  | [] => s
  | st :: rest => runProg (st.run s) rest

/-- the abstract tensor operations used by the forward pass -/
structure Ops (T : Type) where
  rfftn : T → T
  pad : T → T
  mul : T → T → T
  irfftn : T → T
  lin : T → T
  add : T → T → T

/-- `_FourierLayer.forward` as coded -/
def forwardProg {T} (o : Ops T) (lin skip : Bool) : List (Step T) :=
  [ .alloc .fft (fun r => o.rfftn (r .points)),
    .alloc .fft (fun r => o.pad (r .fft)),
    .inplace .fft (fun r => o.mul (r .fft) (r .kernel)),
    .alloc .ifft (fun r => o.irfftn (r .fft)) ]
  ++ (if lin then [.inplace .ifft (fun r => o.add (r .ifft) (o.lin (r .points)))] else [])
  ++ (if skip then [.inplace .ifft (fun r => o.add (r .ifft) (r .points))] else [])

/-- initial store: `points` in buffer 0, `kernel` in buffer 1, the other variables unbound (bound to
    the scratch buffer 2 that nothing reads before it is re-bound) -/
def initStore {T} (p k junk : T) : Store T :=
  { env := fun v => match v with | .points => 0 | .kernel => 1 | .fft => 2 | .ifft => 2,
    heap := fun b => if b = 0 then p else if b = 1 then k else junk,
    next := 3 }

/-- the pure value the program is supposed to return -/
def forwardValue {T} (o : Ops T) (lin skip : Bool) (p k : T) : T :=
  let y := o.irfftn (o.mul (o.pad (o.rfftn p)) k)
  let y := if lin then o.add y (o.lin p) else y
  if skip then o.add y p else y

end TPV.Fourier
