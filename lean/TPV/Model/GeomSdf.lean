/-
  Signed membership margin of a domain expression (C01's property oracle).  Import-free.

  `sd D pts ρ` is the implicit-function value of constructive solid geometry: for a primitive the
  smallest normalised slack of its defining inequalities (barycentric units, relative squared radius,
  interval length — `Geom.slacks`), `max` for a union, `min` for intersection / product,
  `min(a, −b)` for a cut, pulled back through the inverse motion for translate / rotate.
  `Props/C01.lean: sd_pos_mem / sd_neg_not_mem` prove: `sd > 0 ⇒` the point is in the denoted set,
  `sd < 0 ⇒` it is not; hence every frontier point has `sd = 0`.  The harness evaluates `sd` in exact
  rational arithmetic on the coordinates the implementation returned: interior samples need
  `sd ≥ −ε`, boundary samples `|sd| ≤ ε`.
-/
import TPV.Model.Geom

namespace TPV.Geom

section
variable {K : Type} [Add K] [Sub K] [Mul K] [Div K] [Neg K] [LE K] [DecidableLE K] [OfNat K 0] [OfNat K 1]
  [BEq K]

def minList : List K → Option K
  | [] => none
  | x :: xs => some (xs.foldl minK x)

def zeroTol : Tol K := ⟨0, 0, 0⟩

def sd : Dom K → Env K → Env K → Option K
  | .interval v lb ub, pts, ρ => (slacks zeroTol false (.interval v lb ub) pts ρ).bind minList
  | .par v o c1 c2, pts, ρ => (slacks zeroTol false (.par v o c1 c2) pts ρ).bind minList
  | .tri v o c1 c2, pts, ρ => (slacks zeroTol false (.tri v o c1 c2) pts ρ).bind minList
  | .circle v c r, pts, ρ => (slacks zeroTol false (.circle v c r) pts ρ).bind minList
  | .sphere v c r, pts, ρ => (slacks zeroTol false (.sphere v c r) pts ρ).bind minList
  | .union a b, pts, ρ => do pure (maxK (← sd a pts ρ) (← sd b pts ρ))
  | .inter a b, pts, ρ => do pure (minK (← sd a pts ρ) (← sd b pts ρ))
  | .prod a b, pts, ρ => do pure (minK (← sd a pts ρ) (← sd b pts ρ))
  | .cut a b, pts, ρ => do pure (minK (← sd a pts ρ) (-(← sd b pts ρ)))
  | .translate v d t, pts, ρ =>
    match pts.get v, t.f (pts ++ ρ) with
    | some [x], [tx] => sd d [(v, [x - tx])] (pts.filter (fun b => b.1 != v) ++ ρ)
    | some [x, y], [tx, ty] => sd d [(v, [x - tx, y - ty])] (pts.filter (fun b => b.1 != v) ++ ρ)
    | some [x, y, z], [tx, ty, tz] => sd d [(v, [x - tx, y - ty, z - tz])] (pts.filter (fun b => b.1 != v) ++ ρ)
    | _, _ => none
  | .rotate v d m c, pts, ρ =>
    match pts.get v, m.f (pts ++ ρ), c.f (pts ++ ρ) with
    | some [x, y], [m00, m01, m10, m11], [cx, cy] =>
      let det := m00 * m11 - m01 * m10
      let qx := x - cx
      let qy := y - cy
      sd d [(v, [(m11 * qx - m01 * qy) / det + cx, (m00 * qy - m10 * qx) / det + cy])] (pts.filter (fun b => b.1 != v) ++ ρ)
    | _, _, _ => none
  | .bdry d, pts, ρ => sd d pts ρ          -- the caller demands |sd| ≤ ε on a boundary
  | .bdryL (.interval v lb ub), pts, ρ =>
    match pts.get v, lb.f (pts ++ ρ), ub.f (pts ++ ρ) with
    | some [x], [l], [u] => some (-(absK (x - l) / nz (absK (u - l))))
    | _, _, _ => none
  | .bdryR (.interval v lb ub), pts, ρ =>
    match pts.get v, lb.f (pts ++ ρ), ub.f (pts ++ ρ) with
    | some [x], [l], [u] => some (-(absK (x - u) / nz (absK (u - l))))
    | _, _, _ => none
  | .bdryL _, _, _ => none
  | .bdryR _, _, _ => none

end
end TPV.Geom
