import TPV.Model.Proto
import TPV.Model.Expr
import TPV.Model.DiffOps
open TPV TPV.Proto TPV.Expr TPV.Expr.Expr TPV.DiffOps

/-
  C03 driver.  Request (one line):
    <op> <form> <num>  <#vars> (<name> <dim>)*  <out>  <#deriv> <var index>*  <#extra> <expr>*  <#rows> (<#vals> <rat>*)*
  op   : grad lap div jac rot partial nd conv sym mdiv | gradshape gradshapeold | eval | gradold lapold (pinned snapshot: ok / err:unused)
  form : row | batch          (batch: the sum-over-the-batch forms; only grad lap div jac partial)
  num  : rat | flt            (rat: exact, `none` where not rational; flt: value bits and error-bound bits)
  out  : <#out> <expr>*       (mdiv: <#matrix rows> (<#cols> <expr>*)*)
  expr : prefix notation  c <rat> | v <name> <i> | + a b | - a b | * a b | / a b | neg a | ^ a <n> | sin a | cos a | exp a | tanh a | relun a <n>
  Reply: `<per-row shape> ; row | row | …` with one token per entry, or `err:<kind>`.
-/

abbrev Var := String × Nat

partial def expr : P (Expr Var) := do
  let t ← next
  match t with
  | "c" => do let r ← rat; pure (.const r)
  | "v" => do let n ← next; let i ← nat; pure (.var (n, i))
  | "+" => do let a ← expr; let b ← expr; pure (.add a b)
  | "-" => do let a ← expr; let b ← expr; pure (.sub a b)
  | "*" => do let a ← expr; let b ← expr; pure (.mul a b)
  | "/" => do let a ← expr; let b ← expr; pure (.div a b)
  | "neg" => do let a ← expr; pure (.neg a)
  | "^" => do let a ← expr; let n ← nat; pure (.pow a n)
  | "sin" => do let a ← expr; pure (.sin a)
  | "cos" => do let a ← expr; pure (.cos a)
  | "exp" => do let a ← expr; pure (.exp a)
  | "tanh" => do let a ← expr; pure (.tanh a)
  | "relun" => do let a ← expr; let n ← nat; pure (.relun a n)
  | _ => throw s!"expr:{t}"

def coordsOf (decl : List (String × Nat)) : List Var :=
  decl.flatMap fun (n, d) => (List.range d).map fun i => (n, i)

def lookupQ (al : List (Var × Rat)) (y : Var) : QE :=
  match al.lookup y with
  | some q => ⟨some q⟩
  | none => ⟨none⟩

def ratToFloat (c : Rat) : Float := Float.ofInt c.num / Float.ofNat c.den

def lookupF (al : List (Var × Rat)) (y : Var) : ErrF :=
  match al.lookup y with
  | some q => ⟨ratToFloat q, 0⟩
  | none => ⟨0.0 / 0.0, 0⟩

def showQE (x : QE) : String :=
  match x.v with
  | some q => showRat q
  | none => "none"

def showEF (x : ErrF) : String := s!"{showFloat x.v}:{showFloat x.e}"

/-- evaluate a list of row-level results at every row -/
def evalRows (num : String) (es : List (Expr Var)) (rows : List (List (Var × Rat))) : String :=
  " | ".intercalate (rows.map fun al =>
    if num = "rat" then showList showQE (es.map (eval (lookupQ al)))
    else showList showEF (es.map (eval (lookupF al))))

def lookupBQ (rows : List (List (Var × Rat))) (y : BV Var) : QE :=
  match rows[y.1]? with
  | some al => lookupQ al y.2
  | none => ⟨none⟩

def lookupBF (rows : List (List (Var × Rat))) (y : BV Var) : ErrF :=
  match rows[y.1]? with
  | some al => lookupF al y.2
  | none => ⟨0.0 / 0.0, 0⟩

/-- evaluate the batch-level result of row `r` for every `r` -/
def evalBatch (num : String) (f : Nat → List (Expr (BV Var))) (rows : List (List (Var × Rat))) : String :=
  " | ".intercalate ((List.range rows.length).map fun r =>
    if num = "rat" then showList showQE ((f r).map (eval (lookupBQ rows)))
    else showList showEF ((f r).map (eval (lookupBF rows))))

def okOr {α} (x : Except String α) (k : α → String) : String :=
  match x with
  | .ok a => k a
  | .error e => s!"err:{e}"

def step (line : String) : String :=
  let r : Except String String := (do
    let op ← next
    if op = "gradshape" then
      let batch ← many nat; let dims ← many nat
      return showNats (gradShape batch dims)
    if op = "gradshapeold" then
      let batch ← many nat; let dims ← many nat
      return okOr (gradShapeOld batch dims) showNats
    let form ← next
    let num ← next
    if num ≠ "rat" && num ≠ "flt" then return "bad-op num"
    let decl ← many (do let n ← next; let d ← nat; pure (n, d))
    let coords := coordsOf decl
    let outM : List (List (Expr Var)) ← (if op = "mdiv" then many (many expr) else do let l ← many expr; pure [l])
    let out := outM.flatten
    let deriv ← many nat
    let extra ← many expr
    let rowsRaw ← many (many rat)
    -- validation: what the real code cannot even be asked
    if deriv.any (· ≥ decl.length) then return "err:novar"
    if (out ++ extra).any (fun e => (vars e).any (fun y => !coords.contains y)) then return "err:unbound"
    if rowsRaw.any (·.length ≠ coords.length) then return "err:rowlen"
    let rows := rowsRaw.map (fun vals => coords.zip vals)
    let dvars : List (VarT Var) := deriv.filterMap fun k => decl[k]?.map fun (n, d) => (List.range d).map fun i => (n, i)
    let n := rows.length
    let flat (shape : String) (es : List (Expr Var)) : String := s!"{shape} ; {evalRows num es rows}"
    match form, op with
    | "row", "eval" => return flat s!"{out.length}" out
    | "row", "grad" => let g := grad out dvars; return flat s!"{g.length}" g
    | "row", "lap" => return flat "1" (laplacian out dvars)
    | "row", "gradold" => return okOr (gradOld out dvars) (fun _ => "ok")      -- pinned snapshot: raises or not
    | "row", "lapold" => return okOr (laplacianOld out dvars) (fun _ => "ok")
    | "row", "div" => return okOr (div out dvars) (flat "1")
    | "row", "jac" =>
      let J := jac out dvars
      return flat s!"{J.length} {(J.head?.map (·.length)).getD 0}" J.flatten
    | "row", "rot" => return okOr (rot out dvars) (flat "3")
    | "row", "partial" => let p := partialD out dvars; return flat s!"{p.length}" p
    | "row", "nd" => return okOr (normalDerivative out extra dvars) (flat "1")
    | "row", "conv" => return okOr (convective out extra dvars) (fun l => flat s!"{l.length}" l)
    | "row", "sym" => return okOr (symGrad out dvars) (fun J => flat s!"{J.length} {J.length}" J.flatten)
    | "row", "mdiv" => return okOr (matrixDiv outM dvars) (fun l => flat s!"{l.length}" l)
    | "batch", "grad" => return s!"{(grad out dvars).length} ; {evalBatch num (gradB n out dvars) rows}"
    | "batch", "lap" => return s!"1 ; {evalBatch num (laplacianB n out dvars) rows}"
    | "batch", "jac" =>
      let J := jac out dvars
      return s!"{J.length} {(J.head?.map (·.length)).getD 0} ; {evalBatch num (fun r => (jacB n out dvars r).flatten) rows}"
    | "batch", "div" =>
      match (List.range n).mapM (divB n out dvars) with
      | .error e => return s!"err:{e}"
      | .ok perRow => return s!"1 ; {evalBatch num (fun r => match perRow[r]? with | some l => l | none => [.var (n, ("?", 0))]) rows}"
    | "batch", "partial" => return s!"{(partialD out dvars).length} ; {evalBatch num (partialB n out dvars) rows}"
    | _, _ => return "bad-op"
    : P String).run' (tokens line)
  match r with
  | .ok s => s
  | .error e => s!"bad-op {e}"

def main : IO Unit := mainLoop step
