import TPV.Model.Proto
import TPV.Model.Train
/-!
  Line-protocol driver for C07 and C19 (shared).  One request per line:

    traj   <N> <sanity> <valEvery> <opt> <spec>          trajectory of `solverRun`
    ref    <N> <opt> <spec>                              `refLoop`
    resume <old> <N> <k> <sanity> <valEvery> <opt> <spec>  run to k, save, `resume` to N (old=1: counter restarts at 0)
    files  <N> <interval> <opt> <spec>                   `wsRun` (WeightSaveCallback)
    reg    <spec>                                        `registry`
    lrhist <N> <opt> <spec>                              final state and learning-rate history of a long run

    <opt>  := lr momentum dampening wd stepSize gamma freq
    <spec> := many(id value) many(cond) many(cond)
    cond   := weight track many(id) many(pexp)
    pexp   := c <rat> | p <id> | it | + e e | * e e | ~ e | r e | S <n> e…   (prefix)
-/
open TPV TPV.Proto TPV.Train

partial def pexp : P PExp := do
  let t ← next
  match t with
  | "c" => return .const (← rat)
  | "p" => return .par (← nat)
  | "it" => return .iter
  | "+" => do let a ← pexp; let b ← pexp; return .add a b
  | "*" => do let a ← pexp; let b ← pexp; return .mul a b
  | "~" => return .neg (← pexp)
  | "r" => return .rev (← pexp)
  | "S" => do
    let n ← nat
    if n = 0 then return .const 0
    let first ← pexp
    let mut acc := first
    for _ in [1:n] do
      let e ← pexp
      acc := .add acc e
    return acc
  | _ => throw s!"pexp:{t}"

def condP : P CondSpec := do
  let w ← rat; let tr ← bool
  let ts ← many nat
  let ls ← many pexp
  return { weight := w, tensors := ts, losses := ls, track := tr }

def spec : P Spec := do
  let env ← many (do let i ← nat; let v ← rat; pure (i, v))
  let tr ← many condP
  let va ← many condP
  return { env0 := env, train := tr, val := va }

def optSpec : P OptSpec := do
  let lr ← rat; let m ← rat; let d ← rat; let wd ← rat; let ss ← nat; let g ← rat; let f ← nat
  return { lr := lr, momentum := m, dampening := d, wd := wd, stepSize := ss, gamma := g, freq := f }

def showRats (l : List Rat) : String := showList showRat l

def showOpt (o : OptState) : String :=
  s!"lr {showRat o.lr} | bufs " ++ showList (fun b => match b with | none => "none" | some b => showRat b) o.bufs ++
  s!" | sched {o.epoch}"

def schedOf (valEvery : Nat) : Nat → Bool := fun b => valEvery != 0 && (b + 1) % valEvery == 0

def showLogged (l : Option Rat) : String := match l with | none => "none" | some r => showRat r

def step (line : String) : String :=
  let r : Except String String := (do
    let op ← next
    match op with
    | "reg" => do
      let s ← spec
      return showNats (registry s)
    | "traj" => do
      let N ← nat; let sanity ← bool; let ve ← nat
      let o ← optSpec; let s ← spec
      if !s.wellFormed then return "err:unbound"
      let cfg := s.toCfg o
      let s0 := onTrainStart (let f := fresh cfg s.θ0 (s.opt0 o); if sanity then valPass cfg f else f)
      let tr := trajectory cfg (schedOf ve) N s0
      let last := tr.getLast?.getD s0
      return showNats (registry s) ++ " | " ++ " | ".intercalate (tr.map fun st => showRats st.θ) ++
        " | " ++ showOpt last.opt ++ " | logged " ++ showList (fun st => showLogged st.logged) (tr.drop 1) ++
        " | it " ++ showNats (tr.map (·.nIter)) ++ " | grad " ++ showList (fun st => if st.gradOn then "1" else "0") tr
    | "lrhist" => do
      -- long runs: registry | final state | learning rate in force after every step
      let N ← nat
      let o ← optSpec; let s ← spec
      if !s.wellFormed then return "err:unbound"
      let cfg := s.toCfg o
      let s0 := onTrainStart (fresh cfg s.θ0 (s.opt0 o))
      let (last, lrs) := (List.range N).foldl (fun (p : St Rat OptState × List Rat) _ =>
        let st := trainStep cfg p.1; (st, st.opt.lr :: p.2)) (s0, [])
      return showNats (registry s) ++ " | " ++ showRats last.θ ++ " | " ++ showRats lrs.reverse
    | "ref" => do
      let N ← nat
      let o ← optSpec; let s ← spec
      if !s.wellFormed then return "err:unbound"
      let cfg := s.toCfg o
      let r := refLoop cfg N (s.θ0, s.opt0 o)
      return showRats r.1 ++ " | " ++ showOpt r.2
    | "resume" => do
      let old ← bool
      let N ← nat; let k ← nat; let sanity ← bool; let ve ← nat
      let o ← optSpec; let s ← spec
      if !s.wellFormed then return "err:unbound"
      if k > N then return "err:k>N"
      let cfg := s.toCfg o
      let f := fresh cfg s.θ0 (s.opt0 o)
      let full := solverRun cfg (schedOf ve) sanity N f
      let part := solverRun cfg (schedOf ve) sanity k f
      let res := if old then resumeOld cfg (schedOf ve) N (save part) else resume cfg (schedOf ve) N (save part)
      return showRats res.θ ++ " | " ++ showOpt res.opt ++ " | full " ++ showRats full.θ ++ " | " ++ showOpt full.opt ++
        " | reg " ++ showNats (registry s)
    | "files" => do
      let N ← nat; let iv ← nat
      let o ← optSpec; let s ← spec
      if !s.wellFormed then return "err:unbound"
      let cfg := s.toCfg o
      let r := wsRun cfg iv true true N (fresh cfg s.θ0 (s.opt0 o))
      let w := r.2
      let showOL (x : Option (List Rat)) := match x with | none => "none" | some l => showRats l
      return "init " ++ showOL w.init ++ " | min " ++
        (match w.min with | none => "none" | some (b, θ) => s!"{b} : " ++ showRats θ) ++
        " | cur " ++ showLogged w.cur ++ " | final " ++ showOL w.final
    | _ => return "bad-op" : P String).run' (tokens line)
  match r with
  | .ok s => s
  | .error e => s!"bad-op {e}"

def main : IO Unit := mainLoop step
