/-
  Line-protocol driver over TPV/Model/Polygon.lean (exact `Rat`; `Float` only for the boundary length).

  polygon   := <ring> <k> <ring>*k            exterior ring, number of holes, hole rings
  ring      := <n> (<x> <y>)*n                vertices WITHOUT the repeated closing vertex
  points    := <m> (<x> <y>)*m

  requests (one reply line each; the model is evaluated on `polyOrient P`, as `__init__` stores the polygon):
    contains <polygon> <points>      →  per point  "<0|1> <margin> <dist2>"     (`_contains`, edge slack, squared distance to the boundary)
    loc      <polygon> <points>      →  per point  i | b | e                    (GEOS location: interior / boundary / exterior)
    onbdry   <polygon> <points>      →  per point  0 | 1                        (exactly on an edge)
    bdry     <tol> <polygon> <points>→  per point  "<0|1> <dist2>"              (`boundary._contains` with tolerance `tol`)
    all      <tol> <polygon> <points>→  per point  "<i|b|e> <margin> <dist2> <0|1>"  (everything above in one pass)
    area     <polygon>               →  rational                                (`volume()`)
    bbox     <polygon>               →  xmin xmax ymin ymax                     (`bounding_box()`)
    len      <polygon>               →  double bits                             (`boundary.volume()`)
    outline  <polygon>               →  rings " | "-separated, closed           (`outline()`)
  a ring with fewer than 3 vertices → err:ring (Shapely: "A linearring requires at least 4 coordinates")
-/
import TPV.Model.Proto
import TPV.Model.Polygon
open TPV TPV.Proto TPV.Geom TPV.Poly

def pt : P (Rat × Rat) := do
  let x ← rat; let y ← rat; pure (x, y)

def poly : P (Polygon Rat) := do
  let o ← many pt
  let hs ← many (many pt)
  pure ⟨o, hs⟩

def wellFormed (Q : Polygon Rat) : Bool := decide (3 ≤ Q.outer.length) && Q.holes.all fun h => decide (3 ≤ h.length)

def toF (r : Rat) : Float := Float.ofInt r.num / Float.ofNat r.den

def polyF (Q : Polygon Rat) : Polygon Float :=
  ⟨Q.outer.map fun v => (toF v.1, toF v.2), Q.holes.map fun h => h.map fun v => (toF v.1, toF v.2)⟩

def showOpt : Option Rat → String
  | some r => showRat r
  | none => "none"

def showLoc : Loc → String
  | .interior => "i" | .boundary => "b" | .exterior => "e"

def showB (b : Bool) : String := if b then "1" else "0"

def showRing (r : List (Rat × Rat)) : String := " ".intercalate (r.map fun v => s!"{showRat v.1} {showRat v.2}")

def step (line : String) : String :=
  let r : Except String String := (do
    let op ← next
    match op with
    | "contains" => do
      let Q ← poly; let ps ← many pt
      if !wellFormed Q then return "err:ring"
      let Q := polyOrient Q
      return " ".intercalate (ps.map fun p => s!"{showB (polyContains Q p)} {showOpt (polyMargin Q p)} {showOpt (bdryDist2 Q p)}")
    | "loc" => do
      let Q ← poly; let ps ← many pt
      if !wellFormed Q then return "err:ring"
      let Q := polyOrient Q
      return " ".intercalate (ps.map fun p => showLoc (polyLocate Q p))
    | "onbdry" => do
      let Q ← poly; let ps ← many pt
      if !wellFormed Q then return "err:ring"
      let Q := polyOrient Q
      return " ".intercalate (ps.map fun p => showB (onPolyBdry Q p))
    | "bdry" => do
      let tol ← rat; let Q ← poly; let ps ← many pt
      if !wellFormed Q then return "err:ring"
      let Q := polyOrient Q
      return " ".intercalate (ps.map fun p => s!"{showB (polyBdryContains tol Q p)} {showOpt (bdryDist2 Q p)}")
    | "all" => do
      -- one pass for the correspondence: per point "<i|b|e> <margin> <dist2> <0|1 boundary test>"
      let tol ← rat; let Q ← poly; let ps ← many pt
      if !wellFormed Q then return "err:ring"
      let Q := polyOrient Q
      return " ".intercalate (ps.map fun p =>
        s!"{showLoc (polyLocate Q p)} {showOpt (polyMargin Q p)} {showOpt (bdryDist2 Q p)} {showB (polyBdryContains tol Q p)}")
    | "area" => do
      let Q ← poly
      if !wellFormed Q then return "err:ring"
      return showRat (polyArea (polyOrient Q))
    | "bbox" => do
      let Q ← poly
      if !wellFormed Q then return "err:ring"
      match polyBBox (polyOrient Q) with
      | some b => return s!"{showRat b.1} {showRat b.2.1} {showRat b.2.2.1} {showRat b.2.2.2}"
      | none => return "err:ring"
    | "len" => do
      let Q ← poly
      if !wellFormed Q then return "err:ring"
      return showFloat (polyBdryLen Float.sqrt (polyF (polyOrient Q)))
    | "outline" => do
      let Q ← poly
      if !wellFormed Q then return "err:ring"
      return " | ".intercalate ((polyOutline Q).map showRing)
    | _ => return "bad-op" : P String).run' (tokens line)
  match r with
  | .ok s => s
  | .error e => s!"bad-op {e}"

def main : IO Unit := mainLoop step
