import TPV.Model.Proto
import TPV.Model.Condition
import TPV.Model.ConditionInt
open TPV TPV.Proto TPV.CondExpr TPV.Cond

/-! line protocol of C04 (see harness/c04.py for the grammar); every number is an exact rational -/

partial def pe : P (PE Rat) := do
  let t ← next
  match t with
  | "c" => return .const (← rat)
  | "v" => do let n ← next; let i ← nat; return .var n i
  | "+" => do let a ← pe; let b ← pe; return .add a b
  | "-" => do let a ← pe; let b ← pe; return .sub a b
  | "*" => do let a ← pe; let b ← pe; return .mul a b
  | "n" => do let a ← pe; return .neg a
  | _ => throw s!"pe:{t}"

def space : P SpaceL := many (do let n ← next; let d ← nat; pure (n, d))
def named : P (Named Rat) := many (do let n ← next; let v ← many rat; pure (n, v))
def table : P (List (List Rat)) := many (many rat)

def ufun : P (UFun Rat) := do
  let ps ← many next
  let ds ← named
  let es ← many pe
  pure (peUFun ps ds es)

def net : P (Net Rat) := do
  let i ← space; let o ← space; let es ← many pe
  pure (peNet i o es)

/-- the same network without derivative information (conditions whose residuals do not differentiate:
    the symbolic second derivatives of a large program would be computed for every row for nothing) -/
def netND : P (Net Rat) := do
  let n ← net
  pure { n with ders := fun _ => [] }

def optNet : P (Option (Net Rat)) := do
  if (← nat) = 0 then pure none else pure (some (← net))

/-- entries of the data-function dict: `name fn <ufun>` (a callable) or `name tab <table>` (a tensor of values,
    one row per point: it is what it is, on any points) -/
def userFns : P (List (String × UFun Rat) × List (String × DataFn Rat)) := do
  let es ← many (do
    let n ← next
    match (← next) with
    | "fn" => do pure (n, Sum.inl (← ufun))
    | "tab" => do pure (n, Sum.inr (DataFn.pre (← table)))
    | t => throw s!"entry:{t}" : P (String × Sum (UFun Rat) (DataFn Rat)))
  pure (es.filterMap (fun e => match e.2 with | .inl u => some (e.1, u) | .inr _ => none),
        es.filterMap (fun e => match e.2 with | .inr d => some (e.1, d) | .inl _ => none))

/-- `<static 0|1> <resample interval: inf|k> <kept>`: `kept` = the point set a never-resampling static sampler
    keeps (by value).  The model pre-evaluates every data function on THIS set — how many times the sampler was
    asked for it during construction is not part of the model. -/
def preSets : P (Option (List (List Rat))) := do
  let static ← bool
  let it ← next
  let interval ← (match it with
    | "inf" => pure none
    | t => match t.toNat? with
      | some k => pure (some k)
      | none => throw s!"interval:{t}" : P (Option Nat))
  let kept ← table
  if shouldPreEval static interval then pure (some kept) else pure none

/-- one copy of the kept set per data function (the shape `setupDataFns` takes) -/
def perFn (pre : Option (List (List Rat))) (ufs : List (String × UFun Rat)) : Option (List (List (List Rat))) :=
  pre.map fun kept => ufs.map fun _ => kept

/-- callables go through `_setup_data_functions` (pre-evaluated on the kept set of a never-resampling static sampler);
    tensor entries stay the tables they are -/
def setupAll (sp : SpaceL) (pre : Option (List (List Rat))) (e : List (String × UFun Rat) × List (String × DataFn Rat)) :
    Except Err (List (String × DataFn Rat)) := do
  let dfs ← setupDataFns sp (perFn pre e.1) e.1
  pure (dfs ++ e.2)

def errKind : P ErrKind := do
  match (← next) with
  | "sq" => pure .sq | "id" => pure .ident | "abs" => pure .absSum
  | t => throw s!"err:{t}"

def redKind : P RedKind := do
  match (← next) with
  | "mean" => pure .mean | "sum" => pure .sum | "max" => pure .max
  | t => throw s!"red:{t}"

def showErr : Err → String
  | .missingArg n => s!"err:missing-arg:{n}"
  | .space => "err:space"
  | .shape => "err:shape"
  | .empty => "err:empty"
  | .user => "err:user"
  | .join => "err:join"

def showVec (v : List Rat) : String := showList showRat v
def showTable (t : List (List Rat)) : String := " ; ".intercalate (t.map showVec)
def showBound (b : List (List Rat)) : String := " , ".intercalate (b.map showVec)

def showResult (r : Except Err (Rat × List (List Rat) × List (List (List Rat)))) : String :=
  match r with
  | .ok (l, res, bound) => s!"{showRat l} | {showTable res} | {" ; ".intercalate (bound.map showBound)}"
  | .error e => showErr e

def step (line : String) : String :=
  let r : Except String String := (do
    let op ← next
    match op with
    | "sm" => do
      let sp ← space; let rows ← table; let n ← optNet; let res ← ufun; let ufs ← userFns; let pre ← preSets
      let ps ← named; let ek ← errKind; let rk ← redKind
      return showResult (do
        let dfs ← setupAll sp pre ufs
        let c : SMCond Rat := { net := n, resid := res, dataFns := dfs, params := ps, err := ek, red := rk }
        let bound ← rows.zipIdx.mapM fun ri => do
          let a ← rowArgs c sp rows.length ri.2 ri.1
          c.resid.params.mapM (bindArg c.resid.defaults a)
        let rs ← residuals c sp rows
        let l ← smLoss c sp rows
        pure (l, rs, bound))
    | "data" => do
      let sp ← space; let n ← netND
      let g ← (do if (← nat) = 0 then pure none else pure (some (← ufun)) : P (Option (UFun Rat)))
      let nm ← next
      let norm ← (match nm with
        | "inf" => pure none
        | t => match t.toNat? with
          | some p => pure (some p)
          | none => throw s!"norm:{t}" : P (Option Nat))
      let mode ← next
      let batches ← many (many (do let x ← many rat; let y ← many rat; pure (x, y)))
      let c : DataCond Rat := { net := n, constrain := g, norm := norm }
      if batches.isEmpty then return "err:empty"
      let out := match mode with
        | "full" => dataFull c sp batches
        | t => match t.toNat? with
          | some k => dataForward c sp batches k
          | none => .error .user
      return (match out with
        | .ok l => showRat l
        | .error e => showErr e)
    | "per" => do
      let psp ← space; let bsp ← space
      let rows ← many (do let a ← many rat; let b ← many rat; let c ← many rat; pure (a, b, c))
      let n ← netND; let res ← ufun; let ufs ← userFns; let preL ← preSets; let preR ← preSets
      let ps ← named; let ek ← errKind; let rk ← redKind
      return showResult (do
        let ld ← setupAll (psp ++ bsp) preL ufs
        let rd ← setupAll (psp ++ bsp) preR ufs
        let c : PerCond Rat := { net := n, resid := res, perSpace := psp, leftData := ld, rightData := rd,
                                 params := ps, err := ek, red := rk }
        let bound ← rows.zipIdx.mapM fun ri => do
          let a ← perRowArgs c bsp rows.length ri.2 ri.1.1 ri.1.2.1 ri.1.2.2
          c.resid.params.mapM (bindArg c.resid.defaults a)
        let rs ← rows.zipIdx.mapM fun ri => do
          c.resid.call (← perRowArgs c bsp rows.length ri.2 ri.1.1 ri.1.2.1 ri.1.2.2)
        let l ← perLoss c bsp rows
        pure (l, rs, bound))
    | "don" => do
      let psp ← space; let xsp ← space; let prows ← table; let xrows ← table
      let n ← netND
      let fso ← (do if (← nat) = 0 then pure none else do
                      let sp ← space; let g ← ufun; pure (some (sp, g)) : P (Option (SpaceL × UFun Rat)))
      let res ← ufun; let ufs ← userFns; let pre ← preSets; let ps ← named; let old ← bool
      return showResult (do
        let dfs ← setupAll xsp pre ufs
        let c : DONCond Rat := { net := n, fsOut := fso, resid := res, dataFns := dfs, params := ps,
                                 sumOverLocations := old }
        let bound ← prows.mapM fun prow => xrows.zipIdx.mapM fun xj => do
          let a ← donRowArgs c psp xsp xrows.length xj.2 prow xj.1
          c.resid.params.mapM (bindArg c.resid.defaults a)
        let rs ← donResiduals c psp xsp prows xrows
        let l ← donLoss c psp xsp prows xrows
        pure (l, rs.flatten, bound.flatten))
    | "int" => do
      let sp ← space; let isp ← space; let rows ← table; let irows ← table
      let n ← netND; let res ← ufun; let ufs ← userFns; let pre ← preSets
      let ps ← named; let ek ← errKind; let rk ← redKind
      return showResult (do
        let dfs ← setupAll sp pre ufs
        let c : IntCond Rat := { net := n, resid := res, dataFns := dfs, params := ps, err := ek, red := rk }
        let bound ← rows.zipIdx.mapM fun ri => do
          let a ← intRowArgs c sp isp rows.length ri.2 ri.1 irows
          c.resid.params.mapM (bindArg c.resid.defaults a)
        let rs ← intResiduals c sp isp rows irows
        let l ← intLoss c sp isp rows irows
        pure (l, rs, bound))
    | "aw" => do
      let sp ← space; let rows ← table; let n ← net; let res ← ufun; let ufs ← userFns; let pre ← preSets
      let ps ← named; let ek ← errKind; let ws ← many rat
      return showResult (do
        let dfs ← setupAll sp pre ufs
        let c : SMCond Rat := { net := some n, resid := res, dataFns := dfs, params := ps, err := ek, red := .mean }
        let bound ← rows.zipIdx.mapM fun ri => do
          let a ← rowArgs c sp rows.length ri.2 ri.1
          c.resid.params.mapM (bindArg c.resid.defaults a)
        let rs ← residuals c sp rows
        let l ← awLoss c ws sp rows
        pure (l, rs, bound))
    | _ => return "bad-op" : P String).run' (tokens line)
  match r with
  | .ok s => s
  | .error e => s!"bad-op {e}"

def main : IO Unit := mainLoop step
