import TPV.Model.GeomTerm
import TPV.Model.GeomVol
open TPV TPV.Proto TPV.Geom

/-- prefix syntax of volume expressions: the tokens of GeomTerm plus `point`, `uservol`, and a 0/1 flag
    after `union` / `cut` -/
partial def parseVDom {K} [Add K] [Sub K] [Mul K] [Neg K] (rd : P K) : P (VDom K) := do
  let t ← next
  let pf := parsePF rd
  let dom := parseVDom rd
  match t with
  | "interval" => do let v ← next; let a ← pf; let b ← pf; pure (.interval v a b)
  | "par" => do let v ← next; let o ← pf; let a ← pf; let b ← pf; pure (.par v o a b)
  | "tri" => do let v ← next; let o ← pf; let a ← pf; let b ← pf; pure (.tri v o a b)
  | "circle" => do let v ← next; let c ← pf; let r ← pf; pure (.circle v c r)
  | "sphere" => do let v ← next; let c ← pf; let r ← pf; pure (.sphere v c r)
  | "point" => do let v ← next; let p ← pf; pure (.point v p)
  | "union" => do let f ← bool; let a ← dom; let b ← dom; pure (.union f a b)
  | "cut" => do let f ← bool; let a ← dom; let b ← dom; pure (.cut f a b)
  | "inter" => do let a ← dom; let b ← dom; pure (.inter a b)
  | "prod" => do let a ← dom; let b ← dom; pure (.prod a b)
  | "translate" => do let v ← next; let d ← dom; let t ← pf; pure (.translate v d t)
  | "rotate" => do let v ← next; let d ← dom; let m ← pf; let c ← pf; pure (.rotate v d m c)
  | "bdry" => do let d ← dom; pure (.bdry d)
  | "bdryL" => do let d ← dom; pure (.bdryL d)
  | "bdryR" => do let d ← dom; pure (.bdryR d)
  | "uservol" => do let d ← dom; let f ← pf; pure (.userVol d f)
  | _ => throw s!"vdom:{t}"

def showRes : Except VErr (Float × Bool) → String
  | .ok (v, w) => s!"ok {showFloat v} {if w then 1 else 0}"
  | .error .raises => "err:raises"
  | .error .monteCarlo => "err:montecarlo"

def flNat (x : Float) : Nat := if x < 0 then 0 else x.floor.toUInt64.toNat

def step (line : String) : String :=
  let r : Except String String := (do
    let op ← next
    match op with
    | "vol" => do
      let d ← parseVDom floatFromRat
      let ρ ← parseEnv floatFromRat
      return showRes (volume d ρ)
    | "pevalvol" | "pevalvolold" => do
      let d ← parseVDom floatFromRat
      let σ ← parseEnv floatFromRat
      let ρ ← parseEnv floatFromRat
      return showRes (volume (if op == "pevalvol" then d.peval σ else d.pevalOld σ) ρ)
    | "count" => do
      let d ← rat; let v ← rat
      return s!"{densityCount d v} {densityCountProd d v}"
    | "grid" => do
      -- n (already 2·n for the triangle), side lengths
      let n ← nat; let s1 ← float; let s2 ← float
      let (n1, n2) := gridDims flNat n.toFloat s1 s2
      return s!"{n1} {n2} {(baryLattice n1 n2).length} {(triGrid n1 n2).length} {(triGridStrict n1 n2).length}"
    | "freevars" => do
      let d ← parseVDom floatFromRat
      return " ".intercalate d.freeVars
    | _ => return "bad-op" : P String).run' (tokens line)
  match r with
  | .ok s => s
  | .error e => s!"bad-op {e}"

def main : IO Unit := mainLoop step
