import TPV.Model.Proto
import TPV.Model.DeepONet
open TPV TPV.Proto TPV.DeepONet

/-! line protocol of C09 (see harness/c09.py).  Nested data are length-prefixed on both directions. -/

def sh1 {α} (f : α → String) (l : List α) : String :=
  " ".intercalate (toString l.length :: l.map f)
def sh2 {α} (f : α → String) (l : List (List α)) : String := sh1 (sh1 f) l
def sh3 {α} (f : α → String) (l : List (List (List α))) : String := sh1 (sh2 f) l

def pT23 {α} (p : P α) : P (T23 α) := do
  let r ← nat
  match r with
  | 2 => do let x ← many (many p); pure (.r2 x)
  | 3 => do let x ← many (many (many p)); pure (.r3 x)
  | _ => throw "rank"

def shT23 {α} (f : α → String) : T23 α → String
  | .r2 x => "2 " ++ sh2 f x
  | .r3 x => "3 " ++ sh3 f x

def pLayer {α} (p : P α) : P (Layer α) := do
  let W ← many (many p)
  let hasB ← bool
  if hasB then do
    let b ← many p
    pure ⟨W, some b⟩
  else pure ⟨W, none⟩

/-- shapes the real layer rejects: rows whose length differs from `in_features`, bias length -/
def layerFits {α} (L : Layer α) (rowLen : Nat) : Bool :=
  L.W.all (·.length = rowLen) && (match L.b with | some b => b.length = L.W.length | none => true)

def rowsOf {α} : T23 α → List (List α)
  | .r2 x => x
  | .r3 x => x.flatten

def uniformRows {α} (x : T23 α) (n : Nat) : Bool := (rowsOf x).all (·.length = n)

/-- activation codes of the protocol: 0 tanh, 1 sigmoid, 2 softplus (torch: beta 1, threshold 20), 3 sin,
    4 ReLU, 5 identity -/
def fsigmoid (z : Float) : Float := 1 / (1 + Float.exp (-z))

def actOf : Nat → Option ((Float → Float) × (Float → Float))
  | 0 => some (Float.tanh, fun z => 1 - Float.tanh z * Float.tanh z)
  | 1 => some (fsigmoid, fun z => fsigmoid z * (1 - fsigmoid z))
  | 2 => some ((fun z => if z > 20 then z else Float.log (1 + Float.exp z)), fun z => if z > 20 then 1 else fsigmoid z)
  | 3 => some (Float.sin, Float.cos)
  | 4 => some ((fun z => if z > 0 then z else 0), fun z => if z > 0 then 1 else 0)
  | 5 => some (id, fun _ => 1)
  | _ => none

def pActs : P (List ((Float → Float) × (Float → Float))) := do
  let codes ← many nat
  match codes.mapM actOf with
  | some l => pure l
  | none => throw "act"

def inDim {α} (L : Layer α) : Nat := match L.W with | [] => 0 | w :: _ => w.length

/-- every layer must fit the width produced by its predecessor -/
def netFits {α} : List (Layer α) → Nat → Bool
  | [], _ => true
  | l :: ls, n => layerFits l n && netFits ls l.W.length

def step (line : String) : String :=
  let r : Except String String := (do
    let op ← next
    match op with
    | "out" => do
      let d ← nat; let neurons ← nat
      let tr ← pT23 rat
      let br ← many (many rat)
      if !(uniformRows tr neurons) || !(br.all (·.length = neurons)) then return "err:shape"
      match (do let t ← trunkReshape d neurons tr; let b ← reshapeFeat d neurons br; contract t b) with
      | .ok o => return sh3 showRat o
      | .error e => return e
    | "fwd" => do
      let fast ← bool; let d ← nat; let neurons ← nat; let inputDim ← nat
      let tacts ← pActs
      let bacts ← pActs
      let trunk ← many (pLayer float)
      let branch ← many (pLayer float)
      let x ← pT23 float
      let fb ← many (many (many float))
      match trunk, branch with
      | t0 :: _, b0 :: _ =>
        if !(uniformRows x (inDim t0)) || !(netFits trunk (inDim t0)) || !(netFits branch (inDim b0))
           || inDim b0 ≠ inputDim then return "err:shape"
        match forward fast (tacts.map (·.1)) (bacts.map (·.1)) d neurons trunk branch inputDim x fb with
        | .ok o => return sh3 showFloat o
        | .error e => return e
      | _, _ => return "err:nolayers"
    | "lin" => do
      let x ← pT23 rat
      let L ← pLayer rat
      let g ← many (many (many rat))
      let nin := inDim L
      let nout := L.W.length
      if !(uniformRows x nin) || !(layerFits L nin) then return "err:shape"
      match fastLinear L x with
      | .error e => return e
      | .ok y =>
        let x0 := match x with | .r2 x => x | .r3 (x0 :: _) => x0 | .r3 [] => []
        let yl := match y with | .r3 y => y | .r2 y => [y]
        -- the cotangent must have the shape of the output
        if g.length ≠ yl.length || !(g.all (fun gc => gc.length = x0.length && gc.all (·.length = nout))) then
          return "err:gshape"
        return s!"{shT23 showRat y} ; {sh3 showRat (gradInput nin L.W g)} ; {sh2 showRat (gradWeight nout nin x0 g)} ; {sh1 showRat (gradBias nout g)}"
    | "vjp" => do
      let acts ← pActs
      let trunk ← many (pLayer float)
      let x ← pT23 float
      let g ← many (many (many float))
      match trunk with
      | [] => return "err:nolayers"
      | t0 :: _ =>
        if !(uniformRows x (inDim t0)) || !(netFits trunk (inDim t0)) then return "err:shape"
        let x0 := match x with | .r2 x => x | .r3 (x0 :: _) => x0 | .r3 [] => []
        if acts.length + 1 < trunk.length then return "err:index"
        let tape := trunkTape (acts.map (·.1)) trunk x0
        -- layer i is followed by acts[i]; the last layer by nothing (derivative slot unused)
        let ders := (acts.map (·.2)).take (trunk.length - 1) ++ [(fun (_ : Float) => (1 : Float))]
        let (gin, grads) := trunkSweep ((trunk.zip (ders.zip tape)).reverse) g
        let gs := " ; ".intercalate (grads.reverse.map (fun p => sh2 showFloat p.1 ++ " ; " ++ sh1 showFloat p.2))
        return s!"{sh3 showFloat gin} ; {gs}"
    | "mesh" => do
      let params ← many (many rat)
      let pts ← many (many rat)
      return sh3 showRat (meshgrid params pts)
    | "flat" => do
      let b ← many (many (many rat))
      let k ← nat
      match branchFlatten b k with
      | .ok o => return sh2 showRat o
      | .error e => return e
    | "hist" => do
      -- ops: `fb m s k` / `fix m tag`, length-prefixed
      let ops ← many (do
        let t ← next
        match t with
        | "fb" => do let m ← nat; let s ← nat; let k ← int; pure (Hist.Op.fb m s k)
        | "fix" => do let m ← nat; let tag ← nat; pure (Hist.Op.fix m tag)
        | _ => throw "histop")
      let showSrc : Option Hist.Src → String
        | none => "err"
        | some .empty => "empty"
        | some (.fixed t) => s!"fixed:{t}"
        | some (.set s d) => s!"set:{s}:{d}"
      return " ".intercalate ((Hist.trace Hist.step Hist.init ops).map showSrc)
    | "finalize" => do
      let d ← nat; let neurons ← nat
      return (if finalizeOk d neurons then "ok" else "err:neurons")
    | _ => return "bad-op" : P String).run' (tokens line)
  match r with
  | .ok s => s
  | .error e => s!"bad-op {e}"

def main : IO Unit := mainLoop step
