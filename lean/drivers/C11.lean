import TPV.Model.GeomTerm
import TPV.Model.GeomSample
import TPV.Model.GeomLaw
open TPV TPV.Proto TPV.Geom

/-! Line-protocol driver of C11 (sampling laws): the parametrisations (Float) and the selection
    semantics (exact) the theorems of Props/C11*.lean are about. -/

def showEnvF (e : Env Float) : String :=
  " ".intercalate (e.flatMap (fun b => b.2.map showFloat))

def showPairs (l : List (Nat × Nat)) : String :=
  " ".intercalate (l.map fun p => s!"{p.1}:{p.2}")

/-- recorded accept bits of round `rd`, tagged with (round, index) -/
def roundOf (rounds : List (List Bool)) (rd : Nat) : List ((Nat × Nat) × Bool) :=
  match rounds[rd]? with
  | some bits => (List.range bits.length).zip bits |>.map fun (i, b) => ((rd, i), b)
  | none => []

def step (line : String) : String :=
  let r : Except String String := (do
    let op ← next
    match op with
    | "prim" => do          -- random parametrisation of a primitive / primitive boundary, one row
      let d ← parseDom floatFromRat
      let ρ ← parseEnv floatFromRat
      let tape ← many floatFromRat
      return (match primSample d ρ tape with | some e => showEnvF e | none => "err:prim")
    | "igrid" => do         -- Interval.sample_grid(n)
      let l ← floatFromRat; let u ← floatFromRat; let n ← nat
      return showList showFloat (intervalGridList l u n)
    | "lhs" => do           -- one coordinate column of the LHS design
      let lo ← floatFromRat; let hi ← floatFromRat; let n ← nat
      let us ← many floatFromRat; let perm ← many nat
      return (match lhsAxis lo hi n us perm with | some xs => showList showFloat xs | none => "err:perm")
    | "unionpick" => do     -- D.6: choice bit per row (1 = the A-proposal)
      let inA ← many bool; let us ← many rat; let ratios ← many rat
      if inA.length ≠ us.length ∨ us.length ≠ ratios.length then return "err:shape"
      let rows := (inA.zip (us.zip ratios)).map fun (a, u, r) => unionPick a u r true false
      return " ".intercalate (rows.map fun b => if b then "1" else "0")
    | "prodaccept" => do    -- D.7 acceptance: indices of the kept candidates
      let vols ← many rat; let us ← many rat
      if vols.length ≠ us.length then return "err:shape"
      let cands := (List.range vols.length).zip (vols.zip us)
      return showNats (prodAccept cands)
    | "inside" => do        -- D.1 cut / intersection rejection loop of one parameter row
      let n ← nat; let fuel ← nat
      let rounds ← many (many bool)
      match insideRow n (fun rd _ => roundOf rounds rd) (·.2) fuel 0 (n : Rat) [] with
      | some (reqs, out) => return s!"{showNats reqs} | {showPairs (out.map (·.1))}"
      | none => return "err:fuel"
    | "acc" => do           -- accumulate loop (Gaussian sampler): first n accepted proposals
      let n ← nat; let fuel ← nat
      let rounds ← many (many bool)
      match accLoop n (fun rd => roundOf rounds rd) (·.2) (fun _ _ => false) fuel 0 [] with
      | some (rd, out) => return s!"{rd} | {showPairs (out.map (·.1))}"
      | none => return "err:fuel"
    | _ => return "bad-op" : P String).run' (tokens line)
  match r with
  | .ok s => s
  | .error e => s!"bad-op {e}"

def main : IO Unit := mainLoop step
