import TPV.Model.GeomTerm
import TPV.Model.GeomPeval
open TPV TPV.Proto TPV.Geom

def showOB : Option Bool → String
  | some true => "1" | some false => "0" | none => "none"

def showVars (l : List String) : String := if l.isEmpty then "-" else ",".intercalate l

def showVals (l : List (List Rat)) : String :=
  if l.isEmpty then "-" else " ".intercalate (l.map fun p => if p.isEmpty then "missing" else ",".intercalate (p.map showRat))

def showM : Option Rat → String
  | some m => showRat m | none => "none"

def step (line : String) : String :=
  let r : Except String String := (do
    let op ← next
    match op with
    | "peval" => do
      -- membership of D(**σ) at (pts, ρ)  vs  D at (pts, ρ ∪ σ)
      let atol ← rat; let rtol ← rat; let batol ← rat
      let d ← parseDom rat
      let σ ← parseEnv rat
      let pts ← parseEnv rat
      let ρ ← parseEnv rat
      let τ : Tol Rat := ⟨atol, rtol, batol⟩
      let c1 := contains τ (d.peval σ) pts ρ
      let c2 := contains τ d pts (ρ ++ σ)
      let c3 := contains τ (d.pevalC σ) pts ρ
      let mg := margin τ false d pts (ρ ++ σ)
      return s!"{showOB c1} {showOB c2} {showOB c3} {showM mg}"
    | "pevals" => do
      -- many rows of one expression: reply = row replies joined by ';'
      let atol ← rat; let rtol ← rat; let batol ← rat
      let d ← parseDom rat
      let σ ← parseEnv rat
      let rows ← many (do let pts ← parseEnv rat; let ρ ← parseEnv rat; pure (pts, ρ))
      let τ : Tol Rat := ⟨atol, rtol, batol⟩
      let dσ := d.peval σ
      let dc := d.pevalC σ
      let out := rows.map fun (pts, ρ) =>
        s!"{showOB (contains τ dσ pts ρ)} {showOB (contains τ d pts (ρ ++ σ))} {showOB (contains τ dc pts ρ)} {showM (margin τ false d pts (ρ ++ σ))}"
      return if out.isEmpty then "-" else ";".intercalate out
    | "slices" => do
      let atol ← rat; let rtol ← rat; let batol ← rat
      let patol ← rat; let prtol ← rat
      let a ← parseDom rat
      let b ← parseDom rat
      let σ ← parseEnv rat
      let rows ← many (do let pts ← parseEnv rat; let ρ ← parseEnv rat; pure (pts, ρ))
      let τ : Tol Rat := ⟨atol, rtol, batol⟩
      let πτ : Tol Rat := ⟨patol, prtol, patol⟩
      let fvs := showVars (sliceFreeVars a b σ)
      let out := rows.map fun (pts, ρ) =>
        let mga := if fixesAll σ a.vars then none else margin τ false (a.peval σ) pts ρ
        s!"{showOB (sliceContains τ πτ a b σ pts ρ)} {showOB (contains τ (.prod a b) pts (ρ ++ σ))} {showM (margin τ false (.prod a b) pts (ρ ++ σ))} {fvs} {showM mga}"
      return if out.isEmpty then "-" else ";".intercalate out
    | "rebind" => do
      -- the later row binds a fixed variable again: only the as-coded evaluation `pevalC` is meaningful
      let atol ← rat; let rtol ← rat; let batol ← rat
      let d ← parseDom rat
      let σ ← parseEnv rat
      let rows ← many (do let pts ← parseEnv rat; let ρ ← parseEnv rat; pure (pts, ρ))
      let τ : Tol Rat := ⟨atol, rtol, batol⟩
      let dc := d.pevalC σ
      let dσ := d.peval σ
      let out := rows.map fun (pts, ρ) =>
        s!"{showOB (contains τ dc pts ρ)} {showM (margin τ false dc pts ρ)} {showOB (contains τ dσ pts ρ)} {showM (margin τ false dσ pts ρ)}"
      return if out.isEmpty then "-" else ";".intercalate out
    | "uvol" => do
      -- a user-set volume f under D(**σa)(**σb): value at the remaining rows vs f at the extended rows
      let f ← parsePF rat
      let σa ← parseEnv rat
      let σb ← parseEnv rat
      let rows ← many (parseEnv rat)
      let u : UDom Rat := ⟨.interval "y" (.const [0]) (.const [1]), some f⟩
      let e := (u.peval σa).peval σb
      let out := rows.map fun ρ =>
        s!"{showVals [match e.uvol with | some g => g.f ρ | none => []]} {showVals [f.f (ρ ++ (σb ++ σa))]} {showVars (match e.uvol with | some g => g.args | none => [])}"
      return if out.isEmpty then "-" else ";".intercalate out
    | "resupply" => do
      -- σ0 = Python defaults of the user's functions (a function with defaults is `p.peval σ0`), then the calls
      -- D(**σ1)(**σ2) as coded (`pevalC`), σ2 may supply variables again that σ0 / σ1 already fixed
      let atol ← rat; let rtol ← rat; let batol ← rat
      let d ← parseDom rat
      let σ0 ← parseEnv rat
      let σ1 ← parseEnv rat
      let σ2 ← parseEnv rat
      let rows ← many (do let pts ← parseEnv rat; let ρ ← parseEnv rat; pure (pts, ρ))
      let τ : Tol Rat := ⟨atol, rtol, batol⟩
      let d1 := (d.peval σ0).pevalC σ1
      let d2 := d1.pevalC σ2
      let out := rows.map fun (pts, ρ) =>
        s!"{showOB (contains τ d2 pts ρ)} {showOB (contains τ d1 pts (ρ ++ σ2))} {showM (margin τ false d1 pts (ρ ++ σ2))} {showVars d2.freeVars} {showVars d1.freeVars} {showVars (d.peval σ0).freeVars}"
      return if out.isEmpty then "-" else ";".intercalate out
    | "slicerec" => do
      -- one call fixing the variables of several factors of a (nested) product
      let atol ← rat; let rtol ← rat; let batol ← rat
      let patol ← rat; let prtol ← rat
      let d ← parseDom rat
      let σ ← parseEnv rat
      let rows ← many (do let pts ← parseEnv rat; let ρ ← parseEnv rat; pure (pts, ρ))
      let τ : Tol Rat := ⟨atol, rtol, batol⟩
      let πτ : Tol Rat := ⟨patol, prtol, patol⟩
      let fvs := showVars (sliceRecFreeVars σ d)
      let out := rows.map fun (pts, ρ) =>
        s!"{showOB (sliceRec τ πτ σ d pts ρ)} {showOB (contains τ d pts (ρ ++ σ))} {showM (margin τ false d pts (ρ ++ σ))} {fvs} {showM (sliceRecMargin τ σ d pts ρ)}"
      return if out.isEmpty then "-" else ";".intercalate out
    | "peval2" => do
      -- repeated evaluation: D(**σ1)(**σ2) at (pts, ρ)  vs  D at (pts, ρ ∪ σ2 ∪ σ1)
      let atol ← rat; let rtol ← rat; let batol ← rat
      let d ← parseDom rat
      let σ1 ← parseEnv rat
      let σ2 ← parseEnv rat
      let pts ← parseEnv rat
      let ρ ← parseEnv rat
      let τ : Tol Rat := ⟨atol, rtol, batol⟩
      let c1 := contains τ ((d.peval σ1).peval σ2) pts ρ
      let c2 := contains τ d pts (ρ ++ (σ2 ++ σ1))
      let c3 := contains τ ((d.pevalC σ1).pevalC σ2) pts ρ
      let mg := margin τ false d pts (ρ ++ (σ2 ++ σ1))
      return s!"{showOB c1} {showOB c2} {showOB c3} {showM mg}"
    | "fv" => do
      let d ← parseDom rat
      let σ1 ← parseEnv rat
      let σ2 ← parseEnv rat
      let f0 := d.freeVars
      let f1 := (d.peval (σ2 ++ σ1)).freeVars
      let f2 := ((d.peval σ1).peval σ2).freeVars
      let c1 := (d.pevalC (σ2 ++ σ1)).freeVars
      return s!"{showVars f0} {showVars f1} {showVars f2} {showVars c1} {showVars (d.needs d.vars)} {if d.wf then "1" else "0"} {showVars d.freeVarsOld}"
    | "ground" => do
      let d ← parseDom rat
      let σ ← parseEnv rat
      let ρ ← parseEnv rat
      let g1 := ((d.peval σ).ground ρ).values
      let g2 := (d.ground (ρ ++ σ)).values
      return s!"{showVals g1} | {showVals g2}"
    | "slice" => do
      let atol ← rat; let rtol ← rat; let batol ← rat
      let patol ← rat; let prtol ← rat
      let a ← parseDom rat
      let b ← parseDom rat
      let σ ← parseEnv rat
      let pts ← parseEnv rat
      let ρ ← parseEnv rat
      let τ : Tol Rat := ⟨atol, rtol, batol⟩
      let πτ : Tol Rat := ⟨patol, prtol, patol⟩
      let c1 := sliceContains τ πτ a b σ pts ρ
      let c2 := contains τ (.prod a b) pts (ρ ++ σ)
      let mg := margin τ false (.prod a b) pts (ρ ++ σ)
      let mga := if fixesAll σ a.vars then none else margin τ false (a.peval σ) pts ρ
      return s!"{showOB c1} {showOB c2} {showM mg} {showVars (sliceFreeVars a b σ)} {showM mga}"
    | _ => return "bad-op" : P String).run' (tokens line)
  match r with
  | .ok s => s
  | .error e => s!"bad-op {e}"

def main : IO Unit := mainLoop step
