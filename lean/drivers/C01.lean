import TPV.Model.GeomTerm
import TPV.Model.GeomSample
import TPV.Model.GeomSdf
import TPV.Model.GeomPoly
open TPV TPV.Proto TPV.Geom

def showEnvF (e : Env Float) : String :=
  " ".intercalate (e.flatMap (fun b => b.2.map showFloat))

def showPairs (l : List (Nat × Nat)) : String :=
  " ".intercalate (l.map fun p => s!"{p.1}:{p.2}")

/-- recorded accept bits of round `rd`, tagged with (round, index) -/
def roundOf (rounds : List (List Bool)) (rd : Nat) : List ((Nat × Nat) × Bool) :=
  match rounds[rd]? with
  | some bits => (List.range bits.length).zip bits |>.map fun (i, b) => ((rd, i), b)
  | none => []

def step (line : String) : String :=
  let r : Except String String := (do
    let op ← next
    match op with
    | "sd" => do
      let d ← parseDom rat
      let pts ← parseEnv rat
      let ρ ← parseEnv rat
      return (match sd d pts ρ with | some m => showRat m | none => "none")
    | "prim" => do
      let d ← parseDom floatFromRat
      let ρ ← parseEnv floatFromRat
      let tape ← many floatFromRat
      return (match primSample d ρ tape with | some e => showEnvF e | none => "none")
    | "grid" => do
      let d ← parseDom floatFromRat
      let ρ ← parseEnv floatFromRat
      let n ← nat
      let topup ← many (many floatFromRat)
      return (match primGrid d ρ n topup with
        | some es => s!"{es.length} " ++ " ".intercalate (es.map showEnvF)
        | none => "none")
    | "tripool" => do       -- candidates of Triangle.sample_grid before the first-n cut (barycentric pool mapped to points)
      let ox ← floatFromRat; let oy ← floatFromRat; let ax ← floatFromRat; let ay ← floatFromRat
      let bx ← floatFromRat; let cy ← floatFromRat
      let n ← nat
      let topup ← many (many floatFromRat)
      let bs := triGridPoolBary n (norm2 (ax - ox) (ay - oy)) (norm2 (ox - bx) (oy - cy))
        (topup.filterMap fun | [a, b] => some (a, b) | _ => none)
      let ps := bs.map fun b => parSample ox oy ax ay bx cy b.1 b.2
      return s!"{ps.length} " ++ " ".intercalate (ps.map fun p => s!"{showFloat p.1} {showFloat p.2}")
    | "gridcounts" => do   -- sizes of the barycentric mesh (Float) and the pre-floor values
      let n ← nat; let l1 ← floatFromRat; let l2 ← floatFromRat
      let c := parGridCounts n l1 l2
      return s!"{c.1} {c.2} {showFloat (Float.sqrt (Float.ofNat n * l1 / l2))} {showFloat (Float.sqrt (Float.ofNat n * l2 / l1))}"
    | "inside" => do        -- D.1
      let n ← nat; let fuel ← nat
      let rounds ← many (many bool)
      match insideRow n (fun rd _ => roundOf rounds rd) (·.2) fuel 0 (n : Rat) [] with
      | some (reqs, out) => return s!"{showNats reqs} | {showPairs (out.map (·.1))}"
      | none => return "none"
    | "n1" => do            -- D.2
      let fuel ← nat; let k ← nat
      let rounds ← many (many bool)
      match n1Loop (fun rd => roundOf rounds rd) (·.2) fuel 0 (List.replicate (n1Rows k) none) with
      | some (rd, out) => return s!"{rd} | {showPairs (out.map (·.1))}"
      | none => return "none"
    | "n1b" => do           -- D.2b
      let fuel ← nat; let k ← nat
      let rounds ← many (many bool)
      match n1BdryLoop (fun rd => roundOf rounds rd) (fun rd => roundOf rounds rd) (·.2) fuel 0 (List.replicate (n1Rows k) none) with
      | some (rd, out) => return s!"{rd} | {showPairs (out.map (·.1))}"
      | none => return "none"
    | "acc" => do           -- D.4 / filter / Gaussian loops
      let n ← nat; let fuel ← nat; let filt ← bool
      let rounds ← many (many bool)
      let giveUp := fun (it found : Nat) => filt && decide (it ≥ 20) && found == 0
      match accLoop n (fun rd => roundOf rounds rd) (·.2) giveUp fuel 0 [] with
      | some (rd, out) => return s!"{rd} | {showPairs (out.map (·.1))}"
      | none => return "none"
    | "gridinside" => do    -- D.3: bits of the first grid, bits of the second grid (requested size m2)
      let n ← nat
      let g1 ← many bool; let m2 ← nat; let g2 ← many bool
      let grid := fun m => if m == n then roundOf [g1] 0 else if m == m2 then (roundOf [[], g2] 1) else []
      match gridInside n grid (·.2) (fun m => some [((9, m), true)]) with
      | some (m, out) => return s!"{m} | {showPairs (out.map (·.1))}"
      | none => return "none"
    | "unionpick" => do     -- D.6
      let inA ← many bool; let us ← many rat; let ratios ← many rat
      let rows := (inA.zip (us.zip ratios)).map fun (a, u, r) => unionPick a u r true false
      return " ".intercalate (rows.map fun b => if b then "1" else "0")
    | "prodaccept" => do    -- D.7 acceptance
      let vols ← many rat; let us ← many rat
      let cands := (List.range vols.length).zip (vols.zip us)
      return showNats (prodAccept cands)
    | "prodloop" => do      -- D.7 count loop: sizes of the accepted batches in call order
      let n ← nat; let fuel ← nat
      let sizes ← many nat
      let batch := fun (rd m : Nat) => (List.range (match sizes[rd]? with | some s => s | none => 0)).map fun i => (rd, i, m)
      match prodSample n batch fuel with
      | some out => return s!"{out.length} | " ++ " ".intercalate (out.map fun p => s!"{p.1}:{p.2.1}:{p.2.2}")
      | none => return "none"
    | "poly" => do          -- even-odd membership of a polygon with an optional hole (exact)
      let pr : P (Rat × Rat) := do let a ← rat; let b ← rat; pure (a, b)
      let outer ← many pr
      let hole ← many pr
      let q ← pr
      return (match polyHoleContains outer (if hole.isEmpty then none else some hole) q with
        | some true => "1" | some false => "0" | none => "edge")
    | "translate" => do
      let q ← many rat; let t ← many rat
      return (match translatePt q t with | some p => showList showRat p | none => "none")
    | "rotate" => do
      let q ← many rat; let m ← many rat; let c ← many rat
      return (match rotatePt q m c with | some p => showList showRat p | none => "none")
    | _ => return "bad-op" : P String).run' (tokens line)
  match r with
  | .ok s => s
  | .error e => s!"bad-op {e}"

def main : IO Unit := mainLoop step
