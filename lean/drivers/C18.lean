import TPV.Model.GeomTerm
import TPV.Model.GeomBox
import TPV.Model.Net
open TPV TPV.Proto TPV.Geom

def showBox (b : List (Rat × Rat)) : String :=
  " ".intercalate (b.map fun p => s!"{showRat p.1} {showRat p.2}")

def showOB : Option Bool → String
  | some true => "1" | some false => "0" | none => "none"

def step (line : String) : String :=
  let r : Except String String := (do
    let op ← next
    match op with
    | "bbox" => do
      -- bbox <dom> <k> <env>…  : the whole call `D.bounding_box(params)` with k ≥ 1 rows (`0` bindings = no parameters)
      let d ← parseDom rat
      let ρs ← many (parseEnv rat)
      match bboxCall d ρs with
      | none => return "err:rejected"
      | some (.inl b) => return s!"flat {showBox b}"
      | some (.inr bs) => return s!"rows {" ; ".intercalate (bs.map showBox)}"
    | "bboxrow" => do
      -- bboxrow <dom> <k> <env>… <env ρ> : the box for row ρ
      let d ← parseDom rat
      let ρs ← many (parseEnv rat)
      let ρ ← parseEnv rat
      match bbox d ρs ρ with
      | none => return "err:rejected"
      | some b => return s!"flat {showBox b}"
    | "bboxrot3" => do
      -- Rotate(D, M 3x3, c).bounding_box(params) for a 3-D domain D whose own box is flat
      let d ← parseDom rat
      let ρs ← many (parseEnv rat)
      let m ← many rat; let c ← many rat
      match bboxCall d ρs with
      | some (.inl bd) =>
        match bboxRotate3 bd m c with
        | some b => return s!"flat {showBox b}"
        | none => return "err:rejected"
      | _ => return "err:rejected"
    | "rotold" => do
      -- the pinned snapshot's Rotate box on an inner box
      let bd ← many (do let a ← rat; let b ← rat; pure (a, b))
      let m ← many rat; let c ← many rat
      match bboxRotateOld bd m c with
      | none => return "err:rejected"
      | some b => return s!"flat {showBox b}"
    | "contains" => do
      -- exact membership (the algorithm `contains_iff_mem` proves equal to the denoted set) + margin
      let atol ← rat; let rtol ← rat; let batol ← rat
      let d ← parseDom rat
      let pts ← parseEnv rat
      let ρ ← parseEnv rat
      let τ : Tol Rat := ⟨atol, rtol, batol⟩
      let res := containsAux τ false d pts ρ
      let mg := margin τ false d pts ρ
      return s!"{showOB res} {match mg with | some m => showRat m | none => "none"}"
    | "norm" => do
      -- NormalizationLayer built from a box, applied to one row
      let bd ← many (do let a ← rat; let b ← rat; pure (a, b))
      let x ← many rat
      if bd.any (fun b => b.1 == b.2) then return "err:degenerate"
      match TPV.Net.normRow bd x with
      | none => return "err:shape"
      | some y => return " ".intercalate (y.map showRat)
    | "lhs" => do
      -- one LHS coordinate: lo hi n j u
      let lo ← rat; let hi ← rat; let n ← nat; let j ← nat; let u ← rat
      if n = 0 then return "err:n0"
      return showRat (lhsCoord lo hi (n : Rat) (j : Rat) u)
    | _ => return "bad-op" : P String).run' (tokens line)
  match r with
  | .ok s => s
  | .error e => s!"bad-op {e}"

def main : IO Unit := mainLoop step
