import TPV.Model.GeomTerm
import TPV.Model.GeomNormal
open TPV TPV.Proto TPV.Geom

/-!
  Line protocol of the C06 check.
    normal <atol> <rtol> <batol> <boundary-expr> <pts> <ρ>      (Float: doubles on the exact input values)
        → `<n> <bits>… <margin-bits|inf>`   the normal vector (IEEE bits) and the smallest decision slack
        → `none`                            the code has no finite answer here (NaN row / no `normal` method)
    normal-old …                            the same for the code before the orientation fix
    contains <atol> <rtol> <batol> <expr> <pts> <ρ>             (Rat, exact) → `1|0|none <margin|none>`
-/

def showOB : Option Bool → String
  | some true => "1" | some false => "0" | none => "none"

def step (line : String) : String :=
  let r : Except String String := (do
    let op ← next
    match op with
    | "normal" | "normal-old" => do
      let atol ← floatFromRat; let rtol ← floatFromRat; let batol ← floatFromRat
      let d ← parseDom floatFromRat
      let pts ← parseEnv floatFromRat
      let ρ ← parseEnv floatFromRat
      let τ : Tol Float := ⟨atol, rtol, batol⟩
      match normal (op == "normal") τ d pts ρ with
      | none => return "none"
      | some v =>
        let mg := match normalMargin τ d pts ρ with | some m => showFloat m | none => "inf"
        return s!"{v.length} {showList showFloat v} {mg}"
    | "contains" => do
      let atol ← rat; let rtol ← rat; let batol ← rat
      let d ← parseDom rat
      let pts ← parseEnv rat
      let ρ ← parseEnv rat
      let τ : Tol Rat := ⟨atol, rtol, batol⟩
      let res := containsAux τ false d pts ρ
      let mg := margin τ false d pts ρ
      return s!"{showOB res} {match mg with | some m => showRat m | none => "none"}"
    | _ => return "bad-op" : P String).run' (tokens line)
  match r with
  | .ok s => s
  | .error e => s!"bad-op {e}"

def main : IO Unit := mainLoop step
