import TPV.Model.Proto
import TPV.Model.Space
import TPV.Model.Points
import TPV.Model.DType
open TPV TPV.Proto TPV.Table

/-! line protocol of C12 (see harness/c12.py); every operand is carried in the request line -/

def pSpace : P Space := do
  let vs ← many (do let n ← next; let d ← nat; pure (n, d))
  pure ⟨vs⟩

/-- `<space> <nshape> shape… <ncells> cells…` -/
def pPoints : P (Points Rat) := do
  let sp ← pSpace
  let sh ← many nat
  let xs ← many rat
  if xs.length ≠ prodL sh * sp.dim then throw "points:cells"
  pure ⟨sp, sh, chunkRows sp.dim (prodL sh) xs⟩

def pOptInt : P (Option Int) := do
  let t ← next
  if t = "_" then pure none else
  match t.toInt? with
  | some i => pure (some i)
  | none => throw s!"optint:{t}"

def pBound : P Bound := do
  let t ← next
  if t = "_" then pure .none
  else if t.startsWith "#" then
    match (t.drop 1).toString.toInt? with
    | some i => pure (.int i)
    | none => throw s!"bound:{t}"
  else if t.startsWith "$" then pure (.name (t.drop 1).toString)
  else throw s!"bound:{t}"

def pItem : P Item := do
  let t ← next
  match t with
  | "I" => do pure (.int (← int))
  | "S" => do let a ← pBound; let b ← pBound; let s ← pOptInt; pure (.slice a b s)
  | "E" => pure .ell
  | "M" => do pure (.mask (← many bool))
  | "L" => do pure (.list (← many int))
  | "V" => do pure (.name (← next))
  | "W" => do pure (.names (← many next))
  | _ => throw s!"item:{t}"

def pIndex : P Index := do
  let t ← next
  match t with
  | "one" => do pure (.one (← pItem))
  | "lst" => do pure (.pylist (← many int))
  | "tup" => do pure (.tup (← many pItem))
  | _ => throw s!"index:{t}"

def showSpace (s : Space) : String :=
  s!"{s.vars.length}" ++ String.join (s.vars.map fun v => s!" {v.1} {v.2}")

def showPoints (p : Points Rat) : String :=
  s!"P {showSpace p.space} | {showNats p.shape} | {showList showRat p.data.flatten}"

def pDType : P DType := do
  let t ← next
  match t with
  | "i64" => pure .i64
  | "f32" => pure .f32
  | "f64" => pure .f64
  | _ => throw s!"dtype:{t}"

def pTPoints : P (TPoints Rat) := do
  let t ← pDType
  let p ← pPoints
  pure ⟨t, p⟩

/-- a typed result is comparable only when every cell is a value of the resulting element type -/
def showT : Except Err (TPoints Rat) → String
  | .ok r =>
    if r.pts.data.all (·.all (fits r.dtype)) then s!"{r.dtype.name} {showPoints r.pts}" else "unmodelled"
  | .error .unmodelled => "unmodelled"
  | .error e => s!"err:{e.name}"

def showE {β} (f : β → String) : Except Err β → String
  | .ok b => f b
  | .error .unmodelled => "unmodelled"
  | .error e => s!"err:{e.name}"

/-- reply for a call the coded model rejects: the rejection, plus — when the natural total extension
    of the operation is defined — the only result the property allows if the code accepts the call -/
def withAlt (coded : String) (alt : Option String) : String :=
  match alt with
  | some a => if coded.startsWith "err:" && !(a.startsWith "err:") && a != "unmodelled" then s!"{coded} alt={a}" else coded
  | none => coded

def ratPow (a : Rat) : Nat → Rat
  | 0 => 1
  | n + 1 => a * ratPow a n

/-- cell functions; `none` = outside the exactly representable fragment (division by zero,
    non-natural exponent) -/
def arithOk (op : String) (q : Points Rat) : Bool :=
  match op with
  | "div" => q.data.all (·.all (· ≠ 0))
  | "pow" => q.data.all (·.all fun e => e.den = 1 && 0 ≤ e.num && e.num ≤ 64)
  | _ => true

def arithFn (op : String) : Option (Rat → Rat → Rat) :=
  match op with
  | "add" => some (· + ·)
  | "sub" => some (· - ·)
  | "mul" => some (· * ·)
  | "div" => some (· / ·)
  | "pow" => some fun a e => ratPow a e.num.toNat
  | _ => none

def step (line : String) : String :=
  let r : Except String String := (do
    let op ← next
    match op with
    | "space.mul" => do let a ← pSpace; let b ← pSpace; return showSpace (a.mul b)
    | "space.has" => do let a ← pSpace; let b ← pSpace; return toString (a.has b)
    | "space.hasname" => do let a ← pSpace; let n ← next; return toString (a.hasName n)
    | "space.get" => do let a ← pSpace; let n ← next; return toString (dimOf a.vars n)
    | "space.dim" => do let a ← pSpace; return toString a.dim
    | "space.eq" => do let a ← pSpace; let b ← pSpace; return toString (decide (a = b))
    | "space.sub" => do let a ← pSpace; let ns ← many next; return showSpace (a.sub ns)
    | "space.slice" => do
      let a ← pSpace; let lo ← pBound; let hi ← pBound; let st ← pOptInt
      let nm : Bound → Option (Option String) := fun
        | .none => some none | .name s => some (some s) | .int _ => none
      match nm lo, nm hi with
      | some lo, some hi => return showE showSpace (a.slice lo hi st)
      | _, _ => return "err:value"
    | "pts.mk" => do
      let sp ← pSpace; let fs ← many nat; let xs ← many rat
      if xs.length ≠ prodL fs then throw "mk:cells"
      return showE showPoints (Points.mk? sp fs xs)
    | "pts.coords" => do
      let p ← pPoints
      return " ; ".intercalate (p.coordinates.map fun c => s!"{c.1} {showList showRat c.2.flatten}")
    | "pts.from" => do
      let cs ← many (do
        let n ← next; let sh ← many nat; let w ← nat; let xs ← many rat
        if xs.length ≠ prodL sh * w then throw "from:cells"
        pure (⟨n, sh, w, chunkRows w (prodL sh) xs⟩ : Coord Rat))
      return showE showPoints (Points.fromCoordinates cs)
    | "pts.get" => do
      let p ← pPoints; let ix ← pIndex
      return withAlt (showE showPoints (p.getitem ix))
        ((altIndex (p.shape.length + 1) ix).map fun jx => showE showPoints (p.getitem jx))
    | "pts.set" => do
      let p ← pPoints; let ix ← pIndex; let q ← pPoints
      return withAlt (showE showPoints (p.setitem ix q))
        ((altIndex (p.shape.length + 1) ix).map fun jx => showE showPoints (p.setitem jx q))
    | "obj.run" => do
      -- one object: assignments, type conversions, requires_grad changes; reply = final state
      let t ← pTPoints
      let ms ← many (do
        let k ← next
        match k with
        | "S" => do let ix ← pIndex; let q ← pTPoints; pure (Mut.set ix q)
        | "T" => do pure (Mut.to (← pDType))
        | "G" => do pure (Mut.setGrad (← bool))
        | _ => throw s!"mut:{k}")
      -- conversions that round are outside the model
      let rec ok : TPoints Rat → List (Mut Rat) → Bool
        | _, [] => true
        | cur, .to d :: r => cur.pts.data.all (·.all (fits d)) && ok ⟨d, cur.pts⟩ r
        | cur, .set ix q :: r =>
          q.pts.data.all (·.all (fits cur.dtype)) &&
            (match cur.setitem ix q with | .ok n => ok n r | .error _ => true)
        | cur, _ :: r => ok cur r
      match (Obj.run ⟨t, false⟩ ms) with
      | .ok o => if ok t ms then return s!"{showT (.ok o.t)} grad={o.grad}" else return "unmodelled"
      | .error .unmodelled => return "unmodelled"
      | .error e => return s!"err:{e.name}"
    | "pts.live" => do
      -- one object, a sequence of assignments applied one after the other (value semantics)
      let p ← pPoints
      let ms ← many (do let ix ← pIndex; let q ← pPoints; pure (ix, q))
      return showE showPoints (ms.foldlM (fun acc (m : Index × Points Rat) => acc.setitem m.1 m.2) p)
    | "dt.join" => do let p ← pTPoints; let q ← pTPoints; return showT (p.join q)
    | "dt.cat" => do let p ← pTPoints; let q ← pTPoints; return showT (p.cat q)
    | "dt.joined" => do
      let ps ← many pTPoints
      return withAlt (showT (TPoints.joined ps)) (some (showT (TPoints.joinedTotal ps)))
    | "dt.arith" => do
      let o ← next; let p ← pTPoints; let q ← pTPoints
      -- torch converts both operands to the promoted type first: comparable only if nothing rounds there
      let t := promote p.dtype q.dtype
      let exact := p.pts.data.all (·.all (fits t)) && q.pts.data.all (·.all (fits t))
      let r ← match o with
        | "add" => pure (p.arith (· + ·) q)
        | "sub" => pure (p.arith (· - ·) q)
        | "mul" => pure (p.arith (· * ·) q)
        | _ => throw s!"dt.arith:{o}"
      match r with
      | .ok _ => return (if exact then showT r else "unmodelled")
      | _ => return showT r
    | "dt.set" => do let p ← pTPoints; let ix ← pIndex; let q ← pTPoints; return showT (p.setitem ix q)
    | "dt.get" => do let p ← pTPoints; let ix ← pIndex; return showT (p.getitem ix)
    | "dt.repeat" => do let p ← pTPoints; let ns ← many int; return showT (p.repeat ns)
    | "dt.from" => do
      let cs ← many (do
        let t ← pDType; let n ← next; let sh ← many nat; let w ← nat; let xs ← many rat
        if xs.length ≠ prodL sh * w then throw "from:cells"
        pure (t, (⟨n, sh, w, chunkRows w (prodL sh) xs⟩ : Coord Rat)))
      return showT (TPoints.fromCoordinates cs)
    | "pts.arith" => do
      let o ← next; let p ← pPoints; let q ← pPoints
      match arithFn o with
      | none => throw s!"arith:{o}"
      | some f =>
        -- decide acceptance without evaluating the cells (a huge exponent must not be evaluated)
        let chk := p.arith (fun a _ => a) q
        match chk with
        | .ok _ => if arithOk o q then return showE showPoints (p.arith f q) else return "unmodelled"
        | _ => return showE showPoints chk
    | "pts.cat" => do let p ← pPoints; let q ← pPoints; return showE showPoints (p.cat q)
    | "pts.join" => do let p ← pPoints; let q ← pPoints; return showE showPoints (p.join q)
    | "pts.joined" => do
      let ps ← many pPoints
      return withAlt (showE showPoints (Points.joined ps)) (some (showE showPoints (Points.joinedTotal ps)))
    | "pts.repeat" => do let p ← pPoints; let ns ← many int; return showE showPoints (p.repeat ns)
    | "pts.unsq" => do let p ← pPoints; let d ← int; return showE showPoints (p.unsqueeze d)
    | "pts.eq" => do let p ← pPoints; let q ← pPoints; return toString (p.beq q)
    | "pts.len" => do let p ← pPoints; return toString p.len
    | "pts.isempty" => do let p ← pPoints; return toString p.isempty
    | "old.paired" => do
      let p ← pPoints; let rows ← many nat; let cols ← many nat
      match p.getitemPairedOld rows cols with
      | some d => return showList showRat d.flatten
      | none => return "err:index"
    | "old.inttuple" => do
      let p ← pPoints; let is ← many int
      return showE showPoints (p.getitemIntTupleOld is)
    | _ => return "bad-op" : P String).run' (tokens line)
  match r with
  | .ok s => s
  | .error e => s!"bad-op {e}"

def main : IO Unit := mainLoop step
