import TPV.Model.Proto
import TPV.Model.SamplerState
open TPV TPV.Proto TPV.SamplerState

/-
  requests
    static <nonempty:0|1> <start> <#ops> <op>*      start = `plain` | `static <k>` ; k = `inf` | nat
        op = `s <dev:nat>` | `m <k>` | `q <kind:nat>` (read-only question, no reply token)
      reply: one token per sample call: `<id>` (cached set returned) or `<id>@<dev>` (underlying sampler
      invoked with that device); every token is followed by `:<dev>` = device of the returned set
    spec <f0> <k> <#outs> <out>*                    -> `specNext f0 outs k`
    adapt <n> <ratio> <#calls> <call>*              call = `none` | `l <#loss> <rat>*`
    adaptr <n> <#calls> <call>*                     call = `none` | `l <#loss> <rat>* <#u> <rat>*`
      reply: per call the row origins `t.i t.i …` or `err:shape`, calls separated by ` | `
-/

def interval : P (Option Nat) := do
  let t ← next
  if t = "inf" then pure none else
  match t.toNat? with
  | some n => pure (some n)
  | none => throw s!"interval:{t}"

def op : P Op := do
  let t ← next
  match t with
  | "s" => do let d ← nat; pure (.sample d)
  | "m" => do let k ← interval; pure (.makeStatic k)
  | "q" => do let k ← nat; pure (.query k)
  | _ => throw s!"op:{t}"

def showOut (o : Out) : String :=
  (if o.drawn then s!"{o.id}@{o.dev}" else s!"{o.id}") ++ s!":{o.dev}"

def showRows (r : Except AErr (List Row)) : String :=
  match r with
  | .ok rows => showList (fun (p : Row) => s!"{p.1}.{p.2}") rows
  | .error .shape => "err:shape"

def thrCallP (ratio : Rat) : P (Option (List Rat × List Rat)) := do
  let t ← next
  match t with
  | "none" => pure none
  | "l" => do let l ← many rat; pure (thrCall ratio (some l))
  | _ => throw s!"call:{t}"

def randCallP : P (Option (List Rat × List Rat)) := do
  let t ← next
  match t with
  | "none" => pure none
  | "l" => do let l ← many rat; let u ← many rat; pure (some (l, u))
  | _ => throw s!"call:{t}"

def step' (line : String) : String :=
  let r : Except String String := (do
    let o ← next
    match o with
    | "static" => do
      let ne ← bool
      let st ← next
      let w ← (match st with
        | "plain" => pure (⟨0, ne, none⟩ : World)
        | "static" => do let k ← interval; pure (⟨0, ne, some ⟨0, none, k⟩⟩ : World)
        | _ => throw s!"start:{st}")
      let ops ← many op
      if !(← atEnd) then throw "trailing"
      return showList showOut (run w ops)
    | "spec" => do
      let f0 ← nat; let k ← interval; let outs ← many nat
      if !(← atEnd) then throw "trailing"
      return toString (specNext f0 outs k)
    | "adapt" => do
      let n ← nat; let ratio ← rat
      if n = 0 then return "err:n0"
      let calls ← many (thrCallP ratio)
      if !(← atEnd) then throw "trailing"
      return " | ".intercalate ((adaptiveRun (adaptive0 n) calls).map showRows)
    | "adaptr" => do
      let n ← nat
      if n = 0 then return "err:n0"
      let calls ← many randCallP
      if !(← atEnd) then throw "trailing"
      return " | ".intercalate ((adaptiveRun (adaptive0 n) calls).map showRows)
    | _ => return "bad-op" : P String).run' (tokens line)
  match r with
  | .ok s => s
  | .error e => s!"bad-op {e}"

def main : IO Unit := mainLoop step'
