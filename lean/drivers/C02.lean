import TPV.Model.Proto
import TPV.Model.Sampler
open TPV TPV.Proto TPV.Sampler

/-!
  line protocol of C02 (prefix notation)
    dom  ::= P <var> <id> <ndeps> <dep>* (interval)  |  Q … (other primitive)  |  B <dom> <dom>  |  X <dom> <dom>  |  M <dom> <id> <ndeps> <dep>*
    smp  ::= L <u|g|n|l|e> <dom> <n> <filt 0|1>  |  D <var> <id> <m>  |  * <smp> <smp>  |  + <smp> <smp>
           |  & <smp> <smp>  |  T <smp>
    request:  sample <k> <nvars> <var>* <smp>
    reply:    ok len=<len> vars=<v,...> rows=<N> | <row> | <row> ...      or  err:<kind>
    row:      cells separated by blanks:  <var>:L<leaf>#<j>:<own|other>   <var>:D<id>#<j>
              <cell>:M<id>:<own|other>   @<i> (external parameter row i)
-/

partial def pDom : P Dom := do
  let t ← next
  match t with
  | "P" => do let v ← next; let id ← nat; let ds ← many next; pure (.prim v id ds)
  -- a primitive that is not an Interval (circle, ...): the same rows; only ExponentialIntervalSampler refuses it
  | "Q" => do let v ← next; let id ← nat; let ds ← many next; pure (.prim v id ds)
  | "B" => do let a ← pDom; let b ← pDom; pure (.bool a b)
  | "X" => do let a ← pDom; let b ← pDom; pure (.prod a b)
  | "M" => do let d ← pDom; let id ← nat; let ds ← many next; pure (.move d id ds)
  | _ => throw s!"dom:{t}"

def pKind : P LeafKind := do
  let t ← next
  match t with
  | "u" => pure .uniform | "g" => pure .grid | "n" => pure .gaussian | "l" => pure .lhs | "e" => pure .expInterval
  | _ => throw s!"kind:{t}"

partial def pS : P S := do
  let t ← next
  match t with
  | "L" => do
    let k ← pKind
    -- `assert isinstance(domain, Interval)` in ExponentialIntervalSampler.__init__
    if k = .expInterval && (← get).head? != some "P" then throw "err:not-interval"
    let d ← pDom; let n ← nat; let f ← bool; pure (.leaf k d n f)
  | "D" => do let v ← next; let id ← nat; let m ← nat; pure (.data v id m)
  | "*" => do let a ← pS; let b ← pS; pure (.prod a b)
  | "+" => do let a ← pS; let b ← pS; pure (.sum a b)
  | "&" => do let a ← pS; let b ← pS; pure (.append a b)
  | "T" => do let s ← pS; pure (.static s)
  | _ => throw s!"smp:{t}"

/-- cells of a row; a marker is printed as a suffix `:M<id>:<own|other>` of the following cells of its variables
    (innermost motion first) -/
partial def showRowAux (pending : List (Nat × Nat × Bool)) : Row → List String
  | .nil => []
  | .ext i _ => [s!"@{i}"]
  | .cons (.marker id vs g) r => showRowAux ((id, vs.length, g.sub r) :: pending) r
  | .cons p r =>
    let base := match p with
      | .prim v l j g => s!"{v}:L{l}#{j}:{if g.sub r then "own" else "other"}"
      | .datum v id j => s!"{v}:D{id}#{j}"
      | .marker _ _ _ => ""
    let suffix := String.join (pending.map fun (id, _, f) => s!":M{id}:{if f then "own" else "other"}")
    let pending' := (pending.map fun (id, c, f) => (id, c - 1, f)).filter fun (_, c, _) => c > 0
    (base ++ suffix) :: showRowAux pending' r

def showRow (r : Row) : List String := showRowAux [] r

/-- what the real code rejects before any row is produced -/
def disjoint (a b : List Var) : Bool := a.all (· ∉ b)

def check : S → List Var → Option String
  | .leaf kind d n _, pv =>
    -- n_points = 0 is accepted by the code (no rows) except by the Gaussian sampler (`None[:0]`)
    if n = 0 && kind = .gaussian then some "err:n0"
    else if !(d.deps.all (· ∈ pv)) then some "err:missing-param"
    else if !(disjoint d.vars pv) then some "err:overlap"
    else none
  | .data v _ _, pv => if v ∈ pv then some "err:overlap" else none
  | .prod a b, pv => (check b pv).orElse fun _ => check a (b.vars ++ pv)
  | .sum a b, pv => ((check a pv).orElse fun _ => check b pv).orElse fun _ =>
      if a.vars = b.vars then none else some "err:space"
  | .append a b, pv => ((check a pv).orElse fun _ => check b pv).orElse fun _ =>
      if disjoint a.vars b.vars then none else some "err:overlap"
  | .static s, pv => check s pv

def showErr : Err → String
  | .shape => "err:shape" | .noValid => "err:no-valid" | .notImplemented => "err:not-implemented"

def step (line : String) : String :=
  let r : Except String String := (do
    let op ← next
    match op with
    | "sample" => do
      -- a sampler with neither n_points nor a density cannot sample (token `none` in place of n)
      if (tokens line).contains "none" then return "err:no-count"
      let k ← nat
      let vs ← many next
      let s ← pS
      if k > 0 && vs.isEmpty then return "err:params-without-space"
      let ps : List Row := (List.range k).map fun i => Row.ext i vs
      match check s (paramVars ps) with
      | some e => return e
      | none =>
        let o : Oracle := { choose := fun i => i % 2 == 0, acc := fun _ _ => true, fuel := 1 }
        match s.sample o ps with
        | .error e => return showErr e
        | .ok rows =>
          let vars := match rows with | [] => [] | r :: _ => r.vars
          return s!"ok len={s.len} vars={",".intercalate vars} rows={rows.length} | " ++
            " | ".intercalate (rows.map fun r => " ".intercalate (showRow r))
    | _ => return "bad-op" : P String).run' (tokens line)
  match r with
  | .ok s => s
  | .error e => if e.startsWith "err:" then e else s!"bad-op {e}"

def main : IO Unit := mainLoop step
