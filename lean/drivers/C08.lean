import TPV.Model.Proto
import TPV.Model.Net
open TPV TPV.Proto TPV.Net

/-!
  Line protocol of C08 (all numbers of forward passes are IEEE doubles sent as decimal bit patterns).

  space  := n {name dim}*
  lin    := out in {out*in floats, row per output feature} {out floats}
  quad   := out in {W1} {W2} {bias}
  act    := tanh | relu | sigmoid | sin | id | relun <float> | adaptive <float a> <float scaling> act
  model  := fcn space space nHidden {lin act}* lin
          | harm space space minF maxF nHidden {lin act}* lin
          | poly space space deg res act nLayers {in out {in*out*deg floats}}*
          | qres fix space space nHidden {quad act}* quad
          | ritz space space lin nBlocks {lin lin}* lin
          | norm space n {lo hi}*            (coefficients computed from the box, in double)
          | diag space n {weight bias}*      (the layer's current parameters)
          | seq n model*                     (n ≥ 1)
          | par n model*
  pts    := space nAxes {axis}* nRows {nCols float*}*

  requests:  apply model pts   →  ok | space | shape | rows      or  err:names / err:shape / err:construct
             spaces model      →  valid | inS | outS
             normq n {lo hi}*  →  exact rational (weight bias)*    or  err:degenerate
-/

def pSpace : P Space := many (do let n ← next; let d ← nat; pure (n, d))

def pMatrix (rows cols : Nat) : P (List (List Float)) := do
  let mut out := []
  for _ in [0:rows] do
    let mut r := []
    for _ in [0:cols] do
      r := (← float) :: r
    out := r.reverse :: out
  pure out.reverse

def pVec (n : Nat) : P (List Float) := do
  let mut r := []
  for _ in [0:n] do
    r := (← float) :: r
  pure r.reverse

def pLin : P (Lin Float) := do
  let o ← nat; let i ← nat
  let W ← pMatrix o i
  let b ← pVec o
  pure ⟨W, b⟩

def pQuad : P (Quad Float) := do
  let o ← nat; let i ← nat
  let W1 ← pMatrix o i
  let W2 ← pMatrix o i
  let b ← pVec o
  pure ⟨W1, W2, b⟩

def relu (x : Float) : Float := if x > 0 then x else 0

partial def pAct : P (Float → Float) := do
  let t ← next
  match t with
  | "tanh" => pure Float.tanh
  | "relu" => pure relu
  | "sigmoid" => pure fun x => 1 / (1 + Float.exp (-x))
  | "sin" => pure Float.sin
  | "id" => pure id
  | "relun" => do let n ← float; pure fun x => Float.pow (relu x) n
  | "adaptive" => do
    let a ← float; let s ← float; let inner ← pAct
    pure fun x => inner (s * a * x)
  | _ => throw s!"act:{t}"

def pHidden {α} (pl : P α) : P (List (α × (Float → Float))) :=
  many (do let l ← pl; let a ← pAct; pure (l, a))

def piF : Float := 3.141592653589793

partial def pModel : P (Option (Model Float)) := do
  let t ← next
  match t with
  | "fcn" => do
    let i ← pSpace; let o ← pSpace; let h ← pHidden pLin; let l ← pLin
    pure (some (FCN i o h l))
  | "harm" => do
    let i ← pSpace; let o ← pSpace; let mn ← nat; let mx ← nat; let h ← pHidden pLin; let l ← pLin
    pure (some (HarmonicFCN Float.cos Float.sin piF Nat.toFloat i o mn mx h l))
  | "poly" => do
    let i ← pSpace; let o ← pSpace; let deg ← nat; let res ← bool; let a ← pAct
    let layers ← many (do
      let ni ← nat; let no ← nat
      let mut L := []
      for _ in [0:ni] do
        L := (← pMatrix no deg) :: L
      pure L.reverse)
    pure (some (PolynomialFCN Nat.toFloat i o deg res a layers))
  | "qres" => do
    let fx ← bool; let i ← pSpace; let o ← pSpace; let h ← pHidden pQuad; let l ← pQuad
    pure (some (if fx then QRES i o h l else QRESOld i o h l))
  | "ritz" => do
    let i ← pSpace; let o ← pSpace; let li ← pLin
    let bl ← many (do let a ← pLin; let b ← pLin; pure (a, b))
    let lo ← pLin
    pure (some (DeepRitzNet relu i o li bl lo))
  | "norm" => do
    let s ← pSpace
    let box ← many (do let a ← float; let b ← float; pure (a, b))
    pure (some (NormalizationLayer s box))
  | "diag" => do
    let s ← pSpace
    let cs ← many (do let a ← float; let b ← float; pure (a, b))
    pure (some (DiagLayer s cs))
  | "seq" => do
    let ms ← many pModel
    match ms with
    | [] => pure none          -- `Sequential()` : IndexError at construction
    | m :: rest =>
      match m, rest.mapM id with
      | some m, some rest => pure (some (Model.seq m rest))
      | _, _ => pure none
  | "par" => do
    let ms ← many pModel
    match ms.mapM id with
    | some ms => pure (some (Model.par ms))
    | none => pure none
  | _ => throw s!"model:{t}"

def pPts : P (Pts Float) := do
  let s ← pSpace
  let shape ← many nat
  let rows ← many (many float)
  pure ⟨s, shape, rows⟩

def showSpace (s : Space) : String :=
  " ".intercalate (toString s.length :: s.map fun (n, d) => s!"{n} {d}")

def showPts (p : Pts Float) : String :=
  s!"ok | {showSpace p.space} | {showNats p.shape} | " ++
    " ; ".intercalate (p.rows.map fun r => showList showFloat r)

def step (line : String) : String :=
  let r : Except String String := (do
    let op ← next
    match op with
    | "apply" => do
      let m ← pModel
      let p ← pPts
      match m with
      | none => return "err:construct"
      | some m =>
        if !m.valid then return "err:construct"
        match m.apply p with
        | some o => return showPts o
        | none =>
          -- a rejection that does not depend on the rows is a rejection of the names
          match m.apply { p with rows := [] } with
          | none => return "err:names"
          | some _ => return "err:shape"
    | "spaces" => do
      let m ← pModel
      match m with
      | none => return "err:construct"
      | some m => return s!"{if m.valid then 1 else 0} | {showSpace m.inS} | {showSpace m.outS}"
    | "normq" => do
      let box ← many (do let a ← rat; let b ← rat; pure (a, b))
      if box.any (fun (b : Rat × Rat) => b.1 == b.2) then return "err:degenerate"
      return showList (fun (b : Rat × Rat) =>
        let c := normCoeff b.1 b.2
        s!"{showRat c.1} {showRat c.2}") box
    | _ => return "bad-op" : P String).run' (tokens line)
  match r with
  | .ok s => s
  | .error e => s!"bad-op {e}"

def main : IO Unit := mainLoop step
