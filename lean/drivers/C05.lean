import TPV.Model.GeomTerm
import TPV.Model.GeomSdf
open TPV TPV.Proto TPV.Geom

def showOB : Option Bool → String
  | some true => "1" | some false => "0" | none => "none"

def step (line : String) : String :=
  let r : Except String String := (do
    let op ← next
    match op with
    | "contains" | "bdry" => do
      let atol ← rat; let rtol ← rat; let batol ← rat
      let d ← parseDom rat
      let pts ← parseEnv rat
      let ρ ← parseEnv rat
      let τ : Tol Rat := ⟨atol, rtol, batol⟩
      let onB := op == "bdry"
      let res := containsAux τ onB d pts ρ
      let mg := margin τ onB d pts ρ
      return s!"{showOB res} {match mg with | some m => showRat m | none => "none"}"
    | "sd" => do
      -- signed CSG margin (TPV.Model.GeomSdf; soundness: Props/C01.lean sd_pos_mem / sd_neg_not_mem)
      let d ← parseDom rat
      let pts ← parseEnv rat
      let ρ ← parseEnv rat
      return (match sd d pts ρ with | some m => showRat m | none => "none")
    | "freevars" => do
      let d ← parseDom rat
      return " ".intercalate d.freeVars
    | _ => return "bad-op" : P String).run' (tokens line)
  match r with
  | .ok s => s
  | .error e => s!"bad-op {e}"

def main : IO Unit := mainLoop step
