import TPV.Model.GeomTerm
import TPV.Model.GeomSdf
import TPV.Model.GeomExtra
import TPV.Model.GeomKleene
open TPV TPV.Proto TPV.Geom TPV.GeomX

def minAbs (l : List Rat) : String :=
  match l.map (fun x => if x < 0 then -x else x) with
  | [] => "none"
  | x :: xs => showRat (xs.foldl min x)

def parseV3 : P (V3 Rat) := do let a ← rat; let b ← rat; let c ← rat; pure (a, b, c)
def parseTri : P (Tri Rat) := do let a ← parseV3; let b ← parseV3; let c ← parseV3; pure (a, b, c)

def showOB : Option Bool → String
  | some true => "1" | some false => "0" | none => "none"

def step (line : String) : String :=
  let r : Except String String := (do
    let op ← next
    match op with
    | "contains" | "bdry" => do
      let atol ← rat; let rtol ← rat; let batol ← rat
      let d ← parseDom rat
      let pts ← parseEnv rat
      let ρ ← parseEnv rat
      let τ : Tol Rat := ⟨atol, rtol, batol⟩
      let onB := op == "bdry"
      let res := containsAux τ onB d pts ρ
      let mg := margin τ onB d pts ρ
      return s!"{showOB res} {match mg with | some m => showRat m | none => "none"}"
    | "kleene" => do
      -- leaf-by-leaf decision of `D.boundary._contains` (TPV.Model.GeomKleene; soundness: Props/C05Kleene.lean
      -- kleeneBdry_sound / kleeneBdry_sound_per_leaf): low = a quarter, high = four times the tolerances
      let atol ← rat; let rtol ← rat; let batol ← rat
      let mg ← rat
      let d ← parseDom rat
      let pts ← parseEnv rat
      let ρ ← parseEnv rat
      let τ : Tol Rat := ⟨atol, rtol, batol⟩
      let lo : Tol Rat := ⟨atol / 4, rtol / 4, batol / 4⟩
      let hi : Tol Rat := ⟨atol * 4, rtol * 4, batol * 4⟩
      return (match kleeneBdry τ lo hi mg d pts ρ with | some true => "1" | some false => "0" | none => "u")
    | "sd" => do
      -- signed CSG margin (TPV.Model.GeomSdf; soundness: Props/C01.lean sd_pos_mem / sd_neg_not_mem)
      let d ← parseDom rat
      let pts ← parseEnv rat
      let ρ ← parseEnv rat
      return (match sd d pts ρ with | some m => showRat m | none => "none")
    | "pprod" => do
      -- Point × … × Point [× D]: reply `answer  margin-of-the-point-tests  margin-of-D`
      let atol ← rat; let rtol ← rat; let batol ← rat
      let ps ← many (do let v ← next; let p ← parsePF rat; let a ← rat; pure (v, p, a))
      let hasRest ← bool
      let rest ← if hasRest then (do pure (some (← parseDom rat))) else pure none
      let pts ← parseEnv rat
      let ρ ← parseEnv rat
      let τ : Tol Rat := ⟨atol, rtol, batol⟩
      let res := PProd.contains τ ⟨ps, rest⟩ pts ρ
      let psl := ps.flatMap fun (v, p, a) => pointSlacks a rtol ((pts.get v).getD []) (p.f (pts ++ ρ))
      let dm := match rest with
        | some D => (match margin τ false D pts ρ with | some m => showRat m | none => "none")
        | none => "inf"
      return s!"{showOB res} {minAbs psl} {dm}"
    | "rot3" | "rot3bdry" => do
      let atol ← rat; let rtol ← rat; let batol ← rat
      let v ← next
      let d ← parseDom rat
      let m ← parsePF rat
      let c ← parsePF rat
      let pts ← parseEnv rat
      let ρ ← parseEnv rat
      let τ : Tol Rat := ⟨atol, rtol, batol⟩
      let onB := op == "rot3bdry"
      let res := rot3Contains τ onB v d m c pts ρ
      let mg := match pts.get v, m.f (pts ++ ρ), c.f (pts ++ ρ) with
        | some [x, y, z], [m00, m01, m02, m10, m11, m12, m20, m21, m22], [cx, cy, cz] =>
          let s := solve3 m00 m01 m02 m10 m11 m12 m20 m21 m22 (x - cx) (y - cy) (z - cz)
          margin τ onB d [(v, [s.1 + cx, s.2.1 + cy, s.2.2 + cz])] (pts.filter (fun b => b.1 != v) ++ ρ)
        | _, _, _ => none
      return s!"{showOB res} {match mg with | some m => showRat m | none => "none"}"
    | "mesh" => do
      let solids ← many (many parseTri)
      let cavities ← many (many parseTri)
      let v ← next
      let pts ← parseEnv rat
      let m : Mesh Rat := ⟨solids, cavities⟩
      let res := meshContains m v pts
      let mg := match pts.get v with
        | some [x, y, z] => minAbs (meshSlacks m (x, y, z))
        | _ => "none"
      return s!"{showOB res} {mg}"
    | "freevars" => do
      let d ← parseDom rat
      return " ".intercalate d.freeVars
    | _ => return "bad-op" : P String).run' (tokens line)
  match r with
  | .ok s => s
  | .error e => s!"bad-op {e}"

def main : IO Unit := mainLoop step
