import TPV.Model.Proto
import TPV.Model.DataLoader
open TPV TPV.Proto TPV.DataLoader

def showBatches (bs : List (List Nat)) : String :=
  " | ".intercalate (bs.map showNats)

def showPairBatches (bs : List (List Nat × List Nat)) : String :=
  " | ".intercalate (bs.map fun b => showNats b.1 ++ " : " ++ showNats b.2)

def step (line : String) : String :=
  let r : Except String String := (do
    let op ← next
    match op with
    | "pts" => do
      let n ← nat; let bs ← nat; let d ← bool
      if bs = 0 then return "err:batch0"
      return s!"{ptsLen n bs d} | {showBatches (ptsPass n bs d)}"
    | "shared" => do
      let nB ← nat; let rB ← int; let nT ← nat; let rT ← int
      if rB = 0 || rT = 0 || nB = 0 || nT = 0 then return "err:size0"
      let bB := effBatch nB rB; let bT := effBatch nT rT
      return s!"{sharedLen nB bB nT bT} | {showPairBatches (sharedPass nB bB nT bT)}"
    | "unique" => do
      let nB ← nat; let rB ← int; let nT ← nat; let rT ← int
      if rB = 0 || rT = 0 || nB = 0 || nT = 0 then return "err:size0"
      let bB := effBatch nB rB; let bT := effBatch nT rT
      return s!"{uniqueLen nB bB nT bT} | {showPairBatches (uniquePass nB bB nT bT)}"
    | "uniquelast" => do
      -- the per-function layout with the other tail policy (last window = last bs rows); coverage: unique_cover_last
      let nB ← nat; let rB ← int; let nT ← nat; let rT ← int
      if rB = 0 || rT = 0 || nB = 0 || nT = 0 then return "err:size0"
      let bB := effBatch nB rB; let bT := effBatch nT rT
      return s!"{uniqueLen nB bB nT bT} | {showPairBatches (uniquePassWin lastSlice nB bB nT bT)}"
    | "foldinf" => do
      let bs ← many (many rat)
      return showRat (foldInf bs)
    | "foldmean" => do
      let bs ← many (many rat)
      if bs.any (·.isEmpty) then return "err:emptybatch"
      return showRat (foldMean bs)
    | _ => return "bad-op" : P String).run' (tokens line)
  match r with
  | .ok s => s
  | .error e => s!"bad-op {e}"

def main : IO Unit := mainLoop step
