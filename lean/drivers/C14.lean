import TPV.Model.Proto
import TPV.Model.CondWorld
import TPV.Model.CondWorldShared
import TPV.Model.SharedObjects
open TPV TPV.Proto TPV.CondExpr TPV.Cond

/-! line protocol of C14: one history per line
    `run <new|old> <dicts> <ops>`;  dict = many (name raw|wrapped ufun);
    op = `c cid dictRef space net resid params err red static fresh` | `e cid fresh`
    reply: one token per op (`-` constructed, loss, `err:…`, `none`) ` | ` tags of every user dict -/

partial def pe : P (PE Rat) := do
  let t ← next
  match t with
  | "c" => return .const (← rat)
  | "v" => do let n ← next; let i ← nat; return .var n i
  | "+" => do let a ← pe; let b ← pe; return .add a b
  | "-" => do let a ← pe; let b ← pe; return .sub a b
  | "*" => do let a ← pe; let b ← pe; return .mul a b
  | "n" => do let a ← pe; return .neg a
  | _ => throw s!"pe:{t}"

def space : P SpaceL := many (do let n ← next; let d ← nat; pure (n, d))
def named : P (Named Rat) := many (do let n ← next; let v ← many rat; pure (n, v))
def table : P (List (List Rat)) := many (many rat)

def ufun : P (UFun Rat) := do
  let ps ← many next
  let ds ← named
  let es ← many pe
  pure (peUFun ps ds es)

def net : P (Net Rat) := do
  let i ← space; let o ← space; let es ← many pe
  pure (peNet i o es)

def errKind : P ErrKind := do
  match (← next) with
  | "sq" => pure .sq | "id" => pure .ident | "abs" => pure .absSum
  | t => throw s!"err:{t}"

def redKind : P RedKind := do
  match (← next) with
  | "mean" => pure .mean | "sum" => pure .sum | "max" => pure .max
  | t => throw s!"red:{t}"

def op : P (Op Rat) := do
  match (← next) with
  | "c" => do
    let cid ← nat; let dref ← nat; let sp ← space; let n ← net; let res ← ufun; let ps ← named
    let ek ← errKind; let rk ← redKind; let st ← bool; let fresh ← table
    pure (.construct cid dref { net := some n, resid := res, dataFns := [], params := ps, err := ek, red := rk } sp st fresh)
  | "e" => do let cid ← nat; let fresh ← table; pure (.eval cid fresh)
  | t => throw s!"op:{t}"

def interval : P (Option Nat) := do
  let t ← next
  match t with
  | "inf" => pure none
  | t => match t.toNat? with
    | some k => pure (some k)
    | none => throw s!"interval:{t}"

/-- operations of a history with shared sampler objects:
    `m sid static interval` | `c cid dictRef space net resid params err red sid fresh` | `e cid fresh` -/
def opS : P (OpS Rat) := do
  match (← next) with
  | "m" => do let sid ← nat; let st ← bool; let iv ← interval; pure (.mkSampler sid st iv)
  | "c" => do
    let cid ← nat; let dref ← nat; let sp ← space; let n ← net; let res ← ufun; let ps ← named
    let ek ← errKind; let rk ← redKind; let sid ← nat; let fresh ← table
    pure (.construct cid dref { net := some n, resid := res, dataFns := [], params := ps, err := ek, red := rk } sp sid fresh)
  | "e" => do let cid ← nat; let fresh ← table; pure (.eval cid fresh)
  | t => throw s!"opS:{t}"

partial def sexp : P TPV.Shared.SExp := do
  match (← next) with
  | "b" => do pure (.base (← nat))
  | "p" => do let a ← sexp; let b ← sexp; pure (.prod a b)
  | "s" => do let a ← sexp; let b ← sexp; pure (.sum a b)
  | t => throw s!"sexp:{t}"

def iterKey : P TPV.Shared.IterKey := do
  match (← next) with
  | "none" => pure .direct
  | t => match t.toNat? with
    | some k => pure (.step k)
    | none => throw s!"key:{t}"

def showErr : Err → String
  | .missingArg n => s!"err:missing-arg:{n}"
  | .space => "err:space"
  | .shape => "err:shape"
  | .empty => "err:empty"
  | .user => "err:user"
  | .join => "err:join"

def showOut : Out Rat → String
  | .constructed => "-"
  | .loss l => showRat l
  | .failed e => showErr e
  | .noSuchCondition => "none"

/-- library operations interleaved with actions of the USER on their own dicts (`Sum.inr (i, d)`: dict `i` now holds `d`) -/
def runUser (stepF : World Rat → Op Rat → World Rat × Out Rat) (w : World Rat) :
    List (Sum (Op Rat) (Nat × UDict Rat)) → World Rat × List (Nat × Out Rat)
  | [] => (w, [])
  | .inl o :: rest =>
    let s := stepF w o
    let r := runUser stepF s.1 rest
    (r.1, (o.cid, s.2) :: r.2)
  | .inr (i, d) :: rest => runUser stepF { w with dicts := w.dicts.set i d } rest

def step (line : String) : String :=
  let r : Except String String := (do
    let o ← next
    match o with
    | "run" => do
      let mode ← next
      let dicts ← many (many (do
        let n ← next
        let kind ← next
        match kind with
        | "raw" => do pure (n, DEntry.raw (← ufun))          -- the user's plain callable (or constant / number)
        | "wrapped" => do pure (n, DEntry.wrapped (← ufun))  -- the user handed over a UserFunction object
        | "tensor" => do pure (n, DEntry.tensor (← table))   -- a table of values (tensor, or a callable returning a stored tensor)
        | t => throw s!"entry:{t}"))
      -- operations of the library (`c`, `e`) interleaved with actions of the USER on their own dicts
      -- (`u <dict index> <new content>`): the user's action replaces the dict in the world, nothing else
      let ops ← many (do
        let t ← (do match (← get) with
                    | "u" :: _ => pure true
                    | _ => pure false : P Bool)
        if t then do
          let _ ← next
          let i ← nat
          let d ← many (do
            let n ← next
            let kind ← next
            match kind with
            | "raw" => do pure (n, DEntry.raw (← ufun))
            | "wrapped" => do pure (n, DEntry.wrapped (← ufun))
            | "tensor" => do pure (n, DEntry.tensor (← table))
            | t => throw s!"entry:{t}")
          pure (Sum.inr (i, d))
        else do pure (Sum.inl (← op)) : P (Sum (Op Rat) (Nat × UDict Rat)))
      let stepF := if mode == "old" then stepOld else stepNew
      let res := runUser stepF (World.init dicts) ops
      let tags := res.1.dicts.map fun d => " ".intercalate (d.map fun p => p.1 ++ ":" ++ p.2.tag)
      return " ".intercalate (res.2.map fun p => showOut p.2) ++ " | " ++ " ; ".intercalate tags
    | "runs" => do
      let dicts ← many (many (do
        let n ← next
        let kind ← next
        match kind with
        | "raw" => do pure (n, DEntry.raw (← ufun))
        | "wrapped" => do pure (n, DEntry.wrapped (← ufun))
        | "tensor" => do pure (n, DEntry.tensor (← table))
        | t => throw s!"entry:{t}"))
      let ops ← many opS
      let res := runS (WorldS.init dicts) ops
      let outs := (res.2.filter fun r => r.cid.isSome).map fun r => showOut r.out
      -- every condition replayed ALONE on a private sampler that hands it the points it used in company
      let cids := (ops.filterMap OpS.cid?).eraseDups
      let alone := cids.map fun cid =>
        let a := runNew (World.init dicts) (replay cid (samplerDecl ops) ops res.2)
        toString cid ++ ":" ++ ",".intercalate ((outsOf cid a.2).map showOut)
      let tags := res.1.dicts.map fun d => " ".intercalate (d.map fun p => p.1 ++ ":" ++ p.2.tag)
      return " ".intercalate outs ++ " | " ++ " ; ".intercalate tags ++ " | " ++ " ".intercalate alone
    | "lens" => do
      -- `lens <sizes of the base samplers> <expressions sampled at top level, in order>`:
      -- after every sample: rows returned and `len()` of every base object
      let sizes ← many nat
      let es ← many sexp
      let n : Nat → Nat := fun i => sizes.getD i 0
      let rec go (st : TPV.Shared.Lens) : List TPV.Shared.SExp → List String
        | [] => []
        | e :: rest =>
          let r := TPV.Shared.sample n e st 0
          (toString r.2 ++ ":" ++ ",".intercalate ((List.range sizes.length).map fun i => toString (TPV.Shared.lenBase n r.1 i)))
            :: go r.1 rest
      return " ".intercalate (go (fun _ => none) es)
    | "fs" => do
      let ks ← many iterKey
      return showNats (TPV.Shared.fsTrace TPV.Shared.fs0 ks)
    | _ => return "bad-op" : P String).run' (tokens line)
  match r with
  | .ok s => s
  | .error e => s!"bad-op {e}"

def main : IO Unit := mainLoop step
