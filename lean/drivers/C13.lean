import TPV.Model.Proto
import TPV.Model.UserFun
open TPV TPV.Proto TPV.UserFun

/-! line protocol of C13:  `run <nops> <op>…` / `runcopy <nops> <op>…` / `runold <nops> <op>…`  →  `<out> # <digest> ; …`
    ops: nd <dict> | wf fn <names> <dflts> | wd fn <names> <dflts> <names of __wrapped__> <dflts of __wrapped__> |
         wk fn <names> <dflts> <kw-only names> <kw-only defaults dict> | wc fn | we fn <names> <udict|-1> | rw r | sc r | ca r <dict> | cm r <dict> <fallback|-1> <inserts> | cv r <dict> <lens> |
         pe r <dict> | sd r <dict> | rd r <names> | dc r        (lists are length-prefixed)
    `align <names> <dflts>`, `call <names> <defaults-dict> <env-dict>` evaluate single definitions. -/

def pDict : P Dict := many (do let k ← next; let v ← int; pure (k, v))
def pNames : P (List String) := many next

/-- user dicts are addressed by their ordinal; the driver maps ordinals to heap cells -/
def pOp (ud : List Nat) : P (Option Op × Option Callable × Option Mapping) := do
  let t ← next
  match t with
  | "nd" => do let d ← pDict; pure (some (.newDict d), none, none)
  | "wf" => do
    let fn ← nat; let ns ← pNames; let ds ← many int
    pure (some (.wrapFun fn ns ds), some { fn := fn, names := ns, dflts := ds, wrapped := none }, none)
  | "wk" => do
    -- keyword-only parameters: positional names/defaults, then the kw-only names and their defaults
    let fn ← nat; let ns ← pNames; let ds ← many int; let ks ← pNames; let kd ← pDict
    pure (some (.wrapFunKw fn ns ds ks kd), some { fn := fn, names := ns, dflts := ds, wrapped := none, kwnames := ks, kwdflts := kd }, none)
  | "wd" => do
    -- a function decorated with functools.wraps: own signature, then the signature of __wrapped__
    let fn ← nat; let ns ← pNames; let ds ← many int; let ins ← pNames; let ids ← many int
    let c : Callable := { fn := fn, names := ns, dflts := ds, wrapped := some (ins, ids) }
    pure (some (.wrapFun fn c.inspected.1 c.inspected.2), some c, none)
  | "wc" => do let fn ← nat; pure (some (.wrapConst fn), none, none)
  | "we" => do
    let fn ← nat; let ns ← pNames; let c ← int
    if c < 0 then pure (some (.wrapExplicit fn ns none), some { fn := fn, names := ns, dflts := [], wrapped := none }, none)
    else match ud[c.toNat]? with
      | some cell => pure (some (.wrapExplicit fn ns (some cell)), some { fn := fn, names := ns, dflts := [], wrapped := none }, none)
      | none => pure (none, none, none)
  | "rw" => do let r ← nat; pure (some (.rewrap r), none, none)
  | "sc" => do let r ← nat; pure (some (.shallowCopy r), none, none)
  | "ca" => do let r ← nat; let e ← pDict; pure (some (.call r e), none, none)
  | "cv" => do
    let r ← nat; let e ← pDict
    let lens ← many (do let v ← int; let n ← nat; pure (v, n))
    pure (some (.callVec r e lens), none, none)
  | "cm" => do
    -- a call whose argument is a user mapping: entries, what m[k] answers for an absent key (-1: KeyError),
    -- whether that look-up stores the key (defaultdict)
    let r ← nat; let e ← pDict; let fb ← int; let ins ← bool
    pure (some (.call r e), none, some ⟨e, if fb < 0 then none else some fb, ins⟩)
  | "pe" => do let r ← nat; let e ← pDict; pure (some (.partialEval r e), none, none)
  | "sd" => do let r ← nat; let e ← pDict; pure (some (.setDefault r e), none, none)
  | "rd" => do let r ← nat; let ks ← pNames; pure (some (.removeDefault r ks), none, none)
  | "dc" => do let r ← nat; pure (some (.deepcopy r), none, none)
  | _ => throw s!"op:{t}"

def insertSorted (kv : String × Val) : Dict → Dict
  | [] => [kv]
  | h :: t => if kv.1 < h.1 then kv :: h :: t else h :: insertSorted kv t

def sortDict (d : Dict) : Dict := d.foldl (fun acc kv => insertSorted kv acc) []

def showDict (d : Dict) : String :=
  "{" ++ ",".intercalate ((sortDict d).map fun kv => s!"{kv.1}={kv.2}") ++ "}"

def showNames (l : List String) : String := "[" ++ ",".intercalate l ++ "]"

def showErr : Err → String
  | .missingArg => "e:missing" | .keyError => "e:keyerror" | .indexError => "e:index" | .badRef => "e:badref"
  | .valueError => "e:valueerror" | .typeError => "e:typeerror"

def showCanon (params : List String) (kw : Dict) : String :=
  ",".intercalate ((canon params kw).map fun pv =>
    match pv.2 with
    | some v => s!"{pv.1}={v}"
    | none => s!"{pv.1}=?")

/-- the wrapper an op addresses (to print a value in the declaration order of its parameters) -/
def opRef : Op → Option Nat
  | .call r _ => some r | .partialEval r _ => some r | .callVec r _ _ => some r | _ => none

def showArg : Arg → String
  | .row v => s!"r{v}"
  | .whole b => match b with
    | [] => "w?x0"
    | v :: _ => s!"w{v / 1000}x{b.length}"

/-- one invocation, arguments in the declaration order of the parameters -/
def showInvocation (params : List String) (args : List (String × Arg)) : String :=
  ",".intercalate (params.map fun p =>
    match args.lookup p with
    | some a => s!"{p}={showArg a}"
    | none => s!"{p}=?")

def showOut (h : Heap) (op : Op) (ud : List Nat) (fns : List (Nat × Callable)) : Out → String
  | .unit => "u"
  | .dict _ => s!"U{ud.length}"
  | .wrapper r => s!"w{r}"
  | .value fn kw =>
    -- what the invoked callable observes: Python binds `**kw` against ITS signature (pyBind)
    match fns.lookup fn with
    | some c =>
      match alignDefaults c.names c.dflts with
      | some own0 =>
        let own := dupdate own0 c.kwdflts
        match pyBind c.params own kw with
        | .ok bs => s!"v{fn}/{bs.length}(" ++ ",".intercalate (bs.map fun b => s!"{b.1}={b.2}") ++ ")"
        | .error e => showErr e
      | none => "e:index"
    | none =>
      match (opRef op).bind (h.ws[·]?) with
      | some u => s!"v{fn}/{kw.length}({showCanon u.params kw})"
      | none => s!"v{fn}/{kw.length}(?)"
  | .const fn => s!"k{fn}"
  | .batch fn rows =>
    match (opRef op).bind (h.ws[·]?) with
    | some u => s!"b{fn}/{rows.length}[" ++ "|".intercalate (rows.map (showInvocation u.params)) ++ "]"
    | none => s!"b{fn}/{rows.length}[?]"
  | .err e => showErr e

def showWrapper (h : Heap) (i : Nat) (u : UF) : String :=
  match h.dicts[u.cell]? with
  | some d =>
    s!"W{i}={u.fn}:{if u.callable then "c" else "k"}:{showNames u.params}:{showDict (d.filter fun kv => u.params.contains kv.1)}:{showNames (necessary u.params d)}:{showNames (optional u.params d)}"
  | none => s!"W{i}=dangling"

def digest (h : Heap) (ud : List Nat) : String :=
  let ws := (List.range h.ws.length).filterMap fun i => (h.ws[i]?).map (showWrapper h i)
  let ds := (List.range ud.length).filterMap fun j =>
    (ud[j]?).bind fun c => (h.dicts[c]?).map fun d => s!"U{j}={showDict d}"
  "|".intercalate (ws ++ ds)

partial def runOps (stp : Heap → Op → Heap × Out) : Nat → Heap → List Nat → List (Nat × Callable) → List String → P (List String)
  | 0, _, _, _, acc => pure acc.reverse
  | n+1, h, ud, fns, acc => do
    match (← pOp ud) with
    | (none, _, _) => pure (("e:badref # " ++ digest h ud) :: acc).reverse
    | (some op, c?, some m) =>
      -- call with a user mapping: `callM` (contains before getitem), the mapping afterwards is part of the reply
      let _ := c?
      let (o, m') : Out × Mapping :=
        match opRef op with
        | some r =>
          match h.look r with
          | some (u, d) =>
            match callM u.params d m with
            | (.ok kw, m') => (if u.callable then .value u.fn kw else .const u.fn, m')
            | (.error e, m') => (.err e, m')
          | none => (.err .badRef, m)
        | none => (.err .badRef, m)
      let line := showOut h op ud fns o ++ " M" ++ showDict m'.stored ++ " # " ++ digest h ud
      runOps stp n h ud fns (line :: acc)
    | (some op, c?, none) =>
      let fns' := match c? with | some c => (c.fn, c) :: fns | none => fns
      let (h', o) := stp h op
      let ud' := match o with | .dict c => ud ++ [c] | _ => ud
      let line := showOut h op ud fns' o ++ " # " ++ digest h' ud'
      runOps stp n h' ud' fns' (line :: acc)

def step1 (line : String) : String :=
  let r : Except String String := (do
    let op ← next
    match op with
    | "run" => do
      let n ← nat
      let ls ← runOps step n Heap.empty [] [] []
      return " ; ".intercalate ls
    | "runcopy" => do
      -- the constructor policy that copies its containers (TPV.UserFun.stepCopy)
      let n ← nat
      let ls ← runOps stepCopy n Heap.empty [] [] []
      return " ; ".intercalate ls
    | "runold" => do
      let n ← nat
      let ls ← runOps stepOld n Heap.initOld [] [] []
      return " ; ".intercalate ls
    | "align" => do
      let ns ← pNames; let ds ← many int
      match alignDefaults ns ds with
      | some d => return showDict d ++ " " ++ showNames (necessary ns d)
      | none => return "e:index"
    | "call" => do
      let ns ← pNames; let d ← pDict; let e ← pDict
      match call ns d e with
      | .ok kw => return s!"{kw.length}({showCanon ns kw})"
      | .error e => return showErr e
    | _ => return "bad-op" : P String).run' (tokens line)
  match r with
  | .ok s => s
  | .error e => s!"bad-op {e}"

def main : IO Unit := mainLoop step1
