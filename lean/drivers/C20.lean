import TPV.Model.Proto
import TPV.Model.Fourier
open TPV TPV.Proto TPV.Fourier

/-! line protocol of C20 (all reals are IEEE doubles transported as the decimal value of their bit pattern)

  layer <shape> C <modes> lin skip <kern> <W> <b> <x>
      shape, modes : length-prefixed nat lists; kern: 2·Πmodes·C floats, row-major (k…, c, re/im);
      W: C·C floats (row c = output channel) or empty; b: C floats or empty; x: ΠN·C floats, row-major (n…, c)
      reply: ΠN·C floats = `Fourier.layer` evaluated at every grid point / channel
  fno <shape> Cin C Cout <upW> <upb> nLayers (<modes> lin skip <kern> <W> <b> act)* <downW> <downb> <x>
      reply: ΠN·Cout floats.  Layer outputs are tabulated between the layers (evaluation strategy only).
  fnonamed fix|select <src vars> <dst vars> <shape> … as fno …   (vars: n name dim name dim …)
      the input has vdim(src) channels laid out by `src`; `fix` = Model._fix_points_order to the input space `dst`,
      `select` = points[..., dst names] (Parallel); reply as fno, or err:names (ValueError / KeyError)
  prog lin skip
      reply: the contents of the `points` and `kernel` buffers after `forwardProg` and the returned
      value, as symbolic terms
-/

def nan : Float := 0.0 / 0.0

def prod (l : List Nat) : Nat := l.foldl (· * ·) 1

/-- row-major flat index of a multi-index (axes 0 …) -/
def flatIdx (shape : List Nat) (k : Idx) : Nat :=
  (shape.zipIdx.foldl (fun acc (N, i) => acc * N + k i) 0)

/-- multi-index of a flat index -/
def unflat (shape : List Nat) (f : Nat) : Idx :=
  let rec go : List (Nat × Nat) → Nat → Idx → Idx
    | [], _, k => k
    | (N, i) :: rest, f, k => go rest (f / N) (upd k i (f % N))
  go shape.zipIdx.reverse f (fun _ => 0)

def fieldOf (shape : List Nat) (C : Nat) (a : Array Float) : Idx → Nat → Float :=
  fun n c => a.getD (flatIdx shape n * C + c) nan

def cfieldOf (shape : List Nat) (C : Nat) (a : Array Float) : Idx → Nat → Cx Float :=
  fun k c => let p := 2 * (flatIdx shape k * C + c); ⟨a.getD p nan, a.getD (p + 1) nan⟩

def matOf (cols : Nat) (a : Array Float) : Nat → Nat → Float := fun r c => a.getD (r * cols + c) nan
def vecOf (a : Array Float) : Nat → Float := fun c => a.getD c nan

/-- evaluate a field at every grid point and channel (row-major) -/
def tabulate (shape : List Nat) (C : Nat) (f : Idx → Nat → Float) : Array Float := Id.run do
  let mut out := Array.mkEmpty (prod shape * C)
  for p in [0:prod shape] do
    let n := unflat shape p
    for c in [0:C] do
      out := out.push (f n c)
  return out

structure RawLayer where
  modes : List Nat
  lin : Bool
  skip : Bool
  kern : List Float
  W : List Float
  b : List Float

def checkLayer (shape : List Nat) (C : Nat) (r : RawLayer) : Option String :=
  if r.modes.length ≠ shape.length then some "err:shape"
  else if r.modes.any (· = 0) then some "err:size"
  else if r.kern.length ≠ 2 * prod r.modes * C then some "bad-op kern-len"
  else if r.lin && r.W.length ≠ C * C then some "bad-op W-len"
  else if r.lin && r.b.length ≠ C && r.b.length ≠ 0 then some "bad-op b-len"
  else none

def mkLayer (C : Nat) (r : RawLayer) : Layer Float :=
  { modes := r.modes, kern := cfieldOf r.modes C r.kern.toArray, lin := r.lin,
    W := matOf C r.W.toArray, b := if r.b.isEmpty then (fun _ => 0.0) else vecOf r.b.toArray, skip := r.skip }

def splitShape (shape : List Nat) : Option (List Nat × Nat) :=
  match shape.getLast? with
  | none => none
  | some l => some (shape.dropLast, l)

def showFloats (a : Array Float) : String := " ".intercalate (a.toList.map showFloat)

def actOf : String → Option (Float → Float)
  | "tanh" => some Float.tanh
  | "relu" => some (fun x => if x > 0.0 then x else 0.0)
  | "id" => some id
  | "sin" => some Float.sin
  | _ => none

def rawLayer (withAct : Bool) : P (RawLayer × String) := do
  let modes ← many nat; let lin ← bool; let skip ← bool
  let kern ← many float; let W ← many float; let b ← many float
  let act ← if withAct then next else pure "id"
  return ({ modes, lin, skip, kern, W, b }, act)

def var : P (String × Nat) := do
  let v ← next; let d ← nat
  return (v, d)

/-- the rest of an `fno` / `fnonamed` request after the shape.  `named = some (fix?, src, dst)`: the input
    has `vdim src` channels laid out by `src` and goes through `fixOrder` resp. `selectVars` first -/
def fnoRequest (shape : List Nat) (named : Option (Bool × Vars × Vars)) : P String := do
  let Cin ← nat; let C ← nat; let Cout ← nat
  let upW ← many float; let upb ← many float
  let layers ← many (rawLayer true)
  let downW ← many float; let downb ← many float
  let x ← many float
  match splitShape shape with
  | none => return "err:shape"
  | some (pre, last) =>
    if shape.any (· = 0) || C = 0 || Cin = 0 || Cout = 0 then return "err:size"
    if upW.length ≠ C * Cin || upb.length ≠ C || downW.length ≠ Cout * C || downb.length ≠ Cout then
      return "bad-op updown-len"
    let CinData := match named with
      | none => Cin
      | some (_, src, _) => vdim src
    if x.length ≠ prod shape * CinData then return "bad-op x-len"
    for (raw, act) in layers do
      match checkLayer shape C raw with
      | some e => return e
      | none => if (actOf act).isNone then return "bad-op act"
    let x0 := fieldOf shape CinData x.toArray
    let xin : Option (Idx → Nat → Float) := match named with
      | none => some x0
      | some (true, src, dst) => fixOrder src dst x0
      | some (false, src, dst) => (selectVars src dst x0).bind (fixOrder dst dst)
    match xin, named with
    | none, _ => return "err:names"
    | some xin, named =>
      if let some (_, _, dst) := named then
        if vdim dst ≠ Cin then return "err:channels"
      let up : (Nat → Float) → (Nat → Float) := linear Cin (matOf Cin upW.toArray) (vecOf upb.toArray)
      let down : (Nat → Float) → (Nat → Float) := linear C (matOf C downW.toArray) (vecOf downb.toArray)
      let mut cur := tabulate shape C (pointwise up xin)
      for (raw, act) in layers do
        let a := (actOf act).getD id
        let L := mkLayer C raw
        -- one step of `fnoBody`, tabulated
        cur := tabulate shape C (fnoBody pre last C [(L, a)] (fieldOf shape C cur))
      let out := tabulate shape Cout (pointwise down (fieldOf shape C cur))
      return showFloats out

/-- symbolic tensor operations for `prog` -/
def symOps : Ops String :=
  { rfftn := fun a => s!"rfftn({a})", pad := fun a => s!"pad({a})", mul := fun a b => s!"mul({a},{b})",
    irfftn := fun a => s!"irfftn({a})", lin := fun a => s!"lin({a})", add := fun a b => s!"add({a},{b})" }

def step (line : String) : String :=
  let r : Except String String := (do
    let op ← next
    match op with
    | "layer" => do
      let shape ← many nat; let C ← nat
      let (raw, _) ← rawLayer false
      let x ← many float
      match splitShape shape with
      | none => return "err:shape"
      | some (pre, last) =>
        if shape.any (· = 0) || C = 0 then return "err:size"
        match checkLayer shape C raw with
        | some e => return e
        | none =>
          if x.length ≠ prod shape * C then return "bad-op x-len"
          let L := mkLayer C raw
          let out := tabulate shape C (layer pre last C L (fieldOf shape C x.toArray))
          return showFloats out
    | "fno" => do
      let shape ← many nat
      fnoRequest shape none
    | "fnonamed" => do
      let mode ← next
      let src ← many var; let dst ← many var
      let shape ← many nat
      if mode ≠ "fix" && mode ≠ "select" then return "bad-op mode"
      fnoRequest shape (some (mode == "fix", src, dst))
    | "prog" => do
      let lin ← bool; let skip ← bool
      let s := runProg (initStore "p" "k" "junk") (forwardProg symOps lin skip)
      return s!"points={s.heap 0} kernel={s.heap 1} result={s.read .ifft} spec={forwardValue symOps lin skip "p" "k"}"
    | _ => return "bad-op" : P String).run' (tokens line)
  match r with
  | .ok s => s
  | .error e => s!"bad-op {e}"

def main : IO Unit := mainLoop step
