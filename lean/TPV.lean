-- This module serves as the root of the `TPV` library.
-- Import modules here that should be built as part of the library.
import TPV.Basic
