#!/bin/bash
# re-validate a previously missed seed after the check was strengthened; keeps suite info and records history
# usage: revalidate.sh <Cxx> <seed-dir-name e.g. C07-a-m1> "<history note>"
p=$1; d=$2; note=$3
cd /verif
cp seeded/$d/meta.json /tmp/meta_old_$d.json
python3 tools/validate_seed.py $p seeded/$d ${d#*-} --no-suite | tail -1
python3 - "$d" "$note" <<'PY'
import json,sys
d,note=sys.argv[1],sys.argv[2]
old=json.load(open(f"/tmp/meta_old_{d}.json")); new=json.load(open(f"/verif/seeded/{d}/meta.json"))
if "suite" in old and "suite" not in new: new["suite"]=dict(old["suite"], note="measured in the first validation run")
new["valid_seed"]= new["demo_clean"]["exit"]==0 and new["demo_changed"]["exit"]!=0 and new["apply"]["exit"]==0
hist=old.get("history_runs",[])+[dict(check_exit=old["check"]["exit"], caught=old.get("caught"), caught_with_failing_input=old.get("caught_with_failing_input"), summary=old["check"]["summary"][-160:])]
new["history_runs"]=hist; new["history"]=note
json.dump(new,open(f"/verif/seeded/{d}/meta.json","w"),indent=1)
PY
