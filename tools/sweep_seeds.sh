#!/bin/bash
# re-runs the quick check of every seeded (property-breaking) change against the CURRENT /repo head and prints one line each;
# usage: tools/sweep_seeds.sh [parallelism]   (scratch worktrees under /tmp, removed afterwards; /repo is not touched)
cd "$(dirname "$0")/.."
P=${1:-5}
ls seeded | grep -v -- "-h-" | grep "^C[0-9][0-9]-" | xargs -P $P -I{} sh -c '
d={}; p=${d%%-*}; wt=/tmp/sweep_$d
git -C /repo worktree add -q $wt HEAD 2>/dev/null
patch=/verif/seeded/$d/patch.diff
for alt in /verif/seeded/$d/patch.ported-*.diff /verif/seeded/$d/patch.rebased*.diff; do [ -f "$alt" ] && patch=$alt; done
if git -C $wt apply $patch 2>/dev/null; then
  out=$(cd /verif && VERIF_REPO=$wt ./check $p --tier quick 2>/dev/null | grep -v "^KNOWN" )
  rc=$(echo "$out" | grep -o "exit=[0-9]*" | tail -1)
  nf=$(echo "$out" | grep -c "no-failing-input-found")
  fl=$(echo "$out" | grep -o "failures=[0-9]*" | tail -1)
  echo "$d $rc $fl nofail=$nf patch=$(basename $patch)"
else
  echo "$d STALE (patch does not apply to the current head)"
fi
git -C /repo worktree remove --force $wt 2>/dev/null
'
