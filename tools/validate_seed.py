#!/usr/bin/env python3
"""validate a seeded change and record it under /verif/seeded/<id>/.
usage: validate_seed.py <property> <seed_dir containing patch.diff, demo.py[, notes.md]> <name> [--tier quick|thorough] [--no-suite]
Everything happens in a scratch worktree of /repo (removed afterwards); /repo itself is not touched."""
import json, os, re, shutil, subprocess, sys, time

def sh(cmd, **kw):
    return subprocess.run(cmd, shell=True, capture_output=True, text=True, **kw)

def main():
    prop, sdir, name = sys.argv[1:4]
    tier = "quick"
    if "--tier" in sys.argv:
        tier = sys.argv[sys.argv.index("--tier") + 1]
    suite = "--no-suite" not in sys.argv
    wt = f"/tmp/val_{prop}_{name}_{os.getpid()}"
    sh(f"git -C /repo worktree add -q {wt} HEAD")
    meta = dict(property=prop, name=name, repo_head=sh("git -C /repo rev-parse --short HEAD").stdout.strip(), tier=tier)
    try:
        env = f"PYTHONPATH={wt}/src"
        demo = os.path.abspath(os.path.join(sdir, "demo.py"))
        r0 = sh(f"cd /tmp && {env} timeout 600 /venv/bin/python {demo}")
        meta["demo_clean"] = dict(exit=r0.returncode, tail=(r0.stdout + r0.stderr)[-300:])
        ra = sh(f"git -C {wt} apply {os.path.abspath(os.path.join(sdir, 'patch.diff'))}")
        meta["apply"] = dict(exit=ra.returncode, err=ra.stderr[-300:])
        r1 = sh(f"cd /tmp && {env} timeout 600 /venv/bin/python {demo}")
        meta["demo_changed"] = dict(exit=r1.returncode, tail=(r1.stdout + r1.stderr)[-400:])
        if suite:
            rs = sh(f"cd {wt} && {env} timeout 1800 /venv/bin/python -m pytest -q -p no:cacheprovider tests 2>&1 | tail -3")
            m = re.search(r"(\d+) failed, (\d+) passed|(\d+) passed", rs.stdout)
            meta["suite"] = dict(tail=rs.stdout[-300:], failed=int(m.group(1)) if m and m.group(1) else 0,
                                 passed=int(m.group(2) or m.group(3)) if m else None)
        t0 = time.time()
        rc = sh(f"cd /verif && VERIF_REPO={wt} ./check {prop} --tier {tier}")
        out = rc.stdout
        viol = [l for l in out.split("\n") if l.startswith("VIOLATION")]
        meta["check"] = dict(cmd=f"VERIF_REPO=<worktree with patch> ./check {prop} --tier {tier}", exit=rc.returncode,
                             violation_lines=viol, summary=out.strip().split("\n")[-1][-400:], wall_s=round(time.time() - t0, 1),
                             stderr_tail=rc.stderr[-300:])
        if viol:
            m = re.search(r"replay=(\S+)", viol[0])
            if m and os.path.exists(os.path.join("/verif", m.group(1))):
                rp = json.load(open(os.path.join("/verif", m.group(1))))
                meta["check"]["replay_excerpt"] = json.dumps(rp.get("failing_input") or rp.get("first") or rp, default=str)[:1200]
        meta["caught"] = bool(viol) and rc.returncode == 1
        meta["caught_with_failing_input"] = meta["caught"] and "no-failing-input-found" not in viol[0]
        ok = meta["demo_clean"]["exit"] == 0 and meta["demo_changed"]["exit"] != 0 and ra.returncode == 0
        if suite:
            ok = ok and meta["suite"]["passed"] == 781 and meta["suite"]["failed"] == 3
        meta["valid_seed"] = ok
        dst = f"/verif/seeded/{prop}-{name}"
        os.makedirs(dst, exist_ok=True)
        for f in ("patch.diff", "demo.py", "notes.md"):
            src = os.path.join(sdir, f)
            if os.path.exists(src) and os.path.abspath(src) != os.path.abspath(os.path.join(dst, f)):
                shutil.copy(src, os.path.join(dst, f))
        json.dump(meta, open(os.path.join(dst, "meta.json"), "w"), indent=1)
        print(json.dumps({k: meta[k] for k in ("valid_seed", "caught", "caught_with_failing_input")}), meta["check"]["summary"][-200:])
    finally:
        sh(f"git -C /repo worktree remove --force {wt}")

main()
