#!/usr/bin/env python3
"""run the checks against a HARMLESS rewrite (a change after which the property still holds) and record the outcome under
/verif/seeded/<prop>-h-<name>/.  Expected: every check exits 0.
usage: validate_harmless.py <property> <seed_dir containing patch.diff, demo.py[, notes.md]> <name> [--all] [--no-suite]
The checks run are the property's own plus every check whose anchored code lives in a directory the patch touches."""
import json, os, re, shutil, subprocess, sys, time

AREA = {  # path fragment -> checks that exercise it
    "problem/domains": ["C01", "C05", "C06", "C10", "C11", "C17", "C18", "C02"],
    "problem/samplers": ["C01", "C02", "C11", "C14", "C15"],
    "problem/spaces": ["C12", "C13", "C08", "C04", "C02", "C05"],
    "problem/conditions": ["C04", "C07", "C14", "C16", "C19"],
    "models": ["C08", "C09", "C20", "C07", "C19", "C04"],
    "utils/user_fun": ["C13", "C17", "C04", "C05"],
    "utils/differentialoperators": ["C03"],
    "utils/data": ["C16"],
    "solver": ["C07", "C19"],
    "utils/callbacks": ["C19"],
}


def sh(cmd, **kw):
    return subprocess.run(cmd, shell=True, capture_output=True, text=True, **kw)


def main():
    prop, sdir, name = sys.argv[1:4]
    suite = "--no-suite" not in sys.argv
    patch = os.path.abspath(os.path.join(sdir, "patch.diff"))
    files = re.findall(r"^\+\+\+ b/(\S+)", open(patch).read(), re.M)
    checks = [prop]
    for f in files:
        for frag, cs in AREA.items():
            if frag in f:
                checks += [c for c in cs if c not in checks]
    if "--all" in sys.argv:
        checks = [prop] + [f"C{i:02d}" for i in range(1, 21) if f"C{i:02d}" != prop]
    wt = f"/tmp/valh_{prop}_{name}_{os.getpid()}"
    sh(f"git -C /repo worktree add -q {wt} HEAD")
    meta = dict(property=prop, name=name, kind="harmless rewrite (the property still holds; expected: every check exits 0)",
                repo_head=sh("git -C /repo rev-parse --short HEAD").stdout.strip(), files=files)
    try:
        env = f"PYTHONPATH={wt}/src"
        ra = sh(f"git -C {wt} apply {patch}")
        meta["apply"] = dict(exit=ra.returncode, err=ra.stderr[-300:])
        demo = os.path.abspath(os.path.join(sdir, "demo.py"))
        if os.path.exists(demo) and ra.returncode == 0:
            r1 = sh(f"cd {os.path.dirname(demo)} && {env} timeout 900 /venv/bin/python {demo}")
            meta["demo_changed"] = dict(exit=r1.returncode, tail=(r1.stdout + r1.stderr)[-300:])
        if suite and ra.returncode == 0:
            rs = sh(f"cd {wt} && {env} timeout 1800 /venv/bin/python -m pytest -q -p no:cacheprovider tests 2>&1 | tail -3")
            m = re.search(r"(\d+) failed, (\d+) passed|(\d+) passed", rs.stdout)
            meta["suite"] = dict(tail=rs.stdout[-200:], failed=int(m.group(1)) if m and m.group(1) else 0,
                                 passed=int(m.group(2) or m.group(3)) if m else None)
        meta["checks"] = {}
        if ra.returncode == 0:
            for c in checks:
                t0 = time.time()
                rc = sh(f"cd /verif && VERIF_REPO={wt} ./check {c} --tier quick")
                viol = [l for l in rc.stdout.split("\n") if l.startswith("VIOLATION")]
                ent = dict(exit=rc.returncode, violation_lines=viol, summary=rc.stdout.strip().split("\n")[-1][-300:],
                           wall_s=round(time.time() - t0, 1))
                if rc.returncode not in (0, 1):
                    ent["stderr_tail"] = rc.stderr[-400:]
                if viol:
                    m = re.search(r"replay=(\S+)", viol[0])
                    if m and os.path.exists(os.path.join("/verif", m.group(1))):
                        rp = json.load(open(os.path.join("/verif", m.group(1))))
                        ent["replay_excerpt"] = json.dumps(rp, default=str)[:1500]
                meta["checks"][c] = ent
        meta["silent"] = bool(meta["checks"]) and all(e["exit"] == 0 for e in meta["checks"].values())
        dst = f"/verif/seeded/{prop}-h-{name}"
        os.makedirs(dst, exist_ok=True)
        extra = [f for f in os.listdir(os.path.dirname(os.path.abspath(sdir))) if f.endswith(".py")]
        for f in extra:   # helper modules some demos import from the parent directory
            shutil.copy(os.path.join(os.path.dirname(os.path.abspath(sdir)), f), os.path.join(dst, f))
        for f in ("patch.diff", "demo.py", "notes.md"):
            src = os.path.join(sdir, f)
            if os.path.exists(src) and os.path.abspath(src) != os.path.abspath(os.path.join(dst, f)):
                shutil.copy(src, os.path.join(dst, f))
        json.dump(meta, open(os.path.join(dst, "meta.json"), "w"), indent=1)
        print(prop, name, "silent" if meta["silent"] else "ALARM", {c: e["exit"] for c, e in meta["checks"].items()},
              "suite", meta.get("suite", {}).get("passed"), "apply", ra.returncode)
    finally:
        sh(f"git -C /repo worktree remove --force {wt}")


main()
