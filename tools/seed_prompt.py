import json,sys,subprocess,os
props={json.loads(l)['id']:json.loads(l) for l in open('/verif/properties.jsonl')}
def prompt(pid, tag, flavour=""):
    p=props[pid]
    wt=f"/tmp/seed_{pid}_{tag}"
    out=f"/tmp/seed_out/{pid}_{tag}"
    FLAVOUR=flavour
    return wt,out,f"""You are testing how good a verification effort is by seeding realistic bugs. You get ONE semantic property of the Python library boschresearch/torchphysics (a PyTorch library for physics-informed neural networks) and your own scratch git worktree of the repository at {wt} (already created; the library sources are under {wt}/src/torchphysics, tests under {wt}/tests). Do not read or use anything under /verif — your work must be independent of it — and do not touch /repo itself.

The property (it currently holds on the worktree as far as anyone knows):

Title: {p['title']}
Statement: {p['statement']}
Quantifier: {p['quantifier']['text']}
Relevant files: {', '.join(p['anchors']['files'])}

{FLAVOUR}Your task: produce TWO different, independent changes to the library source (each a small, realistic-looking edit such as a refactoring slip, an off-by-one, a wrong axis/index, a swapped argument, a dropped special case, an optimisation that is not quite equivalent, or two cooperating edits that each look fine alone) such that with the change
 (1) the library still imports and the repository's existing test-suite still passes exactly as before: run `cd {wt} && PYTHONPATH={wt}/src /venv/bin/python -m pytest -q -p no:cacheprovider tests 2>&1 | tail -5` (takes about a minute; on the unchanged worktree 781 tests pass and 3 animation tests in tests/tests_plots/test_animation.py fail — that baseline must be unchanged; first confirm with `PYTHONPATH={wt}/src /venv/bin/python -c "import torchphysics; print(torchphysics.__file__)"` that the worktree copy is the one being imported), and
 (2) the property above is violated, but only under something specific — a particular size relation, an unusual but legal input, a multi-step sequence of calls, a particular configuration, a nested/composed object, a boundary case — NOT in a way that any ordinary first use would expose at once. Prefer changes that a code reviewer could plausibly miss. The two changes should break the property in different ways / different code paths.

For each change i in {{1,2}} write into {out}/m{{i}}/ (create the directories):
 - patch.diff : `git -C {wt} diff` of exactly that change (apply only one change at a time; reset the worktree with `git -C {wt} checkout -- .` between the two; NEVER use `git stash`: stashes are shared between all worktrees of the repository and other people work in other worktrees),
 - demo.py : a small standalone program, run as `PYTHONPATH=<tree>/src /venv/bin/python demo.py`, that exits 0 and prints PASS on the unchanged tree and exits 1 printing FAIL plus what went wrong on the changed tree; it must check the property itself (in the sense of the statement above), deterministically (fix seeds), not an implementation detail,
 - notes.md : which part of the property it breaks, what exactly is needed for it to manifest, why the existing tests do not see it, and the commands you ran with their outcome (test-suite tail with the change, demo with and without the change).
Verify all of that yourself before finishing (demo passes on the clean worktree, fails with the change; test-suite baseline unchanged with the change). Leave the worktree clean (`git -C {wt} checkout -- .`) when you are done. Python is /venv/bin/python (torch 2.14 CPU, pytorch-lightning). No network. Your final message: for each change one paragraph (file/lines edited, what breaks, what it needs to manifest, verification results)."""
def harmless_prompt(pid, tag):
    p=props[pid]
    wt=f"/tmp/seed_{pid}_{tag}"
    out=f"/tmp/seed_out/{pid}_{tag}"
    return wt,out,f"""You are testing a verification effort for FALSE ALARMS. You get ONE semantic property of the Python library boschresearch/torchphysics (a PyTorch library for physics-informed neural networks) and your own scratch git worktree of the repository at {wt} (already created; library sources under {wt}/src/torchphysics, tests under {wt}/tests). Do not read or use anything under /verif — your work must be independent of it — and do not touch /repo itself.

The property (it currently holds on the worktree as far as anyone knows):

Title: {p['title']}
Statement: {p['statement']}
Quantifier: {p['quantifier']['text']}
Relevant files: {', '.join(p['anchors']['files'])}

Your task: produce THREE different, independent changes to the library source, each of the kind a maintainer would realistically merge, that alter the code this property is anchored in while the property STILL HOLDS afterwards (and everything else a user could rely on per the docstrings still holds). Aim for variety and for changes that a naive checker which compares against the old implementation's incidental behaviour would wrongly flag, for example:
 - a genuine refactoring (extract helper, vectorise a loop or de-vectorise, replace an idiom by an equivalent one, reorder independent statements, rename private attributes/helpers, different but equivalent index arithmetic);
 - an algorithmic variation that stays within the statement: a different but still correct traversal / batch order, a different number or order of random draws (torch.rand called once for all axes instead of per axis, randperm replaced by argsort of rand, different rejection-sampling batch sizes), a different but still valid choice where the statement leaves freedom (which valid point, which order of returned rows, which of several equal representations), extra internal caching that is invalidated correctly;
 - different exception type / message text for inputs that are rejected anyway, added input validation for inputs that were already illegal, changed private defaults that do not alter documented behaviour, dtype/device handling that produces the same values, changed tolerances of internal tests that remain within the statement's "up to floating-point tolerance".
Each change must (1) keep the library importable and the existing test-suite passing exactly as before: run `cd {wt} && PYTHONPATH={wt}/src /venv/bin/python -m pytest -q -p no:cacheprovider tests 2>&1 | tail -5` (about a minute; on the unchanged worktree 781 tests pass and 3 animation tests in tests/tests_plots/test_animation.py fail — that baseline must be unchanged; first confirm with `PYTHONPATH={wt}/src /venv/bin/python -c "import torchphysics; print(torchphysics.__file__)"` that the worktree copy is the one imported), and (2) really preserve the property for ALL inputs the quantifier ranges over — argue this carefully in the notes; if in doubt, choose a safer change. Do not make trivial no-ops (comments/whitespace only) — the executed code must differ.

For each change i in {{1,2,3}} write into {out}/m{{i}}/ (create the directories):
 - patch.diff : `git -C {wt} diff` of exactly that change (apply only one change at a time; reset with `git -C {wt} checkout -- .` between them; NEVER use `git stash` and never `pkill`: other people work in other worktrees of this repository),
 - demo.py : a small standalone program, run as `PYTHONPATH=<tree>/src /venv/bin/python demo.py`, that checks the property itself (in the sense of the statement above, deterministically with fixed seeds, on a reasonable spread of inputs) and exits 0 printing PASS on BOTH the unchanged tree and the changed tree,
 - notes.md : what was changed, the argument why the property still holds for every input, what incidental behaviour differs from before (order, random stream, messages, internals), and the commands you ran with outcomes (test-suite tail with the change, demo with and without the change).
Verify all of that yourself. Leave the worktree clean (`git -C {wt} checkout -- .`) when done. Python is /venv/bin/python (torch 2.14 CPU, pytorch-lightning). No network. Your final message: for each change one paragraph (file/lines edited, why harmless, what incidental behaviour changes, verification results)."""

if __name__=="__main__":
    pid,tag=sys.argv[1],sys.argv[2]
    fl=""
    if tag.startswith("b"):
        fl=("IMPORTANT for this round: easy single-line slips in the most obvious function have been tried already. At least ONE of your two changes must consist of TWO cooperating edits in different functions or files that each look harmless (or even correct) alone and only break the property together; the other should need a multi-step history / sequence of API calls, a particular interplay of two configuration options, or state carried over between calls to manifest. Prefer code paths away from the most obvious entry point (helpers, base classes, less used classes named in the file list, option combinations). ")
    if tag.startswith("c"):
        fl=("IMPORTANT for this round: two earlier rounds already tried (a) single slips in the obvious functions and (b) cooperating edits / state carried between calls. This round wants changes that reach the property through an INDIRECT path or an UNCOMMON BUT LEGAL input class: e.g. an edit in a shared base class or helper used by the property's code (Points, Space, UserFunction, Domain/BoundaryDomain base class, sampler base classes, model base class, utils) whose effect on THIS property only shows for particular callers; or an edit that only matters for float64 tensors, 3-D or 1-D spaces, a single parameter row (k=1) versus none, n=1, very large n, negative or large coordinates, vector-valued parameters, three-level nesting, variables whose names are prefixes of each other, non-contiguous or expanded tensors, requires_grad inputs, or inputs on which an earlier API call left derived state. Avoid the most obvious function of the most obvious class. ")
    if tag.startswith("d"):
        fl=("IMPORTANT for this round: three earlier rounds already tried (a) single slips in the obvious functions, (b) cooperating edits / state carried between calls, (c) indirect paths through shared helpers and uncommon input classes (float64, long variable names, decorated callables, 3-D, n=1). This round: FIRST list for yourself every public class, constructor option, keyword argument, default value and code branch in the relevant files that the property's statement quantifies over (read the docstrings), and pick the ones LEAST likely to be exercised by an ordinary checker: rarely used classes or subclasses, options whose default is almost always kept, the `d=`/density form instead of `n=`, `device` arguments, weights/`root`/`norm` variants, boundary objects of composed domains, empty or size-1 collections, very large or very small but legal magnitudes (1e-6 .. 1e6), negative or reversed but documented-legal arguments, a second or later call on the same object, deepcopy/pickle/state_dict round trips of the objects involved, subclasses that override one method, and interactions with pytorch-lightning hooks. Then make each of your two changes matter ONLY there. At least one change must be an edit that looks like a deliberate improvement (a clamp, a cache, an early return, a vectorisation, a default changed 'for safety', an added validation) rather than a slip. ")
    if tag.startswith("e"):
        fl=("IMPORTANT for this round: four earlier rounds tried (a) single slips in obvious functions, (b) cooperating edits / state between calls, (c) indirect paths via shared helpers and uncommon input classes, (d) rarely used classes/options/value ranges and edits dressed as improvements. This round wants changes in how VALUES ARE FORWARDED AND OBJECTS ARE COPIED: an argument dropped or replaced by its default when one public method calls another (`params`, `device`, `n` vs `d`, `iteration`, `weight`, keyword names), a `.boundary` / evaluated / deep-copied / re-wrapped object that loses or shares one attribute of its parent (a flag, a user-set value, a tolerance, a cached tensor), shallow instead of deep copy or the reverse, an attribute computed once at construction that should follow a later public setter (or the reverse: recomputed where the stored value must win), results that alias internal buffers so that a caller's later in-place edit (or the library's) changes an earlier result, dtype/device taken from the wrong operand, and the SECOND or LATER use of an object (second `sample_points`, second `forward`, second `fit`, second `bounding_box`, second iteration over a loader) differing from what a fresh object would do. Make each change matter only along such a path; the first, plain use of a fresh object with default arguments must stay exactly right. At least one of the two changes must NOT be in the file a reader of the property would open first. ")
    wt,out,txt=harmless_prompt(pid,tag) if tag.startswith("h") else prompt(pid,tag,fl)
    os.makedirs(out,exist_ok=True)
    if not os.path.exists(wt):
        subprocess.run(["git","-C","/repo","worktree","add","-q",wt,"HEAD"],check=True)
    open(f"/tmp/seedprompt_{pid}_{tag}.txt","w").write(txt)
    print(wt,out,len(txt))
