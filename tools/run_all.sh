#!/bin/bash
# runs every registered check once (quick by default) and prints one summary line each
tier=${1:-quick}
cd "$(dirname "$0")/.."
for f in harness/registry.d/C*.json; do
  id=$(basename $f .json)
  s=$(date +%s)
  out=$(./check $id --tier $tier 2>&1)
  rc=$?
  e=$(date +%s)
  echo "$id exit=$rc $((e-s))s $(echo "$out" | grep -E '^(VIOLATION|KNOWN-FINDING)' | cut -c1-160 | tr '\n' ';')"
done
